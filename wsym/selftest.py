"""Translator validation: run real host code with wp.launch intercepted; every intercepted launch is executed both by the
real compiled kernel (Warp CPU device) and by the interpreter on concrete values (all threads, ascending order); outputs
must agree (ints exact, floats to tolerance).  This validates the encoding; it is not a deciding step."""

import itertools
import time

import numpy as np
import warp as wp

from . import core
from .core import ArrRef, Cell, Interp, Unsupported, Vec, dtype_info


def cell_from_numpy(name, arr_np, wpdtype, ndim):
  sk, ncomp, vshape, vdt = dtype_info(wpdtype)
  shape = list(arr_np.shape[:ndim])
  flat = arr_np.reshape(int(np.prod(shape)) if shape else 1, ncomp) if ncomp > 1 or True else None
  conv = {"int": int, "real": float, "bool": bool}[sk]
  d = [[conv(x) for x in flat[:, k]] for k in range(ncomp)]
  return Cell(name, shape, sk, ncomp, vshape, vdt, mode="dense", init=d, wptype=wpdtype)


def cell_to_numpy(cell):
  n = cell.size
  out = np.zeros((n, cell.ncomp), dtype=np.float64 if cell.dtype == "real" else np.int64 if cell.dtype == "int" else bool)
  for k in range(cell.ncomp):
    out[:, k] = cell.d[k]
  return out.reshape(tuple(cell.shape) + tuple(cell.vshape))


def conv_scalar_arg(a, t):
  if isinstance(a, (np.generic,)):
    a = a.item()
  if core.is_vec_type(t) and not isinstance(a, Vec):
    sk, n, vshape, vdt = dtype_info(t)
    vals = np.array(a, dtype=np.float64).reshape(-1).tolist()
    if sk == "int":
      vals = [int(v) for v in vals]
    return Vec(vals, vshape, vdt)
  sk = core.scalar_kind(t)
  if sk == "real":
    return float(a)
  if sk == "int":
    return int(a)
  if sk == "bool":
    return bool(a)
  return a


class LaunchRecord:
  def __init__(self, kernel, dim, args, pre, post):
    self.kernel, self.dim, self.args, self.pre, self.post = kernel, dim, args, pre, post


def record_launches(fn, max_dim=4096):
  """run fn() with wp.launch patched; returns list of LaunchRecord (numpy snapshots before/after each launch)."""
  recs = []
  orig = wp.launch
  orig_tiled = getattr(wp, "launch_tiled", None)

  def launch(kernel, dim, inputs=(), outputs=(), **kw):
    inputs = inputs or ()
    outputs = outputs or ()
    args = list(inputs) + list(outputs)
    d = (dim,) if isinstance(dim, (int, np.integer)) else tuple(int(x) for x in dim)
    tot = int(np.prod(d)) if d else 0
    tiled = kw.get("block_dim") is not None and "tile" in (kernel.key or "")
    if tot > max_dim or tiled:
      orig(kernel, dim, inputs=inputs, outputs=outputs, **kw)
      recs.append(LaunchRecord(kernel, d, None, None, None))
      return
    pre = [a.numpy().copy() if isinstance(a, wp.array) and a.ptr else (None if isinstance(a, wp.array) else a) for a in args]
    orig(kernel, dim, inputs=inputs, outputs=outputs, **kw)
    post = [a.numpy().copy() if isinstance(a, wp.array) and a.ptr else None for a in args]
    recs.append(LaunchRecord(kernel, d, args, pre, post))

  def launch_tiled(*a, **kw):
    orig_tiled(*a, **kw)
    kernel = a[0] if a else kw.get("kernel")
    dim = kw.get("dim")
    d = (dim,) if isinstance(dim, (int, np.integer)) else tuple(int(x) for x in dim)
    recs.append(LaunchRecord(kernel, d, None, None, None))

  wp.launch = launch
  if orig_tiled:
    wp.launch_tiled = launch_tiled
  try:
    fn()
  finally:
    wp.launch = orig
    if orig_tiled:
      wp.launch_tiled = orig_tiled
  return recs


def replay_record(rec, rtol=2e-3, atol=2e-4, unroll=10**6):
  """-> (status, detail): status in ok / skipped / mismatch / unsupported"""
  if rec.args is None:
    return "skipped", "tile or too large"
  specs = [(a.label, a.type) for a in rec.kernel.adj.args]
  cells = {}
  vals = []
  try:
    for (label, t), a, pre in zip(specs, rec.args, rec.pre):
      if isinstance(a, wp.array):
        if pre is None:
          vals.append(ArrRef(Cell(label, [0] * a.ndim, dtype_info(a.dtype)[0], *dtype_info(a.dtype)[1:], mode="dense", init=[[] for _ in range(dtype_info(a.dtype)[1])])))
          continue
        key = (a.ptr, a.shape, str(a.dtype), a.strides)
        if key not in cells:
          if not a.is_contiguous:
            return "skipped", "non-contiguous array"
          cells[key] = cell_from_numpy(label, pre, a.dtype, a.ndim)
        vals.append(ArrRef(cells[key]))
      elif a is None:
        vals.append(None)
      else:
        vals.append(conv_scalar_arg(a, t))
    # overlapping but distinct views -> cannot model
    ptrs = {}
    for (ptr, shape, dt, st) in cells:
      ptrs.setdefault(ptr, []).append(shape)
    if any(len(v) > 1 for v in ptrs.values()):
      return "skipped", "aliased views"
    for tid in itertools.product(*[range(n) for n in rec.dim]):
      it = Interp(unroll=unroll, tid=tid[0] if len(tid) == 1 else tid, track_access=False)
      it.call_pyfunc(rec.kernel.func, vals, name=rec.kernel.key)
      bad = [o for o in it.obl if o.kind == "bounds" and o.cond is False and o.guard is True]
      if bad:
        return "mismatch", f"interpreter saw OOB at {bad[0].where} tid={tid}"
  except Unsupported as ex:
    return "unsupported", str(ex)
  except Exception as ex:
    import traceback
    tb = traceback.extract_tb(ex.__traceback__)
    import os
    if os.environ.get("WSYM_DEBUG"):
      traceback.print_exc()
    return "unsupported", f"INTERNAL {type(ex).__name__}: {ex} @ {tb[-1].name}:{tb[-1].lineno}"
  # compare
  for (label, t), a, post in zip(specs, rec.args, rec.post):
    if not isinstance(a, wp.array) or post is None:
      continue
    key = (a.ptr, a.shape, str(a.dtype), a.strides)
    got = cell_to_numpy(cells[key])
    want = post.reshape(got.shape)
    if cells[key].dtype == "real":
      w = want.astype(np.float64)
      finite = np.isfinite(w)
      scale = float(np.max(np.abs(w[finite]))) if finite.any() else 0.0
      if not np.allclose(got[finite], w[finite], rtol=rtol, atol=atol + 1e-5 * scale):
        diff = np.abs(got - w)
        diff[~finite] = 0
        i = np.unravel_index(np.argmax(diff), diff.shape)
        return "mismatch", f"{label}{list(i)}: interp {got[i]} real {w[i]}"
    else:
      if not np.array_equal(got.astype(np.int64), want.astype(np.int64)):
        i = np.argwhere(got.astype(np.int64) != want.astype(np.int64))[0]
        return "mismatch", f"{label}{list(i)}: interp {got[tuple(i)]} real {want[tuple(i)]}"
  return "ok", ""


def selftest(fn, log=print, max_dim=4096, only=None):
  t0 = time.time()
  recs = record_launches(fn, max_dim=max_dim)
  stats = {"ok": 0, "skipped": 0, "mismatch": 0, "unsupported": 0}
  per_kernel = {}
  details = []
  for r in recs:
    if only and not only(r.kernel.key):
      continue
    st, det = replay_record(r)
    stats[st] += 1
    per_kernel.setdefault(r.kernel.key, set()).add(st)
    if st in ("mismatch", "unsupported"):
      details.append((r.kernel.key, st, det))
  return stats, per_kernel, details, time.time() - t0
