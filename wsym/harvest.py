"""Harvest kernel launches from the real host code on a corpus of tiny models.

Running the real public API (step / forward / reset_data / ...) with wp.launch intercepted yields, for every kernel the
host code launches: the kernel object with exactly the specialisation the host requested, the launch dims, and which
Model / Data field every array argument is bound to (by buffer identity).  This is regenerated from /repo on every run.
"""

import dataclasses
import itertools

import numpy as np
import warp as wp

CORPUS = {
  "arm": """<mujoco><option {opt}><flag {flag}/></option><worldbody><geom type="plane" size="5 5 .1"/>
<body pos="0 0 .09"><freejoint/><geom size=".1"/><site name="s1"/></body>
<body pos="1 0 1"><joint name="j" range="-1 1" limited="true" damping="0.1" stiffness="0.5"/><geom type="capsule" size=".1 .2"/>
  <body pos="0 0 .5"><joint name="k" type="slide" frictionloss="0.1"/><geom size=".1"/><site name="s2"/>
    <body pos="0 .3 0"><joint name="b" type="ball" range="0 1" limited="true"/><geom type="box" size=".1 .1 .1"/></body></body></body>
<body pos="3 0 0" mocap="true"><geom size=".05" contype="0" conaffinity="0"/></body></worldbody>
<equality><joint joint1="j" joint2="k" polycoef="0 1 0 0 0"/></equality>
<tendon><fixed name="t" limited="true" range="-1 1" frictionloss="0.01"><joint joint="j" coef="1"/><joint joint="k" coef="-1"/></fixed>
  <spatial name="sp"><site site="s1"/><site site="s2"/></spatial></tendon>
<actuator><motor joint="j"/><position joint="k" kp="10"/><general tendon="t" dyntype="filter" dynprm="0.1"/></actuator>
<sensor><jointpos joint="j"/><framepos objtype="site" objname="s2"/><tendonpos tendon="sp"/></sensor>
<keyframe><key qpos="0 0 .09 1 0 0 0 0.1 0.1 1 0 0 0"/></keyframe></mujoco>""",
  "weld": """<mujoco><option {opt}><flag {flag}/></option><worldbody><geom type="plane" size="5 5 .1"/>
<body name="a" pos="0 0 .2"><freejoint/><geom size=".1" condim="6"/></body>
<body name="b" pos=".5 0 .2"><freejoint/><geom size=".1" condim="1"/></body>
<body name="c" pos="1 0 .05"><joint type="slide" axis="0 0 1"/><geom type="capsule" size=".05 .1" condim="4"/></body></worldbody>
<equality><weld body1="a" body2="b"/><connect body1="b" body2="c" anchor="0 0 0"/></equality></mujoco>""",
}

VARIANTS = [
  ("dense-newton-pyr", 'jacobian="dense" solver="Newton" cone="pyramidal"', ""),
  ("sparse-newton-ell", 'jacobian="sparse" solver="Newton" cone="elliptic"', ""),
  ("sparse-cg-pyr", 'jacobian="sparse" solver="CG" cone="pyramidal"', ""),
  ("dense-cg-ell-implicit", 'jacobian="dense" solver="CG" cone="elliptic" integrator="implicitfast"', 'energy="enable"'),
  ("rk4", 'integrator="RK4"', ""),
]


def _fix_equality(xml):
  return xml


def batchable_fields(m):
  out = []
  for obj, pre in ((m, ""), (m.opt, "opt.")):
    for f in dataclasses.fields(obj):
      shp = getattr(f.type, "shape", None)
      if shp and shp[0] == "*":
        out.append(pre + f.name)
  return sorted(out)


def batch_model(m, nworld, select=None):
  """tile per-world-batchable ('*') Model / Option fields to nworld rows (as a user batching parameters would);
  select: optional set of field names (default: all)."""
  n = 0
  for obj, pre in ((m, ""), (m.opt, "opt.")):
    for f in dataclasses.fields(obj):
      shp = getattr(f.type, "shape", None)
      if not shp or shp[0] != "*":
        continue
      if select is not None and (pre + f.name) not in select:
        continue
      v = getattr(obj, f.name, None)
      if isinstance(v, wp.array) and v.shape[0] == 1 and v.ptr:
        a = v.numpy()
        setattr(obj, f.name, wp.array(np.repeat(a, nworld, axis=0), dtype=v.dtype))
        n += 1
  return n


def covering_selections(fields):
  """2*ceil(log2 n) subsets such that for every ordered pair (a, b) of distinct fields some subset contains a and not b:
  kernels specialised on which fields are batched are then built for every 'a batched, b not' combination."""
  n = len(fields)
  nb = max(1, (n - 1).bit_length())
  sels = []
  for b in range(nb):
    one = {f for i, f in enumerate(fields) if (i >> b) & 1}
    sels.append(one)
    sels.append(set(fields) - one)
  return sels


def field_map(m, d):
  """buffer ptr -> qualified field name"""
  out = {}

  def walk(obj, prefix, depth=0):
    if not dataclasses.is_dataclass(obj) or depth > 2:
      return
    for f in dataclasses.fields(obj):
      try:
        v = getattr(obj, f.name)
      except Exception:
        continue
      if isinstance(v, wp.array):
        if v.ptr:
          out.setdefault(v.ptr, f"{prefix}{f.name}")
      elif dataclasses.is_dataclass(v):
        walk(v, f"{prefix}{f.name}.", depth + 1)

  walk(m, "m.")
  walk(d, "d.")
  return out


class Launch:
  __slots__ = ("kernel", "dim", "binding", "shapes", "scalars", "model", "sizes", "dim_src", "site", "args_np")


_file_asts = {}


def _launch_dim_source(frame):
  """source text of the `dim` argument of the wp.launch call executing in `frame` (exact, from the host AST)."""
  import ast

  fn, ln = frame.f_code.co_filename, frame.f_lineno
  if (fn, ln) in _dim_cache:
    return _dim_cache[(fn, ln)]
  r = _launch_dim_source_uncached(fn, ln)
  _dim_cache[(fn, ln)] = r
  return r


_dim_cache = {}


def _launch_dim_source_uncached(fn, ln):
  import ast

  try:
    if fn not in _file_asts:
      _file_asts[fn] = ast.parse(open(fn).read())
    best = None
    for n in ast.walk(_file_asts[fn]):
      if isinstance(n, ast.Call) and isinstance(n.func, ast.Attribute) and n.func.attr == "launch" and n.lineno <= ln <= getattr(n, "end_lineno", n.lineno):
        if best is None or n.lineno >= best.lineno:
          best = n
    if best is None:
      return None, f"{fn}:{ln}"
    dim = None
    for kw in best.keywords:
      if kw.arg == "dim":
        dim = kw.value
    if dim is None and len(best.args) >= 2:
      dim = best.args[1]
    return (ast.unparse(dim) if dim is not None else None), f"{fn.split('/')[-1]}:{best.lineno}"
  except Exception:
    return None, f"{fn}:{ln}"


def harvest(models=None, variants=None, nworld=2, steps=2, extra=None, log=None, batched=("dense-newton-pyr", "sparse-newton-ell"), mixed=True, keep_args=None):
  """-> dict kernel.key -> list[Launch]"""
  import mujoco

  import mujoco_warp as mjw

  out = {}
  orig = wp.launch
  cur = {}

  def launch(kernel, dim, inputs=(), outputs=(), **kw):
    inputs, outputs = inputs or (), outputs or ()
    args = list(inputs) + list(outputs)
    L = Launch()
    L.kernel = kernel
    L.dim = (int(dim),) if isinstance(dim, (int, np.integer)) else tuple(int(x) for x in dim)
    L.binding, L.shapes, L.scalars = [], [], []
    for a in args:
      if isinstance(a, wp.array):
        L.binding.append(cur["fmap"].get(a.ptr) if a.ptr else None)
        L.shapes.append(tuple(a.shape))
        L.scalars.append(None)
      else:
        L.binding.append(None)
        L.shapes.append(None)
        L.scalars.append(a)
    L.args_np = None
    if keep_args and keep_args(kernel):
      L.args_np = [(a.numpy().copy() if isinstance(a, wp.array) and a.ptr else (np.zeros(a.shape + (() if not hasattr(a.dtype, "_shape_") else tuple(a.dtype._shape_))) if isinstance(a, wp.array) else a)) for a in args]
    L.model = cur["name"]
    L.sizes = cur["sizes"]
    import sys

    L.dim_src, L.site = _launch_dim_source(sys._getframe(1))
    out.setdefault(kernel.key, []).append(L)
    return orig(kernel, dim, inputs=inputs, outputs=outputs, **kw)

  wp.launch = launch
  try:
    for mname, xml in (models or CORPUS).items():
      for vname, opt, flag in variants or VARIANTS:
        x = _fix_equality(xml.format(opt=opt, flag=flag))
        try:
          mjm = mujoco.MjModel.from_xml_string(x)
        except Exception as ex:
          if log:
            log(f"corpus model {mname}/{vname} rejected by mujoco: {ex}")
          continue
        mjd = mujoco.MjData(mjm)
        if mjm.nkey:
          mujoco.mj_resetDataKeyframe(mjm, mjd, 0)
        mjd.qvel[:] = 0.05
        mjd.ctrl[:] = 0.1
        mujoco.mj_forward(mjm, mjd)
        m = mjw.put_model(mjm)
        d = mjw.put_data(mjm, mjd, nworld=nworld)
        cur["fmap"] = field_map(m, d)
        cur["name"] = f"{mname}/{vname}"
        cur["sizes"] = sizes_of(m, d)
        for _ in range(steps):
          mjw.step(m, d)
        if extra:
          extra(mjw, mjm, m, d)
        if batched and vname in batched:
          try:
            batch_model(m, nworld)
            cur["fmap"] = field_map(m, d)
            cur["name"] = f"{mname}/{vname}/batched"
            mjw.step(m, d)
          except Exception as ex:
            if log:
              log(f"batched step failed for {mname}/{vname}: {type(ex).__name__}: {ex}")
          if mixed and vname == batched[0]:
            # mixed batching: every 'field a batched, field b unbatched' combination occurs in some pass
            # only fields whose batch size is captured as a closure constant n<field> by some harvested kernel matter:
            # every other kernel reads shape[0] at run time and is checked with a symbolic batch size
            import inspect as _insp

            allf = batchable_fields(m)
            names = set()
            for Ls in out.values():
              try:
                names |= {k_ for k_, v_ in _insp.getclosurevars(Ls[0].kernel.func).nonlocals.items() if isinstance(v_, int)}
              except Exception:
                pass
            relevant = [f for f in allf if ("n" + f.replace("opt.", "opt_")) in names]
            for si, sel in enumerate(covering_selections(relevant) if relevant else []):
              try:
                m2 = mjw.put_model(mjm)
                d2 = mjw.put_data(mjm, mjd, nworld=nworld)
                batch_model(m2, nworld, select=sel)
                cur["fmap"] = field_map(m2, d2)
                cur["name"] = f"{mname}/{vname}/mixed{si}"
                cur["sizes"] = sizes_of(m2, d2)
                # kernels specialised on batch sizes live in the position stage (broadphase filters); the remaining
                # stages are covered by the unbatched / fully batched passes above
                mjw.fwd_position(m2, d2)
              except Exception as ex:
                if log:
                  log(f"mixed-batch step {si} failed for {mname}/{vname}: {type(ex).__name__}: {ex}")
  finally:
    wp.launch = orig
  return out


def sizes_of(m, d):
  s = {}
  for obj in (m, d):
    for f in dataclasses.fields(obj):
      v = getattr(obj, f.name, None)
      if isinstance(v, (int, np.integer)) and not isinstance(v, bool) and f.name.startswith("n"):
        s[f.name] = int(v)
  return s
