"""./vcheck <ID> [--tier quick|thorough] [--replay path]"""
import argparse
import importlib
import os
import sys


def main():
  ap = argparse.ArgumentParser()
  ap.add_argument("pid")
  ap.add_argument("--tier", default=os.environ.get("VERIF_TIER", "quick"))
  ap.add_argument("--replay", default=None)
  ap.add_argument("--only", default=None, help="comma-separated unit-name substrings (debugging)")
  a = ap.parse_args()
  if a.replay:
    from . import replay

    ok, text = replay.run_spec(a.replay)
    print(("REPRODUCED " if ok else "NOT-REPRODUCED ") + str(text))
    sys.exit(1 if ok else 0)
  import warp as wp

  wp.config.quiet = True
  seed = int(os.environ.get("VERIF_SEED", "0"))
  mod = importlib.import_module(f"checks.{a.pid.lower()}")
  try:
    if a.only:
      os.environ["WSYM_PARTIAL"] = "1"  # a debugging subset must not overwrite the property's evidence file
    rc = mod.main(a.tier, seed, only=a.only.split(",") if a.only else None)
  except Exception as ex:
    import traceback

    traceback.print_exc()
    print(f"HARNESS-ERROR property={a.pid}: {type(ex).__name__}: {ex}", file=sys.stderr)
    rc = 2
  sys.exit(rc)


if __name__ == "__main__":
  main()
