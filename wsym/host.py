"""H mode: run the REAL host function natively in Python, with shim Model/Data arrays backed by interpreter cells and
wp.launch / allocation / copy helpers patched so that every launch is executed thread by thread by the interpreter
(dense memory: concrete small shapes, symbolic contents) or merely recorded (trace mode)."""

import contextlib
import dataclasses
import itertools

import numpy as np
import warp as wp
import z3

from . import core
from .core import ArrRef, Cell, Interp, Unsupported, Vec, dtype_info


class SymArr(wp.array):
  """wp.array subclass carrying an interpreter cell (passes isinstance checks in host code)."""

  def __new__(cls, *a, **k):
    return object.__new__(cls)

  def __init__(self, name, shape, dtype, ref):
    self._shape = tuple(int(s) for s in shape)
    self._dtype = dtype
    self.ref = ref
    self.name_ = name

  shape = property(lambda self: self._shape)
  dtype = property(lambda self: self._dtype)
  ndim = property(lambda self: len(self._shape))
  size = property(lambda self: int(np.prod(self._shape)) if self._shape else 1)
  ptr = property(lambda self: id(self.ref.cell))
  device = property(lambda self: wp.get_device("cpu"))
  is_contiguous = property(lambda self: True)
  strides = property(lambda self: ())

  def __del__(self):
    pass

  def zero_(self):
    c = self.ref.cell
    if self.ref.prefix:
      raise Unsupported("zero_ on a view")
    z = 0 if c.dtype == "int" else (0.0 if c.dtype == "real" else False)
    c.fill(z)
    HostRun.note("zero_", self.name_)
    return self

  def fill_(self, v):
    c = self.ref.cell
    if self.ref.prefix:
      raise Unsupported("fill_ on a view")
    if hasattr(v, "__len__"):
      v = Vec([float(x) if c.dtype == "real" else int(x) for x in np.array(v).reshape(-1)], c.vshape, c.vdt)
    elif isinstance(v, (np.generic,)):
      v = v.item()
    c.fill(v)
    HostRun.note("fill_", self.name_)
    return self

  def numpy(self):
    c = self.ref.cell
    if self.ref.prefix:
      raise Unsupported("numpy() of a view")
    vals = []
    for k in range(c.ncomp):
      for x in c.d[k]:
        if core.is_sym(x):
          raise Unsupported(f"host code reads symbolic array {self.name_} via numpy()")
    a = np.zeros((c.size, c.ncomp), dtype=np.float32 if c.dtype == "real" else np.int32 if c.dtype == "int" else bool)
    for k in range(c.ncomp):
      a[:, k] = c.d[k]
    return a.reshape(tuple(c.shape) + tuple(c.vshape))

  def __getitem__(self, key):
    if isinstance(key, (int, np.integer)):
      ref = ArrRef(self.ref.cell, self.ref.prefix + (int(key),))
      return SymArr(f"{self.name_}[{key}]", self._shape[1:], self._dtype, ref)
    raise Unsupported("slicing a shim array")

  def reshape(self, *a, **k):
    raise Unsupported("reshape of a shim array")


def sym_array(name, shape, dtype, init=None):
  """dense cell with fresh symbolic contents (init=None) or concrete contents from a numpy array."""
  sk, ncomp, vshape, vdt = dtype_info(dtype)
  shape = [int(s) for s in shape]
  if init is not None:
    a = np.asarray(init)
    n = int(np.prod(shape)) if shape else 1
    flat = a.reshape(n, ncomp) if n else np.zeros((0, ncomp))
    conv = {"int": int, "real": float, "bool": bool}[sk]
    d = [[conv(x) for x in flat[:, k]] for k in range(ncomp)]
    cell = Cell(name, shape, sk, ncomp, vshape, vdt, mode="dense", init=d, wptype=dtype)
  else:
    cell = Cell(name, shape, sk, ncomp, vshape, vdt, mode="dense", wptype=dtype)
  cell.d0 = [list(x) for x in cell.d]
  return SymArr(name, shape, dtype, ArrRef(cell))


def shim_dataclass(obj, prefix, symbolic=lambda name: True, depth=0, cache=None):
  """copy of a Model/Data dataclass whose wp.array fields are SymArr (symbolic or concrete contents)."""
  if cache is None:
    cache = {}
  rep = {}
  for f in dataclasses.fields(obj):
    v = getattr(obj, f.name)
    if isinstance(v, SymArr):
      continue
    if isinstance(v, wp.array):
      key = (v.ptr, v.shape, str(v.dtype))
      if v.ptr and key in cache:
        rep[f.name] = cache[key]
        continue
      name = f"{prefix}{f.name}"
      init = None if symbolic(name) else (v.numpy() if v.ptr or v.size == 0 else None)
      if v.size == 0:
        init = np.zeros(v.shape + tuple(dtype_info(v.dtype)[2]))
      rep[f.name] = sym_array(name, v.shape, v.dtype, init)
      if v.ptr:
        cache[key] = rep[f.name]
    elif dataclasses.is_dataclass(v) and depth < 2:
      rep[f.name] = shim_dataclass(v, f"{prefix}{f.name}.", symbolic, depth + 1, cache)
  return dataclasses.replace(obj, **rep)


def arrays_of(obj, prefix="", depth=0):
  out = {}
  for f in dataclasses.fields(obj):
    v = getattr(obj, f.name)
    if isinstance(v, SymArr):
      out[prefix + f.name] = v
    elif dataclasses.is_dataclass(v) and depth < 2:
      out.update(arrays_of(v, f"{prefix}{f.name}.", depth + 1))
  return out


class Event:
  __slots__ = ("kind", "kernel", "dim", "args", "labels", "info")

  def __init__(self, kind, kernel=None, dim=None, args=None, labels=None, info=None):
    self.kind, self.kernel, self.dim, self.args, self.labels, self.info = kind, kernel, dim, args, labels, info


class HostRun:
  """with HostRun(mode='exec'|'trace') as hr: real_host_function(m, d, ...)"""

  current = None

  def __init__(self, mode="exec", unroll=64, on_launch=None, interp_kw=None, max_threads=20000, order="asc"):
    self.mode, self.unroll, self.on_launch = mode, unroll, on_launch
    self.order = order  # serial schedule of the threads of every launch: "asc" | "rev" | callable(list of tids) -> list
    self.events = []
    self.interp_kw = interp_kw or {}
    self.assumes = []
    self.obl = []
    self.conc_cache = {}
    self.nthreads = 0
    self.max_threads = max_threads
    self.tmp = itertools.count()

  @classmethod
  def note(cls, kind, name):
    if cls.current is not None:
      cls.current.events.append(Event(kind, info=name))

  def to_arg(self, a, t):
    if isinstance(a, SymArr):
      return a.ref
    if isinstance(a, wp.array):
      key = (a.ptr, a.shape, str(a.dtype))
      if key not in self.conc_cache:
        init = a.numpy() if a.size else np.zeros(a.shape + tuple(dtype_info(a.dtype)[2]))
        self.conc_cache[key] = sym_array(f"conc{len(self.conc_cache)}", a.shape, a.dtype, init)
      return self.conc_cache[key].ref
    if a is None:
      return None
    from .selftest import conv_scalar_arg

    if core.is_sym(a) or isinstance(a, (Vec, core.StructVal)):
      return a
    return conv_scalar_arg(a, t)

  def launch(self, kernel, dim, inputs=(), outputs=(), **kw):
    inputs, outputs = inputs or (), outputs or ()
    args = list(inputs) + list(outputs)
    d = (int(dim),) if isinstance(dim, (int, np.integer)) else tuple(int(x) for x in dim)
    specs = [(a.label, a.type) for a in kernel.adj.args]
    if len(specs) != len(args):
      raise Unsupported(f"launch of {kernel.key}: {len(args)} args for {len(specs)} params")
    labels = [a.name_ if isinstance(a, SymArr) else None for a in args]
    ev = Event("launch", kernel, d, None, labels)
    self.events.append(ev)
    if self.on_launch is not None:
      r = self.on_launch(self, kernel, d, args)
      if r == "skip":
        return
    if self.mode == "trace":
      return
    vals = [self.to_arg(a, t) for a, (l, t) in zip(args, specs)]
    import os, time
    _t0 = time.time()
    if os.environ.get("WSYM_VERBOSE"):
      print(f"[host] launch {kernel.key} dim={d}", flush=True)
    tids = list(itertools.product(*[range(n) for n in d]))
    if self.order == "rev":
      tids.reverse()
    elif callable(self.order):
      tids = list(self.order(tids))
    for tid in tids:
      self.nthreads += 1
      if self.nthreads > self.max_threads:
        raise Unsupported("too many threads in host run")
      it = Interp(unroll=self.unroll, tid=tid[0] if len(tid) == 1 else tid, track_access=False, **self.interp_kw)
      it.call_pyfunc(kernel.func, vals, name=kernel.key)
      self.assumes.extend(it.assumes)
      for o in it.obl:
        if o.kind == "unwind" or (o.kind == "bounds" and not (o.cond is True)):
          self.obl.append((kernel.key, tid, o))

  def _alloc(self, shape, dtype, fill):
    if isinstance(shape, (int, np.integer)):
      shape = (int(shape),)
    dtype = {bool: wp.bool, int: wp.int32, float: wp.float32}.get(dtype, dtype)  # as the real allocators canonicalise
    sk, ncomp, vshape, vdt = dtype_info(dtype)
    n = int(np.prod(shape)) if len(shape) else 1
    init = np.full((n, ncomp), fill, dtype=float)
    return sym_array(f"tmp{next(self.tmp)}", tuple(shape), dtype, init.reshape(tuple(shape) + tuple(vshape)))

  def __enter__(self):
    self.saved = {k: getattr(wp, k) for k in ("launch", "zeros", "empty", "zeros_like", "empty_like", "clone", "copy", "full", "launch_tiled", "ScopedDevice", "synchronize") if hasattr(wp, k)}
    hr = self

    def zeros(shape=None, dtype=float, **kw):
      return hr._alloc(shape, dtype, 0)

    def empty(shape=None, dtype=float, **kw):
      a = hr._alloc(shape, dtype, 0)
      c = a.ref.cell
      # uninitialised memory = arbitrary contents
      c.d = [[z3.Const(f"uninit!{a.name_}!{k}!{i}", c.sort) for i in range(c.size)] for k in range(c.ncomp)]
      return a

    def zeros_like(a, **kw):
      return zeros(a.shape, a.dtype)

    def empty_like(a, **kw):
      return empty(a.shape, a.dtype)

    def clone(a, **kw):
      if not isinstance(a, SymArr):
        return hr.saved["clone"](a, **kw)
      b = hr._alloc(a.shape, a.dtype, 0)
      b.ref.cell.d = [list(x) for x in a.ref.cell.d]
      return b

    def copy(dest, src, dest_offset=0, src_offset=0, count=0, **kw):
      if not isinstance(dest, SymArr) and not isinstance(src, SymArr):
        return hr.saved["copy"](dest, src, dest_offset, src_offset, count, **kw)
      if not isinstance(dest, SymArr):
        raise Unsupported("copy from shim to real array")
      if not isinstance(src, SymArr):
        src = hr.to_arg(src, None)
        sc, spre = src.cell, src.prefix
      else:
        sc, spre = src.ref.cell, src.ref.prefix
      dc, dpre = dest.ref.cell, dest.ref.prefix
      if dpre or spre:
        raise Unsupported("copy of views")
      n = count or min(dc.size, sc.size)
      for k in range(dc.ncomp):
        for i in range(n):
          dc.d[k][dest_offset + i] = sc.d[k][src_offset + i]
      if getattr(dc, "wmask", None) is not None:
        for i in range(n):
          dc.wmask[dest_offset + i] = True
      hr.events.append(Event("copy", info=(dest.name_, getattr(src, "name_", sc.name))))

    def full(shape=None, value=0, dtype=float, **kw):
      return hr._alloc(shape, dtype, value)

    def launch_tiled(*a, **kw):
      kernel = a[0] if a else kw.get("kernel")
      hr.events.append(Event("launch_tiled", kernel, kw.get("dim")))
      if hr.mode != "trace":
        raise Unsupported(f"tile kernel {kernel.key} in exec mode")

    def _cond_value(condition):
      if isinstance(condition, SymArr):
        v = condition.ref.cell.d[0][0]
        if core.is_sym(v):
          v = z3.simplify(v)
          if z3.is_int_value(v):
            return v.as_long()
          raise Unsupported("host control flow (capture_while/capture_if) on a symbolic condition")
        return int(v)
      return int(condition.numpy()[0])

    def capture_while(condition, while_body, **kwargs):
      n = 0
      while _cond_value(condition) != 0:
        while_body(**kwargs)
        n += 1
        if n > 1000:
          raise Unsupported("capture_while does not terminate")

    def capture_if(condition, on_true=None, on_false=None, **kwargs):
      if _cond_value(condition) != 0:
        if on_true is not None:
          on_true(**kwargs)
      elif on_false is not None:
        on_false(**kwargs)

    for k_ in ("capture_while", "capture_if"):
      if hasattr(wp, k_):
        self.saved[k_] = getattr(wp, k_)
    if hasattr(wp, "capture_while"):
      wp.capture_while = capture_while
    if hasattr(wp, "capture_if"):
      wp.capture_if = capture_if
    wp.launch = self.launch
    wp.zeros, wp.empty, wp.zeros_like, wp.empty_like, wp.clone, wp.copy, wp.full = zeros, empty, zeros_like, empty_like, clone, copy, full
    if "launch_tiled" in self.saved:
      wp.launch_tiled = launch_tiled
    HostRun.current = self
    return self

  def __exit__(self, *exc):
    for k, v in self.saved.items():
      setattr(wp, k, v)
    HostRun.current = None
    return False
