"""Check runner: units (independent groups of solver queries) executed in a process pool, known-finding matching,
evidence writing, exit codes.

exit 0  all queries unsat / reach twins sat, or only listed known findings
exit 1  a sat model that reproduced on the real code and is not a listed known finding  (prints VIOLATION line)
exit 2  harness error / inconclusive (unknown, unsupported construct, non-reproducing model, broken contract)
"""

import concurrent.futures as cf
import hashlib
import inspect
import json
import multiprocessing as mp
import os
import re
import sys
import time
import traceback

import z3

from . import core, kh

VERIF = os.path.dirname(os.path.dirname(os.path.abspath(__file__)))
KNOWN = os.path.join(VERIF, "known_findings.txt")


def load_known(pid):
  out = []
  if not os.path.exists(KNOWN):
    return out
  for line in open(KNOWN):
    line = line.strip()
    if not line.startswith("finding:"):
      continue
    m = re.match(r"finding:\s+property=(\S+)\s+key=(\S+)(?:\s+when=\[(.*?)\])?\s*::\s*(.*)$", line)
    if not m:
      continue
    if m.group(1) != pid:
      continue
    out.append({"key": m.group(2), "when": m.group(3), "desc": m.group(4)})
  return out


def src_hash(pyfunc):
  try:
    return hashlib.sha1(inspect.getsource(pyfunc).encode()).hexdigest()[:12]
  except Exception:
    return "?"


class UnitCtx:
  """Collects everything one unit does. Serialisable summary via .summary()."""

  def __init__(self, pid, unit, tier, seed, known):
    self.pid, self.unit, self.tier, self.seed = pid, unit, tier, seed
    self.known = known
    self.queries = []  # dicts
    self.violations = []  # dicts {key, desc, replay}
    self.known_hits = []  # strings
    self.errors = []  # strings (harness errors / inconclusive)
    self.encoded = {}  # function name -> source hash
    self.bounds = {}
    self.assumptions = []
    self.notes = []
    self.solver_s = 0.0
    self.t0 = time.time()
    self.timeout_ms = 60000 if tier == "quick" else 240000
    self.log_lines = []

  # ---- bookkeeping
  def log(self, msg):
    self.log_lines.append(msg)
    if os.environ.get("WSYM_VERBOSE"):
      print(f"[{self.unit}] {msg}", flush=True)

  def encode(self, *objs):
    for o in objs:
      f = getattr(o, "func", o)
      name = getattr(o, "key", None) or getattr(f, "__qualname__", str(f))
      self.encoded[name] = src_hash(f)

  def bound(self, **kw):
    self.bounds.update({k: str(v) for k, v in kw.items()})

  def assume(self, *texts):
    for t in texts:
      if t not in self.assumptions:
        self.assumptions.append(t)

  def session(self, background=(), timeout_ms=None, tactic=None):
    return kh.Session(background, timeout_ms or self.timeout_ms, tactic=tactic)

  def _rec(self, res, extra=None):
    q = {"unit": self.unit, "name": res.name, "kind": res.kind, "status": res.status, "secs": round(res.secs, 3), "trivial": bool(getattr(res, "trivial", False))}
    if extra:
      q.update(extra)
    self.queries.append(q)
    self.solver_s += res.secs
    return q

  # ---- the three outcomes
  def reach(self, sess, name, cond=True):
    res = sess.reach(name, cond)
    self._rec(res)
    if res.status != "sat":
      self.errors.append(f"reachability twin '{name}' is {res.status}: harness preconditions vacuous or unreachable")
    return res

  def prove(self, sess, name, goal, guard=True, names=None, replay=None, desc=None, show=None):
    """Prove background ∧ guard ⇒ goal.  On sat: match known findings, else replay and report.

    names : dict str -> z3 term usable in known-finding `when=[...]` expressions and printed from the model
    replay: callable(model) -> (reproduced: bool, path_or_text)
    """
    res = sess.prove(name, goal, guard)
    q = self._rec(res)
    key = f"{self.unit}:{name}"
    if res.status == "unsat":
      return res
    if res.status != "sat":
      self.errors.append(f"query {key} inconclusive: {res.status} after {res.secs:.1f}s")
      return res
    model = res.model
    names = names or {}
    vals = {k: kh.mval(model, v) for k, v in names.items()}
    q["model"] = {k: (v if isinstance(v, (int, float, bool, str)) else str(v)) for k, v in vals.items()}
    # known finding?
    for kf in self.known:
      if not _key_match(kf["key"], key):
        continue
      if kf["when"]:
        try:
          w = eval(kf["when"], {"z3": z3, "And": z3.And, "Or": z3.Or, "Not": z3.Not}, dict(names))
        except Exception as ex:
          self.errors.append(f"known-finding when-clause for {key} failed to evaluate: {ex}")
          continue
        if not z3.is_true(model.eval(w, model_completion=True)):
          # this model is outside the listed finding; is there any violation outside it?
          pass
        r2 = sess.prove(name + "#outside-known", goal, z3.And(core.zbool(guard), z3.Not(w)))
        self._rec(r2)
        if r2.status == "unsat":
          self.known_hits.append(f"KNOWN-FINDING: property={self.pid} {kf['key']} when [{kf['when']}] :: {kf['desc']}")
          q["known"] = True
          return res
        if r2.status == "sat":
          model = r2.model
          vals = {k: kh.mval(model, v) for k, v in names.items()}
          q["model_outside_known"] = {k: str(v) for k, v in vals.items()}
          res = r2
          break
        self.errors.append(f"query {key} outside known finding inconclusive: {r2.status}")
        return res
      else:
        self.known_hits.append(f"KNOWN-FINDING: property={self.pid} {kf['key']} :: {kf['desc']}")
        q["known"] = True
        return res
    # genuine candidate: replay
    text = desc or name
    if self.violations and not os.environ.get("WSYM_REPLAY_ALL"):
      q["also_sat"] = True
      self.notes.append(f"{key} is also sat (not replayed: the unit already has a reproduced violation)")
      return res
    if replay is None:
      self.errors.append(f"query {key} is sat but the unit has no replay; model {q.get('model')}")
      return res
    try:
      ok, path = replay(model)
    except Exception as ex:
      self.errors.append(f"replay for {key} crashed: {type(ex).__name__}: {ex}\n{traceback.format_exc()}")
      return res
    if ok:
      self.violations.append({"key": key, "desc": text, "replay": self._as_path(key, path, q.get("model")), "model": q.get("model")})
    else:
      self.errors.append(f"counterexample for {key} did not reproduce on the real code ({path}); encoding or stub suspect; model {q.get('model')}")
    return res

  def _as_path(self, key, path, model=None):
    """VIOLATION lines must name a replay FILE: a replay that only returned a text (no kernel-level launch file) is written out"""
    if isinstance(path, str) and os.path.exists(path):
      return path
    d = os.path.join(VERIF, "replays", self.pid)
    os.makedirs(d, exist_ok=True)
    p = os.path.join(d, re.sub(r"[^A-Za-z0-9_.-]+", "_", key)[:150] + ".model.json")
    with open(p, "w") as f:
      json.dump({"property": self.pid, "query": key, "note": str(path), "model": model, "how": f"cd /verif && ./vcheck {self.pid} --only {self.unit}  (re-derives the counterexample from the current sources)"}, f, indent=1, default=str)
    return p

  def violation(self, key, desc, replay):
    """direct report (e.g. found by a native call of the public API)."""
    full = f"{self.unit}:{key}"
    for kf in self.known:
      if _key_match(kf["key"], full) and not kf["when"]:
        self.known_hits.append(f"KNOWN-FINDING: property={self.pid} {kf['key']} :: {kf['desc']}")
        return
    self.violations.append({"key": full, "desc": desc, "replay": self._as_path(full, replay)})

  def error(self, msg):
    self.errors.append(msg)

  def summary(self):
    return {
      "unit": self.unit,
      "queries": self.queries,
      "violations": self.violations,
      "known_hits": self.known_hits,
      "errors": self.errors,
      "encoded": self.encoded,
      "bounds": self.bounds,
      "assumptions": self.assumptions,
      "notes": self.notes,
      "solver_s": self.solver_s,
      "wall_s": time.time() - self.t0,
      "log": self.log_lines[-50:],
    }


def _key_match(pat, key):
  import fnmatch

  return pat == key or fnmatch.fnmatchcase(key, pat)


_UNITS = []


def _run_unit(args):
  pid, name, fn, tier, seed, known = args
  if isinstance(fn, int):
    fn = _UNITS[fn][1]
  ctx = UnitCtx(pid, name, tier, seed, known)
  try:
    fn(ctx)
  except core.Unsupported as ex:
    if os.environ.get("WSYM_DEBUG"):
      traceback.print_exc()
    ctx.errors.append(f"unit {name}: unsupported construct: {ex}")
  except Exception as ex:
    ctx.errors.append(f"unit {name}: crashed: {type(ex).__name__}: {ex}\n{traceback.format_exc()}")
  return ctx.summary()


def _empty_summary(n, err=None, note=None):
  return {"unit": n, "queries": [], "violations": [], "known_hits": [], "errors": [err] if err else [], "encoded": {}, "bounds": {}, "assumptions": [], "notes": [note] if note else [], "solver_s": 0, "wall_s": 0, "log": []}


def _child(conn, job):
  try:
    conn.send(_run_unit(job))
  except Exception as ex:
    conn.send(_empty_summary(job[1], f"unit {job[1]}: could not return result: {ex}"))
  finally:
    conn.close()


def run_check(pid, units, tier="quick", seed=0, level="model_checking", rule=None, workers=None, extra_cov=None, assumptions=(), unit_timeout=None, on_timeout="error"):
  """units: list of (name, callable(ctx)).  Returns exit code; writes evidence, prints result lines.

  Each unit runs in its own forked process with a wall-clock budget; on_timeout: 'error' (harness error) or 'skip'
  (recorded as skipped: nothing claimed) or a callable(name) -> 'error' / 'skip'."""
  t0 = time.time()
  known = load_known(pid)
  global _UNITS
  _UNITS = list(units)
  jobs = [(pid, n, i, tier, seed, known) for i, (n, f) in enumerate(units)]
  workers = workers or int(os.environ.get("WSYM_WORKERS", "16"))
  unit_timeout = unit_timeout or (900 if tier == "quick" else 3600)
  sums = [None] * len(jobs)
  if os.environ.get("WSYM_SERIAL"):
    for i, j in enumerate(jobs):
      sums[i] = _run_unit(j)
  else:
    ctx = mp.get_context("fork")
    pending = list(range(len(jobs)))
    running = {}  # idx -> (proc, conn, start)
    last_report = time.time()
    while pending or running:
      while pending and len(running) < workers:
        i = pending.pop(0)
        pc, cc = ctx.Pipe(duplex=False)
        p = ctx.Process(target=_child, args=(cc, jobs[i]))
        p.start()
        cc.close()
        running[i] = (p, pc, time.time())
      done = []
      for i, (p, pc, st) in running.items():
        if pc.poll(0):
          try:
            sums[i] = pc.recv()
          except Exception as ex:
            sums[i] = _empty_summary(jobs[i][1], f"unit {jobs[i][1]}: worker died: {type(ex).__name__} {ex} (exit code {p.exitcode})")
          p.join(5)
          done.append(i)
        elif not p.is_alive():
          # the result may have arrived between the poll above and the liveness test
          if pc.poll(1.0):
            try:
              sums[i] = pc.recv()
            except Exception as ex:
              sums[i] = _empty_summary(jobs[i][1], f"unit {jobs[i][1]}: worker died: {type(ex).__name__} {ex}")
          else:
            sums[i] = _empty_summary(jobs[i][1], f"unit {jobs[i][1]}: worker exited with code {p.exitcode} without a result")
          done.append(i)
        elif _cpu_s(p.pid) > unit_timeout or time.time() - st > 4 * unit_timeout:
          p.kill()
          p.join(5)
          n = jobs[i][1]
          mode = on_timeout(n) if callable(on_timeout) else on_timeout
          if mode == "skip":
            sums[i] = _empty_summary(n, None, f"skipped: encoding/solving exceeded the {unit_timeout}s CPU unit budget (nothing claimed)")
          else:
            sums[i] = _empty_summary(n, f"unit {n}: exceeded the {unit_timeout}s CPU unit budget (inconclusive)")
          done.append(i)
      for i in done:
        running.pop(i)
      if not done:
        time.sleep(0.05)
      if os.environ.get("WSYM_PROGRESS") and time.time() - last_report > 60:
        last_report = time.time()
        print(f"[progress {pid}] pending {len(pending)} running " + ", ".join(f"{jobs[i][1]} ({time.time() - st:.0f}s)" for i, (p_, pc_, st) in running.items()), file=sys.stderr, flush=True)
  return finish(pid, sums, tier, seed, level, rule, time.time() - t0, extra_cov, assumptions)


_CLK = os.sysconf("SC_CLK_TCK")


def _cpu_s(pid):
  """CPU seconds of a unit process (own + reaped children): the unit budget is CPU time so that a loaded machine does not turn
  a passing check into an inconclusive one; wall time is capped separately at 4x the budget."""
  try:
    f = open(f"/proc/{pid}/stat").read().rsplit(")", 1)[1].split()
    return (int(f[11]) + int(f[12]) + int(f[13]) + int(f[14])) / _CLK
  except Exception:
    return 0.0


def finish(pid, sums, tier, seed, level, rule, wall, extra_cov=None, assumptions=()):
  queries = [q for s in sums for q in s["queries"]]
  viols = [v for s in sums for v in s["violations"]]
  known_hits = []
  for s in sums:
    for k in s["known_hits"]:
      if k not in known_hits:
        known_hits.append(k)
  errors = [e for s in sums for e in s["errors"]]
  encoded = {}
  bounds = {}
  assum = list(assumptions)
  for s in sums:
    encoded.update(s["encoded"])
    for k, v in s["bounds"].items():
      bounds[f"{s['unit']}.{k}" if k in bounds and bounds[k] != v else k] = v
    for a in s["assumptions"]:
      if a not in assum:
        assum.append(a)
  nontriv = {(q["unit"], q["name"]) for q in queries if not q["trivial"]}
  by_status = {}
  for q in queries:
    by_status[f"{q['kind']}:{q['status']}"] = by_status.get(f"{q['kind']}:{q['status']}", 0) + 1
  samples = []
  seen_units = set()
  for q in queries:
    if q["trivial"]:
      continue
    if q["unit"] in seen_units and len(samples) > 12:
      continue
    seen_units.add(q["unit"])
    samples.append({k: q[k] for k in ("unit", "name", "kind", "status", "secs") if k in q} | ({"model": q["model"]} if "model" in q else {}))
    if len(samples) >= 40:
      break
  if not samples:
    samples = [{"note": "no solver query was issued"}]
  cov = {
    "evaluations": max(len(queries), 1),
    "distinct_nontrivial": len(nontriv),
    "rule": rule
    or "one evaluation = one SMT query (prove: negated obligation ∧ preconditions ∧ path guard must be unsat; reach: reachability twin must be sat); non-trivial = the obligation did not simplify to true syntactically, i.e. the solver was invoked; distinct by (unit, query name)",
    "samples": samples,
    "queries_by_verdict": by_status,
    "solver_s": round(sum(s["solver_s"] for s in sums), 2),
    "units": [{"unit": s["unit"], "queries": len(s["queries"]), "wall_s": round(s["wall_s"], 2), "notes": s["notes"]} for s in sums],
    "functions_encoded": encoded,
    "bounds": bounds,
    "known_findings_hit": known_hits,
    "harness_errors": errors[:20],
    "exhaustive": False,
  }
  if extra_cov:
    cov.update(extra_cov)
  ev = {
    "property_id": pid,
    "tier": tier,
    "seed": int(seed),
    "level": level,
    "coverage": cov,
    "assumptions": assum,
    "wall_s": round(wall, 2),
    "violations": len(viols),
  }
  os.makedirs(os.path.join(VERIF, "evidence"), exist_ok=True)
  with open(os.path.join(VERIF, "evidence", f"{pid}.partial.json" if os.environ.get("WSYM_PARTIAL") else f"{pid}.json"), "w") as f:
    json.dump(ev, f, indent=1, default=str)
  for k in known_hits:
    print(k)
  for v in viols:
    print(f"VIOLATION property={pid} replay={v['replay']}")
    print(f"  {v['key']}: {v['desc']} model={v.get('model')}")
  for e in errors:
    print(f"HARNESS-ERROR property={pid}: {e}", file=sys.stderr)
  nq = len(queries)
  print(f"{pid} [{tier}] {nq} queries ({len(nontriv)} non-trivial) {by_status}; {len(viols)} violations, {len(known_hits)} known findings, {len(errors)} harness errors; {wall:.1f}s")
  if viols:
    return 1
  if errors:
    return 2
  return 0
