"""Block-level interpretation of Warp tile kernels (wp.launch_tiled).

`BlockInterp` executes ONE BLOCK of a tile kernel as a sequence of collective operations, for a block of ONE lane
(wp.block_dim() == 1, rank 0) -- exactly how the Warp CPU backend runs tile kernels (every tile op is then an ordinary loop
over the tile's elements).  Bound: schedules / races between the lanes of a wider GPU block are not modelled; the tile
built-ins themselves are collective (lane-count independent by Warp's semantics), so the VALUES computed do not depend on the
lane count as long as the kernel only communicates through tile ops.

A tile value is a `Tile`: flat row-major list of interpreter scalars (python numbers / z3 terms) with a concrete shape.
Modelled: tile_zeros, tile_ones, tile_arange, tile_load (1-D / 2-D, shape=, offset=, from sub-array views such as arr[worldid];
bounds_check=True reads zero outside the array, bounds_check=False is an ordinary read with a recorded bounds obligation),
tile_store (same), tile_map (user @wp.func: the REAL function is interpreted per element; builtin wp.mul / add / sub / div / min / max /
neg / abs), tile_transpose, tile_broadcast, tile_matmul (returning and accumulating form), tile_reshape, tile_scatter_add,
tile_sum / tile_reduce(add) / tile(x) / tile_extract, element-wise + - * / between tiles and with scalars, ite-merging of
tiles under symbolic guards.  Anything else raises core.Unsupported.

Use: `kh.run(kernel, args, tid=(block, 0), interp=tiles.BlockInterp(unroll=...))`  (tid = (block index, rank)).
"""

import itertools

import z3

from . import core
from .core import And, ArrRef, Unsupported, Vec, cmp, is_sym, norm_scalar


class Tile:
  """row-major tile of scalars"""

  __slots__ = ("c", "shape", "dt")

  def __init__(self, c, shape, dt="f"):
    self.c, self.shape, self.dt = list(c), tuple(int(s) for s in shape), dt
    n = 1
    for s in self.shape:
      n *= s
    if n != len(self.c):
      raise Unsupported(f"tile of shape {self.shape} with {len(self.c)} elements")

  def copy(self):
    return Tile(self.c, self.shape, self.dt)

  def at(self, *idx):
    f = 0
    for i, s in zip(idx, self.shape):
      f = f * s + i
    return self.c[f]

  def __repr__(self):
    return f"Tile{self.shape}{self.c}"


def _shape(s):
  if isinstance(s, (tuple, list)):
    return tuple(int(x) for x in s)
  if isinstance(s, Vec):
    return tuple(int(x) for x in s.c)
  s = norm_scalar(s)
  if is_sym(s):
    raise Unsupported("symbolic tile shape")
  return (int(s),)


def _zero(dtype):
  import warp as wp

  if dtype in (int, wp.int32, wp.int64, wp.uint32, wp.uint64, wp.int16, wp.int8, wp.uint8):
    return 0, "i"
  if dtype in (bool, wp.bool):
    return False, "b"
  return 0.0, "f"


# ---- element-wise arithmetic and ite on tiles: core.arith / core.ite are the interpreter's (module-global) entry points for
# binary operators and guarded merges; they are wrapped so that Tile operands are handled here and everything else is untouched.

_orig_arith = core.arith
_orig_ite = core.ite


def _tile_arith(op, a, b, interp=None):
  if isinstance(a, Tile) or isinstance(b, Tile):
    if isinstance(a, Tile) and isinstance(b, Tile):
      if a.shape != b.shape:
        raise Unsupported(f"tile {op} of shapes {a.shape} and {b.shape}")
      return Tile([_orig_arith(op, x, y, interp) for x, y in zip(a.c, b.c)], a.shape, "f" if "f" in (a.dt, b.dt) else a.dt)
    if isinstance(a, Tile):
      if isinstance(b, (Vec, ArrRef)):
        raise Unsupported("tile op with vector / array")
      return Tile([_orig_arith(op, x, b, interp) for x in a.c], a.shape, a.dt)
    if isinstance(a, (Vec, ArrRef)):
      raise Unsupported("tile op with vector / array")
    return Tile([_orig_arith(op, a, y, interp) for y in b.c], b.shape, b.dt)
  return _orig_arith(op, a, b, interp)


def _tile_ite(c, a, b):
  if isinstance(a, Tile) or isinstance(b, Tile):
    if not is_sym(c):
      return a if c else b
    if a is b:
      return a
    if a is None:
      return b
    if b is None:
      return a
    if not (isinstance(a, Tile) and isinstance(b, Tile)) or a.shape != b.shape:
      raise Unsupported("ite over a tile and a non-tile / tiles of different shapes")
    return Tile([_orig_ite(c, x, y) for x, y in zip(a.c, b.c)], a.shape, a.dt)
  return _orig_ite(c, a, b)


core.arith = _tile_arith
core.ite = _tile_ite

_MAP_OPS = {"mul": "*", "add": "+", "sub": "-", "div": "/"}


class BlockInterp(core.Interp):
  """one block of a tile kernel, block_dim() == 1 (CPU backend)."""

  LANES = 1

  # ---- dispatch
  def builtin_kw(self, fr, key, args, kwargs, e):
    if key.startswith("tile"):
      return self.tile_op(fr, key, list(args), dict(kwargs), e)
    return super().builtin_kw(fr, key, args, kwargs, e)

  def builtin(self, fr, key, args, e):
    if key == "block_dim":
      return self.LANES
    if key.startswith("tile"):
      return self.tile_op(fr, key, list(args), {}, e)
    return super().builtin(fr, key, args, e)

  def subscript_get(self, fr, base, idx, e):
    if isinstance(base, Tile):
      idx = tuple(norm_scalar(i) for i in idx)
      if any(is_sym(i) for i in idx) or len(idx) != len(base.shape):
        raise Unsupported("symbolic / partial tile subscript")
      return base.at(*[int(i) for i in idx])
    return super().subscript_get(fr, base, idx, e)

  def undef_like(self, val, name="v"):
    if isinstance(val, Tile):
      return Tile([super(BlockInterp, self).undef_like(c, name) for c in val.c], val.shape, val.dt)
    return super().undef_like(val, name)

  def lookup(self, fr, name):
    v = super().lookup(fr, name)
    # a tile local first assigned under a guard is returned wrapped (ite(defined, tile, undefined)): keep ONE object per
    # variable so that the in-place collectives (tile_scatter_add, accumulating tile_matmul) update the variable itself
    defg = getattr(fr, "defg", None)
    if isinstance(v, Tile) and defg is not None and name in fr.env and name in defg and v is not fr.env[name]:
      fr.env[name] = v
      defg.pop(name, None)
    return v

  # ---- helpers
  def _elem_call(self, fr, fn, elems, e):
    """apply a map function to one element tuple"""
    key = getattr(fn, "key", None)
    if isinstance(fn, core.WpFunction) and (fn.func is None or fn.is_builtin()):
      if key in _MAP_OPS and len(elems) == 2:
        return _orig_arith(_MAP_OPS[key], elems[0], elems[1], self)
      if key == "neg" and len(elems) == 1:
        return _orig_arith("*", elems[0], -1, self)
      return super().builtin(fr, key, list(elems), e)
    return self.apply(fr, fn, list(elems), {}, e)  # user @wp.func: the real source is interpreted

  def _view(self, arr):
    if not isinstance(arr, ArrRef):
      raise Unsupported("tile_load / tile_store on a non-array")
    return arr

  def _offsets(self, off, nd):
    if off is None:
      return (0,) * nd
    if isinstance(off, (tuple, list)):
      off = tuple(norm_scalar(o) for o in off)
    elif isinstance(off, Vec):
      off = tuple(off.c)
    else:
      off = (norm_scalar(off),)
    if len(off) != nd:
      raise Unsupported(f"tile offset rank {len(off)} for a {nd}-d tile")
    return off

  # ---- the tile built-ins
  def tile_op(self, fr, key, a, kw, e):
    import warp as wp

    g = self.active(fr)
    where = self.where(fr, e) if e is not None else fr.name
    if key in ("tile_zeros", "tile_ones", "tile_full"):
      shape = _shape(kw.get("shape", a[0] if a else None))
      z, dt = _zero(kw.get("dtype", a[-1] if len(a) > 1 and key != "tile_full" else float))
      if key == "tile_full":
        val = kw.get("value", a[1] if len(a) > 1 else None)
      else:
        val = z if key == "tile_zeros" else (1 if dt == "i" else True if dt == "b" else 1.0)
      n = 1
      for s in shape:
        n *= s
      return Tile([val] * n, shape, dt)
    if key == "tile_arange":
      pos = [norm_scalar(x) for x in a]
      if any(is_sym(x) for x in pos):
        raise Unsupported("symbolic tile_arange")
      start, stop, step = (0, pos[0], 1) if len(pos) == 1 else (pos[0], pos[1], 1) if len(pos) == 2 else pos[:3]
      z, dt = _zero(kw.get("dtype", int))
      vals = list(range(int(start), int(stop), int(step)))
      return Tile([float(v) if dt == "f" else v for v in vals], (len(vals),), dt)
    if key == "tile_load":
      arr = self._view(a[0])
      shape = _shape(kw.get("shape", a[1] if len(a) > 1 else None))
      nd = len(shape)
      if arr.ndim != nd:
        raise Unsupported(f"tile_load of a {nd}-d tile from a {arr.ndim}-d view")
      off = self._offsets(kw.get("offset", a[2] if len(a) > 2 else None), nd)
      bc = kw.get("bounds_check", True)
      dims = arr.shape
      out = []
      for idx in itertools.product(*[range(s) for s in shape]):
        full = tuple(core.arith("+", o, i) for o, i in zip(off, idx))
        if bc:
          inb = And(*[And(cmp(">=", i, 0), cmp("<", i, d)) for i, d in zip(full, dims)])
          if inb is False:
            v = self._zero_like(arr)
          else:
            v = self.load(arr, full, And(g, inb), where)
            if inb is not True:
              zero = Vec([0 if v.dt == "i" else 0.0] * len(v.c), v.shape, v.dt) if isinstance(v, Vec) else self._zero_like(arr)
              v = _orig_ite(inb, v, zero)
        else:
          v = self.load(arr, full, g, where)
        out.append(v)
      return Tile(out, shape, "i" if arr.cell.dtype == "int" else "f")
    if key == "tile_store":
      arr, t = self._view(a[0]), a[1]
      if not isinstance(t, Tile):
        raise Unsupported("tile_store of a non-tile")
      nd = len(t.shape)
      if arr.ndim != nd:
        raise Unsupported(f"tile_store of a {nd}-d tile into a {arr.ndim}-d view")
      off = self._offsets(kw.get("offset", a[2] if len(a) > 2 else None), nd)
      bc = kw.get("bounds_check", True)
      dims = arr.shape
      for idx in itertools.product(*[range(s) for s in t.shape]):
        full = tuple(core.arith("+", o, i) for o, i in zip(off, idx))
        gg = g
        if bc:
          gg = And(g, *[And(cmp(">=", i, 0), cmp("<", i, d)) for i, d in zip(full, dims)])
        if gg is not False:
          self.store(arr, full, t.at(*idx), gg, where)
      return None
    if key == "tile_map":
      fn, margs = a[0], a[1:]
      tiles_ = [t for t in margs if isinstance(t, Tile)]
      if not tiles_:
        raise Unsupported("tile_map over non-tiles")
      if any(t.shape != tiles_[0].shape for t in tiles_):
        raise Unsupported("tile_map over tiles of different shapes")
      # non-tile arguments (scalars / vectors) are broadcast to every element
      out = [self._elem_call(fr, fn, [(t.c[i] if isinstance(t, Tile) else t) for t in margs], e) for i in range(len(tiles_[0].c))]
      dt = "f" if any((isinstance(x, Vec) and x.dt == "f") or (not isinstance(x, Vec) and core.kind(x) == "real") for x in out) else tiles_[0].dt
      return Tile(out, tiles_[0].shape, dt)
    if key == "tile_transpose":
      (t,) = a
      if len(t.shape) != 2:
        raise Unsupported("tile_transpose of a non-matrix tile")
      r, c = t.shape
      return Tile([t.at(i, j) for j in range(c) for i in range(r)], (c, r), t.dt)
    if key == "tile_broadcast":
      t = a[0]
      shape = _shape(kw.get("shape", a[1] if len(a) > 1 else None))
      src = (1,) * (len(shape) - len(t.shape)) + t.shape
      if len(src) != len(shape) or any(s not in (1, d) for s, d in zip(src, shape)):
        raise Unsupported(f"tile_broadcast {t.shape} -> {shape}")
      out = []
      for idx in itertools.product(*[range(s) for s in shape]):
        sidx = [0 if s == 1 else i for i, s in zip(idx, src)][len(shape) - len(t.shape) :]
        out.append(t.at(*sidx))
      return Tile(out, shape, t.dt)
    if key == "tile_reshape":
      t = a[0]
      shape = _shape(kw.get("shape", a[1] if len(a) > 1 else None))
      return Tile(t.c, shape, t.dt)
    if key == "tile_matmul":
      A, B = a[0], a[1]
      if len(A.shape) != 2 or len(B.shape) != 2 or A.shape[1] != B.shape[0]:
        raise Unsupported(f"tile_matmul {A.shape} x {B.shape}")
      m, kk, n = A.shape[0], A.shape[1], B.shape[1]
      prod = []
      for i in range(m):
        for j in range(n):
          s = 0.0
          for l in range(kk):
            s = _orig_arith("+", s, _orig_arith("*", A.at(i, l), B.at(l, j), self), self)
          prod.append(s)
      if len(a) > 2:  # accumulating form: out += a @ b
        out = a[2]
        if not isinstance(out, Tile) or out.shape != (m, n):
          raise Unsupported("tile_matmul accumulator shape")
        out.c = [_orig_ite(g, _orig_arith("+", o, p, self), o) if g is not True else _orig_arith("+", o, p, self) for o, p in zip(out.c, prod)]
        return None
      return Tile(prod, (m, n), "f")
    if key == "tile_scatter_add":
      # collective over the block's lanes: every lane with `enable` adds its value at its index; one lane here
      t, idx, val = a[0], norm_scalar(a[1]), a[2]
      en = kw.get("enable", a[3] if len(a) > 3 else True)
      en = core.b2z(en) if is_sym(en) else bool(en)
      if len(t.shape) != 1:
        raise Unsupported("tile_scatter_add on a non-1-d tile")
      gg = And(g, en)
      if gg is False:
        return None
      for p in range(t.shape[0]):
        hit = And(gg, cmp("==", idx, p))
        if hit is False:
          continue
        new = _orig_arith("+", t.c[p], val, self)
        t.c[p] = new if hit is True else _orig_ite(hit, new, t.c[p])
      # an index outside the tile is a bounds obligation of the kernel
      ok = And(cmp(">=", idx, 0), cmp("<", idx, t.shape[0]))
      if ok is not True:
        o = core.Obl("bounds", gg, ok, where, ("tile_scatter_add", "tile", 0))
        o.strict = ok
        self.obl.append(o)
      return None
    if key == "tile":
      x = a[0]
      if isinstance(x, Vec):
        raise Unsupported("wp.tile of a vector")
      return Tile([x], (1,), "i" if core.kind(x) == "int" else "f")
    if key in ("tile_sum", "tile_reduce"):
      t = a[-1]
      if key == "tile_reduce":
        op = getattr(a[0], "key", None)
        if op != "add":
          raise Unsupported(f"tile_reduce({op})")
      s = t.c[0]
      for x in t.c[1:]:
        s = _orig_arith("+", s, x, self)
      return Tile([s], (1,), t.dt)
    if key == "tile_extract":
      t, idx = a[0], [norm_scalar(i) for i in a[1:]]
      if any(is_sym(i) for i in idx):
        raise Unsupported("symbolic tile_extract")
      return t.at(*[int(i) for i in idx])
    raise Unsupported(f"tile builtin {key}")

  def _zero_like(self, arr):
    return 0 if arr.cell.dtype == "int" else False if arr.cell.dtype == "bool" else 0.0
