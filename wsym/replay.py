"""Replay of solver counterexamples on the REAL compiled kernel.

The real kernel source is re-compiled by Warp with one change: every `wp.tid()` is replaced by extra integer parameters,
so that exactly the solver's thread can be executed alone (launch dim = 1) on concrete arrays built from the z3 model.
Replays run in a subprocess with Warp's bounds-checked debug build (wp.config.mode = "debug"): an out-of-bounds access
aborts the subprocess, which is how bounds counterexamples are confirmed.

A replay spec (JSON) is self-contained:  python -m wsym.replay <spec.json>   exit 0 = reproduced, 3 = not reproduced.
"""

import ast
import hashlib
import importlib
import importlib.util
import inspect
import json
import os
import subprocess
import sys
import textwrap

import numpy as np

VERIF = os.path.dirname(os.path.dirname(os.path.abspath(__file__)))
REPLAYS = os.path.join(VERIF, "replays")


# ------------------------------------------------------------------------------------------ model -> concrete arguments


def concretize_args(model, obj, args, shape_cap=64):
  """args: dict label -> interpreter value (as given to the interpreter; cells must still hold .a0 = initial arrays)."""
  import z3

  from . import core, kh

  out = {}
  for label, t in kh.arg_specs(obj):
    v = args[label]
    if isinstance(v, core.ArrRef):
      cell = v.cell
      shape = [kh.mval(model, s) for s in cell.shape]
      shape = [max(0, min(int(s), shape_cap)) for s in shape]
      n = int(np.prod(shape)) if shape else 1
      data = []
      init = getattr(cell, "a0", None) or (cell.a if cell.mode == "array" else None)
      for k in range(cell.ncomp):
        comp = []
        for flat in range(n):
          idx = []
          f = flat
          for s in reversed(shape):
            idx.append(f % s)
            f //= s
          idx = list(reversed(idx))
          if cell.mode == "array":
            val = kh.mval(model, z3.Select(init[k], *[z3.IntVal(i) for i in idx]))
          else:
            val = kh.mval(model, cell.d0[k][cell.flat(idx)] if hasattr(cell, "d0") else cell.d[k][cell.flat(idx)])
          comp.append(val)
        data.append(comp)
      out[label] = {"array": True, "cell": cell.uid, "shape": shape, "ncomp": cell.ncomp, "vshape": list(cell.vshape), "dtype": cell.dtype, "data": data}
    elif isinstance(v, core.Vec):
      out[label] = {"vec": [kh.mval(model, c) for c in v.c], "shape": list(v.shape)}
    elif isinstance(v, core.StructVal):
      raise core.Unsupported("struct kernel arg in replay")
    else:
      out[label] = {"scalar": kh.mval(model, v)}
  return out


def snapshot_initial(args):
  """remember the initial arrays of every cell (call before interpreting)."""
  from . import core

  for v in args.values():
    if isinstance(v, core.ArrRef):
      c = v.cell
      if c.mode == "array":
        c.a0 = list(c.a)
      else:
        c.d0 = [list(x) for x in c.d]


def write_spec(pid, unit, name, locator, obj, args, model, tid, kind, goal=None, env=None, note=""):
  """-> path of the replay spec."""
  from . import kh

  conc = concretize_args(model, obj, args)
  t = tid if isinstance(tid, (tuple, list)) else (tid,)
  spec = {
    "property": pid,
    "unit": unit,
    "query": name,
    "kernel": locator,
    "args": conc,
    "tid": [int(kh.mval(model, x)) for x in t],
    "kind": kind,
    "goal": goal,
    "env": {k: kh.mval(model, v) for k, v in (env or {}).items()},
    "note": note,
  }
  d = os.path.join(REPLAYS, pid)
  os.makedirs(d, exist_ok=True)
  h = hashlib.sha1(json.dumps(spec, sort_keys=True, default=str).encode()).hexdigest()[:10]
  path = os.path.join(d, f"{unit.replace('/', '_')}.{name.replace('/', '_').replace(' ', '_')[:60]}.{h}.json")
  with open(path, "w") as f:
    json.dump(spec, f, indent=1, default=str)
  return path


def run_spec(path, timeout=600):
  """run the replay in a subprocess.  -> (reproduced, text)"""
  env = dict(os.environ)
  env["PYTHONPATH"] = f"{VERIF}/.deps:{VERIF}:" + env.get("PYTHONPATH", "")
  p = subprocess.run([sys.executable, "-m", "wsym.replay", path], cwd=VERIF, env=env, capture_output=True, text=True, timeout=timeout)
  out = (p.stdout + p.stderr)[-3000:]
  spec = json.load(open(path))
  if spec["kind"] == "bounds":
    if p.returncode not in (0, 3) and ("Assertion" in out or "assert" in out.lower() or p.returncode < 0 or p.returncode == 134):
      return True, path
    return False, f"{path} (subprocess rc={p.returncode}: {out[-300:]})"
  if p.returncode == 0 and "REPRODUCED" in p.stdout:
    return True, path
  return False, f"{path} (subprocess rc={p.returncode}: {out[-400:]})"


# ------------------------------------------------------------------------------------------ single-thread kernel


class _TidRewriter(ast.NodeTransformer):
  def __init__(self):
    self.ndim = 0

  def _is_tid(self, n):
    return isinstance(n, ast.Call) and isinstance(n.func, ast.Attribute) and n.func.attr == "tid" and isinstance(n.func.value, ast.Name) and n.func.value.id == "wp"

  def visit_Assign(self, node):
    if self._is_tid(node.value) and len(node.targets) == 1:
      t = node.targets[0]
      if isinstance(t, ast.Tuple):
        self.ndim = max(self.ndim, len(t.elts))
        return [ast.Assign(targets=[e], value=ast.Name(id=f"tid__{i}", ctx=ast.Load()), lineno=node.lineno) for i, e in enumerate(t.elts)]
      self.ndim = max(self.ndim, 1)
      return ast.Assign(targets=[t], value=ast.Name(id="tid__0", ctx=ast.Load()), lineno=node.lineno)
    return self.generic_visit(node)

  def visit_Call(self, node):
    if self._is_tid(node):
      self.ndim = max(self.ndim, 1)
      return ast.Name(id="tid__0", ctx=ast.Load())
    return self.generic_visit(node)


def single_thread_kernel(kernel):
  """-> (wp.Kernel with extra int params tid__0.., ndim)"""
  import warp as wp

  f = kernel.func
  src = textwrap.dedent(inspect.getsource(f))
  tree = ast.parse(src)
  fd = tree.body[0]
  fd.decorator_list = []
  rw = _TidRewriter()
  fd = rw.visit(fd)
  for i in range(rw.ndim):
    fd.args.args.append(ast.arg(arg=f"tid__{i}", annotation=ast.Name(id="int", ctx=ast.Load())))
  fd.name = f"st_{f.__name__}"
  mod_src = ast.unparse(ast.fix_missing_locations(ast.Module(body=[fd], type_ignores=[])))
  h = hashlib.sha1((mod_src + kernel.key).encode()).hexdigest()[:12]
  d = os.path.join(VERIF, ".wpcache", "st")
  os.makedirs(d, exist_ok=True)
  modname = f"st_{h}"
  path = os.path.join(d, modname + ".py")
  with open(path, "w") as fh:
    fh.write(mod_src + "\n")
  spec = importlib.util.spec_from_file_location(modname, path)
  mod = importlib.util.module_from_spec(spec)
  mod.__dict__.update(f.__globals__)
  try:
    mod.__dict__.update(inspect.getclosurevars(f).nonlocals)
  except Exception:
    pass
  mod.__dict__["__name__"] = modname
  mod.__dict__["__file__"] = path
  sys.modules[modname] = mod
  spec.loader.exec_module(mod)
  pyf = getattr(mod, fd.name)
  k = wp.Kernel(func=pyf, key=f"{fd.name}_{h}", module=wp.get_module(modname))
  return k, rw.ndim


def locate(locator):
  """locator: 'module:expr' evaluated in the module namespace, or 'capture:module:hostexpr:kernelkey'."""
  import mujoco_warp  # noqa

  if locator.startswith("capture:"):
    _, modn, setup, key = locator.split(":", 3)
    mod = importlib.import_module(modn)
    return getattr(mod, setup)(key)
  modn, expr = locator.split(":", 1)
  mod = importlib.import_module(modn)
  return eval(expr, dict(mod.__dict__))


def build_arrays(spec_args, specs):
  import warp as wp

  from . import core

  arrays = {}
  vals = []
  by_cell = {}
  for label, t in specs:
    a = spec_args[label]
    if a.get("array"):
      if a["cell"] in by_cell:
        vals.append(by_cell[a["cell"]])
        arrays[label] = by_cell[a["cell"]]
        continue
      shape = tuple(a["shape"])
      npdt = {"int": np.int32, "real": np.float32, "bool": np.bool_}[a["dtype"]]
      n = int(np.prod(shape)) if shape else 1
      buf = np.zeros((n, a["ncomp"]), dtype=npdt)
      for k in range(a["ncomp"]):
        col = a["data"][k]
        if a["dtype"] == "int":
          col = [int(max(-(2**31), min(2**31 - 1, int(x)))) for x in col]
        buf[:, k] = col
      full = buf.reshape(shape + tuple(a["vshape"]))
      arr = wp.array(full, dtype=t.dtype, shape=shape) if n > 0 else wp.zeros(shape, dtype=t.dtype)
      by_cell[a["cell"]] = arr
      arrays[label] = arr
      vals.append(arr)
    elif "vec" in a:
      vals.append(t(*a["vec"]))
    else:
      v = a["scalar"]
      sk = core.scalar_kind(t)
      vals.append(bool(v) if sk == "bool" else int(v) if sk == "int" else float(v))
  return vals, arrays


def main(path):
  spec = json.load(open(path))
  import warp as wp

  wp.config.quiet = True
  wp.config.mode = "debug"
  wp.config.verify_fp = False
  wp.config.kernel_cache_dir = os.path.join(VERIF, ".wpcache", "replay_debug")
  wp.init()
  from . import kh

  kernel = locate(spec["kernel"])
  st, ndim = single_thread_kernel(kernel)
  specs = kh.arg_specs(kernel)
  tid = list(spec["tid"])[:ndim] + [0] * max(0, ndim - len(spec["tid"]))
  env = spec.get("env") or {}
  variants = env.get("variants") or [{}]
  sentinels = env.get("sentinels") or {}
  if spec["kind"] == "order":
    # two threads of one launch, executed in both serial orders from the same state; any difference = order dependence
    t1, t2 = env["tids"]
    finals = []
    for order in ((t1, t2), (t2, t1)):
      vals, arrays = build_arrays(json.loads(json.dumps(spec["args"])), specs)
      for t in order:
        tt = list(t)[:ndim] + [0] * max(0, ndim - len(t))
        wp.launch(st, dim=1, inputs=vals + [int(x) for x in tt], device="cpu")
        wp.synchronize()
      finals.append({k: v.numpy().copy() for k, v in arrays.items()})
    diffs = []
    for k in finals[0]:
      a, b = finals[0][k], finals[1][k]
      if a.dtype.kind == "f":
        if not np.allclose(a, b, rtol=1e-4, atol=1e-6, equal_nan=True):
          diffs.append(k)
      elif not np.array_equal(a, b):
        diffs.append(k)
    if diffs:
      print(f"REPRODUCED: threads {t1} and {t2} executed in the two serial orders give different {diffs}")
      return 0
    print(f"NOT-REPRODUCED: both serial orders of threads {t1}, {t2} give identical arrays")
    return 3
  ntrials = int(env.get("randomize_floats") or 0) + 1
  rng = np.random.default_rng(12345)
  last = None
  for trial in range(ntrials):
    pres, posts = [], []
    rand = {}
    for var in variants:
      sargs = json.loads(json.dumps(spec["args"]))
      pokes = var.get("__poke__") or []
      for k, v in var.items():
        if k != "__poke__":
          sargs[k] = {"scalar": v}
      vals, arrays = build_arrays(sargs, specs)
      if trial > 0:
        # keep the solver's integers (control flow, indices); re-draw float contents to make the read value matter
        for label, arr in arrays.items():
          a = arr.numpy()
          if a.dtype.kind == "f" and a.size:
            if label not in rand:
              rand[label] = rng.uniform(0.25, 2.0, size=a.shape).astype(a.dtype) * rng.choice([-1.0, 1.0], size=a.shape).astype(a.dtype)
            arr.assign(rand[label])
      for label, idx, comp, value in pokes:
        a = arrays[label].numpy()
        if comp is None:
          a[tuple(idx)] = value
        else:
          a[tuple(idx)].reshape(-1)[comp] = value
        arrays[label].assign(a)
      for label, sv in sentinels.items():
        arrays[label].fill_(sv)
      pre = {k: v.numpy().copy() for k, v in arrays.items()}
      print("launching", kernel.key, "tid", tid, "variant", var, "trial", trial, flush=True)
      wp.launch(st, dim=1, inputs=vals + [int(x) for x in tid], device="cpu")
      wp.synchronize()
      pres.append(pre)
      posts.append({k: v.numpy().copy() for k, v in arrays.items()})
    if spec["kind"] == "bounds":
      print("NOT-REPRODUCED: kernel completed under the bounds-checked build")
      return 3
    modn, fn = spec["goal"].split(":")
    g = getattr(importlib.import_module(modn), fn)
    if len(variants) == 1:
      ok, text = g(spec, pres[0], posts[0])
    else:
      ok, text = g(spec, pres, posts)
    last = text
    if not ok:
      print("REPRODUCED: " + str(text) + (f" (float inputs re-drawn, trial {trial})" if trial else ""))
      return 0
  print("NOT-REPRODUCED: " + str(last))
  return 3


if __name__ == "__main__":
  sys.exit(main(sys.argv[1]))
