"""Replay of solver counterexamples on the REAL compiled kernel.

The real kernel source is re-compiled by Warp with one change: every `wp.tid()` is replaced by extra integer parameters,
so that exactly the solver's thread can be executed alone (launch dim = 1) on concrete arrays built from the z3 model.
Replays run in a subprocess with Warp's bounds-checked debug build (wp.config.mode = "debug"): an out-of-bounds access
aborts the subprocess, which is how bounds counterexamples are confirmed.

A replay spec (JSON) is self-contained:  python -m wsym.replay <spec.json>   exit 0 = reproduced, 3 = not reproduced.
"""

import ast
import hashlib
import importlib
import importlib.util
import inspect
import json
import os
import subprocess
import sys
import textwrap

import numpy as np

VERIF = os.path.dirname(os.path.dirname(os.path.abspath(__file__)))
REPLAYS = os.path.join(VERIF, "replays")


# ------------------------------------------------------------------------------------------ model -> concrete arguments


def concretize_args(model, obj, args, shape_cap=64):
  """args: dict label -> interpreter value (as given to the interpreter; cells must still hold .a0 = initial arrays)."""
  import z3

  from . import core, kh

  out = {}
  for label, t in kh.arg_specs(obj):
    v = args[label]
    if isinstance(v, core.ArrRef):
      cell = v.cell
      shape = [kh.mval(model, s) for s in cell.shape]
      shape = [max(0, min(int(s), shape_cap)) for s in shape]
      n = int(np.prod(shape)) if shape else 1
      data = []
      init = getattr(cell, "a0", None) or (cell.a if cell.mode == "array" else None)
      for k in range(cell.ncomp):
        comp = []
        for flat in range(n):
          idx = []
          f = flat
          for s in reversed(shape):
            idx.append(f % s)
            f //= s
          idx = list(reversed(idx))
          if cell.mode == "array":
            val = kh.mval(model, z3.Select(init[k], *[z3.IntVal(i) for i in idx]))
          else:
            val = kh.mval(model, cell.d0[k][cell.flat(idx)] if hasattr(cell, "d0") else cell.d[k][cell.flat(idx)])
          comp.append(val)
        data.append(comp)
      out[label] = {"array": True, "cell": cell.uid, "shape": shape, "ncomp": cell.ncomp, "vshape": list(cell.vshape), "dtype": cell.dtype, "data": data}
    elif isinstance(v, core.Vec):
      out[label] = {"vec": [kh.mval(model, c) for c in v.c], "shape": list(v.shape)}
    elif isinstance(v, core.StructVal):
      raise core.Unsupported("struct kernel arg in replay")
    else:
      out[label] = {"scalar": kh.mval(model, v)}
  return out


def snapshot_initial(args):
  """remember the initial arrays of every cell (call before interpreting)."""
  from . import core

  for v in args.values():
    if isinstance(v, core.ArrRef):
      c = v.cell
      if c.mode == "array":
        c.a0 = list(c.a)
      else:
        c.d0 = [list(x) for x in c.d]


def write_spec(pid, unit, name, locator, obj, args, model, tid, kind, goal=None, env=None, note=""):
  """-> path of the replay spec."""
  from . import kh

  conc = concretize_args(model, obj, args)
  t = tid if isinstance(tid, (tuple, list)) else (tid,)
  spec = {
    "property": pid,
    "unit": unit,
    "query": name,
    "kernel": locator,
    "args": conc,
    "tid": [int(kh.mval(model, x)) for x in t],
    "kind": kind,
    "goal": goal,
    "env": {k: kh.mval(model, v) for k, v in (env or {}).items()},
    "note": note,
  }
  d = os.path.join(REPLAYS, pid)
  os.makedirs(d, exist_ok=True)
  h = hashlib.sha1(json.dumps(spec, sort_keys=True, default=str).encode()).hexdigest()[:10]
  path = os.path.join(d, f"{unit.replace('/', '_')}.{name.replace('/', '_').replace(' ', '_')[:60]}.{h}.json")
  with open(path, "w") as f:
    json.dump(spec, f, indent=1, default=str)
  return path


def run_spec(path, timeout=600):
  """run the replay in a subprocess.  -> (reproduced, text)"""
  env = dict(os.environ)
  env["PYTHONPATH"] = f"{VERIF}/.deps:{VERIF}:" + env.get("PYTHONPATH", "")
  p = subprocess.run([sys.executable, "-m", "wsym.replay", path], cwd=VERIF, env=env, capture_output=True, text=True, timeout=timeout)
  out = (p.stdout + p.stderr)[-3000:]
  spec = json.load(open(path))
  if spec["kind"] == "bounds":
    if p.returncode not in (0, 3) and ("Assertion" in out or "assert" in out.lower() or p.returncode < 0 or p.returncode == 134):
      return True, path
    return False, f"{path} (subprocess rc={p.returncode}: {out[-300:]})"
  if p.returncode == 0 and "REPRODUCED" in p.stdout:
    return True, path
  return False, f"{path} (subprocess rc={p.returncode}: {out[-400:]})"


# ------------------------------------------------------------------------------------------ single-thread kernel


class _TidRewriter(ast.NodeTransformer):
  def __init__(self):
    self.ndim = 0

  def _is_tid(self, n):
    return isinstance(n, ast.Call) and isinstance(n.func, ast.Attribute) and n.func.attr == "tid" and isinstance(n.func.value, ast.Name) and n.func.value.id == "wp"

  def visit_Assign(self, node):
    if self._is_tid(node.value) and len(node.targets) == 1:
      t = node.targets[0]
      if isinstance(t, ast.Tuple):
        self.ndim = max(self.ndim, len(t.elts))
        return [ast.Assign(targets=[e], value=ast.Name(id=f"tid__{i}", ctx=ast.Load()), lineno=node.lineno) for i, e in enumerate(t.elts)]
      self.ndim = max(self.ndim, 1)
      return ast.Assign(targets=[t], value=ast.Name(id="tid__0", ctx=ast.Load()), lineno=node.lineno)
    return self.generic_visit(node)

  def visit_Call(self, node):
    if self._is_tid(node):
      self.ndim = max(self.ndim, 1)
      return ast.Name(id="tid__0", ctx=ast.Load())
    return self.generic_visit(node)


def single_thread_kernel(kernel):
  """-> (wp.Kernel with extra int params tid__0.., ndim)"""
  import warp as wp

  f = kernel.func
  src = textwrap.dedent(inspect.getsource(f))
  tree = ast.parse(src)
  fd = tree.body[0]
  fd.decorator_list = []
  rw = _TidRewriter()
  fd = rw.visit(fd)
  for i in range(rw.ndim):
    fd.args.args.append(ast.arg(arg=f"tid__{i}", annotation=ast.Name(id="int", ctx=ast.Load())))
  fd.name = f"st_{f.__name__}"
  mod_src = ast.unparse(ast.fix_missing_locations(ast.Module(body=[fd], type_ignores=[])))
  h = hashlib.sha1((mod_src + kernel.key).encode()).hexdigest()[:12]
  d = os.path.join(VERIF, ".wpcache", "st")
  os.makedirs(d, exist_ok=True)
  modname = f"st_{h}"
  path = os.path.join(d, modname + ".py")
  with open(path, "w") as fh:
    fh.write(mod_src + "\n")
  spec = importlib.util.spec_from_file_location(modname, path)
  mod = importlib.util.module_from_spec(spec)
  mod.__dict__.update(f.__globals__)
  try:
    mod.__dict__.update(inspect.getclosurevars(f).nonlocals)
  except Exception:
    pass
  mod.__dict__["__name__"] = modname
  mod.__dict__["__file__"] = path
  sys.modules[modname] = mod
  spec.loader.exec_module(mod)
  pyf = getattr(mod, fd.name)
  k = wp.Kernel(func=pyf, key=f"{fd.name}_{h}", module=wp.get_module(modname))
  return k, rw.ndim


def closure_sig(kernel):
  try:
    cv = inspect.getclosurevars(kernel.func).nonlocals
  except Exception:
    return ""
  return json.dumps({k: (int(v) if isinstance(v, (bool, int)) else str(type(v).__name__)) for k, v in sorted(cv.items())}, sort_keys=True)


def locate(locator):
  """locator: 'module:expr' evaluated in the module namespace, or 'capture:module:hostexpr:kernelkey'."""
  import mujoco_warp  # noqa

  if locator.startswith("harvestsig:"):
    # kernel that only exists as an object built by the host code for particular specialisation constants: re-harvest
    # the corpus in this process and pick the kernel with the same key and the same closure constants
    _, key, sig, mixed = locator.split("|")
    from . import harvest

    h = harvest.harvest(mixed=(mixed == "1"))
    for L in h.get(key, []):
      if closure_sig(L.kernel) == sig:
        return L.kernel
    raise RuntimeError(f"kernel {key} with closure {sig} not found by re-harvesting")
  if locator.startswith("capture:"):
    _, modn, setup, key = locator.split(":", 3)
    mod = importlib.import_module(modn)
    return getattr(mod, setup)(key)
  modn, expr = locator.split(":", 1)
  mod = importlib.import_module(modn)
  return eval(expr, dict(mod.__dict__))


def build_arrays(spec_args, specs):
  import warp as wp

  from . import core

  arrays = {}
  vals = []
  by_cell = {}
  for label, t in specs:
    a = spec_args[label]
    if a.get("array"):
      if a["cell"] in by_cell:
        vals.append(by_cell[a["cell"]])
        arrays[label] = by_cell[a["cell"]]
        continue
      shape = tuple(a["shape"])
      npdt = {"int": np.int32, "real": np.float32, "bool": np.bool_}[a["dtype"]]
      n = int(np.prod(shape)) if shape else 1
      buf = np.zeros((n, a["ncomp"]), dtype=npdt)
      for k in range(a["ncomp"]):
        col = a["data"][k]
        if a["dtype"] == "int":
          col = [int(max(-(2**31), min(2**31 - 1, int(x)))) for x in col]
        buf[:, k] = col
      full = buf.reshape(shape + tuple(a["vshape"]))
      arr = wp.array(full, dtype=t.dtype, shape=shape) if n > 0 else wp.zeros(shape, dtype=t.dtype)
      by_cell[a["cell"]] = arr
      arrays[label] = arr
      vals.append(arr)
    elif "vec" in a:
      vals.append(t(*a["vec"]))
    else:
      v = a["scalar"]
      sk = core.scalar_kind(t)
      vals.append(bool(v) if sk == "bool" else int(v) if sk == "int" else float(v))
  return vals, arrays


def run_spec_forked(path, kernel, timeout=600):
  """replay in a forked child of THIS process: for kernels that only exist as objects here (harvested from the host code,
  closure-specialised) and cannot be re-located by name in a fresh interpreter."""
  import multiprocessing as mp

  ctx = mp.get_context("fork")
  r, w = ctx.Pipe(duplex=False)

  def child():
    import io as _io

    try:
      os.dup2(w.fileno(), 1)
      os.dup2(w.fileno(), 2)
      rc = main(path, kernel=kernel)
    except BaseException as ex:  # noqa
      print("replay child failed:", type(ex).__name__, ex, flush=True)
      rc = 4
    os._exit(rc)

  p = ctx.Process(target=child)
  p.start()
  w.close()
  p.join(timeout)
  if p.is_alive():
    p.kill()
    return False, f"{path} (forked replay timed out)"
  out = b""
  try:
    while r.poll(0):
      out += os.read(r.fileno(), 65536)
  except Exception:
    pass
  out = out.decode(errors="replace")[-3000:]
  spec = json.load(open(path))
  if spec["kind"] == "bounds":
    if p.exitcode not in (0, 3, 4) and ("Assertion" in out or (p.exitcode is not None and p.exitcode < 0)):
      return True, path
    return False, f"{path} (forked rc={p.exitcode}: {out[-300:]})"
  if p.exitcode == 0 and "REPRODUCED" in out:
    return True, path
  return False, f"{path} (forked rc={p.exitcode}: {out[-400:]})"


def main_rowpoison(spec):
  """Confirm a wrong-row read of a per-world-batched Model field on the REAL compiled kernel with REAL launch arguments:
  re-harvest the corpus (keeping the arguments of this kernel's launches), run every thread of world W of a launch in which
  the field is batched, once as is and once with the wrongly indexed row poisoned; world W's threads must not notice."""
  import warp as wp

  wp.config.quiet = True
  wp.init()
  from . import harvest, kh

  _, key, sig, mixed = spec["kernel"].split("|")
  env = spec["env"]
  label, wrong = env["label"], int(env["wrong_row"])
  h = harvest.harvest(mixed=(mixed == "1"), keep_args=lambda k: k.key == key)
  tried = 0
  for L in h.get(key, []):
    if closure_sig(L.kernel) != sig or L.args_np is None:
      continue
    specs = kh.arg_specs(L.kernel)
    labels = [l for l, _ in specs]
    if label not in labels:
      continue
    j = labels.index(label)
    base = L.args_np[j]
    if not isinstance(base, np.ndarray) or base.ndim < 1 or base.shape[0] < 2 or wrong >= base.shape[0]:
      continue
    n = base.shape[0]
    worlds = [w for w in range(L.dim[0]) if w % n != wrong]
    if not worlds:
      continue
    st, ndim = single_thread_kernel(L.kernel)
    for W in worlds[:2]:
      outs = []
      for poison in (None, float("nan"), 1.0e6, -1.0e6):
        vals = []
        arrs = {}
        for (lab, t), a in zip(specs, L.args_np):
          if isinstance(a, np.ndarray):
            a2 = a.copy()
            if lab == label and poison is not None:
              if a2.dtype.kind == "f":
                a2[wrong] = poison
              else:
                a2[wrong] = 12345 if poison != poison or poison > 0 else -12345
            arr = wp.array(a2, dtype=t.dtype, shape=a2.shape[: t.ndim]) if a2.size else wp.zeros(a2.shape[: t.ndim], dtype=t.dtype)
            arrs.setdefault(id(a), arr)
            vals.append(arrs[id(a)])
          else:
            vals.append(a)
        import itertools

        for rest in itertools.product(*[range(x) for x in L.dim[1:]]):
          tid = [W] + list(rest)
          wp.launch(st, dim=1, inputs=vals + [int(x) for x in tid[:ndim]] , device="cpu")
        wp.synchronize()
        outs.append([v.numpy().copy() if isinstance(v, wp.array) else None for v in vals])
      tried += 1
      for o in outs[1:]:
        for (lab, t), a, b in zip(specs, outs[0], o):
          if a is None or lab == label:
            continue
          if not np.array_equal(a, b, equal_nan=True):
            print(f"REPRODUCED: launch of {key} on corpus model {L.model}: threads of world {W} change {lab} when row {wrong} of {label} (batch size {n}; world {W} must read row {W % n}) is poisoned")
            return 0
  print(f"NOT-REPRODUCED: {tried} world/launch combinations of {key} with a batched {label}: poisoning row {wrong} never changed what the other worlds' threads write")
  return 3


def main(path, kernel=None):
  spec = json.load(open(path))
  if spec.get("kind") == "rowpoison":
    return main_rowpoison(spec)
  import warp as wp

  wp.config.quiet = True
  wp.config.mode = "debug"
  wp.config.verify_fp = False
  if kernel is None:
    wp.config.kernel_cache_dir = os.path.join(VERIF, ".wpcache", "replay_debug")
    wp.init()
  from . import kh

  if kernel is None:
    kernel = locate(spec["kernel"])
  st, ndim = single_thread_kernel(kernel)
  specs = kh.arg_specs(kernel)
  tid = list(spec["tid"])[:ndim] + [0] * max(0, ndim - len(spec["tid"]))
  env = spec.get("env") or {}
  variants = env.get("variants") or [{}]
  sentinels = env.get("sentinels") or {}
  if spec["kind"] == "order":
    # two threads of one launch, executed in both serial orders from the same state; any difference = order dependence
    t1, t2 = env["tids"]
    finals = []
    for order in ((t1, t2), (t2, t1)):
      vals, arrays = build_arrays(json.loads(json.dumps(spec["args"])), specs)
      for t in order:
        tt = list(t)[:ndim] + [0] * max(0, ndim - len(t))
        wp.launch(st, dim=1, inputs=vals + [int(x) for x in tt], device="cpu")
        wp.synchronize()
      finals.append({k: v.numpy().copy() for k, v in arrays.items()})
    diffs = []
    for k in finals[0]:
      a, b = finals[0][k], finals[1][k]
      if a.dtype.kind == "f":
        if not np.allclose(a, b, rtol=1e-4, atol=1e-6, equal_nan=True):
          diffs.append(k)
      elif not np.array_equal(a, b):
        diffs.append(k)
    if diffs:
      print(f"REPRODUCED: threads {t1} and {t2} executed in the two serial orders give different {diffs}")
      return 0
    print(f"NOT-REPRODUCED: both serial orders of threads {t1}, {t2} give identical arrays")
    return 3
  ntrials = int(env.get("randomize_floats") or 0) + 1
  rng = np.random.default_rng(12345)
  last = None
  for trial in range(ntrials):
    pres, posts = [], []
    rand = {}
    for var in variants:
      sargs = json.loads(json.dumps(spec["args"]))
      pokes = var.get("__poke__") or []
      for k, v in var.items():
        if k != "__poke__":
          sargs[k] = {"scalar": v}
      vals, arrays = build_arrays(sargs, specs)
      if trial > 0:
        # keep the solver's integers (control flow, indices); re-draw float contents to make the read value matter
        for label, arr in arrays.items():
          a = arr.numpy()
          if a.dtype.kind == "f" and a.size:
            if label not in rand:
              rand[label] = rng.uniform(0.25, 2.0, size=a.shape).astype(a.dtype) * rng.choice([-1.0, 1.0], size=a.shape).astype(a.dtype)
            arr.assign(rand[label])
      for label, idx, comp, value in pokes:
        a = arrays[label].numpy()
        if comp is None:
          a[tuple(idx)] = value
        else:
          a[tuple(idx)].reshape(-1)[comp] = value
        arrays[label].assign(a)
      for label, sv in sentinels.items():
        arrays[label].fill_(sv)
      pre = {k: v.numpy().copy() for k, v in arrays.items()}
      print("launching", kernel.key, "tid", tid, "variant", var, "trial", trial, flush=True)
      wp.launch(st, dim=1, inputs=vals + [int(x) for x in tid], device="cpu")
      wp.synchronize()
      pres.append(pre)
      posts.append({k: v.numpy().copy() for k, v in arrays.items()})
    if spec["kind"] == "bounds":
      print("NOT-REPRODUCED: kernel completed under the bounds-checked build")
      return 3
    modn, fn = spec["goal"].split(":")
    g = getattr(importlib.import_module(modn), fn)
    if len(variants) == 1:
      ok, text = g(spec, pres[0], posts[0])
    else:
      ok, text = g(spec, pres, posts)
    last = text
    if not ok:
      print("REPRODUCED: " + str(text) + (f" (float inputs re-drawn, trial {trial})" if trial else ""))
      return 0
  print("NOT-REPRODUCED: " + str(last))
  return 3


if __name__ == "__main__":
  sys.exit(main(sys.argv[1]))
