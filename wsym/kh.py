"""Kernel-level harness helpers: symbolic arguments, running a kernel/func for one generic thread, solver sessions."""

import time

import numpy as np
import warp as wp
import z3

from . import core
from .core import ArrRef, Cell, Interp, StructVal, Unsupported, Vec, dtype_info, is_sym, scalar_kind, to_z3, zbool


def is_array_type(t):
  return isinstance(t, wp.array) or type(t).__name__ in ("_ArrayAnnotation", "array")


def arg_specs(obj):
  """[(label, type)] of a wp Kernel, wp Function or python function with annotations."""
  if isinstance(obj, core.WpKernel):
    return [(a.label, a.type) for a in obj.adj.args]
  if isinstance(obj, core.WpFunction):
    return list(obj.input_types.items())
  raise TypeError(obj)


def pyfunc_of(obj):
  return obj.func


def sym_scalar(name, sk):
  return {"int": z3.Int, "real": z3.Real, "bool": z3.Bool}[sk](name)


def sym_value(name, t, mode="array", shape=None):
  """fresh symbolic value of Warp type t."""
  if is_array_type(t):
    sk, ncomp, vshape, vdt = dtype_info(t.dtype)
    nd = t.ndim
    shp = list(shape) if shape is not None else [None] * nd
    if len(shp) != nd:
      raise Unsupported(f"shape rank for {name}: {shp} vs ndim {nd}")
    shp = [z3.Int(f"{name}.shape{d}") if s is None else s for d, s in enumerate(shp)]
    return ArrRef(Cell(name, shp, sk, ncomp, vshape, vdt, mode=mode, wptype=t.dtype))
  sk = scalar_kind(t)
  if sk:
    return sym_scalar(name, sk)
  if core.is_vec_type(t):
    sk, n, vshape, vdt = dtype_info(t)
    return Vec([sym_scalar(f"{name}_{i}", sk) for i in range(n)], vshape, vdt)
  if isinstance(t, core.WpStruct):
    return StructVal(t, {k: sym_value(f"{name}.{k}", v.type, mode) for k, v in t.vars.items()})
  raise Unsupported(f"argument {name} of type {t}")


def make_args(obj, shapes=None, scalars=None, mode="array", alias_inout=False, prefix=""):
  """dict label -> value.  shapes: label -> list of dims; scalars: label -> given value (any interpreter value)."""
  shapes = shapes or {}
  scalars = scalars or {}
  out = {}
  for label, t in arg_specs(obj):
    if label in scalars:
      out[label] = scalars[label]
      continue
    if alias_inout and label.endswith("_out") and (label[:-4] + "_in") in out and is_array_type(t):
      twin = out[label[:-4] + "_in"]
      if isinstance(twin, ArrRef) and twin.cell.ndim == t.ndim:
        out[label] = twin
        continue
    out[label] = sym_value(prefix + label, t, mode, shapes.get(label))
  return out


def run(obj, args, tid=None, unroll=8, **kw):
  """Interpret kernel/func `obj` on `args` (dict by label or list).  Returns (interp, return value)."""
  it = kw.pop("interp", None) or Interp(unroll=unroll, tid=tid, **kw)
  if tid is not None:
    it.tid = tid
  specs = arg_specs(obj)
  vals = [args[l] for l, _ in specs] if isinstance(args, dict) else list(args)
  name = getattr(obj, "key", None) or obj.func.__name__
  ret = it.call_pyfunc(obj.func, vals, name=name)
  return it, ret


def sym_tid(ndim, prefix="tid"):
  if ndim == 1:
    return z3.Int(f"{prefix}0")
  return tuple(z3.Int(f"{prefix}{i}") for i in range(ndim))


# ------------------------------------------------------------------------------------------------ solver session


class QResult:
  def __init__(self, name, status, secs, model=None, kind="prove"):
    self.name, self.status, self.secs, self.model, self.kind = name, status, secs, model, kind

  @property
  def ok(self):
    return self.status == "unsat" if self.kind == "prove" else self.status == "sat"


class Session:
  """Incremental z3 session: fixed background (preconditions + side axioms), many prove/reach queries."""

  def __init__(self, background=(), timeout_ms=20000, log=None, tactic=None):
    self.s = z3.Solver() if tactic is None else z3.Then(*tactic).solver() if isinstance(tactic, (list, tuple)) else z3.Tactic(tactic).solver()
    self.s.set("timeout", timeout_ms)
    self.timeout_ms = timeout_ms
    for b in background:
      if b is True:
        continue
      self.s.add(zbool(b))
    self.results = []
    self.log = log

  def add(self, *bs):
    for b in bs:
      if b is True:
        continue
      self.s.add(zbool(b))

  def _check(self, extra):
    self.s.push()
    for e in extra:
      if e is True:
        continue
      self.s.add(zbool(e))
    t0 = time.time()
    r = str(self.s.check())
    m = self.s.model() if r == "sat" else None
    self.s.pop()
    if r == "unknown":
      # z3's incremental mode gives up on some (nonlinear) queries that a fresh solver decides at once
      s2 = z3.Solver()
      s2.set("timeout", self.timeout_ms)
      for a in self.s.assertions():
        s2.add(a)
      for e in extra:
        if e is not True:
          s2.add(zbool(e))
      r = str(s2.check())
      m = s2.model() if r == "sat" else None
    dt = time.time() - t0
    return r, dt, m

  def prove(self, name, goal, guard=True):
    """valid(background ∧ guard ⇒ goal)?  'unsat' = proved."""
    if goal is True:
      res = QResult(name, "unsat", 0.0)
      res.trivial = True
      self.results.append(res)
      return res
    r, dt, m = self._check([guard, core.Not(goal) if is_sym(goal) else (not goal)])
    res = QResult(name, r, dt, m)
    self.results.append(res)
    if self.log:
      self.log(f"  prove {name}: {r} ({dt:.2f}s)")
    return res

  def reach(self, name, cond=True):
    """satisfiable(background ∧ cond)?  'sat' = reachable (vacuity guard)."""
    r, dt, m = self._check([cond])
    res = QResult(name, r, dt, m, kind="reach")
    self.results.append(res)
    if self.log:
      self.log(f"  reach {name}: {r} ({dt:.2f}s)")
    return res


def mval(model, x):
  """evaluate interpreter value under a z3 model -> python number / list."""
  if isinstance(x, Vec):
    return [mval(model, c) for c in x.c]
  if isinstance(x, tuple):
    return tuple(mval(model, c) for c in x)
  if isinstance(x, list):
    return [mval(model, c) for c in x]
  if isinstance(x, dict):
    return {k: mval(model, c) for k, c in x.items()}
  if not is_sym(x):
    return x
  v = model.eval(x, model_completion=True)
  if z3.is_int_value(v):
    return v.as_long()
  if z3.is_rational_value(v):
    return float(v.numerator_as_long()) / float(v.denominator_as_long())
  if z3.is_true(v):
    return True
  if z3.is_false(v):
    return False
  if z3.is_algebraic_value(v):
    a = v.approx(20)
    return float(a.numerator_as_long()) / float(a.denominator_as_long())
  return str(v)
