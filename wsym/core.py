"""WarpSym core: predicated symbolic interpreter for the Python subset used by Warp kernels / funcs.

Values
  python int/float/bool      concrete scalars
  z3 Int/Real/Bool terms     symbolic scalars (floats are modelled as reals)
  Vec                        vector / matrix / quaternion of scalars (value semantics)
  StructVal                  instance of a wp.struct (value semantics)
  ArrRef                     (view of) a Warp array backed by a Cell
  tuple                      python tuples (multiple returns, tid)

The interpreter walks the AST of the *real* function source (inspect.getsource at run time).  A symbolic `if`
executes both arms under guards and merges the environments with ite; return/break/continue are guards;
loops with symbolic trip count are unwound `unroll` times and an unwinding obligation is emitted.
"""

import ast
import builtins
import fractions
import inspect
import itertools
import math
import textwrap

import warp as wp
import z3

I, R, B = z3.IntSort(), z3.RealSort(), z3.BoolSort()

BUILTINS = wp._src.context.builtin_functions
WpFunction = wp._src.context.Function
WpKernel = wp._src.context.Kernel
WpStruct = wp._src.codegen.Struct


class Unsupported(Exception):
  """Construct outside the modelled subset -> harness error, never a verdict."""


# ----------------------------------------------------------------------------------------------- scalars


def is_sym(x):
  return isinstance(x, z3.ExprRef)


def rv(x):
  """Exact rational value of a python number (float literal -> its shortest decimal)."""
  if isinstance(x, bool):
    return z3.RealVal(1 if x else 0)
  if isinstance(x, int):
    return z3.RealVal(x)
  if isinstance(x, float):
    if x != x or abs(x) == float("inf"):
      raise Unsupported("nan/inf literal")
    return z3.RealVal(str(fractions.Fraction(repr(x))))
  if isinstance(x, fractions.Fraction):
    return z3.RealVal(str(x))
  return x


def kind(x):
  if is_sym(x):
    s = x.sort()
    return "int" if s == I else "real" if s == R else "bool" if s == B else str(s)
  if isinstance(x, bool):
    return "bool"
  if isinstance(x, int):
    return "int"
  if isinstance(x, (float, fractions.Fraction)):
    return "real"
  try:
    import numpy as np

    if isinstance(x, np.bool_):
      return "bool"
    if isinstance(x, np.integer):
      return "int"
    if isinstance(x, np.floating):
      return "real"
  except ImportError:
    pass
  return type(x).__name__


def norm_scalar(x):
  """numpy scalars / enums -> python scalars."""
  if is_sym(x) or isinstance(x, (bool, float, fractions.Fraction)):
    return x
  if isinstance(x, int):
    return int(x) if type(x) is not int and not isinstance(x, bool) else x
  k = kind(x)
  if k == "bool":
    return bool(x)
  if k == "int":
    return int(x)
  if k == "real":
    return float(x)
  return x


def to_z3(x, want=None):
  if is_sym(x):
    if want == "real" and x.sort() == I:
      return z3.ToReal(x)
    if want == "real" and x.sort() == B:
      return z3.If(x, z3.RealVal(1), z3.RealVal(0))
    if want == "int" and x.sort() == B:
      return z3.If(x, z3.IntVal(1), z3.IntVal(0))
    return x
  x = norm_scalar(x)
  if isinstance(x, bool):
    if want == "real":
      return z3.RealVal(1 if x else 0)
    if want == "int":
      return z3.IntVal(1 if x else 0)
    return z3.BoolVal(x)
  if isinstance(x, int):
    return z3.RealVal(x) if want == "real" else z3.IntVal(x)
  if isinstance(x, (float, fractions.Fraction)):
    return rv(x)
  raise TypeError(f"to_z3: {type(x)} {x!r}")


def b2z(x):
  if is_sym(x):
    if x.sort() == B:
      return x
    return x != 0
  return z3.BoolVal(bool(x))


def And(*a):
  out = []
  for x in a:
    if x is True or (not is_sym(x) and bool(x)):
      continue
    if not is_sym(x):
      return False
    out.append(b2z(x))
  if not out:
    return True
  if len(out) == 1:
    r = out[0]
  else:
    r = z3.And(*out)
  r = z3.simplify(r)
  if z3.is_true(r):
    return True
  if z3.is_false(r):
    return False
  return r


def Not(a):
  if not is_sym(a):
    return not a
  r = z3.simplify(z3.Not(b2z(a)))
  if z3.is_true(r):
    return True
  if z3.is_false(r):
    return False
  return r


def Or(*a):
  return Not(And(*[Not(x) for x in a]))


def Implies(a, b):
  return Or(Not(a), b)


def zbool(x):
  """python bool or z3 Bool -> z3 Bool"""
  return x if is_sym(x) else z3.BoolVal(bool(x))


class Vec:
  """vector (shape (n,)), matrix (shape (r,c), row major) or quaternion of scalars."""

  __slots__ = ("c", "shape", "dt")

  def __init__(self, c, shape, dt):
    self.c, self.shape, self.dt = list(c), tuple(shape), dt

  def copy(self):
    return Vec(self.c, self.shape, self.dt)

  def __repr__(self):
    return f"Vec{self.shape}{self.dt}{self.c}"

  def __len__(self):
    return self.shape[0]


class StructVal:
  def __init__(self, stype, fields):
    object.__setattr__(self, "_stype", stype)
    object.__setattr__(self, "_f", dict(fields))

  def copy(self):
    return StructVal(self._stype, {k: (v.copy() if isinstance(v, (Vec, StructVal)) else v) for k, v in self._f.items()})

  def __getattr__(self, k):
    try:
      return object.__getattribute__(self, "_f")[k]
    except KeyError:
      raise AttributeError(k)

  def __setattr__(self, k, v):
    self._f[k] = v


def ite(c, a, b):
  if not is_sym(c):
    return a if c else b
  if a is b:
    return a
  if a is None:
    return b
  if b is None:
    return a
  if isinstance(a, Vec) or isinstance(b, Vec):
    if not isinstance(a, Vec):
      a = Vec([a] * len(b.c), b.shape, b.dt)
    if not isinstance(b, Vec):
      b = Vec([b] * len(a.c), a.shape, a.dt)
    return Vec([ite(c, x, y) for x, y in zip(a.c, b.c)], a.shape, a.dt)
  if isinstance(a, StructVal):
    return StructVal(a._stype, {k: ite(c, a._f[k], b._f[k]) for k in a._f})
  if isinstance(a, tuple):
    return tuple(ite(c, x, y) for x, y in zip(a, b))
  if isinstance(a, ArrRef) or isinstance(b, ArrRef):
    if isinstance(a, ArrRef) and isinstance(b, ArrRef) and a.cell is b.cell and a.prefix == b.prefix:
      return a
    raise Unsupported("ite over distinct arrays")
  a, b = norm_scalar(a), norm_scalar(b)
  if not is_sym(a) and not is_sym(b) and type(a) == type(b) and a == b:
    return a
  ka, kb = kind(a), kind(b)
  if ka == "bool" and kb == "bool":
    return z3.If(b2z(c), b2z(a), b2z(b))
  want = "real" if "real" in (ka, kb) else "int"
  return z3.If(b2z(c), to_z3(a, want), to_z3(b, want))


def _pow2(k):
  return 1 << k


def _bits(n):
  return [k for k in range(64) if (n >> k) & 1]


DIVMODE = ["native"]  # or "poly": q fresh, q*b == a
_divctr = itertools.count()
SIDE = []  # side axioms (sqrt, poly-division, UF facts) collected globally per Interp via Interp.assumes


def arith(op, a, b, interp=None):
  if isinstance(a, Vec) or isinstance(b, Vec):
    return _vec_arith(op, a, b, interp)
  a, b = norm_scalar(a), norm_scalar(b)
  ka, kb = kind(a), kind(b)
  if not is_sym(a) and not is_sym(b):
    if ka == "bool":
      a = int(a)
    if kb == "bool":
      b = int(b)
    if op == "+":
      return a + b
    if op == "-":
      return a - b
    if op == "*":
      return a * b
    if op == "/" or op == "//":
      if ka == "int" and kb == "int":
        if b == 0:
          raise Unsupported("concrete int division by zero")
        q = abs(a) // abs(b)
        return q if (a >= 0) == (b >= 0) else -q
      if op == "//":
        return math.floor(a / b) * 1.0
      if b == 0:
        raise Unsupported("concrete float division by zero")
      return a / b
    if op == "%":
      if ka == "int" and kb == "int":
        r = abs(a) % abs(b)
        return r if a >= 0 else -r
      return math.fmod(a, b)
    if op == ">>":
      return a >> b
    if op == "<<":
      return a << b
    if op == "&":
      return a & b
    if op == "|":
      return a | b
    if op == "^":
      return a ^ b
    if op == "**":
      return a**b
    raise Unsupported(op)
  isreal = "real" in (ka, kb)
  want = "real" if isreal else "int"
  za, zb = to_z3(a, want), to_z3(b, want)
  if isreal and interp is not None and interp.float_uf and op in ("*", "/"):
    if op == "*" and not z3.is_rational_value(za) and not z3.is_rational_value(zb):
      # commutative: order operands canonically so that a*b and b*a are the same term
      # structural hash (stable across term re-creation), not the AST id
      ha, hb = za.hash(), zb.hash()
      if ha == hb and not z3.eq(za, zb):
        ha, hb = za.sexpr(), zb.sexpr()
      x, y = (za, zb) if ha <= hb else (zb, za)
      return z3.Function("fmul", R, R, R)(x, y)
    if op == "/" and not z3.is_rational_value(zb):
      return z3.Function("fdiv", R, R, R)(za, zb)
  if op == "+":
    return z3.simplify(za + zb)
  if op == "-":
    return z3.simplify(za - zb)
  if op == "*":
    return z3.simplify(za * zb)
  if op == "/" or (op == "//" and not isreal):
    if isreal:
      if DIVMODE[0] == "poly" and is_sym(b) and interp is not None:
        q = z3.Real(f"div!{next(_divctr)}")
        interp.assumes.append(z3.Implies(zb != 0, q * zb == za))
        return q
      return za / zb
    # C truncation for ints
    if not is_sym(b):
      if b > 0:
        return z3.simplify(z3.If(za >= 0, za / zb, -((-za) / zb)))
      if b < 0:
        return z3.simplify(z3.If(za >= 0, -(za / (-zb)), (-za) / (-zb)))
      raise Unsupported("int division by literal zero")
    return z3.If(
      zb > 0, z3.If(za >= 0, za / zb, -((-za) / zb)), z3.If(za >= 0, -(za / (-zb)), (-za) / (-zb))
    )
  if op == "//":
    return z3.ToReal(z3.ToInt(za / zb))
  if op == "%":
    if isreal:
      raise Unsupported("float %")
    if not is_sym(b) and b > 0:
      return z3.simplify(z3.If(za >= 0, za % zb, -((-za) % zb)))
    absb = z3.If(zb >= 0, zb, -zb)
    return z3.If(za >= 0, za % absb, -((-za) % absb))
  if isreal:
    raise Unsupported(f"float bit op {op}")
  if op == ">>":
    if not is_sym(b):
      return za / _pow2(b)  # floor == arithmetic shift
    return _symshift(za, zb, right=True)
  if op == "<<":
    if not is_sym(b):
      return za * _pow2(b)
    return _symshift(za, zb, right=False)
  if op == "&":
    if not is_sym(b) or not is_sym(a):
      x, m = (za, b) if not is_sym(b) else (zb, a)
      if m < 0:
        raise Unsupported("& with negative constant mask")
      terms = [((x / _pow2(k)) % 2) * _pow2(k) for k in _bits(m)]
      return z3.simplify(z3.Sum(terms)) if terms else 0
    return _bv2(za, zb, lambda p, q: p & q)
  if op == "|":
    if not is_sym(b) or not is_sym(a):
      x, m = (za, b) if not is_sym(b) else (zb, a)
      if m < 0:
        raise Unsupported("| with negative constant mask")
      terms = [(1 - ((x / _pow2(k)) % 2)) * _pow2(k) for k in _bits(m)]
      return z3.simplify(x + z3.Sum(terms)) if terms else x
    return _bv2(za, zb, lambda p, q: p | q)
  if op == "^":
    return _bv2(za, zb, lambda p, q: p ^ q)
  raise Unsupported(op)


def _bv2(za, zb, f):
  w = 32
  return z3.BV2Int(f(z3.Int2BV(za, w), z3.Int2BV(zb, w)), True)


def _symshift(za, zb, right):
  r = None
  for k in range(31, -1, -1):
    v = (za / _pow2(k)) if right else (za * _pow2(k))
    r = v if r is None else z3.If(zb == k, v, r)
  return r


def _vec_arith(op, a, b, interp):
  if op == "@":
    return matmul(a, b, interp)
  if isinstance(a, Vec) and isinstance(b, Vec):
    if op in "+-":
      if a.shape != b.shape:
        raise Unsupported("vec shape mismatch")
      return Vec([arith(op, x, y, interp) for x, y in zip(a.c, b.c)], a.shape, a.dt)
    if op == "*":
      if a.dt == "quat" and b.dt == "quat":
        return quat_mul_xyzw(a, b, interp)
      if len(a.shape) == 2 or len(b.shape) == 2:
        return matmul(a, b, interp)
      return Vec([arith(op, x, y, interp) for x, y in zip(a.c, b.c)], a.shape, a.dt)
    if op == "/":
      return Vec([arith(op, x, y, interp) for x, y in zip(a.c, b.c)], a.shape, a.dt)
    raise Unsupported(f"vec {op} vec")
  if isinstance(a, Vec):
    if op in ("*", "/", "//", "%"):
      return Vec([arith(op, x, b, interp) for x in a.c], a.shape, a.dt)
    raise Unsupported(f"vec {op} scalar")
  if op in ("*",):
    return Vec([arith(op, a, x, interp) for x in b.c], b.shape, b.dt)
  if op == "/":
    return Vec([arith(op, a, x, interp) for x in b.c], b.shape, b.dt)
  raise Unsupported(f"scalar {op} vec")


def sumv(xs, interp=None):
  s = xs[0]
  for x in xs[1:]:
    s = arith("+", s, x, interp)
  return s


def matmul(a, b, interp=None):
  m = lambda x, y: arith("*", x, y, interp)
  if len(a.shape) == 2 and len(b.shape) == 1:
    r, c = a.shape
    if c != b.shape[0]:
      raise Unsupported("matmul shape")
    return Vec([sumv([m(a.c[i * c + k], b.c[k]) for k in range(c)], interp) for i in range(r)], (r,), b.dt)
  if len(a.shape) == 1 and len(b.shape) == 2:
    r, c = b.shape
    if r != a.shape[0]:
      raise Unsupported("matmul shape")
    return Vec([sumv([m(a.c[k], b.c[k * c + j]) for k in range(r)], interp) for j in range(c)], (c,), a.dt)
  if len(a.shape) == 2 and len(b.shape) == 2:
    r, n = a.shape
    n2, c = b.shape
    if n != n2:
      raise Unsupported("matmul shape")
    return Vec(
      [sumv([m(a.c[i * n + k], b.c[k * c + j]) for k in range(n)], interp) for i in range(r) for j in range(c)], (r, c), a.dt
    )
  raise Unsupported("matmul operands")


def quat_mul_xyzw(a, b, interp=None):
  """Warp's native quaternion product (x, y, z, w layout)."""
  ax, ay, az, aw = a.c
  bx, by, bz, bw = b.c
  m = lambda x, y: arith("*", x, y, interp)
  p = lambda *t: sumv(list(t), interp)
  n = lambda x: arith("*", x, -1, interp)
  return Vec(
    [
      p(m(aw, bx), m(bw, ax), m(ay, bz), n(m(by, az))),
      p(m(aw, by), m(bw, ay), m(az, bx), n(m(bz, ax))),
      p(m(aw, bz), m(bw, az), m(ax, by), n(m(bx, ay))),
      p(m(aw, bw), n(m(ax, bx)), n(m(ay, by)), n(m(az, bz))),
    ],
    (4,),
    "quat",
  )


def cmp(op, a, b):
  if isinstance(a, Vec) or isinstance(b, Vec):
    if op not in ("==", "!="):
      raise Unsupported("vector ordering compare")
    eq = And(*[cmp("==", x, y) for x, y in zip(a.c, b.c)])
    return eq if op == "==" else Not(eq)
  a, b = norm_scalar(a), norm_scalar(b)
  if not is_sym(a) and not is_sym(b):
    return {"<": a < b, "<=": a <= b, ">": a > b, ">=": a >= b, "==": a == b, "!=": a != b}[op]
  ka, kb = kind(a), kind(b)
  if ka == "bool" and kb == "bool":
    za, zb = b2z(a), b2z(b)
  else:
    want = "real" if "real" in (ka, kb) else "int"
    za, zb = to_z3(a, want), to_z3(b, want)
  r = {
    "<": lambda: za < zb,
    "<=": lambda: za <= zb,
    ">": lambda: za > zb,
    ">=": lambda: za >= zb,
    "==": lambda: za == zb,
    "!=": lambda: za != zb,
  }[op]()
  r = z3.simplify(r)
  if z3.is_true(r):
    return True
  if z3.is_false(r):
    return False
  return r


def vmin(a, b):
  return ite(cmp("<", a, b), a, b)


def vmax(a, b):
  return ite(cmp(">", a, b), a, b)


def vabs(a):
  if not is_sym(a):
    return abs(a)
  return ite(cmp("<", a, 0), arith("*", a, -1), a)


# ----------------------------------------------------------------------------------------------- memory


def scalar_kind(t):
  if t in (wp.int32, int, wp.int64, wp.uint32, wp.uint64, wp.int16, wp.int8, wp.uint8, wp.uint16):
    return "int"
  if t in (wp.float32, float, wp.float64, wp.float16):
    return "real"
  if t in (wp.bool, bool):
    return "bool"
  return None


def is_vec_type(t):
  return isinstance(t, type) and scalar_kind(t) is None and hasattr(t, "_length_") and hasattr(t, "_wp_scalar_type_")


def dtype_info(dt):
  """-> (scalar kind, ncomp, vshape, vdt)"""
  sk = scalar_kind(dt)
  if sk:
    return sk, 1, (), None
  if hasattr(dt, "_wp_scalar_type_"):
    sk = scalar_kind(dt._wp_scalar_type_)
    n = dt._length_
    shape = tuple(getattr(dt, "_shape_", (n,)))
    vdt = "quat" if wp.types.type_is_quaternion(dt) else ("i" if sk == "int" else "f")
    return sk, n, shape, vdt
  raise Unsupported(f"array dtype {dt}")


_cellctr = itertools.count()


class Cell:
  """Backing store of a Warp array.

  mode 'array': z3 Array per scalar component, shape entries may be symbolic Ints.
  mode 'dense': concrete shape; one python/z3 scalar per cell (flat, row major) per component.
  """

  def __init__(self, name, shape, dtype, ncomp=1, vshape=(), vdt=None, mode="array", init=None, wptype=None):
    self.name, self.shape, self.dtype, self.ncomp, self.vshape, self.vdt = name, list(shape), dtype, ncomp, tuple(vshape), vdt
    self.ndim = len(self.shape)
    self.mode = mode
    self.wptype = wptype
    self.uid = next(_cellctr)
    sort = {"int": I, "real": R, "bool": B}[dtype]
    self.sort = sort
    if mode == "array":
      self.a = [z3.Array(f"{name}#{k}" if ncomp > 1 else name, *([I] * self.ndim), sort) for k in range(ncomp)]
    else:
      n = 1
      for s in self.shape:
        if is_sym(s):
          raise Unsupported("dense cell with symbolic shape")
        n *= s
      self.size = n
      if init is None:
        self.d = [
          [z3.Const(f"{name}{list(self.unflat(i))}" + (f"#{k}" if ncomp > 1 else ""), sort) for i in range(n)] for k in range(ncomp)
        ]
      else:
        self.d = init

  def unflat(self, i):
    out = []
    for s in reversed(self.shape):
      out.append(i % s)
      i //= s
    return tuple(reversed(out))

  def flat(self, idx):
    f = 0
    for i, s in zip(idx, self.shape):
      f = f * s + i
    return f

  def snapshot(self):
    return list(self.a) if self.mode == "array" else [list(x) for x in self.d]

  def restore(self, snap):
    if self.mode == "array":
      self.a = list(snap)
    else:
      self.d = [list(x) for x in snap]

  # raw reads (no obligations / log): for harness goals
  def get(self, idx, k=0, snap=None):
    src = snap if snap is not None else (self.a if self.mode == "array" else self.d)
    idx = tuple(idx)
    if self.mode == "array":
      return z3.Select(src[k], *[to_z3(i, "int") for i in idx])
    cands = self._cands(idx)
    if not cands:
      return z3.FreshConst(self.sort, "oob")
    if len(cands) == 1:
      return src[k][self.flat(cands[0])]
    r = src[k][self.flat(cands[-1])]
    for cd in reversed(cands[:-1]):
      r = ite(And(*[cmp("==", i, c) for i, c in zip(idx, cd) if is_sym(i)]), src[k][self.flat(cd)], r)
    return r

  def getv(self, idx, snap=None):
    if self.ncomp == 1:
      return self.get(idx, 0, snap)
    return Vec([self.get(idx, k, snap) for k in range(self.ncomp)], self.vshape, self.vdt)

  def _cands(self, idx):
    dims = []
    for i, s in zip(idx, self.shape):
      if is_sym(i):
        dims.append(range(s))
      else:
        i = int(i)
        if i < 0:
          i += s
        dims.append([i] if 0 <= i < s else [])
    return list(itertools.product(*dims))

  def set(self, idx, vals, g=True):
    """vals: list of ncomp scalars"""
    idx = tuple(idx)
    if self.mode == "array":
      zi = [to_z3(i, "int") for i in idx]
      for k in range(self.ncomp):
        v = self._coerce(vals[k])
        new = z3.Store(self.a[k], *zi, v)
        self.a[k] = new if g is True else z3.If(b2z(g), new, self.a[k])
      return
    for cd in self._cands(idx):
      cg = And(g, *[cmp("==", i, c) for i, c in zip(idx, cd) if is_sym(i)])
      if cg is False:
        continue
      f = self.flat(cd)
      wm = getattr(self, "wmask", None)
      if wm is not None:
        wm[f] = True
      for k in range(self.ncomp):
        self.d[k][f] = vals[k] if cg is True else ite(cg, self._coerce(vals[k]), self._coerce(self.d[k][f]))

  def _coerce(self, v):
    if self.dtype == "bool":
      return b2z(v)
    return to_z3(v, "real" if self.dtype == "real" else "int")

  def fill(self, val):
    """whole-array fill (host zero_/fill_)"""
    vals = val.c if isinstance(val, Vec) else [val] * self.ncomp
    if self.mode == "array":
      for k in range(self.ncomp):
        self.a[k] = z3.K(self.a[k].sort().domain(), self._coerce(vals[k])) if self.ndim == 1 else _const_array(self.ndim, self._coerce(vals[k]))
    else:
      self.d = [[vals[k]] * self.size for k in range(self.ncomp)]
      if getattr(self, "wmask", None) is not None:
        self.wmask = [True] * self.size


def _const_array(ndim, v):
  # multi-dim constant array via lambda
  xs = [z3.Int(f"!k{i}") for i in range(ndim)]
  return z3.Lambda(xs, v)


class ShapeTuple(tuple):
  """Warp's shape_t has 4 entries; entries beyond ndim read as 0."""

  def __getitem__(self, i):
    if isinstance(i, int) and i >= len(self) and i < 4:
      return 0
    return tuple.__getitem__(self, i)


class ArrRef:
  def __init__(self, cell, prefix=()):
    self.cell, self.prefix = cell, tuple(prefix)

  @property
  def shape(self):
    return tuple(self.cell.shape[len(self.prefix) :])

  @property
  def ndim(self):
    return self.cell.ndim - len(self.prefix)


class Access:
  __slots__ = ("kind", "cell", "idx", "guard", "where", "val", "seq")

  def __init__(self, kind, cell, idx, guard, where, val=None, seq=0):
    self.kind, self.cell, self.idx, self.guard, self.where, self.val, self.seq = kind, cell, idx, guard, where, val, seq


class Obl:
  __slots__ = ("kind", "guard", "cond", "where", "info", "strict")

  def __init__(self, kind, guard, cond, where, info=None):
    self.kind, self.guard, self.cond, self.where, self.info = kind, guard, cond, where, info


# ----------------------------------------------------------------------------------------------- interpreter


class Frame:
  def __init__(self, fn_globals, closure, name):
    self.env = {}
    self.g, self.closure, self.name = fn_globals, closure, name
    self.ret_guard = False
    self.ret_val = None
    self.brk = []
    self.defg = {}  # name -> guard under which the local has been assigned (absent = on every path)
    self.lastg = {}


def _conjuncts(g):
  if g is True:
    return set()
  if not is_sym(g):
    return {("const", bool(g))}
  if z3.is_and(g):
    out = set()
    for c in g.children():
      out |= _conjuncts(c)
    return out
  return {g.get_id()}


def _implied(active, d):
  """syntactic check: every conjunct of d is a conjunct of active"""
  if d is True:
    return True
  if active is False:
    return True
  return _conjuncts(d) <= _conjuncts(active)


_OPS = {
  ast.Add: "+",
  ast.Sub: "-",
  ast.Mult: "*",
  ast.Div: "/",
  ast.FloorDiv: "//",
  ast.Mod: "%",
  ast.RShift: ">>",
  ast.LShift: "<<",
  ast.BitAnd: "&",
  ast.BitOr: "|",
  ast.BitXor: "^",
  ast.MatMult: "@",
  ast.Pow: "**",
}
_CMPS = {ast.Lt: "<", ast.LtE: "<=", ast.Gt: ">", ast.GtE: ">=", ast.Eq: "==", ast.NotEq: "!="}

_src_cache = {}


def fdef(pyfunc):
  if pyfunc not in _src_cache:
    src = textwrap.dedent(inspect.getsource(pyfunc))
    tree = ast.parse(src)
    node = tree.body[0]
    try:
      file = inspect.getsourcefile(pyfunc)
      line0 = pyfunc.__code__.co_firstlineno
    except Exception:
      file, line0 = "?", 1
    _src_cache[pyfunc] = (node, file, line0)
  return _src_cache[pyfunc]


_GLOBAL_FRESH = itertools.count()

UF_MATH = ("sin", "cos", "tan", "asin", "acos", "atan", "atan2", "exp", "log", "pow", "tanh", "sinh", "cosh", "log2", "log10")


class Interp:
  def __init__(self, unroll=8, tid=None, summaries=None, float_uf=False, track_access=True):
    self.guard = True
    self.obl = []
    self.unroll = unroll
    self.tid = tid
    self.fresh = _GLOBAL_FRESH  # process-wide: several Interp instances (threads of a host run) must not alias fresh symbols
    self.assumes = []
    self.accesses = []
    self.track_access = track_access
    self.depth = 0
    self.summaries = summaries or {}  # wp func key -> callable(interp, args) -> value
    self.float_uf = float_uf
    self.uf_apps = {}  # (name, args-sexpr) -> term, for fact instantiation
    self.calls = []  # trace of wp.func calls (name)
    self.branch_cov = {}
    self.seq = itertools.count()
    self.nsteps = 0

  # ---- helpers
  def where(self, fr, node):
    return f"{fr.name}:{getattr(node, 'lineno', 0) + fr.line0 - 1}"

  def lookup(self, fr, name):
    if name in fr.env:
      d = fr.defg.get(name)
      if d is None:
        return fr.env[name]
      if _implied(self.active(fr), d):
        return fr.env[name]
      v = ite(d, fr.env[name], self.undef_like(fr.env[name], name))
      if isinstance(v, (Vec, StructVal)):
        # component / attribute stores mutate the object in place: it must be the one held by the environment
        fr.env[name] = v
        fr.defg.pop(name, None)
      return v
    if name in fr.closure:
      return fr.closure[name]
    if name in fr.g:
      return fr.g[name]
    try:
      return getattr(builtins, name)
    except AttributeError:
      raise Unsupported(f"unbound name {name} in {fr.name}")

  def active(self, fr):
    g = And(self.guard, Not(fr.ret_guard))
    if fr.brk:
      b, c = fr.brk[-1]
      g = And(g, Not(b), Not(c))
    return g

  def fresh_val(self, dtype, hint="v"):
    n = f"{hint}!{next(self.fresh)}"
    return {"int": z3.Int, "real": z3.Real, "bool": z3.Bool}[dtype](n)

  # ---- calls
  def call_pyfunc(self, pyfunc, args, kwargs=None, name=None, caller=None):
    node, file, line0 = fdef(pyfunc)
    try:
      cv = inspect.getclosurevars(pyfunc)
      closure = dict(cv.nonlocals)
    except Exception:
      closure = {}
    fr = Frame(pyfunc.__globals__, closure, name or pyfunc.__name__)
    fr.line0 = line0
    params = [a.arg for a in node.args.args]
    defaults = node.args.defaults
    vals = list(args)
    kwargs = dict(kwargs or {})
    if len(vals) > len(params):
      raise Unsupported(f"too many args for {fr.name}")
    for i in range(len(vals), len(params)):
      p = params[i]
      if p in kwargs:
        vals.append(kwargs.pop(p))
      else:
        di = i - (len(params) - len(defaults))
        if di < 0:
          raise Unsupported(f"missing arg {p} for {fr.name}")
        vals.append(self.expr(fr, defaults[di]))
    if kwargs:
      raise Unsupported(f"unexpected kwargs {list(kwargs)} for {fr.name}")
    for p, a in zip(params, vals):
      fr.env[p] = a.copy() if isinstance(a, (Vec, StructVal)) else a
    saved = self.guard
    if caller is not None:
      self.guard = self.active(caller)
    if self.depth == 0:
      self.top_frame = fr
    self.depth += 1
    if self.depth > 40:
      raise Unsupported("call depth")
    try:
      self.block(fr, node.body)
    finally:
      self.depth -= 1
      self.guard = saved
    return fr.ret_val

  def block(self, fr, stmts):
    for s in stmts:
      if self.active(fr) is False:
        return
      self.stmt(fr, s)

  def assign_name(self, fr, name, val, g):
    if isinstance(val, (Vec, StructVal)):
      val = val.copy()
    if g is True:
      fr.env[name] = val
      fr.defg.pop(name, None)
    elif name not in fr.env:
      # first definition under a symbolic guard: on the other paths the (C++) local is uninitialised; the guard under
      # which it is defined is tracked and reads outside it see an arbitrary value (see lookup)
      fr.env[name] = val
      fr.defg[name] = g
      fr.lastg[name] = g
    else:
      fr.env[name] = ite(g, val, fr.env[name])
      if name in fr.defg:
        fr.defg[name] = Or(fr.defg[name], g)
        fr.lastg[name] = g
        if fr.defg[name] is True:
          fr.defg.pop(name)

  def undef_like(self, val, name="v"):
    if isinstance(val, Vec):
      return Vec([self.undef_like(c, name) for c in val.c], val.shape, val.dt)
    if isinstance(val, StructVal):
      return StructVal(val._stype, {k: self.undef_like(v, name) for k, v in val._f.items()})
    if isinstance(val, tuple):
      return tuple(self.undef_like(v, name) for v in val)
    k = kind(val)
    if k in ("int", "real", "bool"):
      return self.fresh_val(k, f"undef:{name}")
    return val

  def stmt(self, fr, s):
    self.nsteps += 1
    g = self.active(fr)
    if isinstance(s, ast.Expr):
      if isinstance(s.value, ast.Constant):
        return
      self.expr(fr, s.value)
    elif isinstance(s, ast.Assign):
      val = self.expr(fr, s.value)
      for t in s.targets:
        self.assign(fr, t, val, g)
    elif isinstance(s, ast.AnnAssign):
      if s.value is not None:
        self.assign(fr, s.target, self.expr(fr, s.value), g)
    elif isinstance(s, ast.AugAssign):
      self.augassign(fr, s, g)
    elif isinstance(s, ast.If):
      c = self.expr(fr, s.test)
      if isinstance(c, (Vec, ArrRef)):
        raise Unsupported("non-scalar condition")
      if not is_sym(c):
        self.block(fr, s.body if c else s.orelse)
        return
      c = b2z(c)
      saved = self.guard
      before = set(fr.env)
      entry = self.active(fr)
      self.guard = And(saved, c)
      g_then = self.active(fr)
      key = self.where(fr, s)
      cov = self.branch_cov.setdefault(key, [False, False])
      if self.guard is not False:
        cov[0] = True
        self.block(fr, s.body)
      then_new = {n: fr.defg.get(n) for n in fr.env if n not in before}
      self.guard = And(saved, Not(c))
      g_else = self.active(fr)
      if self.guard is not False:
        cov[1] = True
        fr.lastg = {}
        self.block(fr, s.orelse)
        # a local first assigned at the top of BOTH arms is defined whenever the if statement is reached
        for n, dg in then_new.items():
          if dg is not None and is_sym(dg) and is_sym(g_then) and z3.eq(dg, g_then) and n in fr.lastg and is_sym(fr.lastg[n]) and is_sym(g_else) and z3.eq(fr.lastg[n], g_else):
            if entry is True:
              fr.defg.pop(n, None)
            else:
              fr.defg[n] = entry
      self.guard = saved
    elif isinstance(s, ast.Return):
      val = self.expr(fr, s.value) if s.value is not None else None
      if isinstance(val, (Vec, StructVal)):
        val = val.copy()
      if fr.ret_val is None or g is True:
        fr.ret_val = val
      elif val is not None:
        fr.ret_val = ite(g, val, fr.ret_val)
      fr.ret_guard = Or(fr.ret_guard, g)
    elif isinstance(s, ast.For):
      self.for_(fr, s)
    elif isinstance(s, ast.While):
      self.while_(fr, s)
    elif isinstance(s, ast.Break):
      fr.brk[-1][0] = Or(fr.brk[-1][0], g)
    elif isinstance(s, ast.Continue):
      fr.brk[-1][1] = Or(fr.brk[-1][1], g)
    elif isinstance(s, ast.Pass):
      pass
    elif isinstance(s, ast.Assert):
      pass
    else:
      raise Unsupported(f"statement {type(s).__name__} in {fr.name}")

  def augassign(self, fr, s, g):
    t = s.target
    op = _OPS[type(s.op)]
    if isinstance(t, ast.Subscript):
      base = self.expr(fr, t.value)
      idx = self.index(fr, t.slice)
      if isinstance(base, ArrRef):
        # Warp compiles `arr[i] += v` into an atomic add
        if op in "+-":
          v = self.expr(fr, s.value)
          self.atomic(fr, "add" if op == "+" else "sub", base, idx, v, s)
          return
        cur = self.load(base, idx, g, self.where(fr, s))
        val = arith(op, cur, self.expr(fr, s.value), self)
        self.store(base, idx, val, g, self.where(fr, s))
        return
      cur = self.subscript_get(fr, base, idx, t)
      val = arith(op, cur, self.expr(fr, s.value), self)
      self.subscript_set(fr, t, base, idx, val, g)
      return
    cur = self.expr(fr, t)
    val = arith(op, cur, self.expr(fr, s.value), self)
    self.assign(fr, t, val, g)

  def for_(self, fr, s):
    it = s.iter
    if not (isinstance(it, ast.Call) and getattr(it.func, "id", None) == "range"):
      seq = self.expr(fr, it)
      if isinstance(seq, (list, tuple, range)):
        outer_guard = self.guard
        saved = self.active(fr)
        fr.brk.append([False, False])
        for v in seq:
          self.guard = self.active_loop(fr, saved)
          if self.guard is False:
            break
          fr.brk[-1][1] = False
          self.assign(fr, s.target, v, True)
          self.block(fr, s.body)
        self.guard = outer_guard
        fr.brk.pop()
        return
      raise Unsupported("for over non-range")
    a = [self.expr(fr, x) for x in it.args]
    lo, hi = (0, a[0]) if len(a) == 1 else (a[0], a[1])
    step = a[2] if len(a) > 2 else 1
    if is_sym(step):
      raise Unsupported("symbolic range step")
    lo, hi, step = norm_scalar(lo), norm_scalar(hi), norm_scalar(step)
    name = s.target.id
    conc = not is_sym(lo) and not is_sym(hi)
    k = 0
    outer_guard = self.guard
    saved = self.active(fr)  # folds an enclosing loop's break/continue flags into this loop's guard
    fr.brk.append([False, False])
    while True:
      i = arith("+", lo, k * step)
      cond = cmp("<", i, hi) if step > 0 else cmp(">", i, hi)
      if cond is False:
        break
      lg = self.active_loop(fr, saved)
      if lg is False:
        break
      if is_sym(cond) and k >= self.unroll:
        self.obl.append(Obl("unwind", lg, Not(cond), self.where(fr, s)))
        break
      self.guard = And(lg, cond)
      if self.guard is False:
        break
      fr.brk[-1][1] = False
      self.assign_name(fr, name, i, True if conc else self.guard)
      self.block(fr, s.body)
      k += 1
      if k > 100000:
        raise Unsupported("loop too long")
    self.guard = outer_guard
    fr.brk.pop()

  def active_loop(self, fr, saved):
    return And(saved, Not(fr.ret_guard), Not(fr.brk[-1][0]))

  def while_(self, fr, s):
    outer_guard = self.guard
    saved = self.active(fr)
    fr.brk.append([False, False])
    k = 0
    while True:
      self.guard = self.active_loop(fr, saved)
      if self.guard is False:
        break
      fr.brk[-1][1] = False
      cond = self.expr(fr, s.test)
      if not is_sym(cond):
        if not cond:
          break
      else:
        cond = b2z(cond)
      if is_sym(cond) and k >= self.unroll:
        self.obl.append(Obl("unwind", self.guard, Not(cond), self.where(fr, s)))
        break
      self.guard = And(self.guard, cond)
      if self.guard is False:
        break
      self.block(fr, s.body)
      k += 1
      if k > 100000:
        raise Unsupported("loop too long")
    self.guard = outer_guard
    fr.brk.pop()

  # ---- assignment
  def assign(self, fr, t, val, g):
    if isinstance(t, ast.Name):
      self.assign_name(fr, t.id, val, g)
    elif isinstance(t, (ast.Tuple, ast.List)):
      if isinstance(val, Vec):
        val = tuple(val.c)
      if not isinstance(val, (tuple, list)) or len(val) != len(t.elts):
        raise Unsupported(f"tuple unpack of {type(val).__name__} in {fr.name}")
      for tt, v in zip(t.elts, val):
        self.assign(fr, tt, v, g)
    elif isinstance(t, ast.Subscript):
      base = self.expr(fr, t.value)
      idx = self.index(fr, t.slice)
      self.subscript_set(fr, t, base, idx, val, g)
    elif isinstance(t, ast.Attribute):
      base = self.expr(fr, t.value)
      if isinstance(base, Vec) and t.attr in "xyzw" and len(t.attr) == 1:
        k = "xyzw".index(t.attr)
        base.c[k] = val if g is True else ite(g, val, base.c[k])
        return
      if not isinstance(base, StructVal):
        raise Unsupported("attribute store on non-struct")
      cur = base._f.get(t.attr)
      if isinstance(val, (Vec, StructVal)):
        val = val.copy()
      base._f[t.attr] = val if (g is True or cur is None) else ite(g, val, cur)
    else:
      raise Unsupported("assign target")

  def subscript_set(self, fr, t, base, idx, val, g):
    if isinstance(base, ArrRef):
      self.store(base, idx, val, g, self.where(fr, t))
    elif isinstance(base, Vec) and isinstance(t.value, ast.Subscript) and isinstance(self.expr_noeffect(fr, t.value.value), ArrRef):
      # arr[i, j][k] = v : read-modify-write of one component of an array element
      arr = self.expr_noeffect(fr, t.value.value)
      aidx = self.index(fr, t.value.slice)
      new = self.vec_set(base, idx, val)
      self.store(arr, aidx, new, g, self.where(fr, t))
    elif isinstance(base, Vec):
      new = self.vec_set(base, idx, val)
      merged = new if g is True else ite(g, new, base)
      base.c = merged.c
    else:
      raise Unsupported("subscript store")

  def expr_noeffect(self, fr, e):
    """evaluate an expression without recording obligations/accesses (used to classify store targets)."""
    no, na = len(self.obl), len(self.accesses)
    try:
      return self.expr(fr, e)
    except Unsupported:
      return None
    finally:
      del self.obl[no:]
      del self.accesses[na:]

  def vec_set(self, v, idx, val):
    new = v.copy()
    if len(v.shape) == 1:
      (i,) = idx
      i = norm_scalar(i)
      if is_sym(i):
        new.c = [ite(cmp("==", i, k), val, v.c[k]) for k in range(v.shape[0])]
      else:
        new.c[i] = val
    else:
      r, c = v.shape
      if len(idx) == 1:
        i = norm_scalar(idx[0])
        if is_sym(i):
          for rr in range(r):
            for k in range(c):
              new.c[rr * c + k] = ite(cmp("==", i, rr), val.c[k], v.c[rr * c + k])
        else:
          for k in range(c):
            new.c[i * c + k] = val.c[k]
      else:
        i, j = norm_scalar(idx[0]), norm_scalar(idx[1])
        if is_sym(i) or is_sym(j):
          for rr in range(r):
            for cc in range(c):
              new.c[rr * c + cc] = ite(And(cmp("==", i, rr), cmp("==", j, cc)), val, v.c[rr * c + cc])
        else:
          new.c[i * c + j] = val
    return new

  def index(self, fr, sl):
    if isinstance(sl, ast.Tuple):
      return tuple(self.expr(fr, e) for e in sl.elts)
    if isinstance(sl, ast.Slice):
      raise Unsupported("slice")
    return (self.expr(fr, sl),)

  # ---- memory
  def bounds(self, ref, idx, g, where, kindstr, val=None):
    full = ref.prefix + tuple(idx)
    cell = ref.cell
    for d in range(len(ref.prefix), len(full)):
      i = full[d]
      hi = cell.shape[d]
      ok = And(cmp(">=", i, arith("*", hi, -1)), cmp("<", i, hi))
      if ok is not True:
        o = Obl("bounds", g, ok, where, (kindstr, cell.name, d))
        o.strict = And(cmp(">=", i, 0), cmp("<", i, hi))
        self.obl.append(o)
    if self.track_access:
      self.accesses.append(Access(kindstr, cell, full, g, where, val, next(self.seq)))

  def load(self, ref, idx, g, where):
    idx = tuple(norm_scalar(i) for i in idx)
    full = ref.prefix + idx
    cell = ref.cell
    if len(full) < cell.ndim:
      # view: bounds of the prefix dims are checked now
      self.bounds_prefix(ref, idx, g, where)
      return ArrRef(cell, full)
    if len(full) > cell.ndim:
      # indexing into vector element of array: arr[i][k] style handled by caller
      raise Unsupported("too many indices")
    self.bounds(ref, idx, g, where, "R")
    if cell.mode == "dense" and not self._dense_ok(cell, full):
      v = [self.fresh_val(cell.dtype, "oob") for _ in range(cell.ncomp)]
    else:
      v = [cell.get(full, k) for k in range(cell.ncomp)]
    out = v[0] if cell.ncomp == 1 else Vec(v, cell.vshape, cell.vdt)
    if self.track_access:
      self.accesses[-1].val = out
    return out

  def _dense_ok(self, cell, full):
    for i, s in zip(full, cell.shape):
      if not is_sym(i) and not (-s <= i < s):
        return False
    return True

  def bounds_prefix(self, ref, idx, g, where):
    full = ref.prefix + tuple(idx)
    cell = ref.cell
    for d in range(len(ref.prefix), len(full)):
      i = full[d]
      hi = cell.shape[d]
      ok = And(cmp(">=", i, arith("*", hi, -1)), cmp("<", i, hi))
      if ok is not True:
        o = Obl("bounds", g, ok, where, ("V", cell.name, d))
        o.strict = And(cmp(">=", i, 0), cmp("<", i, hi))
        self.obl.append(o)

  def store(self, ref, idx, val, g, where):
    idx = tuple(norm_scalar(i) for i in idx)
    full = ref.prefix + idx
    cell = ref.cell
    if len(full) != cell.ndim:
      raise Unsupported("partial store")
    vals = val.c if isinstance(val, Vec) else [val]
    if len(vals) != cell.ncomp:
      if len(vals) == 1:
        vals = vals * cell.ncomp
      else:
        raise Unsupported(f"store of {len(vals)} comps into {cell.name} ({cell.ncomp})")
    self.bounds(ref, idx, g, where, "W", val)
    if g is False:
      return
    if cell.mode == "dense" and not self._dense_ok(cell, full):
      return
    cell.set(full, vals, g)

  def atomic(self, fr, op, arr, idx, v, node):
    where = self.where(fr, node)
    g = self.active(fr)
    n0 = len(self.accesses)
    old = self.load(arr, idx, g, where)
    if op == "add":
      new = arith("+", old, v, self)
    elif op == "sub":
      new = arith("-", old, v, self)
    elif op == "min":
      new = vmin(old, v)
    elif op == "max":
      new = vmax(old, v)
    elif op == "or":
      new = arith("|", old, v, self)
    elif op == "and":
      new = arith("&", old, v, self)
    elif op == "exch":
      new = v
    else:
      raise Unsupported(f"atomic_{op}")
    self.store(arr, idx, new, g, where)
    if self.track_access:
      acc = self.accesses[n0]
      self.accesses[n0:] = [Access("A:" + op, acc.cell, acc.idx, acc.guard, where, v, acc.seq)]
    return old

  # ---- expressions
  def expr(self, fr, e):
    if isinstance(e, ast.Constant):
      return e.value
    if isinstance(e, ast.Name):
      return self.lookup(fr, e.id)
    if isinstance(e, ast.Attribute):
      base = self.expr(fr, e.value)
      if isinstance(base, ArrRef):
        if e.attr == "shape":
          return ShapeTuple(base.shape)
        if e.attr == "ndim":
          return base.ndim
        if e.attr == "size":
          r = 1
          for s_ in base.shape:
            r = arith("*", r, s_)
          return r
        raise Unsupported(f"array attribute {e.attr}")
      if isinstance(base, Vec) and len(e.attr) == 1 and e.attr in "xyzw":
        return base.c["xyzw".index(e.attr)]
      if isinstance(base, StructVal):
        return getattr(base, e.attr)
      if base is wp:
        if e.attr in ("tid",):
          return BUILTINS[e.attr]
        try:
          return getattr(wp, e.attr)
        except AttributeError:
          if e.attr in BUILTINS:
            return BUILTINS[e.attr]
          raise Unsupported(f"wp.{e.attr}")
      try:
        return getattr(base, e.attr)
      except AttributeError:
        raise Unsupported(f"attribute {e.attr} of {type(base).__name__}")
    if isinstance(e, ast.BinOp):
      return arith(_OPS[type(e.op)], self.expr(fr, e.left), self.expr(fr, e.right), self)
    if isinstance(e, ast.UnaryOp):
      v = self.expr(fr, e.operand)
      if isinstance(e.op, ast.USub):
        return arith("*", v, -1, self) if (is_sym(v) or isinstance(v, Vec)) else -v
      if isinstance(e.op, ast.UAdd):
        return v
      if isinstance(e.op, ast.Not):
        return Not(b2z(v)) if is_sym(v) else (not v)
      if isinstance(e.op, ast.Invert):
        if is_sym(v):
          return arith("-", arith("*", v, -1), 1)
        return ~v
      raise Unsupported("unary")
    if isinstance(e, ast.BoolOp):
      vals = []
      saved = self.guard
      try:
        for sub in e.values:
          v = self.expr(fr, sub)
          if isinstance(v, (Vec, ArrRef, StructVal)):
            raise Unsupported("non-scalar in boolop")
          v = b2z(v) if is_sym(v) else bool(v)
          vals.append(v)
          if isinstance(e.op, ast.And):
            if v is False:
              break
            self.guard = And(self.guard, v)
          else:
            if v is True:
              break
            self.guard = And(self.guard, Not(v))
      finally:
        self.guard = saved
      return And(*vals) if isinstance(e.op, ast.And) else Or(*vals)
    if isinstance(e, ast.Compare):
      left = self.expr(fr, e.left)
      res = []
      for op, r in zip(e.ops, e.comparators):
        right = self.expr(fr, r)
        if isinstance(op, (ast.In, ast.NotIn)):
          v = left in right
          res.append(v if isinstance(op, ast.In) else not v)
        elif isinstance(op, (ast.Is, ast.IsNot)):
          v = left is right
          res.append(v if isinstance(op, ast.Is) else not v)
        else:
          res.append(cmp(_CMPS[type(op)], left, right))
        left = right
      return And(*res)
    if isinstance(e, ast.IfExp):
      c = self.expr(fr, e.test)
      if not is_sym(c):
        return self.expr(fr, e.body if c else e.orelse)
      c = b2z(c)
      saved = self.guard
      self.guard = And(saved, c)
      a = self.expr(fr, e.body)
      self.guard = And(saved, Not(c))
      b = self.expr(fr, e.orelse)
      self.guard = saved
      return ite(c, a, b)
    if isinstance(e, ast.Tuple):
      return tuple(self.expr(fr, x) for x in e.elts)
    if isinstance(e, ast.List):
      return [self.expr(fr, x) for x in e.elts]
    if isinstance(e, ast.Subscript):
      base = self.expr(fr, e.value)
      idx = self.index(fr, e.slice)
      return self.subscript_get(fr, base, idx, e)
    if isinstance(e, ast.Call):
      return self.call(fr, e)
    raise Unsupported(f"expression {type(e).__name__} in {fr.name}")

  def subscript_get(self, fr, base, idx, e):
    if isinstance(base, ArrRef):
      return self.load(base, idx, self.active(fr), self.where(fr, e))
    if isinstance(base, Vec):
      return self.vec_get(base, idx)
    if isinstance(base, (tuple, list)):
      i = norm_scalar(idx[0])
      if is_sym(i):
        r = base[-1]
        for k in range(len(base) - 2, -1, -1):
          r = ite(cmp("==", i, k), base[k], r)
        return r
      return base[i]
    if isinstance(base, dict):
      return base[idx[0]]
    raise Unsupported(f"subscript of {type(base).__name__}")

  def vec_get(self, v, idx):
    if len(v.shape) == 1:
      (i,) = idx
      i = norm_scalar(i)
      if is_sym(i):
        r = v.c[-1]
        for k in range(v.shape[0] - 2, -1, -1):
          r = ite(cmp("==", i, k), v.c[k], r)
        return r
      return v.c[i]
    r, c = v.shape
    if len(idx) == 1:
      i = norm_scalar(idx[0])
      if is_sym(i):
        rows = [Vec(v.c[k * c : (k + 1) * c], (c,), v.dt) for k in range(r)]
        out = rows[-1]
        for k in range(r - 2, -1, -1):
          out = ite(cmp("==", i, k), rows[k], out)
        return out
      return Vec(v.c[i * c : (i + 1) * c], (c,), v.dt)
    i, j = norm_scalar(idx[0]), norm_scalar(idx[1])
    if is_sym(i) or is_sym(j):
      out = v.c[-1]
      for rr in range(r - 1, -1, -1):
        for cc in range(c - 1, -1, -1):
          out = ite(And(cmp("==", i, rr), cmp("==", j, cc)), v.c[rr * c + cc], out)
      return out
    return v.c[i * c + j]

  def static_eval(self, fr, node):
    code = compile(ast.Expression(node), "<static>", "eval")
    env = dict(fr.g)
    env.update(fr.closure)
    for k, v in fr.env.items():
      if not is_sym(v) and not isinstance(v, (Vec, ArrRef, StructVal)):
        env[k] = v
    return eval(code, env)

  def call(self, fr, e):
    f = e.func
    if isinstance(f, ast.Attribute) and f.attr == "static" and isinstance(f.value, ast.Name) and f.value.id == "wp":
      return self.static_eval(fr, e.args[0])
    if isinstance(f, ast.Call) and isinstance(f.func, ast.Attribute) and f.func.attr == "static":
      fn = self.static_eval(fr, f.args[0])
    else:
      fn = self.expr(fr, f)
    args = [self.expr(fr, a) for a in e.args]
    kwargs = {k.arg: self.expr(fr, k.value) for k in e.keywords}
    return self.apply(fr, fn, args, kwargs, e)

  def apply(self, fr, fn, args, kwargs, e=None):
    if isinstance(fn, WpFunction):
      if fn.func is not None and not fn.is_builtin():
        if fn.key in self.summaries:
          return self.summaries[fn.key](self, fr, args)
        target = fn
        if len(fn.user_overloads) > 1:
          target = self.resolve(fn, args)
        self.calls.append(fn.key)
        return self.call_pyfunc(target.func, args, kwargs, caller=fr)
      if kwargs:
        return self.builtin_kw(fr, fn.key, args, kwargs, e)
      return self.builtin(fr, fn.key, args, e)
    if fn is int or fn in (wp.int32, wp.int64, wp.uint32, wp.uint64, wp.int16, wp.int8, wp.uint8, wp.uint16):
      (a,) = args
      return self.to_int(a)
    if fn is float or fn in (wp.float32, wp.float64, wp.float16):
      (a,) = args
      a = norm_scalar(a)
      if is_sym(a):
        return to_z3(a, "real")
      return float(a)
    if fn is bool or fn is wp.bool:
      (a,) = args
      return b2z(a) if is_sym(a) else bool(a)
    if fn in (builtins.min, builtins.max, builtins.abs):
      return self.builtin(fr, fn.__name__, args, e)
    if fn is len:
      (a,) = args
      if isinstance(a, Vec):
        return a.shape[0]
      if isinstance(a, ArrRef):
        return a.shape[0]
      return len(a)
    if fn is range:
      return range(*args)
    if isinstance(fn, WpStruct):
      return self.make_struct(fn)
    if isinstance(fn, type) and hasattr(fn, "_wp_struct_meta_"):
      return self.make_struct(fn._wp_struct_meta_)
    if isinstance(fn, type) and (wp.types.type_is_vector(fn) or wp.types.type_is_matrix(fn) or wp.types.type_is_quaternion(fn)):
      return self.construct(fn, args, kwargs)
    if fn is getattr(wp, 'vector', None) or fn is getattr(wp, 'matrix', None) or fn is wp.types.vector or fn is wp.types.matrix:
      return self.construct_generic('vector' if fn in (getattr(wp, 'vector', None), wp.types.vector) else 'matrix', args, kwargs)
    if callable(fn) and not isinstance(fn, type):
      if any(is_sym(a) or isinstance(a, (Vec, ArrRef, StructVal)) for a in args):
        if inspect.isfunction(fn):
          return self.call_pyfunc(fn, args, kwargs, caller=fr)
        raise Unsupported(f"python callable {fn} on symbolic args")
      return fn(*args, **kwargs)
    raise Unsupported(f"call {fn}")

  def to_int(self, a):
    a = norm_scalar(a)
    k = kind(a)
    if k == "real":
      if is_sym(a):
        return z3.If(a >= 0, z3.ToInt(a), -z3.ToInt(-a))
      return int(a)
    if k == "bool":
      return ite(a, 1, 0) if is_sym(a) else int(a)
    return a

  def make_struct(self, st):
    fields = {}
    for name, var in st.vars.items():
      fields[name] = self.zero_of(var.type)
    return StructVal(st, fields)

  def zero_of(self, t):
    sk = scalar_kind(t)
    if sk == "int":
      return 0
    if sk == "real":
      return 0.0
    if sk == "bool":
      return False
    if is_vec_type(t):
      return self.construct(t, [], {})
    if isinstance(t, WpStruct):
      return self.make_struct(t)
    return None

  def resolve(self, fn, args):
    cands = []
    for key, ov in fn.user_overloads.items():
      ts = list(ov.input_types.values())
      if len(ts) != len(args):
        continue
      ok = True
      for t, a in zip(ts, args):
        if isinstance(a, Vec):
          if not (is_vec_type(t) and t._length_ == len(a.c) and tuple(getattr(t, "_shape_", (t._length_,))) == a.shape):
            ok = False
        elif isinstance(a, ArrRef):
          if not (hasattr(t, "ndim") and t.ndim == a.ndim):
            ok = False
        elif is_vec_type(t):
          ok = False
        else:
          sk = scalar_kind(t)
          ka = kind(a)
          if sk is not None and ka in ("int", "real", "bool") and sk != ka and not (sk == "real" and ka == "int" and not is_sym(a)):
            ok = False
      if ok:
        cands.append(ov)
    if len(cands) >= 1:
      return cands[0]
    raise Unsupported(f"overload of {fn.key}")

  def construct(self, t, args, kwargs=None):
    n = t._length_
    shape = tuple(getattr(t, "_shape_", (n,)))
    sk = scalar_kind(t._wp_scalar_type_)
    dt = "quat" if wp.types.type_is_quaternion(t) else ("i" if sk == "int" else "f")
    zero = 0 if dt == "i" else 0.0
    if len(shape) == 2 and args and all(isinstance(a, Vec) and len(a.shape) == 1 for a in args) and len(args) == shape[1] and len(args) > 1:
      # matrix from vectors: Warp treats them as COLUMNS (deprecated constructor form)
      r, c = shape
      if all(len(a.c) == r for a in args):
        return Vec([args[j].c[i] for i in range(r) for j in range(c)], shape, dt)
    flat = []
    for a in args:
      if isinstance(a, Vec):
        flat.extend(a.c)
      else:
        flat.append(norm_scalar(a))
    if not flat:
      flat = [zero] * n
    elif len(flat) == 1 and n > 1:
      flat = flat * n
    if len(flat) != n:
      raise Unsupported(f"constructor {t} with {len(flat)} comps")
    if dt != "i":
      flat = [float(x) if isinstance(x, int) and not isinstance(x, bool) else x for x in flat]
    return Vec(flat, shape, dt)

  def construct_generic(self, fn, args, kwargs):
    if fn == "vector":
      n = kwargs.get("length")
      dtk = scalar_kind(kwargs.get("dtype", float))
      flat = [norm_scalar(a) for a in args]
      if n is None:
        n = len(flat)
      if not flat:
        flat = [0 if dtk == "int" else 0.0] * n
      elif len(flat) == 1:
        flat = flat * n
      return Vec(flat, (n,), "i" if dtk == "int" else "f")
    shape = tuple(kwargs.get("shape"))
    dtk = scalar_kind(kwargs.get("dtype", float))
    n = shape[0] * shape[1]
    flat = []
    for a in args:
      flat.extend(a.c if isinstance(a, Vec) else [norm_scalar(a)])
    if not flat:
      flat = [0 if dtk == "int" else 0.0] * n
    elif len(flat) == 1:
      flat = flat * n
    if len(flat) != n:
      raise Unsupported("wp.matrix ctor")
    return Vec(flat, shape, "i" if dtk == "int" else "f")

  # ---- math
  def sqrt(self, x):
    if not is_sym(x):
      if x < 0:
        raise Unsupported("sqrt of negative constant")
      return math.sqrt(x)
    if self.float_uf:
      s = z3.Function("fsqrt", R, R)(x)
      self.assumes.append(s >= 0)
      return s
    s = z3.Real(f"sqrt!{next(self.fresh)}")
    self.assumes.append(z3.Implies(x >= 0, z3.And(s >= 0, s * s == x)))
    return s

  def uf(self, name, *args):
    if all(not is_sym(a) for a in args):
      f = {"pow": math.pow, "atan2": math.atan2}.get(name) or getattr(math, name)
      try:
        return f(*[float(a) for a in args])
      except (ValueError, OverflowError):
        raise Unsupported(f"math domain {name}{args}")
    zs = [to_z3(a, "real") for a in args]
    f = z3.Function(name, *([R] * len(args)), R)
    t = f(*zs)
    key = (name, tuple(z.sexpr() for z in zs))
    if key not in self.uf_apps:
      self.uf_apps[key] = t
      self.uf_facts(name, zs, t)
    return t

  def uf_facts(self, name, zs, t):
    """true facts about transcendental functions (keeps unsat sound)."""
    A = self.assumes
    if name in ("sin", "cos"):
      A.append(z3.And(t >= -1, t <= 1))
      other = "cos" if name == "sin" else "sin"
      k2 = (other, tuple(z.sexpr() for z in zs))
      if k2 in self.uf_apps:
        o = self.uf_apps[k2]
        A.append(t * t + o * o == 1)
      A.append(z3.Implies(zs[0] == 0, t == (0 if name == "sin" else 1)))
    elif name == "exp":
      A.append(t > 0)
      A.append(z3.Implies(zs[0] == 0, t == 1))
      A.append(z3.Implies(zs[0] < 0, t < 1))
      A.append(z3.Implies(zs[0] > 0, t > 1))
    elif name == "pow":
      A.append(z3.Implies(zs[0] >= 0, t >= 0))
      A.append(z3.Implies(zs[1] == 1, t == zs[0]))
      A.append(z3.Implies(z3.And(zs[0] == 0, zs[1] > 0), t == 0))
      A.append(z3.Implies(zs[0] == 1, t == 1))
      A.append(z3.Implies(z3.And(zs[0] > 0, zs[0] < 1, zs[1] > 0), z3.And(t > 0, t < 1)))
      A.append(z3.Implies(z3.And(zs[0] > 0, zs[0] < 1, zs[1] >= 1), t <= zs[0]))
    elif name in ("acos",):
      A.append(z3.And(t >= 0, t <= z3.RealVal("3.1415927")))
    elif name in ("asin", "atan"):
      A.append(z3.And(t >= -z3.RealVal("1.5707964"), t <= z3.RealVal("1.5707964")))
    elif name == "atan2":
      A.append(z3.And(t >= -z3.RealVal("3.1415927"), t <= z3.RealVal("3.1415927")))
    elif name == "tanh":
      A.append(z3.And(t > -1, t < 1))

  def builtin_kw(self, fr, key, args, kwargs, e):
    if key == "identity":
      n = kwargs.get("n", args[0] if args else None)
      return Vec([1.0 if i == j else 0.0 for i in range(n) for j in range(n)], (n, n), "f")
    if key in ("vector", "matrix"):
      return self.construct_generic(key, args, kwargs)
    raise Unsupported(f"builtin {key} with kwargs")

  def builtin(self, fr, key, args, e):
    a = args
    m = lambda x, y: arith("*", x, y, self)
    if key == "tid":
      if self.tid is None:
        raise Unsupported("tid not set")
      return self.tid
    if key in ("min", "max"):
      f = vmin if key == "min" else vmax
      if len(a) == 1 and isinstance(a[0], Vec):
        r = a[0].c[0]
        for x in a[0].c[1:]:
          r = f(r, x)
        return r
      if isinstance(a[0], Vec):
        return Vec([f(x, y) for x, y in zip(a[0].c, a[1].c)], a[0].shape, a[0].dt)
      r = a[0]
      for x in a[1:]:
        r = f(r, x)
      return r
    if key == "abs":
      if isinstance(a[0], Vec):
        return Vec([vabs(x) for x in a[0].c], a[0].shape, a[0].dt)
      return vabs(a[0])
    if key == "sign":
      x = a[0]
      if isinstance(x, Vec):
        return Vec([self.builtin(fr, "sign", [c], e) for c in x.c], x.shape, x.dt)
      if not is_sym(x):
        return (-1.0 if x < 0 else 1.0) if kind(x) == "real" else (-1 if x < 0 else 1)
      return ite(cmp("<", x, 0), -1.0 if kind(x) == "real" else -1, 1.0 if kind(x) == "real" else 1)
    if key == "clamp":
      x, lo, hi = a
      return vmin(vmax(x, lo), hi)
    if key in ("where", "select"):
      c = a[0]
      if key == "select":
        c, x, y = a[0], a[2], a[1]
      else:
        x, y = a[1], a[2]
      if isinstance(c, ArrRef):
        raise Unsupported("where on array")
      return ite(b2z(c) if is_sym(c) else bool(c), x, y)
    if key == "sqrt":
      return self.sqrt(a[0])
    if key == "dot":
      return sumv([m(x, y) for x, y in zip(a[0].c, a[1].c)], self)
    if key == "cross":
      x, y = a[0].c, a[1].c
      s = lambda p, q: arith("-", p, q, self)
      return Vec([s(m(x[1], y[2]), m(x[2], y[1])), s(m(x[2], y[0]), m(x[0], y[2])), s(m(x[0], y[1]), m(x[1], y[0]))], (3,), "f")
    if key == "length_sq":
      return sumv([m(x, x) for x in a[0].c], self)
    if key in ("length", "norm_l2"):
      return self.sqrt(sumv([m(x, x) for x in a[0].c], self))
    if key == "normalize":
      l = self.sqrt(sumv([m(x, x) for x in a[0].c], self))
      nz = cmp(">", l, 0)
      # Warp: normalize(0-vector) = 0, but normalize(quat 0) = identity quaternion (x,y,z,w) = (0,0,0,1)
      zero = [0.0] * len(a[0].c)
      if a[0].dt == "quat":
        zero = [0.0, 0.0, 0.0, 1.0]
      return Vec([ite(nz, arith("/", x, l, self), z) for x, z in zip(a[0].c, zero)], a[0].shape, a[0].dt)
    if key == "transpose":
      r, c = a[0].shape
      return Vec([a[0].c[i * c + j] for j in range(c) for i in range(r)], (c, r), a[0].dt)
    if key == "diag":
      n = a[0].shape[0]
      return Vec([a[0].c[i] if i == j else 0.0 for i in range(n) for j in range(n)], (n, n), "f")
    if key == "get_diag":
      n = a[0].shape[0]
      return Vec([a[0].c[i * n + i] for i in range(n)], (n,), "f")
    if key == "identity":
      n = a[0]
      return Vec([1.0 if i == j else 0.0 for i in range(n) for j in range(n)], (n, n), "f")
    if key == "skew":
      x, y, z = a[0].c
      n = lambda v: arith("*", v, -1, self)
      return Vec([0.0, n(z), y, z, 0.0, n(x), n(y), x, 0.0], (3, 3), "f")
    if key == "outer":
      return Vec([m(x, y) for x in a[0].c for y in a[1].c], (len(a[0].c), len(a[1].c)), "f")
    if key == "cw_mul":
      return Vec([m(x, y) for x, y in zip(a[0].c, a[1].c)], a[0].shape, a[0].dt)
    if key == "cw_div":
      return Vec([arith("/", x, y, self) for x, y in zip(a[0].c, a[1].c)], a[0].shape, a[0].dt)
    if key == "trace":
      n = a[0].shape[0]
      return sumv([a[0].c[i * n + i] for i in range(n)], self)
    if key == "determinant":
      if a[0].shape == (3, 3):
        c = a[0].c
        s = lambda p, q: arith("-", p, q, self)
        return sumv(
          [
            m(c[0], s(m(c[4], c[8]), m(c[5], c[7]))),
            arith("*", m(c[1], s(m(c[3], c[8]), m(c[5], c[6]))), -1, self),
            m(c[2], s(m(c[3], c[7]), m(c[4], c[6]))),
          ],
          self,
        )
      if a[0].shape == (2, 2):
        c = a[0].c
        return arith("-", m(c[0], c[3]), m(c[1], c[2]), self)
      raise Unsupported("determinant shape")
    if key == "mul":
      return arith("*", a[0], a[1], self)
    if key == "div":
      return arith("/", a[0], a[1], self)
    if key == "add":
      return arith("+", a[0], a[1], self)
    if key == "sub":
      return arith("-", a[0], a[1], self)
    if key == "neg":
      return arith("*", a[0], -1, self)
    if key == "mod":
      return arith("%", a[0], a[1], self)
    if key == "floordiv":
      return arith("//", a[0], a[1], self)
    if key == "matrix_from_rows":
      return Vec([x for v in a for x in v.c], (len(a), len(a[0].c)), "f")
    if key == "matrix_from_cols":
      r, c = len(a[0].c), len(a)
      return Vec([a[j].c[i] for i in range(r) for j in range(c)], (r, c), "f")
    if key == "quat_rotate":
      q, v = a
      return self._quat_rotate(q, v, False)
    if key == "quat_rotate_inv":
      q, v = a
      return self._quat_rotate(q, v, True)
    if key == "quat_inverse":
      q = a[0]
      n = lambda v: arith("*", v, -1, self)
      return Vec([n(q.c[0]), n(q.c[1]), n(q.c[2]), q.c[3]], (4,), "quat")
    if key == "quat_to_matrix":
      q = a[0]
      ex = self._quat_rotate(q, Vec([1.0, 0.0, 0.0], (3,), "f"), False)
      ey = self._quat_rotate(q, Vec([0.0, 1.0, 0.0], (3,), "f"), False)
      ez = self._quat_rotate(q, Vec([0.0, 0.0, 1.0], (3,), "f"), False)
      return Vec([ex.c[0], ey.c[0], ez.c[0], ex.c[1], ey.c[1], ez.c[1], ex.c[2], ey.c[2], ez.c[2]], (3, 3), "f")
    if key in ("floor", "ceil", "round", "trunc", "rint"):
      x = a[0]
      if not is_sym(x):
        if key == "floor":
          return float(math.floor(x))
        if key == "ceil":
          return float(math.ceil(x))
        if key == "trunc":
          return float(math.trunc(x))
        if key == "round":
          return float(math.floor(abs(x) + 0.5)) * (1.0 if x >= 0 else -1.0)
        raise Unsupported(key)
      fl = lambda y: z3.ToReal(z3.ToInt(y))
      if key == "floor":
        return fl(x)
      if key == "ceil":
        return -fl(-x)
      if key == "trunc":
        return z3.If(x >= 0, fl(x), -fl(-x))
      if key == "round":
        return z3.If(x >= 0, fl(x + z3.RealVal("1/2")), -fl(-x + z3.RealVal("1/2")))
      raise Unsupported(key)
    if key in UF_MATH:
      return self.uf(key, *a)
    if key.startswith("atomic_"):
      op = key[len("atomic_") :]
      arr, *idx, v = a
      return self.atomic(fr, op, arr, tuple(idx), v, e)
    if key in ("spatial_top", "spatial_bottom"):
      return Vec(a[0].c[:3] if key == "spatial_top" else a[0].c[3:], (3,), "f")
    if key == "spatial_vector":
      flat = []
      for x in a:
        flat.extend(x.c if isinstance(x, Vec) else [x])
      if not flat:
        flat = [0.0] * 6
      if len(flat) == 1:
        flat = flat * 6
      return Vec(flat, (6,), "f")
    if key in ("printf", "print", "expect_eq"):
      return None
    if key == "isnan" or key == "isinf":
      return False
    if key == "isfinite":
      return True
    if key == "static":
      raise Unsupported("wp.static reached as builtin")
    raise Unsupported(f"builtin {key}")

  def _quat_rotate(self, q, v, inv):
    # Warp convention: q = (x, y, z, w)
    m = lambda x, y: arith("*", x, y, self)
    x, y, z, w = q.c
    if inv:
      x, y, z = arith("*", x, -1, self), arith("*", y, -1, self), arith("*", z, -1, self)
    qv = Vec([x, y, z], (3,), "f")
    # v' = v*(2w^2-1) + 2w (qv x v) + 2 qv (qv.v)
    c = self.builtin(None, "cross", [qv, v], None)
    d = self.builtin(None, "dot", [qv, v], None)
    k = arith("-", m(2.0, m(w, w)), 1.0, self)
    out = []
    for i in range(3):
      out.append(sumv([m(v.c[i], k), m(m(2.0, w), c.c[i]), m(m(2.0, d), qv.c[i])], self))
    return Vec(out, (3,), "f")
