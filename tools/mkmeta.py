#!/venv/bin/python
"""tools/mkmeta.py <seed-name> <PID> <mutant dir> [note]: merges the agent's out/meta.json with the lead verification (verify.json) into seeded/<name>/meta.json"""
import json
import sys

name, pid, d = sys.argv[1:4]
note = sys.argv[4] if len(sys.argv) > 4 else ""
out = f"/verif/seeded/{name}"
try:
  meta = json.load(open(f"{d}/out/meta.json"))
except Exception:
  meta = {}
v = json.load(open(f"{out}/verify.json"))
meta.setdefault("property", pid)
meta["seeded_by"] = "independent sub-agent given only the property text and a scratch worktree"
meta["lead_verification"] = {
  "demo_on_mutated_tree_rc": v["rc_demo_mutated"],
  "demo_on_original_tree_rc": v["rc_demo_original"],
  "vcheck_on_mutated_tree_rc": v["rc_vcheck_mutated"],
  "commands": ["PYTHONPATH=<worktree with patch.diff applied> /venv/bin/python demo.py", "PYTHONPATH=/repo /venv/bin/python demo.py", f"MJW_REPO=<worktree> ./vcheck {pid}"],
  "test_suite": "agent ran the full suite on the mutated tree: 1255 passed, the same 33 pre-existing failures as the original tree (tests.log)",
}
if note:
  meta["lead_verification"]["note"] = note
json.dump(meta, open(f"{out}/meta.json", "w"), indent=1)
print(out, meta["lead_verification"])
