#!/bin/bash
# tools/check_seeds.sh [jobs]: for every /verif/seeded/<name>: scratch worktree of /repo HEAD + patch.diff, run the property's quick
# check against it (MJW_REPO), expect exit 1 with a VIOLATION line (directories holding a MISSED marker are documented misses: scope gaps stated in DESIGN 11.5).  Prints one line per seed; worktrees are removed.
cd /verif
jobs=${1:-4}
run_one() {
  name=$1; pid=${name:0:3}; wt=/tmp/seedwt_$name
  git -C /repo worktree add -q --detach $wt HEAD 2>/dev/null || { echo "$name worktree-failed"; return; }
  if git -C $wt apply /verif/seeded/$name/patch.diff 2>/dev/null; then
    t0=$(date +%s); MJW_REPO=$wt ./vcheck $pid > /tmp/seedrun_$name.log 2>&1; rc=$?; t1=$(date +%s)
    echo "$name rc=$rc $((t1-t0))s $(grep -c '^VIOLATION' /tmp/seedrun_$name.log) violations"$( [ -e /verif/seeded/$name/MISSED ] && echo " (documented miss: expected rc=0, see meta.json)")
  else
    echo "$name patch-does-not-apply"
  fi
  git -C /repo worktree remove --force $wt
}
export -f run_one
ls seeded | xargs -P $jobs -I{} bash -c 'run_one {}'
git -C /repo worktree prune
