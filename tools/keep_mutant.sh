#!/bin/bash
# tools/keep_mutant.sh <seed-name> <property> <mutant dir containing r/ and out/> : verifies the demo on both trees and the check, stores under /verif/seeded/<seed-name>/
set -u
name=$1; pid=$2; dir=$3; only=${4:-}
out=/verif/seeded/$name; mkdir -p $out
cp $dir/out/patch.diff $dir/out/demo.py $out/ 2>/dev/null
cd $dir/out
PYTHONPATH=$dir/r timeout 1800 /venv/bin/python demo.py > $out/demo_mutated.log 2>&1; rc_m=$?
PYTHONPATH=/repo timeout 1800 /venv/bin/python demo.py > $out/demo_original.log 2>&1; rc_o=$?
cd /verif
if [ -n "$only" ]; then MJW_REPO=$dir/r ./vcheck $pid --only "$only" > $out/vcheck_mutated.log 2>&1; else MJW_REPO=$dir/r ./vcheck $pid > $out/vcheck_mutated.log 2>&1; fi
rc_c=$?
echo "demo mutated rc=$rc_m original rc=$rc_o ; vcheck $pid on mutant rc=$rc_c"
grep -E "^VIOLATION" $out/vcheck_mutated.log | head -3
tail -2 $out/demo_mutated.log | cut -c1-200
echo "{\"rc_demo_mutated\": $rc_m, \"rc_demo_original\": $rc_o, \"rc_vcheck_mutated\": $rc_c}" > $out/verify.json
