#!/venv/bin/python
"""Regenerates /verif/MANIFEST.json from the table below (single source of truth for what is claimed)."""
import json, os

V = os.path.dirname(os.path.dirname(os.path.abspath(__file__)))
props = [json.loads(l) for l in open(os.path.join(V, "properties.jsonl"))]

MC = "model_checking"
CHECKS = {
  "C09": dict(
    text="Bounded symbolic check (one generic thread, symbolic tid / sizes / contents, loops unwound 2x) of every encodable kernel: every access to a per-world Data array uses the thread's world id. SMT verdict over all values within the bounds; sat models are replayed on the real compiled kernel (single-thread launch).",
    note="Assumes: per-world arrays have first dim nworld, world ids in [0,nworld); own accesses in bounds (C17); float products abstracted as uninterpreted functions. Kernels using the tile API / BVH / flex are skipped and listed in the evidence (no claim). Trusts z3, Warp codegen, the naming convention types.py field <-> kernel argument.",
    technique="symbolic execution of Warp kernel source (AST -> z3) + SMT index-equality queries per access",
    ref="§4 C09"),
  "C10": dict(
    text="Same generic pass as C09 with the obligation: every read of a per-world-batchable ('*') Model field uses first index world % shape[0], shape[0] symbolic >= 1 (closure-specialised kernels: the batch sizes the host passed for batched and unbatched corpus models).",
    note="Same assumptions as C09. Host-side batch-size validation in put_model and writes to Model fields (set_const) are outside the claim.",
    technique="symbolic execution of Warp kernel source (AST -> z3) + SMT index-equality queries per access",
    ref="§4 C10"),
  "C11": dict(
    text="Two-thread reduction: for each listed kernel two distinct symbolic threads of one launch are executed on the same symbolic state; the SMT query 'both access one cell, one with a non-atomic store (different values for store/store)' must be unsat, so threads interact only through commuting atomic operations and every serial order / interleaving gives the same result up to the slot permutation of atomic counters. sat models are replayed on the real compiled kernel (both serial orders, then per-thread confirmation of the conflicting accesses).",
    note="Claimed for the kernels in c11_kernels.txt (race query unsat on the unchanged tree without further Model invariants; three tree-level kernels carry the level invariant as a precondition). Kernels whose race-freedom depends on Model structure not encoded here (sensor/actuator address disjointness, island maps), tile kernels and flex are outside. Bounds: 2 threads, loops <= 2 iterations, dims <= 6; float rounding of reordered sums is excluded by the property.",
    technique="symbolic execution of two threads (AST -> z3) + SMT race query over all access pairs",
    ref="§4 C11"),
  "C12": dict(
    text="The real mujoco_warp.forward() is run natively on corpus models with the integration state concrete and every other Data cell that the call (re)computes holding a fresh symbolic 'stale' value (arbitrary leftovers of an arbitrary earlier history); every kernel launch is interpreted thread by thread, the constraint solver (outside the modelled subset) is executed by the real implementation under two different stale fills. For every result cell (assembled constraint rows < nefc, contacts < nacon, forces, accelerations, sensor data, ...) the solver decides whether two different stale contents can yield different values (substitution 2-safety query). sat models are replayed on two real Data objects with equal state and different stale contents.",
    note="Bounds: the corpus models/variants listed in the evidence, nworld=1, capacities as created by put_data; sleep disabled (property). Cells the call never writes (poses of static geoms etc.) are constants of the Data object, not stale. The sticky overflow word is kept equal. Inside solver.solve only a two-fill differential run (not a solver verdict) shows independence — stated as a side condition in the evidence. One known finding (equality-row aref uses cvel/cdof_dot of the previous call). step()'s integrators and set_state copying are C08/C15. Every real launch / real host call is repeated until two consecutive executions agree bit for bit (a result is only used if reproducible). In addition the dense Newton Hessian assembly (tile kernels) is decided symbolically with the block-collective tile interpreter: ctx.h equals M + sum over live QUADRATIC rows and is independent of every efc cell of rows >= nefc (units hessian/*, shared with C06).",
    technique="symbolic execution of the real host pipeline with symbolic stale memory + SMT substitution (2-safety) queries",
    ref="§4 C12"),
  "C13": dict(
    text="The real io.reset_data is run natively with every Data array and the reset mask symbolic (dense cells, nworld=2, tiny models incl. na>nu, mocap, weld equality, userdata, delay buffers, sleep); each launched kernel is interpreted thread by thread. Per field and world the solver decides: selected => equals a fresh make_data; unselected => unchanged; contacts of unselected worlds unchanged, none appear; sat models are replayed on the real reset_data.",
    note="Bounds: 2 worlds, 4 model/mask configurations, naconmax=4, njmax=4. Pre-state arbitrary except 0<=nacon<=naconmax and listed contacts' worldid in range. Sleep-derived arrays recomputed by update_sleep are excluded from 'unchanged'. Three known findings recorded (nacon zeroed, phantom contacts, history not reset). Subsequent-trajectory equality follows from C12 and is not re-derived here. A K-mode unit (sizes/reset_nworld) executes the kernel defined inside reset_data for one generic world with all model sizes symbolic (<= 4, only relation nv <= nq): every qpos/qvel/ctrl/act/... element below its size is reset.",
    technique="symbolic execution of the real host function with interpreted kernel launches (dense memory) + SMT equality queries per field",
    ref="§4 C13"),
  "C17": dict(
    text="Capacity-dimension safety: for each constraint-row builder (dense/sparse), the contact-row allocator and write_contact, one generic thread is executed symbolically with the capacities (njmax, njmax_nnz, naconmax), atomic counters, thread id and all contents symbolic; arrays dimensioned by a capacity get exactly that capacity as shape and every access to them must be inside Warp's accepted index range - decided by z3 for ALL counter/capacity values incl. 0 and exact fit. sat models are replayed on the real compiled kernel under Warp's bounds-checked debug build (out-of-range index aborts).",
    note="Outside the claim: indices into Model-dimensioned arrays derived from Model structure arrays (MuJoCo compiler invariants), the njmax_nnz dimension of sparse tendon rows (needs the CSR invariant of ten_J), jtdaj bookkeeping arrays, tile kernels, GJK/EPA, flex, rejection of invalid configurations in put_model/make_data, 'never crash' for host code. Bounds: capacities 0..6 (contact rows 0..12), nworld <= 6, loops <= 3 (contacts: 10).",
    technique="symbolic execution of Warp kernel source (AST -> z3) + SMT bounds queries with symbolic capacities; debug-build replay",
    ref="§4 C17"),
  "C16": dict(
    text="For every non-flex constraint-row builder (dense/sparse x newton/cg) one generic thread is executed symbolically with capacities, counters, tid and all array contents symbolic: rows this thread allocated that fit njmax / njmax_nnz are completely written (every efc field, dense and sparse Jacobian), written values do not depend on the capacity (relational query), and _next_time sets each overflow bit iff its condition. Unsat = holds for all values within the bounds; sat models are replayed on the real compiled kernel.",
    note="Bounds: loop trip counts <= 3 (nv columns, dof-ancestor walks), array dims <= 6 in replays. Assumes own accesses in bounds; floats abstracted. The njmax_nnz budget is a recorded known finding (two entries in known_findings.txt). Host unit host/collision: the top-level early-outs of collision_driver.collision are read from the source and encoded (naconmax an integer >= 0, disableflags a 32-bit vector; helper calls are not followed): the broadphase is reached for every capacity except naconmax == 0 (known finding, replayed through the public API). Contacts / broadphase / nvmax capacities: see level_note of C17 and evidence.",
    technique="symbolic execution of Warp kernel source (AST -> z3) + SMT queries over the thread's write set",
    ref="§4 C16"),
}

NA_REASON = {
  "C31": "put_model/put_data/get_data_into are numpy/ctypes code driving the MuJoCo C API; symbolic values are realised at every call (C boundary) — nothing to encode with a solver",
  "C35": "render is one 1100-line kernel of BVH traversal/texture sampling over Warp Mesh/BVH built-ins (C++), outside the modelled subset; its oracle (_ray_bvh) is itself not encodable",
  "C40": "flex collision/passive/constraint kernels are iterative, tile-based or large nonlinear kernels; the closed-form fraction does not decide the property",
}

# checks delivered with a meta file (checks/cNN.meta.json: text, note, technique, ref) and listed here as ready
READY = ["C01", "C02", "C03", "C04", "C05", "C06", "C07", "C08", "C14", "C15", "C18", "C19", "C20", "C21", "C22", "C23", "C24", "C25", "C26", "C27", "C28", "C29", "C30", "C32", "C33", "C34", "C36", "C37", "C38", "C39"]
for pid in READY:
  mf = os.path.join(V, "checks", f"{pid.lower()}.meta.json")
  if pid not in CHECKS and os.path.exists(mf):
    d = json.load(open(mf))
    CHECKS[pid] = dict(text=d["text"], note=d["note"], technique=d.get("technique", "symbolic execution of the real source + SMT queries"), ref=d.get("ref", f"§4 {pid}"))

m = {
  "version": 1,
  "setup_cmd": "./setup.sh",
  "hooks": {
    "guard": "MJWARP_VERIF",
    "enable": "no source hooks are needed: the interpreter reads /repo sources through Python introspection at check time",
    "baseline_off_cmd": "cd /repo && /venv/bin/python -m pytest -ra -q -p no:cacheprovider --timeout=900 --continue-on-collection-errors",
    "source_commits": [],
    "add_only": True,
  },
  "engines": [
    {
      "name": "WarpSym",
      "path": "wsym/",
      "serves_properties": sorted(CHECKS),
      "kind_free_text": "symbolic interpreter for the Python subset of Warp kernels/funcs/host code over z3 terms (predicated execution, bounded unwinding), SMT queries, replay of sat models on the real compiled kernels",
    }
  ],
  "checks": [],
  "notes": "Exit codes of ./vcheck: 0 pass (or only listed known findings), 1 VIOLATION (replayed on real code), 2 harness error / inconclusive. See DESIGN.md.",
  "not_applicable": [],
}
for p in props:
  pid = p["id"]
  if pid in CHECKS:
    c = CHECKS[pid]
    m["checks"].append({
      "property_id": pid,
      "quick_cmd": f"./vcheck {pid} --tier quick",
      "thorough_cmd": f"./vcheck {pid} --tier thorough",
      "evidence_file": f"/verif/evidence/{pid}.json",
      "replay_cmd_template": f"./vcheck {pid} --replay {{path}}",
      "engine": "WarpSym",
      "level_claimed": {"category": c.get("level", MC), "text": c["text"], "design_ref": c["ref"]},
      "level_note": c["note"],
      "technique": c["technique"],
    })
  else:
    m["not_applicable"].append({"property_id": pid, "reason": NA_REASON.get(pid, "check not built yet (build in progress; see DESIGN.md §4 for the plan)")})
json.dump(m, open(os.path.join(V, "MANIFEST.json"), "w"), indent=1)
print(len(m["checks"]), "checks;", len(m["not_applicable"]), "not applicable")
