#!/bin/bash
# tools/runall.sh [quick|thorough] [ids...]: runs registered checks sequentially; prints id, exit code, seconds
cd /verif
tier=${1:-quick}; shift
ids="$@"
[ -z "$ids" ] && ids=$(/venv/bin/python -c "import json;print(' '.join(c['property_id'] for c in json.load(open('MANIFEST.json'))['checks']))")
for id in $ids; do
  t0=$(date +%s); ./vcheck $id --tier $tier > /tmp/runall_${tier}_$id.log 2>&1; rc=$?; t1=$(date +%s)
  echo "$id rc=$rc $((t1-t0))s $(tail -1 /tmp/runall_${tier}_$id.log | cut -c1-160)"
done
