#!/bin/bash
# runs every registered check's quick command sequentially; prints id, exit code, seconds
cd /verif
for id in $(/venv/bin/python -c "import json;print(' '.join(c['property_id'] for c in json.load(open('MANIFEST.json'))['checks']))"); do
  t0=$(date +%s); ./vcheck $id --tier ${1:-quick} > /tmp/runall_$id.log 2>&1; rc=$?; t1=$(date +%s)
  echo "$id rc=$rc $((t1-t0))s $(tail -1 /tmp/runall_$id.log | cut -c1-160)"
done
