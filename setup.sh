#!/bin/bash
# Offline setup: install z3-solver (and cvc5) from the local wheelhouse into /verif/.deps for /venv's python.
set -e
cd "$(dirname "$0")"
if ! PYTHONPATH=.deps /venv/bin/python -c "import z3" 2>/dev/null; then
  mkdir -p .deps
  /venv/bin/pip install -q --no-index --find-links /opt/veriftools/wheels --target .deps z3-solver
fi
PYTHONPATH=.deps /venv/bin/python -c "import z3; print('z3', z3.get_version_string())"
