"""Light host tracer used by C32 / C36: runs the REAL host functions natively on real Model/Data objects with
wp.launch / wp.launch_tiled replaced by recorders (nothing is executed on the device), graph-capture helpers replaced by
"run the body once", and array zero_/fill_ recorded.  Yields the exact sequence of kernels (with the specialisation the
host requested, the launch dims and the Model/Data field bound to every array argument) a host function issues."""

import dataclasses

import numpy as np
import warp as wp


def field_map(*objs):
  """buffer ptr -> qualified field name (m.x / d.x / d.efc.x ...)"""
  out = {}

  def walk(obj, prefix, depth=0):
    if not dataclasses.is_dataclass(obj) or depth > 2:
      return
    for f in dataclasses.fields(obj):
      try:
        v = getattr(obj, f.name)
      except Exception:
        continue
      if isinstance(v, wp.array):
        if v.ptr:
          out.setdefault(v.ptr, f"{prefix}{f.name}")
      elif dataclasses.is_dataclass(v):
        walk(v, f"{prefix}{f.name}.", depth + 1)

  for prefix, o in objs:
    walk(o, prefix)
  return out


class Ev:
  __slots__ = ("kind", "kernel", "key", "dim", "args", "bind", "outs")

  def __init__(self, kind, kernel=None, key=None, dim=None, args=None, bind=None, outs=None):
    self.kind, self.kernel, self.key, self.dim, self.args, self.bind, self.outs = kind, kernel, key, dim, args, bind, outs

  def sig(self):
    """hashable description: (kind, kernel key without the unique-module suffix, bound output fields)"""
    return (self.kind, self.key, tuple(self.outs or ()))

  def __repr__(self):
    return f"{self.kind}:{self.key}->{','.join(str(o) for o in (self.outs or ()))}"


def base_key(kernel):
  """kernel key without Warp's per-instance uniquifier (module='unique' kernels get a hash suffix)."""
  k = getattr(kernel, "key", str(kernel))
  return k


class TraceRun:
  """with TraceRun(m, d) as tr: forward(m, d)   ->  tr.events"""

  def __init__(self, m=None, d=None, run_while=1):
    self.m, self.d = m, d
    self.events = []
    self.run_while = run_while

  def _names(self, arrs):
    out = []
    for a in arrs:
      if isinstance(a, wp.array):
        out.append(self.fmap.get(a.ptr, "tmp") if a.ptr else "empty")
      else:
        out.append(None)
    return out

  def __enter__(self):
    objs = []
    if self.m is not None:
      objs.append(("m.", self.m))
      if hasattr(self.m, "opt"):
        objs.append(("m.opt.", self.m.opt))
    if self.d is not None:
      objs.append(("d.", self.d))
    self.fmap = field_map(*objs)
    self.saved = {k: getattr(wp, k) for k in ("launch", "launch_tiled", "capture_while", "capture_if")}
    self.saved_arr = (wp.array.zero_, wp.array.fill_)
    self.saved_copy = wp.copy
    tr = self

    def launch(kernel, dim, inputs=(), outputs=(), **kw):
      inputs, outputs = list(inputs or ()), list(outputs or ())
      d = (int(dim),) if isinstance(dim, (int, np.integer)) else tuple(int(x) for x in dim)
      tr.events.append(Ev("launch", kernel, base_key(kernel), d, inputs + outputs, tr._names(inputs + outputs), tr._names(outputs)))

    def launch_tiled(kernel, dim, inputs=(), outputs=(), **kw):
      inputs, outputs = list(inputs or ()), list(outputs or ())
      d = (int(dim),) if isinstance(dim, (int, np.integer)) else tuple(int(x) for x in dim)
      tr.events.append(Ev("launch_tiled", kernel, base_key(kernel), d, inputs + outputs, tr._names(inputs + outputs), tr._names(outputs)))

    def capture_while(cond, while_body, **kw):
      tr.events.append(Ev("while"))
      for _ in range(tr.run_while):
        while_body(**kw)
      tr.events.append(Ev("endwhile"))

    def capture_if(cond, on_true=None, on_false=None, **kw):
      tr.events.append(Ev("if"))
      if on_true is not None:
        on_true(**kw)
      if on_false is not None:
        tr.events.append(Ev("else"))
        on_false(**kw)
      tr.events.append(Ev("endif"))

    def zero_(a):
      tr.events.append(Ev("zero_", key="zero_", outs=tr._names([a])))
      return tr.saved_arr[0](a)

    def fill_(a, v):
      tr.events.append(Ev("fill_", key=f"fill_({v})", outs=tr._names([a])))
      return tr.saved_arr[1](a, v)

    def copy(dest, src, *a, **kw):
      tr.events.append(Ev("copy", key="copy", outs=tr._names([dest]), bind=tr._names([dest, src])))
      return tr.saved_copy(dest, src, *a, **kw)

    # Warp's host-side sort / scan utilities read device data that no kernel has produced in trace mode: record only
    self.saved_utils = {k: getattr(wp.utils, k) for k in ("segmented_sort_pairs", "array_scan", "radix_sort_pairs") if hasattr(wp.utils, k)}

    def mk_util(name):
      def f(*a, **kw):
        tr.events.append(Ev("util", key=name, outs=tr._names([x for x in a if isinstance(x, wp.array)])))

      return f

    for k in self.saved_utils:
      setattr(wp.utils, k, mk_util(k))
    wp.launch, wp.launch_tiled, wp.capture_while, wp.capture_if = launch, launch_tiled, capture_while, capture_if
    wp.array.zero_, wp.array.fill_ = zero_, fill_
    wp.copy = copy
    return self

  def __exit__(self, *exc):
    for k, v in self.saved.items():
      setattr(wp, k, v)
    wp.array.zero_, wp.array.fill_ = self.saved_arr
    wp.copy = self.saved_copy
    for k, v in self.saved_utils.items():
      setattr(wp.utils, k, v)
    return False

  def launches(self):
    return [e for e in self.events if e.kind in ("launch", "launch_tiled")]
