"""Tiny real kernels around the real mujoco_warp wp.funcs: used only to REPLAY leaf-lemma counterexamples on compiled code."""

import numpy as np
import warp as wp

from mujoco_warp._src import math as mm
from mujoco_warp._src.types import vec10


@wp.kernel
def k_mul_quat(a: wp.array[wp.quat], b: wp.array[wp.quat], out: wp.array[wp.quat]):
  out[0] = mm.mul_quat(a[0], b[0])


@wp.kernel
def k_rot_vec_quat(a: wp.array[wp.vec3], b: wp.array[wp.quat], out: wp.array[wp.vec3]):
  out[0] = mm.rot_vec_quat(a[0], b[0])


@wp.kernel
def k_quat_to_mat(a: wp.array[wp.quat], out: wp.array[wp.mat33]):
  out[0] = mm.quat_to_mat(a[0])


@wp.kernel
def k_axis_angle_to_quat(a: wp.array[wp.vec3], b: wp.array[float], out: wp.array[wp.quat]):
  out[0] = mm.axis_angle_to_quat(a[0], b[0])


@wp.kernel
def k_quat_inv(a: wp.array[wp.quat], out: wp.array[wp.quat]):
  out[0] = mm.quat_inv(a[0])


@wp.kernel
def k_inert_vec(a: wp.array[vec10], b: wp.array[wp.spatial_vector], out: wp.array[wp.spatial_vector]):
  out[0] = mm.inert_vec(a[0], b[0])


@wp.kernel
def k_motion_cross(a: wp.array[wp.spatial_vector], b: wp.array[wp.spatial_vector], out: wp.array[wp.spatial_vector]):
  out[0] = mm.motion_cross(a[0], b[0])


@wp.kernel
def k_motion_cross_force(a: wp.array[wp.spatial_vector], b: wp.array[wp.spatial_vector], out: wp.array[wp.spatial_vector]):
  out[0] = mm.motion_cross_force(a[0], b[0])


KERNELS = {
  "mul_quat": (k_mul_quat, [wp.quat, wp.quat], wp.quat),
  "rot_vec_quat": (k_rot_vec_quat, [wp.vec3, wp.quat], wp.vec3),
  "quat_to_mat": (k_quat_to_mat, [wp.quat], wp.mat33),
  "axis_angle_to_quat": (k_axis_angle_to_quat, [wp.vec3, float], wp.quat),
  "quat_inv": (k_quat_inv, [wp.quat], wp.quat),
  "inert_vec": (k_inert_vec, [vec10, wp.spatial_vector], wp.spatial_vector),
  "motion_cross": (k_motion_cross, [wp.spatial_vector, wp.spatial_vector], wp.spatial_vector),
  "motion_cross_force": (k_motion_cross_force, [wp.spatial_vector, wp.spatial_vector], wp.spatial_vector),
}


def run(name, vals):
  """vals: list of 1-D float arrays (one per argument) -> flat float64 result of the real compiled function"""
  k, types, rt = KERNELS[name]
  ins = []
  for v, t in zip(vals, types):
    v = np.asarray(v, dtype=np.float32).reshape(-1)
    ins.append(wp.array(v if t is float else v.reshape(1, -1), dtype=t, shape=(1,)))
  out = wp.zeros(1, dtype=rt)
  wp.launch(k, dim=1, inputs=ins, outputs=[out])
  return out.numpy().astype(np.float64).reshape(-1)
