"""C39 contact_force reports the contact wrench.

Exact differential queries (real arithmetic, every input symbolic) of the REAL support.contact_force_kernel ->
contact_force_fn -> _decode_pyramid against a reference mj_contactForce / mju_decodePyramid written from MuJoCo's
semantics (validated here against the mujoco C library on random contacts):

 kernel/<cone>/condim<k>/<frame>   one generic thread of contact_force_kernel: requested contact below nacon ->
                                   out[tid] == mj_contactForce (rotated by frame^T when to_world_frame), all 6 components;
                                   efc_address < 0 -> zeros; id >= nacon -> nothing decoded from the stale slot; the thread
                                   writes only out[tid]; every read stays inside [0, dim) (no wrapped / foreign-cell read)
 decode/condim<k>                  support._decode_pyramid == mju_decodePyramid (replayed against mujoco.mju_decodePyramid)
 rows/<cone>                       the invariant the kernel units assume (rows of a contact are contiguous from
                                   efc_address[c, 0]) is what the real constraint._efc_contact_init writes when nefc <= njmax
Outside: njmax overflow (NEFC overflow bit set): mujoco_warp then leaves partially dropped contacts (efc_address[c, k] = -1 for
trailing rows), a state MuJoCo never produces; the elliptic branch would read row -1 (wrapped by Warp to row njmax-1) there.
"""

import json
import os

import numpy as np
import re

import z3

from checks import lib
from checks import solverlib_c24  # noqa: F401  (applies the local Interp.lookup work-around, see patch_engine)
from wsym import core, kh, report
from wsym.core import And, Implies, Not, Or, Vec, arith, cmp, is_sym, ite

PID = "C39"
CONDIMS = (1, 3, 4, 6)
PYRAMIDAL, ELLIPTIC = 0, 1


# ------------------------------------------------------------------------------------------------ reference (MuJoCo)


def ref_decode_pyramid(pyr, mu, dim):
  """mju_decodePyramid: pyr = the contact's 2*(dim-1) edge forces (1 for dim 1), mu = friction[0..4] -> 6 numbers."""
  out = [0.0] * 6
  if dim == 1:
    out[0] = pyr[0]
    return out
  for i in range(dim - 1):
    out[0] = arith("+", out[0], arith("+", pyr[2 * i], pyr[2 * i + 1]))
    out[i + 1] = arith("*", arith("-", pyr[2 * i], pyr[2 * i + 1]), mu[i])
  return out


def nrows(cone, dim):
  return dim if cone == ELLIPTIC or dim == 1 else 2 * (dim - 1)


def ref_contact_force(cone, cid, ncon, adr, rows, mu, dim, adhesion):
  """mj_contactForce: zeros unless 0 <= id < ncon and efc_address >= 0; pyramidal: decode; elliptic: copy dim rows;
  the adhesive pull is subtracted from the normal force (MuJoCo 3.13).  rows = efc_force[adr : adr + nrows]."""
  if cone == PYRAMIDAL:
    f = ref_decode_pyramid(rows, mu, dim)
  else:
    f = [rows[i] if i < dim else 0.0 for i in range(6)]
  f[0] = arith("-", f[0], adhesion)
  valid = And(cmp(">=", cid, 0), cmp("<", cid, ncon), cmp(">=", adr, 0))
  return [ite(valid, x, 0.0) for x in f]


def ref_to_world(f, frame):
  """world = frame^T . local for the force (0..2) and the torque (3..5); frame rows are the contact axes (row major 9)."""
  out = []
  for blk in (0, 3):
    for j in range(3):
      s = 0.0
      for i in range(3):
        s = arith("+", s, arith("*", f[blk + i], frame[3 * i + j]))
      out.append(s)
  return out


_XML = """<mujoco><option cone="{cone}"/><worldbody><geom type="plane" size="10 10 .001" condim="1"/>
<body pos="0 0 .04"><freejoint/><geom size=".05" condim="1" adhesion="3"/></body>
<body pos="1 0 .04"><freejoint/><geom size=".05" condim="3"/></body>
<body pos="2 0 .04"><freejoint/><geom size=".05" condim="4" adhesion="2"/></body>
<body pos="3 0 .04"><freejoint/><geom size=".05" condim="6"/></body>
</worldbody></mujoco>"""


def decode_pyramid_mujoco(rows, mu, dim):
  """mujoco.mju_decodePyramid; the 3.13 python binding calls C with dim = mu.size and wants force.size == mu.size + 1,
  pyramid.size == 2 * mu.size, so pad."""
  import mujoco

  o = np.zeros(dim + 1)
  pyr = np.zeros(2 * dim)
  pyr[: len(rows)] = rows
  mu_ = np.ones(dim)
  mu_[: min(dim, 5)] = np.asarray(mu, dtype=float)[: min(dim, 5)]
  mujoco.mju_decodePyramid(o, pyr, mu_)
  return o[:dim]


def validate_reference(seed):
  """reference vs the mujoco C library on random forces / friction / adhesion.  -> error text or None"""
  import mujoco

  rng = np.random.default_rng(seed + 39)
  seen = set()
  for cone, cname in ((PYRAMIDAL, "pyramidal"), (ELLIPTIC, "elliptic")):
    m = mujoco.MjModel.from_xml_string(_XML.format(cone=cname))
    d = mujoco.MjData(m)
    mujoco.mj_forward(m, d)
    if d.ncon != 4:
      return f"validation scene has {d.ncon} contacts"
    for trial in range(20):
      d.efc_force[:] = rng.normal(size=d.nefc)
      for i in range(d.ncon + 1):
        out = np.zeros(6)
        if i < d.ncon:
          c = d.contact[i]
          c.friction[:] = rng.uniform(0.1, 2.0, 5)
          c.adhesion = float(rng.uniform(0.0, 3.0)) if trial % 2 else 0.0
          saved = c.efc_address
          if trial % 5 == 4:
            c.efc_address = -1
          mujoco.mj_contactForce(m, d, i, out)
          adr, dim = int(c.efc_address), int(c.dim)
          rows = [float(x) for x in d.efc_force[max(adr, 0) : max(adr, 0) + nrows(cone, dim)]]
          mine = ref_contact_force(cone, i, d.ncon, adr, rows, [float(x) for x in c.friction], dim, float(c.adhesion))
          c.efc_address = saved
          seen.add(dim)
          if cone == PYRAMIDAL and adr >= 0:
            o2 = decode_pyramid_mujoco(rows, c.friction, dim)
            if not np.allclose(o2, ref_decode_pyramid(rows, [float(x) for x in c.friction], dim)[:dim], atol=1e-12):
              return f"ref_decode_pyramid != mju_decodePyramid (dim {dim})"
        else:
          mujoco.mj_contactForce(m, d, i, out)  # id == ncon: zeros
          mine = ref_contact_force(cone, i, d.ncon, 0, [1.0] * 10, [1.0] * 5, 3, 0.5)
        if not np.allclose(out, np.array(mine, dtype=float), atol=1e-10):
          return f"ref_contact_force != mj_contactForce ({cname}, contact {i}): {out} vs {mine}"
  if seen != set(CONDIMS):
    return f"validation scene covers condims {sorted(seen)}"
  fr = rng.normal(size=9)
  f = rng.normal(size=6)
  w = np.zeros(3)
  mujoco.mju_mulMatTVec3(w, fr, f[:3])
  if not np.allclose(w, ref_to_world(list(f), list(fr))[:3]):
    return "ref_to_world != mju_mulMatTVec3"
  return None


# ------------------------------------------------------------------------------------------------ replay goals


def _scalar(spec, label):
  return spec["args"][label]["scalar"]


def _ref_from_arrays(spec, pre):
  """numeric reference for the replayed thread from the concrete input arrays"""
  tid = spec["tid"][0]
  cone = int(_scalar(spec, "opt_cone"))
  world = bool(_scalar(spec, "to_world_frame"))
  cid = int(pre["contact_ids"][tid])
  ncon = int(pre["nacon_in"][0])
  if not (0 <= cid < ncon):
    return None, f"contact id {cid} not below nacon {ncon}"
  adr = int(pre["contact_efc_address_in"][cid, 0])
  dim = int(pre["contact_dim_in"][cid])
  w = int(pre["contact_worldid_in"][cid])
  n = nrows(cone, dim)
  rows = [float(pre["efc_force_in"][w, adr + i]) if adr >= 0 else 0.0 for i in range(n)]
  mu = [float(x) for x in pre["contact_friction_in"][cid]]
  f = ref_contact_force(cone, cid, ncon, adr, rows, mu, dim, float(pre["contact_adhesion_in"][cid]))
  if world:
    f = ref_to_world(f, [float(x) for x in np.asarray(pre["contact_frame_in"][cid]).reshape(-1)])
  return [float(x) for x in f], f"contact {cid} dim {dim} cone {cone} efc_address {pre['contact_efc_address_in'][cid].tolist()} world {w} rows {rows} mu {mu}"


def goal_force(spec, pre, post):
  tid = spec["tid"][0]
  ref, info = _ref_from_arrays(spec, pre)
  if ref is None:
    return True, info
  got = [float(x) for x in post["out"][tid]]
  comp = spec["env"].get("comp")
  comps = range(6) if comp is None else [int(comp)]
  ok = all(lib.approx(got[j], ref[j]) for j in comps)
  return ok, f"contact_force_kernel out[{tid}] = {got}; mj_contactForce reference = {ref}; {info}"


def goal_not_decoded(spec, pre, post):
  """id >= nacon: the output slot must be untouched (sentinel) or zero"""
  tid = spec["tid"][0]
  sent = spec["env"]["sentinels"]["out"]
  got = np.asarray(post["out"][tid], dtype=float)
  ok = bool(np.all(got == sent) or np.all(got == 0.0))
  return ok, f"contact id {int(pre['contact_ids'][tid])} >= nacon {int(pre['nacon_in'][0])} but out[{tid}] = {got.tolist()} (neither untouched nor zero)"


def goal_only_own_slot(spec, pre, post):
  tid = spec["tid"][0]
  sent = spec["env"]["sentinels"]["out"]
  a = np.asarray(post["out"], dtype=float)
  others = [i for i in range(a.shape[0]) if i != tid and not np.all(a[i] == sent)]
  return (not others), f"thread {tid} also wrote out{others}"


# ------------------------------------------------------------------------------------------------ units


def unit_kernel(cone, dim, world):
  cname = "pyramidal" if cone == PYRAMIDAL else "elliptic"

  def run(ctx):
    from mujoco_warp._src import support

    err = validate_reference(ctx.seed)
    if err:
      ctx.error("reference model validation against mujoco failed: " + err)
      return
    k = support.contact_force_kernel
    loc = "mujoco_warp._src.support:contact_force_kernel"
    ctx.encode(k, support.contact_force_fn, support._decode_pyramid)
    n = nrows(cone, dim)
    ctx.bound(cone=cname, condim=dim, to_world_frame=world, unroll=7, shape_cap=12, note="array sizes, ids, counters, capacities symbolic (<= 12 for the witness search only); floats are reals")
    # pyramidal + world frame would be cubic (force * mu * frame): there the decoded vector is a contract value D (fresh
    # reals standing for _decode_pyramid's result, whose equality with mju_decodePyramid is what the local-frame unit
    # proves for the same call) and the call arguments are checked separately -> bilinear queries only
    summarize = cone == PYRAMIDAL and world
    calls = []

    def decode_contract(interp, frame, args):
      calls.append((interp.active(frame), args))
      return Vec([z3.Real(f"D{i}") for i in range(6)], (6,), float)

    ikw = {"summaries": {support._decode_pyramid.key: decode_contract}} if summarize else None
    kt = lib.kernel_thread(k, scalars={"opt_cone": cone, "to_world_frame": world}, unroll=7, cap=12, assume_bounds=False, interp_kw=ikw)
    tid = kt.tid
    cid = kt.pre("contact_ids", tid)
    ncon = kt.pre("nacon_in", 0)
    njmax = kt.args["njmax_in"]
    adr = kt.pre("contact_efc_address_in", cid, 0)
    w = kt.pre("contact_worldid_in", cid)
    A = kt.args
    naconmax = A["contact_dim_in"].cell.shape[0]
    pre = [
      cmp("<", tid, A["contact_ids"].cell.shape[0]),
      cmp(">=", A["out"].cell.shape[0], A["contact_ids"].cell.shape[0]),
      cmp(">=", A["nacon_in"].cell.shape[0], 1),
      ncon >= 0,
      cmp("<=", ncon, naconmax),
      cid >= 0,
      cmp("<", cid, naconmax),
      njmax >= 0,
      cmp("==", A["efc_force_in"].cell.shape[1], njmax),
      kt.pre("contact_dim_in", cid) == dim,
    ]
    for lab in ("contact_frame_in", "contact_friction_in", "contact_efc_address_in", "contact_worldid_in", "contact_adhesion_in"):
      pre.append(cmp("==", A[lab].cell.shape[0], naconmax))
    pre.append(cmp(">=", A["contact_efc_address_in"].cell.shape[1], max(1, 2 * (dim - 1))))
    listed = cmp("<", cid, ncon)
    pre.append(Implies(listed, And(w >= 0, cmp("<", w, A["efc_force_in"].cell.shape[0]))))
    # rows of an assembled contact: contiguous from efc_address[c, 0], inside njmax (proved for _efc_contact_init in rows/*)
    contig = [cmp("<=", arith("+", adr, n), njmax)]
    if cone == ELLIPTIC:
      contig += [kt.pre("contact_efc_address_in", cid, i) == adr + i for i in range(1, dim)]
    pre.append(Implies(And(listed, adr >= 0), And(*contig)))
    ctx.assume(
      "launch contract: tid < contact_ids.size <= out.size; requested ids are >= 0 and < naconmax; 0 <= nacon <= naconmax (no contact-buffer overflow)",
      "contact arrays share shape[0] = naconmax; efc_address.shape[1] >= max(1, 2*(condim-1)) (= nmaxpyramid); efc_force.shape = (nworld, njmax)",
      f"contact.dim[id] == {dim}; worldid of a listed contact in [0, nworld)",
      "no njmax overflow: an assembled contact (efc_address[c,0] >= 0) owns rows efc_address[c,0] .. +nrows-1 <= njmax-1, and efc_address[c,i] = efc_address[c,0]+i (what _efc_contact_init writes when nefc <= njmax; unit rows/*)",
      "floats are exact reals (rounding / NaN outside the claim)",
    )
    sess = ctx.session(kt.bg + pre)
    ctx.reach(sess, "twin:listed-assembled-contact", And(listed, adr >= 0))
    ctx.reach(sess, "twin:listed-unassembled-contact", And(listed, adr < 0))
    ctx.reach(sess, "twin:id-not-listed", Not(listed))
    names = {"tid": tid, "contact_id": cid, "nacon": ncon, "njmax": njmax, "efc_address0": adr, "worldid": w}
    rows = [kt.pre("efc_force_in", w, adr + i) for i in range(n)]
    mu = [kt.pre("contact_friction_in", cid, k=i) for i in range(5)]
    ref = ref_contact_force(cone, cid, ncon, adr, rows, mu, dim, kt.pre("contact_adhesion_in", cid))
    if summarize:
      D = [z3.Real(f"D{i}") for i in range(6)]
      valid = And(cid >= 0, cmp("<", cid, ncon), adr >= 0)
      ref = [ite(valid, arith("-", D[0], kt.pre("contact_adhesion_in", cid)), 0.0)] + [ite(valid, D[i], 0.0) for i in range(1, 6)]
      sess.add(And(*[D[i] == 0 for i in range(dim, 6)]))  # mju_decodePyramid leaves components >= dim zero
      ctx.assume("pyramidal + to_world_frame: _decode_pyramid replaced by its contract (result = the value the local-frame unit proves equal to mju_decodePyramid, components >= condim are 0); its call arguments are proved to be (njmax, efc_force[worldid], efc_address[c,0], friction[c], dim[c])")
      if len(calls) != 1:
        ctx.error(f"expected one _decode_pyramid call, saw {len(calls)}")
        return
      g, a = calls[0]
      fr_ok = isinstance(a[1], core.ArrRef) and a[1].cell is A["efc_force_in"].cell and len(a[1].prefix) == 1
      if not fr_ok or not isinstance(a[3], Vec):
        ctx.error("unexpected _decode_pyramid argument kinds")
        return
      argok = And(cmp("==", a[0], njmax), cmp("==", a[1].prefix[0], w), cmp("==", a[2], adr), cmp("==", a[4], dim), *[cmp("==", a[3].c[i], mu[i]) for i in range(5)])
    if world:
      ref = ref_to_world(ref, [kt.pre("contact_frame_in", cid, k=i) for i in range(9)])
    out = kt.postv("out", tid)
    rp = lambda nm, goal, env: lib.make_replay(ctx, kt, loc, nm, "goal", goal=goal, env=env)

    def rp_inrange(nm, goal, env):
      """an `inrange` counterexample is reproduced either by the goal (a wrapped negative index reads a foreign cell) or by the
      bounds assertion of Warp's checked build aborting the single-thread launch (index >= dim)"""
      inner = rp(nm, goal, env)

      def run(model):
        ok, text = inner(model)
        if not ok and isinstance(text, str) and re.search(r"subprocess rc=(-\d+|134)", text):
          return True, text.split(" (subprocess")[0]
        return ok, text

      return run
    ctx.prove(sess, "listed/written", kt.written("out", tid), listed, names=names, replay=rp("written", "checks.c39:goal_force", {"randomize_floats": 3}), desc=f"contact_force ({cname}, condim {dim}): out[tid] not written for a listed contact")
    for j in range(6):
      ctx.prove(
        sess,
        f"listed/out[{j}]==mj_contactForce",
        cmp("==", out.c[j], ref[j]),
        listed,
        names=names,
        replay=rp(f"out{j}", "checks.c39:goal_force", {"comp": j, "randomize_floats": 3}),
        desc=f"contact_force ({cname}, condim {dim}, to_world_frame={world}): component {j} differs from mj_contactForce" + (" rotated by frame^T" if world else ""),
      )
    if summarize:
      ctx.prove(sess, "listed/decode-call-arguments", And(g, argok), And(listed, adr >= 0), names=names, replay=rp("args", "checks.c39:goal_force", {"randomize_floats": 3}), desc="contact_force_fn passes wrong arguments to _decode_pyramid")
    # id >= nacon: nothing may be decoded from the stale slot
    zero = And(*[cmp("==", c, 0.0) for c in out.c])
    ctx.prove(sess, "not-listed/untouched-or-zero", Or(Not(kt.written("out", tid)), zero), Not(listed), names=names, replay=rp("stale", "checks.c39:goal_not_decoded", {"sentinels": {"out": -777.0}}), desc=f"contact_force ({cname}): id >= nacon decodes the stale contact slot")
    # frame: only out[tid]
    o = z3.Int("o")
    ctx.prove(sess, "writes-only-own-slot", Not(kt.written("out", o)), o != tid, names=dict(names, other=o), replay=rp("frame", "checks.c39:goal_only_own_slot", {"sentinels": {"out": -777.0}}), desc="contact_force_kernel thread writes another thread's output slot")
    # every access of the thread inside [0, dim): a negative index would be wrapped by Warp to a foreign cell
    seen = set()
    for ob in kt.it.obl:
      if ob.kind == "unwind":
        ctx.prove(sess, f"unwind/{ob.where}", ob.cond, ob.guard, names=names, desc="loop bound too small (harness)")
        continue
      key = (ob.where, ob.info)
      nm = f"inrange/{ob.where}/{ob.info[1]}[{ob.info[2]}]" + (f"#{sum(1 for s in seen if s == key)}" if key in seen else "")
      seen.add(key)
      ctx.prove(sess, nm, ob.strict, ob.guard, names=names, replay=rp_inrange(nm, "checks.c39:goal_force", {"randomize_floats": 3}), desc=f"contact_force ({cname}, condim {dim}): index outside [0, dim) at {ob.where} ({ob.info[1]} dim {ob.info[2]}): wrapped / foreign-cell access")

  return (f"kernel/{cname}/condim{dim}/{'world' if world else 'local'}", run)


def _decode_runner():
  """tiny kernel around the REAL support._decode_pyramid (for replays)"""
  import warp as wp

  from mujoco_warp._src import support
  from mujoco_warp._src.types import vec5

  decode = support._decode_pyramid

  @wp.kernel
  def c39_decode_runner(njmax_in: int, pyramid: wp.array[float], efc_address: int, mu: vec5, condim: int, out: wp.array[wp.spatial_vector]):
    out[0] = decode(njmax_in, pyramid, efc_address, mu, condim)

  return c39_decode_runner


def unit_decode(dim):
  def run(ctx):
    import warp as wp

    from mujoco_warp._src import support
    from mujoco_warp._src.types import vec5
    from wsym import replay as rpl

    err = validate_reference(ctx.seed)
    if err:
      ctx.error("reference model validation against mujoco failed: " + err)
      return
    f = support._decode_pyramid
    ctx.encode(f)
    n = nrows(PYRAMIDAL, dim)
    ctx.bound(condim=dim, unroll=7, note="njmax, efc_address, array length and contents, friction symbolic")
    args = kh.make_args(f, scalars={"condim": dim})
    rpl.snapshot_initial(args)
    it, ret = kh.run(f, args, unroll=7)
    njmax, adr = args["njmax_in"], args["efc_address"]
    cell = args["pyramid"].cell
    pre = [core.zbool(a) for a in it.assumes] + [adr >= 0, cmp("<=", arith("+", adr, n), njmax), cmp("<=", njmax, cell.shape[0]), cell.shape[0] <= 16]
    ctx.assume("efc_address >= 0, the contact's rows efc_address .. efc_address+nrows-1 are below njmax <= len(efc_force row) (no njmax overflow)")
    sess = ctx.session(pre)
    ctx.reach(sess, "twin:assembled", True)
    ref = ref_decode_pyramid([cell.get((adr + i,), 0, snap=cell.a0) for i in range(n)], args["mu"].c, dim)
    names = {"njmax": njmax, "efc_address": adr, "len": cell.shape[0]}

    def replay(model):
      conc = rpl.concretize_args(model, f, args)
      pyr = np.array(conc["pyramid"]["data"][0], dtype=np.float32)
      mu = [float(x) for x in conc["mu"]["vec"]]
      a, nj = int(conc["efc_address"]["scalar"]), int(conc["njmax_in"]["scalar"])
      out = wp.zeros(1, dtype=wp.spatial_vector)
      wp.launch(_decode_runner(), dim=1, inputs=[nj, wp.array(pyr, dtype=float), a, vec5(*mu), dim], outputs=[out])
      got = out.numpy()[0]
      want = np.zeros(6)
      want[:dim] = decode_pyramid_mujoco([float(x) for x in pyr[a : a + n]], mu, dim)
      ok = all(lib.approx(got[j], want[j]) for j in range(6))
      os.makedirs(os.path.join(report.VERIF, "replays", PID), exist_ok=True)
      path = os.path.join(report.VERIF, "replays", PID, f"decode_condim{dim}.json")
      with open(path, "w") as fh:
        json.dump({"property": PID, "function": "support._decode_pyramid", "njmax": nj, "pyramid": pyr.tolist(), "efc_address": a, "mu": mu, "condim": dim, "mujoco_warp": got.tolist(), "mujoco.mju_decodePyramid": want.tolist()}, fh)
      return (not ok), path

    for j in range(6):
      ctx.prove(sess, f"force[{j}]==mju_decodePyramid", cmp("==", ret.c[j], ref[j]), True, names=names, replay=replay, desc=f"_decode_pyramid (condim {dim}): component {j} differs from mju_decodePyramid")
    for ob in it.obl:
      if ob.kind == "unwind":
        ctx.prove(sess, f"unwind/{ob.where}", ob.cond, ob.guard, names=names, desc="loop bound too small (harness)")
      else:
        ctx.prove(sess, f"inrange/{ob.where}#{id(ob) % 9973}", ob.strict, ob.guard, names=names, replay=replay, desc=f"_decode_pyramid (condim {dim}): row index outside [0, len) at {ob.where}: wrapped / foreign-cell read")

  return (f"decode/condim{dim}", run)


def unit_rows(cone, is_sparse, newton, adhesion):
  cname = "pyramidal" if cone == PYRAMIDAL else "elliptic"

  def run(ctx):
    from mujoco_warp._src import constraint, types

    ct = types.ConeType.ELLIPTIC if cone == ELLIPTIC else types.ConeType.PYRAMIDAL
    k = constraint._efc_contact_init(ct, is_sparse, newton, adhesion)
    loc = f"mujoco_warp._src.constraint:_efc_contact_init(types.ConeType.{'ELLIPTIC' if cone == ELLIPTIC else 'PYRAMIDAL'}, {is_sparse}, {newton}, {adhesion})"
    ctx.encode(k)
    ctx.bound(cone=cname, is_sparse=is_sparse, newton=newton, flg_adhesion=adhesion, unroll=10, note="condim in {1,3,4,6}; dof-ancestor walk (sparse) <= 10 steps")
    ctx.assume("float products are uninterpreted (row bookkeeping does not depend on them)", "thread's own accesses in bounds (C17), loops within the unroll bound")
    njmax = z3.Int("njmax_in")
    kt = lib.kernel_thread(k, scalars={"njmax_in": njmax}, unroll=10, interp_kw={"float_uf": True})
    c = kt.tid
    w = kt.pre("worldid_in", c)
    condim = kt.pre("condim_in", c)
    base = kt.pre("nefc_out", w)
    n = kt.atomic_total("nefc_out", w)
    sess = ctx.session(kt.bg + [njmax >= 0, base >= 0, Or(*[condim == d for d in CONDIMS])])
    alloc = n > 0
    ctx.reach(sess, "twin:allocating-within-njmax", And(alloc, base + n <= njmax))
    names = {"conid": c, "worldid": w, "condim": condim, "nefc0": base, "nrows": n, "njmax": njmax}
    want_n = (condim if cone == ELLIPTIC else z3.If(condim == 1, 1, 2 * (condim - 1)))
    rp = lambda nm, env: lib.make_replay(ctx, kt, loc, nm, "goal", goal="checks.c39:goal_rows", env=env)
    ctx.prove(sess, "rows-allocated==nrows(cone,condim)", n == want_n, alloc, names=names, replay=rp("nrows", {"cone": cone}), desc=f"_efc_contact_init ({cname}): number of rows allocated for a contact differs from MuJoCo's")
    i = z3.Int("i")
    good = And(kt.written("contact_efc_address_out", c, i), kt.post("contact_efc_address_out", c, i) == base + i)
    ctx.prove(sess, "efc_address[c,i]==base+i", good, And(alloc, base + n <= njmax, i >= 0, i < n, kt.inshape("contact_efc_address_out", c, i)), names=dict(names, i=i), replay=rp("addr", {"cone": cone, "i": i}), desc=f"_efc_contact_init ({cname}): without njmax overflow efc_address[c, i] is not efc_address[c, 0] + i")

  return (f"rows/{cname}/{'sparse' if is_sparse else 'dense'}{'-newton' if newton else '-cg'}{'-adhesion' if adhesion else ''}", run)


def goal_rows(spec, pre, post):
  c = spec["tid"][0]
  e = spec["env"]
  w = int(pre["worldid_in"][c])
  base, after = int(pre["nefc_out"][w]), int(post["nefc_out"][w])
  dim = int(pre["condim_in"][c])
  n = after - base
  nj = int(_scalar(spec, "njmax_in"))
  adr = post["contact_efc_address_out"][c].tolist()
  if n == 0:
    return True, "thread did not allocate"
  ok = n == nrows(int(e["cone"]), dim)
  if ok and base + n <= nj:
    ok = all(adr[i] == base + i for i in range(min(n, len(adr))))
  return ok, f"contact {c} condim {dim}: nefc {base} -> {after} (njmax {nj}), efc_address row = {adr}"


def main(tier, seed, only=None):
  units = [unit_kernel(c, d, w) for c in (PYRAMIDAL, ELLIPTIC) for d in CONDIMS for w in (False, True)]
  units += [unit_decode(d) for d in CONDIMS]
  rowspecs = [(False, True, False), (True, True, True)] + ([(False, False, True), (True, False, False)] if tier == "thorough" else [])
  units += [unit_rows(c, *rs) for c in (PYRAMIDAL, ELLIPTIC) for rs in rowspecs]
  if only:
    units = [u for u in units if any(o in u[0] for o in only)]
  return report.run_check(PID, units, tier, seed)
