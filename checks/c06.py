"""C06 Constrained acceleration is the convex-cost optimum -- the certificate part (not the iteration).

What the solver decides, on the REAL code (floats = exact reals):

 cert/scalar/<kind>      _eval_constraint on equality / friction-loss / inequality (limit, frictionless, pyramid edge) rows:
                         (force, state, cost) == mj_constraintUpdate's, zone by zone, and the sub-gradient inequality
                         cost(y) >= cost(x) - force(x)*(y - x) for ALL x, y  (=> cost convex, force = -dcost/dJaref)
 gather/scalar/*         one generic thread of _update_constraint_efc hands _eval_constraint the row's own Jaref, D,
                         frictionloss and kind flags and stores its force / state   (elliptic rows: see C24 gather/elliptic,
                         one layout re-run here)
 cert/elliptic/condim<k> per zone (top / bottom / middle): _eval_constraint's forces, state and summed cost == MuJoCo's;
                         reduction of cost and force.(y-x) to the scalars (N, T, P = u_x.u_y); scalar convexity lemma for all
                         9 zone pairs; Cauchy-Schwarz |P| <= T_x*T_y  ==> sub-gradient inequality for the contact's cost
 jaref/*                 _solve_init_jaref_kernel: Jaref = J.qacc - aref (dense single-thread, dense split over several
                         threads with atomics, sparse, compact)
 grad/*                  _update_gradient_grad: grad = Ma - qfrc_smooth - qfrc_constraint and grad_dot += grad^2
 (qfrc_constraint = J^T force and the _qfrc_constraint_from_grad inversion are decided in C24 qfrc/*.)

Together: at the qacc the solver reports, Jaref is the residual of that qacc, the stored forces are the negative gradient of
MuJoCo's convex constraint cost at that residual, and the gradient whose norm is tested against the tolerance is the
gradient of MuJoCo's total cost.  Outside (not encodable / iterative float algorithm): that Newton / CG / line search
reach the tolerance, Hessian assembly and factorisation, tile kernels (_update_gradient_grad_tiled, CG tiles), Ma = M.qacc.
"""

import z3

from checks import c24, lib
from checks import solverlib_c24 as L
from wsym import core, kh, replay, report
from wsym.core import And, Implies, Not, Or, arith, cmp, ite

PID = "C06"
NL = "qfnra-nlsat"


def _validate(ctx):
  err = L.validate_reference(ctx.seed)
  if err:
    ctx.error("reference model validation against mujoco.mj_constraintUpdate failed: " + err)
  return err is None


# ------------------------------------------------------------------------------------------------ scalar rows


def scalar_replay(ctx, name, kind, xs, D, fl, mode):
  """evaluate the REAL _eval_constraint at the model's points.  mode 'ref': compare with the MuJoCo reference at xs[0];
  mode 'subgrad': check cost(y) >= cost(x) - force(x)*(y-x) on the real outputs"""

  def _rp(model):
    mv = lambda v: L.mvalf(model, v)
    Dv, flv = mv(D), mv(fl)
    pts = [mv(x) for x in xs]
    res = L.real_eval([[kind == "equality", kind == "friction", False, p, Dv, (flv if kind == "friction" else 0.0), 0, -1, 0.0, 0.0, 0.0, 0.0, 0.0] for p in pts])
    if mode == "ref":
      f, st, c = L.ref_scalar_row(kind, pts[0], Dv, flv, flv / Dv)
      ok = lib.approx(res[0][0], float(f)) and res[0][1] == int(st) and lib.approx(res[0][2], float(c))
      text = f"{kind} row jaref {pts[0]} D {Dv} frictionloss {flv}: mujoco_warp (force, state, cost) = {res[0]}; mj_constraintUpdate = ({float(f)}, {int(st)}, {float(c)})"
    else:
      lhs, rhs = res[1][2], res[0][2] - res[0][0] * (pts[1] - pts[0])
      ok = lhs >= rhs - 1e-4 * max(1.0, abs(lhs), abs(rhs))
      text = f"{kind} row D {Dv} frictionloss {flv}: x = {pts[0]} -> (force, state, cost) {res[0]}; y = {pts[1]} -> {res[1]}; cost(y) = {lhs} < cost(x) - force(x)*(y-x) = {rhs}"
    return (not ok), L.write_replay(PID, ctx.unit, name, {"function": "solver._eval_constraint", "result": text})

  return _rp


def unit_cert_scalar(kind):
  def run(ctx):
    from mujoco_warp._src import solver

    if not _validate(ctx):
      return
    ctx.encode(solver._eval_constraint)
    ctx.bound(kind=kind, note="x, y, D, frictionloss symbolic reals; safe_div as polynomial contract")
    ctx.assume("efc_D > 0, frictionloss >= 0 (C05); arguments as passed by _update_constraint_efc (gather/scalar)", "floats are exact reals")
    x, y, D, fl, rf = z3.Reals("x y D frictionloss rf")
    it = L.func_interp()
    fx, sx, cx = L.eval_scalar(kind, it, x, D, fl)
    fy, sy, cy = L.eval_scalar(kind, it, y, D, fl)
    bg = [D > 0, fl >= 0, rf * D == fl] + [core.zbool(a) for a in it.assumes]
    sess = ctx.session(bg)
    ctx.reach(sess, "twin:reachable", x < y)
    rfx, rsx, rcx = L.ref_scalar_row(kind, x, D, fl, rf)
    names = {"x": x, "y": y, "D": D, "frictionloss": fl}
    rpr = scalar_replay(ctx, "ref", kind, [x], D, fl, "ref")
    zones = {"equality": [("quadratic", True)], "ineq": [("satisfied", x >= 0), ("quadratic", x < 0)], "friction": [("linearneg", x <= -rf), ("linearpos", x >= rf), ("quadratic", And(x > -rf, x < rf))]}[kind]
    for zn, zc in zones:
      ctx.reach(sess, f"twin:zone-{zn}", zc)
      ctx.prove(sess, f"{zn}/force==mj_constraintUpdate", cmp("==", fx, rfx), zc, names=names, replay=rpr, desc=f"{kind} row, {zn} zone: force differs from mj_constraintUpdate")
      ctx.prove(sess, f"{zn}/state==mj_constraintUpdate", cmp("==", sx, arith("*", rsx, 1.0)), zc, names=names, replay=rpr, desc=f"{kind} row, {zn} zone: state differs from mj_constraintUpdate")
      ctx.prove(sess, f"{zn}/cost==mj_constraintUpdate", cmp("==", cx, rcx), zc, names=names, replay=rpr, desc=f"{kind} row, {zn} zone: cost differs from MuJoCo's s(jar)")
    rps = scalar_replay(ctx, "subgrad", kind, [x, y], D, fl, "subgrad")
    ctx.prove(sess, "subgradient:cost(y)>=cost(x)-force(x)*(y-x)", cy >= cx - fx * (y - x), True, names=names, replay=rps, desc=f"{kind} row: force is not minus a sub-gradient of the cost (cost not convex or force != -dcost/dJaref)")

  return (f"cert/scalar/{kind}", run)


def goal_scalar_row(spec, pre, post):
  return c24.goal_scalar_row(spec, pre, post)


def unit_gather_scalar(track):
  def run(ctx):
    from mujoco_warp._src import solver

    core.DIVMODE[0] = "poly"
    loc = f"mujoco_warp._src.solver:_update_constraint_efc({track})"
    w, e = z3.Int("w"), z3.Int("e")
    k, args, R = L.make_rows(track, lambda a: [(w, e)])
    ctx.encode(k, solver._eval_constraint)
    ctx.bound(track_changes=track, shape_cap=8, note="generic world / row; counters, type, all floats symbolic")
    ctx.assume("row live (world not done, 0 <= efcid < nefc <= njmax), ne, nf >= 0, row not typed CONTACT_ELLIPTIC (MuJoCo row order: equality | friction | limit | contact)")
    A = args
    ne, nf, nefc = R.pre("ne_in", w), R.pre("nf_in", w), R.pre("nefc_in", w)
    typ = R.pre("efc_type_in", w, e)
    bg = R.bg + L.shape_bg(args) + [w >= 0, cmp("<", w, A["efc_force_out"].cell.shape[0]), e >= 0, e < nefc, cmp("<=", nefc, A["efc_force_out"].cell.shape[1]), ne >= 0, nf >= 0, Not(R.pre("ctx_done_in", w)), typ != L.T_ELLIPTIC]
    for lab in ("ne_in", "nf_in", "nefc_in", "ctx_done_in", "ctx_ls_exhausted_in", "efc_type_in", "efc_D_in", "efc_frictionloss_in", "ctx_Jaref_in", "efc_state_out"):
      bg.append(cmp("==", A[lab].cell.shape[0], A["efc_force_out"].cell.shape[0]))
    for lab in ("efc_type_in", "efc_D_in", "efc_frictionloss_in", "ctx_Jaref_in", "efc_state_out"):
      bg.append(cmp("==", A[lab].cell.shape[1], A["efc_force_out"].cell.shape[1]))
    sess = ctx.session(bg)
    ctx.reach(sess, "twin:live-row", And(e >= ne, e < ne + nf))
    if R.res[0] is None:
      ctx.error("expected exactly one _eval_constraint call")
      return
    g, r, a = R.res[0]
    names = {"w": w, "e": e, "ne": ne, "nf": nf, "nefc": nefc, "type": typ}

    class KT:  # adapter for lib.make_replay
      kernel, tid = k, (w, e)

    KT.args = args
    rp = lambda nm: lib.make_replay(ctx, KT, loc, nm, "goal", goal="checks.c06:goal_scalar_row", env={"randomize_floats": 0})
    iseq, isfr = e < ne, And(e >= ne, e < ne + nf)
    want = [("is_equality", iseq), ("is_friction", isfr), ("is_elliptic", False), ("jaref", R.pre("ctx_Jaref_in", w, e)), ("D", R.pre("efc_D_in", w, e)), ("frictionloss", ite(isfr, R.pre("efc_frictionloss_in", w, e), 0.0))]
    ctx.prove(sess, "reaches-eval", g, True, names=names, replay=rp("reach"), desc="a live non-elliptic row returns before evaluating its force")
    for (lab, y), x in zip(want, a):
      eq = (core.zbool(x) == core.zbool(y)) if lab.startswith("is_") else cmp("==", x, y)
      ctx.prove(sess, f"arg-{lab}", eq, g, names=names, replay=rp(lab), desc=f"_update_constraint_efc passes a wrong {lab} to _eval_constraint")
    ctx.prove(sess, "stores-result", And(R.wrote[0], cmp("==", R.force[0], r.c[0]), cmp("==", z3.ToReal(R.state[0]), r.c[1])), True, names=names, replay=rp("store"), desc="stored force/state differ from _eval_constraint's result")

  return (f"gather/scalar/{'track' if track else 'plain'}", run)


# ------------------------------------------------------------------------------------------------ elliptic contacts


def elliptic_replay(ctx, name, E, dim, F=None, mode="ref"):
  def _rp(model):
    mv = lambda v: L.mvalf(model, v)
    D, fr, mu = [mv(v) for v in E["D"]], [mv(v) for v in E["fr"]], mv(E["mu"])
    x = [mv(v) for v in E["jar"]]
    rx = L.real_eval(L.elliptic_args(x, D, mu, fr))
    f, st, c, zs = L.ref_elliptic_numeric(x, D, mu, fr)
    zone = "top" if zs[0] else "bottom" if zs[1] else "middle"
    cost = sum(r[2] for r in rx)
    if mode == "ref":
      ok = all(lib.approx(rx[j][0], float(f[j])) for j in range(dim)) and all(r[1] == int(st) for r in rx) and lib.approx(cost, float(c))
      text = f"zone {zone}: mujoco_warp forces {[r[0] for r in rx]} states {[r[1] for r in rx]} cost {cost}; mj_constraintUpdate forces {[float(v) for v in f]} state {int(st)} cost {float(c)}"
    else:
      y = [mv(v) for v in F["jar"]]
      ry = L.real_eval(L.elliptic_args(y, D, mu, fr))
      lhs = sum(r[2] for r in ry)
      rhs = cost - sum(rx[j][0] * (y[j] - x[j]) for j in range(dim))
      ok = lhs >= rhs - 1e-4 * max(1.0, abs(lhs), abs(rhs))
      text = f"x = {x}: forces {[r[0] for r in rx]} cost {cost}; y = {y}: cost {lhs} < cost(x) - force(x).(y-x) = {rhs}"
    return (not ok), L.write_replay(PID, ctx.unit, name, {"function": "solver._eval_constraint per row of one elliptic contact", "efc_D": D, "friction": fr, "mu": mu, "jaref": x, "result": text})

  return _rp


def cauchy_schwarz(ctx, n):
  """|sum a_i b_i| <= |a| |b| for n components: directly for n <= 3, by the solver-proved induction step for larger n"""
  nr = lambda m: (False, "pure algebraic lemma (no code involved)")
  if n <= 3:
    a = [z3.Real(f"a{i}") for i in range(n)]
    b = [z3.Real(f"b{i}") for i in range(n)]
    Ta, Tb = z3.Reals("Ta Tb")
    s = ctx.session([Ta >= 0, Tb >= 0, Ta * Ta == z3.Sum([v * v for v in a]), Tb * Tb == z3.Sum([v * v for v in b])], tactic=NL)
    ctx.reach(s, "twin:cauchy-schwarz", Ta > 0)
    P = z3.Sum([u * v for u, v in zip(a, b)])
    ctx.prove(s, f"lemma/cauchy-schwarz(n={n})", And(P <= Ta * Tb, -P <= Ta * Tb), True, names={"Ta": Ta}, replay=nr, desc="Cauchy-Schwarz fails")
    return
  # induction step: P' <= Ta'*Tb' (and -P' <= ..), Ta^2 = Ta'^2 + a^2, Tb^2 = Tb'^2 + b^2  =>  |P' + a*b| <= Ta*Tb
  Pp, Tap, Tbp, a, b, Ta, Tb = z3.Reals("Pp Tap Tbp a b Ta Tb")
  s = ctx.session([Tap >= 0, Tbp >= 0, Ta >= 0, Tb >= 0, Pp <= Tap * Tbp, -Pp <= Tap * Tbp, Ta * Ta == Tap * Tap + a * a, Tb * Tb == Tbp * Tbp + b * b], tactic=NL)
  ctx.reach(s, "twin:cauchy-schwarz-step", Tap > 0)
  ctx.prove(s, "lemma/cauchy-schwarz-step", And(Pp + a * b <= Ta * Tb, -(Pp + a * b) <= Ta * Tb), True, names={"Ta": Ta}, replay=nr, desc="Cauchy-Schwarz induction step fails")
  s0 = ctx.session([Ta >= 0, Tb >= 0, Ta * Ta == a * a, Tb * Tb == b * b], tactic=NL)
  ctx.reach(s0, "twin:cauchy-schwarz-base", Ta > 0)
  ctx.prove(s0, "lemma/cauchy-schwarz-base", And(a * b <= Ta * Tb, -(a * b) <= Ta * Tb), True, names={"Ta": Ta}, replay=nr, desc="Cauchy-Schwarz base case fails")
  ctx.notes.append(f"Cauchy-Schwarz for n = {n} tangential rows follows from the base case and {n - 1} instances of the step lemma (partial sums / partial norms)")


def unit_cert_elliptic(dim):
  def run(ctx):
    from mujoco_warp._src import solver

    if not _validate(ctx):
      return
    ctx.encode(solver._eval_constraint, solver._eval_elliptic_middle)
    ctx.bound(condim=dim, note="residual vectors x, y, D, mu, friction symbolic reals")
    ctx.assume(
      "mu > 0, efc_D > 0, friction > 0 (C05/C04); arguments as passed by _update_constraint_efc (C24 gather/elliptic)",
      "friction-row regularisation D_j * mu^2 = D_0 * friction_j^2 (MuJoCo's mj_makeImpedance scaling; without it MuJoCo's own elliptic cost is not convex) -- used by the reduction and convexity queries, not by the code == reference queries",
      "floats are exact reals; sqrt(TT) = the T >= 0 with T*T = TT",
    )
    E = c24.eval_elliptic(dim, tag="x")
    jar, D, fr, mu, T, U, N = E["jar"], E["D"], E["fr"], E["mu"], E["T"], E["U"], E["N"]
    Dm, c = z3.Real("Dm"), z3.Real("c")
    f0m = -Dm * (N - mu * T) * mu
    ref_f, ref_st, ref_c, _ = L.ref_elliptic(jar, D, mu, fr, T, Dm, c)
    helpers = [Dm * mu * mu * (1 + mu * mu) == D[0], z3.Implies(T > 0, c * T == -f0m)]
    sess = ctx.session(E["bg"] + helpers)
    names = {f"jaref{j}": jar[j] for j in range(dim)} | {f"D{j}": D[j] for j in range(dim)} | {f"friction{j}": fr[j] for j in range(dim - 1)} | {"mu": mu}
    rp = elliptic_replay(ctx, "ref", E, dim)
    cost = z3.Sum(E["cost"])
    for zn in ("top", "bottom", "middle"):
      z = E[zn]
      ctx.reach(sess, f"twin:{zn}-zone", z)
      for j in range(dim):
        ctx.prove(sess, f"{zn}/force{j}==mj_constraintUpdate", cmp("==", E["f"][j], ref_f[j]), z, names=names, replay=rp, desc=f"elliptic condim {dim}, {zn} zone: force of row {j} differs from mj_constraintUpdate")
        ctx.prove(sess, f"{zn}/state{j}==mj_constraintUpdate", cmp("==", E["st"][j], arith("*", ref_st, 1.0)), z, names=names, replay=rp, desc=f"elliptic condim {dim}, {zn} zone: state of row {j} differs from mj_constraintUpdate")
      ctx.prove(sess, f"{zn}/cost==mj_constraintUpdate", cmp("==", cost, ref_c), z, names=names, replay=rp, desc=f"elliptic condim {dim}, {zn} zone: summed row cost differs from MuJoCo's s(jar)")
    # ---- reduction to scalars (pure algebra on the reference expressions, under the D scaling)
    nr = lambda m: (False, "pure algebraic lemma (no code involved)")
    y = [z3.Real(f"jar{j}y") for j in range(dim)]
    Ny, Uy, TTy = L.elliptic_terms(y, mu, fr)
    K, P, cq = z3.Reals("K P cq")
    scal = [D[j] * mu * mu == D[0] * fr[j - 1] * fr[j - 1] for j in range(1, dim)] + [K * mu * mu == D[0], P == z3.Sum([u * v for u, v in zip(U, Uy)]), z3.Implies(T > 0, cq * T == P - T * T)]
    red = ctx.session([mu > 0, T >= 0, T * T == E["TT"], E["TT"] == L.elliptic_terms(jar, mu, fr)[2]] + [d > 0 for d in D] + [v > 0 for v in fr] + helpers + scal, tactic=NL)
    ctx.reach(red, "twin:reduction-premises", T > 0)
    lin = {zn: z3.Sum([ref_zone_force(zn, j, jar, D, mu, fr, T, Dm, c, U) * (y[j] - jar[j]) for j in range(dim)]) for zn in ("top", "bottom", "middle")}
    G = {"top": 0, "bottom": K * (N * (Ny - N) + (P - T * T)), "middle": Dm * (N - mu * T) * ((Ny - N) - mu * cq)}
    phi = {"top": 0, "bottom": K * (N * N + T * T) / 2, "middle": Dm * (N - mu * T) * (N - mu * T) / 2}
    refc = {"top": 0, "bottom": z3.Sum([D[j] * jar[j] * jar[j] / 2 for j in range(dim)]), "middle": Dm * (N - mu * T) * (N - mu * T) / 2}
    for zn in ("bottom", "middle"):
      ctx.prove(red, f"reduce/{zn}:-force.(y-x)==G(N,T,P)", -lin[zn] == G[zn], (T > 0) if zn == "middle" else True, names={"T": T}, replay=nr, desc=f"reduction of the {zn}-zone linear term fails")
      ctx.prove(red, f"reduce/{zn}:cost==phi(N,T)", refc[zn] == phi[zn], True, names={"T": T}, replay=nr, desc=f"reduction of the {zn}-zone cost fails")
    # ---- scalar convexity lemma: phi(N_y, T_y) >= phi(N_x, T_x) + G for every zone pair, |P| <= T_x T_y
    Nx, Tx, Ny_, Ty = z3.Reals("Nx Tx Ny Ty")

    def zones(Nv, Tv):
      top = z3.Or(Nv >= mu * Tv, z3.And(Tv <= 0, Nv >= 0))
      bottom = z3.And(z3.Not(top), z3.Or(mu * Nv + Tv <= 0, z3.And(Tv <= 0, Nv < 0)))
      return {"top": top, "bottom": bottom, "middle": z3.And(z3.Not(top), z3.Not(bottom))}

    def phis(Nv, Tv):
      return {"top": 0, "bottom": K * (Nv * Nv + Tv * Tv) / 2, "middle": Dm * (Nv - mu * Tv) * (Nv - mu * Tv) / 2}

    zx, zy, px, py = zones(Nx, Tx), zones(Ny_, Ty), phis(Nx, Tx), phis(Ny_, Ty)
    Gx = {"top": 0, "bottom": K * (Nx * (Ny_ - Nx) + (P - Tx * Tx)), "middle": Dm * (Nx - mu * Tx) * ((Ny_ - Nx) - mu * cq)}
    base = [mu > 0, K > 0, Dm * (1 + mu * mu) == K, Tx >= 0, Ty >= 0, P <= Tx * Ty, -P <= Tx * Ty, z3.Implies(Tx > 0, cq * Tx == P - Tx * Tx)]
    for za in ("top", "bottom", "middle"):
      for zb in ("top", "bottom", "middle"):
        s = ctx.session(base + [zx[za], zy[zb]], tactic=NL)
        ctx.reach(s, f"twin:convex/{za}->{zb}", True)
        ctx.prove(s, f"convex/{za}->{zb}:phi(y)>=phi(x)+G", py[zb] >= px[za] + Gx[za], True, names={"Nx": Nx, "Tx": Tx, "Ny": Ny_, "Ty": Ty, "P": P, "mu": mu}, replay=nr, desc=f"MuJoCo's elliptic cone cost violates the sub-gradient inequality from the {za} zone to the {zb} zone")
    cauchy_schwarz(ctx, dim - 1)
    ctx.notes.append("chain: code == reference per zone; reference cost = phi(N,T), -force.(y-x) = G(N_x,T_x,N_y,P); phi(y) >= phi(x) + G for |P| <= T_x*T_y (Cauchy-Schwarz) => cost(y) >= cost(x) - force(x).(y-x)")
    if dim == 3:
      # direct end-to-end query on the real code for the zone pairs the solver can do without the reduction
      F = c24.eval_elliptic(dim, tag="y")
      both = ctx.session(E["bg"] + F["bg"] + [D[j] * mu * mu == D[0] * fr[j - 1] * fr[j - 1] for j in range(1, dim)])
      linc = z3.Sum([E["f"][j] * (F["jar"][j] - jar[j]) for j in range(dim)])
      rps = elliptic_replay(ctx, "subgrad", E, dim, F=F, mode="subgrad")
      for za, zb in (("top", "top"), ("top", "bottom"), ("top", "middle")):
        ctx.prove(both, f"direct/{za}->{zb}:cost(y)>=cost(x)-force(x).(y-x)", z3.Sum(F["cost"]) >= cost - linc, And(E[za], F[zb]), names=names, replay=rps, desc=f"elliptic condim 3: sub-gradient inequality fails on the real code ({za} -> {zb})")

  return (f"cert/elliptic/condim{dim}", run)


def ref_zone_force(zn, j, jar, D, mu, fr, T, Dm, c, U):
  """MuJoCo's force of row j in a given zone (the expressions cert/elliptic proves equal to the code's)"""
  if zn == "top":
    return z3.RealVal(0)
  if zn == "bottom":
    return -D[j] * jar[j]
  f0m = -Dm * (jar[0] * mu - mu * T) * mu
  return f0m if j == 0 else c * U[j - 1] * fr[j - 1]


# ------------------------------------------------------------------------------------------------ Jaref = J qacc - aref


def goal_jaref_total(spec, pre, post):
  """single-thread replay: this thread's contribution to Jaref[w, e]"""
  w, e = spec["tid"][:2]
  ds = spec["tid"][2] if len(spec["tid"]) > 2 else 0
  env = spec["env"]
  nv, dpt, sparse, compact = int(env["nv"]), int(env["dpt"]), bool(env["sparse"]), bool(env["compact"])
  got = float(post["ctx_Jaref_out"][w, e]) - (float(pre["ctx_Jaref_out"][w, e]) if env.get("atomic") else 0.0)
  aref = float(pre["efc_aref_in"][w, e]) if (sparse or ds == 0) else 0.0
  if sparse:
    adr, nnz = int(pre["efc_J_rowadr_in"][w, e]), int(pre["efc_J_rownnz_in"][w, e])
    want = -aref
    for i in range(nnz):
      col = int(pre["efc_J_colind_in"][w, 0, adr + i])
      if compact:
        col = int(pre["dof_cdof_in"][w, col])
        if col < 0:
          continue
      want += float(pre["efc_J_in"][w, 0, adr + i]) * float(pre["qacc_in"][w, col])
  else:
    lo, hi = (0, nv) if dpt >= nv else (ds * dpt, min(nv, ds * dpt + dpt))
    want = sum(float(pre["efc_J_in"][w, e, i]) * float(pre["qacc_in"][w, i]) for i in range(lo, hi)) - (aref if ds == 0 else 0.0)
  return lib.approx(got, want), f"Jaref[{w},{e}] contribution of thread {spec['tid']} = {got}; expected {want}"


def dense_shapes(kt, nv):
  """dense layout: efc_J (nworld, njmax, >= nv), qacc (nworld, >= nv), aref / Jaref (nworld, njmax), nefc (nworld)"""
  A = kt.args
  w, e = kt.tid[0], kt.tid[1]
  nworld, njmax = A["efc_J_in"].cell.shape[0], A["efc_J_in"].cell.shape[1]
  out = [w >= 0, cmp("<", w, nworld), e >= 0, cmp("<", e, njmax), cmp(">=", A["efc_J_in"].cell.shape[2], nv), cmp(">=", A["qacc_in"].cell.shape[1], nv)]
  for lab in ("nefc_in", "qacc_in", "efc_aref_in", "ctx_Jaref_out"):
    out.append(cmp("==", A[lab].cell.shape[0], nworld))
  for lab in ("efc_aref_in", "ctx_Jaref_out"):
    out.append(cmp("==", A[lab].cell.shape[1], njmax))
  return out


def unit_jaref(name, is_sparse, nv, dpt, compact, U):
  def run(ctx):
    from mujoco_warp._src import solver

    k = solver._solve_init_jaref_kernel(is_sparse, nv, dpt, compact)
    loc = f"mujoco_warp._src.solver:_solve_init_jaref_kernel({is_sparse}, {nv}, {dpt}, {compact})"
    ctx.encode(k)
    ctx.bound(is_sparse=is_sparse, nv=nv, dofs_per_thread=dpt, compact=compact, rownnz_max=U if is_sparse else "-")
    ctx.assume("row live: efcid < nefc; thread's own accesses in bounds (C17); rownnz >= 0")
    split = (not is_sparse) and dpt < nv
    env = {"nv": nv, "dpt": dpt, "sparse": is_sparse, "compact": compact, "atomic": split, "randomize_floats": 2}
    if not split:
      kt = lib.kernel_thread(k, unroll=U, cap=max(U, nv) + 2, alias_inout=False, tid=(z3.Int("w"), z3.Int("e"), 0), assume_bounds=not is_sparse)
      w, e, _ = kt.tid
      live = e < kt.pre("nefc_in", w)
      if is_sparse:
        ctx.assume("sparse layout invariants instead of assuming in-bounds accesses: per-world arrays have nworld rows, 0 <= rowadr, rownnz, rowadr+rownnz <= capacity, column indices in [0, nv)" + (", dof_cdof entries in [-1, ncdof)" if compact else ""))
        sess = ctx.session(kt.bg + L.sparse_layout_pre(kt, U, compact, "qacc_in") + [cmp("<=", kt.pre("efc_J_rownnz_in", w, e), U)])
      else:
        sess = ctx.session(kt.bg + dense_shapes(kt, nv))
      ctx.reach(sess, "twin:live-row", live)
      names = {"w": w, "e": e}
      rp = lib.make_replay(ctx, kt, loc, "jaref", "goal", goal="checks.c06:goal_jaref_total", env=env)
      aref = kt.pre("efc_aref_in", w, e)
      out = kt.post("ctx_Jaref_out", w, e)
      if is_sparse:
        nnz, adr = kt.pre("efc_J_rownnz_in", w, e), kt.pre("efc_J_rowadr_in", w, e)
        for n in range(U + 1):
          want = 0.0
          for i in range(n):
            col = kt.pre("efc_J_colind_in", w, 0, adr + i)
            term = arith("*", kt.pre("efc_J_in", w, 0, adr + i), kt.pre("qacc_in", w, col))
            if compact:
              cc = kt.pre("dof_cdof_in", w, col)
              term = ite(cc >= 0, arith("*", kt.pre("efc_J_in", w, 0, adr + i), kt.pre("qacc_in", w, cc)), 0.0)
            want = arith("+", want, term)
          ctx.prove(sess, f"Jaref==J.qacc-aref/rownnz={n}", And(kt.written("ctx_Jaref_out", w, e), cmp("==", out, arith("-", want, aref))), And(live, nnz == n), names=names, replay=rp, desc=f"sparse Jaref differs from J.qacc - aref ({n} non-zeros)")
        L.prove_inrange(ctx, sess, kt, names, rp, guard=live, what="sparse Jaref kernel")
      else:
        want = 0.0
        for i in range(nv):
          want = arith("+", want, arith("*", kt.pre("efc_J_in", w, e, i), kt.pre("qacc_in", w, i)))
        ctx.prove(sess, "Jaref==J.qacc-aref", And(kt.written("ctx_Jaref_out", w, e), cmp("==", out, arith("-", want, aref))), live, names=names, replay=rp, desc="dense Jaref differs from J.qacc - aref")
      ctx.prove(sess, "dead-row-untouched", Not(kt.written("ctx_Jaref_out", w, e)), Not(live), names=names, replay=lib.make_replay(ctx, kt, loc, "dead", "goal", goal="checks.c24:goal_unchanged_except", env={"label": "ctx_Jaref_out", "own": None}), desc="Jaref written for a row beyond nefc")
      o1, o2 = z3.Int("o1"), z3.Int("o2")
      ctx.prove(sess, "writes-only-own-row", Not(kt.written("ctx_Jaref_out", o1, o2)), Or(o1 != w, o2 != e), names=names, replay=lib.make_replay(ctx, kt, loc, "frame", "goal", goal="checks.c24:goal_unchanged_except", env={"label": "ctx_Jaref_out", "own": [w, e]}), desc="Jaref kernel writes another row")
      return
    # dense, split over ceil(nv / dpt) threads with atomic adds (host zeroes Jaref first): per-thread contribution + their sum
    nthreads = -(-nv // dpt)
    total = 0.0
    for ds in range(nthreads):
      kt = lib.kernel_thread(k, unroll=U, cap=nv + 2, alias_inout=False, tid=(z3.Int("w"), z3.Int("e"), ds))
      w, e, _ = kt.tid
      live = e < kt.pre("nefc_in", w)
      sess = ctx.session(kt.bg + dense_shapes(kt, nv))
      ctx.reach(sess, f"twin:live-row/dofstart={ds}", live)
      want = 0.0
      for i in range(ds * dpt, min(nv, ds * dpt + dpt)):
        want = arith("+", want, arith("*", kt.pre("efc_J_in", w, e, i), kt.pre("qacc_in", w, i)))
      if ds == 0:
        want = arith("-", want, kt.pre("efc_aref_in", w, e))
      rp = lib.make_replay(ctx, kt, loc, f"part{ds}", "goal", goal="checks.c06:goal_jaref_total", env=env)
      ctx.prove(sess, f"dofstart={ds}/adds-its-slice-of-J.qacc(-aref)", cmp("==", kt.atomic_total("ctx_Jaref_out", w, e), want), live, names={"w": w, "e": e}, replay=rp, desc=f"dense split Jaref: thread {ds} adds a wrong partial sum")
      ctx.prove(sess, f"dofstart={ds}/dead-row-adds-nothing", cmp("==", kt.atomic_total("ctx_Jaref_out", w, e), 0.0), Not(live), names={"w": w, "e": e}, replay=rp, desc="dense split Jaref: a row beyond nefc contributes")
      o1, o2 = z3.Int("o1"), z3.Int("o2")
      ctx.prove(sess, f"dofstart={ds}/adds-only-to-own-row", cmp("==", kt.atomic_total("ctx_Jaref_out", o1, o2), 0.0), Or(o1 != w, o2 != e), names={"w": w, "e": e}, replay=rp, desc="dense split Jaref: adds to another row")
      if [a for a in kt.it.accesses if a.cell is kt.cell("ctx_Jaref_out") and a.kind.startswith("W")]:
        ctx.error("dense split Jaref kernel has a non-atomic store")
    ctx.notes.append(f"dense split: the {nthreads} slices [ds*{dpt}, ds*{dpt}+{dpt}) ∩ [0,{nv}) partition the dofs, thread 0 subtracts aref once; init_context zeroes Jaref when threads_per_efc > 1 (host code, read: ctx.Jaref.zero_())")

  return (f"jaref/{name}", run)


# ------------------------------------------------------------------------------------------------ gradient


def goal_grad(spec, pre, post):
  w, dof = spec["tid"][:2]
  want = float(pre["efc_Ma_in"][w, dof]) - float(pre["qfrc_smooth_in"][w, dof]) - float(pre["qfrc_constraint_in"][w, dof])
  got = float(post["ctx_grad_out"][w, dof])
  gd = float(post["ctx_grad_dot_out"][w]) - float(pre["ctx_grad_dot_out"][w])
  ok = lib.approx(got, want) and lib.approx(gd, want * want)
  return ok, f"grad[{w},{dof}] = {got} (Ma - qfrc_smooth - qfrc_constraint = {want}); grad_dot increment {gd} (grad^2 = {want * want})"


def unit_grad(stable_fast):
  def run(ctx):
    from mujoco_warp._src import solver

    k = solver._update_gradient_grad(stable_fast)
    loc = f"mujoco_warp._src.solver:_update_gradient_grad({stable_fast})"
    ctx.encode(k)
    ctx.bound(stable_fast=stable_fast)
    ctx.assume("world not done" + (" and state_changed_count != 0 (fast path keeps the stale gradient by design)" if stable_fast else ""), "efc_Ma = M.qacc is computed by support.mul_m (outside this check)")
    kt = lib.kernel_thread(k, cap=6)
    w, d = kt.tid
    live = And(Not(kt.pre("ctx_done_in", w)), (kt.pre("state_changed_count_in", w) != 0) if stable_fast else True)
    sess = ctx.session(kt.bg)
    ctx.reach(sess, "twin:live", live)
    want = kt.pre("efc_Ma_in", w, d) - kt.pre("qfrc_smooth_in", w, d) - kt.pre("qfrc_constraint_in", w, d)
    rp = lib.make_replay(ctx, kt, loc, "grad", "goal", goal="checks.c06:goal_grad", env={"randomize_floats": 2})
    names = {"w": w, "dof": d}
    ctx.prove(sess, "grad==Ma-qfrc_smooth-qfrc_constraint", And(kt.written("ctx_grad_out", w, d), cmp("==", kt.post("ctx_grad_out", w, d), want)), live, names=names, replay=rp, desc="_update_gradient_grad: gradient differs from M.qacc - qfrc_smooth - qfrc_constraint")
    ctx.prove(sess, "grad_dot+=grad^2", cmp("==", kt.atomic_total("ctx_grad_dot_out", w), want * want), live, names=names, replay=rp, desc="_update_gradient_grad: grad_dot does not accumulate grad^2")
    frp = lib.make_replay(ctx, kt, loc, "frame", "goal", goal="checks.c24:goal_unchanged_except", env={"label": "ctx_grad_out", "own": None})
    ctx.prove(sess, "done=>untouched", And(Not(kt.written("ctx_grad_out", w, d)), cmp("==", kt.atomic_total("ctx_grad_dot_out", w), 0.0)), kt.pre("ctx_done_in", w), names=names, replay=frp, desc="_update_gradient_grad modifies a converged world")

  return (f"grad/{'stable_fast' if stable_fast else 'plain'}", run)


def main(tier, seed, only=None):
  thorough = tier == "thorough"
  units = [unit_cert_scalar(kd) for kd in ("equality", "friction", "ineq")]
  units += [unit_gather_scalar(False), unit_gather_scalar(True), c24.unit_gather(3, False, "A"), c24.unit_gather(4, True, "C")]
  units += [unit_cert_elliptic(d) for d in ((3, 4, 6) if thorough else (3, 4))]
  U = 6 if thorough else 4
  units += [unit_jaref("dense-single", False, 3, 50, False, U), unit_jaref("dense-split", False, 5, 2, False, U), unit_jaref("sparse", True, 4, 4, False, U), unit_jaref("compact", True, 4, 4, True, U)]
  if thorough:
    units += [unit_jaref("dense-split-60x20", False, 60, 20, False, U), unit_jaref("dense-single-30", False, 30, 50, False, U)]
  units += [unit_grad(False), unit_grad(True)]
  if only:
    units = [u for u in units if any(o in u[0] for o in only)]
  return report.run_check(PID, units, tier, seed)
