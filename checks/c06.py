"""C06 Constrained acceleration is the convex-cost optimum -- the certificate part (not the iteration).

What the solver decides, on the REAL code (floats = exact reals):

 cert/scalar/<kind>      _eval_constraint on equality / friction-loss / inequality (limit, frictionless, pyramid edge) rows:
                         (force, state, cost) == mj_constraintUpdate's, zone by zone, and the sub-gradient inequality
                         cost(y) >= cost(x) - force(x)*(y - x) for ALL x, y  (=> cost convex, force = -dcost/dJaref)
 gather/scalar/*         one generic thread of _update_constraint_efc hands _eval_constraint the row's own Jaref, D,
                         frictionloss and kind flags and stores its force / state   (elliptic rows: see C24 gather/elliptic,
                         one layout re-run here)
 cert/elliptic/condim<k> per zone (top / bottom / middle): _eval_constraint's forces, state and summed cost == MuJoCo's;
                         reduction of cost and force.(y-x) to the scalars (N, T, P = u_x.u_y); scalar convexity lemma for all
                         9 zone pairs; Cauchy-Schwarz |P| <= T_x*T_y  ==> sub-gradient inequality for the contact's cost
 jaref/*                 _solve_init_jaref_kernel: Jaref = J.qacc - aref (dense single-thread, dense split over several
                         threads with atomics, sparse, compact)
 grad/*                  _update_gradient_grad: grad = Ma - qfrc_smooth - qfrc_constraint and grad_dot += grad^2
 hessian/leaves          _active_check(tid, thr) = [tid < thr], _state_check(D, state) = D if QUADRATIC else 0
 hessian/dense-tiled*/   ONE BLOCK of the real tile kernels _update_gradient_JTDAJ_dense_tiled / _compact (wsym/tiles.BlockInterp:
   <nv_pad>x<tile>x<njmax> collective tile ops, block_dim() = 1 lane as on the CPU backend): for every nefc in 0..njmax and every entry,
                         ctx.h = densified M + sum over rows e < nefc with state QUADRATIC of D_e J_e^T J_e, and ctx.h is
                         independent of every cell (D, state, J) of the rows >= nefc incl. padding rows (relational query);
                         a converged world is not written
 hessian/cone-dense/*    _update_gradient_JTCJ_dense: for a CONE contact the increment of ctx.h[d1,d2] = (J^T C J)[d1,d2] with C =
                         MuJoCo's cone Hessian contact.H (validated against mujoco): argument gathering, the contraction
                         formula of _elliptic_hessian_entry_from_projections, and the polynomial identity with contact.H
 (qfrc_constraint = J^T force and the _qfrc_constraint_from_grad inversion are decided in C24 qfrc/*.)

Together: at the qacc the solver reports, Jaref is the residual of that qacc, the stored forces are the negative gradient of
MuJoCo's convex constraint cost at that residual, and the gradient whose norm is tested against the tolerance is the
gradient of MuJoCo's total cost, and the dense Newton Hessian is M + J^T D J (+ J^T C J for elliptic cones) over exactly the
live rows.  Outside (iterative float algorithm / not built): that Newton / CG / line search reach the tolerance, the Cholesky
factorisation and solve, the sparse and the incremental Hessian kernels (_JTDACJ_sparse, _update_gradient_init_h_sparse,
_update_gradient_h_incremental*), the CG tile kernels and _update_gradient_grad_tiled, Ma = M.qacc, lane schedules of GPU blocks.
"""

import numpy as np
import z3

from checks import c24, lib
from checks import solverlib_c24 as L
from wsym import core, kh, replay, report
from wsym.core import And, Implies, Not, Or, arith, cmp, ite

PID = "C06"
NL = "qfnra-nlsat"


def _validate(ctx):
  err = L.validate_reference(ctx.seed)
  if err:
    ctx.error("reference model validation against mujoco.mj_constraintUpdate failed: " + err)
  return err is None


# ------------------------------------------------------------------------------------------------ scalar rows


def scalar_replay(ctx, name, kind, xs, D, fl, mode):
  """evaluate the REAL _eval_constraint at the model's points.  mode 'ref': compare with the MuJoCo reference at xs[0];
  mode 'subgrad': check cost(y) >= cost(x) - force(x)*(y-x) on the real outputs"""

  def _rp(model):
    mv = lambda v: L.mvalf(model, v)
    Dv, flv = mv(D), mv(fl)
    pts = [mv(x) for x in xs]
    res = L.real_eval([[kind == "equality", kind == "friction", False, p, Dv, (flv if kind == "friction" else 0.0), 0, -1, 0.0, 0.0, 0.0, 0.0, 0.0] for p in pts])
    if mode == "ref":
      f, st, c = L.ref_scalar_row(kind, pts[0], Dv, flv, flv / Dv)
      ok = lib.approx(res[0][0], float(f)) and res[0][1] == int(st) and lib.approx(res[0][2], float(c))
      text = f"{kind} row jaref {pts[0]} D {Dv} frictionloss {flv}: mujoco_warp (force, state, cost) = {res[0]}; mj_constraintUpdate = ({float(f)}, {int(st)}, {float(c)})"
    else:
      lhs, rhs = res[1][2], res[0][2] - res[0][0] * (pts[1] - pts[0])
      ok = lhs >= rhs - 1e-4 * max(1.0, abs(lhs), abs(rhs))
      text = f"{kind} row D {Dv} frictionloss {flv}: x = {pts[0]} -> (force, state, cost) {res[0]}; y = {pts[1]} -> {res[1]}; cost(y) = {lhs} < cost(x) - force(x)*(y-x) = {rhs}"
    return (not ok), L.write_replay(PID, ctx.unit, name, {"function": "solver._eval_constraint", "result": text})

  return _rp


def unit_cert_scalar(kind):
  def run(ctx):
    from mujoco_warp._src import solver

    if not _validate(ctx):
      return
    ctx.encode(solver._eval_constraint)
    ctx.bound(kind=kind, note="x, y, D, frictionloss symbolic reals; safe_div as polynomial contract")
    ctx.assume("efc_D > 0, frictionloss >= 0 (C05); arguments as passed by _update_constraint_efc (gather/scalar)", "floats are exact reals")
    x, y, D, fl, rf = z3.Reals("x y D frictionloss rf")
    it = L.func_interp()
    fx, sx, cx = L.eval_scalar(kind, it, x, D, fl)
    fy, sy, cy = L.eval_scalar(kind, it, y, D, fl)
    bg = [D > 0, fl >= 0, rf * D == fl] + [core.zbool(a) for a in it.assumes]
    sess = ctx.session(bg)
    ctx.reach(sess, "twin:reachable", x < y)
    rfx, rsx, rcx = L.ref_scalar_row(kind, x, D, fl, rf)
    names = {"x": x, "y": y, "D": D, "frictionloss": fl}
    rpr = scalar_replay(ctx, "ref", kind, [x], D, fl, "ref")
    zones = {"equality": [("quadratic", True)], "ineq": [("satisfied", x >= 0), ("quadratic", x < 0)], "friction": [("linearneg", x <= -rf), ("linearpos", x >= rf), ("quadratic", And(x > -rf, x < rf))]}[kind]
    for zn, zc in zones:
      ctx.reach(sess, f"twin:zone-{zn}", zc)
      ctx.prove(sess, f"{zn}/force==mj_constraintUpdate", cmp("==", fx, rfx), zc, names=names, replay=rpr, desc=f"{kind} row, {zn} zone: force differs from mj_constraintUpdate")
      ctx.prove(sess, f"{zn}/state==mj_constraintUpdate", cmp("==", sx, arith("*", rsx, 1.0)), zc, names=names, replay=rpr, desc=f"{kind} row, {zn} zone: state differs from mj_constraintUpdate")
      ctx.prove(sess, f"{zn}/cost==mj_constraintUpdate", cmp("==", cx, rcx), zc, names=names, replay=rpr, desc=f"{kind} row, {zn} zone: cost differs from MuJoCo's s(jar)")
    rps = scalar_replay(ctx, "subgrad", kind, [x, y], D, fl, "subgrad")
    ctx.prove(sess, "subgradient:cost(y)>=cost(x)-force(x)*(y-x)", cy >= cx - fx * (y - x), True, names=names, replay=rps, desc=f"{kind} row: force is not minus a sub-gradient of the cost (cost not convex or force != -dcost/dJaref)")

  return (f"cert/scalar/{kind}", run)


def goal_scalar_row(spec, pre, post):
  return c24.goal_scalar_row(spec, pre, post)


def unit_gather_scalar(track):
  def run(ctx):
    from mujoco_warp._src import solver

    core.DIVMODE[0] = "poly"
    loc = f"mujoco_warp._src.solver:_update_constraint_efc({track})"
    w, e = z3.Int("w"), z3.Int("e")
    k, args, R = L.make_rows(track, lambda a: [(w, e)])
    ctx.encode(k, solver._eval_constraint)
    ctx.bound(track_changes=track, shape_cap=8, note="generic world / row; counters, type, all floats symbolic")
    ctx.assume("row live (world not done, 0 <= efcid < nefc <= njmax), ne, nf >= 0, row not typed CONTACT_ELLIPTIC (MuJoCo row order: equality | friction | limit | contact)")
    A = args
    ne, nf, nefc = R.pre("ne_in", w), R.pre("nf_in", w), R.pre("nefc_in", w)
    typ = R.pre("efc_type_in", w, e)
    bg = R.bg + L.shape_bg(args) + [w >= 0, cmp("<", w, A["efc_force_out"].cell.shape[0]), e >= 0, e < nefc, cmp("<=", nefc, A["efc_force_out"].cell.shape[1]), ne >= 0, nf >= 0, Not(R.pre("ctx_done_in", w)), typ != L.T_ELLIPTIC]
    for lab in ("ne_in", "nf_in", "nefc_in", "ctx_done_in", "ctx_ls_exhausted_in", "efc_type_in", "efc_D_in", "efc_frictionloss_in", "ctx_Jaref_in", "efc_state_out"):
      bg.append(cmp("==", A[lab].cell.shape[0], A["efc_force_out"].cell.shape[0]))
    for lab in ("efc_type_in", "efc_D_in", "efc_frictionloss_in", "ctx_Jaref_in", "efc_state_out"):
      bg.append(cmp("==", A[lab].cell.shape[1], A["efc_force_out"].cell.shape[1]))
    sess = ctx.session(bg)
    ctx.reach(sess, "twin:live-row", And(e >= ne, e < ne + nf))
    if R.res[0] is None:
      ctx.error("expected exactly one _eval_constraint call")
      return
    g, r, a = R.res[0]
    names = {"w": w, "e": e, "ne": ne, "nf": nf, "nefc": nefc, "type": typ}

    class KT:  # adapter for lib.make_replay
      kernel, tid = k, (w, e)

    KT.args = args
    rp = lambda nm: lib.make_replay(ctx, KT, loc, nm, "goal", goal="checks.c06:goal_scalar_row", env={"randomize_floats": 0})
    iseq, isfr = e < ne, And(e >= ne, e < ne + nf)
    want = [("is_equality", iseq), ("is_friction", isfr), ("is_elliptic", False), ("jaref", R.pre("ctx_Jaref_in", w, e)), ("D", R.pre("efc_D_in", w, e)), ("frictionloss", ite(isfr, R.pre("efc_frictionloss_in", w, e), 0.0))]
    ctx.prove(sess, "reaches-eval", g, True, names=names, replay=rp("reach"), desc="a live non-elliptic row returns before evaluating its force")
    for (lab, y), x in zip(want, a):
      eq = (core.zbool(x) == core.zbool(y)) if lab.startswith("is_") else cmp("==", x, y)
      ctx.prove(sess, f"arg-{lab}", eq, g, names=names, replay=rp(lab), desc=f"_update_constraint_efc passes a wrong {lab} to _eval_constraint")
    ctx.prove(sess, "stores-result", And(R.wrote[0], cmp("==", R.force[0], r.c[0]), cmp("==", z3.ToReal(R.state[0]), r.c[1])), True, names=names, replay=rp("store"), desc="stored force/state differ from _eval_constraint's result")

  return (f"gather/scalar/{'track' if track else 'plain'}", run)


# ------------------------------------------------------------------------------------------------ elliptic contacts


def elliptic_replay(ctx, name, E, dim, F=None, mode="ref"):
  def _rp(model):
    mv = lambda v: L.mvalf(model, v)
    D, fr, mu = [mv(v) for v in E["D"]], [mv(v) for v in E["fr"]], mv(E["mu"])
    x = [mv(v) for v in E["jar"]]
    rx = L.real_eval(L.elliptic_args(x, D, mu, fr))
    f, st, c, zs = L.ref_elliptic_numeric(x, D, mu, fr)
    zone = "top" if zs[0] else "bottom" if zs[1] else "middle"
    cost = sum(r[2] for r in rx)
    if mode == "ref":
      ok = all(lib.approx(rx[j][0], float(f[j])) for j in range(dim)) and all(r[1] == int(st) for r in rx) and lib.approx(cost, float(c))
      text = f"zone {zone}: mujoco_warp forces {[r[0] for r in rx]} states {[r[1] for r in rx]} cost {cost}; mj_constraintUpdate forces {[float(v) for v in f]} state {int(st)} cost {float(c)}"
    else:
      y = [mv(v) for v in F["jar"]]
      ry = L.real_eval(L.elliptic_args(y, D, mu, fr))
      lhs = sum(r[2] for r in ry)
      rhs = cost - sum(rx[j][0] * (y[j] - x[j]) for j in range(dim))
      ok = lhs >= rhs - 1e-4 * max(1.0, abs(lhs), abs(rhs))
      text = f"x = {x}: forces {[r[0] for r in rx]} cost {cost}; y = {y}: cost {lhs} < cost(x) - force(x).(y-x) = {rhs}"
    return (not ok), L.write_replay(PID, ctx.unit, name, {"function": "solver._eval_constraint per row of one elliptic contact", "efc_D": D, "friction": fr, "mu": mu, "jaref": x, "result": text})

  return _rp


def cauchy_schwarz(ctx, n):
  """|sum a_i b_i| <= |a| |b| for n components: directly for n <= 3, by the solver-proved induction step for larger n"""
  nr = lambda m: (False, "pure algebraic lemma (no code involved)")
  if n <= 3:
    a = [z3.Real(f"a{i}") for i in range(n)]
    b = [z3.Real(f"b{i}") for i in range(n)]
    Ta, Tb = z3.Reals("Ta Tb")
    s = ctx.session([Ta >= 0, Tb >= 0, Ta * Ta == z3.Sum([v * v for v in a]), Tb * Tb == z3.Sum([v * v for v in b])], tactic=NL)
    ctx.reach(s, "twin:cauchy-schwarz", Ta > 0)
    P = z3.Sum([u * v for u, v in zip(a, b)])
    ctx.prove(s, f"lemma/cauchy-schwarz(n={n})", And(P <= Ta * Tb, -P <= Ta * Tb), True, names={"Ta": Ta}, replay=nr, desc="Cauchy-Schwarz fails")
    return
  # induction step: P' <= Ta'*Tb' (and -P' <= ..), Ta^2 = Ta'^2 + a^2, Tb^2 = Tb'^2 + b^2  =>  |P' + a*b| <= Ta*Tb
  Pp, Tap, Tbp, a, b, Ta, Tb = z3.Reals("Pp Tap Tbp a b Ta Tb")
  s = ctx.session([Tap >= 0, Tbp >= 0, Ta >= 0, Tb >= 0, Pp <= Tap * Tbp, -Pp <= Tap * Tbp, Ta * Ta == Tap * Tap + a * a, Tb * Tb == Tbp * Tbp + b * b], tactic=NL)
  ctx.reach(s, "twin:cauchy-schwarz-step", Tap > 0)
  ctx.prove(s, "lemma/cauchy-schwarz-step", And(Pp + a * b <= Ta * Tb, -(Pp + a * b) <= Ta * Tb), True, names={"Ta": Ta}, replay=nr, desc="Cauchy-Schwarz induction step fails")
  s0 = ctx.session([Ta >= 0, Tb >= 0, Ta * Ta == a * a, Tb * Tb == b * b], tactic=NL)
  ctx.reach(s0, "twin:cauchy-schwarz-base", Ta > 0)
  ctx.prove(s0, "lemma/cauchy-schwarz-base", And(a * b <= Ta * Tb, -(a * b) <= Ta * Tb), True, names={"Ta": Ta}, replay=nr, desc="Cauchy-Schwarz base case fails")
  ctx.notes.append(f"Cauchy-Schwarz for n = {n} tangential rows follows from the base case and {n - 1} instances of the step lemma (partial sums / partial norms)")


def unit_cert_elliptic(dim):
  def run(ctx):
    from mujoco_warp._src import solver

    if not _validate(ctx):
      return
    ctx.encode(solver._eval_constraint, solver._eval_elliptic_middle)
    ctx.bound(condim=dim, note="residual vectors x, y, D, mu, friction symbolic reals")
    ctx.assume(
      "mu > 0, efc_D > 0, friction > 0 (C05/C04); arguments as passed by _update_constraint_efc (C24 gather/elliptic)",
      "friction-row regularisation D_j * mu^2 = D_0 * friction_j^2 (MuJoCo's mj_makeImpedance scaling; without it MuJoCo's own elliptic cost is not convex) -- used by the reduction and convexity queries, not by the code == reference queries",
      "floats are exact reals; sqrt(TT) = the T >= 0 with T*T = TT",
    )
    E = c24.eval_elliptic(dim, tag="x")
    jar, D, fr, mu, T, U, N = E["jar"], E["D"], E["fr"], E["mu"], E["T"], E["U"], E["N"]
    Dm, c = z3.Real("Dm"), z3.Real("c")
    f0m = -Dm * (N - mu * T) * mu
    ref_f, ref_st, ref_c, _ = L.ref_elliptic(jar, D, mu, fr, T, Dm, c)
    helpers = [Dm * mu * mu * (1 + mu * mu) == D[0], z3.Implies(T > 0, c * T == -f0m)]
    sess = ctx.session(E["bg"] + helpers)
    names = {f"jaref{j}": jar[j] for j in range(dim)} | {f"D{j}": D[j] for j in range(dim)} | {f"friction{j}": fr[j] for j in range(dim - 1)} | {"mu": mu}
    rp = elliptic_replay(ctx, "ref", E, dim)
    cost = z3.Sum(E["cost"])
    for zn in ("top", "bottom", "middle"):
      z = E[zn]
      ctx.reach(sess, f"twin:{zn}-zone", z)
      for j in range(dim):
        ctx.prove(sess, f"{zn}/force{j}==mj_constraintUpdate", cmp("==", E["f"][j], ref_f[j]), z, names=names, replay=rp, desc=f"elliptic condim {dim}, {zn} zone: force of row {j} differs from mj_constraintUpdate")
        ctx.prove(sess, f"{zn}/state{j}==mj_constraintUpdate", cmp("==", E["st"][j], arith("*", ref_st, 1.0)), z, names=names, replay=rp, desc=f"elliptic condim {dim}, {zn} zone: state of row {j} differs from mj_constraintUpdate")
      ctx.prove(sess, f"{zn}/cost==mj_constraintUpdate", cmp("==", cost, ref_c), z, names=names, replay=rp, desc=f"elliptic condim {dim}, {zn} zone: summed row cost differs from MuJoCo's s(jar)")
    # ---- reduction to scalars (pure algebra on the reference expressions, under the D scaling)
    nr = lambda m: (False, "pure algebraic lemma (no code involved)")
    y = [z3.Real(f"jar{j}y") for j in range(dim)]
    Ny, Uy, TTy = L.elliptic_terms(y, mu, fr)
    K, P, cq = z3.Reals("K P cq")
    scal = [D[j] * mu * mu == D[0] * fr[j - 1] * fr[j - 1] for j in range(1, dim)] + [K * mu * mu == D[0], P == z3.Sum([u * v for u, v in zip(U, Uy)]), z3.Implies(T > 0, cq * T == P - T * T)]
    red = ctx.session([mu > 0, T >= 0, T * T == E["TT"], E["TT"] == L.elliptic_terms(jar, mu, fr)[2]] + [d > 0 for d in D] + [v > 0 for v in fr] + helpers + scal, tactic=NL)
    ctx.reach(red, "twin:reduction-premises", T > 0)
    lin = {zn: z3.Sum([ref_zone_force(zn, j, jar, D, mu, fr, T, Dm, c, U) * (y[j] - jar[j]) for j in range(dim)]) for zn in ("top", "bottom", "middle")}
    G = {"top": 0, "bottom": K * (N * (Ny - N) + (P - T * T)), "middle": Dm * (N - mu * T) * ((Ny - N) - mu * cq)}
    phi = {"top": 0, "bottom": K * (N * N + T * T) / 2, "middle": Dm * (N - mu * T) * (N - mu * T) / 2}
    refc = {"top": 0, "bottom": z3.Sum([D[j] * jar[j] * jar[j] / 2 for j in range(dim)]), "middle": Dm * (N - mu * T) * (N - mu * T) / 2}
    for zn in ("bottom", "middle"):
      ctx.prove(red, f"reduce/{zn}:-force.(y-x)==G(N,T,P)", -lin[zn] == G[zn], (T > 0) if zn == "middle" else True, names={"T": T}, replay=nr, desc=f"reduction of the {zn}-zone linear term fails")
      ctx.prove(red, f"reduce/{zn}:cost==phi(N,T)", refc[zn] == phi[zn], True, names={"T": T}, replay=nr, desc=f"reduction of the {zn}-zone cost fails")
    # ---- scalar convexity lemma: phi(N_y, T_y) >= phi(N_x, T_x) + G for every zone pair, |P| <= T_x T_y
    Nx, Tx, Ny_, Ty = z3.Reals("Nx Tx Ny Ty")

    def zones(Nv, Tv):
      top = z3.Or(Nv >= mu * Tv, z3.And(Tv <= 0, Nv >= 0))
      bottom = z3.And(z3.Not(top), z3.Or(mu * Nv + Tv <= 0, z3.And(Tv <= 0, Nv < 0)))
      return {"top": top, "bottom": bottom, "middle": z3.And(z3.Not(top), z3.Not(bottom))}

    def phis(Nv, Tv):
      return {"top": 0, "bottom": K * (Nv * Nv + Tv * Tv) / 2, "middle": Dm * (Nv - mu * Tv) * (Nv - mu * Tv) / 2}

    zx, zy, px, py = zones(Nx, Tx), zones(Ny_, Ty), phis(Nx, Tx), phis(Ny_, Ty)
    Gx = {"top": 0, "bottom": K * (Nx * (Ny_ - Nx) + (P - Tx * Tx)), "middle": Dm * (Nx - mu * Tx) * ((Ny_ - Nx) - mu * cq)}
    base = [mu > 0, K > 0, Dm * (1 + mu * mu) == K, Tx >= 0, Ty >= 0, P <= Tx * Ty, -P <= Tx * Ty, z3.Implies(Tx > 0, cq * Tx == P - Tx * Tx)]
    for za in ("top", "bottom", "middle"):
      for zb in ("top", "bottom", "middle"):
        s = ctx.session(base + [zx[za], zy[zb]], tactic=NL)
        ctx.reach(s, f"twin:convex/{za}->{zb}", True)
        ctx.prove(s, f"convex/{za}->{zb}:phi(y)>=phi(x)+G", py[zb] >= px[za] + Gx[za], True, names={"Nx": Nx, "Tx": Tx, "Ny": Ny_, "Ty": Ty, "P": P, "mu": mu}, replay=nr, desc=f"MuJoCo's elliptic cone cost violates the sub-gradient inequality from the {za} zone to the {zb} zone")
    cauchy_schwarz(ctx, dim - 1)
    ctx.notes.append("chain: code == reference per zone; reference cost = phi(N,T), -force.(y-x) = G(N_x,T_x,N_y,P); phi(y) >= phi(x) + G for |P| <= T_x*T_y (Cauchy-Schwarz) => cost(y) >= cost(x) - force(x).(y-x)")
    if dim == 3:
      # direct end-to-end query on the real code for the zone pairs the solver can do without the reduction
      F = c24.eval_elliptic(dim, tag="y")
      both = ctx.session(E["bg"] + F["bg"] + [D[j] * mu * mu == D[0] * fr[j - 1] * fr[j - 1] for j in range(1, dim)])
      linc = z3.Sum([E["f"][j] * (F["jar"][j] - jar[j]) for j in range(dim)])
      rps = elliptic_replay(ctx, "subgrad", E, dim, F=F, mode="subgrad")
      for za, zb in (("top", "top"), ("top", "bottom"), ("top", "middle")):
        ctx.prove(both, f"direct/{za}->{zb}:cost(y)>=cost(x)-force(x).(y-x)", z3.Sum(F["cost"]) >= cost - linc, And(E[za], F[zb]), names=names, replay=rps, desc=f"elliptic condim 3: sub-gradient inequality fails on the real code ({za} -> {zb})")

  return (f"cert/elliptic/condim{dim}", run)


def ref_zone_force(zn, j, jar, D, mu, fr, T, Dm, c, U):
  """MuJoCo's force of row j in a given zone (the expressions cert/elliptic proves equal to the code's)"""
  if zn == "top":
    return z3.RealVal(0)
  if zn == "bottom":
    return -D[j] * jar[j]
  f0m = -Dm * (jar[0] * mu - mu * T) * mu
  return f0m if j == 0 else c * U[j - 1] * fr[j - 1]


# ------------------------------------------------------------------------------------------------ Jaref = J qacc - aref


def goal_jaref_total(spec, pre, post):
  """single-thread replay: this thread's contribution to Jaref[w, e]"""
  w, e = spec["tid"][:2]
  ds = spec["tid"][2] if len(spec["tid"]) > 2 else 0
  env = spec["env"]
  nv, dpt, sparse, compact = int(env["nv"]), int(env["dpt"]), bool(env["sparse"]), bool(env["compact"])
  got = float(post["ctx_Jaref_out"][w, e]) - (float(pre["ctx_Jaref_out"][w, e]) if env.get("atomic") else 0.0)
  aref = float(pre["efc_aref_in"][w, e]) if (sparse or ds == 0) else 0.0
  if sparse:
    adr, nnz = int(pre["efc_J_rowadr_in"][w, e]), int(pre["efc_J_rownnz_in"][w, e])
    want = -aref
    for i in range(nnz):
      col = int(pre["efc_J_colind_in"][w, 0, adr + i])
      if compact:
        col = int(pre["dof_cdof_in"][w, col])
        if col < 0:
          continue
      want += float(pre["efc_J_in"][w, 0, adr + i]) * float(pre["qacc_in"][w, col])
  else:
    lo, hi = (0, nv) if dpt >= nv else (ds * dpt, min(nv, ds * dpt + dpt))
    want = sum(float(pre["efc_J_in"][w, e, i]) * float(pre["qacc_in"][w, i]) for i in range(lo, hi)) - (aref if ds == 0 else 0.0)
  return lib.approx(got, want), f"Jaref[{w},{e}] contribution of thread {spec['tid']} = {got}; expected {want}"


def dense_shapes(kt, nv):
  """dense layout: efc_J (nworld, njmax, >= nv), qacc (nworld, >= nv), aref / Jaref (nworld, njmax), nefc (nworld)"""
  A = kt.args
  w, e = kt.tid[0], kt.tid[1]
  nworld, njmax = A["efc_J_in"].cell.shape[0], A["efc_J_in"].cell.shape[1]
  out = [w >= 0, cmp("<", w, nworld), e >= 0, cmp("<", e, njmax), cmp(">=", A["efc_J_in"].cell.shape[2], nv), cmp(">=", A["qacc_in"].cell.shape[1], nv)]
  for lab in ("nefc_in", "qacc_in", "efc_aref_in", "ctx_Jaref_out"):
    out.append(cmp("==", A[lab].cell.shape[0], nworld))
  for lab in ("efc_aref_in", "ctx_Jaref_out"):
    out.append(cmp("==", A[lab].cell.shape[1], njmax))
  return out


def unit_jaref(name, is_sparse, nv, dpt, compact, U):
  def run(ctx):
    from mujoco_warp._src import solver

    k = solver._solve_init_jaref_kernel(is_sparse, nv, dpt, compact)
    loc = f"mujoco_warp._src.solver:_solve_init_jaref_kernel({is_sparse}, {nv}, {dpt}, {compact})"
    ctx.encode(k)
    ctx.bound(is_sparse=is_sparse, nv=nv, dofs_per_thread=dpt, compact=compact, rownnz_max=U if is_sparse else "-")
    ctx.assume("row live: efcid < nefc; thread's own accesses in bounds (C17); rownnz >= 0")
    split = (not is_sparse) and dpt < nv
    env = {"nv": nv, "dpt": dpt, "sparse": is_sparse, "compact": compact, "atomic": split, "randomize_floats": 2}
    if not split:
      kt = lib.kernel_thread(k, unroll=U, cap=max(U, nv) + 2, alias_inout=False, tid=(z3.Int("w"), z3.Int("e"), 0), assume_bounds=not is_sparse)
      w, e, _ = kt.tid
      live = e < kt.pre("nefc_in", w)
      if is_sparse:
        ctx.assume("sparse layout invariants instead of assuming in-bounds accesses: per-world arrays have nworld rows, 0 <= rowadr, rownnz, rowadr+rownnz <= capacity, column indices in [0, nv)" + (", dof_cdof entries in [-1, ncdof)" if compact else ""))
        sess = ctx.session(kt.bg + L.sparse_layout_pre(kt, U, compact, "qacc_in") + [cmp("<=", kt.pre("efc_J_rownnz_in", w, e), U)])
      else:
        sess = ctx.session(kt.bg + dense_shapes(kt, nv))
      ctx.reach(sess, "twin:live-row", live)
      names = {"w": w, "e": e}
      rp = lib.make_replay(ctx, kt, loc, "jaref", "goal", goal="checks.c06:goal_jaref_total", env=env)
      aref = kt.pre("efc_aref_in", w, e)
      out = kt.post("ctx_Jaref_out", w, e)
      if is_sparse:
        nnz, adr = kt.pre("efc_J_rownnz_in", w, e), kt.pre("efc_J_rowadr_in", w, e)
        for n in range(U + 1):
          want = 0.0
          for i in range(n):
            col = kt.pre("efc_J_colind_in", w, 0, adr + i)
            term = arith("*", kt.pre("efc_J_in", w, 0, adr + i), kt.pre("qacc_in", w, col))
            if compact:
              cc = kt.pre("dof_cdof_in", w, col)
              term = ite(cc >= 0, arith("*", kt.pre("efc_J_in", w, 0, adr + i), kt.pre("qacc_in", w, cc)), 0.0)
            want = arith("+", want, term)
          ctx.prove(sess, f"Jaref==J.qacc-aref/rownnz={n}", And(kt.written("ctx_Jaref_out", w, e), cmp("==", out, arith("-", want, aref))), And(live, nnz == n), names=names, replay=rp, desc=f"sparse Jaref differs from J.qacc - aref ({n} non-zeros)")
        L.prove_inrange(ctx, sess, kt, names, rp, guard=live, what="sparse Jaref kernel")
      else:
        want = 0.0
        for i in range(nv):
          want = arith("+", want, arith("*", kt.pre("efc_J_in", w, e, i), kt.pre("qacc_in", w, i)))
        ctx.prove(sess, "Jaref==J.qacc-aref", And(kt.written("ctx_Jaref_out", w, e), cmp("==", out, arith("-", want, aref))), live, names=names, replay=rp, desc="dense Jaref differs from J.qacc - aref")
      ctx.prove(sess, "dead-row-untouched", Not(kt.written("ctx_Jaref_out", w, e)), Not(live), names=names, replay=lib.make_replay(ctx, kt, loc, "dead", "goal", goal="checks.c24:goal_unchanged_except", env={"label": "ctx_Jaref_out", "own": None}), desc="Jaref written for a row beyond nefc")
      o1, o2 = z3.Int("o1"), z3.Int("o2")
      ctx.prove(sess, "writes-only-own-row", Not(kt.written("ctx_Jaref_out", o1, o2)), Or(o1 != w, o2 != e), names=names, replay=lib.make_replay(ctx, kt, loc, "frame", "goal", goal="checks.c24:goal_unchanged_except", env={"label": "ctx_Jaref_out", "own": [w, e]}), desc="Jaref kernel writes another row")
      return
    # dense, split over ceil(nv / dpt) threads with atomic adds (host zeroes Jaref first): per-thread contribution + their sum
    nthreads = -(-nv // dpt)
    total = 0.0
    for ds in range(nthreads):
      kt = lib.kernel_thread(k, unroll=U, cap=nv + 2, alias_inout=False, tid=(z3.Int("w"), z3.Int("e"), ds))
      w, e, _ = kt.tid
      live = e < kt.pre("nefc_in", w)
      sess = ctx.session(kt.bg + dense_shapes(kt, nv))
      ctx.reach(sess, f"twin:live-row/dofstart={ds}", live)
      want = 0.0
      for i in range(ds * dpt, min(nv, ds * dpt + dpt)):
        want = arith("+", want, arith("*", kt.pre("efc_J_in", w, e, i), kt.pre("qacc_in", w, i)))
      if ds == 0:
        want = arith("-", want, kt.pre("efc_aref_in", w, e))
      rp = lib.make_replay(ctx, kt, loc, f"part{ds}", "goal", goal="checks.c06:goal_jaref_total", env=env)
      ctx.prove(sess, f"dofstart={ds}/adds-its-slice-of-J.qacc(-aref)", cmp("==", kt.atomic_total("ctx_Jaref_out", w, e), want), live, names={"w": w, "e": e}, replay=rp, desc=f"dense split Jaref: thread {ds} adds a wrong partial sum")
      ctx.prove(sess, f"dofstart={ds}/dead-row-adds-nothing", cmp("==", kt.atomic_total("ctx_Jaref_out", w, e), 0.0), Not(live), names={"w": w, "e": e}, replay=rp, desc="dense split Jaref: a row beyond nefc contributes")
      o1, o2 = z3.Int("o1"), z3.Int("o2")
      ctx.prove(sess, f"dofstart={ds}/adds-only-to-own-row", cmp("==", kt.atomic_total("ctx_Jaref_out", o1, o2), 0.0), Or(o1 != w, o2 != e), names={"w": w, "e": e}, replay=rp, desc="dense split Jaref: adds to another row")
      if [a for a in kt.it.accesses if a.cell is kt.cell("ctx_Jaref_out") and a.kind.startswith("W")]:
        ctx.error("dense split Jaref kernel has a non-atomic store")
    ctx.notes.append(f"dense split: the {nthreads} slices [ds*{dpt}, ds*{dpt}+{dpt}) ∩ [0,{nv}) partition the dofs, thread 0 subtracts aref once; init_context zeroes Jaref when threads_per_efc > 1 (host code, read: ctx.Jaref.zero_())")

  return (f"jaref/{name}", run)


# ------------------------------------------------------------------------------------------------ gradient


def goal_grad(spec, pre, post):
  w, dof = spec["tid"][:2]
  want = float(pre["efc_Ma_in"][w, dof]) - float(pre["qfrc_smooth_in"][w, dof]) - float(pre["qfrc_constraint_in"][w, dof])
  got = float(post["ctx_grad_out"][w, dof])
  gd = float(post["ctx_grad_dot_out"][w]) - float(pre["ctx_grad_dot_out"][w])
  ok = lib.approx(got, want) and lib.approx(gd, want * want)
  return ok, f"grad[{w},{dof}] = {got} (Ma - qfrc_smooth - qfrc_constraint = {want}); grad_dot increment {gd} (grad^2 = {want * want})"


def unit_grad(stable_fast):
  def run(ctx):
    from mujoco_warp._src import solver

    k = solver._update_gradient_grad(stable_fast)
    loc = f"mujoco_warp._src.solver:_update_gradient_grad({stable_fast})"
    ctx.encode(k)
    ctx.bound(stable_fast=stable_fast)
    ctx.assume("world not done" + (" and state_changed_count != 0 (fast path keeps the stale gradient by design)" if stable_fast else ""), "efc_Ma = M.qacc is computed by support.mul_m (outside this check)")
    kt = lib.kernel_thread(k, cap=6)
    w, d = kt.tid
    live = And(Not(kt.pre("ctx_done_in", w)), (kt.pre("state_changed_count_in", w) != 0) if stable_fast else True)
    sess = ctx.session(kt.bg)
    ctx.reach(sess, "twin:live", live)
    want = kt.pre("efc_Ma_in", w, d) - kt.pre("qfrc_smooth_in", w, d) - kt.pre("qfrc_constraint_in", w, d)
    rp = lib.make_replay(ctx, kt, loc, "grad", "goal", goal="checks.c06:goal_grad", env={"randomize_floats": 2})
    names = {"w": w, "dof": d}
    ctx.prove(sess, "grad==Ma-qfrc_smooth-qfrc_constraint", And(kt.written("ctx_grad_out", w, d), cmp("==", kt.post("ctx_grad_out", w, d), want)), live, names=names, replay=rp, desc="_update_gradient_grad: gradient differs from M.qacc - qfrc_smooth - qfrc_constraint")
    ctx.prove(sess, "grad_dot+=grad^2", cmp("==", kt.atomic_total("ctx_grad_dot_out", w), want * want), live, names=names, replay=rp, desc="_update_gradient_grad: grad_dot does not accumulate grad^2")
    frp = lib.make_replay(ctx, kt, loc, "frame", "goal", goal="checks.c24:goal_unchanged_except", env={"label": "ctx_grad_out", "own": None})
    ctx.prove(sess, "done=>untouched", And(Not(kt.written("ctx_grad_out", w, d)), cmp("==", kt.atomic_total("ctx_grad_dot_out", w), 0.0)), kt.pre("ctx_done_in", w), names=names, replay=frp, desc="_update_gradient_grad modifies a converged world")

  return (f"grad/{'stable_fast' if stable_fast else 'plain'}", run)



# ------------------------------------------------------------------------------------------------ dense tiled Hessian H = M + J^T D J


def _hessian_ref(pre, w, nv_pad, nrows, nC, compact):
  """numpy reference on concrete arrays: densified M + sum over rows e < nefc with state QUADRATIC of D_e J_e^T J_e"""
  import numpy as np

  H = np.zeros((nv_pad, nv_pad))
  if compact:
    H += np.asarray(pre["M_in"][w], dtype=float)[:nv_pad, :nv_pad]
  else:
    for e in range(nC):
      H[int(pre["M_colind"][e]), int(pre["M_hinit_i"][e])] += float(pre["M_in"][w, e])
  n = int(pre["nefc_in"][w])
  for e in range(min(n, nrows)):
    if int(pre["efc_state_in"][w, e]) == L.QUADRATIC:
      J = np.asarray(pre["efc_J_in"][w, e], dtype=float)[:nv_pad]
      H += float(pre["efc_D_in"][w, e]) * np.outer(J, J)
  return H


def hessian_replay(ctx, name, spec):
  """launch the REAL tiled kernel (wp.launch_tiled, block_dim as solver._update_gradient passes it) on the arrays of the
  solver model; further trials keep the integers of the live rows, re-draw the floats and plant stale rows (state QUADRATIC,
  large D, non-zero J) behind nefc; goal = numpy reference"""

  def _rp(model):
    import numpy as np
    import warp as wp

    k, args, w, nv_pad, njmax, nC, compact, locator = spec
    conc = replay.concretize_args(model, k, args)
    specs = kh.arg_specs(k)
    kern = replay.locate(locator)
    rng = np.random.default_rng(606)
    ok, text, pre = True, "", None
    for trial in range(4):
      vals, arrays = replay.build_arrays(conc, specs)
      n = int(arrays["nefc_in"].numpy()[w])
      if trial:
        for label in ("M_in", "efc_J_in", "efc_D_in"):
          a = arrays[label].numpy()
          arrays[label].assign(rng.uniform(0.25, 2.0, size=a.shape).astype(a.dtype))
        st, D = arrays["efc_state_in"].numpy(), arrays["efc_D_in"].numpy()
        st[:, max(n, 0) :] = L.QUADRATIC
        D[:, max(n, 0) :] = 1000.0
        arrays["efc_state_in"].assign(st)
        arrays["efc_D_in"].assign(D)
      arrays["ctx_h_out"].fill_(-777.0)
      pre = {k_: v.numpy().copy() for k_, v in arrays.items()}
      nworld = arrays["nefc_in"].shape[0]
      wp.launch_tiled(kern, dim=nworld, inputs=vals[:-1], outputs=vals[-1:], block_dim=128, device="cpu")
      wp.synchronize()
      got = arrays["ctx_h_out"].numpy()[w]
      if bool(pre["ctx_done_in"][w]):
        ok = bool(np.all(got == -777.0))
        text = f"world {w} is done but ctx.h was written: {got.tolist()}"
      else:
        want = _hessian_ref(pre, w, nv_pad, pre["efc_D_in"].shape[1], nC, compact)
        ok = bool(np.allclose(got, want, rtol=2e-3, atol=1e-3))
        text = f"world {w} nefc {n} njmax {njmax}: ctx.h = {got.tolist()}; M + sum_(e<nefc, QUADRATIC) D_e J_e^T J_e = {want.tolist()}; state row {pre['efc_state_in'][w].tolist()} D row {pre['efc_D_in'][w].tolist()}" + (f" (floats re-drawn, stale rows planted behind nefc, trial {trial})" if trial else "")
      if not ok:
        break
    path = L.write_replay(PID, ctx.unit, name, {"kernel": locator, "how": "wp.launch_tiled(kernel, dim=nworld, inputs=..., outputs=[ctx_h], block_dim=128)", "inputs": {k_: v.tolist() for k_, v in pre.items() if k_ != "ctx_h_out"}, "result": text})
    return (not ok), path

  return _rp


def unit_hessian(nv_pad, tile, njmax, compact, nC=3):
  name = f"hessian/dense-tiled{'-compact' if compact else ''}/{nv_pad}x{tile}x{njmax}"

  def run(ctx):
    from mujoco_warp._src import solver
    from wsym import tiles

    if compact:
      k = solver._update_gradient_JTDAJ_dense_tiled_compact(nv_pad, tile, njmax)
      locator = f"mujoco_warp._src.solver:_update_gradient_JTDAJ_dense_tiled_compact({nv_pad}, {tile}, {njmax})"
    else:
      k = solver._update_gradient_JTDAJ_dense_tiled(nv_pad, tile, njmax, nC)
      locator = f"mujoco_warp._src.solver:_update_gradient_JTDAJ_dense_tiled({nv_pad}, {tile}, {njmax}, {nC})"
    K = min(tile, njmax)
    rows = -(-njmax // K) * K  # efc arrays are padded to a multiple of the tile size (io._get_padded_sizes)
    nworld, w = 2, 1
    ctx.encode(k, solver._active_check, solver._state_check)
    ctx.bound(nv_pad=nv_pad, TILE_SIZE_K=K, njmax=njmax, padded_rows=rows, nC=("-" if compact else nC), nworld=nworld, world=w, block="one block, block_dim() = 1 lane, rank 0 (Warp CPU backend; lane schedules of a wider GPU block not modelled)")
    ctx.assume(
      "0 <= nefc <= njmax (no overflow); efc_J / efc_D / efc_state have njmax rounded up to the tile size rows (io._get_padded_sizes), ctx.h is (nworld, nv_pad, nv_pad)",
      "all of nefc, efc_state, efc_D, efc_J (including the rows behind nefc and the padding rows), M symbolic" + ("" if compact else "; M_colind / M_hinit_i symbolic with 0 <= M_colind[e] <= M_hinit_i[e] < nv_pad (CSR lower-triangle entries, densified into the upper triangle)"),
      "floats are exact reals",
    )
    shapes = {"nefc_in": [nworld], "efc_J_in": [nworld, rows, nv_pad], "efc_D_in": [nworld, rows], "efc_state_in": [nworld, rows], "ctx_done_in": [nworld], "ctx_h_out": [nworld, nv_pad, nv_pad]}
    shapes.update({"M_in": [nworld, nv_pad, nv_pad]} if compact else {"M_colind": [nC], "M_hinit_i": [nC], "M_in": [nworld, nC]})
    outs = {}
    for done in (False, True):
      args = kh.make_args(k, shapes=shapes, mode="dense")
      args["ctx_done_in"].cell.d = [[done] * nworld]
      replay.snapshot_initial(args)
      it, _ = kh.run(k, args, tid=(w, 0), interp=tiles.BlockInterp(unroll=max(8, nC + 2)))
      outs[done] = (args, it)
    args, it = outs[False]
    pre = lambda lab, *idx: args[lab].cell.get(idx, 0, snap=args[lab].cell.d0)
    nefc = pre("nefc_in", w)
    bg = [core.zbool(a) for a in it.assumes] + [nefc >= 0, nefc <= njmax]
    if not compact:
      for e in range(nC):
        bg += [pre("M_colind", e) >= 0, pre("M_colind", e) <= pre("M_hinit_i", e), pre("M_hinit_i", e) < nv_pad]
    sess = ctx.session(bg)
    ctx.reach(sess, "twin:live-rows-and-stale-rows", And(nefc >= 1, nefc < njmax))
    spec = (k, args, w, nv_pad, njmax, nC, compact, locator)
    rp = hessian_replay(ctx, "h", spec)
    names = {"nefc": nefc}
    for ob in it.obl:
      if ob.kind == "unwind":
        ctx.prove(sess, f"unwind/{ob.where.split(':')[-1]}", ob.cond, ob.guard, names=names, replay=rp, desc="loop bound too small (harness)")
      else:
        ctx.prove(sess, f"inrange/{ob.where.split(':')[-1]}/{ob.info[1]}[{ob.info[2]}]#{id(ob) % 99991}", ob.strict, ob.guard, names=names, replay=rp, desc=f"dense tiled Hessian: unchecked tile access outside the (padded) array at {ob.where}")
    hcell = args["ctx_h_out"].cell
    post = lambda r, c: hcell.get((w, r, c))

    def mref(r, c):
      if compact:
        return pre("M_in", w, r, c)
      s = 0.0
      for e in range(nC):
        s = arith("+", s, ite(And(pre("M_colind", e) == r, pre("M_hinit_i", e) == c), pre("M_in", w, e), 0.0))
      return s

    stale_cells = lambda n: [pre("efc_D_in", w, e) for e in range(n, rows)] + [pre("efc_state_in", w, e) for e in range(n, rows)] + [pre("efc_J_in", w, e, i) for e in range(n, rows) for i in range(nv_pad)]
    for n in range(njmax + 1):
      g = nefc == n
      sub = [(x, z3.Const(str(x) + "'", x.sort())) for x in stale_cells(n)]
      for r in range(nv_pad):
        for c in range(nv_pad):
          want = mref(r, c)
          for e in range(n):
            want = arith("+", want, L.mul(ite(pre("efc_state_in", w, e) == L.QUADRATIC, pre("efc_D_in", w, e), 0.0), pre("efc_J_in", w, e, r), pre("efc_J_in", w, e, c)))
          tri = "upper" if r <= c else "lower"
          ctx.prove(sess, f"nefc={n}/h[{r},{c}]==M+JT.D.J({tri})", cmp("==", post(r, c), want), g, names=names, replay=rp, desc=f"dense tiled Hessian: ctx.h[{r},{c}] differs from M + sum over the {n} live QUADRATIC rows of D J^T J (a row behind nefc or a non-QUADRATIC row enters, or a live row is missing)")
          if sub:
            ctx.prove(sess, f"nefc={n}/h[{r},{c}]-independent-of-rows>=nefc", post(r, c) == z3.substitute(core.to_z3(post(r, c), "real"), *sub), g, names=names, replay=rp, desc=f"dense tiled Hessian: ctx.h[{r},{c}] depends on a cell of a row >= nefc (stale D / J / state)")
    # converged world: nothing written
    a2, it2 = outs[True]
    wrote = [a for a in it2.accesses if a.cell is a2["ctx_h_out"].cell and a.kind.startswith(("W", "A")) and a.guard is not False]
    s2 = ctx.session([core.zbool(a) for a in it2.assumes])
    ctx.reach(s2, "twin:done-world", True)
    ctx.prove(s2, "done=>h-untouched", core.Not(core.Or(*[a.guard for a in wrote])) if wrote else True, True, names={}, replay=hessian_replay(ctx, "done", (k, a2, w, nv_pad, njmax, nC, compact, locator)), desc="dense tiled Hessian kernel writes ctx.h of a converged world")

  return (name, run)


def unit_hessian_leaves(ctx):
  from mujoco_warp._src import solver

  ctx.encode(solver._active_check, solver._state_check)
  nr = lambda what: (lambda m: leaf_replay(ctx, what, m))
  a = kh.make_args(solver._active_check)
  it, r = kh.run(solver._active_check, a)
  s = ctx.session([core.zbool(x) for x in it.assumes])
  ctx.reach(s, "twin:active", a["tid"] < a["threshold"])
  ctx.prove(s, "_active_check==(tid<threshold)", cmp("==", r, ite(a["tid"] < a["threshold"], 1.0, 0.0)), True, names={"tid": a["tid"], "threshold": a["threshold"]}, replay=nr("active"), desc="_active_check: lane mask is not 1 exactly for tid < threshold (off-by-one lets the first row behind nefc into H)")
  b = kh.make_args(solver._state_check)
  it2, r2 = kh.run(solver._state_check, b)
  s2 = ctx.session([core.zbool(x) for x in it2.assumes])
  ctx.reach(s2, "twin:quadratic", b["state"] == L.QUADRATIC)
  ctx.prove(s2, "_state_check==(D if QUADRATIC else 0)", cmp("==", r2, ite(b["state"] == L.QUADRATIC, b["D"], 0.0)), True, names={"D": b["D"], "state": b["state"]}, replay=nr("state"), desc="_state_check: D is not kept exactly for QUADRATIC rows")


def leaf_replay(ctx, what, model):
  import numpy as np
  import warp as wp

  from mujoco_warp._src import solver

  ac, sc = solver._active_check, solver._state_check

  @wp.kernel
  def c06_leaf_runner(i: wp.array[int], x: wp.array[float], out: wp.array[float]):
    out[0] = ac(i[0], i[1])
    out[1] = sc(x[0], i[2])

  vals = {str(d): model[d] for d in model.decls()}
  gi = lambda n, dflt: int(str(vals[n])) if n in vals else dflt
  tid, thr, st = gi("tid", 0), gi("threshold", 0), gi("state", 1)
  D = L.mvalf(model, z3.Real("D"))
  out = wp.zeros(2, dtype=float)
  wp.launch(c06_leaf_runner, dim=1, inputs=[wp.array(np.array([tid, thr, st], dtype=np.int32), dtype=int), wp.array(np.array([D], dtype=np.float32), dtype=float)], outputs=[out], device="cpu")
  o = out.numpy()
  if what == "active":
    ok = float(o[0]) == (1.0 if tid < thr else 0.0)
    text = f"_active_check({tid}, {thr}) = {float(o[0])}"
  else:
    ok = lib.approx(float(o[1]), D if st == L.QUADRATIC else 0.0)
    text = f"_state_check({D}, {st}) = {float(o[1])}"
  return (not ok), L.write_replay(PID, ctx.unit, what, {"result": text})


# ------------------------------------------------------------------------------------------------ elliptic cone Hessian J^T C J (dense)


def ref_cone_hessian(jar, mu, fr, Dm, A, B):
  """MuJoCo's cone Hessian contact.H (mj_constraintUpdate, middle zone) in residual space, dim x dim nested list.
  Helpers (computed numerically, tied by polynomial constraints symbolically): Dm = D0 / (mu^2 (1 + mu^2)), A = mu / T,
  B = mu * N / T^3 with N = jar_0 * mu, T = |(jar_j * fr_j)_j|."""
  dim = len(jar)
  N = L.mul(jar[0], mu)
  U = [L.mul(jar[j], fr[j - 1]) for j in range(1, dim)]
  h = [[0.0] * dim for _ in range(dim)]
  h[0][0] = 1.0
  dg = L.sub(L.mul(mu, mu), L.mul(N, A))
  for j in range(1, dim):
    h[0][j] = h[j][0] = L.neg(L.mul(A, U[j - 1]))
  for k_ in range(1, dim):
    for j in range(1, dim):
      h[k_][j] = L.mul(B, U[j - 1], U[k_ - 1])
    h[k_][k_] = L.add(h[k_][k_], dg)
  sc = [mu] + list(fr[: dim - 1])
  return [[L.mul(Dm, h[r][c], sc[r], sc[c]) for c in range(dim)] for r in range(dim)]


def ref_cone_hessian_numeric(x, D0, mu, fr):
  dim = len(x)
  T = float(np.sqrt(sum((x[j] * fr[j - 1]) ** 2 for j in range(1, dim))))
  return ref_cone_hessian(x, mu, fr, D0 / (mu * mu * (1 + mu * mu)), mu / T, mu * x[0] * mu / T**3)


def validate_cone_hessian(seed):
  import mujoco
  import numpy as np

  m = mujoco.MjModel.from_xml_string(L._XML.format(cone="elliptic", imp=2.5))
  d = mujoco.MjData(m)
  mujoco.mj_resetDataKeyframe(m, d, 0)
  mujoco.mj_forward(m, d)
  rng = np.random.default_rng(seed + 6)
  seen = set()
  for _ in range(60):
    jar = rng.normal(size=d.nefc)
    for con in d.contact:
      if con.dim > 1:
        jar[con.efc_address] = rng.normal() * 0.3
    mujoco.mj_constraintUpdate(m, d, jar, None, 1)
    for con in d.contact:
      a, dim = con.efc_address, con.dim
      if dim > 1 and d.efc_state[a] == L.CONE:
        x = [float(v) for v in jar[a : a + dim]]
        fr = [float(v) for v in con.friction]
        R = ref_cone_hessian_numeric(x, float(d.efc_D[a]), float(con.mu), fr)
        if not np.allclose(np.array(con.H[: dim * dim]).reshape(dim, dim), np.array(R, dtype=float), rtol=1e-8, atol=1e-10):
          return f"cone Hessian reference differs from mujoco contact.H (dim {dim})"
        seen.add(dim)
  return None if seen == {3, 4, 6} else f"cone Hessian validation covered dims {seen}"


def goal_cone_hessian(spec, pre, post):
  import numpy as np

  e = spec["env"]
  w, c, e0, dim, d1, d2 = [int(e[k_]) for k_ in ("w", "conid", "e0", "dim", "dof1", "dof2")]
  fr = [float(x) for x in pre["contact_friction_in"][c]]
  imp = pre["opt_impratio_invsqrt"]
  mu = fr[0] * float(imp[w % len(imp)])
  x = [float(pre["ctx_Jaref_in"][w, e0 + j]) for j in range(dim)]
  D0 = float(pre["efc_D_in"][w, e0])
  T = float(np.sqrt(sum((x[j] * fr[j - 1]) ** 2 for j in range(1, dim))))
  got = float(post["ctx_h_out"][w, d1, d2]) - float(pre["ctx_h_out"][w, d1, d2])
  active = (not bool(pre["ctx_done_in"][w])) and int(pre["efc_state_in"][w, e0]) == L.CONE and float(pre["contact_dist_in"][c]) - float(pre["contact_includemargin_in"][c]) < 0
  want = 0.0
  if active and T > 0:
    H = np.array(ref_cone_hessian_numeric(x, D0, mu, fr), dtype=float)
    J = np.array([[float(pre["efc_J_in"][w, e0 + j, dd]) for dd in (d1, d2)] for j in range(dim)])
    want = float(J[:, 0] @ H @ J[:, 1])
  ok = lib.approx(got, want, rtol=3e-3, atol=1e-3 * max(1.0, abs(want)))
  return ok, f"contact {c} (rows {e0}..{e0 + dim - 1}, world {w}) active {active}: ctx.h[{d1},{d2}] += {got}; (J^T C J)[{d1},{d2}] with MuJoCo's cone Hessian = {want}; jaref {x} mu {mu} friction {fr[: dim - 1]} D0 {D0}"


def cone_replay(ctx, name, k, args, loc, env):
  """launch the REAL _update_gradient_JTCJ_dense over (contacts x triangle entries); trial 0 = the solver's model, further
  trials keep its integers and re-draw the floats inside the preconditions (an argument-level or formula-level mismatch need
  not be visible on the model's own values); goal = J^T C J with MuJoCo's cone Hessian for all three entries"""

  def _rp(model):
    import warp as wp

    conc = replay.concretize_args(model, k, args)
    specs = kh.arg_specs(k)
    kern = replay.locate(loc)
    rng = np.random.default_rng(99)
    tri = [(0, 0), (1, 0), (1, 1)]
    ok, text, pre = True, "", None
    for trial in range(5):
      vals, arrays = replay.build_arrays(conc, specs)
      if trial:
        for label, arr in arrays.items():
          a = arr.numpy()
          if a.dtype.kind == "f" and a.size:
            r = rng.uniform(0.3, 2.0, size=a.shape)
            if label in ("ctx_Jaref_in", "efc_J_in", "ctx_h_out"):
              r = r * rng.choice([-1.0, 1.0], size=a.shape)
            if label == "contact_dist_in":
              r = -r * 0.01
            if label == "contact_includemargin_in":
              r = r * 0.0
            arr.assign(r.astype(a.dtype))
      pre = {k_: v.numpy().copy() for k_, v in arrays.items()}
      ncon = arrays["contact_dim_in"].shape[0]
      wp.launch(kern, dim=(ncon, 3), inputs=vals[:-1], outputs=vals[-1:], device="cpu")
      wp.synchronize()
      post = {k_: v.numpy().copy() for k_, v in arrays.items()}
      for d1, d2 in tri:
        ok, text = goal_cone_hessian({"env": dict(env, dof1=d1, dof2=d2)}, pre, post)
        if not ok:
          break
      if not ok:
        text += f" (floats re-drawn, trial {trial})" if trial else ""
        break
    return (not ok), L.write_replay(PID, ctx.unit, name, {"kernel": loc, "launch_dim": [int(ncon), 3], "inputs": {k_: v.tolist() for k_, v in pre.items()}, "result": text})

  return _rp


def unit_cone_hessian(dim, layout="A"):
  def run(ctx):
    from mujoco_warp._src import solver, types

    err = validate_cone_hessian(ctx.seed)
    if err:
      ctx.error("reference validation against mujoco contact.H failed: " + err)
      return
    k = solver._update_gradient_JTCJ_dense
    loc = "mujoco_warp._src.solver:_update_gradient_JTCJ_dense"
    nworld, w, ne, nf, after, ncon, c = L.LAYOUTS[layout]
    e0 = ne + nf
    njmax = e0 + dim + after
    nv = 2
    tri = [(0, 0), (1, 0), (1, 1)]
    nadr = max(1, 2 * (dim - 1))
    ctx.encode(k, solver._elliptic_hessian_entry_from_projections)
    ctx.bound(condim=dim, nv=nv, layout=f"nworld={nworld}, world {w}, contact {c} of {ncon} on rows {e0}..{e0 + dim - 1}, njmax={njmax}; one contact per thread (nblocks_perblock=1)")
    ctx.assume(
      "concrete bookkeeping (contact listed, condim, efc_address[c,j] = e0+j, world not done, normal row state CONE, dist < margin); all floats symbolic",
      "mu > 0, friction > 0, D_0 > 0; the MJ_MINVAL clamps on T and T^3 inactive (T >= MINVAL, T^3 >= MINVAL: always so in the middle zone away from the cone axis)",
      "floats are exact reals; sqrt / safe_div as polynomial contracts",
    )
    shapes = {"opt_impratio_invsqrt": [nworld], "dof_tri_row": [3], "dof_tri_col": [3], "contact_dist_in": [ncon], "contact_includemargin_in": [ncon], "contact_friction_in": [ncon], "contact_dim_in": [ncon], "contact_efc_address_in": [ncon, nadr], "contact_worldid_in": [ncon], "efc_J_in": [nworld, njmax, nv], "efc_D_in": [nworld, njmax], "efc_state_in": [nworld, njmax], "nacon_in": [1], "ctx_Jaref_in": [nworld, njmax], "ctx_done_in": [nworld], "ctx_h_out": [nworld, nv, nv]}  # fmt: skip
    MINVAL = z3.RealVal(repr(float(types.MJ_MINVAL)))
    for el, (d1, d2) in enumerate(tri):
      args = kh.make_args(k, shapes=shapes, scalars={"naconmax_in": ncon, "nblocks_perblock": 1, "dim_block": 1}, mode="dense")

      def setint(label, values):
        cell = args[label].cell
        flat = list(np.asarray(values).reshape(-1))
        cell.d = [[(bool(v) if cell.dtype == "bool" else int(v)) for v in flat]]

      import numpy as np

      adr = np.full((ncon, nadr), -1)
      adr[c, :dim] = np.arange(e0, e0 + dim)
      st = np.full((nworld, njmax), L.QUADRATIC)
      st[w, e0] = L.CONE
      setint("dof_tri_row", [t[0] for t in tri])
      setint("dof_tri_col", [t[1] for t in tri])
      setint("contact_dim_in", [dim] * ncon)
      setint("contact_efc_address_in", adr)
      setint("contact_worldid_in", [w if i == c else min(i, nworld - 1) for i in range(ncon)])
      setint("efc_state_in", st)
      setint("nacon_in", [ncon])
      setint("ctx_done_in", [False] * nworld)
      replay.snapshot_initial(args)
      it = L.func_interp()
      cap = []
      entry = solver._elliptic_hessian_entry_from_projections

      def hook(interp, frame, a, cap=cap):
        r = interp.call_pyfunc(entry.func, a, name="_elliptic_hessian_entry_from_projections", caller=frame)
        cap.append((interp.active(frame), list(a), r))
        return r

      it.summaries[entry.key] = hook
      kh.run(k, args, tid=(c, el), interp=it)
      pre = lambda lab, *idx, k_=0: args[lab].cell.get(idx, k_, snap=args[lab].cell.d0)
      x = [pre("ctx_Jaref_in", w, e0 + j) for j in range(dim)]
      fr = [pre("contact_friction_in", c, k_=i) for i in range(5)]
      mu = fr[0] * pre("opt_impratio_invsqrt", w)
      D0 = pre("efc_D_in", w, e0)
      J = lambda a_, dd: pre("efc_J_in", w, e0 + a_, dd)
      if len(it.roots) != 1 or len(cap) != 1:
        s0 = ctx.session([mu > 0, D0 > 0])
        ctx.reach(s0, f"twin:cone-contact/h[{d1},{d2}]", True)
        ctx.prove(s0, f"h[{d1},{d2}]/reached", False, True, names={"mu": mu}, replay=cone_replay(ctx, f"h{d1}{d2}", k, args, loc, {"w": w, "conid": c, "e0": e0, "dim": dim}), desc=f"elliptic cone Hessian (condim {dim}): a CONE contact does not reach the Hessian-entry computation exactly once ({len(it.roots)} sqrt / {len(cap)} calls)")
        continue
      T = list(it.roots.values())[0]
      N = x[0] * mu
      U = [x[j] * fr[j - 1] for j in range(1, dim)]
      Dm, A, B = z3.Real("Dm"), z3.Real("A"), z3.Real("B")
      live = pre("contact_dist_in", c) - pre("contact_includemargin_in", c) < 0
      bg = [core.zbool(a) for a in it.assumes] + [mu > 0, D0 > 0, T >= MINVAL, T * T * T >= MINVAL, Dm * mu * mu * (1 + mu * mu) == D0, A * T == mu, B * T * T * T == mu * N] + [fr[i] > 0 for i in range(dim - 1)]
      sess = ctx.session(bg, tactic=NL)
      ctx.reach(ctx.session(bg), f"twin:cone-contact/h[{d1},{d2}]", live)
      hc = args["ctx_h_out"].cell
      inc = hc.get((w, d1, d2)) - pre("ctx_h_out", w, d1, d2)

      rp = cone_replay(ctx, f"h{d1}{d2}", k, args, loc, {"w": w, "conid": c, "e0": e0, "dim": dim})
      names = {f"jaref{j}": x[j] for j in range(dim)} | {"mu": mu, "D0": D0, "T": T}
      g, a, r = cap[0]
      P = lambda nm, goal, guard, desc: ctx.prove(sess, f"h[{d1},{d2}]/{nm}", goal, guard, names=names, replay=rp, desc=f"elliptic cone Hessian (condim {dim}) entry ({d1},{d2}): {desc}")
      P("reached", g, live, "a CONE contact with dist < margin does not contribute")
      # (1) the kernel hands the Hessian-entry function MuJoCo's quantities
      z1 = [mu * J(0, d1)] + [fr[j - 1] * J(j, d1) for j in range(1, dim)]
      z2 = [mu * J(0, d2)] + [fr[j - 1] * J(j, d2) for j in range(1, dim)]
      wants = [("dm", Dm), ("mu_over_t", A), ("mu_n_over_ttt", B), ("tangent_diag", mu * mu - N * A), ("z01", z1[0]), ("z02", z2[0]), ("projection1", z3.Sum([U[j - 1] * z1[j] for j in range(1, dim)])), ("projection2", z3.Sum([U[j - 1] * z2[j] for j in range(1, dim)])), ("tangent_dot", z3.Sum([z1[j] * z2[j] for j in range(1, dim)]))]
      for (lab, y), xv in zip(wants, a):
        P(f"arg-{lab}", cmp("==", xv, y), g, f"_elliptic_hessian_entry_from_projections receives a wrong {lab}")
      P("adds-entry", cmp("==", inc, r), g, "ctx.h is not incremented by the entry function's result")
      # (2) the entry function's formula, (3) the polynomial identity with MuJoCo's contact.H  (fresh variables, no premises)
      if el == 0:
        fa = kh.make_args(entry)
        itf, rf = kh.run(entry, fa)
        v = [fa[lab] for lab in ("dm", "mu_over_t", "mu_n_over_ttt", "tangent_diag", "z01", "z02", "projection1", "projection2", "tangent_dot")]
        formula = lambda dm, mt, mn, td, a1, a2, p1, p2, tdot: dm * (a1 * a2 - mt * (a1 * p2 + a2 * p1) + mn * p1 * p2 + td * tdot)
        sf = ctx.session([core.zbool(q) for q in itf.assumes], tactic=NL)
        ctx.reach(sf, "twin:entry-function", True)
        ctx.prove(sf, "entry-function==dm*(z1*z2-mu/T*(z1*p2+z2*p1)+mu*N/T^3*p1*p2+diag*tdot)", rf == formula(*v), True, names={"dm": v[0]}, replay=rp, desc="_elliptic_hessian_entry_from_projections: wrong contraction formula")
        xs = [z3.Real(f"x{j}") for j in range(dim)]
        frs = [z3.Real(f"f{j}") for j in range(dim - 1)]
        mus, Dms, As, Bs = z3.Reals("mu_ Dm_ A_ B_")
        J1 = [z3.Real(f"J{j}a") for j in range(dim)]
        J2 = [z3.Real(f"J{j}b") for j in range(dim)]
        Hs = ref_cone_hessian(xs, mus, frs, Dms, As, Bs)
        Us = [xs[j] * frs[j - 1] for j in range(1, dim)]
        y1 = [mus * J1[0]] + [frs[j - 1] * J1[j] for j in range(1, dim)]
        y2 = [mus * J2[0]] + [frs[j - 1] * J2[j] for j in range(1, dim)]
        lhs = formula(Dms, As, Bs, mus * mus - xs[0] * mus * As, y1[0], y2[0], z3.Sum([Us[j - 1] * y1[j] for j in range(1, dim)]), z3.Sum([Us[j - 1] * y2[j] for j in range(1, dim)]), z3.Sum([y1[j] * y2[j] for j in range(1, dim)]))
        rhs = z3.Sum([J1[a_] * Hs[a_][b_] * J2[b_] for a_ in range(dim) for b_ in range(dim)])
        si = ctx.session([], tactic=NL)
        ctx.reach(si, "twin:identity", mus > 0)
        ctx.prove(si, "identity:contraction==J^T.C.J(contact.H)", lhs == rhs, True, names={"mu": mus}, replay=lambda m: (False, "pure polynomial identity (no code involved)"), desc="the contraction formula differs from J^T C J with MuJoCo's cone Hessian")
      ctx.prove(sess, f"h[{d1},{d2}]:inactive-contact-adds-nothing", inc == 0, core.Not(live), names=names, replay=rp, desc="elliptic cone Hessian: a contact with dist >= margin contributes")
      others = [hc.get((ww, r, cc)) == pre("ctx_h_out", ww, r, cc) for ww in range(nworld) for r in range(nv) for cc in range(nv) if (ww, r, cc) != (w, d1, d2)]
      ctx.prove(sess, f"h[{d1},{d2}]:writes-only-own-entry", And(*others), True, names=names, replay=rp, desc="elliptic cone Hessian thread modifies another entry of ctx.h")

  return (f"hessian/cone-dense/condim{dim}/{layout}", run)


def main(tier, seed, only=None):
  thorough = tier == "thorough"
  units = [unit_cert_scalar(kd) for kd in ("equality", "friction", "ineq")]
  units += [unit_gather_scalar(False), unit_gather_scalar(True), c24.unit_gather(3, False, "A"), c24.unit_gather(4, True, "C")]
  units += [unit_cert_elliptic(d) for d in ((3, 4, 6) if thorough else (3, 4))]
  U = 6 if thorough else 4
  units += [unit_jaref("dense-single", False, 3, 50, False, U), unit_jaref("dense-split", False, 5, 2, False, U), unit_jaref("sparse", True, 4, 4, False, U), unit_jaref("compact", True, 4, 4, True, U)]
  if thorough:
    units += [unit_jaref("dense-split-60x20", False, 60, 20, False, U), unit_jaref("dense-single-30", False, 30, 50, False, U)]
  units += [unit_grad(False), unit_grad(True)]
  units += [("hessian/leaves", unit_hessian_leaves), unit_hessian(2, 2, 4, False), unit_hessian(2, 2, 4, True)]
  units += [unit_cone_hessian(3)]
  if thorough:
    units += [unit_cone_hessian(4), unit_cone_hessian(3, "C")]
    units += [unit_hessian(3, 4, 6, False, nC=4), unit_hessian(3, 4, 6, True), unit_hessian(2, 16, 3, False), unit_hessian(2, 16, 3, True)]
  if only:
    units = [u for u in units if any(o in u[0] for o in only)]
  return report.run_check(PID, units, tier, seed)
