"""C26 Forward and inverse dynamics are consistent (partial; exact real arithmetic).

 kernel/*            one generic thread of inverse._qfrc_inverse and inverse._qfrc_eulerdamp against closed forms written from
                     engine_inverse.c (qfrc_inverse = qfrc_bias + M qacc - qfrc_passive - qfrc_constraint; Euler correction
                     h * d(damping force)/dv * qacc with MuJoCo's polynomial damper b + p0 |v| + p1 v^2).
 inverse/<cfg>       the REAL inverse.inverse (H mode; every launch of the position / velocity / constraint / rne / sensor stages is
                     skipped = their outputs are arbitrary values, the factor / solve routines are replaced by their C21 contract
                     'x with M x = b', deriv_smooth_vel by an arbitrary matrix on M's sparsity): qfrc_inverse equals MuJoCo's
                     mj_inverse formula for every integrator / INVDISCRETE / EULERDAMP combination the code accepts (with
                     INVDISCRETE the continuous acceleration a with M a = (M + h D) qacc resp. M a = (M - h dF/dv) qacc is
                     used), d.qacc is restored, and RK4 / implicit + INVDISCRETE are rejected with NotImplementedError.
 roundtrip/<cfg>     forward and inverse composed on the same symbolic state: real fwd_acceleration (qfrc_smooth incl. an arbitrary
                     J^T xfrc_applied), the forward identity M qacc = qfrc_smooth + qfrc_constraint (solver = uninterpreted: it
                     defines qfrc_constraint), efc.Ma = M qacc via the real mul_m, the real integrator host function
                     (forward.euler / forward.implicit) up to the acceleration it hands to _advance, then the real inverse() on
                     that acceleration: qfrc_inverse = qfrc_applied + J^T xfrc_applied + qfrc_actuator.
The reference formulas are validated numerically against mujoco.mj_inverse (with and without mjENBL_INVDISCRETE) in the check.
"""

import contextlib
import dataclasses

import numpy as np
import warp as wp
import z3

from checks import lib
from checks import linalg_c21 as la
from wsym import core, host, kh, report
from wsym.core import And, Not, Or, arith, cmp, is_sym, ite, vabs

PID = "C26"
NWORLD = 2

OPT = '<option integrator="{integ}" timestep="0.01"><flag {flags}/></option>'
TREES = {
  "chain2": [la.chain(2)],
  "slide+chain2": [la.slide1(0), la.chain(2, 1)],
  "chain3": [la.chain(3)],
}
ACT = "<actuator><motor joint='{j}' gear='2'/></actuator>"

# (name, integrator, flag attributes, enable-INVDISCRETE)
CONFIGS = [
  ("euler", "Euler", "", False),
  ("euler/invdiscrete", "Euler", "", True),
  ("euler/invdiscrete/eulerdamp-off", "Euler", 'eulerdamp="disable"', True),
  ("euler/invdiscrete/damper-off", "Euler", 'damper="disable"', True),
  ("implicitfast", "implicitfast", "", False),
  ("implicitfast/invdiscrete", "implicitfast", "", True),
  ("rk4/invdiscrete", "RK4", "", True),
  ("implicit/invdiscrete", "implicit", "", True),
]


def model_xml(tname, integ, flags, invdiscrete):
  fl = (flags + (' invdiscrete="enable"' if invdiscrete else "")).strip()
  opt = OPT.format(integ=integ, flags=fl) if fl else f'<option integrator="{integ}" timestep="0.01"/>'
  return la.xml(*TREES[tname], opt=opt)


def build(tname, integ, flags, invdiscrete, nworld=NWORLD):
  return la.build(model_xml(tname, integ, flags, invdiscrete), nworld=nworld, njmax=4, nconmax=4)


# ------------------------------------------------------------------------------------------------ references (MuJoCo semantics)


def damp_deriv(b, p, v):
  """-d/dv of MuJoCo's damper force  -v (b + p0 |v| + p1 v^2)  =  b + 2 p0 |v| + 3 p1 v^2"""
  av = vabs(v)
  return arith("+", arith("+", b, arith("*", arith("*", 2.0, p[0]), av)), arith("*", arith("*", 3.0, p[1]), arith("*", av, av)))


def ref_inverse(Mdense, qacc, bias, passive, constraint):
  """mj_inverse: qfrc_inverse = qfrc_bias + M qacc - qfrc_passive - qfrc_constraint"""
  nv = len(qacc)
  out = []
  for i in range(nv):
    acc = bias[i]
    for j in range(nv):
      if not (isinstance(Mdense[i][j], float) and Mdense[i][j] == 0.0):
        acc = arith("+", acc, arith("*", Mdense[i][j], qacc[j]))
    out.append(arith("-", arith("-", acc, passive[i]), constraint[i]))
  return out


def validate_refs(ctx, seed):
  """ref_inverse / damp_deriv against mujoco.mj_inverse on a damped 3-dof chain, Euler, with and without INVDISCRETE, with the
  EULERDAMP / DAMPER disable flags, and implicitfast (continuous acceleration recovered with numpy from mujoco's own
  matrices).  -> bool"""
  import mujoco

  rng = np.random.default_rng(seed)
  ok = True
  for integ, flags, invd in [("Euler", "", False), ("Euler", "", True), ("Euler", 'eulerdamp="disable"', True), ("Euler", 'damper="disable"', True), ("implicitfast", "", False)]:
    x = model_xml("chain3", integ, flags, invd).replace("</worldbody>", "</worldbody>" + ACT.format(j="j0")).replace("<joint type='hinge' axis='1 0 0'", "<joint name='j0' type='hinge' axis='1 0 0'", 1)
    mjm = mujoco.MjModel.from_xml_string(x)
    if hasattr(mjm, "dof_dampingpoly"):
      mjm.dof_dampingpoly[:] = rng.uniform(0.0, 0.3, mjm.dof_dampingpoly.shape)
    mjd = mujoco.MjData(mjm)
    mjd.qpos[:] = rng.uniform(-1, 1, mjm.nq)
    mjd.qvel[:] = rng.uniform(-1, 1, mjm.nv)
    mjd.qacc[:] = rng.uniform(-1, 1, mjm.nv)
    mjd.ctrl[:] = rng.uniform(-1, 1, mjm.nu)
    qacc_in = mjd.qacc.copy()
    mujoco.mj_inverse(mjm, mjd)
    if not np.allclose(mjd.qacc, qacc_in):
      ctx.error(f"mujoco.mj_inverse does not restore qacc ({integ} {flags} invdiscrete={invd})")
      ok = False
    Md = np.array(la.dense_of(mjm, list(mjd.M)), dtype=float)
    a = qacc_in
    h = float(mjm.opt.timestep)
    if invd and integ == "Euler" and "eulerdamp" not in flags:
      # NOTE: mujoco's mj_discreteAcc tests only mjDSBL_EULERDAMP (not mjDSBL_DAMPER)
      D = np.array([float(damp_deriv(float(mjm.dof_damping[i]), [float(v) for v in mjm.dof_dampingpoly[i]] if hasattr(mjm, "dof_dampingpoly") else [0.0, 0.0], float(mjd.qvel[i]))) for i in range(mjm.nv)])
      a = np.linalg.solve(Md, (Md + h * np.diag(D)) @ qacc_in)
    want = ref_inverse(Md.tolist(), list(a), list(mjd.qfrc_bias), list(mjd.qfrc_passive), list(mjd.qfrc_constraint))
    if not np.allclose(np.array(want, dtype=float), mjd.qfrc_inverse, rtol=1e-7, atol=1e-8):
      ctx.error(f"reference mj_inverse model disagrees with mujoco ({integ} {flags} invdiscrete={invd}): {want} vs {mjd.qfrc_inverse.tolist()}")
      ok = False
  return ok


# ------------------------------------------------------------------------------------------------ K-mode kernels


def goal_qfrc_inverse(spec, pre, post):
  w, i = spec["tid"]
  want = float(pre["qfrc_bias_in"][w, i]) + float(pre["Ma"][w, i]) - float(pre["qfrc_passive_in"][w, i]) - float(pre["qfrc_constraint_in"][w, i])
  got = float(post["qfrc_inverse_out"][w, i])
  return lib.approx(got, want), f"qfrc_inverse[{w},{i}] = {got} expected {want}"


def goal_eulerdamp(spec, pre, post):
  w, i = spec["tid"]
  h = float(pre["opt_timestep"][w % pre["opt_timestep"].shape[0]])
  b = float(pre["dof_damping"][w % pre["dof_damping"].shape[0], i])
  p = [float(x) for x in pre["dof_dampingpoly"][w % pre["dof_dampingpoly"].shape[0], i]]
  v, a = float(pre["qvel_in"][w, i]), float(pre["qacc_in"][w, i])
  want = float(pre["qfrc_out"][w, i]) + h * float(damp_deriv(b, p, v)) * a
  got = float(post["qfrc_out"][w, i])
  return lib.approx(got, want), f"qfrc[{w},{i}] = {got} expected {want}"


def unit_kernels(ctx):
  from mujoco_warp._src import inverse

  if not validate_refs(ctx, ctx.seed):
    return
  ctx.bound(note="one generic thread, symbolic sizes (<= 6), exact reals")
  ctx.assume("own accesses in bounds", "batched model fields have at least one row (worldid % shape[0])")
  # _qfrc_inverse
  k = inverse._qfrc_inverse
  ctx.encode(k)
  kt = lib.kernel_thread(k, alias_inout=False)
  w, i = kt.tid
  sess = ctx.session(kt.bg)
  ctx.reach(sess, "twin:qfrc_inverse", True)
  want = arith("-", arith("-", arith("+", kt.pre("qfrc_bias_in", w, i), kt.pre("Ma", w, i)), kt.pre("qfrc_passive_in", w, i)), kt.pre("qfrc_constraint_in", w, i))
  rp = lib.make_replay(ctx, kt, "mujoco_warp._src.inverse:_qfrc_inverse", "qfrc_inverse", "goal", goal="checks.c26:goal_qfrc_inverse")
  ctx.prove(sess, "qfrc_inverse/formula", cmp("==", kt.post("qfrc_inverse_out", w, i), want), names={"w": w, "i": i}, replay=rp, desc="_qfrc_inverse: differs from qfrc_bias + M qacc - qfrc_passive - qfrc_constraint")
  # _qfrc_eulerdamp
  k = inverse._qfrc_eulerdamp
  ctx.encode(k)
  kt = lib.kernel_thread(k, alias_inout=False)
  w, i = kt.tid
  rows = [kt.cell(l).shape[0] >= 1 for l in ("opt_timestep", "dof_damping", "dof_dampingpoly")]
  sess = ctx.session(kt.bg + rows)
  ctx.reach(sess, "twin:qfrc_eulerdamp", True)
  mod = lambda l: w % kt.cell(l).shape[0]
  h = kt.pre("opt_timestep", mod("opt_timestep"))
  b = kt.pre("dof_damping", mod("dof_damping"), i)
  p = kt.prev("dof_dampingpoly", mod("dof_dampingpoly"), i).c
  want = arith("+", kt.pre("qfrc_out", w, i), arith("*", arith("*", h, damp_deriv(b, p, kt.pre("qvel_in", w, i))), kt.pre("qacc_in", w, i)))
  rp = lib.make_replay(ctx, kt, "mujoco_warp._src.inverse:_qfrc_eulerdamp", "qfrc_eulerdamp", "goal", goal="checks.c26:goal_eulerdamp")
  ctx.prove(sess, "qfrc_eulerdamp/formula", cmp("==", kt.post("qfrc_out", w, i), want), names={"w": w, "i": i}, replay=rp, desc="_qfrc_eulerdamp: does not add timestep * (b + 2 p0 |v| + 3 p1 v^2) * qacc")


# ------------------------------------------------------------------------------------------------ H mode with contracts

SYMD = ("d.M", "d.qacc", "d.qvel", "d.qfrc_bias", "d.qfrc_passive", "d.qfrc_constraint", "d.qfrc_applied", "d.qfrc_actuator", "d.qfrc_smooth", "d.qfrc_inverse", "d.efc.Ma", "d.qLD", "d.qLDiagInv", "d.qacc_smooth")
EXEC = ("_qfrc_smooth__locals__kernel", "mul_m_kernel__locals___mul_m", "mul_m_dense__locals___mul_m_dense", "_compute_damping_deriv", "_euler_damp_qfrc", "_qfrc_eulerdamp", "_qfrc_inverse")


def vals(cell, w):
  n = cell.size // cell.shape[0]
  return [cell.d[0][w * n + k] for k in range(n)]


class Contracts:
  """C21 contracts for the factor / solve host functions, an arbitrary-but-fixed matrix for deriv_smooth_vel, a recorder for
  forward._advance, and the launch filter (only the closed-form kernels of the inverse / integrator tail are interpreted)."""

  def __init__(self, mjm, nworld, dsym):
    self.mjm, self.nworld = mjm, nworld
    self.facts = []
    self.prov = {}  # id(cell of a factor) -> CSR values per world at factorisation time
    self.n = 0
    self.advanced = None
    self.X = [[z3.Real(f"JTxfrc{w}_{i}") for i in range(mjm.nv)] for w in range(nworld)]
    self.A = [[z3.Real(f"qDeriv{w}_{a}") for a in range(mjm.nC)] for w in range(nworld)]
    self.dsym = dsym
    self.log = []

  def _solve(self, Mv, x, y):
    nv = self.mjm.nv
    xc, yc = x.ref.cell, y.ref.cell
    for w in range(self.nworld):
      rhs = [yc.d[0][w * nv + i] for i in range(nv)]
      Dm = la.dense_of(self.mjm, Mv[w])
      sol = [z3.Real(f"sol{self.n}_{w}_{i}") for i in range(nv)]
      for i in range(nv):
        acc = 0.0
        for j in range(nv):
          if not (isinstance(Dm[i][j], float) and Dm[i][j] == 0.0):
            acc = arith("+", acc, arith("*", Dm[i][j], sol[j]))
        self.facts.append(cmp("==", acc, rhs[i]))
      for i in range(nv):
        xc.d[0][w * nv + i] = sol[i]
    self.n += 1

  def _havoc(self, arr, tag):
    c = arr.ref.cell
    if isinstance(c, la.ColView) or arr.ref.prefix:
      raise core.Unsupported("factor written through a view")
    c.d = [[z3.Real(f"{tag}{self.n}!{k}") for k in range(c.size)]]

  def factor_m(self, m, d):
    self.log.append("factor_m")
    self.prov[id(d.qLD.ref.cell)] = [vals(d.M.ref.cell, w) for w in range(self.nworld)]
    self._havoc(d.qLD, "qLD")
    self._havoc(d.qLDiagInv, "qLDinv")
    self.n += 1

  def solve_m(self, m, d, x, y):
    self.log.append("solve_m")
    Mv = self.prov.get(id(d.qLD.ref.cell))
    if Mv is None:
      raise core.Unsupported("solve_m on a factor that no factorisation produced in this run")
    self._solve(Mv, x, y)

  def factor_solve_i(self, m, d, M, L, D, x, y):
    self.log.append("factor_solve_i")
    Mv = [vals(M.ref.cell, w) for w in range(self.nworld)]
    self.prov[id(L.ref.cell)] = Mv
    self._havoc(L, "qLD")
    self._havoc(D, "qLDinv")
    self._solve(Mv, x, y)

  def deriv_smooth_vel(self, m, d, out):
    self.log.append("deriv_smooth_vel")
    c = out.ref.cell
    for w in range(self.nworld):
      for a in range(self.mjm.nC):
        c.d[0][w * self.mjm.nC + a] = self.A[w][a]

  def advance(self, m, d, qacc, qvel=None):
    self.log.append("_advance")
    self.advanced = [vals(qacc.ref.cell, w) for w in range(self.nworld)]

  def on_launch(self, hr, kernel, dim, args):
    key = kernel.key
    if key.startswith("_apply_ft"):
      out = args[-1]
      if isinstance(out, host.SymArr) and out.name_ == "d.qfrc_smooth":
        c = out.ref.cell
        nv = self.mjm.nv
        for w in range(self.nworld):
          for i in range(nv):
            c.d[0][w * nv + i] = arith("+", c.d[0][w * nv + i], self.X[w][i])
      return "skip"
    if any(key.startswith(e) for e in EXEC):
      self.log.append(key)
      return None
    return "skip"

  @contextlib.contextmanager
  def patched(self):
    from mujoco_warp._src import derivative, forward, smooth

    saved = (smooth.factor_m, smooth.solve_m, smooth.factor_solve_i, derivative.deriv_smooth_vel, forward._advance)
    smooth.factor_m, smooth.solve_m, smooth.factor_solve_i = self.factor_m, self.solve_m, self.factor_solve_i
    derivative.deriv_smooth_vel, forward._advance = self.deriv_smooth_vel, self.advance
    try:
      yield self
    finally:
      smooth.factor_m, smooth.solve_m, smooth.factor_solve_i, derivative.deriv_smooth_vel, forward._advance = saved


def setup(tname, integ, flags, invd):
  mjm, m, d = build(tname, integ, flags, invd)
  d2 = host.shim_dataclass(d, "d.", symbolic=lambda n: n in SYMD)
  arrs = host.arrays_of(d2)
  m2 = dataclasses.replace(
    m,
    dof_damping=host.sym_array("m.dof_damping", m.dof_damping.shape, m.dof_damping.dtype),
    dof_dampingpoly=host.sym_array("m.dof_dampingpoly", m.dof_dampingpoly.shape, m.dof_dampingpoly.dtype),
    opt=dataclasses.replace(m.opt, timestep=host.sym_array("m.opt.timestep", m.opt.timestep.shape, m.opt.timestep.dtype)),
  )
  return mjm, m, m2, d, d2, arrs


def damping_terms(m2, arrs, mjm, w):
  """h and D_i = d(damper)/dv of world w from the symbolic model fields"""
  hc, bc, pc = m2.opt.timestep.ref.cell, m2.dof_damping.ref.cell, m2.dof_dampingpoly.ref.cell
  h = hc.d0[0][w % hc.shape[0]]
  nv = mjm.nv
  wb, wp_ = w % bc.shape[0], w % pc.shape[0]
  v = vals_pre(arrs["qvel"].ref.cell, w)
  return h, [damp_deriv(bc.d0[0][wb * nv + i], [pc.d0[0][wp_ * nv + i], pc.d0[1][wp_ * nv + i]], v[i]) for i in range(nv)]


def vals_pre(cell, w):
  n = cell.size // cell.shape[0]
  return [cell.d0[0][w * n + k] for k in range(n)]


def inverse_replay(ctx, tname, cfg):
  """real mujoco_warp.inverse against mujoco.mj_inverse on random states of the model (both libraries, same qacc input)"""
  name, integ, flags, invd = cfg

  def _rp(model):
    import mujoco

    import mujoco_warp as mjw

    rng = np.random.default_rng(9)
    x = model_xml(tname, integ, flags, invd)
    last = ""
    for trial in range(3):
      mjm = mujoco.MjModel.from_xml_string(x)
      mjm.dof_dampingpoly[:] = rng.uniform(0.5, 2.0, mjm.dof_dampingpoly.shape)
      mjm.opt.timestep = 0.05
      mjd = mujoco.MjData(mjm)
      mjd.qpos[:] = rng.uniform(-1, 1, mjm.nq)
      mjd.qvel[:] = rng.uniform(1, 2, mjm.nv) * rng.choice([-1.0, 1.0], mjm.nv)
      mjd.qacc[:] = rng.uniform(1, 3, mjm.nv) * rng.choice([-1.0, 1.0], mjm.nv)
      mjd.qfrc_applied[:] = rng.uniform(-1, 1, mjm.nv)
      qacc_in = mjd.qacc.copy()
      m = mjw.put_model(mjm)
      d = mjw.put_data(mjm, mjd)
      mjw.inverse(m, d)
      mujoco.mj_inverse(mjm, mjd)
      got, want = d.qfrc_inverse.numpy()[0].astype(float), mjd.qfrc_inverse.copy()
      qa = d.qacc.numpy()[0].astype(float)
      last = f"mujoco_warp qfrc_inverse {got.tolist()} vs mujoco {want.tolist()}; qacc after {qa.tolist()} (given {qacc_in.tolist()})"
      if not np.allclose(got, want, rtol=2e-3, atol=2e-4) or not np.allclose(qa, qacc_in, rtol=1e-4, atol=1e-5):
        return True, la.save(PID, f"inverse.{tname}.{name}", {"property": PID, "xml": x, "qpos": mjd.qpos, "qvel": mjd.qvel, "qacc": qacc_in, "qfrc_applied": mjd.qfrc_applied, "result": last})
    return False, last

  return _rp


def unit_inverse(tname, cfg):
  name, integ, flags, invd = cfg

  def run(ctx):
    from mujoco_warp._src import inverse, types

    if not validate_refs(ctx, ctx.seed):
      return
    mjm, m, m2, d, d2, arrs = setup(tname, integ, flags, invd)
    nv, nC = mjm.nv, mjm.nC
    ctx.encode(inverse.inverse, inverse.discrete_acc, inverse.inv_constraint)
    ctx.bound(model=tname, nv=nv, nworld=NWORLD, integrator=integ, flags=flags or "-", invdiscrete=invd)
    ctx.assume(
      "the outputs of the skipped stages (fwd_position, fwd_velocity, inv_constraint, rne, tendon_bias, sensors) are arbitrary values: M (CSR), qfrc_bias, qfrc_passive, qfrc_constraint arbitrary",
      "C21 contract: factor_m / solve_m / factor_solve_i return x with M x = b for the matrix that was factorised (M and the integrator matrix are symmetric positive definite)",
      "deriv_smooth_vel writes an arbitrary matrix on M's sparsity (same state -> same matrix)",
      "dof_damping, dof_dampingpoly, timestep, qvel, qacc arbitrary",
    )
    C = Contracts(mjm, NWORLD, d2)
    raised = None
    with C.patched(), la.HostRun(mode="exec", on_launch=C.on_launch, naming=False, skip_tiled=True, skip_fills=True) as hr:
      try:
        inverse.inverse(m2, d2)
      except NotImplementedError as ex:
        raised = str(ex)
    for e in hr.events:
      if e.kind == "launch" and any(e.kernel.key.startswith(k) for k in EXEC):
        ctx.encode(e.kernel)
    ctx.notes.append("interpreted / contract calls in order: " + " ; ".join(C.log))
    sess = ctx.session([core.zbool(a) for a in hr.assumes] + [core.zbool(f) for f in C.facts])
    ctx.reach(sess, "twin:state", True)
    rp = inverse_replay(ctx, tname, cfg)
    if integ in ("RK4", "implicit"):
      # rejected configurations: nothing may have been computed silently
      if raised is None:
        ctx.violation("rejects", f"inverse() with INVDISCRETE and integrator {integ} neither raises nor is supported by the closed forms of this check", "n/a")
      else:
        ctx.notes.append(f"rejected with NotImplementedError: {raised}")
      return
    if raised is not None:
      ctx.error(f"inverse() raised NotImplementedError({raised}) for an accepted configuration")
      return
    euler_corr = invd and integ == "Euler" and not (int(m.opt.disableflags) & int(types.DisableBit.EULERDAMP))
    for w in range(NWORLD):
      Mv = vals_pre(arrs["M"].ref.cell, w)
      Dm = la.dense_of(mjm, Mv)
      qacc_in = vals_pre(arrs["qacc"].ref.cell, w)
      # values the stages left in the arrays when _qfrc_inverse ran = their (untouched) symbolic contents
      bias, passive, constraint = (vals(arrs[n].ref.cell, w) for n in ("qfrc_bias", "qfrc_passive", "qfrc_constraint"))
      got = vals(arrs["qfrc_inverse"].ref.cell, w)
      if not invd:
        want = ref_inverse(Dm, qacc_in, bias, passive, constraint)
      else:
        # M a = B qacc with B = M + h D (Euler, eulerdamp) / M (Euler, eulerdamp disabled) / A (implicitfast):  M a is then
        # row_i(B) . qacc, so qfrc_inverse_i = row_i(B) . qacc + bias - passive - constraint
        if integ == "Euler":
          B = [list(r) for r in Dm]
          if euler_corr:
            h, Dd = damping_terms(m2, arrs, mjm, w)
            for i in range(nv):
              B[i][i] = arith("+", B[i][i], arith("*", h, Dd[i]))
        else:
          B = la.dense_of(mjm, C.A[w])
        want = ref_inverse(B, qacc_in, bias, passive, constraint)
      for i in range(nv):
        ctx.prove(sess, f"w{w}/qfrc_inverse[{i}]", cmp("==", got[i], want[i]), replay=rp, desc=f"inverse() ({name}, {tname}): qfrc_inverse[{i}] differs from MuJoCo's mj_inverse formula")
        ctx.prove(sess, f"w{w}/qacc-restored[{i}]", cmp("==", vals(arrs["qacc"].ref.cell, w)[i], qacc_in[i]), replay=rp, desc=f"inverse() ({name}, {tname}): d.qacc[{i}] is not restored to the given acceleration")

  return (f"inverse/{tname}/{name}", run)


def roundtrip_replay(ctx, tname, cfg):
  """real step (for the discrete acceleration) + real inverse on random states: qfrc_inverse vs qfrc_applied + qfrc_actuator"""
  name, integ, flags, invd = cfg

  def _rp(model):
    import mujoco

    import mujoco_warp as mjw

    rng = np.random.default_rng(4)
    x = model_xml(tname, integ, flags, invd).replace("</worldbody>", "</worldbody>" + ACT.format(j="j0")).replace("<joint type='hinge' axis='1 0 0'", "<joint name='j0' type='hinge' axis='1 0 0'", 1).replace("<joint type='slide' axis='1 0 0'", "<joint name='j0' type='slide' axis='1 0 0'", 1)
    last = ""
    for trial in range(3):
      mjm = mujoco.MjModel.from_xml_string(x)
      mjd = mujoco.MjData(mjm)
      mjd.qpos[:] = rng.uniform(-1, 1, mjm.nq)
      mjd.qvel[:] = rng.uniform(-1, 1, mjm.nv)
      mjd.ctrl[:] = rng.uniform(-1, 1, mjm.nu)
      mjd.qfrc_applied[:] = rng.uniform(-1, 1, mjm.nv)
      mjd.xfrc_applied[1:, :3] = rng.uniform(-1, 1, (mjm.nbody - 1, 3))
      mujoco.mj_forward(mjm, mjd)
      m = mjw.put_model(mjm)
      d = mjw.put_data(mjm, mjd)
      mjw.forward(m, d)
      qvel0 = d.qvel.numpy().copy()
      target = d.qfrc_applied.numpy()[0].astype(float) + d.qfrc_actuator.numpy()[0].astype(float)
      xf = np.zeros(mjm.nv)
      for b in range(1, mjm.nbody):
        mujoco.mj_applyFT(mjm, mjd, mjd.xfrc_applied[b, :3], mjd.xfrc_applied[b, 3:], mjd.xipos[b], b, xf)
      target = target + xf
      if invd:
        d2 = mjw.put_data(mjm, mjd)
        mjw.step(m, d2)
        qacc = (d2.qvel.numpy() - qvel0) / float(mjm.opt.timestep)
        d.qacc.assign(qacc.astype(np.float32))
      mjw.inverse(m, d)
      got = d.qfrc_inverse.numpy()[0].astype(float)
      last = f"inverse(forward(x)) = {got.tolist()} vs qfrc_applied + J^T xfrc_applied + qfrc_actuator = {target.tolist()}"
      if not np.allclose(got, target, rtol=5e-3, atol=5e-3):
        return True, la.save(PID, f"roundtrip.{tname}.{name}", {"property": PID, "xml": x, "qpos": mjd.qpos, "qvel": mjd.qvel, "ctrl": mjd.ctrl, "qfrc_applied": mjd.qfrc_applied, "xfrc_applied": mjd.xfrc_applied, "result": last, "how": "mjw.forward; (INVDISCRETE: qacc := (step(qvel) - qvel) / h); mjw.inverse"})
    return False, last

  return _rp


def unit_roundtrip(tname, cfg):
  name, integ, flags, invd = cfg

  def run(ctx):
    from mujoco_warp._src import forward, inverse, support

    mjm, m, m2, d, d2, arrs = setup(tname, integ, flags, invd)
    nv = mjm.nv
    ctx.encode(forward.fwd_acceleration, forward.euler, forward.implicit, inverse.inverse, inverse.discrete_acc, support.mul_m)
    ctx.bound(model=tname, nv=nv, nworld=NWORLD, integrator=integ, flags=flags or "-", invdiscrete=invd)
    ctx.assume(
      "forward identity (the solver's fixed point, residual outside): M qacc = qfrc_smooth + qfrc_constraint; it defines qfrc_constraint",
      "efc.Ma = M qacc (maintained by the solver; formed here by the real mul_m)",
      "inverse() recomputes the same M, qfrc_bias, qfrc_passive, qfrc_actuator and (inv_constraint) the same qfrc_constraint as forward() on the same state (stage launches skipped: arrays keep their arbitrary values)",
      "J^T xfrc_applied is an arbitrary vector added by _apply_ft",
      "C21 contract for factor_m / solve_m / factor_solve_i; deriv_smooth_vel writes an arbitrary matrix on M's sparsity (same state -> same matrix)",
      "INVDISCRETE: the acceleration given to inverse() is the one the integrator hands to _advance, i.e. (qvel' - qvel) / h",
    )
    C = Contracts(mjm, NWORLD, d2)
    with C.patched(), la.HostRun(mode="exec", on_launch=C.on_launch, naming=False, skip_tiled=True, skip_fills=True) as hr:
      forward.fwd_acceleration(m2, d2, factorize=True)
      # the solver: qacc arbitrary, qfrc_constraint := M qacc - qfrc_smooth, efc.Ma := M qacc
      support.mul_m(m2, d2, d2.efc.Ma, d2.qacc)
      cc, sc, mc = arrs["qfrc_constraint"].ref.cell, arrs["qfrc_smooth"].ref.cell, arrs["efc.Ma"].ref.cell
      for k in range(cc.size):
        cc.d[0][k] = arith("-", mc.d[0][k], sc.d[0][k])
      if invd:
        (forward.euler if integ == "Euler" else forward.implicit)(m2, d2)
        if C.advanced is None:
          raise core.Unsupported("integrator did not call _advance")
        qc = arrs["qacc"].ref.cell
        for w in range(NWORLD):
          for i in range(nv):
            qc.d[0][w * nv + i] = C.advanced[w][i]
      qacc_given = [vals(arrs["qacc"].ref.cell, w) for w in range(NWORLD)]
      inverse.inverse(m2, d2)
    for e in hr.events:
      if e.kind == "launch" and any(e.kernel.key.startswith(k) for k in EXEC):
        ctx.encode(e.kernel)
    ctx.notes.append("interpreted / contract calls in order: " + " ; ".join(C.log))
    sess = ctx.session([core.zbool(a) for a in hr.assumes] + [core.zbool(f) for f in C.facts])
    ctx.reach(sess, "twin:state", True)
    rp = roundtrip_replay(ctx, tname, cfg)
    for w in range(NWORLD):
      applied, actuator = vals_pre(arrs["qfrc_applied"].ref.cell, w), vals_pre(arrs["qfrc_actuator"].ref.cell, w)
      got = vals(arrs["qfrc_inverse"].ref.cell, w)
      for i in range(nv):
        want = arith("+", arith("+", applied[i], C.X[w][i]), actuator[i])
        # query name ends in a literal '*': the registered known-finding key is the fnmatch glob  w*/roundtrip[*]  whose
        # bracket is a character class matching exactly '*'
        ctx.prove(sess, f"w{w}/dof{i}/roundtrip*", cmp("==", got[i], want), replay=rp, desc=f"inverse(forward(x)) ({name}, {tname}): qfrc_inverse[{i}] differs from qfrc_applied + J^T xfrc_applied + qfrc_actuator")
        ctx.prove(sess, f"w{w}/qacc-restored[{i}]", cmp("==", vals(arrs["qacc"].ref.cell, w)[i], qacc_given[w][i]), replay=rp, desc=f"inverse() ({name}, {tname}): d.qacc[{i}] is not restored")

  return (f"roundtrip/{tname}/{name}", run)


def main(tier, seed, only=None):
  thorough = tier == "thorough"
  trees = ["chain2", "slide+chain2"] + (["chain3"] if thorough else [])
  units = [("kernel", unit_kernels)]
  for t in trees:
    for cfg in CONFIGS:
      units.append(unit_inverse(t, cfg))
      if cfg[1] not in ("RK4", "implicit"):
        units.append(unit_roundtrip(t, cfg))
  if only:
    units = [u for u in units if any(o in u[0] for o in only)]
  return report.run_check(PID, units, tier, seed)
