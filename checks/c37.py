"""C37 Pipeline stages compose consistently.

 compose/<integrator>[/sleep]   F7: launch traces of the REAL step() and of step1(); step2() on a tiny model (wp.launch /
      launch_tiled / capture_while / zero_ / copy intercepted, Data arrays labelled).  Decided: both run the same launches on
      the same arrays in the same order, except that step() factorises M inside fwd_acceleration (factor_solve_i) while
      step1();step2() factorise in fwd_position (factor_m) and solve in fwd_acceleration (solve_m); no launch between the two
      factorisation points can write M / qLD / qLDiagInv (K-mode write queries on the real kernels).  With the lemma
      factor_m;solve_m == factor_solve_i (C21) the results are equal.  With sleep enabled both paths solve the smooth system in
      compacted space; step1()'s factor_m is then dead code: the solver proves that no launch of either path loads from or
      stores to qLD / qLDiagInv (which step() leaves stale: they are excluded from the equality claim).
 forward/<model>                F7 + K: no launch (and no zero_/fill_/copy) of the REAL forward() can write an integration-state
      field (time, qpos, qvel, act, history, qacc_warmstart, ctrl, qfrc_applied, xfrc_applied, eq_active, mocap_pos,
      mocap_quat, userdata): for every launch that binds such a field the solver is asked whether the real kernel can
      store to the bound parameter.
"""

import json
import os

import numpy as np
import warp as wp
import z3

from checks import lib
from wsym import core, host, kh, report
from wsym.core import And, Not, Or

PID = "C37"

STATE_FIELDS = ["time", "qpos", "qvel", "act", "history", "qacc_warmstart", "ctrl", "qfrc_applied", "xfrc_applied", "eq_active", "mocap_pos", "mocap_quat", "userdata"]

XML = """<mujoco><option integrator="{integ}" {solver}><flag {flag}/></option><size nuserdata="2"/><worldbody><geom type="plane" size="5 5 .1"/>
<body pos="0 0 .09"><freejoint/><geom size=".1"/></body>
<body name="b" pos="1 0 1"><joint name="j" axis="0 1 0" damping="0.1" armature="0.05" limited="true" range="-1 1"/><geom size=".1" pos=".2 0 0"/>
 <body pos=".4 0 0"><joint name="j2" axis="0 1 0" damping="0.05"/><geom size=".08" pos=".2 0 0"/></body></body>
<body name="f" pos="2 0 1"><freejoint/><geom size=".1" contype="0" conaffinity="0"/></body>
<body name="mc" pos="2 0 1" mocap="true"><geom size=".05" contype="0" conaffinity="0"/></body></worldbody>
<tendon><fixed name="t" armature="0.3"><joint joint="j" coef="1"/><joint joint="j2" coef="-0.5"/></fixed></tendon>
<equality><weld body1="f" body2="mc" active="true"/></equality>
<actuator><general name="a0" joint="j" dyntype="integrator" {adelay}/><motor name="a1" joint="j2" gear="2"/></actuator>
<sensor><jointpos joint="j" {sdelay}/><jointvel joint="j"/><actuatorfrc actuator="a0"/></sensor></mujoco>"""

XML_SLEEP = """<mujoco><option integrator="{integ}"><flag sleep="enable"/></option><worldbody><geom type="plane" size="5 5 .1"/>
<body pos="0 0 .1"><freejoint/><geom size=".1"/></body>
<body pos="1 0 .1"><freejoint/><geom size=".1"/></body></worldbody></mujoco>"""


SOLVERS = {"Newton": 'solver="Newton"', "CG4": 'solver="CG" iterations="4"', "CG": 'solver="CG"'}


def xml_for(integ="Euler", delay=True, sleep=False, solver="Newton"):
  """model family of the compose / forward units: joint armature, tendon armature (both enter M), joint limit, contact,
  weld to a mocap body, delayed + direct actuators, delayed sensor; solver Newton / CG / CG capped at 4 iterations"""
  if sleep:
    return XML_SLEEP.format(integ=integ)
  return XML.format(integ=integ, solver=SOLVERS[solver], flag="", adelay='delay="0.004" nsample="3"' if delay else "", sdelay='delay="0.004" nsample="2"' if delay else "")


def build(xml, nworld=2):
  import mujoco

  import mujoco_warp as mjw

  mjm = mujoco.MjModel.from_xml_string(xml)
  m = mjw.put_model(mjm)
  d = mjw.make_data(mjm, nworld=nworld, nconmax=4, njmax=16)
  return mjm, m, d


def trace(fn, xml):
  """-> TraceRun with .marks = {name: [(first launch index, end index)]} for smooth.factor_m / solve_m / factor_solve_i"""
  from checks import hosttrace_c37 as T
  from mujoco_warp._src import smooth

  mjm, m, d = build(xml)
  d2 = host.shim_dataclass(d, "d.", symbolic=lambda n: False)
  marks = {"factor_m": [], "solve_m": [], "factor_solve_i": []}
  saved = {k: getattr(smooth, k) for k in marks}
  hr = T.TraceRun()

  def wrap(name):
    f = saved[name]

    def g(*a, **kw):
      i0 = len(hr.launches)
      r = f(*a, **kw)
      marks[name].append((i0, len(hr.launches)))
      return r

    return g

  for k in marks:
    setattr(smooth, k, wrap(k))
  try:
    with hr:
      fn(m, d2)
  finally:
    for k, v in saved.items():
      setattr(smooth, k, v)
  hr.marks = marks
  hr.other = []  # (number of launches before, kind, info) of host-side array writes
  n = 0
  for e in hr.events:
    if e.kind in ("launch", "launch_tiled"):
      n += 1
    elif e.kind in ("zero_", "fill_", "copy"):
      hr.other.append((n, e.kind, e.info))
  return hr


def sigs(ls, ren=None):
  """launch signatures with scratch arrays renamed by order of first appearance (temporaries get fresh names per run)"""
  ren = {} if ren is None else ren
  out = []
  for l in ls:
    k, dim, labs = l.sig()
    labs = tuple(ren.setdefault(x, f"scratch{len(ren)}") if isinstance(x, str) and x.startswith("tmp") else x for x in labs)
    out.append((k, dim, labs))
  return out


# ------------------------------------------------------------------------------------------------ step == step1;step2


COMPOSE_FIELDS = ["qpos", "qvel", "act", "time", "history", "qacc_warmstart", "sensordata", "energy", "qacc", "actuator_force", "qacc_smooth", "qfrc_smooth", "qfrc_constraint", "qfrc_actuator", "qfrc_passive", "qfrc_bias", "M", "act_dot", "xpos", "cvel", "solver_niter"]
FACTOR_FIELDS = ["qLD", "qLDiagInv"]  # compared unless sleep is enabled (step() then never factorises M)


def native_compose(integ, sleep):
  """real step() vs step1();step2() (and mujoco) from the same user-modified state, for Newton, CG and CG capped at 4
  iterations (the cap makes everything that enters the solver's start point / preconditioner visible); every Data field the
  compose claim covers is compared.  -> (same, details)"""
  import copy

  import mujoco

  import mujoco_warp as mjw

  out = {}
  same = True
  for solver in (["Newton"] if sleep else ["Newton", "CG4", "CG"]):
    mjm = mujoco.MjModel.from_xml_string(xml_for(integ, sleep=sleep, solver=solver))
    mjd = mujoco.MjData(mjm)
    rng = np.random.default_rng(3)
    if sleep:
      for _ in range(400):  # let both spheres fall asleep
        mujoco.mj_step(mjm, mjd)
    else:
      mjd.qvel[:] = rng.uniform(-0.5, 0.5, size=mjm.nv)
      mjd.ctrl[:] = 0.7
      for _ in range(3):
        mujoco.mj_step(mjm, mjd)
    m = mjw.put_model(mjm)
    m.opt.warn_overflow = False
    da, db = mjw.put_data(mjm, mjd), mjw.put_data(mjm, mjd)
    ma, mb = copy.copy(mjd), copy.copy(mjd)
    if not sleep:  # the user sets a new state and control before stepping: every derived quantity in Data is stale
      qv = rng.uniform(-1, 1, size=mjm.nv)
      hinge = [0.4, -0.7]
      for dd in (da, db):
        v = dd.qvel.numpy()
        v[0, :] = qv
        dd.qvel = wp.array(v, dtype=float)
        q = dd.qpos.numpy()
        q[0, 7:9] = hinge
        dd.qpos = wp.array(q, dtype=float)
        dd.ctrl.fill_(-3.0)
      for mm in (ma, mb):
        mm.qvel[:] = qv
        mm.qpos[7:9] = hinge
        mm.ctrl[:] = -3.0
    if sleep:  # user input: push the first (sleeping) sphere upwards
      for dd in (da, db):
        x = dd.xfrc_applied.numpy()
        x[0, 1, 2] = 50.0
        dd.xfrc_applied = wp.array(x, dtype=wp.spatial_vector)
      ma.xfrc_applied[1, 2] = 50.0
      mb.xfrc_applied[1, 2] = 50.0
    mjw.step(m, da)
    mjw.step1(m, db)
    mjw.step2(m, db)
    mujoco.mj_step(mjm, ma)
    mujoco.mj_step1(mjm, mb)
    mujoco.mj_step2(mjm, mb)
    res = {}
    for f in COMPOSE_FIELDS + ([] if sleep else FACTOR_FIELDS):
      a, b = np.asarray(getattr(da, f).numpy()[0], dtype=float), np.asarray(getattr(db, f).numpy()[0], dtype=float)
      ok = bool(np.allclose(a, b, rtol=1e-4, atol=1e-6))
      same = same and ok
      res[f] = {"equal": ok, "max |step - step1;step2|": float(np.max(np.abs(a - b))) if a.size else 0.0}
      if not ok or f in ("qpos", "qvel", "qacc", "qacc_smooth"):
        res[f].update({"mjwarp step": a.tolist(), "mjwarp step1;step2": b.tolist()})
        if hasattr(ma, f) and f not in ("M", "qLD", "qLDiagInv"):
          res[f]["mujoco step"] = np.asarray(getattr(ma, f)).tolist()
          res[f]["mujoco step1;step2"] = np.asarray(getattr(mb, f)).tolist()
    if sleep:
      res["tree_asleep"] = {"mjwarp step": da.tree_asleep.numpy()[0].tolist(), "mjwarp step1;step2": db.tree_asleep.numpy()[0].tolist(), "mujoco step": ma.tree_asleep.tolist(), "mujoco step1;step2": mb.tree_asleep.tolist()}
    out[solver] = res
  return same, out


def compose_replay(ctx, integ, sleep, what):
  def _rp(model):
    same, out = native_compose(integ, sleep)
    os.makedirs(os.path.join(report.VERIF, "replays", PID), exist_ok=True)
    path = os.path.join(report.VERIF, "replays", PID, f"{ctx.unit.replace('/', '_')}.{what}.json")
    with open(path, "w") as f:
      json.dump({"property": PID, "xml": xml_for(integ, sleep=sleep), "how": ("both spheres asleep after 400 mj_step, put_data, then xfrc_applied[body 1, z] = 50 (user input before the step); " if sleep else "random qvel, ctrl 0.7, 3 mj_step, put_data, then new qvel / hinge angle / ctrl set by the user; ") + "put_data twice; mjw.step vs mjw.step1 + mjw.step2 (mujoco's own mj_step vs mj_step1 + mj_step2 for comparison); solvers Newton, CG capped at 4 iterations, CG; fields " + ", ".join(COMPOSE_FIELDS + ([] if sleep else FACTOR_FIELDS)), "solver option": SOLVERS, "fields": out, "step equals step1;step2": same}, f, indent=1)
    return (not same), path

  return _rp


def can_write(kt, label):
  cell = kt.cell(label)
  return Or(*[a.guard for a in kt.it.accesses if a.cell is cell and a.kind.startswith(("W", "A"))])


def goal_nowrite(spec, pre, post):
  lab = spec["env"]["label"]
  changed = lab in pre and not np.array_equal(pre[lab], post[lab], equal_nan=True)
  sent = (spec["env"].get("sentinels") or {}).get(lab)
  if sent is not None and np.any(post[lab] != sent):
    changed = True
  return (not changed), f"thread {spec['tid']} wrote {lab}"


def capture(key):
  """replay locator: 'capture:checks.c37:capture:<which>|<xml-args>|<index>' -> kernel of that launch of the traced host function"""
  which, integ, delay, sleep, idx = key.split("|")
  import mujoco_warp as mjw

  fn = {"step12": lambda m, d: (mjw.step1(m, d), mjw.step2(m, d)), "forward": lambda m, d: mjw.forward(m, d), "step": lambda m, d: mjw.step(m, d)}[which]
  hr = trace(fn, xml_for(integ, delay == "1", sleep == "1"))
  return hr.launches[int(idx)].kernel


def history_stubs():
  """contracts of the history funcs (decided by C30): an insertion stores into its own buffer of Data.history, a vector read
  stores into sensordata[adr:adr+dim], a scalar read returns a value -- enough to decide WHICH arrays a caller can write"""

  def ins_scalar(it, fr, a):
    worldid, off, buf = a[0], a[1], a[5]
    it.store(buf, (worldid, core.arith("+", off, 1)), it.fresh_val("real", "hist"), it.active(fr), "contract:_history_insert_scalar")

  def ins_vector(it, fr, a):
    worldid, off, buf = a[0], a[1], a[7]
    it.store(buf, (worldid, core.arith("+", off, 1)), it.fresh_val("real", "hist"), it.active(fr), "contract:_history_insert_vector")

  def read_scalar(it, fr, a):
    return it.fresh_val("real", "hread")

  def read_vector(it, fr, a):
    adr, worldid, out = a[0], a[2], a[8]
    it.store(out, (worldid, adr), it.fresh_val("real", "hread"), it.active(fr), "contract:_history_read_vector")
    return 1

  return {"_history_insert_scalar": ins_scalar, "_history_insert_vector": ins_vector, "_history_read_scalar": read_scalar, "_history_read_vector": read_vector}


def write_query(ctx, l, loc, param, name, desc, replay=None):
  """solver query: can the real kernel of launch `l` store to parameter `param`?  -> True if proved that it cannot"""
  if l.tiled:
    ctx.notes.append(f"outside: tile kernel {l.key} binds {param}: not encodable")
    return None
  try:
    kt = lib.kernel_thread(l.kernel, unroll=2, alias_inout=False, interp_kw={"float_uf": True, "summaries": history_stubs()})
  except core.Unsupported as ex:
    ctx.notes.append(f"outside: {l.key} binds {param} but is not encodable ({ex})")
    return None
  ctx.encode(l.kernel)
  sess = ctx.session(kt.bg)
  ctx.reach(sess, f"twin:{name}", True)
  env = {"label": param}
  if kt.cell(param).dtype in ("int", "real"):
    env["sentinels"] = {param: -777 if kt.cell(param).dtype == "int" else -777.0}
  rp = replay or lib.make_replay(ctx, kt, loc, name, "goal", goal="checks.c37:goal_nowrite", env=env)
  nice = [v.cell.shape[k] >= 2 for v in kt.args.values() if isinstance(v, core.ArrRef) for k in range(v.cell.ndim) if core.is_sym(v.cell.shape[k])]
  from checks.c30 import nice_replay

  # one query per store site of the bound parameter (smallest path condition first); the first satisfiable one decides
  cell = kt.cell(param)
  sites = sorted([a for a in kt.it.accesses if a.cell is cell and a.kind.startswith(("W", "A"))], key=lambda a: len(str(a.guard)))
  if not sites:
    ctx.prove(sess, name, True, desc=desc)  # the kernel has no store to this parameter at all
    return True
  for a in sites:
    goal = Not(a.guard)
    r = ctx.prove(sess, f"{name}@{a.where.split(':')[-1]}", goal, names={}, replay=nice_replay(sess, goal, True, nice, rp), desc=desc)
    if r.status != "unsat":
      return False
  return True


def access_query(ctx, l, loc, param, name, desc, replay=None):
  """solver query: can the real kernel of launch `l` load from or store to parameter `param` at all?"""
  if l.tiled:
    ctx.error(f"tile kernel {l.key} binds {param}: cannot decide whether it is accessed ({name})")
    return None
  try:
    kt = lib.kernel_thread(l.kernel, unroll=2, alias_inout=False, interp_kw={"float_uf": True, "summaries": history_stubs()})
  except core.Unsupported as ex:
    ctx.error(f"{l.key} binds {param} but is not encodable ({ex}) ({name})")
    return None
  ctx.encode(l.kernel)
  sess = ctx.session(kt.bg)
  ctx.reach(sess, f"twin:{name}", True)
  cell = kt.cell(param)
  sites = sorted([a for a in kt.it.accesses if a.cell is cell], key=lambda a: len(str(a.guard)))
  if not sites:
    ctx.prove(sess, name, True, desc=desc)
    return True
  for a in sites:
    r = ctx.prove(sess, f"{name}@{a.where.split(':')[-1]}", Not(a.guard), names={}, replay=replay, desc=desc)
    if r.status != "unsat":
      return False
  return True


def unit_compose(integ, sleep=False):
  def run(ctx):
    import mujoco_warp as mjw

    xml = xml_for(integ, sleep=sleep)
    a = trace(lambda m, d: mjw.step(m, d), xml)
    b = trace(lambda m, d: (mjw.step1(m, d), mjw.step2(m, d)), xml)
    ctx.encode(mjw.step, mjw.step1, mjw.step2)
    ctx.bound(integrator=integ, sleep=sleep, nworld=2, model="free sphere on plane, 2-link arm with a joint limit, free body welded to a mocap body, delayed integrator actuator, delayed sensor" if not sleep else "two free spheres, sleep enabled")
    ctx.assume("the host control flow depends only on Model / option fields (the traces are taken on one tiny model per configuration)", "factor_m ; solve_m == factor_solve_i on the same M, rhs (lemma of C21)")
    sess = ctx.session([])
    ctx.reach(sess, "twin:traced", z3.BoolVal(len(a.launches) > 10 and len(b.launches) > 10))
    rp = lambda what: compose_replay(ctx, integ, sleep, what)
    A, B = a.launches, b.launches
    if not sleep:
      # step(): the first factor_solve_i (on Data.M) is fwd_acceleration's; later ones (the integrators' own systems) occur in both
      okm = len(a.marks["factor_solve_i"]) >= 1 and len(b.marks["factor_m"]) == 1 and len(b.marks["solve_m"]) == 1 and not a.marks["factor_m"] and not a.marks["solve_m"] and len(b.marks["factor_solve_i"]) == len(a.marks["factor_solve_i"]) - 1
      ctx.prove(sess, "factorisation-points", z3.BoolVal(okm), desc=f"step() / step1();step2() do not factorise M exactly once as expected: step {a.marks}, step1;step2 {b.marks}", replay=rp("factorisation-points"))
      if not okm:
        return
      (fs0, fs1), (f0, f1), (s0, s1) = a.marks["factor_solve_i"][0], b.marks["factor_m"][0], b.marks["solve_m"][0]
      A0, A1 = A[:fs0], A[fs1:]
      B0, B1, B2 = B[:f0], B[f1:s0], B[s1:]
    else:
      # sleep enabled: fwd_acceleration solves the smooth system in compacted space (smooth_solve_compact) in both paths, so
      # neither solve_m nor a factor_solve_i on Data.M occurs; step1()'s fwd_position still runs factor_m (factorize=True),
      # whose only outputs qLD / qLDiagInv must then be dead: no other launch of either path may read or write them.
      okm = not a.marks["factor_m"] and not a.marks["solve_m"] and not b.marks["solve_m"] and len(b.marks["factor_m"]) == 1 and len(a.marks["factor_solve_i"]) == len(b.marks["factor_solve_i"])
      ctx.prove(sess, "factorisation-points", z3.BoolVal(okm), desc=f"sleep enabled: expected no factorisation of Data.M in step() and one (unused) factor_m in step1(): step {a.marks}, step1;step2 {b.marks}", replay=rp("factorisation-points"))
      if not okm:
        return
      f0, f1 = b.marks["factor_m"][0]
      A0, A1 = A, []
      B0, B1, B2 = B[:f0], B[f1:], []
    ra, rb = {}, {}
    pa, pb = sigs(A0, ra), sigs(B0 + B1, rb)
    ctx.prove(sess, "same-launches/up-to-acceleration", z3.BoolVal(pa == pb), desc=f"step() and step1();step2() launch different kernels / bind different arrays before the smooth acceleration solve: {first_diff(pa, pb)}", replay=rp("same-launches"))
    qa, qb = sigs(A1, ra), sigs(B2, rb)
    ctx.prove(sess, "same-launches/after-acceleration", z3.BoolVal(qa == qb), desc=f"step() and step1();step2() differ after the smooth acceleration solve: {first_diff(qa, qb)}", replay=rp("same-launches-after"))
    def hostops(hr, ren):
      out = []
      for n, kind, info in hr.other:
        names = info if isinstance(info, tuple) else (info,)
        out.append((kind,) + tuple(ren.setdefault(x, f"scratch{len(ren)}") if isinstance(x, str) and x.startswith("tmp") else x for x in names))
      return out

    ha, hb = hostops(a, ra), hostops(b, rb)
    ctx.prove(sess, "same-host-writes", z3.BoolVal(ha == hb), desc=f"zero_/fill_/copy operations differ: {first_diff(ha, hb)}", replay=rp("host-writes"))
    def labels(ls, out):
      return sorted({lab for l in ls for p, lab, o in l.bound() if lab and lab.startswith("d.") and o == out})

    if sleep:
      F = B[f0:f1]
      io = (labels(F, False), labels(F, True))
      ctx.notes.append(f"step1()'s factor_m: Data inputs {io[0]}, outputs {io[1]} (not consumed with sleep enabled; step() leaves qLD / qLDiagInv stale: they are excluded from the equality claim)")
      ctx.prove(sess, "factorisation-dataflow", z3.BoolVal(set(io[0]) <= {"d.M"} and set(io[1]) <= {"d.qLD", "d.qLDiagInv"}), desc=f"factor_m is bound to unexpected Data arrays: {io}", replay=rp("dataflow"))
      dead = {"d.qLD", "d.qLDiagInv"}
      for which, ls, off, tag in (("step12", B0, 0, "step1;step2"), ("step12", B1, f1, "step1;step2"), ("step", A, 0, "step")):
        for k, l in enumerate(ls):
          for p, lab, o in l.bound():
            if lab in dead:
              access_query(ctx, l, f"capture:checks.c37:capture:{which}|{integ}|1|1|{off + k}", p, f"dead-factor/no-access/{lab}/{tag}/{l.key.replace('__locals__', '.')}#{off + k}", f"sleep enabled: {l.key} ({tag}) accesses {lab}, which only step1() factorises: step() and step1();step2() can differ", replay=rp("dead-factor"))
      for hr_, tag in ((a, "step"), (b, "step1;step2")):
        for n, kind, info in hr_.other:
          names = info if isinstance(info, tuple) else (info,)
          if dead & set(x for x in names if isinstance(x, str)):
            ctx.prove(sess, f"dead-factor/host-{kind}/{tag}", z3.BoolVal(False), desc=f"host {kind} {info} touches the factor of M ({tag})", replay=rp("dead-factor"))
      return
    # factorisation reads M and writes qLD / qLDiagInv; the solve reads them and qfrc_smooth and writes qacc_smooth

    FS, F, S = A[fs0:fs1], B[f0:f1], B[s0:s1]
    io = {"factor_solve_i": (labels(FS, False), labels(FS, True)), "factor_m": (labels(F, False), labels(F, True)), "solve_m": (labels(S, False), labels(S, True))}
    ctx.notes.append(f"Data arrays (inputs, outputs): {io}")
    ok_io = set(io["factor_m"][0]) <= {"d.M"} and set(io["factor_m"][1]) <= {"d.qLD", "d.qLDiagInv"} and set(io["solve_m"][1]) == {"d.qacc_smooth"} and set(io["solve_m"][0]) <= {"d.qLD", "d.qLDiagInv", "d.qfrc_smooth"} and set(io["factor_solve_i"][0]) <= {"d.M", "d.qfrc_smooth"} and set(io["factor_solve_i"][1]) <= {"d.qLD", "d.qLDiagInv", "d.qacc_smooth"} and "d.qacc_smooth" in io["factor_solve_i"][1]
    ctx.prove(sess, "factorisation-dataflow", z3.BoolVal(ok_io), desc=f"factor_m / solve_m / factor_solve_i are bound to unexpected Data arrays: {io}", replay=rp("dataflow"))
    # between the two factorisation points nothing may write M or the factor
    moved = {"d.M", "d.qLD", "d.qLDiagInv"}
    for k, l in enumerate(B1):
      idx = f1 + k
      for p, lab, o in l.bound():
        if lab in moved:
          write_query(ctx, l, f"capture:checks.c37:capture:step12|{integ}|1|0|{idx}", p, f"between-factorisations/no-write/{lab}/{l.key.replace('__locals__', '.')}#{idx}", f"{l.key} (launched between fwd_position's factorisation and fwd_acceleration's solve) can write {lab}: moving the factorisation changes the result", replay=rp("between"))
    for n, kind, info in b.other:
      dest = info[0] if isinstance(info, tuple) else info
      if dest in moved and f1 <= n <= s0:
        ctx.prove(sess, f"between-factorisations/host-write/{dest}", z3.BoolVal(False), desc=f"host {kind} on {dest} between the two factorisation points", replay=rp("between"))

  return (f"compose/{integ}" + ("/sleep" if sleep else ""), run)


def unit_readonly(integ):
  """sanity lemma behind the data-flow reading of the traces: a Data field that the host passes to a kernel as an INPUT (not in
  outputs=[...], not named *_out) is never stored to; decided per kernel of the step() trace by K-mode write queries"""

  def run(ctx):
    import mujoco_warp as mjw

    hr = trace(lambda m, d: mjw.step(m, d), xml_for(integ))
    ctx.bound(integrator=integ, unroll=2, note="every distinct non-tile kernel launched by step() on the tiny model")
    ctx.assume("float products are uninterpreted", "history funcs replaced by their write contracts (C30)")
    sess = ctx.session([])
    ctx.reach(sess, "twin:traced", z3.BoolVal(len(hr.launches) > 10))
    seen = set()
    nk = nq = 0
    for idx, l in enumerate(hr.launches):
      if id(l.kernel) in seen:
        continue
      seen.add(id(l.kernel))
      ro = [p for i, (p, a) in enumerate(zip(l.params, l.args)) if isinstance(a, host.SymArr) and a.name_.startswith("d.") and i < l.nin and not p.endswith("_out")]
      if not ro:
        continue
      if l.tiled:
        ctx.notes.append(f"outside: tile kernel {l.key}")
        continue
      try:
        kt = lib.kernel_thread(l.kernel, unroll=2, alias_inout=False, interp_kw={"float_uf": True, "summaries": history_stubs()})
      except core.Unsupported as ex:
        ctx.notes.append(f"outside: {l.key} not encodable ({ex})")
        continue
      nk += 1
      ctx.encode(l.kernel)
      s2 = None
      for p in ro:
        cell = kt.cell(p)
        sites = [a for a in kt.it.accesses if a.cell is cell and a.kind.startswith(("W", "A"))]
        nq += 1
        if not sites:
          ctx.prove(sess, f"input-not-stored/{l.key.replace('__locals__', '.')}/{p}", True, desc="")
          continue
        s2 = s2 or ctx.session(kt.bg)
        env = {"label": p}
        rp = lib.make_replay(ctx, kt, f"capture:checks.c37:capture:step|{integ}|1|0|{idx}", f"input-not-stored/{p}", "goal", goal="checks.c37:goal_nowrite", env=env)
        ctx.prove(s2, f"input-not-stored/{l.key.replace('__locals__', '.')}/{p}", Not(Or(*[a.guard for a in sites])), replay=rp, desc=f"{l.key} stores to `{p}` although the host passes it as an input: launch traces do not describe the data flow")
    ctx.notes.append(f"{nk} kernels, {nq} input parameters examined")

  return (f"dataflow/inputs-readonly/{integ}", run)


def first_diff(x, y):
  for i, (p, q) in enumerate(zip(x, y)):
    if p != q:
      return f"at #{i}: {str(p)[:160]} vs {str(q)[:160]}"
  if len(x) != len(y):
    i = min(len(x), len(y))
    return f"lengths {len(x)} vs {len(y)}; first extra: {str((x + y)[i] if len(x) > len(y) else y[i])[:200]}"
  return "none"


# ------------------------------------------------------------------------------------------------ forward() keeps the state


def native_forward(delay, field):
  """real forward() vs mujoco.mj_forward: is `field` changed?"""
  import mujoco

  import mujoco_warp as mjw

  mjm = mujoco.MjModel.from_xml_string(xml_for("Euler", delay))
  mjd = mujoco.MjData(mjm)
  for k in range(4):
    mjd.ctrl[:] = 0.5 + 0.3 * k
    mujoco.mj_step(mjm, mjd)
  m = mjw.put_model(mjm)
  d = mjw.put_data(mjm, mjd)
  before = getattr(d, field).numpy().copy()
  mj_before = np.asarray(getattr(mjd, field)).copy()
  mjw.forward(m, d)
  mujoco.mj_forward(mjm, mjd)
  after = getattr(d, field).numpy().copy()
  changed = not np.array_equal(before, after)
  return changed, {"mjwarp before": before.tolist(), "mjwarp after forward": after.tolist(), "mujoco before": mj_before.tolist(), "mujoco after mj_forward": np.asarray(getattr(mjd, field)).tolist()}


def forward_replay(ctx, delay, field):
  def _rp(model):
    changed, out = native_forward(delay, field)
    os.makedirs(os.path.join(report.VERIF, "replays", PID), exist_ok=True)
    path = os.path.join(report.VERIF, "replays", PID, f"{ctx.unit.replace('/', '_')}.{field}.json")
    with open(path, "w") as f:
      json.dump({"property": PID, "xml": xml_for("Euler", delay), "field": field, "how": "4 mj_step with ctrl 0.5 + 0.3 k, put_data, mjw.forward(m, d) vs mujoco.mj_forward: the integration-state field before / after", "result": out, "changed by mjwarp forward": changed}, f, indent=1)
    return changed, path

  return _rp


def unit_forward(name, delay):
  def run(ctx):
    import mujoco_warp as mjw

    xml = xml_for("Euler", delay)
    hr = trace(lambda m, d: mjw.forward(m, d), xml)
    ctx.encode(mjw.forward)
    ctx.bound(model=name, nworld=2, unroll=2)
    ctx.assume("a kernel can only modify the arrays bound to its parameters", "float products are uninterpreted (whether a store happens does not depend on float values)")
    sess = ctx.session([])
    ctx.reach(sess, "twin:traced", z3.BoolVal(len(hr.launches) > 10))
    nbound = 0
    for idx, l in enumerate(hr.launches):
      for p, lab, o in l.bound():
        if lab and lab.startswith("d.") and lab[2:] in STATE_FIELDS:
          F = lab[2:]
          nbound += 1
          write_query(ctx, l, f"capture:checks.c37:capture:forward|Euler|{int(delay)}|0|{idx}", p, f"forward-writes/{F}/{l.key.replace('__locals__', '.')}#{idx}", f"forward() launches {l.key} with Data.{F} bound to `{p}` and the kernel can store to it: forward() modifies the integration state", replay=forward_replay(ctx, delay, F))
    for n, kind, info in hr.other:
      dest = info[0] if isinstance(info, tuple) else info
      if isinstance(dest, str) and dest.startswith("d.") and dest[2:] in STATE_FIELDS:
        ctx.prove(sess, f"forward-writes/{dest[2:]}/host-{kind}", z3.BoolVal(False), desc=f"forward() applies {kind} to Data.{dest[2:]}", replay=forward_replay(ctx, delay, dest[2:]))
    ctx.notes.append(f"{len(hr.launches)} launches, {nbound} bindings of integration-state fields examined")

  return (f"forward/{name}", run)


def main(tier, seed, only=None):
  import mujoco  # noqa: F401

  import mujoco_warp  # noqa: F401

  units = [unit_compose("Euler"), unit_compose("implicitfast"), unit_compose("implicit"), unit_compose("Euler", sleep=True), unit_forward("delay", True), unit_forward("plain", False)]
  if tier == "thorough":
    units += [unit_compose("implicitfast", sleep=True), unit_readonly("Euler")]
  if only:
    units = [u for u in units if any(o in u[0] for o in only)]
  return report.run_check(PID, units, tier, seed)
