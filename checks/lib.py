"""Shared helpers for the per-property check modules (K-mode: one generic thread of one kernel)."""

import ast
import inspect
import os
import textwrap

import warp as wp
import z3

from wsym import core, kh, replay
from wsym.core import And, ArrRef, Implies, Not, Or, Vec, arith, cmp, is_sym, ite, to_z3, zbool

wp.config.quiet = True


def tid_ndim(kernel):
  """number of launch dimensions a kernel unpacks from wp.tid()."""
  node, _, _ = core.fdef(kernel.func)
  for n in ast.walk(node):
    if isinstance(n, ast.Assign) and isinstance(n.value, ast.Call) and isinstance(n.value.func, ast.Attribute) and n.value.func.attr == "tid":
      t = n.targets[0]
      return len(t.elts) if isinstance(t, ast.Tuple) else 1
  return 1


class KT:
  """one symbolically executed kernel thread"""

  def __init__(self, kernel, args, it, tid, bg, shapes_bg):
    self.kernel, self.args, self.it, self.tid, self.bg, self.shapes_bg = kernel, args, it, tid, bg, shapes_bg

  def cell(self, label):
    return self.args[label].cell

  def pre(self, label, *idx, k=0):
    c = self.cell(label)
    return c.get(idx, k, snap=c.a0 if c.mode == "array" else c.d0)

  def prev(self, label, *idx):
    c = self.cell(label)
    return c.getv(idx, snap=c.a0 if c.mode == "array" else c.d0)

  def post(self, label, *idx, k=0):
    return self.cell(label).get(idx, k)

  def postv(self, label, *idx):
    return self.cell(label).getv(idx)

  def written(self, label, *idx, kinds=("W", "A")):
    """condition under which this thread stores to label[idx]"""
    cell = self.cell(label)
    terms = []
    for a in self.it.accesses:
      if a.cell is not cell or not a.kind.startswith(kinds):
        continue
      terms.append(And(a.guard, *[cmp("==", i, j) for i, j in zip(a.idx, idx)]))
    return Or(*terms) if terms else False

  def inshape(self, label, *idx):
    cell = self.cell(label)
    return And(*[And(cmp(">=", i, 0), cmp("<", i, s)) for i, s in zip(idx, cell.shape)])

  def atomic_total(self, label, *idx):
    """sum of this thread's atomic_add increments on label[idx]"""
    cell = self.cell(label)
    tot = 0
    for a in self.it.accesses:
      if a.cell is cell and a.kind == "A:add":
        tot = arith("+", tot, ite(And(a.guard, *[cmp("==", i, j) for i, j in zip(a.idx, idx)]), a.val, 0))
    return tot


def kernel_thread(kernel, shapes=None, scalars=None, unroll=3, alias_inout=True, cap=6, assume_bounds=True, mode="array", tid=None, interp_kw=None):
  """Symbolically execute one generic thread.  Background = shape caps, tid >= 0, side axioms, unwinding assumptions and
  (optionally) the thread's own in-bounds conditions (functional claims are made for executions without OOB; bounds are C17)."""
  args = kh.make_args(kernel, shapes, scalars, mode=mode, alias_inout=alias_inout)
  replay.snapshot_initial(args)
  nd = tid_ndim(kernel)
  if tid is None:
    tid = kh.sym_tid(nd)
  it, _ = kh.run(kernel, args, tid=tid, unroll=unroll, **(interp_kw or {}))
  bg = []
  shapes_bg = []
  seen = set()
  for v in args.values():
    if isinstance(v, ArrRef) and v.cell.uid not in seen:
      seen.add(v.cell.uid)
      for s in v.cell.shape:
        if is_sym(s):
          shapes_bg.append(z3.And(s >= 0, s <= cap))
  for t in tid if isinstance(tid, tuple) else (tid,):
    if is_sym(t):
      bg.append(z3.And(t >= 0, t <= cap))
  bg += shapes_bg
  bg += [zbool(a) for a in it.assumes]
  for o in it.obl:
    if o.kind == "unwind":
      bg.append(zbool(Implies(o.guard, o.cond)))
    elif assume_bounds and o.kind == "bounds":
      # strict range 0 <= i < dim: Warp would wrap a negative in-range index, the array theory here does not
      bg.append(zbool(Implies(o.guard, o.strict)))
  return KT(kernel, args, it, tid, bg, shapes_bg)


def make_replay(ctx, kt, locator, name, kind, goal=None, env=None, note=""):
  """-> callable(model) for UnitCtx.prove(replay=...)"""

  def _rp(model):
    path = replay.write_spec(ctx.pid, ctx.unit, name, locator or f"(in-process kernel object {kt.kernel.key})", kt.kernel, kt.args, model, kt.tid, kind, goal=goal, env=env, note=note)
    return replay.run_spec(path, timeout=900)

  return _rp


def approx(a, b, rtol=1e-3, atol=1e-4):
  return abs(float(a) - float(b)) <= atol + rtol * max(abs(float(a)), abs(float(b)))
