"""Reference models for C03 (and C08's activation advance), written from MuJoCo's C semantics (engine_forward.c: mj_fwdActuation,
mj_nextActivation; engine_util_misc.c: mju_muscleGain/Bias/Dynamics; engine_core_smooth.c: mj_transmission) -- NOT from the
mujoco_warp source.  Every function is polymorphic: python floats or z3 terms (through wsym.core helpers).
`validate()` compares them numerically with the installed `mujoco` library on random small actuator models.
"""

import math

import numpy as np
import z3

from wsym import core
from wsym.core import Interp, Vec, arith, cmp, ite, vmax, vmin

R = z3.RealSort()
MINVAL = 1e-15

# enums of MuJoCo (mjtDyn, mjtGain, mjtBias, mjtTrn, mjtJoint)
import mujoco as _mj

DYN = {k: int(getattr(_mj.mjtDyn, "mjDYN_" + k.upper())) for k in ("none", "integrator", "filter", "filterexact", "muscle", "user")}
GAIN = {k: int(getattr(_mj.mjtGain, "mjGAIN_" + k.upper())) for k in ("fixed", "affine", "muscle")}
BIAS = {k: int(getattr(_mj.mjtBias, "mjBIAS_" + k.upper())) for k in ("none", "affine", "muscle")}


def add(a, b):
  return arith("+", a, b)


def sub(a, b):
  return arith("-", a, b)


def mul(a, b):
  return arith("*", a, b)


def div(a, b):
  if not core.is_sym(a) and not core.is_sym(b) and b == 0:
    return math.nan  # concrete evaluation of a branch that the caller's ite discards
  return arith("/", a, b)


def neg(a):
  return arith("*", a, -1) if core.is_sym(a) else -a


def _order(a, b):
  ka = (0, a.sexpr()) if core.is_sym(a) else (1, repr(float(a)))
  kb = (0, b.sexpr()) if core.is_sym(b) else (1, repr(float(b)))
  return (a, b) if ka <= kb else (b, a)


def cmax(a, b):
  """max with a canonical argument order: max(a, b) and max(b, a) are the same term (shared by implementation and reference)"""
  a, b = _order(core.norm_scalar(a), core.norm_scalar(b))
  return ite(cmp(">=", a, b), a, b)


def cmin(a, b):
  a, b = _order(core.norm_scalar(a), core.norm_scalar(b))
  return ite(cmp("<=", a, b), a, b)


def mju_clip(x, lo, hi):
  """mju_clip literally: x < lo -> lo ; x > hi -> hi ; else x"""
  return ite(cmp("<", x, lo), lo, ite(cmp(">", x, hi), hi, x))


def clip(x, lo, hi):
  """mju_clip for lo <= hi (lemma `lemma/clip` in c03: equal to mju_clip whenever lo <= hi), in canonical min/max form"""
  return cmin(cmax(x, lo), hi)


def exp_(x):
  if core.is_sym(x):
    return z3.Function("exp", R, R)(core.to_z3(x, "real"))
  try:
    return math.exp(x)
  except OverflowError:
    return math.inf


def uf(name, args, k=None):
  zs = [core.to_z3(a, "real") for a in args]
  return z3.Function(name if k is None else f"{name}#{k}", *([R] * len(zs)), R)(*zs)


# ------------------------------------------------------------------------------------------------ muscles


def sigmoid(x):
  poly = mul(mul(mul(x, x), x), add(mul(mul(3.0, x), sub(mul(2.0, x), 5.0)), 10.0))
  return ite(cmp("<=", x, 0.0), 0.0, ite(cmp(">=", x, 1.0), 1.0, poly))


def muscle_dynamics_timescale(dctrl, tau_act, tau_deact, width):
  hard = ite(cmp(">", dctrl, 0.0), tau_act, tau_deact)
  smooth = add(tau_deact, mul(sub(tau_act, tau_deact), sigmoid(add(div(dctrl, width), 0.5))))
  return ite(cmp("<", width, MINVAL), hard, smooth)


def muscle_dynamics(ctrl, act, prm):
  ctrlclamp = clip(ctrl, 0.0, 1.0)
  actclamp = clip(act, 0.0, 1.0)
  s = add(0.5, mul(1.5, actclamp))
  tau_act = mul(prm[0], s)
  tau_deact = div(prm[1], s)
  dctrl = sub(ctrlclamp, act)
  tau = muscle_dynamics_timescale(dctrl, tau_act, tau_deact, prm[2])
  return div(dctrl, cmax(MINVAL, tau))


def muscle_gain_length(L, lmin, lmax):
  a = mul(0.5, add(lmin, 1.0))
  b = mul(0.5, add(1.0, lmax))
  x1 = div(sub(L, lmin), cmax(MINVAL, sub(a, lmin)))
  x2 = div(sub(1.0, L), cmax(MINVAL, sub(1.0, a)))
  x3 = div(sub(L, 1.0), cmax(MINVAL, sub(b, 1.0)))
  x4 = div(sub(lmax, L), cmax(MINVAL, sub(lmax, b)))
  h = lambda x: mul(0.5, mul(x, x))
  inside = ite(cmp("<=", L, a), h(x1), ite(cmp("<=", L, 1.0), sub(1.0, h(x2)), ite(cmp("<=", L, b), sub(1.0, h(x3)), h(x4))))
  return ite(core.And(cmp("<=", lmin, L), cmp("<=", L, lmax)), inside, 0.0)


def _muscle_common(length, lengthrange, acc0, prm):
  force = ite(cmp("<", prm[2], 0.0), div(prm[3], cmax(MINVAL, acc0)), prm[2])
  L0 = div(sub(lengthrange[1], lengthrange[0]), cmax(MINVAL, sub(prm[1], prm[0])))
  L = add(prm[0], div(sub(length, lengthrange[0]), cmax(MINVAL, L0)))
  return force, L0, L


def muscle_gain(length, vel, lengthrange, acc0, prm):
  force, L0, L = _muscle_common(length, lengthrange, acc0, prm)
  lmin, lmax, vmx, fvmax = prm[4], prm[5], prm[6], prm[8]
  V = div(vel, cmax(MINVAL, mul(L0, vmx)))
  FL = muscle_gain_length(L, lmin, lmax)
  y = sub(fvmax, 1.0)
  FV = ite(cmp("<=", V, -1.0), 0.0, ite(cmp("<=", V, 0.0), mul(add(V, 1.0), add(V, 1.0)), ite(cmp("<=", V, y), sub(fvmax, div(mul(sub(y, V), sub(y, V)), cmax(MINVAL, y))), fvmax)))
  return neg(mul(mul(force, FL), FV))


def muscle_bias(length, lengthrange, acc0, prm):
  force, L0, L = _muscle_common(length, lengthrange, acc0, prm)
  lmax, fpmax = prm[5], prm[7]
  b = mul(0.5, add(1.0, lmax))
  den = cmax(MINVAL, sub(b, 1.0))
  x1 = div(sub(L, 1.0), den)
  x2 = div(sub(L, b), den)
  mid = neg(mul(mul(force, fpmax), mul(0.5, mul(x1, x1))))
  hi = neg(mul(mul(force, fpmax), add(0.5, x2)))
  return ite(cmp("<=", L, 1.0), 0.0, ite(cmp("<=", L, b), mid, hi))


# ------------------------------------------------------------------------------------------------ force law


def next_activation(h, dyntype, dynprm0, actlimited, actrange, act, act_dot):
  """mj_nextActivation"""
  if dyntype == DYN["filterexact"]:
    tau = cmax(MINVAL, dynprm0)
    new = add(act, mul(mul(act_dot, tau), sub(1.0, exp_(div(neg(h), tau)))))
  else:
    new = add(act, mul(act_dot, h))
  return ite(actlimited, clip(new, actrange[0], actrange[1]), new)


def act_dot_ref(dyntype, ctrl, act, dynprm, muscle_dyn=muscle_dynamics):
  if dyntype == DYN["integrator"]:
    return ctrl
  if dyntype in (DYN["filter"], DYN["filterexact"]):
    return div(sub(ctrl, act), cmax(MINVAL, dynprm[0]))
  if dyntype == DYN["muscle"]:
    return muscle_dyn(ctrl, act, dynprm)
  return 0.0  # none; user without callback


def force_ref(p, muscle=(muscle_dynamics, muscle_gain, muscle_bias)):
  """p: dict with dyntype/gaintype/biastype (concrete ints) and symbolic-or-float fields:
  ctrl, ctrllimited, ctrlrange, clampctrl_disabled, act (last activation), dynprm, gainprm, biasprm, actlimited, actrange, actearly,
  forcelimited, forcerange, length, velocity, acc0, lengthrange, h.   -> (act_dot or None, force)"""
  mdyn, mgain, mbias = muscle
  ctrl = ite(core.And(p["ctrllimited"], core.Not(p["clampctrl_disabled"])), clip(p["ctrl"], p["ctrlrange"][0], p["ctrlrange"][1]), p["ctrl"])
  dyn = p["dyntype"]
  act_dot = None
  if dyn == DYN["none"]:
    x = ctrl
  else:
    act_dot = act_dot_ref(dyn, ctrl, p["act"], p["dynprm"], mdyn)
    early = next_activation(p["h"], dyn, p["dynprm"][0], p["actlimited"], p["actrange"], p["act"], act_dot)
    x = ite(p["actearly"], early, p["act"])
  g, gp = p["gaintype"], p["gainprm"]
  if g == GAIN["fixed"]:
    gain = gp[0]
  elif g == GAIN["affine"]:
    gain = add(add(gp[0], mul(gp[1], p["length"])), mul(gp[2], p["velocity"]))
  else:
    gain = mgain(p["length"], p["velocity"], p["lengthrange"], p["acc0"], gp)
  b, bp = p["biastype"], p["biasprm"]
  if b == BIAS["none"]:
    bias = 0.0
  elif b == BIAS["affine"]:
    bias = add(add(bp[0], mul(bp[1], p["length"])), mul(bp[2], p["velocity"]))
  else:
    bias = mbias(p["length"], p["lengthrange"], p["acc0"], bp)
  force = add(mul(gain, x), bias)
  if p.get("skip_forcerange"):
    return act_dot, force
  return act_dot, forcerange_ref(force, p["forcelimited"], p["forcerange"])


def forcerange_ref(force, limited, rng):
  """MuJoCo 3.13 applies the per-actuator forcerange clamp AFTER the tendon total-force scaling"""
  return ite(limited, clip(force, rng[0], rng[1]), force)


def tendon_scale_ref(force, is_tendon, limited, total, rng):
  """scaling of an actuator's force by the tendon's total-actuator-force limit"""
  scaled = ite(cmp("<", total, rng[0]), mul(force, div(rng[0], total)), ite(cmp(">", total, rng[1]), mul(force, div(rng[1], total)), force))
  return ite(core.And(is_tendon, limited), scaled, force)


def joint_limit_ref(qfrc, gravcomp, actgravcomp, gravity_on, limited, rng):
  q = ite(core.And(gravity_on, actgravcomp), add(qfrc, gravcomp), qfrc)
  return ite(limited, clip(q, rng[0], rng[1]), q)


# ------------------------------------------------------------------------------------------------ numeric validation vs mujoco


def _rand_model(rng, trial):
  """random small actuator model (XML) exercising the force law, tendon / joint force limits, gravcomp"""
  dyns = list(DYN)
  gains = list(GAIN)
  biases = list(BIAS)
  acts = []
  nact = 4
  for i in range(nact):
    dyn = dyns[(trial + i) % len(dyns)]
    gain = gains[(trial // 2 + i) % 3]
    bias = biases[(trial // 3 + 2 * i) % 3]
    tgt = ['joint="j0"', 'joint="j1"', 'tendon="t0"', 'tendon="t0"'][i]
    a = f'<general {tgt} dyntype="{dyn}" gaintype="{gain}" biastype="{bias}"'
    if dyn in ("filter", "filterexact"):
      a += f' dynprm="{rng.uniform(0.01, 0.5):.4f}"'
    if dyn == "muscle":
      a += f' dynprm="{rng.uniform(0.005, 0.05):.4f} {rng.uniform(0.01, 0.1):.4f} {rng.choice([0.0, 0.3]):.2f}"'
    if gain == "muscle":
      a += f' gainprm="0.75 1.05 {rng.choice([-1.0, 50.0])} 200 0.5 1.6 1.5 1.3 1.2" lengthrange="{rng.uniform(-1, 0):.3f} {rng.uniform(0.5, 2):.3f}"'
    else:
      a += f' gainprm="{rng.normal():.3f} {rng.normal():.3f} {rng.normal():.3f}"'
    if bias == "muscle":
      a += ' biasprm="0.75 1.05 -1 200 0.5 1.6 1.5 1.3 1.2"' + ('' if gain == "muscle" else ' lengthrange="-0.5 1.5"')
    else:
      a += f' biasprm="{rng.normal():.3f} {rng.normal():.3f} {rng.normal():.3f}"'
    if rng.random() < 0.6:
      a += f' ctrllimited="true" ctrlrange="{-rng.uniform(0.1, 1):.3f} {rng.uniform(0.1, 1):.3f}"'
    if rng.random() < 0.6:
      a += f' forcelimited="true" forcerange="{-rng.uniform(0.1, 2):.3f} {rng.uniform(0.1, 2):.3f}"'
    if dyn != "none":
      if rng.random() < 0.6:
        a += f' actlimited="true" actrange="{-rng.uniform(0.1, 1):.3f} {rng.uniform(0.1, 1):.3f}"'
      if rng.random() < 0.5:
        a += ' actearly="true"'
    acts.append(a + "/>")
  clamp = ' <flag clampctrl="disable"/>' if trial % 5 == 4 else ""
  jl = f'actuatorfrclimited="true" actuatorfrcrange="{-rng.uniform(0.2, 2):.3f} {rng.uniform(0.2, 2):.3f}"' if trial % 2 else ""
  tl = f'actuatorfrclimited="true" actuatorfrcrange="{-rng.uniform(0.2, 2):.3f} {rng.uniform(0.2, 2):.3f}"' if trial % 3 else ""
  return f"""<mujoco><option timestep="{rng.uniform(0.001, 0.02):.4f}">{clamp}</option><worldbody>
<body gravcomp="{rng.choice([0.0, 0.7])}"><joint name="j0" type="slide" axis="0 0 1" {jl} actuatorgravcomp="{'true' if trial % 4 == 1 else 'false'}"/><geom size=".1"/>
<body pos=".3 0 0"><joint name="j1" type="hinge" axis="0 1 0"/><geom size=".1" pos=".2 0 0"/></body></body></worldbody>
<tendon><fixed name="t0" {tl}><joint joint="j0" coef="{rng.normal():.3f}"/><joint joint="j1" coef="{rng.normal():.3f}"/></fixed></tendon>
<actuator>{''.join(acts)}</actuator></mujoco>"""


def validate(seed, ntrial=24):
  """-> list of mismatch strings (empty = reference agrees with mujoco)"""
  import mujoco

  rng = np.random.default_rng(seed)
  errs = []
  for trial in range(ntrial):
    xml = _rand_model(rng, trial)
    m = mujoco.MjModel.from_xml_string(xml)
    d = mujoco.MjData(m)
    d.qpos[:] = rng.normal(size=m.nq) * 0.5
    d.qvel[:] = rng.normal(size=m.nv)
    d.ctrl[:] = rng.normal(size=m.nu) * 1.5
    d.act[:] = rng.normal(size=m.na)
    mujoco.mj_forward(m, d)
    h = m.opt.timestep
    noclamp = bool(m.opt.disableflags & mujoco.mjtDisableBit.mjDSBL_CLAMPCTRL)
    force = np.zeros(m.nu)
    actdot = np.zeros(m.na)
    for i in range(m.nu):
      adr = m.actuator_actadr[i]
      last = adr + m.actuator_actnum[i] - 1
      p = dict(dyntype=int(m.actuator_dyntype[i]), gaintype=int(m.actuator_gaintype[i]), biastype=int(m.actuator_biastype[i]), ctrl=float(d.ctrl[i]),
               ctrllimited=bool(m.actuator_ctrllimited[i]), ctrlrange=list(m.actuator_ctrlrange[i]), clampctrl_disabled=noclamp,
               act=float(d.act[last]) if adr >= 0 else 0.0, dynprm=list(m.actuator_dynprm[i]), gainprm=list(m.actuator_gainprm[i]), biasprm=list(m.actuator_biasprm[i]),
               actlimited=bool(m.actuator_actlimited[i]), actrange=list(m.actuator_actrange[i]), actearly=bool(m.actuator_actearly[i]),
               forcelimited=bool(m.actuator_forcelimited[i]), forcerange=list(m.actuator_forcerange[i]), length=float(d.actuator_length[i]),
               velocity=float(d.actuator_velocity[i]), acc0=float(m.actuator_acc0[i]), lengthrange=list(m.actuator_lengthrange[i]), h=h)
      ad, f = force_ref(dict(p, skip_forcerange=True))
      force[i] = f
      if ad is not None:
        actdot[last] = ad
    # tendon limits
    total = np.zeros(m.ntendon)
    for i in range(m.nu):
      if m.actuator_trntype[i] == mujoco.mjtTrn.mjTRN_TENDON:
        total[m.actuator_trnid[i, 0]] += force[i]
    for i in range(m.nu):
      ist = m.actuator_trntype[i] == mujoco.mjtTrn.mjTRN_TENDON
      t = m.actuator_trnid[i, 0] if ist else 0
      force[i] = tendon_scale_ref(force[i], bool(ist), bool(m.tendon_actfrclimited[t]) if ist else False, float(total[t]) if ist else 1.0, list(m.tendon_actfrcrange[t]) if ist else [0, 0])
      force[i] = forcerange_ref(force[i], bool(m.actuator_forcelimited[i]), list(m.actuator_forcerange[i]))
    moment = np.zeros((m.nu, m.nv))
    mujoco.mju_sparse2dense(moment, d.actuator_moment, d.moment_rownnz, d.moment_rowadr, d.moment_colind)
    qfrc = moment.T @ force
    grav_on = not bool(m.opt.disableflags & mujoco.mjtDisableBit.mjDSBL_GRAVITY)
    for k in range(m.nv):
      j = m.dof_jntid[k]
      qfrc[k] = joint_limit_ref(float(qfrc[k]), float(d.qfrc_gravcomp[k]), bool(m.jnt_actgravcomp[j]), grav_on, bool(m.jnt_actfrclimited[j]), list(m.jnt_actfrcrange[j]))
    for nm, got, want in (("actuator_force", force, d.actuator_force), ("act_dot", actdot, d.act_dot), ("qfrc_actuator", qfrc, d.qfrc_actuator)):
      if not np.allclose(got, want, rtol=1e-8, atol=1e-10):
        errs.append(f"trial {trial}: reference {nm} {got.tolist()} vs mujoco {np.asarray(want).tolist()} on {xml}")
    # activation advance (Euler step)
    act0 = d.act.copy()
    want_dot = d.act_dot.copy()
    mujoco.mj_step(m, d)
    for i in range(m.nu):
      adr = m.actuator_actadr[i]
      for j in range(adr, adr + m.actuator_actnum[i]):
        new = next_activation(h, int(m.actuator_dyntype[i]), float(m.actuator_dynprm[i, 0]), bool(m.actuator_actlimited[i]), list(m.actuator_actrange[i]), float(act0[j]), float(want_dot[j]))
        if abs(new - d.act[j]) > 1e-9:
          errs.append(f"trial {trial}: reference next act[{j}] {new} vs mujoco {d.act[j]} on {xml}")
    # muscle helper functions directly
    for _ in range(6):
      prm = np.array([0.75, 1.05, rng.choice([-1.0, 30.0]), 200.0, rng.uniform(0.3, 0.7), rng.uniform(1.3, 1.8), 1.5, 1.3, 1.2, 0.0])
      ln, vl, lr, a0 = rng.uniform(-1, 3), rng.normal() * 3, np.array([rng.uniform(-1, 0), rng.uniform(0.5, 2)]), rng.uniform(0.5, 50)
      g1, g2 = muscle_gain(ln, vl, list(lr), a0, list(prm)), mujoco.mju_muscleGain(ln, vl, lr, a0, prm[:9])
      b1, b2 = muscle_bias(ln, list(lr), a0, list(prm)), mujoco.mju_muscleBias(ln, lr, a0, prm[:9])
      dp = np.array([rng.uniform(0.005, 0.05), rng.uniform(0.01, 0.1), rng.choice([0.0, 0.2, 1.0])])
      c, a = rng.uniform(-0.5, 1.5), rng.uniform(-0.5, 1.5)
      d1, d2 = muscle_dynamics(c, a, list(dp)), mujoco.mju_muscleDynamics(c, a, dp)
      for nm, x, y in (("muscleGain", g1, g2), ("muscleBias", b1, b2), ("muscleDynamics", d1, d2)):
        if abs(x - y) > 1e-9 * max(1.0, abs(y)):
          errs.append(f"reference {nm} {x} vs mujoco {y}")
  return errs


# ------------------------------------------------------------------------------------------------ interpreter pieces


def make_interp(base=Interp):
  class AInterp(base):
    """(1) reads of locals that are not assigned on every path: Warp compiles them to uninitialised C++ locals, the stock
    interpreter silently takes the value of the path that did assign.  Here every read emits an obligation
    Obl("undef", guard, defined-condition); a name that was never assigned on the executed paths reads as a fresh unconstrained
    value.  (2) `fixed`: reads of the named arrays return a given concrete value (enum-valued model fields are enumerated,
    which prunes branches at interpretation time)."""

    def __init__(self, *a, fixed=None, normalize_uf=False, **k):
      super().__init__(*a, **k)
      self.fixed = fixed or {}
      self.normalize_uf = normalize_uf
      self.undef = []  # (frame name, variable, guard, defined-condition)

    def assign_name(self, fr, name, val, g):
      d = fr.__dict__.setdefault("defg", {})
      if name not in fr.env:
        d[name] = g
      elif name in d:
        d[name] = core.Or(d[name], g)
      super().assign_name(fr, name, val, g)

    def lookup(self, fr, name):
      d = fr.__dict__.get("defg", {})
      if name in fr.env:
        dg = d.get(name, True)
        if dg is not True:
          bad = core.And(self.active(fr), core.Not(dg))
          if bad is not False:
            self.undef.append((fr.name, name, self.active(fr), dg))
        return fr.env[name]
      try:
        return super().lookup(fr, name)
      except core.Unsupported:
        # a local that no executed path has assigned
        u = self.fresh_val("real", f"undef_{name}")
        self.undef.append((fr.name, name, self.active(fr), False))
        return u

    def builtin(self, fr, key, args, e):
      if key == "normalize" and self.normalize_uf and isinstance(args[0], Vec):
        x = args[0]
        return Vec([uf(f"normalize{len(x.c)}", x.c, k) for k in range(len(x.c))], x.shape, x.dt)
      if key in ("min", "max") and len(args) == 2 and not any(isinstance(x, Vec) for x in args):
        return (cmin if key == "min" else cmax)(*args)
      if key == "clamp" and not any(isinstance(x, Vec) for x in args):
        return cmin(cmax(args[0], args[1]), args[2])
      return super().builtin(fr, key, args, e)

    def load(self, ref, idx, g, where):
      v = super().load(ref, idx, g, where)
      if ref.cell.name in self.fixed and len(ref.prefix) + len(idx) == ref.cell.ndim:
        return self.fixed[ref.cell.name]
      return v

  return AInterp


def muscle_summaries():
  from mujoco_warp._src import util_misc as U

  def flat(args):
    out = []
    for a in args:
      out.extend(a.c if isinstance(a, Vec) else [a])
    return out

  def mk(name):
    return lambda it, fr, args: uf(name, flat(args))

  return {U.muscle_gain.key: mk("muscle_gain"), U.muscle_bias.key: mk("muscle_bias"), U.muscle_dynamics.key: mk("muscle_dynamics")}


def muscle_ufs():
  """the same uninterpreted functions, with the reference's calling convention"""
  return (
    lambda ctrl, act, prm: uf("muscle_dynamics", [ctrl, act] + list(prm)),
    lambda length, vel, lr, acc0, prm: uf("muscle_gain", [length, vel] + list(lr) + [acc0] + list(prm)),
    lambda length, lr, acc0, prm: uf("muscle_bias", [length] + list(lr) + [acc0] + list(prm)),
  )


# ------------------------------------------------------------------------------------------------ solver help


def _nonlinear_subterms(e, acc, seen):
  if e.get_id() in seen:
    return
  seen.add(e.get_id())
  if not z3.is_app(e):
    return
  for ch in e.children():
    _nonlinear_subterms(ch, acc, seen)
  if e.sort() != R:
    return
  k = e.decl().kind()
  if k == z3.Z3_OP_MUL and sum(1 for c in e.children() if not z3.is_rational_value(c)) >= 2:
    acc[e.get_id()] = e
  elif k == z3.Z3_OP_DIV and not z3.is_rational_value(e.arg(1)):
    acc[e.get_id()] = e
  elif k == z3.Z3_OP_UNINTERPRETED and e.num_args() > 0:
    acc[e.get_id()] = e
  elif k == z3.Z3_OP_POWER:
    acc[e.get_id()] = e


_absctr = [0]


def abstract_common(a, b):
  """replace every nonlinear subterm (product of two non-constants, quotient, uninterpreted application) that occurs
  syntactically in BOTH terms by one fresh real variable.  a' == b' valid  =>  a == b valid."""
  a, b = z3.simplify(core.to_z3(a, "real")), z3.simplify(core.to_z3(b, "real"))
  sa, sb = {}, {}
  _nonlinear_subterms(a, sa, set())
  _nonlinear_subterms(b, sb, set())
  subs = []
  for i, t in sa.items():
    if i in sb:
      _absctr[0] += 1
      subs.append((t, z3.Real(f"abs!{_absctr[0]}")))
  if not subs:
    return a, b, 0
  return z3.substitute(a, *subs), z3.substitute(b, *subs), len(subs)


def prove_eq(ctx, sess, name, impl, ref, guard=True, **kw):
  """impl == ref; first with shared nonlinear subterms abstracted (linear query), falling back to the exact query"""
  a2, b2, n = abstract_common(impl, ref)
  if n:
    r = sess.prove(name + "#abstracted-probe", a2 == b2, guard)
    if r.status == "unsat":
      return ctx.prove(sess, name, a2 == b2, guard, **kw)
  return ctx.prove(sess, name, core.to_z3(impl, "real") == core.to_z3(ref, "real"), guard, **kw)


# ------------------------------------------------------------------------------------------------ transmission (joint / tendon)

JOINT, JOINTINPARENT, TENDON = int(_mj.mjtTrn.mjTRN_JOINT), int(_mj.mjtTrn.mjTRN_JOINTINPARENT), int(_mj.mjtTrn.mjTRN_TENDON)
FREE, BALL, SLIDE, HINGE = (int(getattr(_mj.mjtJoint, "mjJNT_" + n)) for n in ("FREE", "BALL", "SLIDE", "HINGE"))


def _sym(xs):
  return any(core.is_sym(x) for x in xs)


def normalize4(q):
  if _sym(q):
    return [uf("normalize4", q, k) for k in range(4)]
  n = math.sqrt(sum(x * x for x in q))
  return [x / n for x in q] if n > MINVAL else [1.0, 0.0, 0.0, 0.0]


def quat2vel(q):
  """mju_quat2Vel(res, quat, 1)"""
  if _sym(q):
    return [uf("quat_to_vel", q, k) for k in range(3)]
  axis = list(q[1:])
  s = math.sqrt(sum(x * x for x in axis))
  if s < MINVAL:
    return [0.0, 0.0, 0.0]
  speed = 2 * math.atan2(s, q[0])
  if speed > math.pi:
    speed -= 2 * math.pi
  return [a / s * speed for a in axis]


def rot_vec_quat(v, q):
  if _sym(list(v) + list(q)):
    return [uf("rot_vec_quat", list(v) + list(q), k) for k in range(3)]
  res = np.zeros(3)
  _mj.mju_rotVecQuat(res, np.array(v, dtype=float), np.array(q, dtype=float))
  return list(res)


def neg_quat(q):
  return [q[0], neg(q[1]), neg(q[2]), neg(q[3])]


def transmission_joint_ref(trntype, jnttype, qpos, gear):
  """qpos: the joint's qpos slots (list of 7 / 4 / 1), gear: 6 values  ->  (length, [moment entries for dofadr + k])"""
  if jnttype in (SLIDE, HINGE):
    return mul(qpos[0], gear[0]), [gear[0]]
  if jnttype == BALL:
    q = normalize4(qpos[0:4])
    axis = quat2vel(q)
    g = list(gear[0:3])
    if trntype == JOINTINPARENT:
      g = rot_vec_quat(g, neg_quat(q))
    return add(add(mul(axis[0], g[0]), mul(axis[1], g[1])), mul(axis[2], g[2])), g
  # free
  rot = list(gear[3:6])
  if trntype == JOINTINPARENT:
    q = normalize4(qpos[3:7])
    rot = rot_vec_quat(rot, neg_quat(q))
  return 0.0, list(gear[0:3]) + rot


def validate_transmission(seed, ntrial=6):
  rng = np.random.default_rng(seed)
  errs = []
  for trial in range(ntrial):
    gears = [" ".join(f"{x:.3f}" for x in rng.normal(size=6)) for _ in range(8)]
    xml = f"""<mujoco><worldbody>
<body pos="0 0 1"><joint name="f" type="free"/><geom size=".1"/>
 <body pos=".3 0 0"><joint name="b" type="ball"/><geom size=".1"/>
  <body pos=".3 0 0"><joint name="h" type="hinge" axis="0 1 0"/><geom size=".1"/>
   <body pos=".3 0 0"><joint name="s" type="slide" axis="1 0 0"/><geom size=".1"/></body></body></body></body></worldbody>
<tendon><fixed name="t"><joint joint="h" coef="{rng.normal():.3f}"/><joint joint="s" coef="{rng.normal():.3f}"/></fixed></tendon>
<actuator><general joint="f" gear="{gears[0]}"/><general jointinparent="f" gear="{gears[1]}"/><general joint="b" gear="{gears[2]}"/><general jointinparent="b" gear="{gears[3]}"/>
<general joint="h" gear="{gears[4]}"/><general jointinparent="s" gear="{gears[5]}"/><general tendon="t" gear="{gears[6]}"/></actuator></mujoco>"""
    m = _mj.MjModel.from_xml_string(xml)
    d = _mj.MjData(m)
    d.qpos[:] = rng.normal(size=m.nq)
    d.qpos[3:7] *= 3.0  # unnormalised on purpose
    _mj.mj_forward(m, d)
    moment = np.zeros((m.nu, m.nv))
    _mj.mju_sparse2dense(moment, d.actuator_moment, d.moment_rownnz, d.moment_rowadr, d.moment_colind)
    tenJ = np.zeros((m.ntendon, m.nv))
    _mj.mju_sparse2dense(tenJ, d.ten_J, m.ten_J_rownnz, m.ten_J_rowadr, m.ten_J_colind) if hasattr(m, "ten_J_rownnz") else None
    for i in range(m.nu):
      tt = int(m.actuator_trntype[i])
      gear = list(m.actuator_gear[i])
      row = np.zeros(m.nv)
      if tt == TENDON:
        t = m.actuator_trnid[i, 0]
        length = d.ten_length[t] * gear[0]
        row = tenJ[t] * gear[0]
      else:
        j = m.actuator_trnid[i, 0]
        qa, da, jt = m.jnt_qposadr[j], m.jnt_dofadr[j], int(m.jnt_type[j])
        width = {FREE: 7, BALL: 4}.get(jt, 1)
        length, mom = transmission_joint_ref(tt, jt, [float(x) for x in d.qpos[qa : qa + width]], gear)
        row[da : da + len(mom)] = mom
      if abs(length - d.actuator_length[i]) > 1e-8 or not np.allclose(row, moment[i], atol=1e-8):
        errs.append(f"transmission reference: actuator {i} (trntype {tt}) length {length} vs {d.actuator_length[i]}, moment {row.tolist()} vs {moment[i].tolist()}")
  return errs


def prove_eq_cases(ctx, sess, name, impl, ref, bools, guard=True, **kw):
  """impl == ref under guard, split over all assignments of the Boolean terms `bools` (substituted into both sides so that
  the ite's collapse and shared nonlinear subterms become syntactically equal)"""
  import itertools

  impl, ref = core.to_z3(impl, "real"), core.to_z3(ref, "real")
  bools = [b for b in bools if core.is_sym(b)]
  for bits in itertools.product([False, True], repeat=len(bools)):
    sub = [(b, z3.BoolVal(v)) for b, v in zip(bools, bits)]
    g = z3.simplify(z3.substitute(core.zbool(guard), *sub)) if sub else core.zbool(guard)
    if z3.is_false(g):
      continue
    a = z3.simplify(z3.substitute(impl, *sub)) if sub else impl
    b = z3.simplify(z3.substitute(ref, *sub)) if sub else ref
    case = z3.And(g, *[bb if v else z3.Not(bb) for bb, v in zip(bools, bits)])
    tag = "".join("1" if v else "0" for v in bits)
    prove_eq(ctx, sess, f"{name}#{tag}" if bools else name, a, b, case, **kw)


def safe_mval(orig):
  """kh.mval that survives the huge rationals of nlsat models"""
  import fractions

  def mval(model, x):
    try:
      return orig(model, x)
    except (OverflowError, ValueError):
      v = model.eval(x, model_completion=True)
      try:
        fr = fractions.Fraction(v.numerator().as_string()) / fractions.Fraction(v.denominator().as_string())
        return max(-1e30, min(1e30, float(fr)))
      except Exception:
        return 0.0

  return mval


def prove_nice(ctx, sess, name, goal, guard=True, nice=(), **kw):
  """prove guard => goal.  If a counterexample exists inside the well-conditioned region `nice` (a list of extra constraints:
  time step not tiny, scale 1/2, velocities of order one, unit quaternion ...) the query is issued with that region as guard, so that
  the model handed to the replay is visible in float32; otherwise the general query is issued (and must be unsat)."""
  g2 = core.And(guard, *nice)
  if nice:
    r = sess.prove(name + "#nice-probe", goal, g2)
    if r.status == "sat":
      return ctx.prove(sess, name, goal, g2, **kw)
  return ctx.prove(sess, name, goal, guard, **kw)
