"""C14 reset_data_keyframe semantics (H mode).

The REAL io.reset_data_keyframe(m, d, key) is run natively on tiny models with 3 keyframes (different time / qpos / qvel /
act / ctrl / mocap pose), nworld = 2 (3 in thorough units), every Data array symbolic and `key` a symbolic per-world int array (unconstrained:
valid and invalid indices); every kernel it launches (valid_key_mask, the reset_data kernels, reset_keyframe_data) is
interpreted thread by thread.  Queries per field and world:
  key valid    => field == reference (mujoco.mj_resetDataKeyframe on the same model, computed per key value and selected
                  by ite over the symbolic key; non-state bookkeeping fields: fresh make_data value)
  key invalid  => every per-world field unchanged, the world's reported contacts unchanged
  contacts     => a reset world reports no contact; contacts of an untouched world neither vanish, change nor appear
Scalar keys: key in [0, nkey) behaves like the constant array (H mode), key outside raises ValueError (native calls).
The three reset_data defects recorded under C13 re-appear here as `contact-kept`, `no-new-contact`, `fresh/history`.
"""

import dataclasses
import json
import os

import numpy as np
import warp as wp
import z3

from checks import c13
from wsym import core, host, kh, report
from wsym.core import And, Implies, Not, Or, cmp, is_sym, ite

PID = "C14"

KEYS = """<keyframe>
<key name="k0" time="0.5" qpos="{q0}" qvel="{v0}" act="{a0}" ctrl="{c0}" mpos="{mp0}" mquat="{mq0}"/>
<key name="k1" time="1.25" qpos="{q1}" qvel="{v1}" act="{a1}" ctrl="{c1}" mpos="{mp1}" mquat="{mq1}"/>
<key name="k2" time="2.75" qpos="{q2}" qvel="{v2}" act="{a2}" ctrl="{c2}" mpos="{mp2}" mquat="{mq2}"/>
</keyframe>"""


def _seq(n, start, step):
  return " ".join(f"{start + step * i:g}" for i in range(n))


def _keys(nq, nv, na, nu, nmocap, quat_at=()):
  kw = {}
  for k in range(3):
    q = [0.125 * (k + 1) + 0.0625 * i for i in range(nq)]
    for s in quat_at:  # unit quaternion of a free joint
      q[s : s + 4] = [[1, 0, 0, 0], [0, 1, 0, 0], [0, 0, 1, 0]][k]
    kw[f"q{k}"] = " ".join(f"{x:g}" for x in q)
    kw[f"v{k}"] = _seq(nv, -0.5 * (k + 1), 0.25)
    kw[f"a{k}"] = _seq(na, 0.75 + k, 0.5)
    kw[f"c{k}"] = _seq(nu, -0.375 - k, 0.125)
    kw[f"mp{k}"] = " ".join(_seq(3, 2.0 + k + m, 0.5) for m in range(nmocap))
    kw[f"mq{k}"] = " ".join(["0 1 0 0", "0 0 1 0", "0 0 0 1"][(k + m) % 3] for m in range(nmocap))
  return KEYS.format(**kw)


MODELS = {
  # nq=8 nv=7 nu=1 na=3 nmocap=1 neq=1 nuserdata=2
  "actdim": """<mujoco><option><flag {flag}/></option><size nuserdata="2"/><worldbody><geom type="plane" size="5 5 .1"/>
<body pos="0 0 .09"><freejoint/><geom size=".1"/></body>
<body name="b" pos="1 0 1"><joint name="j"/><geom size=".1"/></body>
<body name="mc" pos="2 0 0" mocap="true"><geom size=".05" contype="0" conaffinity="0"/></body></worldbody>
<equality><weld body1="b" body2="mc" active="true"/></equality>
<actuator><general joint="j" dyntype="user" actdim="3"/></actuator>
<sensor><jointpos joint="j"/></sensor>"""
  + _keys(8, 7, 3, 1, 1, quat_at=(3,))
  + "</mujoco>",
  # delayed actuator and sensor: nhistory > 0
  "delay": """<mujoco><option><flag {flag}/></option><worldbody>
<body pos="0 0 1"><joint name="j" damping="0.1"/><geom size=".1"/></body></worldbody>
<actuator><motor joint="j" delay="0.004" nsample="3"/></actuator>
<sensor><jointpos joint="j" delay="0.004" nsample="2"/></sensor>"""
  + _keys(1, 1, 0, 1, 0)
  + "</mujoco>",
  # more actuators than position / velocity coordinates (nq=1 nv=1 nu=3 na=1): size relations nu > nq, nu > nv, na < nu
  "servos": """<mujoco><option><flag {flag}/></option><worldbody>
<body pos="0 0 1"><joint name="j" damping="0.1"/><geom size=".1"/></body></worldbody>
<actuator><position joint="j" kp="5"/><velocity joint="j" kv="1"/><general joint="j" dyntype="integrator"/></actuator>"""
  + _keys(1, 1, 1, 3, 0)
  + "</mujoco>",
}

# integration state: reference = mujoco.mj_resetDataKeyframe
STATE_FIELDS = ["time", "qpos", "qvel", "act", "history", "qacc_warmstart", "ctrl", "qfrc_applied", "xfrc_applied", "eq_active", "mocap_pos", "mocap_quat", "userdata"]
# derived / bookkeeping fields reset_data documents: reference = fresh make_data
BOOK_FIELDS = ["ne", "nf", "nl", "nefc", "solver_niter", "sensordata", "act_dot", "qacc", "overflow", "energy", "tree_asleep"]
KEY_FIELDS = ["time", "qpos", "qvel", "act", "ctrl", "mocap_pos", "mocap_quat"]


class HostRun(host.HostRun):
  """local work-around: the engine's patched wp.empty/zeros keep python dtypes (bool/int/float) where Warp canonicalises them
  to wp.bool/int32/float32; reset_data tests `reset.dtype == wp.bool` on the mask allocated by reset_data_keyframe"""

  def _alloc(self, shape, dtype, fill):
    dtype = {bool: wp.bool, int: wp.int32, float: wp.float32}.get(dtype, dtype)
    return super()._alloc(shape, dtype, fill)


def build(mname, sleep=False, nworld=2):
  import mujoco

  import mujoco_warp as mjw

  mjm = mujoco.MjModel.from_xml_string(MODELS[mname].format(flag='sleep="enable"' if sleep else ""))
  m = mjw.put_model(mjm)
  d = mjw.make_data(mjm, nworld=nworld, nconmax=2, njmax=4)
  return mjm, m, d


def mujoco_reference(mjm, kv):
  """state fields after mj_resetDataKeyframe(kv) (None: mj_resetData), as float32-representable python values"""
  import mujoco

  d = mujoco.MjData(mjm)
  # dirty every state field first so that the reference really is what the reset writes
  for f in STATE_FIELDS:
    if f == "time":
      d.time = 123.0
    elif f == "eq_active":
      d.eq_active[:] = 1 - mjm.eq_active0
    else:
      getattr(d, f)[...] = 7.5
  if kv is None:
    mujoco.mj_resetData(mjm, d)
  else:
    mujoco.mj_resetDataKeyframe(mjm, d, kv)
  out = {}
  for f in STATE_FIELDS:
    v = np.array([d.time]) if f == "time" else np.array(getattr(d, f), dtype=np.float64)
    out[f] = v.reshape(-1).astype(np.float32).astype(np.float64)
  return out


def validate_reference(ctx, mjm, d, fresh):
  """harness validation: keyframes differ in every key field; mujoco's keyframe reset == mujoco's plain reset overlaid with
  the key row; the non-key state fields of mujoco's reset == fresh make_data (history excepted: C30 records that)"""
  nkey = int(mjm.nkey)
  refs = [mujoco_reference(mjm, k) for k in range(nkey)]
  base = mujoco_reference(mjm, None)
  tab = {"time": mjm.key_time, "qpos": mjm.key_qpos, "qvel": mjm.key_qvel, "act": mjm.key_act, "ctrl": mjm.key_ctrl, "mocap_pos": mjm.key_mpos, "mocap_quat": mjm.key_mquat}
  for k in range(nkey):
    for f in STATE_FIELDS:
      want = np.asarray(tab[f][k], dtype=np.float64).reshape(-1).astype(np.float32).astype(np.float64) if f in tab else base[f]
      if not np.array_equal(refs[k][f], want):
        ctx.error(f"reference: mj_resetDataKeyframe({k}).{f} = {refs[k][f]} is not (reset overlaid with key row) {want}")
    for k2 in range(k):
      for f in KEY_FIELDS:
        if refs[k][f].size and np.array_equal(refs[k][f], refs[k2][f]):
          ctx.error(f"test model: keyframes {k2} and {k} agree on {f}: the check could not tell them apart")
  for f in STATE_FIELDS:
    if f == "history":
      continue
    a = np.asarray(fresh[f][0], dtype=np.float64).reshape(-1)
    if f not in KEY_FIELDS and not np.array_equal(a, base[f]):
      ctx.error(f"reference: fresh make_data {f} = {a} differs from mj_resetData {base[f]}")
  return refs


def keysel(kw, nkey, vals):
  """value selected by the symbolic key among per-key concrete values"""
  r = vals[nkey - 1]
  for k in range(nkey - 2, -1, -1):
    r = ite(cmp("==", kw, k), vals[k], r)
  return r


TABS = {"time": "key_time", "qpos": "key_qpos", "qvel": "key_qvel", "act": "key_act", "ctrl": "key_ctrl", "mocap_pos": "key_mpos", "mocap_quat": "key_mquat"}


def unit_model(mname, keymode, sleep=False, symtab=False, nworld=2):
  """keymode: 'array' (symbolic per-world keys) or an int (scalar key); symtab: keyframe tables symbolic as well"""

  def run(ctx):
    from mujoco_warp._src import io

    mjm, m, d = build(mname, sleep, nworld)
    nkey = int(mjm.nkey)
    ctx.encode(io.reset_data_keyframe, io.reset_data)
    ctx.bound(nworld=nworld, nkey=nkey, model=mname, naconmax=int(d.naconmax), njmax=int(d.njmax), na=int(mjm.na), nu=int(mjm.nu), nq=int(mjm.nq), nv=int(mjm.nv), nmocap=int(mjm.nmocap), nhistory=int(mjm.nhistory))
    fresh = {f.name: getattr(d, f.name).numpy().copy() for f in dataclasses.fields(d) if isinstance(getattr(d, f.name), wp.array)}
    refs = validate_reference(ctx, mjm, d, fresh)
    d2 = host.shim_dataclass(d, "d.")
    arrs = host.arrays_of(d2)
    key = host.sym_array("key", (nworld,), wp.int32) if keymode == "array" else None
    tabs = None
    if symtab:
      # the keyframe tables of the Model become symbolic too: the reference for the key fields is then the table row itself
      m = host.shim_dataclass(m, "m.", symbolic=lambda name: name in {"m." + t for t in TABS.values()})
      marrs = host.arrays_of(m)
      tabs = {f: marrs[t].ref.cell for f, t in TABS.items()}
    with HostRun(mode="exec") as hr:
      io.reset_data_keyframe(m, d2, key if keymode == "array" else int(keymode))
    for e in hr.events:
      if e.kind == "launch":
        ctx.encode(e.kernel)
    kernels = sorted({e.kernel.key.split("_" + e.kernel.key.split("_")[-1])[0] for e in hr.events if e.kind == "launch"})
    ctx.notes.append(f"{len([e for e in hr.events if e.kind == 'launch'])} launches, {hr.nthreads} threads interpreted: {kernels}")
    kw = [key.ref.cell.d0[0][w] if keymode == "array" else int(keymode) for w in range(nworld)]
    sel = [And(cmp(">=", kw[w], 0), cmp("<", kw[w], nkey)) for w in range(nworld)]
    nacon0 = arrs["nacon"].ref.cell.d0[0][0]
    cw0 = arrs["contact.worldid"].ref.cell.d0[0]
    naconmax = int(d.naconmax)
    pre = [nacon0 >= 0, nacon0 <= naconmax] + [z3.Implies(c < nacon0, z3.And(cw0[c] >= 0, cw0[c] < nworld)) for c in range(naconmax)]
    pre += [core.zbool(a) for a in hr.assumes]
    ctx.assume("0 <= nacon <= naconmax and contact.worldid in [0, nworld) for listed contacts", "all other Data contents arbitrary", "key array entries arbitrary integers (valid and invalid)", "keyframe tables: the model's (3 keyframes differing in every key field)")
    sess = ctx.session(pre)
    ctx.reach(sess, "twin:pre-state", True)
    if keymode == "array":
      ctx.reach(sess, "twin:valid-and-invalid", And(sel[0], Not(sel[1]), kw[1] > nkey))
      ctx.reach(sess, "twin:different-keys", And(cmp("==", kw[0], nkey - 1), cmp("==", kw[1], 0)))
      if key.ref.cell.d[0] != key.ref.cell.d0[0]:
        ctx.prove(sess, "key-array-untouched", And(*[cmp("==", a, b) for a, b in zip(key.ref.cell.d[0], key.ref.cell.d0[0])]), True, replay=replayer(ctx, mname, sleep, arrs, key, keymode, None, refs, tabs, nworld), desc="reset_data_keyframe modifies the caller's key array")
    names = {f"key{w}": kw[w] for w in range(nworld) if is_sym(kw[w])}
    names.update({f"sel{w}": core.zbool(sel[w]) for w in range(nworld) if is_sym(sel[w])})
    names["nacon0"] = nacon0
    rp = lambda goal: replayer(ctx, mname, sleep, arrs, key, keymode, goal, refs, tabs, nworld)
    for k_, tid, o in hr.obl:
      if o.kind == "bounds":
        ctx.prove(sess, f"bounds/{k_.rsplit('_', 1)[0]}@{o.where.split(':')[-1]}/{'.'.join(str(t) for t in tid)}/{o.info[1]}.{o.info[2]}", getattr(o, "strict", o.cond), o.guard, names=names, replay=rp(None), desc=f"reset_data_keyframe: {k_} thread {tid} indexes {o.info[1]} out of range at {o.where}")
    pw = c13.per_world_fields(d)
    for fname in pw:
      cell = arrs[fname].ref.cell
      if cell.size == 0:
        continue
      n_per = cell.size // nworld
      frflat = fresh[fname].reshape(cell.size, cell.ncomp)
      conv = (lambda x: bool(x)) if cell.dtype == "bool" else (lambda x: int(x)) if cell.dtype == "int" else (lambda x: float(x))
      for w in range(nworld):
        same, isref = [], []
        for j in range(n_per):
          for k in range(cell.ncomp):
            flat = w * n_per + j
            post, pre_v = cell.d[k][flat], cell.d0[k][flat]
            if cell.dtype == "bool":
              same.append(core.zbool(post) == core.zbool(pre_v))
            else:
              same.append(cmp("==", post, pre_v))
            if tabs is not None and fname in TABS:
              tc = tabs[fname]
              exp = tc.get((kw[w],) if tc.ndim == 1 else (kw[w], j), k, snap=tc.d0)
            elif fname in STATE_FIELDS:
              vals = [conv(refs[kv][fname][j * cell.ncomp + k]) for kv in range(nkey)]
              exp = keysel(kw[w], nkey, vals)
            elif fname in BOOK_FIELDS:
              exp = conv(frflat[flat, k])
            else:
              continue
            isref.append((core.zbool(post) == core.zbool(exp)) if cell.dtype == "bool" else cmp("==", post, exp))
        if keymode == "array" and not (sleep and fname in c13.SLEEP_DERIVED):
          ctx.prove(sess, f"invalid-untouched/{fname}[{w}]", And(*same), Not(sel[w]), names=names, replay=rp(("unchanged", fname, w)), desc=f"reset_data_keyframe changes {fname} of world {w} although its key index is invalid")
        if isref:
          what = "mj_resetDataKeyframe" if fname in STATE_FIELDS else "a fresh make_data"
          ctx.prove(sess, f"fresh/{fname}[{w}]", And(*isref), sel[w], names=names, replay=rp(("fresh", fname, w)), desc=f"after reset_data_keyframe {fname} of world {w} (valid key) differs from {what}")
    # contacts
    cfields = [n for n in arrs if n.startswith("contact.")]
    nacon1 = arrs["nacon"].ref.cell.d[0][0]
    cw1 = arrs["contact.worldid"].ref.cell.d[0]
    for w in range(nworld):
      for c in range(naconmax):
        listed0 = And(c < nacon0, cw0[c] == w)
        listed1 = And(c < nacon1, cw1[c] == w)
        if keymode == "array":
          ctx.prove(sess, f"contact-kept/world{w}/cid{c}", listed1, And(Not(sel[w]), listed0), names=names, replay=rp(("contact-kept", c, w)), desc=f"a contact of world {w} (invalid key: must stay untouched) is no longer reported after reset_data_keyframe")
          unchanged = []
          for cf in cfields:
            cc = arrs[cf].ref.cell
            if cc.size == 0:
              continue
            n_per = cc.size // cc.shape[0]
            for k in range(cc.ncomp):
              for j in range(n_per):
                unchanged.append(cmp("==", cc.d[k][c * n_per + j], cc.d0[k][c * n_per + j]))
          ctx.prove(sess, f"contact-unchanged/world{w}/cid{c}", And(*unchanged), And(Not(sel[w]), listed0), names=names, replay=rp(("contact-unchanged", c, w)), desc=f"a contact of world {w} (invalid key) is modified by reset_data_keyframe")
          ctx.prove(sess, f"no-new-contact/world{w}/cid{c}", listed0, And(Not(sel[w]), listed1), names=names, replay=rp(("no-new-contact", c, w)), desc=f"reset_data_keyframe makes a contact appear in world {w} whose key is invalid")
        ctx.prove(sess, f"no-contact/world{w}/cid{c}", Not(listed1), sel[w], names=names, replay=rp(("no-contact", c, w)), desc=f"world {w} (valid key) still reports a contact after reset_data_keyframe")

  tag = "array" if keymode == "array" else f"scalar{keymode}"
  return (f"key/{mname}/{tag}{'/sleep' if sleep else ''}{'/symtab' if symtab else ''}{f'/nworld{nworld}' if nworld != 2 else ''}", run)


def _locate(d, name):
  if name.startswith("contact."):
    return d.contact, name[len("contact.") :]
  if name.startswith("efc."):
    return d.efc, name[len("efc.") :]
  if "." in name:
    return None, None
  return d, name


def replayer(ctx, mname, sleep, arrs, key, keymode, goal, refs, tabs=None, nworld=2):
  """replay on the real reset_data_keyframe with concrete arrays taken from the solver model"""

  def _rp(model):
    from mujoco_warp._src import io

    mjm, m, d = build(mname, sleep, nworld)
    nkey = int(mjm.nkey)
    refs_ = refs
    if tabs is not None:
      # symbolic keyframe tables: put the solver's tables into both the MuJoCo model (oracle) and the device model
      for f, tc in tabs.items():
        if tc.size == 0:
          continue
        a = np.zeros((tc.size, tc.ncomp))
        for k in range(tc.ncomp):
          a[:, k] = [float(kh.mval(model, x)) for x in tc.d0[k]]
        a = np.clip(a, -1e6, 1e6).astype(np.float32)
        real = getattr(m, TABS[f])
        real.assign(a.reshape(real.numpy().shape))
        getattr(mjm, TABS[f])[...] = a.astype(np.float64).reshape(getattr(mjm, TABS[f]).shape)
      refs_ = [mujoco_reference(mjm, k) for k in range(nkey)]
    fresh = {f.name: getattr(d, f.name).numpy().copy() for f in dataclasses.fields(d) if isinstance(getattr(d, f.name), wp.array)}
    pre = {}
    for name, sa in arrs.items():
      cell = sa.ref.cell
      obj, attr = _locate(d, name)
      if cell.size == 0 or obj is None:
        continue
      real = getattr(obj, attr)
      a = np.zeros((cell.size, cell.ncomp), dtype=np.float64)
      for k in range(cell.ncomp):
        a[:, k] = [float(kh.mval(model, x)) for x in cell.d0[k]]
      a = np.clip(a, -1e6, 1e6)
      real.assign(a.reshape(real.numpy().shape).astype(real.numpy().dtype))
      pre[name] = real.numpy().copy()
    if keymode == "array":
      kv = [int(max(-(2**31), min(2**31 - 1, kh.mval(model, x)))) for x in key.ref.cell.d0[0]]
      io.reset_data_keyframe(m, d, wp.array(np.array(kv, dtype=np.int32), dtype=int))
    else:
      kv = [int(keymode)] * d.nworld
      io.reset_data_keyframe(m, d, int(keymode))
    valid = [0 <= k < nkey for k in kv]
    post = {}
    for name in pre:
      obj, attr = _locate(d, name)
      post[name] = getattr(obj, attr).numpy().copy()
    os.makedirs(os.path.join(report.VERIF, "replays", PID), exist_ok=True)
    path = os.path.join(report.VERIF, "replays", PID, f"{mname}{'.sleep' if sleep else ''}{'.symtab' if tabs is not None else ''}{f'.nworld{nworld}' if nworld != 2 else ''}.{keymode}.{'-'.join(str(g) for g in (goal or ('bounds',)))}.json".replace("/", "_"))
    ok, text = True, ""
    if goal is None:
      # bounds candidate: repeat the call in a subprocess under Warp's bounds-checked debug build (an out-of-range access aborts)
      spec = path.replace(".json", ".debugspec.json")
      tv = None
      if tabs is not None:
        tv = {TABS[f]: getattr(m, TABS[f]).numpy().tolist() for f in tabs if tabs[f].size}
      with open(spec, "w") as f:
        json.dump({"model": mname, "sleep": sleep, "nworld": nworld, "key": kv if keymode == "array" else int(keymode), "scalar": keymode != "array", "pre": {k: v.tolist() for k, v in pre.items()}, "tables": tv}, f)
      import subprocess
      import sys

      p = subprocess.run([sys.executable, "-m", "checks.c14", spec], cwd=report.VERIF, capture_output=True, text=True, timeout=1500)
      out = (p.stdout + p.stderr)[-600:]
      aborted = p.returncode != 0 and "COMPLETED" not in p.stdout
      ok = not aborted
      text = f"debug-build rerun rc={p.returncode}: {out[-300:]}"
    else:
      kind = goal[0]
      if kind in ("unchanged", "fresh"):
        _, fname, w = goal
        a = np.asarray(post[fname][w], dtype=np.float64).reshape(-1)
        if kind == "unchanged":
          b, applies = np.asarray(pre[fname][w], dtype=np.float64).reshape(-1), not valid[w]
        elif fname in STATE_FIELDS:
          b, applies = (refs_[kv[w]][fname] if valid[w] else a), valid[w]
        else:
          b, applies = np.asarray(fresh[fname][w], dtype=np.float64).reshape(-1), valid[w]
        ok = (not applies) or bool(np.allclose(a, b, rtol=1e-6, atol=1e-9))
        text = f"{fname}[{w}] after reset_data_keyframe = {a.tolist()} expected ({kind}) {np.asarray(b).tolist()} key={kv}"
      else:
        _, c, w = goal
        n0, n1 = int(pre["nacon"][0]), int(post["nacon"][0])
        l0 = c < n0 and int(pre["contact.worldid"][c]) == w
        l1 = c < n1 and int(post["contact.worldid"][c]) == w
        if kind == "contact-kept":
          ok = valid[w] or (not l0) or l1
        elif kind == "no-new-contact":
          ok = valid[w] or (not l1) or l0
        elif kind == "no-contact":
          ok = (not valid[w]) or not l1
        else:
          ok = valid[w] or (not l0) or all(np.array_equal(pre[k][c], post[k][c]) for k in pre if k.startswith("contact."))
        text = f"contact {c} world {w}: listed before={l0} (nacon {n0}, worldid {pre['contact.worldid'].tolist()}) listed after={l1} (nacon {n1}, worldid {post['contact.worldid'].tolist()}) key={kv}"
    with open(path, "w") as f:
      json.dump({"property": PID, "model_xml": MODELS[mname].format(flag='sleep="enable"' if sleep else ""), "key": kv, "goal": list(goal) if goal else None, "pre": {k: v.tolist() for k, v in pre.items()}, "result": text, "nworld": nworld, "how": "build the model with mujoco_warp.make_data(nworld, nconmax=2, njmax=4), assign the 'pre' arrays, call reset_data_keyframe(m, d, key); reference = mujoco.mj_resetDataKeyframe"}, f)
    return (not ok), path

  return _rp


def debug_main(spec_path):
  """python -m checks.c14 <spec>: the real reset_data_keyframe on the recorded input under Warp's debug (bounds-checked) build"""
  spec = json.load(open(spec_path))
  wp.config.quiet = True
  wp.config.mode = "debug"
  wp.config.verify_fp = False
  wp.config.kernel_cache_dir = os.path.join(report.VERIF, ".wpcache", "replay_debug")
  wp.init()
  from mujoco_warp._src import io

  mjm, m, d = build(spec["model"], spec["sleep"], int(spec.get("nworld", 2)))
  for name, v in spec["pre"].items():
    obj, attr = _locate(d, name)
    real = getattr(obj, attr)
    real.assign(np.asarray(v).astype(real.numpy().dtype).reshape(real.numpy().shape))
  for t, v in (spec.get("tables") or {}).items():
    real = getattr(m, t)
    real.assign(np.asarray(v, dtype=np.float32).reshape(real.numpy().shape))
  key = int(spec["key"]) if spec["scalar"] else wp.array(np.array(spec["key"], dtype=np.int32), dtype=int)
  print("calling reset_data_keyframe under the debug build, key =", spec["key"], flush=True)
  io.reset_data_keyframe(m, d, key)
  wp.synchronize()
  print("COMPLETED without a bounds assertion")
  return 0


def unit_scalar_reject(ctx):
  """native calls: scalar key outside [0, nkey) raises ValueError; malformed key arrays raise ValueError"""
  import mujoco

  from mujoco_warp._src import io

  ctx.encode(io.reset_data_keyframe)
  n = 0
  for mname in MODELS:
    mjm, m, d = build(mname)
    nkey = int(mjm.nkey)
    before = {f: getattr(d, f).numpy().copy() for f in ("time", "qpos", "qvel", "ctrl")}
    for kv in (-1, -2, nkey, nkey + 1, nkey + 100, -(2**31), np.int32(-1), np.int64(nkey)):
      n += 1
      try:
        io.reset_data_keyframe(m, d, kv)
        ctx.violation(f"scalar-rejected/{mname}/{int(kv)}", f"reset_data_keyframe accepts the scalar key {int(kv)} outside [0, {nkey}) (documented: ValueError; mj_resetDataKeyframe ignores such keys)", f"reset_data_keyframe(m, d, {int(kv)}) returned normally")
      except ValueError:
        pass
      if any(not np.array_equal(before[f], getattr(d, f).numpy()) for f in before):
        ctx.violation(f"scalar-rejected-untouched/{mname}/{int(kv)}", f"a rejected scalar key {int(kv)} still modified Data", "state fields differ after the ValueError")
    for kv in (0, nkey - 1, np.int32(1)):
      n += 1
      try:
        io.reset_data_keyframe(m, d, kv)
      except Exception as ex:
        ctx.violation(f"scalar-accepted/{mname}/{int(kv)}", f"reset_data_keyframe rejects the valid scalar key {int(kv)}: {ex}", f"raised {type(ex).__name__}")
    for bad, why in ((wp.zeros(d.nworld + 1, dtype=int), "wrong shape"), (wp.zeros(d.nworld, dtype=float), "float dtype")):
      n += 1
      try:
        io.reset_data_keyframe(m, d, bad)
        ctx.violation(f"array-rejected/{mname}/{why}", f"reset_data_keyframe accepts a key array with {why}", "returned normally")
      except ValueError:
        pass
  ctx.bound(native_calls=n)
  sess = ctx.session([])
  ctx.reach(sess, "twin:native-calls-done", n > 0)


def main(tier, seed, only=None):
  units = [unit_model("actdim", "array"), unit_model("delay", "array"), unit_model("servos", "array"), unit_model("servos", 1), unit_model("actdim", "array", symtab=True), unit_model("actdim", 0), unit_model("actdim", 2), ("scalar-reject", unit_scalar_reject)]
  if tier == "thorough":
    units += [unit_model("actdim", "array", sleep=True), unit_model("delay", 1), unit_model("actdim", 1), unit_model("actdim", "array", nworld=3), unit_model("delay", "array", symtab=True, nworld=3)]
  from checks import resetk

  units.append(resetk.unit_keyframe(PID))
  if only:
    units = [u for u in units if any(o in u[0] for o in only)]
  return report.run_check(PID, units, tier, seed)


if __name__ == "__main__":
  import sys

  sys.exit(debug_main(sys.argv[1]))
