def units(tier):
  return []
