"""C32 host level: launch traces of the REAL step()/forward() under toggled flags (side condition: enumeration over concrete
flag words; the per-term gating is decided by the solver queries in c32.py) + the ACTUATION / activation-advance query.

Expected trace differences are written from the structure of MuJoCo's mj_forward / mj_step (engine_forward.c):
  CONSTRAINT   no collision, no constraint rows            CONTACT      no collision, no contact rows
  EQUALITY / FRICTIONLOSS / LIMIT   their row builders only
  GRAVITY      no gravity-compensation force, world acceleration zero, passive sum without gravcomp, (energy: no gravity term)
  ACTUATION    no actuator forces (zeroed) and activations are NOT advanced
  SENSOR       no sensor stages                            EULERDAMP / DAMPER   no implicit damping solve in Euler
  WARMSTART    solver initialisation specialised without warmstart
  CLAMPCTRL / REFSAFE / SPRING / DAMPER   the flag word reaches the kernels that gate on it (scalar arguments)
  ENERGY (enable)   adds the energy kernels only
"""

import collections
import inspect
import json
import os

import z3

from wsym import core, kh, report

PID = "C32"

SCRATCH = {"tmp", "empty", None}


def sig(e):
  if e.kind in ("launch", "launch_tiled"):
    cl = {}
    try:
      cl = {k: (int(v) if not isinstance(v, float) else v) for k, v in inspect.getclosurevars(e.kernel.func).nonlocals.items() if isinstance(v, (bool, int, float))}
    except Exception:
      pass
    mod = e.kernel.func.__module__.split(".")[-1]
    return (mod + "." + e.key.replace("__locals__", "/"), tuple(sorted(cl.items())))
  return (e.kind, tuple(e.outs or ()))


def flag_scalars(e):
  """scalar launch arguments that carry flag words: {param label: value}"""
  out = {}
  if e.kind != "launch":
    return out
  for a, spec in zip(e.args, e.kernel.adj.args):
    if any(t in spec.label for t in ("disableflags", "dsbl_", "gravity_enabled")) and isinstance(a, (int, bool)):
      out[spec.label] = int(a)
  return out


def make_model(xml, dis, en):
  import mujoco

  import mujoco_warp as mjw

  mjm = mujoco.MjModel.from_xml_string(xml)
  mjm.opt.disableflags = dis
  mjm.opt.enableflags = en
  m = mjw.put_model(mjm)
  d = mjw.make_data(mjm, nworld=1)
  return mjm, m, d


def trace(xml, dis, en, fn="step"):
  import mujoco_warp as mjw
  from checks import trace_c32

  mjm, m, d = make_model(xml, dis, en)
  with trace_c32.TraceRun(m, d) as tr:
    getattr(mjw, fn)(m, d)
  evs = [e for e in tr.events if e.kind not in ("while", "endwhile", "if", "endif", "else")]
  return evs


def is_scratch(s):
  return s[0] in ("zero_", "fill_", "copy", "util") and all(o in SCRATCH for o in s[1])


def P(*prefixes):
  return lambda s: any(s[0].startswith(p) for p in prefixes)


COLLISION = lambda s: s[0].startswith("collision_") or s == ("zero_", ("d.ncollision",)) or s == ("zero_", ("d.nacon",))
CONTACTROWS = lambda s: s[0].startswith("constraint._efc_contact") or s[0].startswith("constraint._add_surface_vel") or s == ("zero_", ("d.efc.Jqvel",))
EQ = P("constraint._equality_")
FR = P("constraint._friction_")
LIM = P("constraint._limit_")
ACT = P("forward._actuator_force", "forward._tendon_actuator_force", "forward._qfrc_actuator")
EULERDAMP = P("forward._compute_damping_deriv", "forward._euler_damp_qfrc", "smooth._small_cholesky_factorize_solve_block", "smooth._tile_cholesky_factorize_solve_block", "smooth._factor_solve")
SENSOR = lambda s: s[0].startswith("sensor.") and "_energy" not in s[0]
ENERGY = lambda s: "_energy" in s[0] or s[0].startswith("support.mul_m")
NONE = lambda s: False


def any_of(*fs):
  return lambda s: any(f(s) for f in fs)


# flag -> (required_removed, allowed_removed, allowed_added)
def table(types, euler=True):
  D = types.DisableBit
  DERIV_DAMP = P("derivative._qderiv_tendon_damping")
  DERIV_ACT = P("derivative._qderiv_actuator_passive_vel", "derivative._qderiv_actuator_passive_actuation")
  ed = EULERDAMP if euler else NONE
  t = {
    ("d", int(D.CONSTRAINT)): (any_of(COLLISION, CONTACTROWS, EQ, FR, LIM), any_of(COLLISION, CONTACTROWS, EQ, FR, LIM), NONE),
    ("d", int(D.EQUALITY)): (EQ, EQ, NONE),
    ("d", int(D.FRICTIONLOSS)): (FR, FR, NONE),
    ("d", int(D.LIMIT)): (LIM, LIM, NONE),
    ("d", int(D.CONTACT)): (any_of(COLLISION, CONTACTROWS), any_of(COLLISION, CONTACTROWS), NONE),
    ("d", int(D.SPRING)): (NONE, P("passive._flex_elasticity"), NONE),
    ("d", int(D.DAMPER)): (ed, any_of(ed, NONE if euler else DERIV_DAMP), NONE),
    ("d", int(D.GRAVITY)): (P("passive._gravity_force", "smooth._cacc_world"), any_of(P("passive._gravity_force", "smooth._cacc_world", "sensor._energy_pos_gravity"), lambda s: s[0].startswith("passive._qfrc_passive_kernel") and dict(s[1]).get("gravity_enabled") == 1), any_of(lambda s: s == ("zero_", ("d.cacc",)), lambda s: s[0].startswith("passive._qfrc_passive_kernel") and dict(s[1]).get("gravity_enabled") == 0)),
    ("d", int(D.CLAMPCTRL)): (NONE, NONE, NONE),
    ("d", int(D.WARMSTART)): (lambda s: s[0].startswith("solver._solve_init_dof") and dict(s[1]).get("WARMSTART") == 1, lambda s: s[0].startswith("solver._solve_init_dof"), lambda s: s[0].startswith("solver._solve_init_dof") and dict(s[1]).get("WARMSTART") == 0),
    ("d", int(D.ACTUATION)): (any_of(ACT, P("forward._next_activation")), any_of(ACT, P("forward._next_activation"), NONE if euler else DERIV_ACT), lambda s: s in (("zero_", ("d.act_dot",)), ("zero_", ("d.actuator_force",)), ("zero_", ("d.qfrc_actuator",)))),
    ("d", int(D.REFSAFE)): (NONE, NONE, NONE),
    ("d", int(D.SENSOR)): (SENSOR, SENSOR, NONE),
    ("d", int(D.EULERDAMP)): (ed, ed, NONE),
    ("e", int(types.EnableBit.ENERGY)): (NONE, lambda s: s[0] == "zero_", ENERGY),
  }
  return t


MODELS = {}


def models():
  from wsym import harvest

  if not MODELS:
    MODELS["arm-euler-dense"] = harvest.CORPUS["arm"].format(opt='integrator="Euler" jacobian="dense"', flag="")
    MODELS["arm-implicitfast-sparse"] = harvest.CORPUS["arm"].format(opt='integrator="implicitfast" jacobian="sparse" cone="elliptic"', flag="")
  return MODELS


def write_replay(name, payload):
  d = os.path.join(report.VERIF, "replays", PID)
  os.makedirs(d, exist_ok=True)
  path = os.path.join(d, f"{name}.json")
  json.dump(payload, open(path, "w"), indent=1, default=str)
  return path


def unit_trace(mname):
  def run(ctx):
    from mujoco_warp._src import forward, types

    xml = models()[mname]
    ctx.encode(forward.step, forward.forward, forward.fwd_actuation, forward.euler)
    ctx.notes.append("host level = side condition: concrete enumeration of flag words on one model; the claim that a flag-gated term removes exactly its contribution rests on the kernel-level solver queries")
    base = trace(xml, 0, 0)
    cb = collections.Counter(sig(e) for e in base)
    tab = table(types, euler="Euler" in xml)
    diffs = {}
    nchk = 0
    for (kind, b), (req, allow_rem, allow_add) in tab.items():
      name = (types.DisableBit(b).name if kind == "d" else "enable-" + types.EnableBit(b).name)
      t = trace(xml, b if kind == "d" else 0, b if kind == "e" else 0)
      ct = collections.Counter(sig(e) for e in t)
      rem, add = cb - ct, ct - cb
      diffs[(kind, b)] = (rem, add)
      bad = []
      for s in rem:
        if not allow_rem(s) and not is_scratch(s):
          bad.append(f"unexpectedly removed: {s[0]}{dict(s[1]) if s[1] and isinstance(s[1][0], tuple) else list(s[1])}")
      for s in add:
        if not allow_add(s) and not is_scratch(s):
          bad.append(f"unexpectedly added: {s[0]}{dict(s[1]) if s[1] and isinstance(s[1][0], tuple) else list(s[1])}")
      for s in cb:
        if req(s) and s[0] not in ("zero_", "fill_", "copy", "util") and ct.get(s, 0) >= cb[s]:
          bad.append(f"still launched although the flag disables its stage: {s[0]}")
      nchk += 1
      for msg in bad:
        key = f"{name}/" + msg.split(":")[0].replace(" ", "-") + "/" + msg.split(": ")[1].split("{")[0].split("[")[0]
        path = write_replay(f"trace.{mname}.{name}", {"property": PID, "model": mname, "xml": xml, "flag": name, "problem": bad, "how": "trace mjw.step(m, d) with checks.trace_c32.TraceRun for disableflags=0 and for this flag; compare the multisets of launches"})
        ctx.violation(key, f"step() with {name} toggled ({mname}): {msg} (MuJoCo: the flag switches exactly its own stage)", path)
      # flag words reach the gating kernels unchanged
      for e in t:
        for label, v in flag_scalars(e).items():
          want = None
          if label == "opt_disableflags":
            want = b if kind == "d" else 0
          elif label == "dsbl_clampctrl":
            want = (b if kind == "d" else 0) & int(types.DisableBit.CLAMPCTRL)
          elif label == "dsbl_spring":
            want = int(bool((b if kind == "d" else 0) & int(types.DisableBit.SPRING)))
          elif label == "dsbl_damper":
            want = int(bool((b if kind == "d" else 0) & int(types.DisableBit.DAMPER)))
          elif label == "gravity_enabled":
            want = int(not ((b if kind == "d" else 0) & int(types.DisableBit.GRAVITY)))
          if want is not None and int(bool(v)) != int(bool(want)) if label != "opt_disableflags" else (want is not None and v != want):
            path = write_replay(f"flagword.{mname}.{name}", {"property": PID, "model": mname, "flag": name, "kernel": e.key, "param": label, "value": v, "expected": want})
            ctx.violation(f"{name}/flag-word/{e.key}.{label}", f"{e.key} receives {label}={v} with {name} toggled (expected {want})", path)
    # a few pairs: the effect of two flags is the union of their effects
    D = types.DisableBit
    pairs = [(D.EQUALITY, D.LIMIT), (D.GRAVITY, D.SENSOR), (D.CONTACT, D.FRICTIONLOSS), (D.ACTUATION, D.WARMSTART)]
    for a, b2 in pairs:
      t = trace(xml, int(a) | int(b2), 0)
      ct = collections.Counter(sig(e) for e in t)
      rem, add = cb - ct, ct - cb
      ra, aa = diffs[("d", int(a))]
      rb, ab = diffs[("d", int(b2))]
      exp_rem, exp_add = ra + rb, aa + ab
      strip = lambda c: collections.Counter({k: v for k, v in c.items() if not is_scratch(k)})
      if strip(rem) != strip(exp_rem) or strip(add) != strip(exp_add):
        path = write_replay(f"trace.{mname}.{a.name}+{b2.name}", {"property": PID, "model": mname, "flags": [a.name, b2.name], "removed": [str(k) for k in strip(rem)], "expected_removed": [str(k) for k in strip(exp_rem)], "added": [str(k) for k in strip(add)], "expected_added": [str(k) for k in strip(exp_add)]})
        ctx.violation(f"{a.name}+{b2.name}/not-the-union", f"step() with {a.name}|{b2.name}: trace difference is not the union of the single-flag differences", path)
      nchk += 1
    ctx.notes.append(f"{nchk} flag words traced on {mname}; baseline {sum(cb.values())} launches / fills")
    sess = ctx.session([])
    ctx.reach(sess, "twin:baseline-nonempty", z3.BoolVal(sum(cb.values()) > 50))

  return (f"host/trace/{mname}", run)


# ---------------------------------------------------------------------------------- ACTUATION: activations must not advance


ACT_XML = """<mujoco><option><flag actuation="disable"/></option><worldbody>
<body pos="0 0 1"><joint name="j" damping="0.1"/><geom size=".1"/></body></worldbody>
<actuator><general joint="j" dyntype="{dyn}" dynprm="0.5" actlimited="true" actrange="{lo} {hi}"/></actuator></mujoco>"""


def unit_actuation_act(ctx):
  """MuJoCo's mj_advance skips the activation update when ACTUATION is disabled.  mujoco_warp zeroes act_dot (fwd_actuation)
  and still launches _next_activation; solver query over that kernel: with act_dot == 0 the activation is unchanged."""
  from checks import lib
  from mujoco_warp._src import forward, types

  k = forward._next_activation
  ctx.encode(k, forward.fwd_actuation)
  xml = ACT_XML.format(dyn="integrator", lo=-1, hi=1)
  evs = trace(xml, int(types.DisableBit.ACTUATION), 0)
  launched = [e for e in evs if e.kind == "launch" and e.key == "_next_activation"]
  zeroed = any(sig(e) == ("zero_", ("d.act_dot",)) for e in evs)
  ctx.notes.append(f"side condition (trace): with ACTUATION disabled step() launches _next_activation {len(launched)}x; act_dot zeroed by fwd_actuation: {zeroed}")
  ctx.assume("act_dot == 0 for every activation (fwd_actuation zeroes it when ACTUATION is disabled: trace)", "thread's own accesses in bounds", "actuator_actnum >= 0")
  ctx.bound(unroll=3)
  kt = lib.kernel_thread(k, unroll=3)
  w, u = kt.tid
  j = z3.Int("j")
  fx = z3.Real("fx")
  fm = z3.Function("fmul", z3.RealSort(), z3.RealSort(), z3.RealSort())
  zero = [z3.ForAll([fx], fm(0, fx) == 0), z3.ForAll([fx], fm(fx, 0) == 0)]
  adr, num = kt.pre("actuator_actadr", u), kt.pre("actuator_actnum", u)
  dt_ = kt.pre("actuator_dyntype", u)
  pre = [kt.pre("act_dot_in", w, j) == 0, j >= adr, j < adr + num, num >= 0, adr >= 0, z3.Or(dt_ == int(types.DynType.INTEGRATOR), dt_ == int(types.DynType.FILTER), dt_ == int(types.DynType.FILTEREXACT)), kt.cell("actuator_actrange").shape[0] >= 1, kt.pre("actuator_actrange", w % kt.cell("actuator_actrange").shape[0], u, k=0) <= kt.pre("actuator_actrange", w % kt.cell("actuator_actrange").shape[0], u, k=1)]
  ctx.bound(dyntype="integrator / filter / filterexact (the DC-motor bristle state also keeps evolving: same defect)")
  sess = ctx.session(kt.bg + pre + zero)
  ctx.reach(sess, "twin:has-activation", True)
  if not launched:
    ctx.notes.append("_next_activation is not launched with ACTUATION disabled: nothing to decide")
    return
  a0, a1 = kt.pre("act_in", w, j), kt.post("act_out", w, j)
  rid = w % kt.cell("actuator_actrange").shape[0]
  names = {"world": w, "act": u, "j": j, "act0": a0, "limited": kt.pre("actuator_actlimited", u), "lo": kt.pre("actuator_actrange", rid, u, k=0), "hi": kt.pre("actuator_actrange", rid, u, k=1), "dyntype": kt.pre("actuator_dyntype", u)}

  def rp(model):
    import subprocess
    import sys

    lo, hi, a = [float(kh.mval(model, names[x])) for x in ("lo", "hi", "act0")]
    side = 1 if a > hi else (-1 if a < lo else 0)
    if not (lo < hi) or abs(lo) > 1e3 or abs(hi) > 1e3 or (hi - lo) < 1e-3:
      lo, hi = -1.0, 1.0
    a = hi + 2.0 if side > 0 else (lo - 2.0 if side < 0 else 0.5 * (lo + hi))
    dyn = {1: "integrator", 2: "filter", 3: "filterexact"}.get(int(kh.mval(model, names["dyntype"])), "integrator")
    path = write_replay("actuation_act", {"property": PID, "xml": ACT_XML.format(dyn=dyn, lo=lo, hi=hi), "act0": a, "how": "python replays/C32/actuation_act.py replays/C32/actuation_act.json : mj_step vs mjw.step with actuation disabled, compare act"})
    sp = os.path.join(report.VERIF, "replays", PID, "actuation_act.py")
    open(sp, "w").write(ACT_REPLAY)
    p = subprocess.run([sys.executable, sp, path], capture_output=True, text=True, timeout=900)
    line = [l for l in p.stdout.splitlines() if l.startswith("RESULT ")]
    if not line:
      raise RuntimeError(p.stderr[-600:])
    r = json.loads(line[-1][7:])
    payload = json.load(open(path))
    payload["result"] = r
    json.dump(payload, open(path, "w"), indent=1)
    return abs(r["mujoco"] - r["mjwarp"]) > 1e-5, path

  ctx.prove(sess, "actuation-disabled/activation-unchanged", a1 == a0, names=names, replay=rp, desc="with ACTUATION disabled mujoco_warp still runs _next_activation, which clamps act into actrange; MuJoCo's mj_advance leaves act untouched")


ACT_REPLAY = r"""
import json, sys
import numpy as np, mujoco, warp as wp
wp.config.quiet = True
import mujoco_warp as mjw
spec = json.load(open(sys.argv[1]))
mjm = mujoco.MjModel.from_xml_string(spec["xml"])
mjd = mujoco.MjData(mjm); mjd.act[:] = spec["act0"]; mjd.ctrl[:] = 0.5
m = mjw.put_model(mjm); d = mjw.put_data(mjm, mjd)
mujoco.mj_step(mjm, mjd)
mjw.step(m, d)
print("RESULT " + json.dumps({"mujoco": float(mjd.act[0]), "mjwarp": float(d.act.numpy()[0, 0])}))
"""


def units(tier):
  us = [unit_trace("arm-euler-dense")]
  if tier == "thorough":
    us.append(unit_trace("arm-implicitfast-sparse"))
  us.append(("host/actuation-act", unit_actuation_act))
  return us
