"""Tiny wrapper kernels so that wp.funcs of mujoco_warp can be interpreted / replayed like kernels (K mode).
The wrappers contain no logic: they forward their arguments to the REAL function."""

import warp as wp

from mujoco_warp._src import constraint, support
from mujoco_warp._src.types import vec5


@wp.kernel(module="unique", enable_backward=False)
def efc_row_wrap(
  # In:
  opt_disableflags: int,
  timestep: float,
  pos_aref: float,
  pos_imp: float,
  invweight: float,
  solref: wp.vec2,
  solimp: vec5,
  margin: float,
  vel: float,
  frictionloss: float,
  type: int,
  id: int,
  # Out:
  type_out: wp.array2d[int],
  id_out: wp.array2d[int],
  pos_out: wp.array2d[float],
  margin_out: wp.array2d[float],
  D_out: wp.array2d[float],
  vel_out: wp.array2d[float],
  aref_out: wp.array2d[float],
  frictionloss_out: wp.array2d[float],
):
  constraint._efc_row(
    opt_disableflags,
    0,
    timestep,
    0,
    pos_aref,
    pos_imp,
    invweight,
    solref,
    solimp,
    margin,
    vel,
    frictionloss,
    type,
    id,
    type_out,
    id_out,
    pos_out,
    margin_out,
    D_out,
    vel_out,
    aref_out,
    frictionloss_out,
  )


@wp.kernel(module="unique", enable_backward=False)
def jac_dot_dof_wrap(
  # Model:
  body_parentid: wp.array[int],
  body_rootid: wp.array[int],
  jnt_type: wp.array[int],
  jnt_dofadr: wp.array[int],
  dof_bodyid: wp.array[int],
  dof_jntid: wp.array[int],
  body_isdofancestor: wp.array2d[int],
  # Data in:
  subtree_com_in: wp.array2d[wp.vec3],
  cdof_in: wp.array2d[wp.spatial_vector],
  cvel_in: wp.array2d[wp.spatial_vector],
  cdof_dot_in: wp.array2d[wp.spatial_vector],
  # In:
  point: wp.vec3,
  bodyid: int,
  dofid: int,
  worldid: int,
  # Out:
  jacp_out: wp.array[wp.vec3],
  jacr_out: wp.array[wp.vec3],
):
  jacp, jacr = support.jac_dot_dof(
    body_parentid,
    body_rootid,
    jnt_type,
    jnt_dofadr,
    dof_bodyid,
    dof_jntid,
    body_isdofancestor,
    subtree_com_in,
    cdof_in,
    cvel_in,
    cdof_dot_in,
    point,
    bodyid,
    dofid,
    worldid,
  )
  jacp_out[0] = jacp
  jacr_out[0] = jacr
