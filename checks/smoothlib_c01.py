"""Shared helpers for C01 / C02 / C07: leaf-function abstractions, textbook definitions, MuJoCo reference recursions
(written from engine_core_smooth.c semantics, polymorphic over python floats and z3 terms), symbolic Model/Data shims for
H-mode runs and the replay that compares the real mujoco_warp function with the `mujoco` library on concrete inputs."""

import dataclasses
import json
import math as pymath
import os

import numpy as np
import warp as wp
import z3

from wsym import core, host, kh, report
from wsym.core import And, Not, Or, Vec, arith, cmp, is_sym, ite, to_z3

R = z3.RealSort()
MJ_MINVAL = 1e-15


class _FU:
  """stub interpreter: makes core.arith abstract float products / quotients exactly like Interp(float_uf=True)"""

  float_uf = True

  def __init__(self):
    self.assumes = []


FU = _FU()


class Ops:
  """arithmetic context: exact (interp=None) or float_uf (products are uninterpreted functions)"""

  def __init__(self, uf=False):
    self.ip = FU if uf else None

  def a(self, op, x, y):
    return arith(op, x, y, self.ip)

  def add(self, u, v):
    return [self.a("+", x, y) for x, y in zip(u, v)]

  def sub(self, u, v):
    return [self.a("-", x, y) for x, y in zip(u, v)]

  def scl(self, u, s):
    return [self.a("*", x, s) for x in u]

  def dot(self, u, v):
    r = self.a("*", u[0], v[0])
    for x, y in zip(u[1:], v[1:]):
      r = self.a("+", r, self.a("*", x, y))
    return r

  def cross(self, u, v):
    m, s = (lambda x, y: self.a("*", x, y)), (lambda x, y: self.a("-", x, y))
    return [s(m(u[1], v[2]), m(u[2], v[1])), s(m(u[2], v[0]), m(u[0], v[2])), s(m(u[0], v[1]), m(u[1], v[0]))]

  def matvec(self, M, v):
    return [self.dot(M[3 * i : 3 * i + 3], v) for i in range(3)]


EX = Ops(False)
UFO = Ops(True)


def SIN(x):
  return z3.Function("sin", R, R)(to_z3(x, "real")) if is_sym(x) else pymath.sin(x)


def COS(x):
  return z3.Function("cos", R, R)(to_z3(x, "real")) if is_sym(x) else pymath.cos(x)


# ------------------------------------------------------------------------------------------------ textbook leaf definitions
# quaternions are (w, x, y, z) as in MuJoCo


def tb_mul_quat(p, q, o=EX):
  """Hamilton product: (pw qw - pv.qv, pw qv + qw pv + pv x qv)"""
  pw, pv, qw, qv = p[0], list(p[1:]), q[0], list(q[1:])
  w = o.a("-", o.a("*", pw, qw), o.dot(pv, qv))
  v = o.add(o.add(o.scl(qv, pw), o.scl(pv, qw)), o.cross(pv, qv))
  return [w] + v


def tb_conj(q, o=EX):
  return [q[0]] + [o.a("*", x, -1) for x in q[1:]]


def tb_rot_vec_quat(v, q, o=EX):
  """vector part of q (0,v) q*   (for unit q: the rotation of v by q)"""
  r = tb_mul_quat(tb_mul_quat(q, [0.0] + list(v), o), tb_conj(q, o), o)
  return r[1:]


def tb_quat_to_mat(q, o=EX):
  """matrix whose columns are the rotated basis vectors (row major)"""
  cols = [tb_rot_vec_quat(e, q, o) for e in ([1.0, 0.0, 0.0], [0.0, 1.0, 0.0], [0.0, 0.0, 1.0])]
  return [cols[j][i] for i in range(3) for j in range(3)]


def tb_axis_angle_to_quat(axis, angle, o=EX):
  h = o.a("*", angle, 0.5)
  s, c = SIN(h), COS(h)
  return [c] + o.scl(axis, s)


def tb_inert_vec(i, v, o=EX):
  """6D inertia (mju_inertCom layout: Ixx Iyy Izz Ixy Ixz Iyz, m*c (3), m) times motion vector (rot, lin):
  res_rot = I w + (m c) x lin ;  res_lin = m lin - (m c) x w"""
  I = [i[0], i[3], i[4], i[3], i[1], i[5], i[4], i[5], i[2]]
  w, lin, mc, m = list(v[:3]), list(v[3:]), list(i[6:9]), i[9]
  rot = o.add(o.matvec(I, w), o.cross(mc, lin))
  tr = o.sub(o.scl(lin, m), o.cross(mc, w))
  return rot + tr


def tb_motion_cross(u, v, o=EX):
  """spatial motion cross product: (w_u x w_v, w_u x v_v + v_u x w_v)"""
  wu, vu, wv, vv = list(u[:3]), list(u[3:]), list(v[:3]), list(v[3:])
  return o.cross(wu, wv) + o.add(o.cross(wu, vv), o.cross(vu, wv))


def tb_motion_cross_force(v, f, o=EX):
  """spatial motion x force: (w x t + v x f, w x f)"""
  w, lin, t, fo = list(v[:3]), list(v[3:]), list(f[:3]), list(f[3:])
  return o.add(o.cross(w, t), o.cross(lin, fo)) + o.cross(w, fo)


# ------------------------------------------------------------------------------------------------ leaves for the structural layer


class NumLeaves:
  """numeric textbook leaves (python floats): used to validate the reference recursions against the mujoco library"""

  o = EX

  def rot(self, v, q):
    return tb_rot_vec_quat(v, q)

  def mulq(self, p, q):
    return tb_mul_quat(p, q)

  def q2m(self, q):
    return tb_quat_to_mat(q)

  def aa2q(self, axis, angle):
    return tb_axis_angle_to_quat(axis, angle)

  def normalize(self, v):
    n = pymath.sqrt(sum(x * x for x in v))
    return [x / n for x in v] if n > 0 else [0.0 for _ in v]

  def inert_vec(self, i, v):
    return tb_inert_vec(i, v)

  def mcross(self, u, v):
    return tb_motion_cross(u, v)

  def mcross_force(self, u, v):
    return tb_motion_cross_force(u, v)


def _conc(xs):
  return all(not is_sym(x) for x in xs)


class UFLeaves:
  """leaf math functions as shared uninterpreted functions (same symbols for the implementation, via Interp summaries,
  and for the reference).  A call with a fully concrete argument (the world frame) is NOT abstracted."""

  o = UFO

  def __init__(self):
    self._ip = core.Interp(float_uf=True)
    self.assumes = self._ip.assumes

  def _uf(self, name, nout, args):
    zs = [to_z3(x, "real") for x in args]
    return [z3.Function(f"{name}#{k}", *([R] * len(zs)), R)(*zs) for k in range(nout)]

  def rot(self, v, q):
    if _conc(q):
      return tb_rot_vec_quat(v, q, EX)
    return self._uf("rot_vec_quat", 3, list(v) + list(q))

  def mulq(self, p, q):
    if _conc(p) or _conc(q):
      return tb_mul_quat(p, q, EX)
    return self._uf("mul_quat", 4, list(p) + list(q))

  def q2m(self, q):
    if _conc(q):
      return tb_quat_to_mat(q, EX)
    return self._uf("quat_to_mat", 9, list(q))

  def aa2q(self, axis, angle):
    return self._uf("axis_angle_to_quat", 4, list(axis) + [angle])

  def normalize(self, v):
    """the engine's model of the Warp builtin wp.normalize (float_uf flavour), shared by both sides"""
    dt = "quat" if len(v) == 4 else "f"
    if _conc(v):
      return NumLeaves().normalize(v)
    return list(self._ip.builtin(None, "normalize", [Vec(list(v), (len(v),), dt)], None).c)

  def inert_vec(self, i, v):
    return self._uf("inert_vec", 6, list(i) + list(v))

  def mcross(self, u, v):
    return self._uf("motion_cross", 6, list(u) + list(v))

  def mcross_force(self, u, v):
    return self._uf("motion_cross_force", 6, list(u) + list(v))

  # ---- summaries for Interp(summaries=...)
  def summaries(self, which=("rot_vec_quat", "mul_quat", "quat_to_mat", "axis_angle_to_quat")):
    from mujoco_warp._src import math as mm

    def mk(fn, f, shape, dt, nargs):
      def s(it, fr, args):
        flat = [list(a.c) if isinstance(a, Vec) else a for a in args]
        # a concrete quaternion argument (the world frame): run the REAL function instead of the abstraction
        if any(isinstance(a, Vec) and a.dt == "quat" and _conc(a.c) for a in args):
          return it.call_pyfunc(fn.func, args, caller=fr)
        return Vec(f(*flat), shape, dt)

      return s

    table = {
      "rot_vec_quat": (mm.rot_vec_quat, self.rot, (3,), "f"),
      "mul_quat": (mm.mul_quat, self.mulq, (4,), "quat"),
      "quat_to_mat": (mm.quat_to_mat, self.q2m, (3, 3), "f"),
      "axis_angle_to_quat": (mm.axis_angle_to_quat, self.aa2q, (4,), "quat"),
      "inert_vec": (mm.inert_vec, self.inert_vec, (6,), "f"),
      "motion_cross": (mm.motion_cross, self.mcross, (6,), "f"),
      "motion_cross_force": (mm.motion_cross_force, self.mcross_force, (6,), "f"),
    }
    out = {}
    for n in which:
      fn, f, shape, dt = table[n]
      out[fn.key] = mk(fn, f, shape, dt, None)
    return out


# ------------------------------------------------------------------------------------------------ parameter access


class P:
  """uniform read access to Model/Data float parameters: symbolic (SymArr cells, initial contents) or numeric (numpy).
  get(name, w, i) applies the documented batching rule: world w reads row w % shape[0] of a batched Model field."""

  def __init__(self, src, ints):
    self.src, self.ints = src, ints  # src: name -> SymArr | numpy array ; ints: the mujoco MjModel (structure)

  def get(self, name, w, i=None):
    a = self.src[name]
    if isinstance(a, host.SymArr):
      c = a.ref.cell
      idx = [w % c.shape[0]] + ([] if i is None else [i])
      f = c.flat(idx)
      vals = [c.d0[k][f] for k in range(c.ncomp)]
    else:
      a = np.asarray(a)
      row = a[w % a.shape[0]] if i is None else a[w % a.shape[0]][i]
      vals = [float(x) for x in np.asarray(row, dtype=np.float64).reshape(-1)]
    return vals if len(vals) > 1 else vals[0]

  def geti(self, name, i):
    """int Model field that the check made symbolic (e.g. cam_mode); falls back to the MjModel value"""
    a = self.src.get(name)
    if isinstance(a, host.SymArr):
      return a.ref.cell.d0[0][i]
    if a is not None:
      return int(np.asarray(a).reshape(-1)[i])
    return int(getattr(self.ints, name)[i])


# ------------------------------------------------------------------------------------------------ reference recursions
JNT_FREE, JNT_BALL, JNT_SLIDE, JNT_HINGE = 0, 1, 2, 3


def ref_kinematics(mjm, p, w, L):
  """mj_kinematics for world w.  -> dict of lists indexed by body / joint / geom / site.
  Documented semantics: world frame = origin / identity; free joint: pose = qpos (quaternion normalised); otherwise
  pose = parent pose * (body_pos, body_quat) [mocap: (mocap_pos, normalised mocap_quat)], then per joint in order:
  anchor / axis in the current frame, slide translates along the axis by qpos - qpos0, ball / hinge rotate about the
  anchor; finally the quaternion is normalised.  xmat = matrix of xquat; inertial / geom / site frames = local2Global."""
  o = L.o
  nb = mjm.nbody
  xpos, xquat, xmat, xipos, ximat = [None] * nb, [None] * nb, [None] * nb, [None] * nb, [None] * nb
  xanchor, xaxis = [None] * mjm.njnt, [None] * mjm.njnt
  xpos[0], xquat[0] = [0.0, 0.0, 0.0], [1.0, 0.0, 0.0, 0.0]
  xmat[0] = [1.0, 0.0, 0.0, 0.0, 1.0, 0.0, 0.0, 0.0, 1.0]
  xipos[0], ximat[0] = [0.0, 0.0, 0.0], list(xmat[0])
  qpos = lambda a: p.get("qpos", w, a)
  for b in range(1, nb):
    jadr, jnum = int(mjm.body_jntadr[b]), int(mjm.body_jntnum[b])
    if jnum == 1 and mjm.jnt_type[jadr] == JNT_FREE:
      qa = int(mjm.jnt_qposadr[jadr])
      pos = [qpos(qa), qpos(qa + 1), qpos(qa + 2)]
      quat = L.normalize([qpos(qa + 3), qpos(qa + 4), qpos(qa + 5), qpos(qa + 6)])
      xanchor[jadr] = list(pos)
      xaxis[jadr] = p.get("jnt_axis", w, jadr)
    else:
      pid = int(mjm.body_parentid[b])
      mid = int(mjm.body_mocapid[b])
      if mid >= 0:
        bpos, bquat = p.get("mocap_pos", w, mid), L.normalize(p.get("mocap_quat", w, mid))
      else:
        bpos, bquat = p.get("body_pos", w, b), p.get("body_quat", w, b)
      if pid:
        pos = o.add(L.rot(bpos, xquat[pid]), xpos[pid])
        quat = L.mulq(xquat[pid], bquat)
      else:
        pos, quat = list(bpos), list(bquat)
      for j in range(jadr, jadr + jnum):
        qa, jt = int(mjm.jnt_qposadr[j]), int(mjm.jnt_type[j])
        jaxis, jpos = p.get("jnt_axis", w, j), p.get("jnt_pos", w, j)
        axis = L.rot(jaxis, quat)
        anchor = o.add(L.rot(jpos, quat), pos)
        if jt == JNT_SLIDE:
          pos = o.add(pos, o.scl(axis, o.a("-", qpos(qa), p.get("qpos0", w, qa))))
        elif jt in (JNT_BALL, JNT_HINGE):
          if jt == JNT_BALL:
            qloc = L.normalize([qpos(qa), qpos(qa + 1), qpos(qa + 2), qpos(qa + 3)])
          else:
            qloc = L.aa2q(jaxis, o.a("-", qpos(qa), p.get("qpos0", w, qa)))
          quat = L.mulq(quat, qloc)
          pos = o.sub(anchor, L.rot(jpos, quat))
        else:
          raise ValueError("free joint must be the only joint of its body")
        xanchor[j], xaxis[j] = anchor, axis
      quat = L.normalize(quat)
    xpos[b], xquat[b] = pos, quat
    xmat[b] = L.q2m(quat)
    xipos[b] = o.add(xpos[b], L.rot(p.get("body_ipos", w, b), quat))
    ximat[b] = L.q2m(L.mulq(quat, p.get("body_iquat", w, b)))
  out = {"xpos": xpos, "xquat": xquat, "xmat": xmat, "xipos": xipos, "ximat": ximat, "xanchor": xanchor, "xaxis": xaxis}
  for kind, n in (("geom", mjm.ngeom), ("site", mjm.nsite)):
    xp, xm = [], []
    for g in range(n):
      b = int(getattr(mjm, f"{kind}_bodyid")[g])
      xp.append(o.add(xpos[b], L.rot(p.get(f"{kind}_pos", w, g), xquat[b])))
      xm.append(L.q2m(L.mulq(xquat[b], p.get(f"{kind}_quat", w, g))))
    out[f"{kind}_xpos"], out[f"{kind}_xmat"] = xp, xm
  return out


def static_geom(mjm, g):
  """geoms of bodies welded to the world that do not descend from a mocap body: written once by make_data (documented
  mujoco_warp design), not by kinematics()"""
  b = int(mjm.geom_bodyid[g])
  return int(mjm.body_weldid[b]) == 0 and int(mjm.body_mocapid[int(mjm.body_rootid[b])]) == -1


def ref_subtree_com(mjm, p, w, o, xipos):
  """mj_comPos part 1: subtree_com[b] = sum_{j in subtree(b)} mass_j xipos_j / subtreemass_b ; a subtree lighter than
  mjMINVAL takes xipos_b"""
  nb = mjm.nbody
  acc = [o.scl(xipos(b), p.get("body_mass", w, b)) for b in range(nb)]
  for b in range(nb - 1, 0, -1):
    pid = int(mjm.body_parentid[b])
    acc[pid] = o.add(acc[pid], acc[b])
  out = []
  for b in range(nb):
    sm = p.get("body_subtreemass", w, b)
    heavy = [o.a("/", x, sm) for x in acc[b]]
    small = cmp("<", sm, MJ_MINVAL)
    out.append([ite(small, y, x) for x, y in zip(heavy, xipos(b))])
  return out


def ref_cinert(inertia, mass, ximat, dif, o=EX):
  """mju_inertCom: rot = R diag(I) R' - m [d]x[d]x  (6 entries xx yy zz xy xz yz), m d, m"""
  Rm = ximat
  rot = {}
  for a, (i, j) in enumerate([(0, 0), (1, 1), (2, 2), (0, 1), (0, 2), (1, 2)]):
    s = 0.0
    for k in range(3):
      s = o.a("+", s, o.a("*", o.a("*", Rm[3 * i + k], inertia[k]), Rm[3 * j + k]))
    rot[a] = s
  dd = o.dot(dif, dif)
  # -[d]x[d]x = (d.d) I - d d'
  for a, (i, j) in enumerate([(0, 0), (1, 1), (2, 2), (0, 1), (0, 2), (1, 2)]):
    t = o.a("*", o.a("*", dif[i], dif[j]), -1)
    if i == j:
      t = o.a("+", dd, t)
    rot[a] = o.a("+", rot[a], o.a("*", mass, t))
  return [rot[a] for a in range(6)] + o.scl(dif, mass) + [mass]


def ref_cdof(jtype, xmat_body, xaxis, offset, o=EX):
  """mj_comPos part 3: list of 6-vectors (rot, lin) for the joint's dofs.  mju_dofCom(axis, offset) = (axis, axis x offset);
  slide = (0, axis); ball / free rotations use the columns of the body's xmat"""
  cols = [[xmat_body[3 * r + c] for r in range(3)] for c in range(3)]
  rotd = [list(cols[i]) + o.cross(cols[i], offset) for i in range(3)]
  if jtype == JNT_FREE:
    tr = [[0.0, 0.0, 0.0] + [1.0 if k == i else 0.0 for k in range(3)] for i in range(3)]
    return tr + rotd
  if jtype == JNT_BALL:
    return rotd
  if jtype == JNT_SLIDE:
    return [[0.0, 0.0, 0.0] + list(xaxis)]
  return [list(xaxis) + o.cross(xaxis, offset)]


# ------------------------------------------------------------------------------------------------ shims


def sym_fields(obj, prefix, names, batch=None, keep_rows=None):
  """dataclasses.replace(obj, ...) with the named wp.array fields replaced by symbolic dense arrays.
  batch: first dimension to use instead of the array's own (per-world batched Model fields: 1 or nworld).
  keep_rows: name -> list of second-dim indices that keep their concrete value (e.g. the world body row)."""
  rep = {}
  for n in names:
    v = getattr(obj, n)
    if isinstance(v, host.SymArr):
      continue
    shape = tuple(v.shape)
    if batch is not None and len(shape) >= 2:
      shape = (batch,) + shape[1:]
    sa = host.sym_array(prefix + n, shape, v.dtype)
    rows = (keep_rows or {}).get(n)
    if rows and v.size:
      src = v.numpy()
      c = sa.ref.cell
      for w in range(shape[0]):
        for r in rows:
          f = c.flat([w, r])
          vals = np.asarray(src[w % src.shape[0]][r], dtype=np.float64).reshape(-1)
          for k in range(c.ncomp):
            c.d[k][f] = float(vals[k]) if c.dtype == "real" else int(vals[k])
      c.d0 = [list(x) for x in c.d]
    rep[n] = sa
  return dataclasses.replace(obj, **rep)


def cell_vals(sa, idx, post=True):
  c = sa.ref.cell
  f = c.flat(list(idx))
  src = c.d if post else c.d0
  return [src[k][f] for k in range(c.ncomp)]


def eq_all(a, b):
  return And(*[cmp("==", x, y) for x, y in zip(a, b)])


def nonzero(v):
  return Or(*[cmp("!=", x, 0) for x in v])


# ------------------------------------------------------------------------------------------------ models -> numpy


def model_array(model, sa, post=False, clip=1e6):
  c = sa.ref.cell
  src = c.d if post else c.d0
  a = np.zeros((c.size, c.ncomp), dtype=np.float64)
  for k in range(c.ncomp):
    for i, x in enumerate(src[k]):
      v = kh.mval(model, x) if is_sym(x) else x
      a[i, k] = float(v)
  if c.dtype == "real":
    a = np.clip(a, -clip, clip)
  return a.reshape(tuple(c.shape) + tuple(c.vshape))


def save_replay(pid, name, payload):
  d = os.path.join(report.VERIF, "replays", pid)
  os.makedirs(d, exist_ok=True)
  path = os.path.join(d, name.replace("/", "_").replace(" ", "_")[:120] + ".json")
  with open(path, "w") as f:
    json.dump(payload, f, indent=1, default=lambda x: x.tolist() if hasattr(x, "tolist") else str(x))
  return path


# ------------------------------------------------------------------------------------------------ float_uf helpers


def comm_axioms(exprs):
  """core.arith(float_uf) orders the operands of the uninterpreted product `fmul` by z3 term id, which is not stable
  between the implementation run and the later reference evaluation (terms can be collected and re-created): state
  commutativity explicitly for every product that occurs in the given terms (plus the true facts 0 * x = 0, 1 * x = x)."""
  seen, out, stack = set(), {}, [e for e in exprs if is_sym(e)]
  while stack:
    e = stack.pop()
    i = e.get_id()
    if i in seen:
      continue
    seen.add(i)
    if z3.is_app(e):
      if e.decl().name() == "fmul" and e.num_args() == 2:
        a, b = e.arg(0), e.arg(1)
        facts = [z3.Implies(a == 0, e == 0), z3.Implies(b == 0, e == 0), z3.Implies(a == 1, e == b), z3.Implies(b == 1, e == a)]
        if a.get_id() != b.get_id():
          facts.append(e == e.decl()(b, a))
        out[i] = z3.And(*facts)
      stack.extend(e.children())
  return list(out.values())


def run_queries(ctx, bg, queries, twin="twin:state", extra_terms=()):
  """queries: list of dict(name=, goal=, guard=, names=, replay=, desc=).  One session whose background also contains
  the commutativity instances of every uninterpreted product in the goals."""
  terms = []
  for q in queries:
    terms += [core.zbool(q["goal"]), core.zbool(q.get("guard", True))]
  bgz = [core.zbool(b) for b in bg]
  ax = comm_axioms(terms + bgz + list(extra_terms))
  sess = ctx.session(bgz + ax)
  ctx.reach(sess, twin, True)
  for q in queries:
    ctx.prove(sess, q["name"], q["goal"], q.get("guard", True), names=q.get("names"), replay=q.get("replay"), desc=q.get("desc"))
  return sess


class OneShot(kh.Session):
  """Session whose every query runs in a FRESH non-incremental z3 solver.  kh.Session checks under push/pop, which puts z3
  into its incremental mode; for nonlinear real arithmetic that mode returns `unknown` on queries the one-shot solver
  decides in milliseconds (observed on polynomial identities with array reads)."""

  def __init__(self, background=(), timeout_ms=20000, tactic=None):
    self.bgs = [core.zbool(b) for b in background if b is not True]
    self.timeout_ms, self.tactic = timeout_ms, tactic
    self.results, self.log = [], None

  def add(self, *bs):
    self.bgs += [core.zbool(b) for b in bs if b is not True]

  def _check(self, extra):
    import time

    s = z3.Solver() if self.tactic is None else z3.Tactic(self.tactic).solver()
    s.set("timeout", self.timeout_ms)
    for b in self.bgs:
      s.add(b)
    for e in extra:
      if e is True:
        continue
      s.add(core.zbool(e))
    t0 = time.time()
    r = str(s.check())
    dt = time.time() - t0
    return r, dt, (s.model() if r == "sat" else None)


def oneshot(ctx, background=(), tactic=None):
  return OneShot(background, ctx.timeout_ms, tactic)


def abstract_ufs(exprs):
  """replace every application of an uninterpreted function (arity > 0) by a fresh real constant (same application ->
  same constant).  Over-approximation: `unsat` stays sound; lets the pure nlsat tactic be used."""
  table, cache = {}, {}

  def walk(e):
    i = e.get_id()
    if i in cache:
      return cache[i]
    if z3.is_app(e) and e.num_args() > 0:
      kids = [walk(c) for c in e.children()]
      if e.decl().kind() == z3.Z3_OP_UNINTERPRETED:
        key = (e.decl().name(), tuple(k.get_id() for k in kids))
        if key not in table:
          table[key] = (z3.Real(f"uf!{len(table)}"), kids)
        r = table[key][0]
      else:
        r = e.decl()(*kids)
    else:
      r = e
    cache[i] = r
    return r

  return [walk(core.zbool(e) if not is_sym(e) else e) for e in exprs]


# ------------------------------------------------------------------------------------------------ H-mode interpreter with globally unique fresh names
import contextlib
import itertools

_GLOBAL_FRESH = itertools.count()


class UInterp(core.Interp):
  """host.HostRun creates one Interp per thread and every Interp numbers its fresh symbols (sqrt!k, oob!k, div!k) from 0,
  so two threads of one host run would share `sqrt!0`.  This subclass draws the numbers from one global counter."""

  def __init__(self, *a, **k):
    super().__init__(*a, **k)
    self.fresh = _GLOBAL_FRESH


@contextlib.contextmanager
def hostrun(interp_cls=UInterp, **kw):
  saved = host.Interp
  host.Interp = interp_cls
  try:
    with host.HostRun(**kw) as hr:
      yield hr
  finally:
    host.Interp = saved
