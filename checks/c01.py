"""C01 Kinematics agree with MuJoCo C.

Two layers.
 L1 leaf    each math.py leaf (mul_quat, rot_vec_quat, quat_to_mat, axis_angle_to_quat, quat_inv) equals its textbook
            definition over exact reals (sin / cos uninterpreted, shared); normalize is idempotent.
 L2 kin     the REAL smooth.kinematics / com_pos / camlight / tendon host functions are run natively (H mode, nworld = 2,
            every launched thread interpreted) on a family of real MJCF topologies with qpos, mocap poses and every float
            Model parameter symbolic, leaf functions replaced by shared uninterpreted functions; every output is compared
            with a reference recursion written from mj_kinematics / mj_comPos / mj_camlight semantics (validated
            numerically against the mujoco library in the unit).
 K          _cinert and _cdof (one generic thread, exact reals) against mju_inertCom / mju_dofCom.
"""

import numpy as np
import warp as wp
import z3

from checks import lib
from checks import smoothlib_c01 as sl
from wsym import core, host, kh, report
from wsym.core import And, Implies, Not, Or, Vec, arith, cmp, is_sym, ite

PID = "C01"

GEOMS = '<geom size=".1" pos="0.1 0.2 0" quat="1 0.5 0 0"/><site name="s{n}" pos="0 0.1 0.2" quat="0.5 0.5 0.1 0"/>'
TOPOLOGIES = {
  "single-hinge": f"""<mujoco><worldbody><geom type="plane" size="1 1 .1"/><site name="sw" pos="1 0 0"/>
<body pos="0.1 0.2 0.3" quat="1 2 3 4"><joint type="hinge" axis="0 1 0" pos="0.1 0 0.2"/>{GEOMS.format(n=1)}</body>
</worldbody></mujoco>""",
  "chain-hinge-slide": f"""<mujoco><worldbody>
<body pos="0.1 0.2 0.3" quat="1 2 3 4"><joint type="hinge" axis="0 1 0" pos="0.1 0 0.2"/>{GEOMS.format(n=1)}
 <body pos="0.3 0 0.1" quat="0.5 0.5 0.1 0"><joint type="slide" axis="1 0 0" pos="0 0.1 0" ref="0.2"/>{GEOMS.format(n=2)}</body>
</body></worldbody></mujoco>""",
  "fork-ball-slide": f"""<mujoco><worldbody>
<body pos="0.1 0.2 0.3" quat="1 2 3 4"><joint type="hinge" axis="0 0 1" pos="0.1 0 0.2" ref="0.1"/>{GEOMS.format(n=1)}
 <body pos="0.3 0 0.1" quat="0.5 0.5 0.1 0"><joint type="ball" pos="0 0.1 0"/>{GEOMS.format(n=2)}</body>
 <body pos="-0.3 0 0.1" quat="0.5 0.1 0.5 0"><joint type="slide" axis="0 1 0"/>{GEOMS.format(n=3)}</body>
</body></worldbody></mujoco>""",
  "two-joints-child": f"""<mujoco><worldbody>
<body pos="0.1 0.2 0.3" quat="1 2 3 4"><joint type="slide" axis="0 1 0" pos="0.1 0 0.2"/><joint type="hinge" axis="1 0 0" pos="0 0.2 0.1" ref="0.3"/>
 {GEOMS.format(n=1)}
 <body pos="0.3 0 0.1" quat="0.5 0.5 0.1 0"><joint type="hinge" axis="1 0 0" pos="0 0.1 0"/>{GEOMS.format(n=2)}</body>
</body></worldbody></mujoco>""",
  "free-hinge": f"""<mujoco><worldbody>
<body pos="0.1 0.2 0.3" quat="1 2 3 4"><freejoint/>{GEOMS.format(n=1)}
 <body pos="0.3 0 0.1" quat="0.5 0.5 0.1 0"><joint type="hinge" axis="1 0 0" pos="0 0.1 0"/>{GEOMS.format(n=2)}</body>
</body></worldbody></mujoco>""",
  "mocap-welded": f"""<mujoco><worldbody>
<body pos="0.1 0.2 0.3" quat="1 2 3 4" mocap="true">{GEOMS.format(n=1)}
 <body pos="0.3 0 0.1" quat="0.5 0.5 0.1 0">{GEOMS.format(n=2)}</body>
</body>
<body pos="1 0 0"><joint type="ball" pos="0.1 0 0"/>{GEOMS.format(n=3)}</body>
</worldbody></mujoco>""",
  "welded-between": f"""<mujoco><worldbody>
<body pos="0.1 0.2 0.3" quat="1 2 3 4"><joint type="hinge" axis="0 1 0" pos="0.1 0 0.2"/>{GEOMS.format(n=1)}
 <body pos="0.3 0 0.1" quat="0.5 0.5 0.1 0">{GEOMS.format(n=2)}
  <body pos="0 0.2 0.1" quat="0.1 0.5 0.5 0"><joint type="slide" axis="0 0 1"/>{GEOMS.format(n=3)}</body>
 </body>
</body></worldbody></mujoco>""",
}
QUICK_TOPOLOGIES = list(TOPOLOGIES)

CAMLIGHT_XML = """<mujoco><worldbody>
<body name="a" pos="0.1 0.2 0.3" quat="1 2 3 4"><joint type="hinge" axis="0 1 0"/><geom size=".1"/>
 <camera name="c0" pos="0 0.1 0.5" quat="1 0.2 0 0" mode="targetbody" target="b"/><light name="l0" pos="0.1 0 0.4" dir="0 0.6 -0.8" mode="targetbody" target="b"/>
 <body name="b" pos="0.3 0 0.1" quat="0.5 0.5 0.1 0"><joint type="slide" axis="1 0 0"/><geom size=".1"/>
  <camera name="c1" pos="0.2 0.1 0" quat="0.3 0.2 0 1" mode="trackcom"/><light name="l1" pos="0 0.3 0.4" dir="0.6 0 -0.8" mode="track"/></body>
</body></worldbody></mujoco>"""

TENDON_XML = """<mujoco><worldbody>
<body pos="1 0 1"><joint type="ball"/><geom size=".1"/></body>
<body pos="0 0 1"><joint name="j0" type="hinge" axis="0 1 0"/><geom size=".1"/>
 <body pos="0.3 0 0"><joint name="j1" type="slide" axis="1 0 0"/><geom size=".1"/>
  <body pos="0.3 0 0"><joint name="j2" type="hinge" axis="0 0 1"/><geom size=".1"/></body></body></body>
</worldbody><tendon>
<fixed name="t0"><joint joint="j0" coef="1.5"/><joint joint="j2" coef="-0.5"/></fixed>
<fixed name="t1"><joint joint="j1" coef="2"/></fixed>
<fixed name="t2"><joint joint="j2" coef="0.25"/><joint joint="j1" coef="-1"/><joint joint="j0" coef="3"/></fixed>
</tendon></mujoco>"""

MODEL_FLOATS = ["body_pos", "body_quat", "body_ipos", "body_iquat", "jnt_pos", "jnt_axis", "qpos0", "geom_pos", "geom_quat", "site_pos", "site_quat"]
MASS_FLOATS = ["body_mass", "body_subtreemass", "body_inertia"]
KEEP_WORLD = {"body_pos": [0], "body_quat": [0], "body_ipos": [0], "body_iquat": [0]}
NWORLD = 2
# mjModel invariants (the MuJoCo compiler normalises them); MuJoCo's mju_rotVecQuat and q (0,v) q* agree for unit quaternions only
UNIT_FIELDS = ("body_quat", "body_iquat", "geom_quat", "site_quat", "cam_quat", "jnt_axis", "light_dir", "light_dir0")


def build(xml):
  import mujoco

  import mujoco_warp as mjw

  mjm = mujoco.MjModel.from_xml_string(xml)
  m = mjw.put_model(mjm)
  d = mjw.make_data(mjm, nworld=NWORLD)
  return mjm, m, d


# ================================================================================================ L1 leaf lemmas

_LEAFK = {}


def leaf_kernel(name):
  """tiny real kernels around the real wp.funcs (used only to REPLAY a leaf counterexample on compiled code)"""
  if _LEAFK:
    return _LEAFK[name]
  from checks import leafk_c01

  _LEAFK.update(leafk_c01.KERNELS)
  return _LEAFK[name]


def leaf_replay(ctx, name, fn, argsyms, ref_np):
  """evaluate the real compiled wp.func on the model's values and compare with the numeric textbook definition"""

  def _rp(model):
    vals = [kh.mval(model, a) for a in argsyms]
    vals = [np.clip(np.array(v if isinstance(v, list) else [v], dtype=np.float64), -50, 50) for v in vals]
    from checks import leafk_c01

    for trial in range(4):
      got = leafk_c01.run(name, vals)
      want = np.array(ref_np(*[v.tolist() if len(v) > 1 else float(v[0]) for v in vals]), dtype=np.float64).reshape(-1)
      bad = not np.allclose(got, want, rtol=1e-4, atol=1e-4)
      if bad:
        path = sl.save_replay(PID, f"leaf.{name}", {"property": PID, "function": f"mujoco_warp._src.math.{name}", "args": [v.tolist() for v in vals], "real": got.tolist(), "textbook": want.tolist()})
        return True, path
      rng = np.random.default_rng(trial)
      vals = [rng.uniform(-2, 2, size=v.shape) for v in vals]
    return False, f"{name}: real function agrees with the textbook definition on the model's and on random values"

  return _rp


def unit_leaf(ctx):
  from mujoco_warp._src import math as mm

  ctx.bound(note="exact real arithmetic, no size bound; sin/cos are shared uninterpreted functions")
  ctx.assume("floats are exact reals (float32 rounding is outside the claim)")
  cases = [
    ("mul_quat", mm.mul_quat, lambda u, v: sl.tb_mul_quat(u, v), "Hamilton product"),
    ("rot_vec_quat", mm.rot_vec_quat, lambda v, q: sl.tb_rot_vec_quat(v, q), "vector part of q (0,v) q*"),
    ("quat_to_mat", mm.quat_to_mat, lambda q: sl.tb_quat_to_mat(q), "columns = rotated basis vectors"),
    ("axis_angle_to_quat", mm.axis_angle_to_quat, lambda a, t: sl.tb_axis_angle_to_quat(a, t), "(cos(t/2), axis sin(t/2))"),
    ("quat_inv", mm.quat_inv, lambda q: sl.tb_conj(q), "conjugate"),
  ]
  for name, fn, ref, what in cases:
    ctx.encode(fn)
    args = kh.make_args(fn)
    it, ret = kh.run(fn, args)
    flat = [list(a.c) if isinstance(a, Vec) else a for a in args.values()]
    want = ref(*flat)
    sess = ctx.session([core.zbool(a) for a in it.assumes])
    ctx.reach(sess, f"twin:{name}", True)
    names = {f"{l}{k}": c for l, a in args.items() for k, c in enumerate(a.c if isinstance(a, Vec) else [a])}
    ctx.prove(sess, f"{name}=textbook", sl.eq_all(list(ret.c), want), names=names, replay=leaf_replay(ctx, name, fn, list(args.values()), ref), desc=f"math.{name} differs from its textbook definition ({what})")
  # consequences used by the structural layer / by the reference models
  q = [z3.Real(f"q{i}") for i in range(4)]
  v = [z3.Real(f"v{i}") for i in range(3)]
  sess = ctx.session([])
  itq, M = kh.run(mm.quat_to_mat, [Vec(q, (4,), "quat")])
  itr, rv = kh.run(mm.rot_vec_quat, [Vec(v, (3,), "f"), Vec(q, (4,), "quat")])
  ctx.prove(sess, "rot_vec_quat=quat_to_mat*v", sl.eq_all(list(rv.c), sl.EX.matvec(list(M.c), v)), names={f"q{i}": q[i] for i in range(4)}, replay=leaf_replay(ctx, "rot_vec_quat", mm.rot_vec_quat, [Vec(v, (3,), "f"), Vec(q, (4,), "quat")], lambda v_, q_: sl.EX.matvec(sl.tb_quat_to_mat(q_), v_)), desc="rot_vec_quat(v, q) != quat_to_mat(q) v (MuJoCo composes child positions with xmat, mujoco_warp with the quaternion)")
  n2 = lambda x: sl.EX.dot(x, x)
  ctx.prove(sess, "|rot_vec_quat|^2=|q|^4|v|^2", cmp("==", n2(list(rv.c)), arith("*", arith("*", n2(q), n2(q)), n2(v))), replay=lambda m: (False, "consequence of the textbook identity"), desc="rotation does not preserve length for unit quaternions")
  # wp.normalize (engine model, exact reals) is idempotent: normalising an already normalised mocap quaternion changes nothing
  it = core.Interp()
  core.DIVMODE[0] = "poly"  # x / s as a fresh d with d * s == x: keeps the query polynomial
  try:
    n1 = it.builtin(None, "normalize", [Vec(q, (4,), "quat")], None)
    nn = it.builtin(None, "normalize", [n1], None)
  finally:
    core.DIVMODE[0] = "native"
  sess = ctx.session([core.zbool(a) for a in it.assumes] + [core.zbool(sl.nonzero(q))], tactic="qfnra-nlsat")
  ctx.reach(sess, "twin:normalize", True)
  for k in range(4):
    ctx.prove(sess, f"normalize-idempotent[{k}]", cmp("==", nn.c[k], n1.c[k]), replay=lambda m: (False, "property of the engine's model of wp.normalize"), desc="normalize(normalize(q)) != normalize(q)")


# ================================================================================================ L2 kinematics (H mode)


def randomize_mj(mjm, rng, masses=True):
  """random float parameters directly in the compiled MjModel (general code paths: sameframe shortcuts off)"""
  nb = mjm.nbody
  for f in ("body_sameframe", "geom_sameframe", "site_sameframe"):
    if hasattr(mjm, f):
      getattr(mjm, f)[:] = 0
  mjm.body_pos[1:] = rng.uniform(-1, 1, (nb - 1, 3))
  unit = lambda a: a / np.linalg.norm(a, axis=-1, keepdims=True)
  mjm.body_quat[1:] = unit(rng.uniform(-1, 1, (nb - 1, 4)))
  mjm.body_ipos[1:] = rng.uniform(-1, 1, (nb - 1, 3))
  mjm.body_iquat[1:] = unit(rng.uniform(-1, 1, (nb - 1, 4)))
  for f, k in (("jnt_pos", 3), ("jnt_axis", 3), ("geom_pos", 3), ("geom_quat", 4), ("site_pos", 3), ("site_quat", 4), ("cam_pos", 3), ("cam_quat", 4), ("light_pos", 3), ("light_dir", 3), ("cam_pos0", 3), ("cam_poscom0", 3), ("cam_mat0", 9), ("light_pos0", 3), ("light_poscom0", 3), ("light_dir0", 3)):
    a = getattr(mjm, f)
    if a.size:
      a[:] = rng.uniform(-1, 1, a.shape)
      if f in UNIT_FIELDS:
        a[:] = unit(a)
  mjm.qpos0[:] = rng.uniform(-1, 1, mjm.nq)
  if masses:
    mjm.body_mass[1:] = rng.uniform(0.1, 2, nb - 1)
    mjm.body_inertia[1:] = rng.uniform(0.1, 2, (nb - 1, 3))
    sub = np.array(mjm.body_mass)
    for b in range(nb - 1, 0, -1):
      sub[mjm.body_parentid[b]] += sub[b]
    mjm.body_subtreemass[:] = sub


def mj_outputs(mjm, qpos, mocap_pos, mocap_quat):
  import mujoco

  mjd = mujoco.MjData(mjm)
  mjd.qpos[:] = qpos
  if mjm.nmocap:
    mjd.mocap_pos[:] = mocap_pos
    mjd.mocap_quat[:] = mocap_quat
  mujoco.mj_kinematics(mjm, mjd)
  mujoco.mj_comPos(mjm, mjd)
  mujoco.mj_camlight(mjm, mjd)
  mujoco.mj_tendon(mjm, mjd)
  return mjd


def numeric_p(mjm, qpos, mocap_pos, mocap_quat, extra=None):
  src = {n: np.asarray(getattr(mjm, n))[None] for n in MODEL_FLOATS + MASS_FLOATS + ["cam_pos", "cam_quat", "cam_pos0", "cam_poscom0", "cam_mat0", "light_pos", "light_dir", "light_pos0", "light_poscom0", "light_dir0"]}
  src["qpos"] = np.asarray(qpos)[None]
  src["mocap_pos"] = np.asarray(mocap_pos).reshape(1, -1, 3)
  src["mocap_quat"] = np.asarray(mocap_quat).reshape(1, -1, 4)
  src.update(extra or {})
  return sl.P(src, mjm)


def validate_reference(ctx, xml, seed, n=3):
  """reference recursion (numeric textbook leaves) == mujoco library on random parameters and states"""
  import mujoco

  rng = np.random.default_rng(seed)
  for _ in range(n):
    mjm = mujoco.MjModel.from_xml_string(xml)
    randomize_mj(mjm, rng)
    qpos = rng.uniform(-1, 1, mjm.nq)
    mp, mq = rng.uniform(-1, 1, (mjm.nmocap, 3)), rng.uniform(-1, 1, (mjm.nmocap, 4))
    mjd = mj_outputs(mjm, qpos, mp, mq)
    p = numeric_p(mjm, qpos, mp, mq)
    L = sl.NumLeaves()
    ref = sl.ref_kinematics(mjm, p, 0, L)
    for f in ("xpos", "xquat", "xmat", "xipos", "ximat", "xanchor", "xaxis", "geom_xpos", "geom_xmat", "site_xpos", "site_xmat"):
      want = np.asarray(getattr(mjd, f), dtype=np.float64)
      for i, val in enumerate(ref[f]):
        if not np.allclose(np.array(val), want[i].reshape(-1), rtol=1e-8, atol=1e-9):
          ctx.error(f"reference model ref_kinematics disagrees with mujoco on {f}[{i}]: {val} vs {want[i].reshape(-1).tolist()}")
          return False
    com = sl.ref_subtree_com(mjm, p, 0, sl.EX, lambda b: [float(x) for x in mjd.xipos[b]])
    for b in range(mjm.nbody):
      if not np.allclose(np.array(com[b]), mjd.subtree_com[b], rtol=1e-8, atol=1e-9):
        ctx.error(f"reference model ref_subtree_com disagrees with mujoco on body {b}: {com[b]} vs {mjd.subtree_com[b].tolist()}")
        return False
      dif = [float(x) for x in (mjd.xipos[b] - mjd.subtree_com[mjm.body_rootid[b]])]
      ci = sl.ref_cinert([float(x) for x in mjm.body_inertia[b]], float(mjm.body_mass[b]), [float(x) for x in mjd.ximat[b]], dif)
      if not np.allclose(np.array(ci), mjd.cinert[b], rtol=1e-8, atol=1e-9):
        ctx.error(f"reference model ref_cinert disagrees with mujoco on body {b}: {ci} vs {mjd.cinert[b].tolist()}")
        return False
    for j in range(mjm.njnt):
      b = int(mjm.jnt_bodyid[j])
      off = [float(x) for x in (mjd.subtree_com[mjm.body_rootid[b]] - mjd.xanchor[j])]
      cd = sl.ref_cdof(int(mjm.jnt_type[j]), [float(x) for x in mjd.xmat[b]], [float(x) for x in mjd.xaxis[j]], off)
      da = int(mjm.jnt_dofadr[j])
      for k, row in enumerate(cd):
        if not np.allclose(np.array(row), mjd.cdof[da + k], rtol=1e-8, atol=1e-9):
          ctx.error(f"reference model ref_cdof disagrees with mujoco on joint {j} dof {k}: {row} vs {mjd.cdof[da + k].tolist()}")
          return False
  return True


def world_frame_concrete(d2, d):
  """Data.xpos / xquat of the world body are initialised once by make_data (origin / identity) and never rewritten"""
  arrs = host.arrays_of(d2)
  for n in ("xpos", "xquat"):
    c = arrs[n].ref.cell
    src = getattr(d, n).numpy()
    for w in range(c.shape[0]):
      f = c.flat([w, 0])
      for k in range(c.ncomp):
        c.d[k][f] = float(np.asarray(src[w][0]).reshape(-1)[k])
    c.d0 = [list(x) for x in c.d]


def kin_replay(ctx, tname, xml, batch, symM, symD, target, stages=("kinematics",), keep=(), exact=False):
  """run the REAL mujoco_warp host function(s) and the mujoco library on the same concrete model / state and compare
  `target` = (field, world, index).  Float inputs: the solver model's values when `exact`, otherwise (leaf functions were
  uninterpreted in the query, so their model values carry no meaning) random values; arrays named in `keep` always
  take the model's values."""

  def _rp(model):
    import mujoco

    import mujoco_warp as mjw
    from mujoco_warp._src import smooth

    field, w, idx = target
    rng = np.random.default_rng(7)
    last = ""
    for trial in range(1 if exact else 4):
      mjm, m, d = build(xml)
      inputs = {}
      for n, sa in list(symM.items()) + list(symD.items()):
        a = sl.model_array(model, sa)
        if a.dtype.kind == "f" and sa.ref.cell.dtype == "real" and not exact and n not in keep:
          c = sa.ref.cell
          conc = np.array([[not is_sym(c.d0[k][i]) for k in range(c.ncomp)] for i in range(c.size)]).reshape(a.shape)
          r = rng.uniform(0.2, 1.0, a.shape) * rng.choice([-1.0, 1.0], a.shape)
          if n in UNIT_FIELDS or n == "xquat":
            r = r / np.linalg.norm(r, axis=-1, keepdims=True)
          a = np.where(conc, a, r)
        inputs[n] = a
      # real mujoco_warp
      for n, sa in symM.items():
        real = getattr(m, n)
        npdt = np.int32 if sa.ref.cell.dtype == "int" else np.float32
        setattr(m, n, wp.array(inputs[n].astype(npdt), dtype=real.dtype))
      for n, sa in symD.items():
        getattr(d, n).assign(inputs[n].astype(np.float32))
      for s in stages:
        getattr(smooth, s)(m, d)
      got = np.asarray(getattr(d, field).numpy()[w][idx], dtype=np.float64).reshape(-1)
      # mujoco library, world w
      for n in symM:
        a = inputs[n]
        row = a[w % a.shape[0]] if getattr(m, n).ndim >= 2 else a
        getattr(mjm, n)[:] = row.reshape(getattr(mjm, n).shape)
      for f in ("body_sameframe", "geom_sameframe", "site_sameframe"):
        if hasattr(mjm, f):
          getattr(mjm, f)[:] = 0
      mjd = mujoco.MjData(mjm)
      for n in ("qpos", "mocap_pos", "mocap_quat"):
        if n in inputs and inputs[n].size:
          getattr(mjd, n)[:] = inputs[n][w].reshape(getattr(mjd, n).shape)
      # stages after the first read Data fields that the query treated as free inputs: give both sides the same ones
      mujoco.mj_kinematics(mjm, mjd)
      mujoco.mj_comPos(mjm, mjd)
      for n in symD:
        if n not in ("qpos", "mocap_pos", "mocap_quat"):
          getattr(mjd, n)[:] = inputs[n][w].reshape(getattr(mjd, n).shape)
      if "xquat" in symD:
        for b in range(mjm.nbody):
          mujoco.mju_quat2Mat(mjd.xmat[b], mjd.xquat[b])
      if "com_pos" in stages and "kinematics" not in stages:
        mujoco.mj_comPos(mjm, mjd)
      if "camlight" in stages:
        mujoco.mj_camlight(mjm, mjd)
      if "tendon" in stages:
        mujoco.mj_tendon(mjm, mjd)
      mjfield = {"ten_length": "ten_length"}.get(field, field)
      want = np.asarray(getattr(mjd, mjfield)[idx], dtype=np.float64).reshape(-1)
      last = f"{field}[world {w}][{idx}]: mujoco_warp {got.tolist()} vs mujoco {want.tolist()}"
      if not np.allclose(got, want, rtol=2e-3, atol=2e-4):
        path = sl.save_replay(PID, f"{tname}.{field}.{w}.{idx}", {"property": PID, "xml": xml, "stages": list(stages), "model_fields": {k: v for k, v in inputs.items()}, "world": w, "result": last, "how": "put_model(xml), overwrite the listed Model / Data arrays, run the listed smooth.* stages; compare with mujoco mj_kinematics / mj_comPos / mj_camlight on the same values"})
        return True, path
    return False, last

  return _rp


def unit_kin(tname, batch):
  def run(ctx):
    from mujoco_warp._src import smooth

    xml = TOPOLOGIES[tname]
    if not validate_reference(ctx, xml, ctx.seed):
      return
    mjm, m, d = build(xml)
    ctx.encode(smooth.kinematics)
    ctx.bound(topology=tname, nworld=NWORLD, model_batch=batch, nbody=mjm.nbody, njnt=mjm.njnt, ngeom=mjm.ngeom, nsite=mjm.nsite)
    ctx.assume(
      "leaf functions rot_vec_quat / mul_quat / quat_to_mat / axis_angle_to_quat are shared uninterpreted functions (each proved equal to its textbook definition in unit leaf); float products are uninterpreted (structure, not algebra, is compared)",
      "world-body rows of Data.xpos / xquat hold origin / identity (written once by make_data) and the world rows of body_pos/quat/ipos/iquat are the compiled ones",
      "free / ball / mocap quaternions are non-zero (MuJoCo maps a zero quaternion to identity, wp.normalize to zero)",
      "static geoms (bodies welded to the world, not under a mocap body) are written by make_data only: outside this claim",
    )
    L = sl.UFLeaves()
    m2 = sl.sym_fields(m, "m.", MODEL_FLOATS, batch=batch, keep_rows=KEEP_WORLD)
    d2 = host.shim_dataclass(d, "d.")
    world_frame_concrete(d2, d)
    arrs = host.arrays_of(d2)
    symM = {n: getattr(m2, n) for n in MODEL_FLOATS}
    symD = {n: arrs[n] for n in ("qpos", "mocap_pos", "mocap_quat")}
    with sl.hostrun(mode="exec", interp_kw={"float_uf": True, "summaries": L.summaries()}) as hr:
      smooth.kinematics(m2, d2)
    for e in hr.events:
      if e.kind == "launch":
        ctx.encode(e.kernel)
    ctx.notes.append(f"{hr.nthreads} threads interpreted")
    p = sl.P({**symM, **symD}, mjm)
    bg = [core.zbool(a) for a in hr.assumes] + [core.zbool(a) for a in L.assumes]
    # mocap quaternions: MuJoCo normalises them before use, mujoco_warp normalises the composed quaternion: equal by
    # idempotence of normalize (leaf lemma); instantiate the lemma for every mocap quaternion
    for w in range(NWORLD):
      for mid in range(mjm.nmocap):
        mq = p.get("mocap_quat", w, mid)
        bg.append(core.zbool(sl.eq_all(L.normalize(L.normalize(mq)), L.normalize(mq))))
    qs = []
    for key, tid, o in hr.obl:
      qs.append(dict(name=f"{o.kind}/{key}@{o.where}/{tid}", goal=o.cond, guard=o.guard, replay=lambda mdl: (False, "index obligations are not replayed here"), desc=f"kinematics: {key} thread {tid}: {o.kind} obligation at {o.where}"))
    for w in range(NWORLD):
      ref = sl.ref_kinematics(mjm, p, w, L)
      for f in ("xpos", "xquat", "xmat", "xipos", "ximat", "xanchor", "xaxis", "geom_xpos", "geom_xmat", "site_xpos", "site_xmat"):
        for i, want in enumerate(ref[f]):
          if f.startswith("geom_") and sl.static_geom(mjm, i):
            continue
          if f in ("xpos", "xquat") and i == 0:
            continue
          got = sl.cell_vals(arrs[f], (w, i))
          qs.append(dict(name=f"{f}[{w}][{i}]", goal=sl.eq_all(got, want), replay=kin_replay(ctx, f"{tname}-b{batch}", xml, batch, symM, symD, (f, w, i)), desc=f"kinematics ({tname}): {f}[world {w}][{i}] differs from mj_kinematics"))
    bg += [core.zbool(a) for a in L.assumes]
    sl.run_queries(ctx, bg, qs)

  return (f"kin/{tname}/batch{batch}", run)


# ================================================================================================ com_pos


def unit_compos(tname):
  def run(ctx):
    from mujoco_warp._src import smooth

    xml = TOPOLOGIES[tname]
    if not validate_reference(ctx, xml, ctx.seed, n=2):
      return
    mjm, m, d = build(xml)
    ctx.encode(smooth.com_pos)
    ctx.bound(topology=tname, nworld=NWORLD, nbody=mjm.nbody)
    ctx.assume("body_mass >= 0 and body_subtreemass = sum of the subtree's masses (mjModel invariants); xipos arbitrary", "float products / quotients are uninterpreted (the accumulation structure is compared)")
    m2 = sl.sym_fields(m, "m.", ["body_mass", "body_subtreemass"], batch=2)
    d2 = host.shim_dataclass(d, "d.")
    arrs = host.arrays_of(d2)
    c = arrs["xipos"].ref.cell  # world row of xipos = origin (written so by kinematics)
    for w in range(NWORLD):
      for k in range(3):
        c.d[k][c.flat([w, 0])] = 0.0
    c.d0 = [list(x) for x in c.d]
    symM = {n: getattr(m2, n) for n in ["body_mass", "body_subtreemass"]}
    symD = {"xipos": arrs["xipos"]}
    snap = {}

    def on_launch(hr, kernel, dim, args):
      # cut: subtree_com is checked as it stands when _cinert starts; _cinert / _cdof are decided per thread (units k/*)
      if kernel.key.endswith("_cinert") and "com" not in snap:
        c = arrs["subtree_com"].ref.cell
        snap["com"] = [list(x) for x in c.d]
      if kernel.key.endswith("_cinert") or kernel.key.endswith("_cdof"):
        return "skip"

    with sl.hostrun(mode="exec", interp_kw={"float_uf": True}, on_launch=on_launch) as hr:
      smooth.com_pos(m2, d2)
    for e in hr.events:
      if e.kind == "launch":
        ctx.encode(e.kernel)
    launched = [e.kernel.key.split(".")[-1] for e in hr.events if e.kind == "launch"]
    if "com" not in snap or launched[-2:] != ["_cinert", "_cdof"]:
      ctx.error(f"com_pos launch sequence changed: {launched}")
      return
    p = sl.P({**symM, **symD}, mjm)
    pre = []
    for n in ("body_mass", "body_subtreemass"):
      c = symM[n].ref.cell
      pre += [x >= 0 for x in c.d0[0]]
    # mjModel invariant: body_subtreemass is the sum of the masses in the subtree
    for w in range(NWORLD):
      acc = [p.get("body_mass", w, b) for b in range(mjm.nbody)]
      for b in range(mjm.nbody - 1, 0, -1):
        acc[int(mjm.body_parentid[b])] = arith("+", acc[int(mjm.body_parentid[b])], acc[b])
      pre += [core.zbool(cmp("==", p.get("body_subtreemass", w, b), acc[b])) for b in range(mjm.nbody)]
    qs = []
    c = arrs["subtree_com"].ref.cell
    for w in range(NWORLD):
      ref = sl.ref_subtree_com(mjm, p, w, sl.UFO, lambda b: p.get("xipos", w, b))
      for b in range(mjm.nbody):
        got = [snap["com"][k][c.flat([w, b])] for k in range(3)]
        sm = p.get("body_subtreemass", w, b)
        rp = kin_replay(ctx, f"compos-{tname}", xml, 2, symM, symD, ("subtree_com", w, b), stages=("com_pos",), keep=("body_mass", "body_subtreemass"))
        qs.append(dict(name=f"subtree_com[{w}][{b}]", goal=sl.eq_all(got, ref[b]), guard=cmp(">=", sm, sl.MJ_MINVAL), names={"subtreemass": sm}, replay=rp, desc=f"com_pos ({tname}): subtree_com[world {w}][{b}] differs from mj_comPos"))
        qs.append(dict(name=f"massless/subtree_com[{w}][{b}]", goal=sl.eq_all(got, ref[b]), guard=cmp("<", sm, sl.MJ_MINVAL), names={"subtreemass": sm}, replay=rp, desc=f"com_pos ({tname}): subtree_com[world {w}][{b}] of a subtree lighter than mjMINVAL differs from mj_comPos (MuJoCo: the body's xipos)"))
    sl.run_queries(ctx, [core.zbool(a) for a in hr.assumes] + pre, qs)

  return (f"compos/{tname}", run)


# ---- _cinert / _cdof : one generic thread, exact reals


def _np_ref_cinert(pre, w, b):
  inertia, mass, ximat = pre["body_inertia"], pre["body_mass"], pre["ximat_in"]
  root = int(pre["body_rootid"][b])
  dif = (pre["xipos_in"][w, b].astype(np.float64) - pre["subtree_com_in"][w, root].astype(np.float64)).tolist()
  return sl.ref_cinert([float(x) for x in inertia[w % inertia.shape[0], b]], float(mass[w % mass.shape[0], b]), [float(x) for x in ximat[w, b].reshape(-1)], dif)


def goal_cinert(spec, pre, post):
  w, b = spec["tid"][:2]
  want = np.array(_np_ref_cinert(pre, w, b))
  got = post["cinert_out"][w, b].astype(np.float64)
  return bool(np.allclose(got, want, rtol=1e-3, atol=1e-4)), f"cinert[{w},{b}] = {got.tolist()} expected (mju_inertCom) {want.tolist()}"


def goal_cdof(spec, pre, post):
  w, j = spec["tid"][:2]
  b, da, jt = int(pre["jnt_bodyid"][j]), int(pre["jnt_dofadr"][j]), int(pre["jnt_type"][j])
  root = int(pre["body_rootid"][b])
  off = (pre["subtree_com_in"][w, root].astype(np.float64) - pre["xanchor_in"][w, j].astype(np.float64)).tolist()
  want = sl.ref_cdof(jt, [float(x) for x in pre["xmat_in"][w, b].reshape(-1)], [float(x) for x in pre["xaxis_in"][w, j]], off)
  for k, row in enumerate(want):
    got = post["cdof_out"][w, da + k].astype(np.float64)
    if not np.allclose(got, np.array(row), rtol=1e-3, atol=1e-4):
      return False, f"cdof[{w},{da + k}] (joint {j} type {jt}) = {got.tolist()} expected (mju_dofCom) {row}"
  return True, "cdof agrees"


def unit_k_cinert(ctx):
  from mujoco_warp._src import smooth

  k = smooth._cinert
  ctx.encode(k)
  ctx.bound(note="one generic thread, symbolic sizes / indices / contents, exact reals")
  ctx.assume("thread's own accesses in bounds (C17)")
  kt = lib.kernel_thread(k, alias_inout=False)
  w, b = kt.tid
  mod = lambda lab: arith("%", w, kt.cell(lab).shape[0])
  inertia, mass = kt.prev("body_inertia", mod("body_inertia"), b), kt.pre("body_mass", mod("body_mass"), b)
  root = kt.pre("body_rootid", b)
  dif = sl.EX.sub(list(kt.prev("xipos_in", w, b).c), list(kt.prev("subtree_com_in", w, root).c))
  want = sl.ref_cinert(list(inertia.c), mass, list(kt.prev("ximat_in", w, b).c), dif)
  sess = ctx.session(kt.bg)
  ctx.reach(sess, "twin:thread", True)
  got = kt.postv("cinert_out", w, b)
  for i in range(10):
    ctx.prove(sess, f"cinert[{i}]=mju_inertCom", cmp("==", got.c[i], want[i]), names={"w": w, "b": b, "root": root}, replay=lib.make_replay(ctx, kt, "mujoco_warp._src.smooth:_cinert", f"cinert{i}", "goal", goal="checks.c01:goal_cinert"), desc=f"_cinert: component {i} of the com-based inertia differs from mju_inertCom(body_inertia, ximat, xipos - subtree_com[root], mass)")


def unit_k_cdof(ctx):
  from mujoco_warp._src import smooth

  k = smooth._cdof
  ctx.encode(k)
  ctx.bound(note="one generic thread, symbolic sizes / indices / contents, exact reals; joint type enumerated")
  ctx.assume("thread's own accesses in bounds (C17)", "jnt_type in {free, ball, slide, hinge}")
  for jt, nd in ((sl.JNT_FREE, 6), (sl.JNT_BALL, 3), (sl.JNT_SLIDE, 1), (sl.JNT_HINGE, 1)):
    kt = lib.kernel_thread(k, alias_inout=False)
    w, j = kt.tid
    b, da = kt.pre("jnt_bodyid", j), kt.pre("jnt_dofadr", j)
    root = kt.pre("body_rootid", b)
    off = sl.EX.sub(list(kt.prev("subtree_com_in", w, root).c), list(kt.prev("xanchor_in", w, j).c))
    want = sl.ref_cdof(jt, list(kt.prev("xmat_in", w, b).c), list(kt.prev("xaxis_in", w, j).c), off)
    sess = ctx.session(kt.bg + [kt.pre("jnt_type", j) == jt])
    ctx.reach(sess, f"twin:type{jt}", True)
    for kk in range(nd):
      got = kt.postv("cdof_out", w, arith("+", da, kk))
      ctx.prove(sess, f"cdof/type{jt}/dof{kk}=mju_dofCom", sl.eq_all(list(got.c), want[kk]), names={"w": w, "j": j, "body": b, "dofadr": da, "root": root}, replay=lib.make_replay(ctx, kt, "mujoco_warp._src.smooth:_cdof", f"cdof{jt}.{kk}", "goal", goal="checks.c01:goal_cdof"), desc=f"_cdof: dof {kk} of a type-{jt} joint differs from mj_comPos (mju_dofCom of the axis / xmat column and subtree_com[root] - xanchor)")


# ================================================================================================ cameras and lights


def ref_camlight(mjm, p, w, L):
  """mj_camlight: fixed = local2Global; track / trackcom = fixed global orientation (cam_mat0 / light_dir0), position
  follows body xpos + pos0 / subtree_com + poscom0; targetbody(com) with a valid target: camera looks at the target
  (z = normalize(cam - target), x = normalize((0,0,1) x z), y = normalize(z x x)); light dir = target - light; light
  directions are normalised."""
  o = L.o
  FIXED, TRACK, TRACKCOM, TARGETBODY, TARGETBODYCOM = 0, 1, 2, 3, 4
  bodyvec = lambda name, b: _sel(p, name, w, b, mjm.nbody)
  out = {"cam_xpos": [], "cam_xmat": [], "light_xpos": [], "light_xdir": []}
  for c in range(mjm.ncam):
    mode, tgt, b = p.geti("cam_mode", c), p.geti("cam_targetbodyid", c), int(mjm.cam_bodyid[c])
    xpos, xquat = p.get("xpos", w, b), p.get("xquat", w, b)
    fpos = o.add(xpos, L.rot(p.get("cam_pos", w, c), xquat))
    fmat = L.q2m(L.mulq(xquat, p.get("cam_quat", w, c)))
    tpos = o.add(xpos, p.get("cam_pos0", w, c))
    tcpos = o.add(p.get("subtree_com", w, b), p.get("cam_poscom0", w, c))
    look = ite(cmp("==", mode, TARGETBODYCOM), Vec(bodyvec("subtree_com", tgt), (3,), "f"), Vec(bodyvec("xpos", tgt), (3,), "f")).c
    z = L.normalize(o.sub(fpos, look))
    x = L.normalize(o.cross([0.0, 0.0, 1.0], z))
    y = L.normalize(o.cross(z, x))
    lmat = [x[0], y[0], z[0], x[1], y[1], z[1], x[2], y[2], z[2]]
    istrack = Or(cmp("==", mode, TRACK), cmp("==", mode, TRACKCOM))
    istarget = And(Or(cmp("==", mode, TARGETBODY), cmp("==", mode, TARGETBODYCOM)), cmp(">=", tgt, 0))
    pos = ite(cmp("==", mode, TRACK), Vec(tpos, (3,), "f"), ite(cmp("==", mode, TRACKCOM), Vec(tcpos, (3,), "f"), Vec(fpos, (3,), "f"))).c
    mat = ite(istrack, Vec(p.get("cam_mat0", w, c), (9,), "f"), ite(istarget, Vec(lmat, (9,), "f"), Vec(fmat, (9,), "f"))).c
    out["cam_xpos"].append(pos)
    out["cam_xmat"].append(mat)
  for l in range(mjm.nlight):
    mode, tgt, b = p.geti("light_mode", l), p.geti("light_targetbodyid", l), int(mjm.light_bodyid[l])
    xpos, xquat = p.get("xpos", w, b), p.get("xquat", w, b)
    fpos = o.add(xpos, L.rot(p.get("light_pos", w, l), xquat))
    fdir = L.rot(p.get("light_dir", w, l), xquat)
    tpos = o.add(xpos, p.get("light_pos0", w, l))
    tcpos = o.add(p.get("subtree_com", w, b), p.get("light_poscom0", w, l))
    look = ite(cmp("==", mode, TARGETBODYCOM), Vec(bodyvec("subtree_com", tgt), (3,), "f"), Vec(bodyvec("xpos", tgt), (3,), "f")).c
    istrack = Or(cmp("==", mode, TRACK), cmp("==", mode, TRACKCOM))
    istarget = And(Or(cmp("==", mode, TARGETBODY), cmp("==", mode, TARGETBODYCOM)), cmp(">=", tgt, 0))
    pos = ite(cmp("==", mode, TRACK), Vec(tpos, (3,), "f"), ite(cmp("==", mode, TRACKCOM), Vec(tcpos, (3,), "f"), Vec(fpos, (3,), "f"))).c
    dr = ite(istrack, Vec(p.get("light_dir0", w, l), (3,), "f"), ite(istarget, Vec(o.sub(look, fpos), (3,), "f"), Vec(fdir, (3,), "f"))).c
    out["light_xpos"].append(pos)
    out["light_xdir"].append((dr, L.normalize(dr)))
  return out


def _sel(p, name, w, b, nbody):
  """p.get(name, w, b) for a possibly symbolic body index b (ite chain; b outside [0, nbody) -> last row)"""
  if not is_sym(b):
    return p.get(name, w, int(b) % nbody)
  r = Vec(p.get(name, w, nbody - 1), (3,), "f")
  for k in range(nbody - 2, -1, -1):
    r = ite(cmp("==", b, k), Vec(p.get(name, w, k), (3,), "f"), r)
  return r.c


CAM_FLOATS = ["cam_pos", "cam_quat", "cam_pos0", "cam_poscom0", "cam_mat0", "light_pos", "light_dir", "light_pos0", "light_poscom0", "light_dir0"]
CAM_INTS = ["cam_mode", "cam_targetbodyid", "light_mode", "light_targetbodyid"]


def validate_camlight(ctx, seed):
  import mujoco

  rng = np.random.default_rng(seed)
  for mode in range(5):
    for tgt in (-1, 1, 2):
      mjm = mujoco.MjModel.from_xml_string(CAMLIGHT_XML)
      randomize_mj(mjm, rng)
      mjm.cam_mode[:] = mode
      mjm.light_mode[:] = mode
      mjm.cam_targetbodyid[:] = tgt
      mjm.light_targetbodyid[:] = tgt
      qpos = rng.uniform(-1, 1, mjm.nq)
      mjd = mj_outputs(mjm, qpos, None, None)
      p = numeric_p(mjm, qpos, np.zeros((0, 3)), np.zeros((0, 4)), extra={"xpos": mjd.xpos[None], "xquat": mjd.xquat[None], "subtree_com": mjd.subtree_com[None]})
      ref = ref_camlight(mjm, p, 0, sl.NumLeaves())
      for f in ("cam_xpos", "cam_xmat", "light_xpos"):
        for i, v in enumerate(ref[f]):
          if not np.allclose(np.array(v), np.asarray(getattr(mjd, f)[i]).reshape(-1), rtol=1e-8, atol=1e-9):
            ctx.error(f"reference model ref_camlight disagrees with mujoco: {f}[{i}] mode {mode} target {tgt}: {v} vs {np.asarray(getattr(mjd, f)[i]).reshape(-1).tolist()}")
            return False
      for i, (raw, nrm) in enumerate(ref["light_xdir"]):
        if not np.allclose(np.array(nrm), mjd.light_xdir[i], rtol=1e-8, atol=1e-9):
          ctx.error(f"reference model ref_camlight disagrees with mujoco: light_xdir[{i}] mode {mode} target {tgt}: {nrm} vs {mjd.light_xdir[i].tolist()}")
          return False
  return True


def unit_camlight(ctx):
  from mujoco_warp._src import smooth

  if not validate_camlight(ctx, ctx.seed):
    return
  mjm, m, d = build(CAMLIGHT_XML)
  ctx.encode(smooth.camlight)
  ctx.bound(nworld=NWORLD, ncam=mjm.ncam, nlight=mjm.nlight, nbody=mjm.nbody, note="camera / light mode and target body id symbolic; body frames and subtree_com arbitrary")
  ctx.assume(
    "cam_mode / light_mode in [0, 4], target body id in [-1, nbody)",
    "leaf functions shared uninterpreted; wp.normalize modelled identically on both sides (vectors of non-zero length: MuJoCo maps a zero vector to (1,0,0), Warp to 0)",
    "a light in fixed mode / with an invalid target is not re-normalised by mujoco_warp: equal to MuJoCo's normalised direction because |light_dir| = 1 (compiler) and rotation preserves length (leaf lemma)",
  )
  L = sl.UFLeaves()
  m2 = sl.sym_fields(m, "m.", CAM_FLOATS + CAM_INTS, batch=2)
  d2 = host.shim_dataclass(d, "d.")
  arrs = host.arrays_of(d2)
  symM = {n: getattr(m2, n) for n in CAM_FLOATS + CAM_INTS}
  symD = {n: arrs[n] for n in ("xpos", "xquat", "subtree_com")}
  with sl.hostrun(mode="exec", interp_kw={"float_uf": True, "summaries": L.summaries()}) as hr:
    smooth.camlight(m2, d2)
  for e in hr.events:
    if e.kind == "launch":
      ctx.encode(e.kernel)
  p = sl.P({**symM, **symD}, mjm)
  pre = []
  for n in ("cam_mode", "light_mode"):
    pre += [z3.And(x >= 0, x <= 4) for x in symM[n].ref.cell.d0[0]]
  for n in ("cam_targetbodyid", "light_targetbodyid"):
    pre += [z3.And(x >= -1, x < mjm.nbody) for x in symM[n].ref.cell.d0[0]]
  qs = []
  for key, tid, o in hr.obl:
    qs.append(dict(name=f"{o.kind}/{key}@{o.where}/{tid}", goal=o.cond, guard=o.guard, replay=lambda mdl: (False, "index obligations are not replayed here"), desc=f"camlight: {key} thread {tid}: {o.kind} obligation at {o.where}"))
  for w in range(NWORLD):
    ref = ref_camlight(mjm, p, w, L)
    for f in ("cam_xpos", "cam_xmat", "light_xpos"):
      for i, want in enumerate(ref[f]):
        kind = f.split("_")[0]
        names = {"mode": p.geti(f"{kind}_mode", i), "target": p.geti(f"{kind}_targetbodyid", i)}
        qs.append(dict(name=f"{f}[{w}][{i}]", goal=sl.eq_all(sl.cell_vals(arrs[f], (w, i)), want), names=names, replay=kin_replay(ctx, "camlight", CAMLIGHT_XML, 2, symM, symD, (f, w, i), stages=("camlight",), keep=CAM_INTS), desc=f"camlight: {f}[world {w}][{i}] differs from mj_camlight"))
    for i, (raw, nrm) in enumerate(ref["light_xdir"]):
      mode, tgt = p.geti("light_mode", i), p.geti("light_targetbodyid", i)
      got = sl.cell_vals(arrs["light_xdir"], (w, i))
      unnormalised = And(Or(cmp("==", mode, 3), cmp("==", mode, 4)), cmp("<", tgt, 0))
      want = ite(unnormalised, Vec(raw, (3,), "f"), Vec(nrm, (3,), "f")).c
      qs.append(dict(name=f"light_xdir[{w}][{i}]", goal=sl.eq_all(got, want), names={"mode": mode, "target": tgt}, replay=kin_replay(ctx, "camlight", CAMLIGHT_XML, 2, symM, symD, ("light_xdir", w, i), stages=("camlight",), keep=CAM_INTS), desc=f"camlight: light_xdir[world {w}][{i}] differs from mj_camlight"))
  sl.run_queries(ctx, [core.zbool(a) for a in hr.assumes + L.assumes] + pre, qs)


# ================================================================================================ fixed tendons


def unit_tendon(ctx):
  import mujoco

  from mujoco_warp._src import smooth

  mjm, m, d = build(TENDON_XML)
  # reference validation: length = sum coef * qpos, J = coef (MuJoCo documentation of fixed tendons)
  rng = np.random.default_rng(ctx.seed)
  qpos = rng.uniform(-1, 1, mjm.nq)
  mjd = mj_outputs(mjm, qpos, None, None)
  for t in range(mjm.ntendon):
    adr, num = int(mjm.tendon_adr[t]), int(mjm.tendon_num[t])
    Lr = sum(float(mjm.wrap_prm[a]) * qpos[mjm.jnt_qposadr[mjm.wrap_objid[a]]] for a in range(adr, adr + num))
    if abs(Lr - mjd.ten_length[t]) > 1e-9:
      ctx.error(f"fixed tendon reference disagrees with mujoco: {Lr} vs {mjd.ten_length[t]}")
      return
  ctx.encode(smooth.tendon)
  ctx.bound(nworld=NWORLD, ntendon=mjm.ntendon, nwrap=mjm.nwrap, nv=mjm.nv)
  ctx.assume("fixed (joint) tendons over slide / hinge joints; wrap coefficients and qpos symbolic; exact reals")
  m2 = sl.sym_fields(m, "m.", ["wrap_prm"])
  d2 = host.shim_dataclass(d, "d.")
  arrs = host.arrays_of(d2)
  with sl.hostrun(mode="exec") as hr:
    smooth.tendon(m2, d2)
  for e in hr.events:
    if e.kind == "launch":
      ctx.encode(e.kernel)
  sess = ctx.session([core.zbool(a) for a in hr.assumes])
  ctx.reach(sess, "twin:state", True)
  prm = m2.wrap_prm.ref.cell.d0[0]
  qc = arrs["qpos"].ref.cell
  symM, symD = {"wrap_prm": m2.wrap_prm}, {"qpos": arrs["qpos"]}
  rownnz, rowadr, colind = m.ten_J_rownnz.numpy(), m.ten_J_rowadr.numpy(), m.ten_J_colind.numpy()
  for w in range(NWORLD):
    for t in range(mjm.ntendon):
      adr, num = int(mjm.tendon_adr[t]), int(mjm.tendon_num[t])
      want = 0
      J = {}
      for a in range(adr, adr + num):
        j = int(mjm.wrap_objid[a])
        want = arith("+", want, arith("*", prm[a], qc.d0[0][qc.flat([w, int(mjm.jnt_qposadr[j])])]))
        J[int(mjm.jnt_dofadr[j])] = prm[a]
      got = sl.cell_vals(arrs["ten_length"], (w, t))[0]
      ctx.prove(sess, f"ten_length[{w}][{t}]", cmp("==", got, want), replay=kin_replay(ctx, "tendon", TENDON_XML, 1, symM, symD, ("ten_length", w, t), stages=("tendon",), exact=True), desc=f"fixed tendon {t}: length differs from sum(coef * qpos)")
      # moment: the stored row of tendon t is coef at the joint's dof, zero elsewhere
      for k in range(int(rownnz[t])):
        col = int(colind[rowadr[t] + k])
        gotJ = sl.cell_vals(arrs["ten_J"], (w, int(rowadr[t]) + k))[0]
        ctx.prove(sess, f"ten_J[{w}][tendon {t}][dof {col}]", cmp("==", gotJ, J.get(col, 0.0)), replay=lambda mdl: (False, "moment entries are compared symbolically only"), desc=f"fixed tendon {t}: moment entry for dof {col} differs from the joint coefficient")
      for dof in J:
        if dof not in [int(colind[rowadr[t] + k]) for k in range(int(rownnz[t]))]:
          ctx.error(f"tendon {t}: dof {dof} has no slot in the sparse moment row (put_model layout)")


def main(tier, seed, only=None):
  units = [("leaf", unit_leaf)]
  tops = list(TOPOLOGIES)
  for t in tops:
    units.append(unit_kin(t, 1))
  for t in tops if tier == "thorough" else ["fork-ball-slide", "mocap-welded"]:
    units.append(unit_kin(t, 2))
  for t in tops if tier == "thorough" else ["fork-ball-slide", "mocap-welded", "welded-between"]:
    units.append(unit_compos(t))
  units += [("k/cinert", unit_k_cinert), ("k/cdof", unit_k_cdof), ("camlight", unit_camlight), ("tendon/fixed", unit_tendon)]
  if only:
    units = [u for u in units if any(o in u[0] for o in only)]
  return report.run_check(PID, units, tier, seed)
