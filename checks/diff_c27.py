"""Symbolic differentiation over z3 real terms (helper of C27).

diff(e, x)      exact derivative of the term e w.r.t. the real constant x for the operators the interpreter produces for
                piece-wise polynomial / rational code: numerals, constants, + - * / (n-ary), unary minus, ite, to_real.
                ite(c, a, b) differentiates branch-wise (valid wherever x is not on a switching surface of c: see kinks()).
                Applications of uninterpreted functions / array reads that contain x are refused (Unsupported).
kinks(e, x)     the comparison atoms (lhs, rhs) that occur in ite-conditions of e and depend on x: the branch-wise derivative
                is the true derivative wherever lhs != rhs for all of them.
reads_of(e, a)  the distinct Select terms of array constant `a` in e (array-mode memory: the velocity read of a kernel).
"""

import z3

from wsym import core

R = z3.RealSort()
ZERO, ONE = z3.RealVal(0), z3.RealVal(1)


class NotDifferentiable(core.Unsupported):
  pass


def depends(e, x, cache=None):
  cache = {} if cache is None else cache
  i = e.get_id()
  if i in cache:
    return cache[i]
  if e.eq(x):
    r = True
  elif z3.is_app(e):
    r = any(depends(c, x, cache) for c in e.children())
  else:
    r = True  # quantifiers / vars: be conservative
  cache[i] = r
  return r


def _mk_add(ts):
  ts = [t for t in ts if not (z3.is_rational_value(t) and t.numerator_as_long() == 0)]
  if not ts:
    return ZERO
  r = ts[0]
  for t in ts[1:]:
    r = r + t
  return r


def _mk_mul(ts):
  out = []
  for t in ts:
    if z3.is_rational_value(t):
      if t.numerator_as_long() == 0:
        return ZERO
      if t.numerator_as_long() == t.denominator_as_long():
        continue
    out.append(t)
  if not out:
    return ONE
  r = out[0]
  for t in out[1:]:
    r = r * t
  return r


def diff(e, x, _cache=None, _dep=None):
  """d e / d x (e: z3 Real term, x: z3 Real constant)."""
  cache = {} if _cache is None else _cache
  dep = {} if _dep is None else _dep
  e = core.to_z3(e, "real") if not z3.is_expr(e) else e

  def go(t):
    i = t.get_id()
    if i in cache:
      return cache[i]
    if not depends(t, x, dep):
      r = ZERO
    elif t.eq(x):
      r = ONE
    else:
      k = t.decl().kind()
      ch = t.children()
      if k == z3.Z3_OP_ADD:
        r = _mk_add([go(c) for c in ch])
      elif k == z3.Z3_OP_SUB:
        r = go(ch[0])
        for c in ch[1:]:
          r = r - go(c)
      elif k == z3.Z3_OP_UMINUS:
        r = -go(ch[0])
      elif k == z3.Z3_OP_MUL:
        terms = []
        for j, c in enumerate(ch):
          dc = go(c)
          if z3.is_rational_value(dc) and dc.numerator_as_long() == 0:
            continue
          terms.append(_mk_mul([dc] + [o for m, o in enumerate(ch) if m != j]))
        r = _mk_add(terms)
      elif k == z3.Z3_OP_DIV:
        a, b = ch
        da, db = go(a), go(b)
        if z3.is_rational_value(db) and db.numerator_as_long() == 0:
          r = da / b
        else:
          r = (da * b - a * db) / (b * b)
      elif k == z3.Z3_OP_ITE:
        r = z3.If(ch[0], go(ch[1]), go(ch[2]))
      elif k == z3.Z3_OP_TO_REAL:
        r = ZERO
      else:
        raise NotDifferentiable(f"cannot differentiate through {t.decl().name()} (kind {k}): {str(t)[:120]}")
    cache[i] = r
    return r

  return go(e)


_CMP = (z3.Z3_OP_LE, z3.Z3_OP_LT, z3.Z3_OP_GE, z3.Z3_OP_GT, z3.Z3_OP_EQ, z3.Z3_OP_DISTINCT)


def kinks(e, x):
  """[(lhs, rhs)] of comparison atoms inside ite conditions of e that depend on x"""
  out, seen, dep = {}, set(), {}

  def atoms(c):
    if c.get_id() in seen:
      return
    seen.add(c.get_id())
    if z3.is_app(c) and c.decl().kind() in _CMP and c.num_args() == 2 and c.arg(0).sort() == R:
      if depends(c, x, dep):
        out[c.get_id()] = (c.arg(0), c.arg(1))
      for a in c.children():
        walk(a)
      return
    for a in c.children():
      if a.sort() == z3.BoolSort():
        atoms(a)
      else:
        walk(a)

  def walk(t):
    if t.get_id() in seen:
      return
    seen.add(t.get_id())
    if not z3.is_app(t):
      return
    if t.decl().kind() == z3.Z3_OP_ITE:
      atoms(t.arg(0))
      walk(t.arg(1))
      walk(t.arg(2))
      return
    for c in t.children():
      walk(c)

  walk(e)
  return list(out.values())


def off_kinks(e, x):
  """condition under which the branch-wise derivative of e is the true derivative: no switching atom is at equality"""
  ks = kinks(e, x)
  return z3.And(*[a != b for a, b in ks]) if ks else z3.BoolVal(True)


def reads_of(e, arr):
  """distinct Select(arr, ...) subterms of e (arr: the z3 array constant of an array-mode cell BEFORE the thread ran)"""
  out, seen = {}, set()

  def walk(t):
    if t.get_id() in seen:
      return
    seen.add(t.get_id())
    if not z3.is_app(t):
      return
    if t.decl().kind() == z3.Z3_OP_SELECT and t.arg(0).eq(arr):
      out[t.get_id()] = t
    for c in t.children():
      walk(c)

  walk(e)
  return list(out.values())


def push_selects(e):
  """rewrite Select(Store(a, i, v), j) -> ite(i == j, v, Select(a, j)), Select(ite(c, a, b), j) -> ite(c, Select(a, j), Select(b, j)),
  Select(K(v), j) -> v everywhere in e: the value the array-mode memory model holds after guarded stores becomes a scalar
  ite-term over reads of the INITIAL arrays."""
  cache = {}

  def sel(a, idx):
    k = a.decl().kind() if z3.is_app(a) else None
    if k == z3.Z3_OP_STORE:
      n = a.num_args()
      base, sidx, val = a.arg(0), [a.arg(m) for m in range(1, n - 1)], a.arg(n - 1)
      hit = z3.simplify(z3.And(*[i == j for i, j in zip(sidx, idx)]))
      if z3.is_true(hit):
        return go(val)
      if z3.is_false(hit):
        return sel(base, idx)
      return z3.If(hit, go(val), sel(base, idx))
    if k == z3.Z3_OP_ITE:
      c = go(a.arg(0))
      return z3.If(c, sel(a.arg(1), idx), sel(a.arg(2), idx))
    if k == z3.Z3_OP_CONST_ARRAY:
      return go(a.arg(0))
    return z3.Select(a, *idx)

  def go(t):
    i = t.get_id()
    if i in cache:
      return cache[i]
    if not z3.is_app(t) or t.num_args() == 0:
      r = t
    elif t.decl().kind() == z3.Z3_OP_SELECT:
      r = sel(t.arg(0), [go(t.arg(m)) for m in range(1, t.num_args())])
    else:
      kids = [go(c) for c in t.children()]
      r = t.decl()(*kids) if any(not a.eq(b) for a, b in zip(kids, t.children())) else t
    cache[i] = r
    return r

  return go(e)


def as_function_of(e, reads, prefix="V"):
  """replace the given read terms by fresh real constants -> (term, [constants])"""
  vs = [z3.Real(f"{prefix}{i}") for i in range(len(reads))]
  return (z3.substitute(e, *zip(reads, vs)) if reads else e), vs


def numeric_diff_check(e, x, point, eps=1e-6):
  """|symbolic - central finite difference| at a dict {const: float} (self-test of the differentiator)"""
  sub = [(k, z3.RealVal(repr(float(v)))) for k, v in point.items()]
  f = lambda t, dx: float(z3.simplify(z3.substitute(t, *[(k, z3.RealVal(repr(float(point[k]) + (dx if k.eq(x) else 0.0)))) for k in point])).as_fraction())
  d = float(z3.simplify(z3.substitute(diff(e, x), *sub)).as_fraction())
  return abs(d - (f(e, eps) - f(e, -eps)) / (2 * eps))


def reads_inshape(kts, *terms):
  """0 <= index < dim for every read Select(initial array of a kernel argument, ...) that occurs in the given (reference / goal)
  terms: a functional claim is made for states in which the cells the REFERENCE reads exist (a mutated kernel that no longer reads
  a cell would otherwise let the solver shrink the array below it, which no real launch can do)."""
  if not isinstance(kts, (list, tuple)):
    kts = [kts]
  arrays = {}
  for kt in kts:
    for v in kt.args.values():
      if isinstance(v, core.ArrRef) and v.cell.mode == "array":
        for a in getattr(v.cell, "a0", v.cell.a):
          arrays[a.get_id()] = v.cell
  out, seen = [], set()

  def walk(t):
    if t.get_id() in seen:
      return
    seen.add(t.get_id())
    if not z3.is_app(t):
      return
    if t.decl().kind() == z3.Z3_OP_SELECT and t.arg(0).get_id() in arrays:
      cell = arrays[t.arg(0).get_id()]
      for d_, s_ in enumerate(cell.shape):
        i = t.arg(1 + d_)
        out.append(z3.And(i >= 0, i < s_))
    for c in t.children():
      walk(c)

  for t in terms:
    if z3.is_expr(t):
      walk(t)
  return z3.And(*out) if out else z3.BoolVal(True)
