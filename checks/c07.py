"""C07 Sensors and energy agree with MuJoCo C (partial).

 write     _write_scalar / _write_vector: exact differential against MuJoCo's apply_cutoff rule (REAL: clip to +-cutoff,
           POSITIVE: min(cutoff, x), GEOMFROMTO and other data types exempt, cutoff <= 0 off), every sensor type symbolic.
 pos|vel|acc/<TYPE>   one generic thread of the real _sensor_pos / _sensor_vel / _sensor_acc kernel with the sensor type fixed
           (enumerated), everything else symbolic (sizes, ids, object / reference types, contents, cutoff, datatype):
           sensordata after the thread == cutoff(reference value) where the reference is written from engine_sensor.c
           (closed-form sensors only) and validated numerically against the mujoco library.
 limit/*   _limit_pos / _limit_vel / _limit_frc: value written for an active limit row; the row must belong to the sensor's
           own object KIND (joint vs tendon).
 tendonactfrc  sum of the forces of the actuators attached to the tendon.
 energy/*  the real sensor.energy_pos host function (H mode) against mj_energyPos: gravity, joint springs (incl. polynomial
           stiffness), tendon springs with dead band.
"""

import math as pymath

import numpy as np
import warp as wp
import z3

from checks import lib
from checks import smoothlib_c01 as sl
from wsym import core, host, kh, report
from wsym.core import And, Implies, Not, Or, Vec, arith, cmp, is_sym, ite

PID = "C07"
EX = sl.EX


def enums():
  from mujoco_warp._src import types

  return types.SensorType, types.ObjType, types.ConstraintType, types.TrnType


REAL, POSITIVE = 0, 1
OBJ_BODY, OBJ_XBODY, OBJ_GEOM, OBJ_SITE, OBJ_CAMERA = 1, 2, 5, 6, 7
OBJS = (OBJ_BODY, OBJ_XBODY, OBJ_GEOM, OBJ_SITE, OBJ_CAMERA)


def vite(c, u, v):
  return [ite(c, x, y) for x, y in zip(u, v)]


def ref_cutoff(stype, dtype, cutoff, v, fromto):
  """apply_cutoff (engine_sensor.c): only cutoff > 0, never for GEOMFROMTO; REAL clips both sides, POSITIVE the upper one"""
  active = And(cmp(">", cutoff, 0), cmp("!=", stype, fromto))
  real = core.vmin(core.vmax(v, arith("*", cutoff, -1)), cutoff)
  pos = core.vmin(v, cutoff)
  return ite(And(active, cmp("==", dtype, REAL)), real, ite(And(active, cmp("==", dtype, POSITIVE)), pos, v))


# ------------------------------------------------------------------------------------------------ accessors


class KA:
  """symbolic read access to the initial contents of a generic thread's arrays, by kernel argument label"""

  def __init__(self, kt):
    self.kt = kt
    self.stack = []  # conditions under which the reference is currently reading
    self.reads = []  # (guard, in-shape condition) of every read of the reference

  def push(self, c):
    self.stack.append(c)

  def pop(self):
    self.stack.pop()

  def v(self, label, *idx):
    x = self.kt.prev(label, *idx)
    self.reads.append(Implies(And(*self.stack), self.kt.inshape(label, *idx)))
    return list(x.c) if isinstance(x, Vec) else x

  def wellformed(self):
    """the ids the reference dereferences exist (only under the object-type condition that selects the read)"""
    return [core.zbool(r) for r in self.reads if r is not True]

  def vb(self, label, w, *idx):
    """per-world batched Model field: world w reads row w % shape[0]"""
    return self.v(label, arith("%", w, self.kt.cell(label).shape[0]), *idx)


class NA:
  """numeric access to mujoco MjModel / MjData arrays under the kernel's argument labels"""

  def __init__(self, mjm, mjd, extra=None):
    self.mjm, self.mjd, self.extra = mjm, mjd, extra or {}

  def push(self, c):
    pass

  def pop(self):
    pass

  def arr(self, label):
    if label in self.extra:
      return self.extra[label]
    n = label[:-3] if label.endswith("_in") else label
    n = {"ten_velocity": "ten_velocity", "time": "time"}.get(n, n)
    if hasattr(self.mjd, n):
      return np.asarray(getattr(self.mjd, n))
    return np.asarray(getattr(self.mjm, n))

  def v(self, label, w, *idx):
    a = self.arr(label)
    if label == "time_in":
      return float(self.mjd.time)
    try:
      x = a[tuple(int(i) for i in idx)] if idx else a
    except IndexError:  # eager evaluation of a branch that the object type does not select
      x = np.zeros(a.shape[len(idx) :])
    x = np.asarray(x, dtype=np.float64).reshape(-1)
    if a.dtype.kind in "iu":
      return int(x[0])
    return [float(t) for t in x] if len(x) > 1 else float(x[0])

  def vi(self, label, *idx):
    try:
      return int(self.arr(label)[tuple(int(i) for i in idx)])
    except IndexError:
      return 0

  def vb(self, label, w, *idx):
    return self.v(label, w, *idx)


def KI(a, label, *idx):
  """int Model field (not world indexed)"""
  if isinstance(a, NA):
    return a.vi(label, *idx)
  return a.v(label, *idx)


# ------------------------------------------------------------------------------------------------ reference sensors


def by_obj(a, t, cases, default):
  """cases: object type -> thunk.  A concrete type evaluates only its own thunk; a symbolic one all of them, each under
  its selecting condition (recorded by the accessor for the well-formedness precondition)."""
  if not is_sym(t):
    return cases[int(t)]() if int(t) in cases else default
  r = default
  for k in reversed(OBJS):
    c = cmp("==", t, k)
    a.push(c)
    val = cases[k]()
    a.pop()
    r = vite(c, val, r) if isinstance(default, list) else ite(c, val, r)
  return r


def r_pos(a, w, t, i):
  return by_obj(a, t, {OBJ_BODY: lambda: a.v("xipos_in", w, i), OBJ_XBODY: lambda: a.v("xpos_in", w, i), OBJ_GEOM: lambda: a.v("geom_xpos_in", w, i), OBJ_SITE: lambda: a.v("site_xpos_in", w, i), OBJ_CAMERA: lambda: a.v("cam_xpos_in", w, i)}, [0.0] * 3)


def r_mat(a, w, t, i):
  eye = [1.0, 0.0, 0.0, 0.0, 1.0, 0.0, 0.0, 0.0, 1.0]
  return by_obj(a, t, {OBJ_BODY: lambda: a.v("ximat_in", w, i), OBJ_XBODY: lambda: a.v("xmat_in", w, i), OBJ_GEOM: lambda: a.v("geom_xmat_in", w, i), OBJ_SITE: lambda: a.v("site_xmat_in", w, i), OBJ_CAMERA: lambda: a.v("cam_xmat_in", w, i)}, eye)


def r_bodyid(a, t, i):
  return by_obj(a, t, {OBJ_BODY: lambda: i, OBJ_XBODY: lambda: i, OBJ_GEOM: lambda: KI(a, "geom_bodyid", i), OBJ_SITE: lambda: KI(a, "site_bodyid", i), OBJ_CAMERA: lambda: KI(a, "cam_bodyid", i)}, 0)


QL = {"mulq": sl.tb_mul_quat, "conj": sl.tb_conj}  # quaternion leaves used by the reference (exact textbook by default)


def r_quat(a, w, t, i):
  """get_xquat: body inertial frame = xquat * body_iquat; geom / site / camera = xquat[parent body] * local quat"""
  xq = lambda b: a.v("xquat_in", w, b)
  return by_obj(
    a,
    t,
    {
      OBJ_BODY: lambda: QL['mulq'](xq(i), a.vb("body_iquat", w, i)),
      OBJ_XBODY: lambda: xq(i),
      OBJ_GEOM: lambda: QL['mulq'](xq(KI(a, "geom_bodyid", i)), a.vb("geom_quat", w, i)),
      OBJ_SITE: lambda: QL['mulq'](xq(KI(a, "site_bodyid", i)), a.vb("site_quat", w, i)),
      OBJ_CAMERA: lambda: QL['mulq'](xq(KI(a, "cam_bodyid", i)), a.vb("cam_quat", w, i)),
    },
    [1.0, 0.0, 0.0, 0.0],
  )


def matTvec(M, v):
  return [EX.dot([M[3 * k + i] for k in range(3)], v) for i in range(3)]


def r_objvel(a, w, t, i):
  """mj_objectVelocity (world orientation): com-based body velocity moved to the object position"""
  b = r_bodyid(a, t, i)
  cvel = a.v("cvel_in", w, b)
  ang, lin = cvel[:3], cvel[3:]
  dif = EX.sub(r_pos(a, w, t, i), a.v("subtree_com_in", w, KI(a, "body_rootid", b)))
  return ang, EX.sub(lin, EX.cross(dif, ang))


def ref_sensor(a, S, stype, w, objid, objtype, refid, reftype):
  """-> list of raw sensor values (before cutoff), MuJoCo semantics (engine_sensor.c)"""
  hasref = cmp("!=", refid, -1)
  if stype == S.CLOCK:
    return [a.v("time_in", w)]
  if stype == S.JOINTPOS:
    return [a.v("qpos_in", w, KI(a, "jnt_qposadr", objid))]
  if stype == S.TENDONPOS:
    return [a.v("ten_length_in", w, objid)]
  if stype == S.ACTUATORPOS:
    return [a.v("actuator_length_in", w, objid)]
  if stype == S.SUBTREECOM:
    return a.v("subtree_com_in", w, objid)
  if stype == S.E_POTENTIAL:
    return [a.v("energy_in", w)[0]]
  if stype == S.E_KINETIC:
    return [a.v("energy_in", w)[1]]
  if stype == S.FRAMEPOS:
    pos = r_pos(a, w, objtype, objid)
    a.push(hasref)
    rel = matTvec(r_mat(a, w, reftype, refid), EX.sub(pos, r_pos(a, w, reftype, refid)))
    a.pop()
    return vite(hasref, rel, pos)
  if stype in (S.FRAMEXAXIS, S.FRAMEYAXIS, S.FRAMEZAXIS):
    ax = int(stype) - int(S.FRAMEXAXIS)
    M = r_mat(a, w, objtype, objid)
    axis = [M[ax], M[3 + ax], M[6 + ax]]
    a.push(hasref)
    rel = matTvec(r_mat(a, w, reftype, refid), axis)
    a.pop()
    return vite(hasref, rel, axis)
  if stype == S.FRAMEQUAT:
    q = r_quat(a, w, objtype, objid)
    a.push(hasref)
    rel = QL["mulq"](QL["conj"](r_quat(a, w, reftype, refid)), q)
    a.pop()
    return vite(hasref, rel, q)
  if stype == S.JOINTVEL:
    return [a.v("qvel_in", w, KI(a, "jnt_dofadr", objid))]
  if stype == S.TENDONVEL:
    return [a.v("ten_velocity_in", w, objid)]
  if stype == S.ACTUATORVEL:
    return [a.v("actuator_velocity_in", w, objid)]
  if stype == S.BALLANGVEL:
    da = KI(a, "jnt_dofadr", objid)
    return [a.v("qvel_in", w, arith("+", da, k)) for k in range(3)]
  if stype == S.SUBTREELINVEL:
    return a.v("subtree_linvel_in", w, objid)
  if stype == S.SUBTREEANGMOM:
    return a.v("subtree_angmom_in", w, objid)
  if stype in (S.VELOCIMETER, S.GYRO):
    ang, lin = r_objvel(a, w, OBJ_SITE, objid)
    return matTvec(a.v("site_xmat_in", w, objid), lin if stype == S.VELOCIMETER else ang)
  if stype in (S.FRAMELINVEL, S.FRAMEANGVEL):
    ang, lin = r_objvel(a, w, objtype, objid)
    a.push(cmp(">", refid, -1))
    angr, linr = r_objvel(a, w, reftype, refid)
    Mr = r_mat(a, w, reftype, refid)
    if stype == S.FRAMEANGVEL:
      rel = matTvec(Mr, EX.sub(ang, angr))
      a.pop()
      return vite(cmp(">", refid, -1), rel, ang)
    rvec = EX.sub(r_pos(a, w, objtype, objid), r_pos(a, w, reftype, refid))
    rel = matTvec(Mr, EX.add(EX.sub(lin, linr), EX.cross(rvec, angr)))
    a.pop()
    return vite(cmp(">", refid, -1), rel, lin)
  if stype == S.ACTUATORFRC:
    return [a.v("actuator_force_in", w, objid)]
  if stype == S.JOINTACTFRC:
    return [a.v("qfrc_actuator_in", w, KI(a, "jnt_dofadr", objid))]
  raise KeyError(stype)


POS_TYPES = ["CLOCK", "JOINTPOS", "TENDONPOS", "ACTUATORPOS", "SUBTREECOM", "E_POTENTIAL", "E_KINETIC", "FRAMEPOS", "FRAMEXAXIS", "FRAMEYAXIS", "FRAMEZAXIS", "FRAMEQUAT"]
VEL_TYPES = ["JOINTVEL", "TENDONVEL", "ACTUATORVEL", "BALLANGVEL", "SUBTREELINVEL", "SUBTREEANGMOM", "VELOCIMETER", "GYRO", "FRAMELINVEL", "FRAMEANGVEL"]
ACC_TYPES = ["ACTUATORFRC", "JOINTACTFRC"]
STAGE_KERNEL = {"pos": ("_sensor_pos", "sensor_pos_adr"), "vel": ("_sensor_vel", "sensor_vel_adr"), "acc": ("_sensor_acc", "sensor_acc_adr")}

# ------------------------------------------------------------------------------------------------ numeric validation vs mujoco

VALID_XML = """<mujoco><option gravity="0.3 -0.2 -9.81"/><worldbody>
<site name="sw" pos="0.3 0 0.2" quat="1 0.3 0 0"/><camera name="cw" pos="1 1 1" quat="1 0 0.4 0"/>
<body name="a" pos="0.1 0.2 0.3" quat="1 2 3 4"><joint name="ja" type="hinge" axis="0 1 0" stiffness="2" springref="0.2"/>
 <geom name="ga" size=".1" pos="0.1 0.2 0" quat="1 0.5 0 0"/><site name="sa" pos="0 0.1 0.2" quat="0.5 0.5 0.1 0"/>
 <camera name="ca" pos="0 0.1 0.5" quat="1 0.2 0 0"/>
 <body name="b" pos="0.3 0 0.1" quat="0.5 0.5 0.1 0"><joint name="jb" type="ball" pos="0 0.1 0"/>
  <geom name="gb" size=".1" pos="0 0.2 0.1" quat="1 0 0.5 0"/><site name="sb" pos="0.1 0.1 0" quat="0.1 0.5 0.1 0"/>
  <body name="c" pos="-0.3 0 0.1"><joint name="jc" type="slide" axis="0 1 0" stiffness="3"/><geom name="gc" size=".1"/></body>
 </body>
</body></worldbody>
<tendon><fixed name="t0"><joint joint="ja" coef="1.5"/><joint joint="jc" coef="-0.5"/></fixed></tendon>
<actuator><motor name="m0" joint="ja" gear="2"/><motor name="m1" tendon="t0"/><position name="m2" tendon="t0" kp="3"/></actuator>
<sensor>
 <clock/><jointpos joint="ja" cutoff="0.1"/><jointpos joint="jc"/><tendonpos tendon="t0" cutoff="0.05"/><actuatorpos actuator="m0"/>
 <ballquat joint="jb"/><subtreecom body="a"/><subtreecom body="b" cutoff="0.2"/>
 <framepos objtype="body" objname="b"/><framepos objtype="xbody" objname="b" reftype="site" refname="sa"/>
 <framepos objtype="geom" objname="gb" reftype="camera" refname="cw" cutoff="0.3"/><framepos objtype="site" objname="sb" reftype="body" refname="a"/>
 <framepos objtype="camera" objname="ca" reftype="geom" refname="gc"/>
 <framexaxis objtype="site" objname="sb" reftype="xbody" refname="a"/><frameyaxis objtype="geom" objname="ga"/>
 <framezaxis objtype="body" objname="c" reftype="camera" refname="ca"/><framezaxis objtype="camera" objname="ca" reftype="site" refname="sw"/>
 <framequat objtype="body" objname="b"/><framequat objtype="site" objname="sb" reftype="geom" refname="ga"/>
 <framequat objtype="camera" objname="ca" reftype="body" refname="c"/><framequat objtype="xbody" objname="c" reftype="site" refname="sw"/>
 <framequat objtype="geom" objname="gb" reftype="xbody" refname="a"/>
 <jointvel joint="ja" cutoff="0.2"/><jointvel joint="jc"/><tendonvel tendon="t0"/><actuatorvel actuator="m1"/><ballangvel joint="jb"/>
 <subtreelinvel body="a"/><subtreeangmom body="b"/><velocimeter site="sb"/><gyro site="sa" cutoff="0.1"/>
 <framelinvel objtype="body" objname="c"/><framelinvel objtype="site" objname="sb" reftype="xbody" refname="a"/>
 <framelinvel objtype="geom" objname="gc" reftype="site" refname="sa" cutoff="0.2"/><framelinvel objtype="camera" objname="ca" reftype="geom" refname="gb"/>
 <framelinvel objtype="xbody" objname="b" reftype="camera" refname="cw"/>
 <frameangvel objtype="body" objname="c"/><frameangvel objtype="site" objname="sb" reftype="body" refname="a"/>
 <frameangvel objtype="geom" objname="gc" reftype="camera" refname="ca"/><frameangvel objtype="xbody" objname="c" reftype="geom" refname="ga"/>
 <actuatorfrc actuator="m0"/><actuatorfrc actuator="m2" cutoff="0.5"/><jointactuatorfrc joint="ja"/>
 <e_potential/><e_kinetic/>
</sensor></mujoco>"""


def validate_sensor_refs(ctx, seed):
  import mujoco

  S, O, C, T = enums()
  rng = np.random.default_rng(seed)
  mjm = mujoco.MjModel.from_xml_string(VALID_XML)
  mjm.opt.enableflags |= mujoco.mjtEnableBit.mjENBL_ENERGY
  fromto = int(S.GEOMFROMTO)
  seen = set()
  for trial in range(3):
    mjd = mujoco.MjData(mjm)
    mjd.qpos[:] = rng.uniform(-1, 1, mjm.nq)
    mjd.qvel[:] = rng.uniform(-1, 1, mjm.nv)
    mjd.ctrl[:] = rng.uniform(-1, 1, mjm.nu)
    mjd.time = 0.37
    mujoco.mj_forward(mjm, mjd)
    mujoco.mj_subtreeVel(mjm, mjd)
    a = NA(mjm, mjd)
    for i in range(mjm.nsensor):
      st = S(int(mjm.sensor_type[i]))
      adr, dim = int(mjm.sensor_adr[i]), int(mjm.sensor_dim[i])
      got = mjd.sensordata[adr : adr + dim]
      if st == S.BALLQUAT:
        q = mjd.qpos[mjm.jnt_qposadr[mjm.sensor_objid[i]] :][:4]
        want = list(q / np.linalg.norm(q))
      else:
        try:
          raw = ref_sensor(a, S, st, 0, int(mjm.sensor_objid[i]), int(mjm.sensor_objtype[i]), int(mjm.sensor_refid[i]), int(mjm.sensor_reftype[i]))
        except KeyError:
          ctx.error(f"validation model contains sensor type {st.name} without a reference")
          return False
        want = [ref_cutoff(int(st), int(mjm.sensor_datatype[i]), float(mjm.sensor_cutoff[i]), x, fromto) for x in raw]
      seen.add(st.name)
      if not np.allclose(np.array(want, dtype=float), got, rtol=1e-7, atol=1e-9):
        ctx.error(f"reference sensor model disagrees with mujoco: sensor {i} ({st.name}, objtype {mjm.sensor_objtype[i]}, reftype {mjm.sensor_reftype[i]}, cutoff {mjm.sensor_cutoff[i]}): {want} vs {got.tolist()}")
        return False
  missing = [t for t in POS_TYPES + VEL_TYPES + ACC_TYPES if t not in seen]
  if missing:
    ctx.error(f"validation model lacks sensor types {missing}")
    return False
  return True


# ------------------------------------------------------------------------------------------------ units: write helpers


def unit_write(ctx):
  from mujoco_warp._src import sensor

  S, O, C, T = enums()
  ctx.bound(note="exact reals; every sensor type / datatype / cutoff symbolic; vector dims 2, 3, 4, 6")
  ctx.assume("own accesses in bounds")
  if not validate_sensor_refs(ctx, ctx.seed):
    return
  for fn, dims in ((sensor._write_scalar, [1]), (sensor._write_vector, [2, 3, 4, 6])):
    ctx.encode(fn)
    for dim in dims:
      vals = [z3.Real(f"x{k}") for k in range(dim)]
      sc = {"sensor": vals[0]} if dim == 1 and fn is sensor._write_scalar else {"sensor": Vec(vals, (dim,), "f"), "sensordim": dim}
      sid = z3.Int("sensorid")
      sc["sensorid"] = sid
      args = kh.make_args(fn, scalars=sc)
      from wsym import replay as rpl

      rpl.snapshot_initial(args)
      it, _ = kh.run(fn, args)
      bg = [core.zbool(x) for x in it.assumes] + [core.zbool(Implies(o.guard, o.strict)) for o in it.obl if o.kind == "bounds"]
      sess = ctx.session(bg)
      ctx.reach(sess, f"twin:{fn.key.split('.')[-1]}/{dim}", True)
      g = lambda lab, *idx: args[lab].cell.get(idx, 0, snap=args[lab].cell.a0)
      stype, dtype, adr, cutoff = g("sensor_type", sid), g("sensor_datatype", sid), g("sensor_adr", sid), g("sensor_cutoff", sid)
      names = {"sensor_type": stype, "datatype": dtype, "cutoff": cutoff, "adr": adr}
      names.update({f"x{k}": vals[k] for k in range(dim)})
      for k in range(dim):
        got = args["out"].cell.get((arith("+", adr, k),), 0)
        want = ref_cutoff(stype, dtype, cutoff, vals[k], int(S.GEOMFROMTO))
        ctx.prove(sess, f"{fn.key.split('.')[-1]}/dim{dim}/out[{k}]", cmp("==", got, want), names=names, replay=write_replay(fn.key.split(".")[-1], dim, k, names), desc=f"{fn.key}: component {k} of a {dim}-vector after cutoff differs from MuJoCo's apply_cutoff rule")


def write_replay(fname, dim, k, names):
  def _rp(model):
    from checks import leafk_c07

    S = enums()[0]
    v = {n: kh.mval(model, t) for n, t in names.items()}
    x = np.clip(np.array([float(v[f"x{i}"]) for i in range(dim)]), -1e6, 1e6)
    st, dt, cut = int(v["sensor_type"]), int(v["datatype"]), float(np.clip(float(v["cutoff"]), -1e6, 1e6))
    got = leafk_c07.run_write(dim, st, dt, cut, x)
    want = np.array([ref_cutoff(st, dt, cut, float(t), int(S.GEOMFROMTO)) for t in x], dtype=float)
    if not np.allclose(got, want, rtol=1e-5, atol=1e-6):
      return True, sl.save_replay(PID, f"write.{fname}.{dim}.{k}", {"property": PID, "function": f"sensor.{fname}", "sensor_type": st, "datatype": dt, "cutoff": cut, "value": x.tolist(), "real": got.tolist(), "mujoco_rule": want.tolist()})
    return False, f"real {got.tolist()} == rule {want.tolist()}"

  return _rp


# ------------------------------------------------------------------------------------------------ units: closed-form sensors


def const_int_array(name, val):
  c = core.Cell(name, [z3.Int(name + ".shape0")], "int", mode="array")
  c.a = [z3.K(z3.IntSort(), z3.IntVal(int(val)))]
  return core.ArrRef(c)


def const_real_array(name, val):
  c = core.Cell(name, [z3.Int(name + ".shape0")], "real", mode="array")
  c.a = [z3.K(z3.IntSort(), z3.RealVal(val))]
  return core.ArrRef(c)


def np_accessor_from_pre(pre):
  class PA(NA):
    def __init__(self):
      pass

    def arr(self, label):
      return pre[label]

    def v(self, label, w, *idx):
      a = pre[label]
      try:
        x = a[(int(w),) + tuple(int(i) for i in idx)]
      except IndexError:
        x = np.zeros(a.shape[1 + len(idx) :])
      x = np.asarray(x, dtype=np.float64).reshape(-1)
      return [float(t) for t in x] if len(x) > 1 else float(x[0])

    def vb(self, label, w, *idx):
      a = pre[label]
      return self.v(label, int(w) % max(a.shape[0], 1), *idx)

    def vi(self, label, *idx):
      try:
        return int(pre[label][tuple(int(i) for i in idx)])
      except IndexError:
        return 0

  return PA()


def goal_sensor(spec, pre, post):
  """replay goal: recompute the reference numerically from the concrete pre-state and compare with the real kernel's output"""
  S = enums()[0]
  e = spec["env"]
  stype = S(int(e["stype"]))
  w, tidx = spec["tid"][:2]
  sid = int(pre[e["adr_label"]][tidx])
  a = np_accessor_from_pre(pre)
  objid = int(pre["sensor_objid"][sid])
  g = lambda lab: int(pre[lab][sid]) if (lab in pre and sid < len(pre[lab])) else 0
  raw = ref_sensor(a, S, stype, w, objid, g("sensor_objtype"), g("sensor_refid"), g("sensor_reftype"))
  adr = int(pre["sensor_adr"][sid])
  at = lambda lab, d: pre[lab][sid] if sid < len(pre[lab]) else d  # arrays the thread never read may be empty in the model
  dt, cut = int(at("sensor_datatype", 0)), float(at("sensor_cutoff", 0.0))
  want = np.array([ref_cutoff(int(stype), dt, cut, x, int(S.GEOMFROMTO)) for x in raw], dtype=float)
  got = post["sensordata_out"][w, adr : adr + len(want)].astype(float)
  return bool(np.allclose(got, want, rtol=1e-3, atol=1e-4)), f"{stype.name} sensor {sid} (objtype {g('sensor_objtype')} reftype {g('sensor_reftype')} refid {g('sensor_refid')} cutoff {cut}): sensordata {got.tolist()} expected {want.tolist()}"


def unit_sensor(stage, tname):
  def run(ctx):
    from mujoco_warp._src import sensor

    S, O, C, T = enums()
    stype = getattr(S, tname)
    kname, adr_label = STAGE_KERNEL[stage]
    k = getattr(sensor, kname)
    ctx.encode(k, sensor._write_scalar, sensor._write_vector)
    unroll, cap = (4, 10) if ctx.tier == "thorough" else (2, 6)
    ctx.bound(unroll=unroll, shape_cap=cap, note="one generic thread; sensor type fixed, all other inputs symbolic; exact reals")
    ctx.assume("own accesses in bounds (C17)", "object / reference types in {body, xbody, geom, site, camera} (MuJoCo compiler)", "the object / reference ids of the sensor exist (the reference model's own reads are inside the arrays, under the object-type condition that selects them)")
    ikw = {}
    if tname == "FRAMEQUAT":
      # quaternion products are degree-4 polynomials: compare the composition structure with mul_quat / quat_inv as shared
      # uninterpreted functions (each is proved equal to its textbook definition in C01 unit leaf)
      from mujoco_warp._src import math as mm

      L = sl.UFLeaves()
      R_ = z3.RealSort()
      conj_uf = lambda q: [z3.Function(f"quat_inv#{k_}", R_, R_, R_, R_, R_)(*[core.to_z3(x, "real") for x in q]) for k_ in range(4)]
      summ = L.summaries(("mul_quat",))
      summ[mm.quat_inv.key] = lambda it, fr, args: Vec(conj_uf(list(args[0].c)), (4,), "quat")
      ikw = {"summaries": summ}
      QL["mulq"], QL["conj"] = L.mulq, conj_uf
      ctx.assume("FRAMEQUAT: mul_quat / quat_inv are shared uninterpreted functions (leaf lemmas: C01 unit leaf)")
    kt = lib.kernel_thread(k, scalars={"sensor_type": const_int_array("sensor_type", int(stype))}, unroll=unroll, cap=cap, interp_kw=ikw)
    # the same thread over the same symbolic arrays with the cutoff switched off: exposes the value handed to the write helper
    kt0 = lib.kernel_thread(k, scalars={"sensor_type": const_int_array("sensor_type", int(stype)), "sensor_cutoff": const_real_array("sensor_cutoff", 0.0)}, unroll=unroll, cap=cap, interp_kw=ikw)
    w, tidx = kt.tid
    a = KA(kt)
    sid = kt.pre(adr_label, tidx)
    objid = kt.pre("sensor_objid", sid)
    has = lambda lab: lab in kt.args
    objtype = kt.pre("sensor_objtype", sid) if has("sensor_objtype") else 0
    reftype = kt.pre("sensor_reftype", sid) if has("sensor_reftype") else 0
    refid = kt.pre("sensor_refid", sid) if has("sensor_refid") else -1
    raw = ref_sensor(a, S, stype, w, objid, objtype, refid, reftype)
    adr, cutoff, dtype = kt.pre("sensor_adr", sid), kt.pre("sensor_cutoff", sid), kt.pre("sensor_datatype", sid)
    names = {"w": w, "sensorid": sid, "objid": objid, "adr": adr, "cutoff": cutoff, "datatype": dtype}
    if is_sym(refid):
      names["refid"] = refid
    loc = f"mujoco_warp._src.sensor:{kname}"
    # object / reference types: exhaustive case split by substitution (keeps every query a small polynomial identity)
    framed = tname.startswith("FRAME")
    combos = [(ot, rt) for ot in OBJS for rt in OBJS] if (framed and is_sym(objtype) and is_sym(reftype)) else [(None, None)]
    if ctx.tier != "thorough" and len(combos) > 1:
      ctx.bound(objtype_reftype_pairs="all 25 (object, reference) type pairs")
    for ot, rt in combos:
      sub = [] if ot is None else [(objtype, z3.IntVal(ot)), (reftype, z3.IntVal(rt))]
      S_ = (lambda t: z3.simplify(z3.substitute(core.to_z3(t, "real") if not z3.is_bool(t) else t, *sub))) if sub else (lambda t: t)
      wf = a.wellformed()
      bg = [z3.substitute(core.zbool(b), *sub) for b in list(kt.bg) + wf] if sub else list(kt.bg) + wf
      sess = sl.oneshot(ctx, bg)
      tag = "" if ot is None else f"/obj{ot}-ref{rt}"
      ctx.reach(sess, f"twin:thread{tag}", True)
      env = {"stype": int(stype), "adr_label": adr_label, "randomize_floats": 2}
      if sub:
        env["variants"] = [{"__poke__": [["sensor_objtype", [sid], None, ot], ["sensor_reftype", [sid], None, rt]]}]
      bg0 = [z3.substitute(core.zbool(b), *sub) for b in list(kt0.bg) + wf] if sub else list(kt0.bg) + wf
      # arrays that the cutoff-free thread never reads still get a slot for this sensor (keeps replays well formed)
      bg0 = bg0 + [core.zbool(kt0.inshape("sensor_datatype", sid)), core.zbool(kt0.inshape("sensor_cutoff", sid))]
      sess0 = sl.oneshot(ctx, bg0)
      for i, x in enumerate(raw):
        # two steps (their conjunction is the claim  sensordata == cutoff(reference value)):
        #  raw     value handed to the write helper (thread run with cutoff 0) == reference value   [polynomial identity]
        #  cutoff  sensordata == apply_cutoff(that same value)                                      [propositional over shared terms]
        got0 = kt0.post("sensordata_out", w, arith("+", adr, i))
        got = kt.post("sensordata_out", w, arith("+", adr, i))
        what = f"{' object type %s reference type %s' % (ot, rt) if sub else ''}"
        if ctx.violations or ctx.errors:
          ctx.notes.append("remaining object / reference type pairs skipped after the first reproduced violation / harness error")
          return
        rp0 = lib.make_replay(ctx, kt0, loc, f"{tname}.{i}{tag.replace('/', '.')}.raw", "goal", goal="checks.c07:goal_sensor", env=env)
        rp = lib.make_replay(ctx, kt, loc, f"{tname}.{i}{tag.replace('/', '.')}", "goal", goal="checks.c07:goal_sensor", env=env)
        ctx.prove(sess0, f"{tname}[{i}]{tag}/raw", S_(got0) == S_(x) if sub else cmp("==", got0, x), names=names, replay=rp0, desc=f"{kname}: {tname} component {i}{what} differs from MuJoCo's value")
        want = ref_cutoff(int(stype), dtype, cutoff, got0, int(S.GEOMFROMTO))
        ctx.prove(sess, f"{tname}[{i}]{tag}/cutoff", S_(got) == S_(want) if sub else cmp("==", got, want), names=names, replay=rp, desc=f"{kname}: {tname} component {i}{what}: cutoff handling differs from MuJoCo's apply_cutoff")

  return (f"{stage}/{tname}", run)


def unit_ballquat(ctx):
  """BALLQUAT = normalised joint quaternion (wp.normalize modelled identically on both sides, products uninterpreted)"""
  from mujoco_warp._src import sensor

  S = enums()[0]
  k = sensor._sensor_pos
  ctx.encode(k)
  ctx.bound(unroll=2, note="one generic thread; float products uninterpreted")
  ctx.assume("own accesses in bounds", "ball quaternion non-zero (MuJoCo maps 0 to identity)")
  kt = lib.kernel_thread(k, scalars={"sensor_type": const_int_array("sensor_type", int(S.BALLQUAT))}, unroll=2, interp_kw={"float_uf": True})
  w, tidx = kt.tid
  sid = kt.pre("sensor_pos_adr", tidx)
  objid = kt.pre("sensor_objid", sid)
  qa = kt.pre("jnt_qposadr", objid)
  q = [kt.pre("qpos_in", w, arith("+", qa, i)) for i in range(4)]
  L = sl.UFLeaves()
  want = L.normalize(q)
  adr, cutoff, dtype = kt.pre("sensor_adr", sid), kt.pre("sensor_cutoff", sid), kt.pre("sensor_datatype", sid)
  qs = []
  for i in range(4):
    got = kt.post("sensordata_out", w, arith("+", adr, i))
    qs.append(dict(name=f"BALLQUAT[{i}]", goal=cmp("==", got, ref_cutoff(int(S.BALLQUAT), dtype, cutoff, want[i], int(S.GEOMFROMTO))), names={"sensorid": sid, "adr": adr}, replay=lambda m: (False, "structure-only query"), desc="BALLQUAT differs from the normalised joint quaternion"))
  sl.run_queries(ctx, kt.bg + [core.zbool(x) for x in L.assumes], qs, twin="twin:thread")


# ------------------------------------------------------------------------------------------------ limit sensors


def goal_limit(spec, pre, post):
  S, O, C, T = enums()
  e = spec["env"]
  w, efcid, lid = spec["tid"][:3]
  sid = int(pre[e["adr_label"]][lid])
  adr = int(pre["sensor_adr"][sid])
  st, ct = int(pre_const(pre, "sensor_type", sid)), int(pre["efc_type_in"][w, efcid])
  joint_sensor = st in (int(S.JOINTLIMITPOS), int(S.JOINTLIMITVEL), int(S.JOINTLIMITFRC))
  ok_kind = (joint_sensor and ct == int(C.LIMIT_JOINT)) or ((not joint_sensor) and ct == int(C.LIMIT_TENDON))
  before, after = float(pre["sensordata_out"][w, adr]), float(post["sensordata_out"][w, adr])
  wrote = before != after
  return (not wrote) or ok_kind, f"limit sensor {sid} (type {S(st).name}, objid {pre['sensor_objid'][sid]}) was written ({before} -> {after}) from efc row {efcid} of constraint type {ct} id {pre['efc_id_in'][w, efcid]}: wrong object kind"


def goal_limit_value(spec, pre, post):
  S, O, C, T = enums()
  e = spec["env"]
  w, efcid, lid = spec["tid"][:3]
  sid = int(pre[e["adr_label"]][lid])
  adr = int(pre["sensor_adr"][sid])
  val = float(pre[e["val_label"]][w, efcid]) - (float(pre["efc_margin_in"][w, efcid]) if e["val_label"] == "efc_pos_in" else 0.0)
  want = float(ref_cutoff(int(pre["sensor_type"][sid]), int(pre["sensor_datatype"][sid]), float(pre["sensor_cutoff"][sid]), val, int(S.GEOMFROMTO)))
  got = float(post["sensordata_out"][w, adr])
  return lib.approx(got, want), f"limit sensor {sid}: sensordata {got} expected {want} (row value {val}, cutoff {pre['sensor_cutoff'][sid]})"


def pre_const(pre, label, i):
  return pre[label][i]


def unit_limit(which):
  def run(ctx):
    from mujoco_warp._src import sensor

    S, O, C, T = enums()
    k = getattr(sensor, f"_limit_{which}")
    adr_label = f"sensor_limit{which}_adr"
    val_label = {"pos": "efc_pos_in", "vel": "efc_vel_in", "frc": "efc_force_in"}[which]
    jt, tt = {"pos": (S.JOINTLIMITPOS, S.TENDONLIMITPOS), "vel": (S.JOINTLIMITVEL, S.TENDONLIMITVEL), "frc": (S.JOINTLIMITFRC, S.TENDONLIMITFRC)}[which]
    ctx.encode(k)
    ctx.bound(note="one generic thread (world, efc row, limit sensor), all symbolic; exact reals")
    ctx.assume("own accesses in bounds", "the sensor listed in sensor_limit*_adr is a JOINTLIMIT* or TENDONLIMIT* sensor", "limit rows lie in [ne+nf, ne+nf+nl) and carry type LIMIT_JOINT / LIMIT_TENDON with the joint / tendon id")
    kt = lib.kernel_thread(k)
    w, efcid, lid = kt.tid
    sid = kt.pre(adr_label, lid)
    st = kt.pre("sensor_type", sid)
    objid, adr = kt.pre("sensor_objid", sid), kt.pre("sensor_adr", sid)
    ne, nf, nl = kt.pre("ne_in", w), kt.pre("nf_in", w), kt.pre("nl_in", w)
    et, eid = kt.pre("efc_type_in", w, efcid), kt.pre("efc_id_in", w, efcid)
    islimit = And(cmp(">=", efcid, arith("+", ne, nf)), cmp("<", efcid, arith("+", arith("+", ne, nf), nl)))
    mine = And(islimit, cmp("==", eid, objid), Or(And(cmp("==", st, int(jt)), cmp("==", et, int(C.LIMIT_JOINT))), And(cmp("==", st, int(tt)), cmp("==", et, int(C.LIMIT_TENDON)))))
    bg = kt.bg + [core.zbool(Or(cmp("==", st, int(jt)), cmp("==", st, int(tt)))), ne >= 0, nf >= 0, nl >= 0]
    bg += [core.zbool(kt.inshape(lab, w, efcid)) for lab in ([val_label] + (["efc_margin_in"] if which == "pos" else []))]
    sess = ctx.session(bg)
    ctx.reach(sess, "twin:matching-row", mine)
    val = kt.pre(val_label, w, efcid)
    if which == "pos":
      val = arith("-", val, kt.pre("efc_margin_in", w, efcid))
    want = ref_cutoff(st, kt.pre("sensor_datatype", sid), kt.pre("sensor_cutoff", sid), val, int(S.GEOMFROMTO))
    names = {"w": w, "efcid": efcid, "sensorid": sid, "sensor_type": st, "objid": objid, "efc_type": et, "efc_id": eid, "ne": ne, "nf": nf, "nl": nl}
    loc = f"mujoco_warp._src.sensor:_limit_{which}"
    written = kt.written("sensordata_out", w, adr)
    rpv = lib.make_replay(ctx, kt, loc, "value", "goal", goal="checks.c07:goal_limit_value", env={"adr_label": adr_label, "val_label": val_label, "sentinels": {"sensordata_out": -777.0}})
    ctx.prove(sess, "value", And(written, cmp("==", kt.post("sensordata_out", w, adr), want)), mine, names=names, replay=rpv, desc=f"_limit_{which}: the active limit row of the sensor's own joint / tendon does not produce MuJoCo's value")
    rp = lib.make_replay(ctx, kt, loc, "kind", "goal", goal="checks.c07:goal_limit", env={"adr_label": adr_label, "sentinels": {"sensordata_out": -777.0}})
    ctx.prove(sess, "only-own-object-kind", Not(written), Not(mine), names=names, replay=rp, desc=f"_limit_{which}: a joint-limit sensor is written from a TENDON limit row with the same id (or vice versa): MuJoCo matches the constraint type to the sensor type")

  return (f"limit/{which}", run)


def goal_tenactfrc(spec, pre, post):
  T = enums()[3]
  w, tid_, actid = spec["tid"][:3]
  sid = int(pre["sensor_tendonactfrc_adr"][tid_])
  adr = int(pre["sensor_adr"][sid])
  match = int(pre["actuator_trntype"][actid]) == int(T.TENDON) and int(pre["actuator_trnid"][actid][0]) == int(pre["sensor_objid"][sid])
  want = float(pre["sensordata_out"][w, adr]) + (float(pre["actuator_force_in"][w, actid]) if match else 0.0)
  got = float(post["sensordata_out"][w, adr])
  return lib.approx(got, want), f"tendon actuator force sensor {sid}: contribution of actuator {actid} (match={match}): {got} expected {want}"


def unit_tendonactfrc(ctx):
  from mujoco_warp._src import sensor

  S, O, C, T = enums()
  k = sensor._tendon_actuator_force
  ctx.encode(k, sensor._tendon_actuator_force_cutoff)
  ctx.bound(note="one generic thread (world, sensor, actuator); exact reals")
  ctx.assume("own accesses in bounds")
  kt = lib.kernel_thread(k)
  w, tidx, actid = kt.tid
  sid = kt.pre("sensor_tendonactfrc_adr", tidx)
  adr = kt.pre("sensor_adr", sid)
  trn = kt.prev("actuator_trnid", actid)
  match = And(cmp("==", kt.pre("actuator_trntype", actid), int(T.TENDON)), cmp("==", trn.c[0], kt.pre("sensor_objid", sid)))
  sess = ctx.session(kt.bg + [core.zbool(kt.inshape("actuator_trntype", actid)), core.zbool(kt.inshape("actuator_trnid", actid))])
  ctx.reach(sess, "twin:matching-actuator", match)
  want = ite(match, kt.pre("actuator_force_in", w, actid), 0.0)
  rp = lib.make_replay(ctx, kt, "mujoco_warp._src.sensor:_tendon_actuator_force", "sum", "goal", goal="checks.c07:goal_tenactfrc")
  ctx.prove(sess, "contribution", cmp("==", kt.atomic_total("sensordata_out", w, adr), want), names={"w": w, "actid": actid, "sensorid": sid}, replay=rp, desc="_tendon_actuator_force: an actuator contributes to the tendon's sensor iff it is attached to that tendon (MuJoCo: sum of actuator_force over tendon-transmission actuators)")
  # cutoff pass
  k2 = sensor._tendon_actuator_force_cutoff
  kt2 = lib.kernel_thread(k2)
  w2, t2 = kt2.tid
  sid2 = kt2.pre("sensor_tendonactfrc_adr", t2)
  adr2 = kt2.pre("sensor_adr", sid2)
  sess2 = ctx.session(kt2.bg)
  ctx.reach(sess2, "twin:cutoff", True)
  want2 = ref_cutoff(kt2.pre("sensor_type", sid2), kt2.pre("sensor_datatype", sid2), kt2.pre("sensor_cutoff", sid2), kt2.pre("sensordata_in", w2, adr2), int(S.GEOMFROMTO))
  ctx.prove(sess2, "cutoff", cmp("==", kt2.post("sensordata_out", w2, adr2), want2), replay=lambda m: (False, "not replayed"), desc="_tendon_actuator_force_cutoff differs from apply_cutoff")


# ------------------------------------------------------------------------------------------------ energy (H mode)

ENERGY_XML = """<mujoco><option gravity="0.3 -0.2 -9.81"><flag energy="enable"/></option><worldbody>
<body pos="0.1 0.2 0.3"><joint name="j0" type="hinge" axis="0 1 0" stiffness="2" springref="0.2"/><geom size=".1" pos="0.1 0.2 0"/>
 <body pos="0.3 0 0.1"><joint name="j1" type="slide" axis="1 0 0" stiffness="3"/><geom size=".1"/>
  <body pos="0.3 0 0.1"><joint name="j2" type="hinge" axis="0 0 1"/><geom size=".1"/></body></body></body>
</worldbody>
<tendon><fixed name="t0" stiffness="4" springlength="0.1 0.3"><joint joint="j0" coef="1.5"/><joint joint="j2" coef="-0.5"/></fixed>
<fixed name="t1" stiffness="1.5" springlength="0.2"><joint joint="j1" coef="2"/></fixed></tendon></mujoco>"""
ENERGY_BALL_XML = """<mujoco><option><flag energy="enable"/></option><worldbody>
<body pos="0.1 0.2 0.3"><freejoint/><geom size=".1"/></body>
<body pos="1 0.2 0.3"><joint name="jb" type="ball" stiffness="2"/><geom size=".1" pos="0.2 0 0"/></body></worldbody></mujoco>"""
E_FLOATS = ["body_mass", "jnt_stiffness", "jnt_stiffnesspoly", "qpos_spring", "tendon_stiffness", "tendon_stiffnesspoly", "tendon_lengthspring"]


def poly_pot(k, p, x):
  """potential of MuJoCo's polynomial spring: 1/2 k x^2 + 1/3 p0 x^3 + 1/4 p1 x^4"""
  x2 = arith("*", x, x)
  x3 = arith("*", x2, x)
  r = arith("*", arith("*", k, 0.5), x2)
  r = arith("+", r, arith("*", arith("*", p[0], x3), 1.0 / 3.0))
  return arith("+", r, arith("*", arith("*", p[1], arith("*", x3, x)), 0.25))


def ref_energy_parts(mjm, p, w, grav, quat_sub=None, o=EX, sqr=lambda t: t):
  """mj_energyPos, term by term: gravity = -sum_b mass_b gravity.xipos_b ; joint = sum of joint spring potentials ;
  tendon = sum of tendon spring potentials (dead band [lower, upper])"""
  g = 0.0
  for b in range(1, mjm.nbody):
    g = arith("-", g, o.a("*", p.get("body_mass", w, b), o.dot(grav, p.get("xipos", w, b))))
  e = 0.0
  for j in range(mjm.njnt):
    k, sp = p.get("jnt_stiffness", w, j), p.get("jnt_stiffnesspoly", w, j)
    qa, jt = int(mjm.jnt_qposadr[j]), int(mjm.jnt_type[j])
    q = lambda i: p.get("qpos", w, qa + i)
    qs = lambda i: p.get("qpos_spring", w, qa + i)
    if jt in (sl.JNT_SLIDE, sl.JNT_HINGE):
      e = arith("+", e, poly_pot(k, sp, arith("-", q(0), qs(0))))
    else:
      terms = []
      if jt == sl.JNT_FREE:
        d0 = [arith("-", q(i), qs(i)) for i in range(3)]
        terms.append(sqr(o.dot(d0, d0)))
        qq, qr = [q(3 + i) for i in range(4)], [qs(3 + i) for i in range(4)]
      else:
        qq, qr = [q(i) for i in range(4)], [qs(i) for i in range(4)]
      d1 = quat_sub(qq, qr)
      terms.append(sqr(o.dot(d1, d1)))
      for t in terms:
        e = arith("+", e, o.a("*", arith("*", k, 0.5), t))
  tn = 0.0
  for t in range(mjm.ntendon):
    k, sp, ls = p.get("tendon_stiffness", w, t), p.get("tendon_stiffnesspoly", w, t), p.get("tendon_lengthspring", w, t)
    L = p.get("ten_length", w, t)
    x = ite(cmp(">", L, ls[1]), arith("-", L, ls[1]), ite(cmp("<", L, ls[0]), arith("-", L, ls[0]), 0.0))
    tn = arith("+", tn, poly_pot(k, sp, x))
  return {"_energy_pos_gravity": g, "_energy_pos_passive_joint": e, "_energy_pos_passive_tendon": tn}


def ref_energy_pos(mjm, p, w, grav, quat_sub=None):
  parts = ref_energy_parts(mjm, p, w, grav, quat_sub)
  return arith("+", arith("+", parts["_energy_pos_gravity"], parts["_energy_pos_passive_joint"]), parts["_energy_pos_passive_tendon"])


def staged_energy_run(ctx, m2, d2, arrs, interp_kw=None, interp_cls=None):
  """run the REAL energy_pos; before every launch the energy cell is snapshotted and replaced by a fresh variable, so each
  kernel's contribution is decided separately (stage k: energy after == energy before + reference term k)."""
  from mujoco_warp._src import sensor

  cell = arrs["energy"].ref.cell
  stages = []  # (kernel name, fresh 'before' values per world)

  def on_launch(hr, kernel, dim, args):
    if stages:
      stages[-1]["after"] = [cell.d[0][w] for w in range(cell.shape[0])]
    fresh = [z3.Real(f"E!{len(stages)}!{w}") for w in range(cell.shape[0])]
    for w in range(cell.shape[0]):
      cell.d[0][w] = fresh[w]
    stages.append({"kernel": kernel.key.split(".")[-1], "before": fresh})

  with sl.hostrun(interp_cls or sl.UInterp, mode="exec", on_launch=on_launch, interp_kw=interp_kw or {}) as hr:
    sensor.energy_pos(m2, d2)
  stages[-1]["after"] = [cell.d[0][w] for w in range(cell.shape[0])]
  for e in hr.events:
    if e.kind == "launch":
      ctx.encode(e.kernel)
  return hr, stages


def prove_energy_stages(ctx, hr, stages, parts_of, expected, replay_of, nlsat=False, uf=False):
  names = [st["kernel"] for st in stages]
  if names != expected:
    ctx.error(f"energy_pos launch sequence {names} differs from the expected {expected} (MuJoCo: zero, gravity, joint springs, tendon springs)")
    return
  goals = []
  for w in range(2):
    parts = parts_of(w)
    for st in stages:
      k = st["kernel"]
      want = 0.0 if k == "_energy_pos_zero" else arith("+", st["before"][w], parts[k])
      goals.append((w, k, z3.simplify(core.to_z3(arith("-", st["after"][w], want), "real"), som=True) == 0))
  bg = [core.zbool(a) for a in hr.assumes]
  if uf:
    bg += sl.comm_axioms(bg + [g for _, _, g in goals])
  if nlsat:
    # uninterpreted applications -> fresh constants (sound for `unsat`), then the pure nlsat procedure
    allx = sl.abstract_ufs(bg + [g for _, _, g in goals])
    bg, goals = allx[: len(bg)], [(w, k, g) for (w, k, _), g in zip(goals, allx[len(bg) :])]
  sess = sl.oneshot(ctx, bg, tactic="qfnra-nlsat" if nlsat else None)
  ctx.reach(sess, "twin:state", True)
  for w, k, g in goals:
    ctx.prove(sess, f"potential[{w}]/{k}", g, replay=replay_of(w), desc=f"energy_pos: contribution of {k} to the potential energy of world {w} differs from mj_energyPos")


def validate_energy(ctx, seed):
  import mujoco

  rng = np.random.default_rng(seed)
  for xml in (ENERGY_XML, ENERGY_BALL_XML):
    for trial in range(3):
      mjm = mujoco.MjModel.from_xml_string(xml)
      if xml is ENERGY_XML:
        mjm.jnt_stiffnesspoly[:] = rng.uniform(-1, 1, mjm.jnt_stiffnesspoly.shape)
        mjm.tendon_stiffnesspoly[:] = rng.uniform(-1, 1, mjm.tendon_stiffnesspoly.shape)
        mjm.jnt_stiffness[:] = rng.uniform(0, 2, mjm.njnt)
      mjd = mujoco.MjData(mjm)
      mjd.qpos[:] = rng.uniform(-1, 1, mjm.nq)
      mujoco.mj_forward(mjm, mjd)
      src = {n: np.asarray(getattr(mjm, n))[None] for n in E_FLOATS}
      src.update({"qpos": mjd.qpos[None], "xipos": mjd.xipos[None], "ten_length": mjd.ten_length[None]})

      def qsub(qa, qb):
        r = np.zeros(3)
        qa = np.array(qa) / np.linalg.norm(qa)
        mujoco.mju_subQuat(r, qa, np.array(qb))
        return [float(x) for x in r]

      e = ref_energy_pos(mjm, sl.P(src, mjm), 0, [float(x) for x in mjm.opt.gravity], qsub)
      if abs(e - mjd.energy[0]) > 1e-8 * max(1, abs(e)):
        ctx.error(f"reference potential energy disagrees with mujoco: {e} vs {mjd.energy[0]}")
        return False
  return True


def energy_replay(ctx, xml, symM, symD, w, symG, exact=True):
  def _rp(model):
    import mujoco

    import mujoco_warp as mjw
    from mujoco_warp._src import sensor

    mjm = mujoco.MjModel.from_xml_string(xml)
    m = mjw.put_model(mjm)
    d = mjw.make_data(mjm, nworld=2)
    rng = np.random.default_rng(3)
    inputs = {}
    for n, sa in list(symM.items()) + list(symD.items()):
      a = sl.model_array(model, sa, clip=50.0)
      if not exact:
        a = rng.uniform(0.2, 1.0, a.shape)
      inputs[n] = a
    for n, sa in symM.items():
      setattr(m, n, wp.array(inputs[n].astype(np.float32), dtype=getattr(m, n).dtype))
      getattr(mjm, n)[:] = inputs[n][w % inputs[n].shape[0]].reshape(getattr(mjm, n).shape)
    for n in symD:
      getattr(d, n).assign(inputs[n].astype(np.float32))
    g = sl.model_array(model, symG["gravity"], clip=50.0)
    m.opt.gravity = wp.array(g.astype(np.float32), dtype=wp.vec3)
    mjm.opt.gravity[:] = g[w % g.shape[0]]
    sensor.energy_pos(m, d)
    got = float(d.energy.numpy()[w][0])
    mjd = mujoco.MjData(mjm)
    mjd.qpos[:] = inputs["qpos"][w]
    mujoco.mj_kinematics(mjm, mjd)
    mjd.xipos[:] = inputs["xipos"][w]
    if mjm.ntendon:
      mjd.ten_length[:] = inputs["ten_length"][w]
    mujoco.mj_energyPos(mjm, mjd)
    want = float(mjd.energy[0])
    text = f"potential energy world {w}: mujoco_warp {got} vs mujoco {want}"
    if abs(got - want) > 1e-3 * max(1.0, abs(want)):
      return True, sl.save_replay(PID, f"energy_pos.{w}", {"property": PID, "xml": xml, "inputs": inputs, "result": text})
    return False, text

  return _rp


def unit_energy(ctx):
  import dataclasses

  import mujoco

  import mujoco_warp as mjw
  from mujoco_warp._src import sensor

  if not validate_energy(ctx, ctx.seed):
    return
  mjm = mujoco.MjModel.from_xml_string(ENERGY_XML)
  m = mjw.put_model(mjm)
  d = mjw.make_data(mjm, nworld=2)
  ctx.encode(sensor.energy_pos)
  ctx.bound(nworld=2, nbody=mjm.nbody, njnt=mjm.njnt, ntendon=mjm.ntendon, note="hinge / slide springs with polynomial stiffness, tendon springs with dead band, gravity; exact reals")
  ctx.assume("gravity, masses, stiffness (linear and polynomial), spring references, tendon spring ranges, qpos, xipos, tendon lengths symbolic", "gravity and spring flags enabled")
  m2 = sl.sym_fields(m, "m.", E_FLOATS, batch=2)
  opt2 = sl.sym_fields(m.opt, "m.opt.", ["gravity"])
  m2 = dataclasses.replace(m2, opt=opt2)
  d2 = host.shim_dataclass(d, "d.")
  arrs = host.arrays_of(d2)
  symM = {n: getattr(m2, n) for n in E_FLOATS}
  symD = {n: arrs[n] for n in ("qpos", "xipos", "ten_length")}
  symG = {"gravity": opt2.gravity}
  kin0 = [sl.cell_vals(arrs["energy"], (w,), post=False)[1] for w in range(2)]
  hr, stages = staged_energy_run(ctx, m2, d2, arrs)
  p = sl.P({**symM, **symD, "gravity": opt2.gravity}, mjm)
  prove_energy_stages(ctx, hr, stages, lambda w: ref_energy_parts(mjm, p, w, p.get("gravity", w)), ["_energy_pos_zero", "_energy_pos_gravity", "_energy_pos_passive_joint", "_energy_pos_passive_tendon"], lambda w: energy_replay(ctx, ENERGY_XML, symM, symD, w, symG))
  sess = sl.oneshot(ctx, [core.zbool(a) for a in hr.assumes])
  for w in range(2):
    ctx.prove(sess, f"kinetic-untouched[{w}]", cmp("==", sl.cell_vals(arrs["energy"], (w,))[1], kin0[w]), replay=lambda mdl: (False, "not replayed"), desc="energy_pos overwrites the kinetic energy slot")


def unit_energy_ball(ctx):
  """free / ball joint springs: 1/2 k |quat_sub(normalize(q), q_spring)|^2 (+ translation for free); quat_sub shared uninterpreted"""
  import dataclasses

  import mujoco

  import mujoco_warp as mjw
  from mujoco_warp._src import math as mm
  from mujoco_warp._src import sensor

  mjm = mujoco.MjModel.from_xml_string(ENERGY_BALL_XML)
  m = mjw.put_model(mjm)
  d = mjw.make_data(mjm, nworld=2)
  ctx.encode(sensor.energy_pos)
  ctx.bound(nworld=2, note="free + ball joint springs, linear stiffness (polynomial coefficients 0)")
  ctx.assume("math.quat_sub, wp.normalize (of quaternions), float products and sqrt are shared uninterpreted functions; the spring energy is compared as 1/2 k (sqrt(d.d))^2", "polynomial stiffness coefficients are 0 for free / ball joints in this unit")
  names = ["body_mass", "jnt_stiffness", "qpos_spring"]
  m2 = sl.sym_fields(m, "m.", names, batch=2)
  opt2 = sl.sym_fields(m.opt, "m.opt.", ["gravity"])
  m2 = dataclasses.replace(m2, opt=opt2)
  d2 = host.shim_dataclass(d, "d.")
  arrs = host.arrays_of(d2)
  R = z3.RealSort()

  def nrm(q):
    return [z3.Function(f"normalize4#{k}", R, R, R, R, R)(*[core.to_z3(x, "real") for x in q]) for k in range(4)]

  def qsub_uf(qa, qb):
    zs = [core.to_z3(x, "real") for x in list(qa) + list(qb)]
    return [z3.Function(f"quat_sub#{k}", *([R] * 8), R)(*zs) for k in range(3)]

  class IP(sl.UInterp):
    def builtin(self, fr, key, args, e):
      if key == "normalize" and isinstance(args[0], Vec) and len(args[0].c) == 4:
        return Vec(nrm(args[0].c), (4,), "quat")
      return super().builtin(fr, key, args, e)

  summ = {mm.quat_sub.key: lambda it, fr, args: Vec(qsub_uf(list(args[0].c), list(args[1].c)), (3,), "f")}
  hr, stages = staged_energy_run(ctx, m2, d2, arrs, interp_kw={"summaries": summ, "float_uf": True}, interp_cls=IP)
  symM = {n: getattr(m2, n) for n in names}
  symD = {n: arrs[n] for n in ("qpos", "xipos")}
  src = {**symM, **symD, "gravity": opt2.gravity, "jnt_stiffnesspoly": np.zeros((1, mjm.njnt, 2)), "tendon_stiffness": np.zeros((1, 0))}
  p = sl.P(src, mjm)
  fsq = z3.Function("fsqrt", R, R)
  sqr = lambda t: (lambda r: sl.UFO.a("*", r, r))(fsq(core.to_z3(t, "real")))  # (sqrt(t))^2 with products / sqrt uninterpreted
  prove_energy_stages(ctx, hr, stages, lambda w: ref_energy_parts(mjm, p, w, p.get("gravity", w), lambda qa, qb: qsub_uf(nrm(qa), qb), o=sl.UFO, sqr=sqr), ["_energy_pos_zero", "_energy_pos_gravity", "_energy_pos_passive_joint"], lambda w: (lambda mdl: (False, "structure-only query (quat_sub uninterpreted)")), uf=True)


def main(tier, seed, only=None):
  units = [("write", unit_write), ("pos/BALLQUAT", unit_ballquat)]
  units += [unit_sensor("pos", t) for t in POS_TYPES]
  units += [unit_sensor("vel", t) for t in VEL_TYPES]
  units += [unit_sensor("acc", t) for t in ACC_TYPES]
  units += [unit_limit(w) for w in ("pos", "vel", "frc")]
  units += [("tendonactfrc", unit_tendonactfrc), ("energy/pos", unit_energy), ("energy/pos-ball-free", unit_energy_ball)]
  if only:
    units = [u for u in units if any(o in u[0] for o in only)]
  return report.run_check(PID, units, tier, seed)
