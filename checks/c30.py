"""C30 Delayed controls and sensors read the right past sample.

 refmodel      numeric validation of the reference models (hist_c30) against the mujoco library (harness side condition)
 find/read/insert  inductive step (F6) on the REAL wp.funcs of history.py for n = 1..3 (thorough 4) samples: buffer contents,
               cursor, world, buffer offset, query time, interpolation order symbolic; representation invariant
               "cursor in [0,n), sample times strictly increasing in logical order":
                 _history_find_index   = bracketing index
                 _history_read_scalar/_vector = ZOH / linear / cubic interpolant of the bracketing samples (clamped at the ends)
                 _history_insert_scalar/_vector = sorted insertion keeping the n newest samples; invariant preserved; cursor
                                         advances exactly on append; user slot and every cell outside the buffer untouched
 kernels       every kernel of history.py passes the right buffer / time / interpolation to those funcs (funcs replaced by
               uninterpreted contracts), public read_ctrl / read_sensor equal the internal delayed read
 init          bounded model checking from the concrete buffers produced by the real make_data / put_data / reset_data, k <= n+2
               symbolic ctrl / sensor samples through the real host functions (H mode), against the ideal delay line
               initialised as MuJoCo does
"""

import json
import os

import numpy as np
import warp as wp
import z3

from checks import hist_c30 as R
from checks import lib
from wsym import core, host, kh, replay, report
from wsym.core import And, Implies, Not, Or, arith, cmp, is_sym, ite

PID = "C30"
EPS = R.EPS

XML = """<mujoco><option timestep="{dt}"/><worldbody>
<body pos="0 0 1"><joint name="j" damping="0.1"/><geom size=".1"/></body></worldbody>
<actuator><motor joint="j" delay="{adelay}" nsample="{an}" interp="{ainterp}"/></actuator>
<sensor><jointpos joint="j" delay="{sdelay}" nsample="{sn}" interp="{sinterp}" {sint}/>
<framepos objtype="body" objname="world" delay="{sdelay}" nsample="{sn}" interp="{sinterp}"/></sensor></mujoco>"""
INTERP = ["zoh", "linear", "cubic"]


def xml_for(an=3, sn=3, ainterp=0, sinterp=0, adelay=0.004, sdelay=0.004, interval=0.0, dt=0.002):
  return XML.format(dt=dt, an=an, sn=sn, ainterp=INTERP[ainterp], sinterp=INTERP[sinterp], adelay=adelay, sdelay=sdelay, sint=(f'interval="{interval}"' if interval else ""))


def approx(a, b, tol=1e-9):
  return abs(float(a) - float(b)) <= tol * (1.0 + max(abs(float(a)), abs(float(b))))


# ------------------------------------------------------------------------------------------------ reference validation


def logical_np(buf, n, dim):
  """numpy buffer [user, cursor, times n, values n*dim] -> (user, cursor, S)"""
  c = int(buf[1])
  S = []
  for i in range(n):
    p = (c + 1 + i) % n
    S.append((float(buf[2 + p]), [float(x) for x in buf[2 + n + p * dim : 2 + n + (p + 1) * dim]]))
  return float(buf[0]), c, S


def random_buffer(rng, n, dim):
  c = int(rng.integers(0, n))
  times = np.cumsum(rng.uniform(0.05, 1.0, size=n)) + rng.uniform(-2, 2)
  vals = rng.uniform(-3, 3, size=(n, dim))
  buf = np.zeros(2 + n + n * dim)
  buf[0] = rng.uniform(-1, 1)
  buf[1] = c
  for i in range(n):
    p = (c + 1 + i) % n
    buf[2 + p] = times[i]
    buf[2 + n + p * dim : 2 + n + (p + 1) * dim] = vals[i]
  return buf


def unit_refmodel(ctx):
  import mujoco

  rng = np.random.default_rng(1234 + int(ctx.seed))
  nbad = 0
  ncmp = 0
  for n in (1, 2, 3, 4, 5):
    mjm = mujoco.MjModel.from_xml_string(xml_for(an=n, sn=n))
    d = mujoco.MjData(mjm)
    aadr, sadr = int(mjm.actuator_historyadr[0]), int(mjm.sensor_historyadr[1])
    delay = float(mjm.actuator_delay[0])
    for trial in range(30):
      ba, bs = random_buffer(rng, n, 1), random_buffer(rng, n, 3)
      _, _, Sa = logical_np(ba, n, 1)
      _, _, Ss = logical_np(bs, n, 3)
      qs = list(rng.uniform(Sa[0][0] - 0.5, Sa[-1][0] + 0.5, size=6)) + [s[0] for s in Sa]
      for t in qs:
        for ip in (0, 1, 2):
          d.history[aadr : aadr + len(ba)] = ba
          got = mujoco.mj_readCtrl(mjm, d, 0, t + delay, ip)
          want = R.ref_read(Sa, (t + delay) - delay, ip, 0.0)[0]
          ncmp += 1
          if not approx(got, want, 1e-7):
            nbad += 1
            ctx.error(f"reference ref_read (scalar) disagrees with mujoco.mj_readCtrl: n={n} t={t} interp={ip} S={Sa}: mujoco {got} reference {want}")
      qs = list(rng.uniform(Ss[0][0] - 0.5, Ss[-1][0] + 0.5, size=6)) + [s[0] for s in Ss]
      for t in qs:
        for ip in (0, 1, 2):
          d.history[sadr : sadr + len(bs)] = bs
          res = np.zeros(3)
          r = mujoco.mj_readSensor(mjm, d, 1, t + delay, res, ip)
          got = res if r is None else np.asarray(r).reshape(-1)
          want = R.ref_read(Ss, (t + delay) - delay, ip, 0.0)
          ncmp += 1
          if not all(approx(g, w, 1e-7) for g, w in zip(got, want)):
            nbad += 1
            ctx.error(f"reference ref_read (vector) disagrees with mujoco.mj_readSensor: n={n} t={t} interp={ip}: mujoco {got} reference {want}")
      # insertion: mj_step records (d.time, d.ctrl) in the actuator buffer
      for t in list(rng.uniform(Sa[0][0] - 0.5, Sa[-1][0] + 0.5, size=4)) + [s[0] for s in Sa]:
        mujoco.mj_resetData(mjm, d)
        d.history[aadr : aadr + len(ba)] = ba
        d.time = t
        v = float(rng.uniform(-5, 5))
        d.ctrl[0] = v
        mujoco.mj_step(mjm, d)
        u1, c1, S1 = logical_np(d.history[aadr : aadr + len(ba)], n, 1)
        S2, app = R.ref_insert(Sa, t, [v], 0.0)
        c2 = (int(ba[1]) + 1) % n if app else int(ba[1])
        ncmp += 1
        ok = c1 == c2 and u1 == ba[0] and all(approx(a[0], b[0]) and approx(a[1][0], b[1][0]) for a, b in zip(S1, S2))
        if not ok:
          nbad += 1
          ctx.error(f"reference ref_insert disagrees with mujoco.mj_step: n={n} t={t} S={Sa}: mujoco cursor {c1} {S1} reference cursor {c2} {S2}")
      if nbad > 5:
        return
  # ideal delay line vs mj_step trajectories (ctrl through a gear-1 motor: actuator_force = delayed ctrl; jointpos sensor
  # with qpos overwritten before every step: fresh sensor value = the overwritten qpos)
  for cfg in CONFIGS.values():
    nbad += validate_line(ctx, cfg, rng)
    ncmp += 1
  ctx.notes.append(f"{ncmp} numeric comparisons of the reference models with mujoco {mujoco.__version__}: {nbad} mismatches")
  sess = ctx.session([])
  ctx.reach(sess, "twin:reference-validated", z3.BoolVal(nbad == 0))


CONFIGS = {
  "zoh-2dt": dict(an=3, sn=3, ainterp=0, sinterp=0, adelay=0.004, sdelay=0.004, interval=0.0),
  "lin-1.5dt": dict(an=3, sn=2, ainterp=1, sinterp=1, adelay=0.003, sdelay=0.003, interval=0.0),
  "cubic-1.5dt": dict(an=4, sn=4, ainterp=2, sinterp=2, adelay=0.003, sdelay=0.005, interval=0.0),
  "interval": dict(an=2, sn=2, ainterp=0, sinterp=0, adelay=0.002, sdelay=0.0, interval=0.004),
  "interval+delay": dict(an=1, sn=2, ainterp=0, sinterp=1, adelay=0.002, sdelay=0.003, interval=0.006),
}


def lines_for(cfg, eps, dt=0.002):
  a = R.Line(cfg["an"], 1, cfg["adelay"], cfg["ainterp"], 0.0, dt, eps)
  s = R.Line(cfg["sn"], 1, cfg["sdelay"], cfg["sinterp"], cfg["interval"], dt, eps, is_sensor=True)
  return a, s


def mujoco_trajectory(cfg, ctrls, qs):
  """-> (delayed ctrl per step, reported jointpos per step, final history) from mujoco.mj_step"""
  import mujoco

  mjm = mujoco.MjModel.from_xml_string(xml_for(**cfg))
  d = mujoco.MjData(mjm)
  out_c, out_s = [], []
  for u, q in zip(ctrls, qs):
    d.qpos[0] = q
    d.ctrl[0] = u
    mujoco.mj_step(mjm, d)
    out_c.append(float(d.actuator_force[0]))
    out_s.append(float(d.sensordata[0]))
  return out_c, out_s, d.history.copy()


def validate_line(ctx, cfg, rng, steps=9):
  ctrls = [float(x) for x in rng.uniform(-2, 2, size=steps)]
  qs = [float(x) for x in rng.uniform(-1, 1, size=steps)]
  mc, ms, _ = mujoco_trajectory(cfg, ctrls, qs)
  a, s = lines_for(cfg, 1e-9)
  bad = 0
  for k in range(steps):
    t = k * 0.002
    rs = s.sensor(t, [qs[k]])[0]
    rc = a.read_ctrl(t, ctrls[k])
    a.insert(t, [ctrls[k]])
    if not approx(rc, mc[k], 1e-7) or not approx(rs, ms[k], 1e-7):
      bad += 1
      ctx.error(f"ideal delay line disagrees with mujoco.mj_step at step {k} cfg {cfg}: ctrl {rc} vs mujoco {mc[k]}; sensor {rs} vs mujoco {ms[k]}")
      break
  return bad


# ------------------------------------------------------------------------------------------------ F6 on the wp.funcs


def sym_buffer(cell, w, off, n, dim, c):
  """abstract logical sequence of the buffer stored in `cell` (array mode) at [w, off...] with cursor c"""
  snap = cell.a0

  def g(j, snap=snap):
    return cell.get((w, j), 0, snap=snap)

  S = []
  for i in range(n):
    S.append((g(off + 2 + _phys(c, n, i)), [g(off + 2 + n + _phys(c, n, i) * dim + d) for d in range(dim)]))
  return S


def _phys(c, n, i):
  """physical slot of logical index i (0 = oldest): the slot after the cursor is the oldest"""
  return arith("%", arith("+", c, 1 + i), n)


def post_buffer(cell, w, off, n, dim, c):
  def g(j):
    return cell.get((w, j), 0)

  return [(g(off + 2 + _phys(c, n, i)), [g(off + 2 + n + _phys(c, n, i) * dim + d) for d in range(dim)]) for i in range(n)]


def cursor_of(cell, w, off):
  """the cursor as the implementation reads it: int(history[w, off+1]) (an integer-valued, non-negative float cell)"""
  return z3.ToInt(cell.get((w, off + 1), 0, snap=cell.a0))


def invariant(cell, w, off, n, c, S, mingap=0.0):
  cur = cell.get((w, off + 1), 0, snap=cell.a0)
  inv = [cur == z3.ToReal(c), c >= 0, c < n, w >= 0, off >= 0]
  for i in range(n - 1):
    inv.append(S[i + 1][0] - S[i][0] > mingap)
  return inv


def seq_eq(A, B):
  return And(*[And(cmp("==", a[0], b[0]), *[cmp("==", x, y) for x, y in zip(a[1], b[1])]) for a, b in zip(A, B)])


def access_region(it, cell, w, off, size):
  """every access of the run to `cell` lies in row w, columns [off, off+size)"""
  conds = []
  for a in it.accesses:
    if a.cell is cell:
      conds.append(Implies(a.guard, And(cmp("==", a.idx[0], w), cmp(">=", a.idx[1], off), cmp("<", a.idx[1], arith("+", off, size)))))
  return And(*conds)


def _func_setup(fn, n, extra_scalars):
  w, off = z3.Int("w"), z3.Int("off")
  sc = {"worldid": w, "buf_offset": off, "n": n}
  sc.update(extra_scalars)
  args = kh.make_args(fn, scalars=sc, mode="array")
  replay.snapshot_initial(args)
  it, ret = kh.run(fn, args, unroll=max(4, n + 1))
  return w, off, args, it, ret


def own_bounds(it):
  out = [core.zbool(a) for a in it.assumes]
  for o in it.obl:
    if o.kind == "unwind":
      out.append(core.zbool(Implies(o.guard, o.cond)))
  return out


def nice_replay(sess, goal, guard, nice, rp):
  """replay wrapper: before replaying, look for a counterexample of the same query that also satisfies the `nice`
  constraints (well-separated sample times, moderate magnitudes, distinct values), so that the float32 re-execution on the
  real code is meaningful; falls back to the solver's own model when no such counterexample exists"""
  if rp is None or not nice:
    return rp

  alts = nice if nice and isinstance(nice[0], list) else [nice]

  def _rp(model):
    old = sess.s.params if False else None
    for cand in alts:
      try:
        sess.s.set("timeout", 10000)
        r, _, m = sess._check([guard, Not(goal) if is_sym(goal) else (not goal)] + [core.zbool(x) for x in cand])
        if r == "sat":
          model = m
          break
      except Exception:
        pass
      finally:
        sess.s.set("timeout", sess.timeout_ms)
    return rp(model)

  return _rp


def P(ctx, sess, name, goal, guard=True, names=None, replay=None, desc=None, nice=None):
  return ctx.prove(sess, name, goal, guard, names=names, replay=nice_replay(sess, goal, guard, nice, replay), desc=desc)


def nice_buffer(S, t=None, vals=()):
  """alternatives tried in order: (1) concrete sample times i/2 and a query time on an 1/8 grid (the query becomes linear),
  (2) times in [-8, 8] separated by >= 1/4, values separated, |value| <= 16"""
  gen = _nice_buffer(S, t, vals)
  conc = [tau == 0.5 * i for i, (tau, _) in enumerate(S)]
  if t is not None:
    conc.append(z3.Or(*[t == -0.4375 + 0.125 * k for k in range(4 * len(S) + 4)]))
  return [gen + conc, gen]


def _nice_buffer(S, t=None, vals=()):
  out = []
  for i, (tau, xs) in enumerate(S):
    out += [tau >= -8, tau <= 8]
    if i:
      out.append(tau - S[i - 1][0] >= 0.25)
    for d, x in enumerate(xs):
      out += [x >= -16, x <= 16]
      if i:
        out.append(z3.Or(x - S[i - 1][1][d] >= 1, S[i - 1][1][d] - x >= 1))
  if t is not None:
    out += [t >= -9, t <= 9]
  for v in vals:
    out += [v >= 20, v <= 30]
  return out


def prove_split(ctx, sess, bg, name, goal, guard, names, replay, desc, split=True, nice=None):
  """ctx.prove, optionally after case-splitting the query over its if-then-else subterms (lift_c30.leaves): every feasible
  path becomes one ite-free query `name#k`; nonlinear (cubic) identities are only decidable quickly without Boolean structure"""
  if not split or not is_sym(goal):
    return P(ctx, sess, name, goal, guard, names=names, replay=replay, desc=desc, nice=nice)
  from checks import lift_c30 as L

  lv = L.leaves(z3.Not(core.zbool(goal)), [core.zbool(b) for b in bg] + [core.zbool(guard)])
  for k, (path, f) in enumerate(lv):
    P(ctx, sess, f"{name}#{k}", z3.Not(f), And(guard, *path), names=names, replay=replay, desc=desc, nice=nice)


def prove_unwinding(ctx, inv, it, names, rp):
  """loops (binary search, shift loop) finish within the unrolling bound -- proved WITHOUT the unwinding assumptions"""
  sess0 = ctx.session(list(inv) + [core.zbool(a) for a in it.assumes])
  obl = [o for o in it.obl if o.kind == "unwind"]
  ctx.prove(sess0, "unwinding", And(*[Implies(o.guard, o.cond) for o in obl]) if obl else True, names=names, replay=rp, desc="a loop of the history func does not terminate within the unrolling bound (n+1 iterations)")


def unit_find(n):
  def run(ctx):
    from mujoco_warp._src import history as H

    ctx.encode(H._history_find_index, H._history_physical_index)
    ctx.bound(nsample=n, note="sample count concrete; cursor, world, offset, times, query time symbolic")
    ctx.assume("cursor in [0,n), sample times strictly increasing in logical order")
    t, c = z3.Real("t"), z3.Int("cursor")
    w, off, args, it, ret = _func_setup(H._history_find_index, n, {"t": t, "cursor": c})
    cell = args["buf"].cell
    S = sym_buffer(cell, w, off, n, 1, c)
    inv = [c >= 0, c < n, w >= 0, off >= 0] + [S[i + 1][0] > S[i][0] for i in range(n - 1)]
    sess = ctx.session(inv + own_bounds(it))
    ctx.reach(sess, "twin:invariant", True)
    names = {"cursor": c, "t": t, "ret": ret, **{f"tau{i}": S[i][0] for i in range(n)}}
    rp = func_replay(ctx, "find", n, 1, cell, w, off, {"t": t, "cursor": c}, ret)
    nice = nice_buffer(S, t)
    P(ctx, sess, "unwinding", And(*[Implies(o.guard, o.cond) for o in it.obl if o.kind == "unwind"]), names=names, replay=rp, nice=nice, desc="binary search does not terminate within the bound")
    for o in it.obl:
      if o.kind == "unwind":
        pass
    sess2 = ctx.session(inv + own_bounds(it))
    P(ctx, sess2, "bracketing-index", cmp("==", ret, R.ref_find(S, t)), names=names, replay=rp, nice=nice, desc=f"_history_find_index (n={n}) does not return the index i with times[i-1] < t <= times[i] (0 / n outside the range)")
    P(ctx, sess2, "reads-own-buffer-only", access_region(it, cell, w, off, 2 + 2 * n), names=names, replay=rp, nice=nice, desc="_history_find_index reads outside its buffer")

  return (f"find/n{n}", run)


def unit_read(n, dim):
  """dim = 0: _history_read_scalar; dim >= 1: _history_read_vector"""

  def run(ctx):
    from mujoco_warp._src import history as H

    fn = H._history_read_scalar if dim == 0 else H._history_read_vector
    ctx.encode(fn, H._history_find_index, H._history_physical_index)
    ctx.bound(nsample=n, dim=max(dim, 1), note="sample count / vector dim concrete; cursor, world, offset, samples, query time, interp symbolic")
    ctx.assume("cursor in [0,n), sample times strictly increasing in logical order", "interp in {0,1,2}", f"a query within {EPS} below a stored sample time (resp. within {EPS} of the oldest/newest) returns that sample (float32 time tolerance; MuJoCo compares exactly)")
    t, interp = z3.Real("t"), z3.Int("interp")
    sc = {"t": t, "interp": interp}
    dd = max(dim, 1)
    if dim:
      adr = z3.Int("adr")
      sc.update({"dim": dim, "adr": adr})
    w, off, args, it, ret = _func_setup(fn, n, sc)
    cell = args["buf"].cell
    c = cursor_of(cell, w, off)
    S = sym_buffer(cell, w, off, n, dd, c)
    inv = invariant(cell, w, off, n, c, S) + [interp >= 0, interp <= 2]
    if dim:
      inv.append(adr >= 0)
    bg = inv + own_bounds(it)
    want = R.ref_read(S, t, interp, EPS)
    names = {"cursor": c, "t": t, "interp": interp, **{f"tau{i}": S[i][0] for i in range(n)}}
    if dim == 0:
      got = [ret]
    else:
      oc = args["sensordata_out"].cell
      got = [oc.get((w, adr + d), 0) for d in range(dim)]
    rp = func_replay(ctx, "read", n, dim, cell, w, off, sc, got)
    nice = nice_buffer(S, t)
    sess = ctx.session(bg)
    ctx.reach(sess, "twin:invariant", True)
    prove_unwinding(ctx, inv, it, names, rp)
    for ip in (0, 1, 2):
      ctx.reach(sess, f"twin:interior-query/interp{ip}", And(interp == ip, *( [t > S[0][0] + 1, t < S[n - 1][0] - 1] if n > 1 else [])))
    # split per interpolation order and bracket (keeps each nonlinear query small)
    for ip in (0, 1, 2):
      for seg in range(n + 1):
        if seg == 0:
          g = t <= S[0][0]
        elif seg == n:
          g = t > S[n - 1][0]
        else:
          g = z3.And(S[seg - 1][0] < t, t <= S[seg][0])
        for d in range(dd):
          prove_split(ctx, sess, bg, f"interpolant/interp{ip}/bracket{seg}/comp{d}", cmp("==", got[d], want[d]), And(interp == ip, g), names=names, replay=rp, nice=nice, desc=f"{fn.key} (n={n}): value read at time t is not the {INTERP[ip]} interpolant of the bracketing samples {seg - 1},{seg}", split=(ip >= 1 and 0 < seg < n))
    P(ctx, sess, "reads-own-buffer-only", access_region(it, cell, w, off, 2 + n + n * dd), names=names, replay=rp, nice=nice, desc=f"{fn.key} reads outside its buffer")
    if dim:
      P(ctx, sess, "writes-own-sensor-slots-only", access_region(it, oc, w, adr, dim), names=names, replay=rp, nice=nice, desc=f"{fn.key} writes outside sensordata[adr:adr+dim]")
      P(ctx, sess, "returns-1", cmp("==", ret, 1), names=names, replay=rp, nice=nice, desc="read_vector does not report success")

  return (f"read_{'scalar' if dim == 0 else f'vector/dim{dim}'}/n{n}", run)


def unit_insert(n, dim):
  """dim = 0: _history_insert_scalar; dim >= 1: _history_insert_vector"""

  def run(ctx):
    from mujoco_warp._src import history as H

    fn = H._history_insert_scalar if dim == 0 else H._history_insert_vector
    ctx.encode(fn, H._history_find_index, H._history_physical_index)
    ctx.bound(nsample=n, dim=max(dim, 1))
    ctx.assume("cursor in [0,n), sample times strictly increasing in logical order", f"an insertion within {EPS} below a stored sample time replaces that sample (float32 time tolerance; MuJoCo compares exactly)")
    t = z3.Real("t")
    dd = max(dim, 1)
    if dim == 0:
      v = z3.Real("value")
      sc = {"t": t, "value": v}
    else:
      sadr = z3.Int("src_adr")
      sc = {"t": t, "dim": dim, "src_adr": sadr}
    w, off, args, it, ret = _func_setup(fn, n, sc)
    cell = args["buf_out"].cell
    c = cursor_of(cell, w, off)
    S = sym_buffer(cell, w, off, n, dd, c)
    inv = invariant(cell, w, off, n, c, S)
    if dim == 0:
      val = [v]
    else:
      sc_cell = args["src"].cell
      inv.append(sadr >= 0)
      val = [sc_cell.get((w, sadr + d), 0, snap=sc_cell.a0) for d in range(dim)]
    bg = inv + own_bounds(it)
    S2, appended = R.ref_insert(S, t, val, EPS)
    c2 = ite(appended, ite(cmp("==", c, n - 1), 0, c + 1), c)
    Spost = post_buffer(cell, w, off, n, dd, c2)
    names = {"cursor": c, "t": t, **{f"tau{i}": S[i][0] for i in range(n)}}
    rp = func_replay(ctx, "insert", n, dim, cell, w, off, sc, None, val=val)
    nice = nice_buffer(S, t, vals=val)
    sess = ctx.session(bg)
    ctx.reach(sess, "twin:invariant", True)
    prove_unwinding(ctx, inv, it, names, rp)
    ctx.reach(sess, "twin:append", appended)
    if n > 1:
      ctx.reach(sess, "twin:out-of-order", And(t > S[0][0], t < S[1][0]))
    cases = [("append", appended)]
    for i in range(n):
      cases.append((f"at-or-before{i}", (t <= S[0][0]) if i == 0 else z3.And(S[i - 1][0] < t, t <= S[i][0])))
    cur_post = cell.get((w, off + 1), 0)
    for cname, g in cases:
      P(ctx, sess, f"samples/{cname}", seq_eq(Spost, S2), g, names=names, replay=rp, nice=nice, desc=f"{fn.key} (n={n}): after inserting (t, value) the buffer does not hold the n most recent samples in time order (case {cname})")
      P(ctx, sess, f"cursor/{cname}", cmp("==", cur_post, z3.ToReal(c2)), g, names=names, replay=rp, nice=nice, desc=f"{fn.key} (n={n}): cursor after the insertion is not (cursor+1) mod n on append / unchanged otherwise (case {cname})")
    P(ctx, sess, "monotone-insert-keeps-invariant", And(*[S2[i + 1][0] > S2[i][0] for i in range(n - 1)], c2 >= 0, c2 < n), True, names=names, replay=rp, nice=nice, desc="reference insertion does not keep the times strictly increasing")
    P(ctx, sess, "user-slot-kept", cmp("==", cell.get((w, off), 0), cell.get((w, off), 0, snap=cell.a0)), names=names, replay=rp, nice=nice, desc=f"{fn.key} modifies the user slot")
    w2, j2 = z3.Int("w2"), z3.Int("j2")
    outside = z3.Not(z3.And(w2 == w, j2 >= off, j2 < off + 2 + n + n * dd))
    P(ctx, sess, "frame/outside-buffer-unchanged", cmp("==", cell.get((w2, j2), 0), cell.get((w2, j2), 0, snap=cell.a0)), outside, names=dict(names, w2=w2, j2=j2), replay=rp, nice=nice, desc=f"{fn.key} writes outside its own buffer")
    P(ctx, sess, "accesses-own-buffer-only", access_region(it, cell, w, off, 2 + n + n * dd), names=names, replay=rp, nice=nice, desc=f"{fn.key} accesses history outside its buffer")

  return (f"insert_{'scalar' if dim == 0 else f'vector/dim{dim}'}/n{n}", run)


# ------------------------------------------------------------------------------------------------ replay of func-level models

_WRAP = {}


def wrappers():
  """tiny kernels around the REAL wp.funcs (compiled by Warp from the current source tree)"""
  if _WRAP:
    return _WRAP
  from mujoco_warp._src import history as H

  find, rs, rv, ins, inv = H._history_find_index, H._history_read_scalar, H._history_read_vector, H._history_insert_scalar, H._history_insert_vector

  @wp.kernel
  def k_find(buf: wp.array2d[float], w: int, off: int, n: int, cursor: int, t: float, out: wp.array[int]):
    out[0] = find(buf, w, off, n, cursor, t)

  @wp.kernel
  def k_read_scalar(buf: wp.array2d[float], w: int, off: int, n: int, t: float, interp: int, out: wp.array2d[float]):
    out[w, 0] = rs(buf, w, off, n, t, interp)

  @wp.kernel
  def k_read_vector(buf: wp.array2d[float], w: int, off: int, n: int, dim: int, t: float, interp: int, out: wp.array2d[float]):
    rv(0, buf, w, off, n, dim, t, interp, out)

  @wp.kernel
  def k_insert_scalar(buf: wp.array2d[float], w: int, off: int, n: int, t: float, value: float):
    ins(w, off, n, t, value, buf)

  @wp.kernel
  def k_insert_vector(buf: wp.array2d[float], w: int, off: int, n: int, dim: int, t: float, src: wp.array2d[float]):
    inv(w, off, n, dim, t, src, 0, buf)

  _WRAP.update(find=k_find, read_scalar=k_read_scalar, read_vector=k_read_vector, insert_scalar=k_insert_scalar, insert_vector=k_insert_vector)
  return _WRAP


def func_replay(ctx, what, n, dim, cell, w, off, sc, got, val=None):
  """replay: run the REAL func (through a wrapper kernel) on the model's buffer and compare with the reference in floats
  (and, for eps-free situations, with the mujoco library)."""

  def _rp(model):
    mv = lambda x: kh.mval(model, x)
    dd = max(dim, 1)
    size = 2 + n + n * dd
    wv, offv = max(0, min(int(mv(w)), 3)), max(0, min(int(mv(off)), 8))
    # concrete buffer from the model (row wv, columns offv.. of a (wv+1) x (offv+size+2) array)
    buf = np.zeros((wv + 1, offv + size + 2), dtype=np.float32)
    buf[:] = 123.0
    for j in range(size):
      buf[wv, offv + j] = float(mv(cell.get((w, off + j), 0, snap=cell.a0)))
    cv = int(round(float(buf[wv, offv + 1])))
    _, _, S = logical_np(buf[wv, offv : offv + size].astype(np.float64), n, dd)
    tv = float(mv(sc["t"]))
    K = wrappers()
    b = wp.array(buf, dtype=float)
    text = {"what": what, "n": n, "dim": dim, "world": wv, "offset": offv, "buffer": buf[wv, offv : offv + size].tolist(), "t": tv}
    ok = True
    if what == "find":
      out = wp.zeros(1, dtype=int)
      wp.launch(K["find"], dim=1, inputs=[b, wv, offv, n, int(mv(sc["cursor"])), tv], outputs=[out])
      g, e = int(out.numpy()[0]), int(R.ref_find(S, tv))
      ok = g == e
      text.update(got=g, expected=e)
    elif what == "read":
      ip = int(mv(sc["interp"]))
      out = wp.zeros((wv + 1, dd), dtype=float)
      if dim == 0:
        wp.launch(K["read_scalar"], dim=1, inputs=[b, wv, offv, n, tv, ip], outputs=[out])
      else:
        wp.launch(K["read_vector"], dim=1, inputs=[b, wv, offv, n, dim, tv, ip], outputs=[out])
      g = out.numpy()[wv].tolist()
      e = [float(x) for x in R.ref_read(S, tv, ip, EPS)]
      ok = all(lib.approx(x, y, 1e-4, 1e-5) for x, y in zip(g, e))
      text.update(interp=ip, got=g, expected=e)
    else:
      if dim == 0:
        vv = [float(mv(val[0]))]
        wp.launch(K["insert_scalar"], dim=1, inputs=[b, wv, offv, n, tv, vv[0]])
      else:
        vv = [float(mv(x)) for x in val]
        src = wp.array(np.array([vv] * (wv + 1), dtype=np.float32), dtype=float)
        wp.launch(K["insert_vector"], dim=1, inputs=[b, wv, offv, n, dim, tv, src])
      post = b.numpy()
      S2, app = R.ref_insert(S, tv, vv, EPS)
      c2 = (cv + 1) % n if app else cv
      u1, c1, S1 = logical_np(post[wv, offv : offv + size].astype(np.float64), n, dd)
      inside = c1 == c2 and u1 == float(buf[wv, offv]) and all(lib.approx(a[0], b_[0], 1e-5, 1e-6) and all(lib.approx(x, y, 1e-5, 1e-6) for x, y in zip(a[1], b_[1])) for a, b_ in zip(S1, S2))
      mask = np.ones_like(buf, dtype=bool)
      mask[wv, offv : offv + size] = False
      outside = bool(np.all(post[mask] == buf[mask]))
      ok = inside and outside
      text.update(value=vv, got={"cursor": c1, "samples": S1, "outside_unchanged": outside}, expected={"cursor": c2, "samples": S2})
    os.makedirs(os.path.join(report.VERIF, "replays", PID), exist_ok=True)
    path = os.path.join(report.VERIF, "replays", PID, f"{ctx.unit.replace('/', '_')}.json")
    text["how"] = "launch the real history.py wp.func on this buffer (layout [user, cursor, times n, values n*dim]); expected = reference (sorted n-newest samples / interpolant)"
    with open(path, "w") as f:
      json.dump(text, f, indent=1, default=str)
    return (not ok), path

  return _rp


# ------------------------------------------------------------------------------------------------ kernels (funcs as contracts)

RS = z3.Function("history_read_scalar", z3.IntSort(), z3.IntSort(), z3.IntSort(), z3.RealSort(), z3.IntSort(), z3.RealSort())


class Calls:
  """records the calls of summarised wp.funcs: key -> [(guard, args)]"""

  def __init__(self):
    self.rec = {}

  def summary(self, key, ret=None):
    def fn(interp, fr, args):
      self.rec.setdefault(key, []).append((interp.active(fr), list(args)))
      return ret(args) if ret else None

    return fn

  def all(self, key):
    return self.rec.get(key, [])


def _summaries(calls):
  return {
    "_history_read_scalar": calls.summary("read_scalar", lambda a: RS(*[core.to_z3(x, "real" if i == 3 else "int") for i, x in enumerate(a[1:])])),
    "_history_read_vector": calls.summary("read_vector", lambda a: 1),
    "_history_insert_scalar": calls.summary("insert_scalar"),
    "_history_insert_vector": calls.summary("insert_vector"),
  }


def _eq_args(got, want):
  """argument-wise equality; array arguments are compared by identity of the bound cell"""
  out = []
  for g, e in zip(got, want):
    if isinstance(e, core.ArrRef):
      out.append(isinstance(g, core.ArrRef) and g.cell is e.cell and g.prefix == e.prefix)
    else:
      out.append(cmp("==", g, e))
  return And(*out)


def _call_goals(ctx, sess, kt, calls, key, exp_guard, exp_args, names, loc, what, nice=None):
  """exactly the expected call: some call is active iff exp_guard; an active call has the expected arguments; calls exclusive"""
  rec = calls.all(key)
  P(ctx, sess, f"{what}/called-iff", cmp("==", core.zbool(Or(*[g for g, _ in rec])) if rec else z3.BoolVal(False), core.zbool(exp_guard)), names=names, replay=kernel_replay(ctx, kt, loc, what), nice=nice, desc=f"{kt.kernel.key}: the history func {key} is not called exactly when the delay / interval logic requires it")
  for i, (g, a) in enumerate(rec):
    P(ctx, sess, f"{what}/args#{i}", _eq_args(a, exp_args), g, names=names, replay=kernel_replay(ctx, kt, loc, what), nice=nice, desc=f"{kt.kernel.key}: {key} is called with the wrong buffer / offset / sample count / time / interpolation")
    for j in range(i + 1, len(rec)):
      P(ctx, sess, f"{what}/exclusive#{i}-{j}", Not(And(g, rec[j][0])), names=names, replay=kernel_replay(ctx, kt, loc, what), nice=nice, desc=f"{kt.kernel.key}: {key} called twice")


def kernel_replay(ctx, kt, loc, what):
  """replay for kernel-level contract queries: run the REAL kernel (real funcs inside) for the model's thread and compare the
  output cell with the reference evaluated in floats on the model's arrays"""

  def _rp(model):
    path = replay.write_spec(ctx.pid, ctx.unit, what, loc, kt.kernel, kt.args, model, kt.tid, "goal", goal="checks.c30:goal_kernel", env={"what": what})
    return replay.run_spec(path)

  return _rp


def _np_buffer(hist_row, off, n, dim):
  return logical_np(np.asarray(hist_row[off : off + 2 + n + n * dim], dtype=np.float64), n, dim)


def goal_kernel(spec, pre, post):
  """float re-evaluation of the kernel contracts on the real kernel's output (replay side)"""
  what = spec["env"]["what"]
  kname = spec["kernel"].split(":")[1]
  tid = spec["tid"]
  w = tid[0]
  try:
    if kname in ("_read_ctrl_delayed_kernel", "_read_ctrl_kernel"):
      u = tid[1] if kname == "_read_ctrl_delayed_kernel" else int(spec["args"]["uid"]["scalar"])
      hist = pre["actuator_history"][u]
      n, ip = int(hist[0]), int(hist[1])
      delay = float(pre["actuator_delay"][u])
      t = float(pre["time_in"][w])
      if kname == "_read_ctrl_kernel":
        ii = int(spec["args"]["interp"]["scalar"])
        ip = ip if ii < 0 else ii
        got = float(post["result_out"][w])
        direct = n == 0
      else:
        got = float(post["ctrl_out"][w, u])
        direct = n == 0 or delay == 0.0
      if direct:
        want = float(pre["ctrl_in"][w, u])
      else:
        _, _, S = _np_buffer(pre["history_in"][w], int(pre["actuator_historyadr"][u]), n, 1)
        want = float(R.ref_read(S, t - delay, ip, EPS)[0])
      return lib.approx(got, want, 1e-4, 1e-5), f"{kname} thread {tid}: got {got}, reference {want}"
    if kname == "_insert_ctrl_history_kernel":
      u = tid[1]
      n = int(pre["actuator_history"][u][0])
      if n == 0:
        return bool(np.array_equal(pre["history_out"], post["history_out"])), "nsample = 0: history must be unchanged"
      off = int(pre["actuator_historyadr"][u])
      _, c0, S = _np_buffer(pre["history_out"][w], off, n, 1)
      _, c1, S1 = _np_buffer(post["history_out"][w], off, n, 1)
      S2, app = R.ref_insert(S, float(pre["time_in"][w]), [float(pre["ctrl_in"][w, u])], EPS)
      ok = c1 == ((c0 + 1) % n if app else c0) and all(lib.approx(a[0], b[0], 1e-5, 1e-6) and lib.approx(a[1][0], b[1][0], 1e-5, 1e-6) for a, b in zip(S1, S2))
      return ok, f"{kname} thread {tid}: buffer after {S1} cursor {c1}; reference {S2}"
    if kname in ("_apply_sensor_delay_kernel", "_insert_sensor_history_stage", "_read_sensor_kernel"):
      sid = int(spec["args"]["sid"]["scalar"]) if kname == "_read_sensor_kernel" else int(pre["sensor_ids"][tid[1]])
      hist = pre["sensor_history"][sid]
      n, ip = int(hist[0]), int(hist[1])
      dim, adr, off = int(pre["sensor_dim"][sid]), int(pre["sensor_adr"][sid]), int(pre["sensor_historyadr"][sid])
      delay = float(pre["sensor_delay"][sid]) if len(pre["sensor_delay"]) > sid else 0.0
      t = float(pre["time_in"][w])
      if kname == "_read_sensor_kernel":
        ii = int(spec["args"]["interp"]["scalar"])
        ip = ip if ii < 0 else ii
        got = [float(x) for x in post["result_out"][w][:dim]]
        if n == 0:
          want = [float(x) for x in pre["sensordata_in"][w][adr : adr + dim]]
        else:
          _, _, S = _np_buffer(pre["history_in"][w], off, n, dim)
          want = [float(x) for x in R.ref_read(S, t - delay, ip, EPS)]
        return all(lib.approx(a, b, 1e-4, 1e-5) for a, b in zip(got, want)), f"{kname}: got {got} reference {want}"
      period = float(pre["sensor_interval"][sid][0])
      if kname == "_apply_sensor_delay_kernel":
        fresh = [float(x) for x in pre["sensordata_out"][w][adr : adr + dim]]
        got = [float(x) for x in post["sensordata_out"][w][adr : adr + dim]]
        if n <= 0:
          want = fresh
        else:
          user, _, S = _np_buffer(pre["history_in"][w], off, n, dim)
          if delay > 0:
            want = [float(x) for x in R.ref_read(S, t - delay, ip, EPS)]
          elif period > 0 and user + period > t:
            want = [float(x) for x in R.ref_read(S, t, ip, EPS)]
          else:
            want = fresh
        return all(lib.approx(a, b, 1e-4, 1e-5) for a, b in zip(got, want)), f"{kname} thread {tid}: reported {got} reference {want}"
      if n == 0:
        return bool(np.array_equal(pre["history_out"], post["history_out"])), "nsample = 0: history must be unchanged"
      user, c0, S = _np_buffer(pre["history_out"][w], off, n, dim)
      user1, c1, S1 = _np_buffer(post["history_out"][w], off, n, dim)
      fresh = [float(x) for x in pre["sensordata_in"][w][adr : adr + dim]]
      due = (period <= 0) or (user + period <= t)
      if due:
        S2, app = R.ref_insert(S, t, fresh, EPS)
        c2 = (c0 + 1) % n if app else c0
        u2 = user + period if period > 0 else user
      else:
        S2, c2, u2 = S, c0, user
      ok = c1 == c2 and lib.approx(user1, u2, 1e-5, 1e-6) and all(lib.approx(a[0], b[0], 1e-5, 1e-6) and all(lib.approx(x, y, 1e-5, 1e-6) for x, y in zip(a[1], b[1])) for a, b in zip(S1, S2))
      return ok, f"{kname} thread {tid}: after user {user1} cursor {c1} {S1}; reference user {u2} cursor {c2} {S2}"
  except Exception as ex:  # model outside the representation invariant (e.g. cursor out of range): not a reproduction
    return True, f"replay goal not evaluable on this model: {type(ex).__name__}: {ex}"
  return True, "no replay goal"


def goal_never(spec, pre, post):
  return True, "-"


def nice_kernel(cell, w, adr, ns, dim, t, ip=None, others=(), tq=None):
  """well-conditioned counterexamples for kernel-level queries: a valid 2-sample, dim-1 buffer at [w, adr]"""
  c = cursor_of(cell, w, adr)
  S = sym_buffer(cell, w, adr, 2, 1, c)
  out = [ns == 2, dim == 1, adr >= 0, adr <= 2, w <= 2, cell.shape[0] > w, cell.shape[1] >= adr + 6] + invariant(cell, w, adr, 2, c, S) + _nice_buffer(S, t)
  if ip is not None:
    out += [ip >= 0, ip <= 2]
  if tq is not None:  # the delayed query time falls strictly between the two samples
    out += [tq >= S[0][0] + 0.0625, tq <= S[1][0] - 0.0625]
  for a in others:
    out += [a.cell.shape[0] > w, a.cell.shape[1] >= 4]
  return out


def unit_kernels(ctx):
  from mujoco_warp._src import history as H

  mod = "mujoco_warp._src.history"
  ctx.bound(unroll=3, shape_cap=6, note="one generic thread per kernel; _history_* funcs replaced by uninterpreted contracts (decided separately by the find/read/insert units)")
  ctx.assume("thread's own array accesses in bounds (C17)", "nsample >= 0")
  ctx.encode(H._read_ctrl_delayed_kernel, H._insert_ctrl_history_kernel, H._insert_sensor_history_stage, H._apply_sensor_delay_kernel, H._read_ctrl_kernel, H._read_sensor_kernel)

  # ---- internal delayed ctrl read
  calls = Calls()
  k = H._read_ctrl_delayed_kernel
  kt = lib.kernel_thread(k, alias_inout=False, cap=10, interp_kw={"summaries": _summaries(calls)})
  w, u = kt.tid
  hist = kt.prev("actuator_history", u)
  ns, ip = hist.c[0], hist.c[1]
  delay, adr = kt.pre("actuator_delay", u), kt.pre("actuator_historyadr", u)
  tm = kt.pre("time_in", w)
  sess = ctx.session(kt.bg + [ns >= 0])
  ctx.reach(sess, "twin:read_ctrl_delayed/delayed", And(ns > 0, delay > 0))
  names = {"w": w, "u": u, "nsample": ns, "interp": ip, "delay": delay}
  loc = f"{mod}:_read_ctrl_delayed_kernel"
  nice1 = nice_kernel(kt.cell("history_in"), w, adr, ns, 1, tm, ip, others=[kt.args["ctrl_in"], kt.args["ctrl_out"]], tq=tm - 0.5) + [delay == 0.5]
  direct = Or(cmp("==", ns, 0), cmp("==", delay, 0))
  want = ite(direct, kt.pre("ctrl_in", w, u), RS(w, adr, ns, tm - delay, ip))
  P(ctx, sess, "read_ctrl_delayed/value", cmp("==", kt.post("ctrl_out", w, u), want), names=names, replay=kernel_replay(ctx, kt, loc, "value"), nice=nice1, desc="_read_ctrl_delayed_kernel: applied ctrl is not ctrl (no delay) / the history read at time - delay with the actuator's buffer, sample count and interpolation")
  P(ctx, sess, "read_ctrl_delayed/reads-history", And(*[a[0].cell is kt.cell("history_in") for g, a in calls.all("read_scalar")]), names=names, desc="_read_ctrl_delayed_kernel reads a buffer other than Data.history")
  w2, u2 = z3.Int("w2"), z3.Int("u2")
  P(ctx, sess, "read_ctrl_delayed/frame", Not(kt.written("ctrl_out", w2, u2)), Or(w2 != w, u2 != u), names=names, replay=kernel_replay(ctx, kt, loc, "value"), nice=nice1, desc="_read_ctrl_delayed_kernel writes another thread's ctrl")
  internal = (kt, w, u, ns, ip, delay, adr, tm)

  # ---- public read_ctrl == internal read
  calls2 = Calls()
  k2 = H._read_ctrl_kernel
  share = {l: kt.args[l] for l in ("actuator_history", "actuator_historyadr", "actuator_delay", "time_in", "history_in", "ctrl_in")}
  uid, ipa = z3.Int("uid"), z3.Int("interp_arg")
  kt2 = lib.kernel_thread(k2, scalars=dict(share, uid=uid, interp=ipa), tid=w, alias_inout=False, cap=10, interp_kw={"summaries": _summaries(calls2)})
  sess2 = ctx.session(kt.bg + kt2.bg + [ns >= 0])
  ctx.reach(sess2, "twin:read_ctrl/public", And(uid == u, ns > 0, delay > 0, ipa == -1))
  hist2 = kt2.prev("actuator_history", uid)
  ipv = ite(ipa < 0, hist2.c[1], ipa)
  want2 = ite(cmp("==", hist2.c[0], 0), kt2.pre("ctrl_in", w, uid), RS(w, kt2.pre("actuator_historyadr", uid), hist2.c[0], kt2.pre("time_in", w) - kt2.pre("actuator_delay", uid), ipv))
  loc2 = f"{mod}:_read_ctrl_kernel"
  names2 = dict(names, uid=uid, interp_arg=ipa)
  P(ctx, sess2, "read_ctrl/value", cmp("==", kt2.post("result_out", w), want2), uid >= 0, names=names2, replay=kernel_replay(ctx, kt2, loc2, "value"), nice=nice1 + [uid >= 0, uid <= 3, kt2.cell("result_out").shape[0] > w], desc="read_ctrl: result is not ctrl (no history) / the history read at time - delay with the requested (or model) interpolation")
  P(ctx, sess2, "read_ctrl/equals-internal-read", cmp("==", kt2.post("result_out", w), kt.post("ctrl_out", w, u)), And(uid == u, ipa == -1, ns > 0, delay != 0), names=names2, replay=kernel_replay(ctx, kt2, loc2, "value"), nice=nice1 + [uid >= 0, uid <= 3, kt2.cell("result_out").shape[0] > w], desc="read_ctrl(time = Data.time, interp = -1) differs from the ctrl applied by fwd_actuation")

  # ---- ctrl insertion
  calls3 = Calls()
  k3 = H._insert_ctrl_history_kernel
  kt3 = lib.kernel_thread(k3, cap=10, interp_kw={"summaries": _summaries(calls3)})
  w, u = kt3.tid
  ns3 = kt3.prev("actuator_history", u).c[0]
  sess3 = ctx.session(kt3.bg + [ns3 >= 0])
  ctx.reach(sess3, "twin:insert_ctrl", ns3 > 0)
  exp = [w, kt3.pre("actuator_historyadr", u), ns3, kt3.pre("time_in", w), kt3.pre("ctrl_in", w, u), kt3.args["history_out"]]
  _call_goals(ctx, sess3, kt3, calls3, "insert_scalar", cmp("!=", ns3, 0), exp, {"w": w, "u": u, "nsample": ns3}, f"{mod}:_insert_ctrl_history_kernel", "insert_ctrl", nice=nice_kernel(kt3.cell("history_out"), w, kt3.pre("actuator_historyadr", u), ns3, 1, kt3.pre("time_in", w), others=[kt3.args["ctrl_in"]]))
  P(ctx, sess3, "insert_ctrl/no-direct-write", And(*[not a.kind.startswith(("W", "A")) for a in kt3.it.accesses]), desc="_insert_ctrl_history_kernel writes outside the insert func")

  # ---- sensor read (apply delay)
  calls4 = Calls()
  k4 = H._apply_sensor_delay_kernel
  kt4 = lib.kernel_thread(k4, alias_inout=False, cap=10, interp_kw={"summaries": _summaries(calls4)})
  w, i = kt4.tid
  sid = kt4.pre("sensor_ids", i)
  h4 = kt4.prev("sensor_history", sid)
  ns4, ip4 = h4.c[0], h4.c[1]
  dl4, dim4, sadr4, hadr4 = kt4.pre("sensor_delay", sid), kt4.pre("sensor_dim", sid), kt4.pre("sensor_adr", sid), kt4.pre("sensor_historyadr", sid)
  per4 = kt4.prev("sensor_interval", sid).c[0]
  t4 = kt4.pre("time_in", w)
  user4 = kt4.pre("history_in", w, hadr4)
  sess4 = ctx.session(kt4.bg)
  ctx.reach(sess4, "twin:apply_sensor_delay/delay", And(ns4 > 0, dl4 > 0))
  ctx.reach(sess4, "twin:apply_sensor_delay/interval-hold", And(ns4 > 0, dl4 <= 0, per4 > 0, user4 + per4 > t4))
  guard = And(ns4 > 0, Or(dl4 > 0, And(per4 > 0, user4 + per4 > t4)))
  nice4 = nice_kernel(kt4.cell("history_in"), w, hadr4, ns4, dim4, t4, ip4, others=[kt4.args["sensordata_out"]], tq=t4 - dl4) + [Or(dl4 == 0.5, dl4 == 0), Or(per4 == 0, per4 == 0.75), sid >= 0, sid <= 3, sadr4 >= 0, sadr4 <= 3]
  exp = [sadr4, kt4.args["history_in"], w, hadr4, ns4, dim4, ite(dl4 > 0, t4 - dl4, t4), ip4, kt4.args["sensordata_out"]]
  _call_goals(ctx, sess4, kt4, calls4, "read_vector", guard, exp, {"w": w, "sid": sid, "nsample": ns4, "delay": dl4, "period": per4, "user": user4, "time": t4}, f"{mod}:_apply_sensor_delay_kernel", "apply_sensor_delay", nice=nice4)
  P(ctx, sess4, "apply_sensor_delay/no-direct-write", And(*[not a.kind.startswith(("W", "A")) for a in kt4.it.accesses]), desc="_apply_sensor_delay_kernel writes sensordata outside the read func")

  # ---- public read_sensor == internal read
  calls5 = Calls()
  k5 = H._read_sensor_kernel
  share = {l: kt4.args[l] for l in ("sensor_dim", "sensor_adr", "sensor_history", "sensor_historyadr", "sensor_delay", "time_in", "history_in")}
  sid5, ip5 = z3.Int("sid_arg"), z3.Int("interp_arg")
  kt5 = lib.kernel_thread(k5, scalars=dict(share, sid=sid5, interp=ip5), tid=w, alias_inout=False, cap=10, interp_kw={"summaries": _summaries(calls5)})
  sess5 = ctx.session(kt4.bg + kt5.bg)
  h5 = kt5.prev("sensor_history", sid5)
  nice5 = [sid5 >= 0, sid5 <= 3, kt5.cell("result_out").shape[0] > w, kt5.cell("result_out").shape[1] >= 4, kt5.cell("sensordata_in").shape[0] > w, kt5.cell("sensordata_in").shape[1] >= 4]
  ctx.reach(sess5, "twin:read_sensor/public", And(sid5 == sid, ns4 > 0, dl4 > 0, ip5 == -1))
  exp5 = [0, kt5.args["history_in"], w, kt5.pre("sensor_historyadr", sid5), h5.c[0], kt5.pre("sensor_dim", sid5), kt5.pre("time_in", w) - kt5.pre("sensor_delay", sid5), ite(ip5 < 0, h5.c[1], ip5), kt5.args["result_out"]]
  _call_goals(ctx, sess5, kt5, calls5, "read_vector", And(cmp("!=", h5.c[0], 0)), exp5, {"w": w, "sid_arg": sid5, "interp_arg": ip5}, f"{mod}:_read_sensor_kernel", "read_sensor", nice=nice4 + nice5)
  # same source buffer / offset / count / dim / time / interpolation as the internal delayed read (destination differs)
  for (g5, a5) in calls5.all("read_vector"):
    for (g4, a4) in calls4.all("read_vector"):
      same = And(*[cmp("==", x, y) for x, y in zip(a5[2:8], a4[2:8])], a5[1].cell is a4[1].cell)
      P(ctx, sess5, "read_sensor/equals-internal-read", same, And(g5, g4, sid5 == sid, ip5 == -1, dl4 > 0), names={"w": w, "sid": sid}, replay=kernel_replay(ctx, kt5, f"{mod}:_read_sensor_kernel", "read_sensor"), nice=nice4 + nice5, desc="read_sensor(time = Data.time, interp = -1) does not read the same buffer / time / interpolation as the delayed sensor pipeline")
  dd = z3.Int("d")
  P(ctx, sess5, "read_sensor/no-history-copy", cmp("==", kt5.post("result_out", w, dd), kt5.pre("sensordata_in", w, kt5.pre("sensor_adr", sid5) + dd)), And(cmp("==", h5.c[0], 0), dd >= 0, dd < kt5.pre("sensor_dim", sid5), kt5.inshape("result_out", w, dd)), names={"w": w, "sid_arg": sid5, "d": dd}, replay=kernel_replay(ctx, kt5, f"{mod}:_read_sensor_kernel", "read_sensor"), nice=nice4 + nice5, desc="read_sensor without history does not return the current sensordata")

  # ---- sensor insertion
  calls6 = Calls()
  k6 = H._insert_sensor_history_stage
  kt6 = lib.kernel_thread(k6, cap=10, interp_kw={"summaries": _summaries(calls6)})
  w, i = kt6.tid
  sid = kt6.pre("sensor_ids", i)
  ns6 = kt6.prev("sensor_history", sid).c[0]
  hadr6 = kt6.pre("sensor_historyadr", sid)
  per6 = kt6.prev("sensor_interval", sid).c[0]
  t6 = kt6.pre("time_in", w)
  user6 = kt6.pre("history_out", w, hadr6)
  sess6 = ctx.session(kt6.bg + [ns6 >= 0])
  ctx.reach(sess6, "twin:insert_sensor/interval-due", And(ns6 > 0, per6 > 0, user6 + per6 <= t6))
  due = Or(per6 <= 0, user6 + per6 <= t6)
  exp = [w, hadr6, ns6, kt6.pre("sensor_dim", sid), t6, kt6.args["sensordata_in"], kt6.pre("sensor_adr", sid), kt6.args["history_out"]]
  nm6 = {"w": w, "sid": sid, "nsample": ns6, "period": per6, "user": user6, "time": t6}
  nice6 = nice_kernel(kt6.cell("history_out"), w, hadr6, ns6, kt6.pre("sensor_dim", sid), t6, others=[kt6.args["sensordata_in"]]) + [Or(per6 == 0, per6 == 0.75), sid >= 0, sid <= 3, kt6.pre("sensor_adr", sid) >= 0, kt6.pre("sensor_adr", sid) <= 3]
  _call_goals(ctx, sess6, kt6, calls6, "insert_vector", And(ns6 != 0, due), exp, nm6, f"{mod}:_insert_sensor_history_stage", "insert_sensor", nice=nice6)
  P(ctx, sess6, "insert_sensor/user-slot", cmp("==", kt6.post("history_out", w, hadr6), ite(And(ns6 != 0, per6 > 0, user6 + per6 <= t6), user6 + per6, user6)), names=nm6, replay=kernel_replay(ctx, kt6, f"{mod}:_insert_sensor_history_stage", "insert_sensor"), nice=nice6, desc="_insert_sensor_history_stage: the user slot (time of the last accepted sample) is not advanced by exactly one period when a sample is due")
  w2, j2 = z3.Int("w2"), z3.Int("j2")
  P(ctx, sess6, "insert_sensor/frame", Not(kt6.written("history_out", w2, j2)), Or(w2 != w, j2 != hadr6), names=nm6, replay=kernel_replay(ctx, kt6, f"{mod}:_insert_sensor_history_stage", "insert_sensor"), nice=nice6, desc="_insert_sensor_history_stage writes history directly outside the user slot")


# ------------------------------------------------------------------------------------------------ init_ctrl_history / init_sensor_history


def mujoco_init_history(kind, n, dim, times, values, phase, user0):
  """mujoco.mj_initCtrlHistory / mj_initSensorHistory on a fresh mjData -> buffer [user, cursor, times, values]"""
  import mujoco

  cfg = dict(CONFIGS["zoh-2dt"], an=n, sn=n)
  mjm = mujoco.MjModel.from_xml_string(xml_bmc(cfg))
  d = mujoco.MjData(mjm)
  if kind == "ctrl":
    adr = int(mjm.actuator_historyadr[0])
    d.history[adr] = user0
    mujoco.mj_initCtrlHistory(mjm, d, 0, None if times is None else np.asarray(times, dtype=float), np.asarray(values, dtype=float))
  else:
    adr = int(mjm.sensor_historyadr[0])
    d.history[adr] = user0
    mujoco.mj_initSensorHistory(mjm, d, 0, None if times is None else np.asarray(times, dtype=float), np.asarray(values, dtype=float).reshape(n, dim), phase)
  return d.history[adr : adr + 2 + n + n * dim].copy(), mujoco.MjData(mjm).history[adr : adr + 2 + n + n * dim].copy()


def unit_init_history(kind):
  def run(ctx):
    import mujoco

    import mujoco_warp as mjw
    from mujoco_warp._src import history as H

    k = H._init_ctrl_history_kernel if kind == "ctrl" else H._init_sensor_history_kernel
    loc = f"mujoco_warp._src.history:{k.key}"
    ctx.encode(k)
    NMAX = 3
    ctx.bound(nsample_max=NMAX, dim_max=2, note="one generic world; sample count, dim, offsets, contents symbolic")
    ctx.assume("nsample in [1,3], dim in [1,2]", "times = None is only legal when the stored times are strictly increasing in physical order (MuJoCo raises otherwise)")
    # reference validated against the mujoco library: result = [user|phase, n-1, times or the EXISTING times, values]
    rng = np.random.default_rng(7)
    for n in (1, 2, 3):
      for times in (None, list(np.cumsum(rng.uniform(0.1, 1, size=n)))):
        vals = list(rng.uniform(-1, 1, size=n))
        got, fresh = mujoco_init_history(kind, n, 1, times, vals, 0.25, 7.0)
        want = [7.0 if kind == "ctrl" else 0.25, n - 1] + (list(fresh[2 : 2 + n]) if times is None else times) + vals
        if not np.allclose(got, want, atol=1e-12):
          ctx.error(f"reference for init_{kind}_history disagrees with mujoco: n={n} times={times}: mujoco {got.tolist()} reference {want}")
          return
    hist_l = "actuator_history" if kind == "ctrl" else "sensor_history"
    adr_l = "actuator_historyadr" if kind == "ctrl" else "sensor_historyadr"
    id_l = "ctrlid" if kind == "ctrl" else "sensorid"
    ident, has = z3.Int("id"), z3.Int("has_times")
    kt = lib.kernel_thread(k, scalars={id_l: ident, "has_times": has}, unroll=NMAX * 2 + 1, cap=12)
    w = kt.tid
    n = kt.prev(hist_l, ident).c[0]
    off = kt.pre(adr_l, ident)
    dim = kt.pre("sensor_dim_arr", ident) if kind == "sensor" else 1
    pre = [n >= 1, n <= NMAX, ident >= 0, off >= 0] + ([dim >= 1, dim <= 2] if kind == "sensor" else [])
    sess = ctx.session(kt.bg + pre)
    ctx.reach(sess, "twin:with-times", And(has != 0, n == NMAX))
    ctx.reach(sess, "twin:times-none", And(has == 0, n == NMAX))
    names = {"w": w, "id": ident, "nsample": n, "offset": off, "has_times": has}
    rp = init_history_replay(ctx, kind)
    H0 = lambda j: kt.pre("history_out", w, j)
    H1 = lambda j: kt.post("history_out", w, j)
    ctx.prove(sess, "cursor", cmp("==", H1(off + 1), z3.ToReal(n - 1)), names=names, replay=rp, desc=f"init_{kind}_history: cursor is not nsample-1 (samples stored oldest..newest)")
    ctx.prove(sess, "user-slot", cmp("==", H1(off), H0(off) if kind == "ctrl" else kt.pre("phase", w)), names=names, replay=rp, desc=f"init_{kind}_history: user slot is not {'preserved' if kind == 'ctrl' else 'set to phase'}")
    i = z3.Int("i")
    inr = And(i >= 0, i < n)
    ctx.prove(sess, "times/given", cmp("==", H1(off + 2 + i), kt.pre("times", i)), And(inr, has != 0), names=dict(names, i=i), replay=rp, desc=f"init_{kind}_history: sample time i is not times[i]")
    ctx.prove(sess, "times/none-keeps-existing", cmp("==", H1(off + 2 + i), H0(off + 2 + i)), And(inr, has == 0), names=dict(names, i=i), replay=rp, desc=f"init_{kind}_history(times=None): the existing buffer timestamps are not kept (MuJoCo: 'if times is NULL, uses existing buffer timestamps')")
    if kind == "ctrl":
      ctx.prove(sess, "values", cmp("==", H1(off + 2 + n + i), kt.pre("values", w, i)), inr, names=dict(names, i=i), replay=rp, desc="init_ctrl_history: sample value i is not values[world, i]")
    else:
      j = z3.Int("j")
      ctx.prove(sess, "values", cmp("==", H1(off + 2 + n + i * dim + j), kt.pre("values", w, i * dim + j)), And(inr, j >= 0, j < dim), names=dict(names, i=i, j=j), replay=rp, desc="init_sensor_history: sample value (i, j) is not values[world, i*dim+j]")
    w2, j2 = z3.Int("w2"), z3.Int("j2")
    ctx.prove(sess, "frame", Not(kt.written("history_out", w2, j2)), Or(w2 != w, j2 < off, j2 >= off + 2 + n + n * dim), names=dict(names, w2=w2, j2=j2), replay=rp, desc=f"init_{kind}_history writes outside the buffer of this actuator/sensor and world")

  return (f"init_history/{kind}", run)


def init_history_replay(ctx, kind):
  """public API vs mujoco: init_*_history(times or None) on a fresh Data, then the resulting buffers are compared"""

  def _rp(model):
    import mujoco

    import mujoco_warp as mjw

    rows = []
    bad = False
    for n in (3, 2, 1):
      for times in (None, [0.25 * (i + 1) for i in range(n)]):
        cfg = dict(CONFIGS["zoh-2dt"], an=n, sn=n)
        mjm = mujoco.MjModel.from_xml_string(xml_bmc(cfg))
        m = mjw.put_model(mjm)
        d = mjw.put_data(mjm, mujoco.MjData(mjm))
        vals = [1.0 + i for i in range(n)]
        va = wp.array(np.array([vals], dtype=np.float32), dtype=float)
        ta = None if times is None else wp.array(np.array(times, dtype=np.float32), dtype=float)
        if kind == "ctrl":
          adr = int(mjm.actuator_historyadr[0])
          mjw.init_ctrl_history(m, d, 0, ta, va)
        else:
          adr = int(mjm.sensor_historyadr[0])
          mjw.init_sensor_history(m, d, 0, ta, va, wp.array(np.array([0.25], dtype=np.float32), dtype=float))
        got = d.history.numpy()[0, adr : adr + 2 + 2 * n]
        want, _ = mujoco_init_history(kind, n, 1, times, vals, 0.25, 0.0 if kind == "ctrl" else 0.0)
        same = bool(np.allclose(got, want, atol=1e-5))
        rows.append({"nsample": n, "times": times, "mjwarp": got.tolist(), "mujoco": want.tolist(), "same": same})
        bad = bad or not same
    os.makedirs(os.path.join(report.VERIF, "replays", PID), exist_ok=True)
    path = os.path.join(report.VERIF, "replays", PID, f"{ctx.unit.replace('/', '_')}.json")
    with open(path, "w") as f:
      json.dump({"property": PID, "how": f"fresh Data (put_data of a fresh mjData); mjw.init_{kind}_history(m, d, 0, times, values[, phase]) vs mujoco.mj_init{kind.capitalize()}History; buffer layout [user, cursor, times, values]", "cases": rows}, f, indent=1)
    return bad, path

  return _rp


# ------------------------------------------------------------------------------------------------ BMC from initial buffers

XML_BMC = """<mujoco><option timestep="0.002"/><worldbody>
<body pos="0 0 1"><joint name="j" damping="0.1"/><geom size=".1"/></body></worldbody>
<actuator><motor joint="j" delay="{adelay}" nsample="{an}" interp="{ainterp}"/></actuator>
<sensor><jointpos joint="j" delay="{sdelay}" nsample="{sn}" interp="{sinterp}" {sint}/></sensor></mujoco>"""


def xml_bmc(cfg):
  return XML_BMC.format(an=cfg["an"], sn=cfg["sn"], ainterp=INTERP[cfg["ainterp"]], sinterp=INTERP[cfg["sinterp"]], adelay=cfg["adelay"], sdelay=cfg["sdelay"], sint=(f'interval="{cfg["interval"]}"' if cfg["interval"] else ""))


PRE_CTRL = [0.7, -0.4, 0.9, 0.3, -0.8]  # controls applied before reset_data in the 'reset_data' source


def make_source(source, cfg, nworld=2):
  """the REAL Data whose history buffer is the initial state of the bounded check"""
  import mujoco

  import mujoco_warp as mjw

  mjm = mujoco.MjModel.from_xml_string(xml_bmc(cfg))
  m = mjw.put_model(mjm)
  if source == "make_data":
    d = mjw.make_data(mjm, nworld=nworld)
  else:
    mjd = mujoco.MjData(mjm)
    d = mjw.put_data(mjm, mjd, nworld=nworld)
    if source == "reset_data":
      for u in PRE_CTRL:
        d.ctrl.fill_(u)
        mjw.step(m, d)
      mjw.reset_data(m, d)
  return mjm, m, d


def history_order(m, d):
  """F7: order in which the real step() launches the kernels that touch Data.history / Data.time"""
  import mujoco_warp as mjw
  from checks import hosttrace_c37 as T

  d2 = host.shim_dataclass(d, "d.", symbolic=lambda n: False)
  with T.TraceRun() as hr:
    mjw.step(m, d2)
  out = []
  for l in hr.launches:
    labs = [b for p, b, o in l.bound()]
    outs = [b for p, b, o in l.bound() if o]
    if "d.history" in labs or "d.time" in outs:
      out.append(l.key.split("__locals__")[-1] if "_next_time" in l.key else l.key)
  return out


EXPECTED_ORDER = ["_apply_sensor_delay_kernel", "_insert_sensor_history_stage", "_read_ctrl_delayed_kernel", "_insert_ctrl_history_kernel", "_next_time"]


def unit_init(source, cfgname, extra_steps=2):
  def run(ctx):
    import mujoco_warp as mjw
    from mujoco_warp._src import history as H

    cfg = CONFIGS[cfgname]
    mjm, m, d = make_source(source, cfg)
    nworld = d.nworld
    an, sn = cfg["an"], cfg["sn"]
    K = max(an, sn) + extra_steps
    ctx.encode(H.read_ctrl, H.read_sensor, H.read_ctrl_delayed, H.insert_ctrl_history, H.apply_sensor_delay, H._read_ctrl_delayed_kernel, H._insert_ctrl_history_kernel, H._apply_sensor_delay_kernel, H._insert_sensor_history_stage)
    ctx.bound(nworld=nworld, steps=K, config=cfgname, source=source, note="k <= n+2 steps; ctrl and fresh sensor values symbolic per step and world, |value| <= 1; times k*timestep")
    ctx.assume("the history-related host functions are run in the order in which the real step() launches their kernels (F7 launch trace of the real step())", "the delayed values are compared with the ideal delay line up to 1e-4 (float32 copies of MuJoCo's initial sample times)")
    order = history_order(m, d)
    if not set(order) <= set(EXPECTED_ORDER):
      ctx.error(f"history-related launches of the real step() are {order}, the bounded check knows {EXPECTED_ORDER}")
      return
    ctx.notes.append(f"order of the history-related launches in the real step(): {order}")
    dt = float(m.opt.timestep.numpy()[0])
    d2 = host.shim_dataclass(d, "d.", symbolic=lambda n: False)
    arrs = host.arrays_of(d2)
    ctrl_c, sd_c, time_c = arrs["ctrl"].ref.cell, arrs["sensordata"].ref.cell, arrs["time"].ref.cell
    nu, nsd = int(mjm.nu), int(mjm.nsensordata)
    U = [[z3.Real(f"u{k}_w{w}") for w in range(nworld)] for k in range(K)]
    Q = [[z3.Real(f"q{k}_w{w}") for w in range(nworld)] for k in range(K)]
    got_c, got_s, pub_c, pub_s = [], [], [], []
    t0 = float(d.time.numpy()[0])
    with host.HostRun(mode="exec") as hr:
      for k in range(K):
        t = t0 + k * dt
        for w in range(nworld):
          time_c.d[0][w] = t
          sd_c.d[0][w * nsd + 0] = Q[k][w]
          ctrl_c.d[0][w * nu + 0] = U[k][w]
        # public API on the same state: read_ctrl / read_sensor at time = Data.time with the model's interpolation
        pc = host.sym_array(f"pub_ctrl{k}", (nworld,), float, init=np.zeros((nworld,)))
        H.read_ctrl(m, d2, 0, d2.time, -1, pc)
        pub_c.append([pc.ref.cell.d[0][w] for w in range(nworld)])
        ps = host.sym_array(f"pub_sens{k}", (nworld, 1), float, init=np.zeros((nworld, 1)))
        H.read_sensor(m, d2, 0, d2.time, -1, ps)
        pub_s.append([ps.ref.cell.d[0][w] for w in range(nworld)])
        # the history-related operations of one step(), in the order in which the real step() launches them
        for op in order:
          if op == "_apply_sensor_delay_kernel":
            H.apply_sensor_delay(m, d2, m.sensor_pos_adr)  # (launches _apply_sensor_delay_kernel, _insert_sensor_history_stage)
            got_s.append([sd_c.d[0][w * nsd + 0] for w in range(nworld)])
          elif op == "_read_ctrl_delayed_kernel":
            eff = host.sym_array(f"ctrl_eff{k}", (nworld, nu), float, init=np.zeros((nworld, nu)))
            H.read_ctrl_delayed(m, d2, eff)
            got_c.append([eff.ref.cell.d[0][w * nu + 0] for w in range(nworld)])
          elif op == "_insert_ctrl_history_kernel":
            H.insert_ctrl_history(m, d2)
          elif op == "_next_time":
            for w in range(nworld):
              time_c.d[0][w] = t + dt
    # ideal delay lines, initialised as MuJoCo initialises a fresh / reset mjData
    adelay, sdelay = float(m.actuator_delay.numpy()[0]), float(m.sensor_delay.numpy()[0])
    interval = float(m.sensor_interval.numpy()[0][0])
    pre = [core.zbool(a) for a in hr.assumes]
    for k in range(K):
      for w in range(nworld):
        pre += [U[k][w] >= -1, U[k][w] <= 1, Q[k][w] >= -1, Q[k][w] <= 1]
    sess = ctx.session(pre)
    ctx.reach(sess, "twin:inputs", True)
    tol = 1e-4
    for w in range(nworld):
      la = R.Line(an, 1, adelay, cfg["ainterp"], 0.0, dt, EPS)
      ls = R.Line(sn, 1, sdelay, cfg["sinterp"], interval, dt, EPS, is_sensor=True)
      for k in range(K):
        t = t0 + k * dt
        want_s = ls.sensor(t, [Q[k][w]])[0]
        want_c = la.read_ctrl(t, U[k][w])
        la.insert(t, [U[k][w]])
        names = {f"u{j}": U[j][w] for j in range(K)}
        names.update({f"q{j}": Q[j][w] for j in range(K)})
        rp = init_replay(ctx, source, cfgname, K, U, Q, w)
        if k < len(got_c) and adelay != 0:
          ctx.prove(sess, f"public-read_ctrl@step{k}/w{w}", cmp("==", pub_c[k][w], got_c[k][w]), names=names, replay=public_replay(ctx, source, cfgname, K, U, Q, w), desc=f"read_ctrl(m, d, 0, d.time, -1) differs from the delayed ctrl that step() applies (step {k})")
        if k < len(got_s) and sdelay > 0:
          ctx.prove(sess, f"public-read_sensor@step{k}/w{w}", cmp("==", pub_s[k][w], got_s[k][w]), names=names, replay=public_replay(ctx, source, cfgname, K, U, Q, w), desc=f"read_sensor(m, d, 0, d.time, -1) differs from the delayed sensor value that step() reports (step {k})")
        for what, g, e in (("ctrl", got_c[k][w], want_c), ("sensor", got_s[k][w], want_s)):
          diff = arith("-", g, e)
          ctx.prove(sess, f"{what}@step{k}/w{w}", And(cmp("<=", diff, tol), cmp(">=", diff, -tol)), names=names, replay=rp, desc=f"Data from {source} ({cfgname}): the delayed {what} at step {k} differs from the ideal delay line initialised as MuJoCo does (samples at -(n-i)*dt with value 0)")

  return (f"init/{source}/{cfgname}", run)


def public_replay(ctx, source, cfgname, K, U, Q, w):
  """mjw.read_ctrl / read_sensor (time = d.time, interp = -1) before every step vs mujoco.mj_readCtrl / mj_readSensor and vs
  the delayed values the step then applies / reports"""

  def _rp(model):
    import mujoco

    import mujoco_warp as mjw

    cfg = CONFIGS[cfgname]
    us = [float(kh.mval(model, U[k][w])) for k in range(K)]
    qs = [float(kh.mval(model, Q[k][w])) for k in range(K)]
    mjm, m, d = make_source("put_data", cfg, nworld=1)
    mjd = mujoco.MjData(mjm)
    rows, bad = [], False
    for k in range(K):
      d.qpos.fill_(qs[k])
      d.ctrl.fill_(us[k])
      mjd.qpos[0], mjd.ctrl[0] = qs[k], us[k]
      rc, rs = wp.zeros(1, dtype=float), wp.zeros((1, 1), dtype=float)
      mjw.read_ctrl(m, d, 0, d.time, -1, rc)
      mjw.read_sensor(m, d, 0, d.time, -1, rs)
      mc = float(mujoco.mj_readCtrl(mjm, mjd, 0, mjd.time, -1))
      res = np.zeros(1)
      r = mujoco.mj_readSensor(mjm, mjd, 0, mjd.time, res, -1)
      ms = float(res[0] if r is None else np.asarray(r).reshape(-1)[0])
      mjw.step(m, d)
      mujoco.mj_step(mjm, mjd)
      row = {"step": k, "mjw.read_ctrl": float(rc.numpy()[0]), "mujoco.mj_readCtrl": mc, "applied (actuator_force)": float(d.actuator_force.numpy()[0, 0]), "mjw.read_sensor": float(rs.numpy()[0, 0]), "mujoco.mj_readSensor": ms, "reported sensordata": float(d.sensordata.numpy()[0, 0])}
      rows.append(row)
      if cfg["adelay"] and (abs(row["mjw.read_ctrl"] - mc) > 1e-4 or abs(row["mjw.read_ctrl"] - row["applied (actuator_force)"]) > 1e-4):
        bad = True
      if cfg["sdelay"] and (abs(row["mjw.read_sensor"] - ms) > 1e-4 or abs(row["mjw.read_sensor"] - row["reported sensordata"]) > 1e-4):
        bad = True
    os.makedirs(os.path.join(report.VERIF, "replays", PID), exist_ok=True)
    path = os.path.join(report.VERIF, "replays", PID, f"{ctx.unit.replace('/', '_')}.public.json")
    with open(path, "w") as f:
      json.dump({"property": PID, "xml": xml_bmc(cfg), "ctrl": us, "qpos_overwritten": qs, "rows": rows, "how": "put_data of a fresh mjData; each step: set qpos, ctrl; read_ctrl/read_sensor(time = d.time, interp = -1); step"}, f, indent=1)
    return bad, path

  return _rp


def init_replay(ctx, source, cfgname, K, U, Q, w):
  """public API vs the mujoco library: same ctrl sequence / overwritten qpos through mjw.step and mujoco.mj_step"""

  def _rp(model):
    import mujoco

    import mujoco_warp as mjw

    cfg = CONFIGS[cfgname]
    us = [float(kh.mval(model, U[k][w])) for k in range(K)]
    qs = [float(kh.mval(model, Q[k][w])) for k in range(K)]
    mjm, m, d = make_source(source, cfg, nworld=1)
    mjd = mujoco.MjData(mjm)
    rows = []
    bad = False
    for k in range(K):
      d.qpos.fill_(qs[k])
      d.ctrl.fill_(us[k])
      mjd.qpos[0], mjd.ctrl[0] = qs[k], us[k]
      mjw.step(m, d)
      mujoco.mj_step(mjm, mjd)
      a = (float(d.actuator_force.numpy()[0, 0]), float(d.sensordata.numpy()[0, 0]))
      b = (float(mjd.actuator_force[0]), float(mjd.sensordata[0]))
      rows.append({"step": k, "mjwarp": a, "mujoco": b})
      if abs(a[0] - b[0]) > 1e-4 or abs(a[1] - b[1]) > 1e-4:
        bad = True
    os.makedirs(os.path.join(report.VERIF, "replays", PID), exist_ok=True)
    path = os.path.join(report.VERIF, "replays", PID, f"{ctx.unit.replace('/', '_')}.json")
    with open(path, "w") as f:
      json.dump({"property": PID, "source": source, "xml": xml_bmc(cfg), "ctrl": us, "qpos_overwritten": qs, "trajectory (actuator_force = delayed ctrl, sensordata[0])": rows, "how": f"Data from {source} (reset_data: put_data, {len(PRE_CTRL)} steps with ctrl {PRE_CTRL}, reset_data); each step: set qpos, ctrl; mjw.step vs mujoco.mj_step"}, f, indent=1)
    return bad, path

  return _rp


def _patch_mval():
  """engine workaround: kh.mval overflows on rationals whose numerator/denominator exceed the float range"""
  import fractions

  orig = kh.mval
  if getattr(orig, "_c30", False):
    return

  def mval(model, x):
    try:
      return orig(model, x)
    except OverflowError:
      v = model.eval(x, model_completion=True)
      return float(fractions.Fraction(v.numerator_as_long(), v.denominator_as_long()))

  mval._c30 = True
  kh.mval = mval


def main(tier, seed, only=None):
  import sys

  sys.set_int_max_str_digits(0)  # z3 models of nonlinear queries can carry rationals with thousands of digits
  _patch_mval()
  import mujoco  # noqa: F401  (imported before the units fork: saves ~15 s of import time per unit)

  import mujoco_warp  # noqa: F401

  ns = (1, 2, 3, 4) if tier == "thorough" else (1, 2, 3)
  units = [("refmodel", unit_refmodel), ("kernels", unit_kernels), unit_init_history("ctrl"), unit_init_history("sensor")]
  for n in ns:
    units.append(unit_find(n))
    units.append(unit_read(n, 0))
    units.append(unit_insert(n, 0))
    for dim in (1, 2) if tier == "quick" else (1, 2, 3):
      units.append(unit_read(n, dim))
      units.append(unit_insert(n, dim))
  for source in ("put_data", "make_data", "reset_data"):
    for cfgname in CONFIGS:
      if tier == "quick" and source != "put_data" and cfgname not in ("zoh-2dt", "interval"):
        continue  # make_data / reset_data are listed findings: two configurations suffice in the quick tier
      units.append(unit_init(source, cfgname, 2 if tier == "quick" else 3))
  if only:
    units = [u for u in units if any(o in u[0] for o in only)]
  return report.run_check(PID, units, tier, seed)
