"""C30 Delayed controls and sensors read the right past sample.

 refmodel      numeric validation of the reference models (hist_c30) against the mujoco library (harness side condition)
 find/read/insert  inductive step (F6) on the REAL wp.funcs of history.py for n = 1..3 (thorough 4) samples: buffer contents,
               cursor, world, buffer offset, query time, interpolation order symbolic; representation invariant
               "cursor in [0,n), sample times strictly increasing in logical order":
                 _history_find_index   = bracketing index
                 _history_read_scalar/_vector = ZOH / linear / cubic interpolant of the bracketing samples (clamped at the ends)
                 _history_insert_scalar/_vector = sorted insertion keeping the n newest samples; invariant preserved; cursor
                                         advances exactly on append; user slot and every cell outside the buffer untouched
 kernels       every kernel of history.py passes the right buffer / time / interpolation to those funcs (funcs replaced by
               uninterpreted contracts), public read_ctrl / read_sensor equal the internal delayed read
 init          bounded model checking from the concrete buffers produced by the real make_data / put_data / reset_data, k <= n+2
               symbolic ctrl / sensor samples through the real host functions (H mode), against the ideal delay line
               initialised as MuJoCo does
"""

import json
import os

import numpy as np
import warp as wp
import z3

from checks import hist_c30 as R
from checks import lib
from wsym import core, host, kh, replay, report
from wsym.core import And, Implies, Not, Or, arith, cmp, is_sym, ite

PID = "C30"
EPS = R.EPS

XML = """<mujoco><option timestep="{dt}"/><worldbody>
<body pos="0 0 1"><joint name="j" damping="0.1"/><geom size=".1"/></body></worldbody>
<actuator><motor joint="j" delay="{adelay}" nsample="{an}" interp="{ainterp}"/></actuator>
<sensor><jointpos joint="j" delay="{sdelay}" nsample="{sn}" interp="{sinterp}" {sint}/>
<framepos objtype="body" objname="world" delay="{sdelay}" nsample="{sn}" interp="{sinterp}"/></sensor></mujoco>"""
INTERP = ["zoh", "linear", "cubic"]


def xml_for(an=3, sn=3, ainterp=0, sinterp=0, adelay=0.004, sdelay=0.004, interval=0.0, dt=0.002):
  return XML.format(dt=dt, an=an, sn=sn, ainterp=INTERP[ainterp], sinterp=INTERP[sinterp], adelay=adelay, sdelay=sdelay, sint=(f'interval="{interval}"' if interval else ""))


def approx(a, b, tol=1e-9):
  return abs(float(a) - float(b)) <= tol * (1.0 + max(abs(float(a)), abs(float(b))))


# ------------------------------------------------------------------------------------------------ reference validation


def logical_np(buf, n, dim):
  """numpy buffer [user, cursor, times n, values n*dim] -> (user, cursor, S)"""
  c = int(buf[1])
  S = []
  for i in range(n):
    p = (c + 1 + i) % n
    S.append((float(buf[2 + p]), [float(x) for x in buf[2 + n + p * dim : 2 + n + (p + 1) * dim]]))
  return float(buf[0]), c, S


def random_buffer(rng, n, dim):
  c = int(rng.integers(0, n))
  times = np.cumsum(rng.uniform(0.05, 1.0, size=n)) + rng.uniform(-2, 2)
  vals = rng.uniform(-3, 3, size=(n, dim))
  buf = np.zeros(2 + n + n * dim)
  buf[0] = rng.uniform(-1, 1)
  buf[1] = c
  for i in range(n):
    p = (c + 1 + i) % n
    buf[2 + p] = times[i]
    buf[2 + n + p * dim : 2 + n + (p + 1) * dim] = vals[i]
  return buf


def unit_refmodel(ctx):
  import mujoco

  rng = np.random.default_rng(1234 + int(ctx.seed))
  nbad = 0
  ncmp = 0
  for n in (1, 2, 3, 4, 5):
    mjm = mujoco.MjModel.from_xml_string(xml_for(an=n, sn=n))
    d = mujoco.MjData(mjm)
    aadr, sadr = int(mjm.actuator_historyadr[0]), int(mjm.sensor_historyadr[1])
    delay = float(mjm.actuator_delay[0])
    for trial in range(30):
      ba, bs = random_buffer(rng, n, 1), random_buffer(rng, n, 3)
      _, _, Sa = logical_np(ba, n, 1)
      _, _, Ss = logical_np(bs, n, 3)
      qs = list(rng.uniform(Sa[0][0] - 0.5, Sa[-1][0] + 0.5, size=6)) + [s[0] for s in Sa]
      for t in qs:
        for ip in (0, 1, 2):
          d.history[aadr : aadr + len(ba)] = ba
          got = mujoco.mj_readCtrl(mjm, d, 0, t + delay, ip)
          want = R.ref_read(Sa, (t + delay) - delay, ip, 0.0)[0]
          ncmp += 1
          if not approx(got, want, 1e-7):
            nbad += 1
            ctx.error(f"reference ref_read (scalar) disagrees with mujoco.mj_readCtrl: n={n} t={t} interp={ip} S={Sa}: mujoco {got} reference {want}")
      qs = list(rng.uniform(Ss[0][0] - 0.5, Ss[-1][0] + 0.5, size=6)) + [s[0] for s in Ss]
      for t in qs:
        for ip in (0, 1, 2):
          d.history[sadr : sadr + len(bs)] = bs
          res = np.zeros(3)
          r = mujoco.mj_readSensor(mjm, d, 1, t + delay, res, ip)
          got = res if r is None else np.asarray(r).reshape(-1)
          want = R.ref_read(Ss, (t + delay) - delay, ip, 0.0)
          ncmp += 1
          if not all(approx(g, w, 1e-7) for g, w in zip(got, want)):
            nbad += 1
            ctx.error(f"reference ref_read (vector) disagrees with mujoco.mj_readSensor: n={n} t={t} interp={ip}: mujoco {got} reference {want}")
      # insertion: mj_step records (d.time, d.ctrl) in the actuator buffer
      for t in list(rng.uniform(Sa[0][0] - 0.5, Sa[-1][0] + 0.5, size=4)) + [s[0] for s in Sa]:
        mujoco.mj_resetData(mjm, d)
        d.history[aadr : aadr + len(ba)] = ba
        d.time = t
        v = float(rng.uniform(-5, 5))
        d.ctrl[0] = v
        mujoco.mj_step(mjm, d)
        u1, c1, S1 = logical_np(d.history[aadr : aadr + len(ba)], n, 1)
        S2, app = R.ref_insert(Sa, t, [v], 0.0)
        c2 = (int(ba[1]) + 1) % n if app else int(ba[1])
        ncmp += 1
        ok = c1 == c2 and u1 == ba[0] and all(approx(a[0], b[0]) and approx(a[1][0], b[1][0]) for a, b in zip(S1, S2))
        if not ok:
          nbad += 1
          ctx.error(f"reference ref_insert disagrees with mujoco.mj_step: n={n} t={t} S={Sa}: mujoco cursor {c1} {S1} reference cursor {c2} {S2}")
      if nbad > 5:
        return
  # ideal delay line vs mj_step trajectories (ctrl through a gear-1 motor: actuator_force = delayed ctrl; jointpos sensor
  # with qpos overwritten before every step: fresh sensor value = the overwritten qpos)
  for cfg in CONFIGS.values():
    nbad += validate_line(ctx, cfg, rng)
    ncmp += 1
  ctx.notes.append(f"{ncmp} numeric comparisons of the reference models with mujoco {mujoco.__version__}: {nbad} mismatches")
  sess = ctx.session([])
  ctx.reach(sess, "twin:reference-validated", z3.BoolVal(nbad == 0))


CONFIGS = {
  "zoh-2dt": dict(an=3, sn=3, ainterp=0, sinterp=0, adelay=0.004, sdelay=0.004, interval=0.0),
  "lin-1.5dt": dict(an=3, sn=2, ainterp=1, sinterp=1, adelay=0.003, sdelay=0.003, interval=0.0),
  "cubic-1.5dt": dict(an=4, sn=4, ainterp=2, sinterp=2, adelay=0.003, sdelay=0.005, interval=0.0),
  "interval": dict(an=2, sn=2, ainterp=0, sinterp=0, adelay=0.002, sdelay=0.0, interval=0.004),
  "interval+delay": dict(an=1, sn=2, ainterp=0, sinterp=1, adelay=0.002, sdelay=0.003, interval=0.006),
}


def lines_for(cfg, eps, dt=0.002):
  a = R.Line(cfg["an"], 1, cfg["adelay"], cfg["ainterp"], 0.0, dt, eps)
  s = R.Line(cfg["sn"], 1, cfg["sdelay"], cfg["sinterp"], cfg["interval"], dt, eps, is_sensor=True)
  return a, s


def mujoco_trajectory(cfg, ctrls, qs):
  """-> (delayed ctrl per step, reported jointpos per step, final history) from mujoco.mj_step"""
  import mujoco

  mjm = mujoco.MjModel.from_xml_string(xml_for(**cfg))
  d = mujoco.MjData(mjm)
  out_c, out_s = [], []
  for u, q in zip(ctrls, qs):
    d.qpos[0] = q
    d.ctrl[0] = u
    mujoco.mj_step(mjm, d)
    out_c.append(float(d.actuator_force[0]))
    out_s.append(float(d.sensordata[0]))
  return out_c, out_s, d.history.copy()


def validate_line(ctx, cfg, rng, steps=9):
  ctrls = [float(x) for x in rng.uniform(-2, 2, size=steps)]
  qs = [float(x) for x in rng.uniform(-1, 1, size=steps)]
  mc, ms, _ = mujoco_trajectory(cfg, ctrls, qs)
  a, s = lines_for(cfg, 1e-9)
  bad = 0
  for k in range(steps):
    t = k * 0.002
    rs = s.sensor(t, [qs[k]])[0]
    rc = a.read_ctrl(t, ctrls[k])
    a.insert(t, [ctrls[k]])
    if not approx(rc, mc[k], 1e-7) or not approx(rs, ms[k], 1e-7):
      bad += 1
      ctx.error(f"ideal delay line disagrees with mujoco.mj_step at step {k} cfg {cfg}: ctrl {rc} vs mujoco {mc[k]}; sensor {rs} vs mujoco {ms[k]}")
      break
  return bad


# ------------------------------------------------------------------------------------------------ F6 on the wp.funcs


def sym_buffer(cell, w, off, n, dim, c):
  """abstract logical sequence of the buffer stored in `cell` (array mode) at [w, off...] with cursor c"""
  snap = cell.a0

  def g(j, snap=snap):
    return cell.get((w, j), 0, snap=snap)

  S = []
  for i in range(n):
    S.append((g(off + 2 + _phys(c, n, i)), [g(off + 2 + n + _phys(c, n, i) * dim + d) for d in range(dim)]))
  return S


def _phys(c, n, i):
  """physical slot of logical index i (0 = oldest): the slot after the cursor is the oldest"""
  return arith("%", arith("+", c, 1 + i), n)


def post_buffer(cell, w, off, n, dim, c):
  def g(j):
    return cell.get((w, j), 0)

  return [(g(off + 2 + _phys(c, n, i)), [g(off + 2 + n + _phys(c, n, i) * dim + d) for d in range(dim)]) for i in range(n)]


def invariant(cell, w, off, n, c, S, mingap=0.0):
  cur = cell.get((w, off + 1), 0, snap=cell.a0)
  inv = [cur == z3.ToReal(c), c >= 0, c < n, w >= 0, off >= 0]
  for i in range(n - 1):
    inv.append(S[i + 1][0] - S[i][0] > mingap)
  return inv


def seq_eq(A, B):
  return And(*[And(cmp("==", a[0], b[0]), *[cmp("==", x, y) for x, y in zip(a[1], b[1])]) for a, b in zip(A, B)])


def access_region(it, cell, w, off, size):
  """every access of the run to `cell` lies in row w, columns [off, off+size)"""
  conds = []
  for a in it.accesses:
    if a.cell is cell:
      conds.append(Implies(a.guard, And(cmp("==", a.idx[0], w), cmp(">=", a.idx[1], off), cmp("<", a.idx[1], arith("+", off, size)))))
  return And(*conds)


def _func_setup(fn, n, extra_scalars):
  w, off = z3.Int("w"), z3.Int("off")
  sc = {"worldid": w, "buf_offset": off, "n": n}
  sc.update(extra_scalars)
  args = kh.make_args(fn, scalars=sc, mode="array")
  replay.snapshot_initial(args)
  it, ret = kh.run(fn, args, unroll=max(4, n + 1))
  return w, off, args, it, ret


def own_bounds(it):
  out = [core.zbool(a) for a in it.assumes]
  for o in it.obl:
    if o.kind == "unwind":
      out.append(core.zbool(Implies(o.guard, o.cond)))
  return out


def unit_find(n):
  def run(ctx):
    from mujoco_warp._src import history as H

    ctx.encode(H._history_find_index, H._history_physical_index)
    ctx.bound(nsample=n, note="sample count concrete; cursor, world, offset, times, query time symbolic")
    ctx.assume("cursor in [0,n), sample times strictly increasing in logical order")
    t, c = z3.Real("t"), z3.Int("cursor")
    w, off, args, it, ret = _func_setup(H._history_find_index, n, {"t": t, "cursor": c})
    cell = args["buf"].cell
    S = sym_buffer(cell, w, off, n, 1, c)
    inv = [c >= 0, c < n, w >= 0, off >= 0] + [S[i + 1][0] > S[i][0] for i in range(n - 1)]
    sess = ctx.session(inv + own_bounds(it))
    ctx.reach(sess, "twin:invariant", True)
    names = {"cursor": c, "t": t, "ret": ret, **{f"tau{i}": S[i][0] for i in range(n)}}
    rp = func_replay(ctx, "find", n, 1, cell, w, off, {"t": t, "cursor": c}, ret)
    ctx.prove(sess, "unwinding", And(*[Implies(o.guard, o.cond) for o in it.obl if o.kind == "unwind"]), names=names, replay=rp, desc="binary search does not terminate within the bound")
    for o in it.obl:
      if o.kind == "unwind":
        pass
    sess2 = ctx.session(inv + own_bounds(it))
    ctx.prove(sess2, "bracketing-index", cmp("==", ret, R.ref_find(S, t)), names=names, replay=rp, desc=f"_history_find_index (n={n}) does not return the index i with times[i-1] < t <= times[i] (0 / n outside the range)")
    ctx.prove(sess2, "reads-own-buffer-only", access_region(it, cell, w, off, 2 + 2 * n), names=names, replay=rp, desc="_history_find_index reads outside its buffer")

  return (f"find/n{n}", run)


def unit_read(n, dim):
  """dim = 0: _history_read_scalar; dim >= 1: _history_read_vector"""

  def run(ctx):
    from mujoco_warp._src import history as H

    fn = H._history_read_scalar if dim == 0 else H._history_read_vector
    ctx.encode(fn, H._history_find_index, H._history_physical_index)
    ctx.bound(nsample=n, dim=max(dim, 1), note="sample count / vector dim concrete; cursor, world, offset, samples, query time, interp symbolic")
    ctx.assume("cursor in [0,n), sample times strictly increasing in logical order", "interp in {0,1,2}", f"a query within {EPS} below a stored sample time (resp. within {EPS} of the oldest/newest) returns that sample (float32 time tolerance; MuJoCo compares exactly)")
    t, interp = z3.Real("t"), z3.Int("interp")
    c = z3.Int("cursor")
    sc = {"t": t, "interp": interp}
    dd = max(dim, 1)
    if dim:
      adr = z3.Int("adr")
      sc.update({"dim": dim, "adr": adr})
    w, off, args, it, ret = _func_setup(fn, n, sc)
    cell = args["buf"].cell
    S = sym_buffer(cell, w, off, n, dd, c)
    inv = invariant(cell, w, off, n, c, S) + [interp >= 0, interp <= 2]
    if dim:
      inv.append(adr >= 0)
    bg = inv + own_bounds(it)
    want = R.ref_read(S, t, interp, EPS)
    names = {"cursor": c, "t": t, "interp": interp, **{f"tau{i}": S[i][0] for i in range(n)}}
    if dim == 0:
      got = [ret]
    else:
      oc = args["sensordata_out"].cell
      got = [oc.get((w, adr + d), 0) for d in range(dim)]
    rp = func_replay(ctx, "read", n, dim, cell, w, off, sc, got)
    sess = ctx.session(bg)
    ctx.reach(sess, "twin:invariant", True)
    for ip in (0, 1, 2):
      ctx.reach(sess, f"twin:interior-query/interp{ip}", And(interp == ip, *( [t > S[0][0] + 1, t < S[n - 1][0] - 1] if n > 1 else [])))
    # split per interpolation order and bracket (keeps each nonlinear query small)
    for ip in (0, 1, 2):
      for seg in range(n + 1):
        if seg == 0:
          g = t <= S[0][0]
        elif seg == n:
          g = t > S[n - 1][0]
        else:
          g = z3.And(S[seg - 1][0] < t, t <= S[seg][0])
        for d in range(dd):
          ctx.prove(sess, f"interpolant/interp{ip}/bracket{seg}/comp{d}", cmp("==", got[d], want[d]), And(interp == ip, g), names=names, replay=rp, desc=f"{fn.key} (n={n}): value read at time t is not the {INTERP[ip]} interpolant of the bracketing samples {seg - 1},{seg}")
    ctx.prove(sess, "reads-own-buffer-only", access_region(it, cell, w, off, 2 + n + n * dd), names=names, replay=rp, desc=f"{fn.key} reads outside its buffer")
    if dim:
      ctx.prove(sess, "writes-own-sensor-slots-only", access_region(it, oc, w, adr, dim), names=names, replay=rp, desc=f"{fn.key} writes outside sensordata[adr:adr+dim]")
      ctx.prove(sess, "returns-1", cmp("==", ret, 1), names=names, replay=rp, desc="read_vector does not report success")

  return (f"read_{'scalar' if dim == 0 else f'vector/dim{dim}'}/n{n}", run)


def unit_insert(n, dim):
  """dim = 0: _history_insert_scalar; dim >= 1: _history_insert_vector"""

  def run(ctx):
    from mujoco_warp._src import history as H

    fn = H._history_insert_scalar if dim == 0 else H._history_insert_vector
    ctx.encode(fn, H._history_find_index, H._history_physical_index)
    ctx.bound(nsample=n, dim=max(dim, 1))
    ctx.assume("cursor in [0,n), sample times strictly increasing in logical order", f"an insertion within {EPS} below a stored sample time replaces that sample (float32 time tolerance; MuJoCo compares exactly)")
    t, c = z3.Real("t"), z3.Int("cursor")
    dd = max(dim, 1)
    if dim == 0:
      v = z3.Real("value")
      sc = {"t": t, "value": v}
    else:
      sadr = z3.Int("src_adr")
      sc = {"t": t, "dim": dim, "src_adr": sadr}
    w, off, args, it, ret = _func_setup(fn, n, sc)
    cell = args["buf_out"].cell
    S = sym_buffer(cell, w, off, n, dd, c)
    inv = invariant(cell, w, off, n, c, S)
    if dim == 0:
      val = [v]
    else:
      sc_cell = args["src"].cell
      inv.append(sadr >= 0)
      val = [sc_cell.get((w, sadr + d), 0, snap=sc_cell.a0) for d in range(dim)]
    bg = inv + own_bounds(it)
    S2, appended = R.ref_insert(S, t, val, EPS)
    c2 = ite(appended, ite(cmp("==", c, n - 1), 0, c + 1), c)
    Spost = post_buffer(cell, w, off, n, dd, c2)
    names = {"cursor": c, "t": t, **{f"tau{i}": S[i][0] for i in range(n)}}
    rp = func_replay(ctx, "insert", n, dim, cell, w, off, sc, None, val=val)
    sess = ctx.session(bg)
    ctx.reach(sess, "twin:invariant", True)
    ctx.reach(sess, "twin:append", appended)
    if n > 1:
      ctx.reach(sess, "twin:out-of-order", And(t > S[0][0], t < S[1][0]))
    cases = [("append", appended)]
    for i in range(n):
      cases.append((f"at-or-before{i}", (t <= S[0][0]) if i == 0 else z3.And(S[i - 1][0] < t, t <= S[i][0])))
    cur_post = cell.get((w, off + 1), 0)
    for cname, g in cases:
      ctx.prove(sess, f"samples/{cname}", seq_eq(Spost, S2), g, names=names, replay=rp, desc=f"{fn.key} (n={n}): after inserting (t, value) the buffer does not hold the n most recent samples in time order (case {cname})")
      ctx.prove(sess, f"cursor/{cname}", cmp("==", cur_post, z3.ToReal(c2)), g, names=names, replay=rp, desc=f"{fn.key} (n={n}): cursor after the insertion is not (cursor+1) mod n on append / unchanged otherwise (case {cname})")
    ctx.prove(sess, "monotone-insert-keeps-invariant", And(*[S2[i + 1][0] > S2[i][0] for i in range(n - 1)], c2 >= 0, c2 < n), True, names=names, replay=rp, desc="reference insertion does not keep the times strictly increasing")
    ctx.prove(sess, "user-slot-kept", cmp("==", cell.get((w, off), 0), cell.get((w, off), 0, snap=cell.a0)), names=names, replay=rp, desc=f"{fn.key} modifies the user slot")
    w2, j2 = z3.Int("w2"), z3.Int("j2")
    outside = z3.Not(z3.And(w2 == w, j2 >= off, j2 < off + 2 + n + n * dd))
    ctx.prove(sess, "frame/outside-buffer-unchanged", cmp("==", cell.get((w2, j2), 0), cell.get((w2, j2), 0, snap=cell.a0)), outside, names=dict(names, w2=w2, j2=j2), replay=rp, desc=f"{fn.key} writes outside its own buffer")
    ctx.prove(sess, "accesses-own-buffer-only", access_region(it, cell, w, off, 2 + n + n * dd), names=names, replay=rp, desc=f"{fn.key} accesses history outside its buffer")

  return (f"insert_{'scalar' if dim == 0 else f'vector/dim{dim}'}/n{n}", run)


# ------------------------------------------------------------------------------------------------ replay of func-level models

_WRAP = {}


def wrappers():
  """tiny kernels around the REAL wp.funcs (compiled by Warp from the current source tree)"""
  if _WRAP:
    return _WRAP
  from mujoco_warp._src import history as H

  find, rs, rv, ins, inv = H._history_find_index, H._history_read_scalar, H._history_read_vector, H._history_insert_scalar, H._history_insert_vector

  @wp.kernel
  def k_find(buf: wp.array2d[float], w: int, off: int, n: int, cursor: int, t: float, out: wp.array[int]):
    out[0] = find(buf, w, off, n, cursor, t)

  @wp.kernel
  def k_read_scalar(buf: wp.array2d[float], w: int, off: int, n: int, t: float, interp: int, out: wp.array2d[float]):
    out[w, 0] = rs(buf, w, off, n, t, interp)

  @wp.kernel
  def k_read_vector(buf: wp.array2d[float], w: int, off: int, n: int, dim: int, t: float, interp: int, out: wp.array2d[float]):
    rv(0, buf, w, off, n, dim, t, interp, out)

  @wp.kernel
  def k_insert_scalar(buf: wp.array2d[float], w: int, off: int, n: int, t: float, value: float):
    ins(w, off, n, t, value, buf)

  @wp.kernel
  def k_insert_vector(buf: wp.array2d[float], w: int, off: int, n: int, dim: int, t: float, src: wp.array2d[float]):
    inv(w, off, n, dim, t, src, 0, buf)

  _WRAP.update(find=k_find, read_scalar=k_read_scalar, read_vector=k_read_vector, insert_scalar=k_insert_scalar, insert_vector=k_insert_vector)
  return _WRAP


def func_replay(ctx, what, n, dim, cell, w, off, sc, got, val=None):
  """replay: run the REAL func (through a wrapper kernel) on the model's buffer and compare with the reference in floats
  (and, for eps-free situations, with the mujoco library)."""

  def _rp(model):
    mv = lambda x: kh.mval(model, x)
    dd = max(dim, 1)
    size = 2 + n + n * dd
    wv, offv = max(0, min(int(mv(w)), 3)), max(0, min(int(mv(off)), 8))
    # concrete buffer from the model (row wv, columns offv.. of a (wv+1) x (offv+size+2) array)
    buf = np.zeros((wv + 1, offv + size + 2), dtype=np.float32)
    buf[:] = 123.0
    for j in range(size):
      buf[wv, offv + j] = float(mv(cell.get((w, off + j), 0, snap=cell.a0)))
    cv = int(round(float(buf[wv, offv + 1])))
    _, _, S = logical_np(buf[wv, offv : offv + size].astype(np.float64), n, dd)
    tv = float(mv(sc["t"]))
    K = wrappers()
    b = wp.array(buf, dtype=float)
    text = {"what": what, "n": n, "dim": dim, "world": wv, "offset": offv, "buffer": buf[wv, offv : offv + size].tolist(), "t": tv}
    ok = True
    if what == "find":
      out = wp.zeros(1, dtype=int)
      wp.launch(K["find"], dim=1, inputs=[b, wv, offv, n, int(mv(sc["cursor"])), tv], outputs=[out])
      g, e = int(out.numpy()[0]), int(R.ref_find(S, tv))
      ok = g == e
      text.update(got=g, expected=e)
    elif what == "read":
      ip = int(mv(sc["interp"]))
      out = wp.zeros((wv + 1, dd), dtype=float)
      if dim == 0:
        wp.launch(K["read_scalar"], dim=1, inputs=[b, wv, offv, n, tv, ip], outputs=[out])
      else:
        wp.launch(K["read_vector"], dim=1, inputs=[b, wv, offv, n, dim, tv, ip], outputs=[out])
      g = out.numpy()[wv].tolist()
      e = [float(x) for x in R.ref_read(S, tv, ip, EPS)]
      ok = all(lib.approx(x, y, 1e-4, 1e-5) for x, y in zip(g, e))
      text.update(interp=ip, got=g, expected=e)
    else:
      if dim == 0:
        vv = [float(mv(val[0]))]
        wp.launch(K["insert_scalar"], dim=1, inputs=[b, wv, offv, n, tv, vv[0]])
      else:
        vv = [float(mv(x)) for x in val]
        src = wp.array(np.array([vv] * (wv + 1), dtype=np.float32), dtype=float)
        wp.launch(K["insert_vector"], dim=1, inputs=[b, wv, offv, n, dim, tv, src])
      post = b.numpy()
      S2, app = R.ref_insert(S, tv, vv, EPS)
      c2 = (cv + 1) % n if app else cv
      u1, c1, S1 = logical_np(post[wv, offv : offv + size].astype(np.float64), n, dd)
      inside = c1 == c2 and u1 == float(buf[wv, offv]) and all(lib.approx(a[0], b_[0], 1e-5, 1e-6) and all(lib.approx(x, y, 1e-5, 1e-6) for x, y in zip(a[1], b_[1])) for a, b_ in zip(S1, S2))
      mask = np.ones_like(buf, dtype=bool)
      mask[wv, offv : offv + size] = False
      outside = bool(np.all(post[mask] == buf[mask]))
      ok = inside and outside
      text.update(value=vv, got={"cursor": c1, "samples": S1, "outside_unchanged": outside}, expected={"cursor": c2, "samples": S2})
    os.makedirs(os.path.join(report.VERIF, "replays", PID), exist_ok=True)
    path = os.path.join(report.VERIF, "replays", PID, f"{ctx.unit.replace('/', '_')}.json")
    text["how"] = "launch the real history.py wp.func on this buffer (layout [user, cursor, times n, values n*dim]); expected = reference (sorted n-newest samples / interpolant)"
    with open(path, "w") as f:
      json.dump(text, f, indent=1, default=str)
    return (not ok), path

  return _rp


def main(tier, seed, only=None):
  ns = (1, 2, 3, 4) if tier == "thorough" else (1, 2, 3)
  units = [("refmodel", unit_refmodel)]
  for n in ns:
    units.append(unit_find(n))
    units.append(unit_read(n, 0))
    units.append(unit_insert(n, 0))
    for dim in (1, 2) if tier == "quick" else (1, 2, 3):
      units.append(unit_read(n, dim))
      units.append(unit_insert(n, dim))
  if only:
    units = [u for u in units if any(o in u[0] for o in only)]
  return report.run_check(PID, units, tier, seed)
