"""Thin @wp.kernel wrappers around the REAL mujoco_warp ray wp.funcs checked by C34.

Each kernel only forwards its arguments to the real function (imported from mujoco_warp at run time, so a modified tree is
what gets interpreted and what gets compiled for the replay) and stores the returned values in output arrays.
"""

import warp as wp

from mujoco_warp._src.ray import _ray_eliminate
from mujoco_warp._src.ray import _ray_map
from mujoco_warp._src.ray import _ray_quad
from mujoco_warp._src.ray import ray_box
from mujoco_warp._src.ray import ray_capsule
from mujoco_warp._src.ray import ray_cylinder
from mujoco_warp._src.ray import ray_ellipsoid
from mujoco_warp._src.ray import ray_geom
from mujoco_warp._src.ray import ray_plane
from mujoco_warp._src.ray import ray_sphere
from mujoco_warp._src.types import vec6

wp.set_module_options({"enable_backward": False})


@wp.kernel
def k_ray_eliminate(
  # Model:
  body_weldid: wp.array[int],
  geom_bodyid: wp.array[int],
  geom_matid: wp.array[int],
  geom_group: wp.array[int],
  geom_rgba: wp.array[wp.vec4],
  mat_rgba: wp.array[wp.vec4],
  # In:
  geomid: int,
  geomgroup: vec6,
  flg_static: bool,
  bodyexclude: int,
  # Out:
  elim_out: wp.array[int],
):
  r = _ray_eliminate(body_weldid, geom_bodyid, geom_matid, geom_group, geom_rgba, mat_rgba, geomid, geomgroup, flg_static, bodyexclude)
  if r:
    elim_out[0] = 1
  else:
    elim_out[0] = 0


@wp.kernel
def k_ray_map(pos: wp.vec3, mat: wp.mat33, pnt: wp.vec3, vec: wp.vec3, lpnt_out: wp.array[wp.vec3], lvec_out: wp.array[wp.vec3]):
  lpnt, lvec = _ray_map(pos, mat, pnt, vec)
  lpnt_out[0] = lpnt
  lvec_out[0] = lvec


@wp.kernel
def k_ray_quad(a: float, b: float, c: float, sol_out: wp.array[float], x_out: wp.array[wp.vec2]):
  sol, x = _ray_quad(a, b, c)
  sol_out[0] = sol
  x_out[0] = x


@wp.kernel
def k_ray_plane(pos: wp.vec3, mat: wp.mat33, size: wp.vec3, pnt: wp.vec3, vec: wp.vec3, dist_out: wp.array[float], normal_out: wp.array[wp.vec3]):
  dist, normal = ray_plane(pos, mat, size, pnt, vec)
  dist_out[0] = dist
  normal_out[0] = normal


@wp.kernel
def k_ray_sphere(pos: wp.vec3, dist_sqr: float, pnt: wp.vec3, vec: wp.vec3, dist_out: wp.array[float], normal_out: wp.array[wp.vec3]):
  dist, normal = ray_sphere(pos, dist_sqr, pnt, vec)
  dist_out[0] = dist
  normal_out[0] = normal


@wp.kernel
def k_ray_capsule(pos: wp.vec3, mat: wp.mat33, size: wp.vec3, pnt: wp.vec3, vec: wp.vec3, dist_out: wp.array[float], normal_out: wp.array[wp.vec3]):
  dist, normal = ray_capsule(pos, mat, size, pnt, vec)
  dist_out[0] = dist
  normal_out[0] = normal


@wp.kernel
def k_ray_ellipsoid(pos: wp.vec3, mat: wp.mat33, size: wp.vec3, pnt: wp.vec3, vec: wp.vec3, dist_out: wp.array[float], normal_out: wp.array[wp.vec3]):
  dist, normal = ray_ellipsoid(pos, mat, size, pnt, vec)
  dist_out[0] = dist
  normal_out[0] = normal


@wp.kernel
def k_ray_cylinder(pos: wp.vec3, mat: wp.mat33, size: wp.vec3, pnt: wp.vec3, vec: wp.vec3, dist_out: wp.array[float], normal_out: wp.array[wp.vec3]):
  dist, normal = ray_cylinder(pos, mat, size, pnt, vec)
  dist_out[0] = dist
  normal_out[0] = normal


@wp.kernel
def k_ray_box(pos: wp.vec3, mat: wp.mat33, size: wp.vec3, pnt: wp.vec3, vec: wp.vec3, dist_out: wp.array[float], all_out: wp.array[vec6], normal_out: wp.array[wp.vec3]):
  dist, all, normal = ray_box(pos, mat, size, pnt, vec)
  dist_out[0] = dist
  all_out[0] = all
  normal_out[0] = normal


@wp.kernel
def k_ray_geom(pos: wp.vec3, mat: wp.mat33, size: wp.vec3, pnt: wp.vec3, vec: wp.vec3, geomtype: int, dist_out: wp.array[float], normal_out: wp.array[wp.vec3]):
  dist, normal = ray_geom(pos, mat, size, pnt, vec, geomtype)
  dist_out[0] = dist
  normal_out[0] = normal
