"""F7 host traces (shared by C37 / C25 / C30): HostRun that also intercepts wp.capture_while and wp.launch_tiled and records,
for every launch, which arguments are inputs and which are outputs (as passed by the host code) together with the labels
of the shim Data/Model arrays bound to them."""

import dataclasses

import numpy as np
import warp as wp

from wsym import core, host
from wsym.host import Event, HostRun, SymArr


class Launch:
  """one recorded launch"""

  def __init__(self, kernel, dim, args, nin, tiled=False, loop=0):
    self.kernel, self.dim, self.args, self.nin, self.tiled, self.loop = kernel, dim, args, nin, tiled, loop
    self.params = [a.label for a in kernel.adj.args]

  @property
  def key(self):
    return self.kernel.key

  def label_of(self, a):
    return a.name_ if isinstance(a, SymArr) else None

  def bound(self):
    """[(param label, bound array label or None, is_output_position)]"""
    return [(p, self.label_of(a), i >= self.nin) for i, (p, a) in enumerate(zip(self.params, self.args))]

  def sig(self):
    """structural signature used to compare traces: kernel, dim, bound Data labels, scalar arguments"""
    out = []
    for p, a in zip(self.params, self.args):
      if isinstance(a, SymArr):
        out.append(a.name_)
      elif isinstance(a, wp.array):
        out.append(f"<array {tuple(a.shape)}>")
      elif isinstance(a, (int, float, bool, np.generic)):
        out.append(repr(a.item() if isinstance(a, np.generic) else a))
      else:
        out.append(type(a).__name__)
    return (self.kernel.key, tuple(self.dim), tuple(out))


class TraceRun(HostRun):
  """HostRun (default mode 'trace') that additionally records Launch objects in self.launches"""

  def __init__(self, mode="trace", **kw):
    super().__init__(mode=mode, **kw)
    self.launches = []
    self.loop_depth = 0
    self.others = []

  def launch(self, kernel, dim, inputs=(), outputs=(), **kw):
    inputs, outputs = list(inputs or ()), list(outputs or ())
    d = (int(dim),) if isinstance(dim, (int, np.integer)) else tuple(int(x) for x in dim)
    self.launches.append(Launch(kernel, d, inputs + outputs, len(inputs), False, self.loop_depth))
    return super().launch(kernel, dim, inputs, outputs, **kw)

  def __enter__(self):
    super().__enter__()
    hr = self
    if hasattr(wp, "capture_while"):
      self.saved["capture_while"] = wp.capture_while

      def capture_while(condition, while_body, *a, **kw):
        hr.events.append(Event("capture_while", info="begin"))
        hr.loop_depth += 1
        try:
          if hr.mode == "trace":
            while_body(*a, **kw)
          else:
            raise core.Unsupported("capture_while in exec mode")
        finally:
          hr.loop_depth -= 1
        hr.events.append(Event("capture_while", info="end"))

      wp.capture_while = capture_while
    if "launch_tiled" in self.saved:

      def launch_tiled(kernel, dim, inputs=(), outputs=(), **kw):
        inputs, outputs = list(inputs or ()), list(outputs or ())
        d = (int(dim),) if isinstance(dim, (int, np.integer)) else tuple(int(x) for x in dim)
        hr.launches.append(Launch(kernel, d, inputs + outputs, len(inputs), True, hr.loop_depth))
        hr.events.append(Event("launch_tiled", kernel, d))
        if hr.mode != "trace":
          raise core.Unsupported(f"tile kernel {kernel.key} in exec mode")

      wp.launch_tiled = launch_tiled
    return self


def shim_all(m, d, symbolic=lambda name: False):
  """shim Data (labels 'd.<field>') -- Model stays real (its arrays are converted to concrete cells when launched)"""
  return host.shim_dataclass(d, "d.", symbolic=symbolic)
