"""C11 Results are independent of parallel thread order — two-thread reduction (GPUVerify style) on every encodable kernel.

Two distinct symbolic threads t1 != t2 of one launch are executed (t1 then t2; by symmetry of the two arbitrary threads this
covers both orders) on the same symbolic state.  Race query: some array cell is accessed by both threads, at least one
access is a non-atomic write, and (for write/write) the two written values differ.  unsat for every pair of accesses =>
the threads only interact through atomic read-modify-write operations, which commute (add/min/max/or in exact arithmetic;
the slots handed out by atomic counters are a permutation, which the property allows) => every serial order gives the
same result.  Kernels whose race-freedom needs a structural invariant of the Model (tree levels, colourings) carry it as
a named precondition below; kernels not in c11_kernels.txt are outside the claim.
"""

import os

import z3

from checks import generic, lib
from wsym import core, kh, replay, report
from wsym.core import And, Not, Or, cmp, is_sym

PID = "C11"
KS = {}
LIST = os.path.join(report.VERIF, "c11_kernels.txt")


def load_list():
  if not os.path.exists(LIST):
    return None
  return {l.strip() for l in open(LIST) if l.strip() and not l.startswith("#")}


def level_invariant(kt1, label_tree, label_parent):
  """bodies of one tree level are distinct and none is the parent of another (smooth.py level kernels)"""
  lev = kt1.cell(label_tree).a0[0]
  par = kt1.cell(label_parent).a0[0]
  n = kt1.cell(label_tree).shape[0]
  x, y = z3.Ints("lx ly")
  return [
    z3.ForAll([x, y], z3.Implies(z3.And(0 <= x, x < n, 0 <= y, y < n, x != y), z3.And(z3.Select(lev, x) != z3.Select(lev, y), z3.Select(par, z3.Select(lev, x)) != z3.Select(lev, y)))),
  ]


INVARIANTS = {
  "smooth._subtree_com_acc": lambda kt: level_invariant(kt, "body_tree_", "body_parentid"),
  "smooth._crb_accumulate": lambda kt: level_invariant(kt, "body_tree_", "body_parentid"),
  "smooth._cfrc_backward": lambda kt: level_invariant(kt, "body_tree_", "body_parentid"),
}


def goal_touched(spec, pre, post):
  """replay goal: the thread stores to the cell (it no longer holds the sentinel)"""
  import numpy as np

  e = spec["env"]
  v = post[e["label"]][tuple(e["idx"])]
  still = bool(np.all(np.asarray(v) == e["sentinels"][e["label"]]))
  return still, f"{e['label']}{e['idx']} = {v} after the thread (sentinel {e['sentinels'][e['label']]})"


def unit_kernel(name):
  def run(ctx):
    k, loc, launches = KS[name]
    ctx.encode(k)
    listed = load_list()
    must = listed is not None and name in listed
    nd = lib.tid_ndim(k)
    args = kh.make_args(k, mode="array", alias_inout=True)
    replay.snapshot_initial(args)
    t1, t2 = kh.sym_tid(nd, "t1_"), kh.sym_tid(nd, "t2_")
    try:
      it1, _ = kh.run(k, args, tid=t1, unroll=2, float_uf=True)
      it2, _ = kh.run(k, args, tid=t2, unroll=2, float_uf=True)
    except core.Unsupported as ex:
      if must:
        ctx.error(f"kernel {name} is listed in c11_kernels.txt but no longer encodes: {ex}")
      else:
        ctx.notes.append(f"skipped (not encodable): {ex}")
      return
    T1 = t1 if isinstance(t1, tuple) else (t1,)
    T2 = t2 if isinstance(t2, tuple) else (t2,)
    bg = [z3.And(a >= 0, a <= 6) for a in T1 + T2] + [z3.Or(*[a != b for a, b in zip(T1, T2)])]
    seen = set()
    for v in args.values():
      if isinstance(v, core.ArrRef) and v.cell.uid not in seen:
        seen.add(v.cell.uid)
        for s in v.cell.shape:
          if is_sym(s):
            bg.append(z3.And(s >= 0, s <= 6))
    for it in (it1, it2):
      bg += [core.zbool(a) for a in it.assumes]
      for o in it.obl:
        if o.kind == "unwind":
          bg.append(core.zbool(core.Implies(o.guard, o.cond)))
        elif o.kind == "bounds":
          bg.append(core.zbool(core.Implies(o.guard, o.strict)))

    class _KT:
      pass

    kt = _KT()
    kt.kernel, kt.args, kt.tid = k, args, t1
    kt.cell = lambda label: args[label].cell
    if name in INVARIANTS:
      bg += INVARIANTS[name](kt)
      ctx.assume(f"structural invariant for {name}: bodies of one tree level are pairwise distinct and none is another's parent")
    ctx.assume("two threads of one launch, tid components in [0,6], array dims <= 6, loops <= 2 iterations, own accesses in bounds", "atomic add/sub/min/max/or commute (exact arithmetic); counters do not overflow their capacity")
    ctx.bound(threads=2, unroll=2, cap=6)
    sess = ctx.session(bg, timeout_ms=20000 if ctx.tier == "quick" else 120000)
    tw = sess.reach("twin:two-threads", True)
    ctx._rec(tw)
    if tw.status == "unsat":
      ctx.error("reachability twin unsat")
      return
    if tw.status != "sat":
      # undecided twin: a vacuous background would make 'race-free' trivially unsat -- retry once with a larger budget, and
      # claim nothing for this kernel if it stays undecided
      tw = ctx.session(bg, timeout_ms=120000).reach("twin:two-threads/retry", True)
      ctx._rec(tw)
      if tw.status == "unsat":
        ctx.error("reachability twin unsat")
        return
      if tw.status != "sat":
        ctx.notes.append(f"skipped: reachability twin of {name} undecided ({tw.status}); nothing claimed for this kernel")
        return
    confl = []
    by_cell = {}
    for a in it2.accesses:
      by_cell.setdefault(a.cell.uid, []).append(a)
    npairs = 0
    for a1 in it1.accesses:
      for a2 in by_cell.get(a1.cell.uid, []):
        k1, k2 = a1.kind, a2.kind
        if k1 == "R" and k2 == "R":
          continue
        if k1.startswith("A") and k2.startswith("A") and k1 == k2:
          continue
        same = And(a1.guard, a2.guard, *[cmp("==", i, j) for i, j in zip(a1.idx, a2.idx)])
        if same is False:
          continue
        if k1 == "W" and k2 == "W" and a1.val is not None and a2.val is not None:
          v1, v2 = a1.val, a2.val
          try:
            diff = Not(cmp("==", v1, v2))
          except Exception:
            diff = True
          same = And(same, diff)
          if same is False:
            continue
        npairs += 1
        confl.append((same, a1, a2))
    ctx.notes.append(f"{len(it1.accesses)}x{len(it2.accesses)} accesses, {npairs} candidate conflicting pairs")
    if not confl:
      res = kh.QResult("race-free", "unsat", 0.0)
      res.trivial = True
      ctx._rec(res)
      return
    goal = Not(Or(*[c[0] for c in confl]))
    rp = None
    if loc is not None:
      def rp(model, _loc=loc):
        path = replay.write_spec(PID, ctx.unit, "race", _loc, k, args, model, t1, "order", env={"tids": [list(T1), list(T2)]})
        ok, txt = replay.run_spec(path)
        if ok:
          return ok, txt
        # serial orders agree (the conflict only shows under true interleaving): confirm on the real kernel that both
        # threads really touch the cell, thread by thread
        pair = None
        for c, a1, a2 in confl:
          if z3.is_true(model.eval(core.zbool(c), model_completion=True)):
            pair = (a1, a2)
            break
        if pair is None:
          return False, txt
        confirmed = []
        for a, tid in ((pair[0], t1), (pair[1], t2)):
          idx = [kh.mval(model, i) for i in a.idx]
          if a.kind[0] in "WA":
            sp = replay.write_spec(PID, ctx.unit, f"race-touch-{a.kind[0]}", _loc, k, args, model, tid, "goal", goal="checks.worldidx:goal_foreign_write", env={"label": a.cell.name, "idx": idx, "W": -1})
          else:
            poke = 12345 if a.cell.dtype == "int" else (True if a.cell.dtype == "bool" else 1234.5)
            sp = replay.write_spec(PID, ctx.unit, "race-touch-R", _loc, k, args, model, tid, "goal", goal="checks.worldidx:goal_foreign_read", env={"label": a.cell.name, "idx": idx, "W": 0, "randomize_floats": 6, "variants": [{}, {"__poke__": [[a.cell.name, idx, None, poke]]}]})
          o2, t2x = replay.run_spec(sp)
          confirmed.append((o2, sp))
        if all(c[0] for c in confirmed):
          import json

          d = json.load(open(path))
          d["note"] = f"data race: thread {list(kh.mval(model, list(T1)))} ({pair[0].kind} {pair[0].cell.name} at {pair[0].where}) and thread {list(kh.mval(model, list(T2)))} ({pair[1].kind} {pair[1].cell.name} at {pair[1].where}) touch the same cell, one with a non-atomic store; each access confirmed on the real kernel ({confirmed[0][1]}, {confirmed[1][1]}); serial orders happen to agree, interleavings need not"
          json.dump(d, open(path, "w"), indent=1)
          return True, path
        return False, txt

    names = {f"t1_{i}": a for i, a in enumerate(T1)} | {f"t2_{i}": a for i, a in enumerate(T2)}
    res = ctx.prove(sess, "race-free", goal, True, names=names, replay=rp, desc=f"{name}: two threads of one launch conflict on an array cell through a non-atomic write (result depends on thread order)")
    if res.status == "sat":
      m = res.model
      for c, a1, a2 in confl:
        if z3.is_true(m.eval(core.zbool(c), model_completion=True)):
          ctx.notes.append(f"conflict: {a1.kind} {a1.cell.name}@{a1.where} vs {a2.kind} {a2.cell.name}@{a2.where}")
          break

  return (name, run)


def main(tier, seed, only=None):
  global KS
  KS = generic.all_kernels(with_harvest=False)
  listed = load_list()
  names = sorted(n for n in KS if "flex" not in n.lower())
  if listed is not None and not os.environ.get("C11_ALL"):
    names = [n for n in names if n in listed]
  if only:
    names = [n for n in names if any(o in n for o in only)]
  units = [unit_kernel(n) for n in names]
  rule = "one evaluation = one SMT query per kernel: 'two distinct threads of one launch access the same cell, one of them with a non-atomic write (different value for write/write)' must be unsat; the query is a disjunction over all pairs of accesses of the two symbolically executed threads; trivial = no candidate pair survives syntactic simplification"
  return report.run_check(PID, units, tier, seed, rule=rule, unit_timeout=120 if tier == "quick" else 900, on_timeout=lambda n: "error" if (listed and n in listed) else "skip")


# ------------------------------------------------------------------------------------------------------------------------
# schedule units: the tree-structured smooth-dynamics stages under different serial thread orders.
# Their order-independence rests on layout tables put_model derives with numpy (tree levels, root-to-leaf branches);
# instead of assuming a contract for those tables the REAL tables of the current tree are used: the real host stages are
# run in the interpreter on fork-shaped models, once per thread order, with every cell they write holding a symbolic stale
# value (what an earlier step left there).  Every result must be the same term in all orders (a thread that consumes
# another thread's output of the same launch shows up as a stale symbol in one order and a value in the other).

SCHED_MODELS = {
  "fork": """<mujoco><option gravity="0 0 -9.81"/><worldbody>
<body name="trunk" pos="0 0 1"><joint name="j0" axis="0 1 0"/><geom size=".1" mass="1"/>
  <body name="l1" pos=".3 0 0"><joint name="j1" axis="0 1 0"/><geom size=".08" mass=".5"/>
    <body name="l2" pos=".3 0 0"><joint name="j2" type="slide" axis="1 0 0"/><geom size=".05" mass=".2"/></body></body>
  <body name="r1" pos="-.3 0 0"><joint name="j3" axis="1 0 0"/><geom size=".08" mass=".5"/>
    <body name="r2" pos="-.3 0 .1"><joint name="j4" type="ball"/><geom size=".05" mass=".2"/></body></body></body>
<body name="free" pos="2 0 1"><freejoint/><geom size=".1" mass="1"/><body pos=".2 0 0"><joint axis="0 0 1"/><geom size=".05" mass=".1"/></body></body>
</worldbody></mujoco>""",
}
SCHED_STAGES = ["kinematics", "com_pos", "crb", "com_vel", "rne"]


def _sched_build(mname):
  import mujoco
  import numpy as np

  import mujoco_warp as mjw

  mjm = mujoco.MjModel.from_xml_string(SCHED_MODELS[mname])
  mjd = mujoco.MjData(mjm)
  rng = np.random.default_rng(3)
  mjd.qpos[:] = mjd.qpos + 0.3 * rng.standard_normal(mjm.nq)
  for j in range(mjm.njnt):
    if mjm.jnt_type[j] in (0, 1):
      a = mjm.jnt_qposadr[j] + (3 if mjm.jnt_type[j] == 0 else 0)
      mjd.qpos[a : a + 4] /= np.linalg.norm(mjd.qpos[a : a + 4])
  mjd.qvel[:] = 0.5 * rng.standard_normal(mjm.nv)
  mujoco.mj_forward(mjm, mjd)
  m = mjw.put_model(mjm)
  d = mjw.put_data(mjm, mjd, nworld=1)
  return mjm, mjd, m, d


def _sched_run(m, d, order, wmasks=None):
  """-> (arrays dict, HostRun).  wmasks None: concrete pass with write tracking."""
  from mujoco_warp._src import smooth
  from wsym import host

  d2 = host.shim_dataclass(d, "d.", symbolic=lambda n: False)
  arrs = host.arrays_of(d2)
  if wmasks is None:
    for a in arrs.values():
      a.ref.cell.wmask = [False] * a.ref.cell.size
  else:
    for n, a in arrs.items():
      c = a.ref.cell
      wm = wmasks.get(n)
      if not wm or n in ("qpos", "qvel", "qacc", "time", "mocap_pos", "mocap_quat"):
        continue
      for f in range(c.size):
        if wm[f]:
          for kk in range(c.ncomp):
            c.d[kk][f] = z3.Const(f"stale:{n}{list(c.unflat(f))}" + (f"#{kk}" if c.ncomp > 1 else ""), c.sort)
      c.d0 = [list(x) for x in c.d]
  with host.HostRun(mode="exec", order=order, max_threads=100000) as hr:
    for st in SCHED_STAGES:
      getattr(smooth, st)(m, d2)
  return arrs, hr


def unit_schedule(mname, order_name):
  def run(ctx):
    import numpy as np

    from mujoco_warp._src import smooth

    order = {"rev": "rev", "rot": (lambda t: t[len(t) // 2 :] + t[: len(t) // 2]), "evenodd": (lambda t: t[1::2] + t[0::2])}[order_name]
    mjm, mjd, m, d = _sched_build(mname)
    for st in SCHED_STAGES:
      ctx.encode(getattr(smooth, st))
    ctx.bound(model=mname, nbody=int(mjm.nbody), nv=int(mjm.nv), nworld=1, order=order_name, stages=",".join(SCHED_STAGES))
    ctx.assume("integration state concrete; every cell the stages write holds an arbitrary (symbolic) stale value beforehand", "thread orders compared: ascending vs " + order_name + " (serial schedules of each launch)", "float sums reordered by atomic adds compared with 1e-9 relative tolerance when both orders are concrete")
    arrs0, hr0 = _sched_run(m, d, "asc", None)
    wm = {n: list(a.ref.cell.wmask) for n, a in arrs0.items()}
    A, hA = _sched_run(m, d, "asc", wm)
    B, hB = _sched_run(m, d, order, wm)
    for e in hA.events:
      if e.kind == "launch":
        ctx.encode(e.kernel)
    sess = ctx.session([core.zbool(x) for x in hA.assumes + hB.assumes])
    ctx.reach(sess, "twin:run", True)
    nconc = 0
    for n in A:
      ca, cb = A[n].ref.cell, B[n].ref.cell
      if ca.size == 0 or not any(wm.get(n, [])):
        continue
      goals = []
      for kk in range(ca.ncomp):
        for f in range(ca.size):
          if not wm[n][f]:
            continue
          x, y = ca.d[kk][f], cb.d[kk][f]
          if not is_sym(x) and not is_sym(y):
            nconc += 1
            if isinstance(x, float) or isinstance(y, float):
              ok = abs(float(x) - float(y)) <= 1e-9 * (1.0 + abs(float(x)) + abs(float(y)))
            else:
              ok = x == y
            if not ok:
              goals.append(z3.BoolVal(False))
            continue
          goals.append(core.zbool(cmp("==", x, y)))
      if not goals:
        res = kh.QResult(f"same-result/{n}", "unsat", 0.0)
        res.trivial = True
        ctx._rec(res)
        continue
      ctx.prove(sess, f"same-result/{n}", z3.And(*goals), True, replay=_sched_replay(mname, order_name, n), desc=f"smooth-dynamics stages give a different {n} when the threads of each launch run in '{order_name}' order instead of ascending (a thread consumes what another thread of the same launch writes)")
    ctx.notes.append(f"{nconc} result cells concrete in both orders; {hA.nthreads}+{hB.nthreads} threads interpreted")

  return (f"schedule/{mname}/{order_name}", run)


class OrderedRealRun:
  """run real host code with every wp.launch replaced by single-thread launches of the REAL compiled kernel in a given order"""

  def __init__(self, order):
    self.order = order
    self.cache = {}

  def __enter__(self):
    import itertools

    import numpy as np
    import warp as wp

    self.wp = wp
    self.orig = wp.launch
    me = self

    def launch(kernel, dim, inputs=(), outputs=(), **kw):
      d = (int(dim),) if isinstance(dim, (int, np.integer)) else tuple(int(x) for x in dim)
      if kernel.key not in me.cache:
        me.cache[kernel.key] = replay.single_thread_kernel(kernel)
      st, nd = me.cache[kernel.key]
      tids = list(itertools.product(*[range(n) for n in d]))
      if me.order == "rev":
        tids.reverse()
      elif callable(me.order):
        tids = list(me.order(tids))
      args = list(inputs or ()) + list(outputs or ())
      for t in tids:
        tt = list(t)[:nd] + [0] * max(0, nd - len(t))
        me.orig(st, dim=1, inputs=args + [int(x) for x in tt])

    wp.launch = launch
    return self

  def __exit__(self, *a):
    self.wp.launch = self.orig
    return False


def _sched_replay(mname, order_name, arrname):
  def _rp(model):
    import json

    import numpy as np

    import mujoco_warp as mjw
    from mujoco_warp._src import smooth

    order = {"rev": "rev", "rot": (lambda t: t[len(t) // 2 :] + t[: len(t) // 2]), "evenodd": (lambda t: t[1::2] + t[0::2])}[order_name]
    res = []
    for o in ("asc", order):
      mjm, mjd, m, d = _sched_build(mname)
      # stale leftovers of a different earlier state: every float result array shifted
      for n in ("xpos", "xquat", "xmat", "xipos", "ximat", "xanchor", "xaxis", "subtree_com", "cinert", "cdof", "cvel", "cdof_dot", "cacc", "cfrc_int", "crb", "qfrc_bias"):
        a = getattr(d, n, None)
        if a is not None and a.size:
          a.assign(a.numpy() * 0.5 + 0.25)
      with OrderedRealRun(o):
        for st in SCHED_STAGES:
          getattr(smooth, st)(m, d)
      res.append(getattr(d, arrname).numpy().copy())
    same = np.allclose(res[0], res[1], rtol=1e-5, atol=1e-6, equal_nan=True)
    os.makedirs(os.path.join(report.VERIF, "replays", PID), exist_ok=True)
    path = os.path.join(report.VERIF, "replays", PID, f"schedule.{mname}.{order_name}.{arrname}.json")
    json.dump({"property": PID, "how": f"real kernels of stages {SCHED_STAGES} executed thread by thread (single-thread launches of the real compiled kernels) in ascending vs '{order_name}' order from the same Data (stale result arrays from another state); compare {arrname}", "ascending": res[0].tolist(), "other": res[1].tolist()}, open(path, "w"))
    return (not same), path

  return _rp


def unit_contact_jac_order():
  """Cross-launch schedule property: efc rows of contacts are handed out by atomic_add in _efc_contact_init, so the contact ids
  along the efc rows of a world are in WHATEVER order those threads ran.  The dense contact Jacobian kernel walks the rows of a
  world serially and caches per-contact tiles: the row it writes must depend only on that row's own contact, not on which
  contact the previous rows belong to (decided with the block-collective tile interpreter; replay = real kernel, launch_tiled)."""

  def run(ctx):
    import json

    import numpy as np
    import warp as wp

    from mujoco_warp._src import constraint, support, types
    from wsym import tiles

    TS, NV, NJ, NC, NB = 2, 2, 3, 3, 3
    k = constraint._efc_contact_jac_dense(TS, types.ConeType.PYRAMIDAL)
    locator = f"mujoco_warp._src.constraint:_efc_contact_jac_dense({TS}, types.ConeType.PYRAMIDAL)"
    ctx.encode(k, support._compute_jacp, support._compute_jacr)
    ctx.bound(tile_size=TS, nv=NV, njmax=NJ, ncon=NC, nbody=NB, rows=2, note="one block (world 0, dof block 0), one lane; two contact rows, condim 1 each (pyramidal)")
    shapes = {"body_rootid": [NB], "geom_bodyid": [NB], "body_isdofancestor": [NB, NV], "ne_in": [1], "nf_in": [1], "nl_in": [1], "nefc_in": [1], "qvel_in": [1, NV], "subtree_com_in": [1, NB], "cdof_in": [1, NV],
              "contact_efc_address_in": [NC, 10], "efc_id_in": [1, NJ], "condim_in": [NC], "geom_in": [NC], "pos_in": [NC], "frame_in": [NC, 3], "friction_in": [NC, 5], "efc_J_out": [1, NJ, NV], "efc_Jqvel_out": [1, NJ]}
    args = kh.make_args(k, shapes=shapes, scalars={"njmax_in": NJ, "nv_padded": NV}, mode="dense")
    replay.snapshot_initial(args)
    cell = lambda lab: args[lab].cell
    pre = lambda lab, *i: cell(lab).d0[0][cell(lab).flat(i)]
    it, _ = kh.run(k, args, tid=(0, 0, 0), interp=tiles.BlockInterp(unroll=NJ, float_uf=True))  # float products uninterpreted: the claim is about WHICH data a row uses
    c0, c1 = pre("efc_id_in", 0, 0), pre("efc_id_in", 0, 1)
    geoms = [x for c in range(NC) for x in (cell("geom_in").d0[0][c], cell("geom_in").d0[1][c])]
    bg = [core.zbool(a) for a in it.assumes] + [pre("ne_in", 0) == 0, pre("nf_in", 0) == 0, pre("nl_in", 0) == 0, pre("nefc_in", 0) == 2, c0 >= 0, c0 < NC, c1 >= 0, c1 < NC, c0 != c1]
    bg += [z3.And(g >= 0, g < NB) for g in geoms] + [z3.And(x >= 0, x < NB) for x in cell("geom_bodyid").d0[0]] + [z3.And(x >= 0, x < NB) for x in cell("body_rootid").d0[0]] + [x == 1 for x in cell("condim_in").d0[0]]
    ctx.assume("two live contact rows (ne = nf = nl = 0, nefc = 2) of two different contacts with condim 1; ids in range", "the contact ids of rows 0 and 1 are in ARBITRARY order (any schedule of _efc_contact_init)")
    other = z3.Int("contact_of_row0_other")
    sub = lambda e: z3.substitute(core.to_z3(e), (c0, other))
    sess = ctx.session(bg + [sub(b) for b in bg] + [other >= 0, other < NC, other != c1])
    ctx.reach(sess, "twin:descending-contact-ids", z3.And(c0 > c1, other < c1))

    def rp(model):
      conc = replay.concretize_args(model, k, args)
      specs = kh.arg_specs(k)
      kern = replay.locate(locator)
      rng = np.random.default_rng(11)
      outs = []
      rows0 = [int(kh.mval(model, c0)), int(kh.mval(model, other))]
      floats = None
      for r0 in rows0:
        vals, arrays = replay.build_arrays(conc, specs)
        if floats is None:
          floats = {lab: rng.uniform(0.3, 1.5, size=a.numpy().shape).astype(a.numpy().dtype) for lab, a in arrays.items() if a.numpy().dtype.kind == "f"}
        for lab, v in floats.items():
          arrays[lab].assign(v)
        ids = arrays["efc_id_in"].numpy()
        ids[0, 0] = r0
        arrays["efc_id_in"].assign(ids)
        # a non-degenerate instance of the integer structure (the solver's model may make every contact geometrically identical
        # under uninterpreted float products): distinct bodies / roots per contact, every dof moves every body
        arrays["body_isdofancestor"].assign(np.ones((NB, NV), dtype=np.int32))
        arrays["geom_bodyid"].assign(np.arange(NB, dtype=np.int32))
        arrays["body_rootid"].assign(np.arange(NB, dtype=np.int32))
        arrays["geom_in"].assign(np.array([[c, (c + 1) % NB] for c in range(NC)], dtype=np.int32))
        arrays["efc_J_out"].fill_(0.0)
        arrays["efc_Jqvel_out"].fill_(0.0)
        nin = len(vals) - 2
        wp.launch_tiled(kern, dim=(1, 1), inputs=vals[:nin], outputs=vals[nin:], block_dim=32, device="cpu")
        wp.synchronize()
        outs.append(arrays["efc_J_out"].numpy()[0, 1].copy())
      bad = not np.allclose(outs[0], outs[1], rtol=1e-5, atol=1e-6)
      path = os.path.join(report.VERIF, "replays", PID, "contact_jac_order.json")
      os.makedirs(os.path.dirname(path), exist_ok=True)
      json.dump({"property": PID, "kernel": locator, "how": "wp.launch_tiled(kernel, dim=(1, 1), block_dim=32) twice on identical arrays except efc_id[0, 0] (the contact that owns the PREVIOUS row)", "contact of row 1": int(kh.mval(model, c1)), "contact of row 0 in the two runs": rows0, "efc_J row 1 in the two runs": [o.tolist() for o in outs]}, open(path, "w"), indent=1)
      return bad, path

    for j in range(NV):
      Jv = cell("efc_J_out").d[0][cell("efc_J_out").flat((0, 1, j))]
      ctx.prove(sess, f"row-depends-only-on-own-contact/J[1,{j}]", core.to_z3(Jv) == sub(Jv), True, names={"contact_row0": c0, "contact_row1": c1, "contact_row0_other": other}, replay=rp,
                desc="_efc_contact_jac_dense: the Jacobian row of a contact depends on which contact owns the previous efc row (per-contact tiles not refreshed): results depend on the thread order of the row allocation launch")

  return ("schedule/contact-jac-dense/row-order", run)


_old_main = main


def main(tier, seed, only=None):
  global KS
  KS = generic.all_kernels(with_harvest=False)
  listed = load_list()
  names = sorted(n for n in KS if "flex" not in n.lower())
  if listed is not None and not os.environ.get("C11_ALL"):
    names = [n for n in names if n in listed]
  units = [unit_schedule("fork", o) for o in (("rev", "rot", "evenodd") if tier == "thorough" else ("rev", "evenodd"))]
  units.append(unit_contact_jac_order())
  units += [unit_kernel(n) for n in names]
  if only:
    units = [u for u in units if any(o in u[0] for o in only)]
  rule = "one evaluation = one SMT query: (kernel units) 'two distinct threads of one launch access the same cell, one of them with a non-atomic write' must be unsat — a disjunction over all pairs of accesses of the two symbolically executed threads; (schedule units) 'a result array of the tree-structured stages differs between two serial thread orders for some stale pre-content' must be unsat"
  return report.run_check(PID, units, tier, seed, rule=rule, unit_timeout=600 if tier == "quick" else 1800, on_timeout=lambda n: "error" if (n.startswith("schedule/") or (listed and n in listed)) else "skip")
