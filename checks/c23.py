"""C23 Rotations stay valid.

Solver queries (nonlinear real arithmetic, floats = reals) on the REAL functions / kernels:
 contract/*        discharged once on the real wp.func alone:
                     quat_to_mat:  R R^T = |q|^4 I and det R = |q|^6 (polynomial identities => unit q gives a proper rotation)
                     mul_quat:     |p*q|^2 = |p|^2 |q|^2
                     axis_angle_to_quat: unit axis (or zero axis with zero angle) => unit quaternion   (sin^2+cos^2=1 of the half angle)
                     normalize:    x != 0 => unit result (model of the Warp builtin, compared with the real builtin incl. x = 0)
                     quat_integrate: unit result for EVERY q (incl. q = 0 and unnormalised q), v, dt  -- compositional
 next_position/*   _next_position writes quat_integrate(q, w*scale, h) to exactly the 4 quaternion slots of a FREE / BALL joint
                   (=> unit norm after the step), pos + h*v to the 3 translational slots, qpos + h*qvel for slide/hinge, nothing else
 kinematics/*      every xquat written by _kinematics_branch has unit norm (free: normalize(qpos quat); other bodies:
                   normalize(parent * body_quat * joint rotations)), given unit parent xquat / non-zero model quaternions / unit joint axes
 frames/*          xmat, ximat, geom_xmat, site_xmat, cam_xmat (fixed / tracking cameras) written by the kinematics kernels are
                   proper rotations (R R^T = I, det = 1) given unit xquat and unit model quaternions
 zero-quat         what the real code does for a zero quaternion (it stays a valid rotation; MuJoCo parity is C08's business)
"""

import json
import os

import numpy as np
import z3

from checks import lib
from checks import quat_c23 as Q
from wsym import core, kh, report
from wsym.core import And, Implies, Not, Or, Vec, arith, cmp

PID = "C23"
R = z3.RealSort()


def qv(name, n=4, dt="quat"):
  return Vec([z3.Real(f"{name}{i}") for i in range(n)], (n,), dt)


def _save(name, obj):
  d = os.path.join(report.VERIF, "replays", PID)
  os.makedirs(d, exist_ok=True)
  p = os.path.join(d, name.replace("/", "_") + ".json")
  with open(p, "w") as f:
    json.dump(obj, f, indent=1, default=str)
  return p


def _mv(model, v):
  return Q.clipf(kh.mval(model, v))


# ------------------------------------------------------------------------------------------------ contracts


def unit_contract_quat_to_mat(ctx):
  from mujoco_warp._src import math as M

  ctx.encode(M.quat_to_mat)
  ctx.assume("floats are reals")
  q = qv("q")
  it, m = kh.run(M.quat_to_mat, [q])
  sess = ctx.session(it.assumes)
  ctx.reach(sess, "twin:unit-q", Q.sq(q) == 1)
  N = Q.sq(q)

  def rp(kind, i=0, j=0):
    def _r(model):
      qq = _mv(model, q)
      n = np.linalg.norm(qq)
      qq = qq / n if n > 1e-6 else np.array([1.0, 0, 0, 0])
      Rm = Q.real("quat_to_mat", qq)
      err = max(np.abs(Rm @ Rm.T - np.eye(3)).max(), abs(np.linalg.det(Rm) - 1))
      p = _save(f"contract.quat_to_mat.{kind}{i}{j}", {"q": qq.tolist(), "R": Rm.tolist(), "err": err, "how": "math.quat_to_mat(q) on the unit quaternion q; R R^T and det R"})
      return err > 1e-4, p

    return _r

  for i in range(3):
    for j in range(i, 3):
      g = core.sumv([arith("*", m.c[i * 3 + k], m.c[j * 3 + k]) for k in range(3)]) == (N * N if i == j else 0)
      ctx.prove(sess, f"RRt[{i}{j}]=|q|^4*I", g, names={f"q{k}": q.c[k] for k in range(4)}, replay=rp("rrt", i, j), desc="quat_to_mat of a unit quaternion is not orthonormal")
  ctx.prove(sess, "det=|q|^6", Q.det3(m.c) == N * N * N, names={f"q{k}": q.c[k] for k in range(4)}, replay=rp("det"), desc="quat_to_mat of a unit quaternion has determinant != 1")


def unit_contract_mul_quat(ctx):
  from mujoco_warp._src import math as M

  ctx.encode(M.mul_quat)
  a, b = qv("a"), qv("b")
  it, p = kh.run(M.mul_quat, [a, b])
  sess = ctx.session(it.assumes)
  ctx.reach(sess, "twin:any", True)

  def rp(model):
    aa, bb = _mv(model, a), _mv(model, b)
    o = Q.real("mul_quat", aa, bb)
    lhs, rhs = float(o @ o), float((aa @ aa) * (bb @ bb))
    path = _save("contract.mul_quat", {"a": aa.tolist(), "b": bb.tolist(), "out": o.tolist(), "|out|^2": lhs, "|a|^2|b|^2": rhs})
    return (not lib.approx(lhs, rhs)), path

  ctx.prove(sess, "norm-product", Q.sq(p) == Q.sq(a) * Q.sq(b), names={"a": a.c[0]}, replay=rp, desc="mul_quat: |a*b|^2 != |a|^2 |b|^2 (a product of unit quaternions is not unit)")
  # the multiplication-free consequences used by the kernel-level units
  A, B, O = z3.Reals("A B O")
  s2 = ctx.session([O == A * B])
  ctx.prove(s2, "consequence/unit*unit=unit", O == 1, z3.And(A == 1, B == 1), replay=lambda m: (False, "arithmetic lemma"))
  ctx.prove(s2, "consequence/nonzero*nonzero=nonzero", O != 0, z3.And(A != 0, B != 0), replay=lambda m: (False, "arithmetic lemma"))


def unit_contract_axis_angle(ctx):
  from mujoco_warp._src import math as M

  ctx.encode(M.axis_angle_to_quat)
  ctx.assume("sin^2 + cos^2 = 1 for equal arguments, sin 0 = 0, cos 0 = 1 (facts about the uninterpreted sin/cos)")
  ax, ang = qv("ax", 3, "f"), z3.Real("angle")
  it, r = kh.run(M.axis_angle_to_quat, [ax, ang])
  sess = ctx.session(it.assumes)
  pre = z3.Or(Q.sq(ax) == 1, z3.And(Q.is_zero(ax), ang == 0))
  ctx.reach(sess, "twin:unit-axis", Q.sq(ax) == 1)

  def rp(model):
    a, g = _mv(model, ax), float(_mv(model, ang))
    n = np.linalg.norm(a)
    a = a / n if n > 1e-6 else a * 0
    g = g if n > 1e-6 else 0.0
    o = Q.real("axis_angle_to_quat", a, g)
    path = _save("contract.axis_angle", {"axis": a.tolist(), "angle": g, "out": o.tolist(), "|out|^2": float(o @ o)})
    return (not lib.approx(float(o @ o), 1.0)), path

  ctx.prove(sess, "unit", Q.sq(r) == 1, pre, names={"angle": ang}, replay=rp, desc="axis_angle_to_quat of a unit axis is not a unit quaternion")


def unit_contract_normalize(ctx):
  ctx.assume("wp.normalize is a Warp builtin: its model (x/|x|, zero vector -> 0, zero quaternion -> (0,0,0,1)) is compared with the real builtin on concrete inputs")
  # concrete comparison of the builtin's model with the real builtin (incl. zero)
  rng = np.random.default_rng(ctx.seed)
  for t in range(6):
    x = rng.normal(size=4) * 10.0 ** rng.integers(-3, 3)
    if t == 0:
      x = np.zeros(4)
    for nm, n in (("normalize_q", 4), ("normalize_v", 3)):
      got = Q.real(nm, x[:n])
      it = Q.CInterp(normalize_contract=False)
      want = it.builtin(None, "normalize", [Vec([float(c) for c in x[:n]], (n,), "quat" if n == 4 else "f")], None)
      want = np.array([float(c) for c in want.c])
      if not np.allclose(got, want, rtol=1e-4, atol=1e-6):
        ctx.error(f"model of wp.normalize disagrees with the real builtin on {x[:n].tolist()}: real {got.tolist()} model {want.tolist()}")
  for nm, n, dt in (("quat", 4, "quat"), ("vec3", 3, "f")):
    # o_i = x_i / l with l >= 0, l*l = |x|^2, multiplied out: o_i * l = x_i
    x, o, l = qv("x", n, dt), qv("o", n, dt), z3.Real("l")
    sess = ctx.session([l >= 0, l * l == Q.sq(x)] + [oc * l == xc for oc, xc in zip(o.c, x.c)])
    ctx.reach(sess, f"twin:{nm}", Q.sq(x) != 0)
    ctx.prove(sess, f"{nm}:nonzero=>unit", Q.sq(o) * l * l == l * l, Q.sq(x) != 0, names={"x0": x.c[0]}, replay=lambda m: (False, "model of a builtin"), desc="normalize(x) is not unit")
    ctx.prove(sess, f"{nm}:unit=>unchanged", And(*[oc == xc for oc, xc in zip(o.c, x.c)]), Q.sq(x) == 1, replay=lambda m: (False, "model of a builtin"), desc="normalize(x) != x for |x| = 1")
    ctx.prove(sess, f"{nm}:nonzero=>l>0", l > 0, Q.sq(x) != 0, replay=lambda m: (False, "model of a builtin"), desc="|x| = 0 for x != 0")


def unit_contract_quat_integrate(ctx):
  from mujoco_warp._src import math as M

  ctx.encode(M.quat_integrate)
  ctx.assume("contracts of normalize, mul_quat, axis_angle_to_quat (units contract/*)")
  ctx.bound(composition="quat_integrate is run with its callees replaced by their contracts (inlined end-to-end the query is beyond nlsat)")
  q, v, dt = qv("q"), qv("v", 3, "f"), z3.Real("dt")
  it = Q.CInterp(summaries=Q.summaries("mul_quat", "axis_angle_to_quat"))
  it, r = kh.run(M.quat_integrate, [q, v, dt], interp=it)
  sess = ctx.session(it.assumes)
  ctx.reach(sess, "twin:unnormalised-q", And(q.c[0] == 2, q.c[1] == 0, q.c[2] == 0, q.c[3] == 0, v.c[0] == 1, v.c[1] == 0, v.c[2] == 0, dt == 1))
  ctx.reach(sess, "twin:zero-q", Q.is_zero(q))
  names = {f"q{k}": q.c[k] for k in range(4)} | {f"v{k}": v.c[k] for k in range(3)} | {"dt": dt}

  def rp(model):
    qq, vv, h = _mv(model, q), _mv(model, v, ), float(Q.clipf(kh.mval(model, dt), 10))
    o = Q.real("quat_integrate", qq, vv, h)
    path = _save("contract.quat_integrate", {"q": qq.tolist(), "v": vv.tolist(), "dt": h, "out": o.tolist(), "|out|^2": float(o @ o), "how": "math.quat_integrate(q, v, dt) compiled by Warp (float32)"})
    return (not lib.approx(float(o @ o), 1.0)), path

  ctx.prove(sess, "unit/q!=0", Q.sq(r) == 1, Q.sq(q) != 0, names=names, replay=rp, desc="quat_integrate returns a non-unit quaternion")
  ctx.prove(sess, "unit/zero-quat", Q.sq(r) == 1, Q.is_zero(q), names=names, replay=rp, desc="quat_integrate of the zero quaternion is not a unit quaternion")
  # numeric: the real function on a few unnormalised inputs incl. zero (validation of the composition, not the deciding step)
  rng = np.random.default_rng(ctx.seed + 1)
  for t in range(8):
    qq = rng.normal(size=4) * 10.0 ** rng.integers(-2, 3) if t else np.zeros(4)
    o = Q.real("quat_integrate", qq, rng.normal(size=3) * (t % 3), 0.01 * t)
    if not lib.approx(float(o @ o), 1.0):
      ctx.error(f"real quat_integrate({qq.tolist()}) has |out|^2 = {float(o @ o)} although the query proved unit norm")


# ------------------------------------------------------------------------------------------------ _next_position


def goal_next_position(spec, pre, post):
  """replay goal for _next_position: quaternion slots unit, scalar slots = q + h*v*scale, nothing else written"""
  e = spec["env"]
  w, j = spec["tid"][0], spec["tid"][1]
  jt, qa, da = int(pre["jnt_type"][j]), int(pre["jnt_qposadr"][j]), int(pre["jnt_dofadr"][j])
  ts = float(pre["opt_timestep"][w % len(pre["opt_timestep"])])
  scale = float(spec["args"]["qvel_scale_in"]["scalar"])
  qin, qout, qv_ = pre["qpos_in"][w].astype(float), post["qpos_out"][w].astype(float), pre["qvel_in"][w].astype(float)
  width = {0: 7, 1: 4}.get(jt, 1)
  msgs = []
  ok = True
  if jt in (0, 1):
    o = 3 if jt == 0 else 0
    quat = qout[qa + o : qa + o + 4]
    n2 = float(quat @ quat)
    if not lib.approx(n2, 1.0):
      ok = False
    msgs.append(f"quaternion slots qpos[{qa + o}:{qa + o + 4}] = {quat.tolist()} |.|^2 = {n2}")
    if jt == 0:
      want = qin[qa : qa + 3] + ts * qv_[da : da + 3] * scale
      if not np.allclose(qout[qa : qa + 3], want, rtol=1e-4, atol=1e-5):
        ok = False
      msgs.append(f"translation {qout[qa : qa + 3].tolist()} expected {want.tolist()}")
  else:
    want = qin[qa] + ts * qv_[da] * scale
    if not lib.approx(qout[qa], want):
      ok = False
    msgs.append(f"qpos[{qa}] = {qout[qa]} expected {want}")
  before = pre["qpos_out"]
  after = post["qpos_out"]
  for ww in range(after.shape[0]):
    for i in range(after.shape[1]):
      if (ww != w or not (qa <= i < qa + width)) and after[ww, i] != before[ww, i]:
        ok = False
        msgs.append(f"qpos[{ww},{i}] changed {before[ww, i]} -> {after[ww, i]} (outside the joint's slots)")
  return ok, "; ".join(msgs)


def unit_next_position(alias):
  def run(ctx):
    from mujoco_warp._src import forward, math as M, types

    k = forward._next_position
    ctx.encode(k, M.quat_integrate)
    ctx.assume("quat_integrate contract (unit contract/quat_integrate): unit result", "thread's own accesses in bounds (C17)", "jnt_type in {FREE, BALL, SLIDE, HINGE}")
    ctx.bound(shape_cap=12, aliasing="qpos_in is qpos_out" if alias else "qpos_in and qpos_out distinct arrays (RK4 stage)")
    it = Q.CInterp(summaries=Q.summaries("quat_integrate"), norm="uf")
    kt = lib.kernel_thread(k, alias_inout=alias, cap=12, interp_kw={"interp": it})
    w, j = kt.tid
    JT = types.JointType
    T, qa, da = kt.pre("jnt_type", j), kt.pre("jnt_qposadr", j), kt.pre("jnt_dofadr", j)
    ts = kt.pre("opt_timestep", arith("%", w, kt.cell("opt_timestep").shape[0]))
    scale = kt.args["qvel_scale_in"]
    qp = lambda i: kt.pre("qpos_in", w, arith("+", qa, i))
    qn = lambda i: kt.post("qpos_out", w, arith("+", qa, i))
    vel = lambda i: kt.pre("qvel_in", w, arith("+", da, i))
    sess = ctx.session(kt.bg + [z3.Or(*[T == int(x) for x in (JT.FREE, JT.BALL, JT.SLIDE, JT.HINGE)])])
    loc = "mujoco_warp._src.forward:_next_position"
    names = {"w": w, "j": j, "type": T, "qposadr": qa, "dofadr": da}
    rp = lambda n: lib.make_replay(ctx, kt, loc, n, "goal", goal="checks.c23:goal_next_position", env={})
    for nm, tv, off in (("free", int(JT.FREE), 3), ("ball", int(JT.BALL), 0)):
      ctx.reach(sess, f"twin:{nm}", T == tv)
      qin = Vec([qp(off + i) for i in range(4)], (4,), "quat")
      vin = Vec([arith("*", vel(off + i), scale) for i in range(3)], (3,), "f")
      ref = Q.qi_uf(qin, vin, ts)
      for i in range(4):
        ctx.prove(sess, f"{nm}/quat-slot[{i}]=quat_integrate", qn(off + i) == ref.c[i], T == tv, names=names, replay=rp(f"{nm}.slot{i}"), desc=f"_next_position ({nm} joint): quaternion slot {i} is not quat_integrate(q, w*scale, h)[{i}]")
      ctx.prove(sess, f"{nm}/unit-after-step", Q.nsq_uf(Vec([qn(off + i) for i in range(4)], (4,), "quat")) == 1, T == tv, names=names, replay=rp(f"{nm}.unit"), desc=f"_next_position ({nm} joint): quaternion in qpos is not unit after the step")
    for i in range(3):
      ctx.prove(sess, f"free/pos[{i}]", qn(i) == qp(i) + ts * vel(i) * scale, T == int(JT.FREE), names=names, replay=rp(f"free.pos{i}"), desc="_next_position (free joint): translational slot is not pos + h*v")
    scalar = z3.Or(T == int(JT.SLIDE), T == int(JT.HINGE))
    ctx.reach(sess, "twin:scalar", scalar)
    ctx.prove(sess, "scalar/qpos+h*qvel", qn(0) == qp(0) + ts * vel(0) * scale, scalar, names=names, replay=rp("scalar"), desc="_next_position (slide/hinge): qpos_next != qpos + h*qvel*scale")
    w2, i2 = z3.Int("w2"), z3.Int("i2")
    width = z3.If(T == int(JT.FREE), 7, z3.If(T == int(JT.BALL), 4, 1))
    inside = z3.And(w2 == w, i2 >= qa, i2 < qa + width)
    ctx.prove(sess, "frame/only-own-slots-written", Implies(kt.written("qpos_out", w2, i2), inside), names=dict(names, w2=w2, i2=i2), replay=rp("frame"), desc="_next_position writes a qpos cell outside the joint's own slots")
    ctx.prove(sess, "frame/all-own-slots-written", kt.written("qpos_out", w2, i2), inside, names=dict(names, w2=w2, i2=i2), replay=rp("frame2"), desc="_next_position leaves one of the joint's qpos slots unwritten")

  return (f"next_position/{'inplace' if alias else 'separate'}", run)


# ------------------------------------------------------------------------------------------------ kinematics


def goal_xquat_unit(spec, pre, post):
  w = spec["tid"][0]
  xq0, xq1 = pre["xquat_out"], post["xquat_out"]
  bad = []
  for b in range(xq1.shape[1]):
    if not np.array_equal(xq0[w, b], xq1[w, b]) or b in spec["env"].get("bodies", []):
      n2 = float(np.dot(xq1[w, b].astype(float), xq1[w, b].astype(float)))
      if not lib.approx(n2, 1.0):
        bad.append(f"xquat[{w},{b}] = {xq1[w, b].tolist()} |.|^2 = {n2}")
  return (not bad), "; ".join(bad) or "all written xquat unit"


def unit_kinematics(unroll):
  def run(ctx):
    from mujoco_warp._src import math as M, smooth, types

    k = smooth._kinematics_branch
    ctx.encode(k, M.mul_quat, M.axis_angle_to_quat)
    ctx.bound(unroll=unroll, shape_cap=12, note=f"at most {unroll} bodies per branch and {unroll} joints per body are executed (unwinding assumption)")
    ctx.assume(
      "contracts of normalize, mul_quat, axis_angle_to_quat (units contract/*)",
      "xquat of a parent that this thread did not write is unit (world body: identity set by make_data; otherwise the previous element of the branch)",
      "body_quat and jnt_axis read by the thread are unit (MuJoCo's compiler normalises them); qpos and mocap_quat arbitrary",
      "model fields are not batched per world (first dimension 1; world indexing is C09); array contents outside the thread's in-range accesses arbitrary",
      "float products / quotients that do not enter a norm are uninterpreted (positions; irrelevant to the norm of xquat)",
    )
    it = Q.CInterp(unroll=unroll, summaries=Q.summaries("mul_quat", "axis_angle_to_quat", "rot_vec_quat"), norm="uf", float_uf=True)
    unb = {lab: [1, None] for lab in ("qpos0", "body_pos", "body_quat", "jnt_pos", "jnt_axis")}
    kt = lib.kernel_thread(k, shapes=unb, unroll=unroll, cap=12, assume_bounds=False, interp_kw={"interp": it})
    N = Q.nsq_uf
    w, br = kt.tid
    pre = []
    xq = kt.cell("xquat_out")
    for a in kt.it.accesses:
      if a.kind != "R":
        continue
      nm = a.cell.name
      if nm == "body_quat":
        pre.append(Implies(a.guard, N(a.val) == 1))
      elif nm == "jnt_axis":
        pre.append(Implies(a.guard, N(a.val) == 1))
      elif a.cell is xq:
        pre.append(N(xq.getv(a.idx, snap=xq.a0)) == 1)
    sess = ctx.session(kt.bg + [core.zbool(p) for p in pre])
    # second session with the thread's own in-bounds conditions: only used to get a replayable model when `sess` says sat
    seen, bnds = set(), []
    for o in kt.it.obl:
      if o.kind == "bounds":
        c = core.zbool(Implies(o.guard, o.strict))
        if c.sexpr() not in seen:
          seen.add(c.sexpr())
          bnds.append(c)
    full = ctx.session(kt.bg + [core.zbool(p) for p in pre] + bnds, timeout_ms=max(ctx.timeout_ms, 60000))
    writes = [a for a in kt.it.accesses if a.kind == "W" and a.cell is xq]
    if len(writes) < 2 * unroll:
      ctx.error(f"_kinematics_branch: only {len(writes)} xquat stores found (expected 2 per unrolled body)")
    ctx.reach(sess, "twin:some-xquat-written", Or(*[a.guard for a in writes]))
    loc = "mujoco_warp._src.smooth:_kinematics_branch"
    for n, a in enumerate(writes):
      ctx.reach(sess, f"twin:write{n}@{a.where}", a.guard)
      rp = lib.make_replay(ctx, kt, loc, f"xquat{n}", "goal", goal="checks.c23:goal_xquat_unit", env={"bodies": [a.idx[1]]})
      fast = sess.prove("probe", N(a.val) == 1, a.guard)
      ctx.prove(sess if fast.status == "unsat" else full, f"xquat-unit/write{n}@{a.where.split(':')[-1]}", N(a.val) == 1, a.guard, names={"w": w, "branch": br, "body": a.idx[1]}, replay=rp, desc="_kinematics_branch writes an xquat that is not a unit quaternion")

  return (f"kinematics/branch-unroll{unroll}", run)


def goal_frames(spec, pre, post):
  e = spec["env"]
  lab = e["label"]
  w, i = spec["tid"][0], spec["tid"][1]
  m = post[lab][w, i].astype(float)
  if np.array_equal(post[lab][w, i], pre[lab][w, i]) and not e.get("always"):
    return True, "not written"
  err = max(np.abs(m @ m.T - np.eye(3)).max(), abs(np.linalg.det(m) - 1.0))
  return err < 1e-3, f"{lab}[{w},{i}] = {m.tolist()} |R R^T - I|, |det-1| <= {err}"


FRAME_KERNELS = [
  ("_compute_body_matrices", "xmat_out", []),
  ("_compute_body_inertial_frames", "ximat_out", ["body_iquat"]),
  ("_geom_local_to_global", "geom_xmat_out", ["geom_quat"]),
  ("_site_local_to_global", "site_xmat_out", ["site_quat"]),
  ("_cam_local_to_global", "cam_xmat_out", ["cam_quat"]),
]


def unit_frames(kname, out, mquats):
  def run(ctx):
    from mujoco_warp._src import math as M, smooth, types

    k = getattr(smooth, kname)
    ctx.encode(k, M.quat_to_mat, M.mul_quat)
    ctx.assume("contracts of quat_to_mat and mul_quat (units contract/*)", "xquat read by the thread is unit (kinematics/*)", f"model quaternions {mquats} are unit (MuJoCo's compiler normalises them)", "thread's own accesses in bounds (C17)")
    it = Q.CInterp(summaries=Q.summaries("mul_quat", "quat_to_mat", "rot_vec_quat"), norm="uf")
    kt = lib.kernel_thread(k, cap=6, interp_kw={"interp": it})
    pre = []
    for a in kt.it.accesses:
      if a.kind == "R" and (a.cell.name in mquats or a.cell.name == "xquat_in"):
        pre.append(Implies(a.guard, Q.nsq_uf(a.val) == 1))
      if a.kind == "R" and a.cell.name == "cam_mat0":
        pre.append(Implies(a.guard, Q.is_rot_uf(a.val)))
    cell = kt.cell(out)
    writes = [a for a in kt.it.accesses if a.kind == "W" and a.cell is cell]
    sess = ctx.session(kt.bg + [core.zbool(p) for p in pre])
    ctx.reach(sess, "twin:written", Or(*[a.guard for a in writes]))
    loc = f"mujoco_warp._src.smooth:{kname}"
    if kname == "_cam_local_to_global":
      ctx.assume("cam_mat0 is a proper rotation (computed by MuJoCo's compiler)")
      ctx.notes.append("cameras in TARGETBODY / TARGETBODYCOM mode (look-at construction) are outside: the matrix degenerates when the camera sits at the target or looks along the world z axis (MuJoCo has the same construction)")
      CL = types.CamLightType
    for n, a in enumerate(writes):
      g = a.guard
      if kname == "_cam_local_to_global":
        # skip the look-at branch (identified by its value not coming from quat_to_mat / cam_mat0: it is built with wp.mat33(...) of normalised vectors)
        md = kt.pre("cam_mode", kt.tid[1])
        tgt = kt.pre("cam_targetbodyid", kt.tid[1])
        lookat = z3.And(z3.Or(md == int(CL.TARGETBODY), md == int(CL.TARGETBODYCOM)), tgt >= 0)
        g = And(g, z3.Not(lookat))
      rp = lib.make_replay(ctx, kt, loc, f"{out}{n}", "goal", goal="checks.c23:goal_frames", env={"label": out})
      ctx.prove(sess, f"proper-rotation/write{n}@{a.where.split(':')[-1]}", Q.is_rot_uf(a.val), g, names={"w": kt.tid[0], "i": kt.tid[1]}, replay=rp, desc=f"{kname} writes a {out} that is not a proper rotation")

  return (f"frames/{kname}", run)


# ------------------------------------------------------------------------------------------------ zero quaternion (note)


def unit_zero_quat(ctx):
  """what the REAL step does with a zero quaternion: stays a valid rotation (differs from MuJoCo: reported under C08)"""
  import mujoco

  import mujoco_warp as mjw

  xml = """<mujoco><option gravity="0 0 0"/><worldbody><body pos="0 0 1"><freejoint/><geom size=".1"/>
  <body pos="0 0 .3"><joint type="ball"/><geom size=".05"/></body></body></worldbody></mujoco>"""
  mjm = mujoco.MjModel.from_xml_string(xml)
  mjd = mujoco.MjData(mjm)
  mjd.qpos[3:11] = 0
  mjd.qvel[:] = [0, 0, 0, 0.3, 0.2, 0.1, 0.1, 0.2, 0.3]
  m, d = mjw.put_model(mjm), mjw.put_data(mjm, mjd)
  mjw.step(m, d)
  mjw.forward(m, d)
  qpos = d.qpos.numpy()[0].astype(float)
  xmat = d.xmat.numpy()[0].astype(float)
  n1, n2 = float(qpos[3:7] @ qpos[3:7]), float(qpos[7:11] @ qpos[7:11])
  err = max(np.abs(xmat[b] @ xmat[b].T - np.eye(3)).max() for b in range(1, 3))
  mujoco.mj_step(mjm, mjd)
  ctx.notes.append(f"zero-quat: mjw.step from qpos quaternions = 0 gives free quat {qpos[3:7].tolist()} (|.|^2={n1:.6f}), ball quat |.|^2={n2:.6f}, xmat orthonormal to {err:.1e}; MuJoCo gives {mjd.qpos[3:7].tolist()} (parity difference, see C08 zero-quat)")
  sess = ctx.session([])
  ctx.reach(sess, "twin:ran", True)
  if not (lib.approx(n1, 1.0) and lib.approx(n2, 1.0) and err < 1e-3):
    ctx.violation("zero-quat", f"after mjw.step from a zero quaternion qpos quaternion norms^2 are {n1}, {n2}, xmat error {err}", _save("zero-quat", {"xml": xml, "qpos_after": qpos.tolist()}))


def main(tier, seed, only=None):
  import mujoco_warp  # noqa: imported once here so that the forked unit processes inherit the loaded modules
  from mujoco_warp._src import forward, smooth, support, util_misc  # noqa

  units = [
    ("contract/quat_to_mat", unit_contract_quat_to_mat),
    ("contract/mul_quat", unit_contract_mul_quat),
    ("contract/axis_angle_to_quat", unit_contract_axis_angle),
    ("contract/normalize", unit_contract_normalize),
    ("contract/quat_integrate", unit_contract_quat_integrate),
    unit_next_position(True),
    unit_next_position(False),
    unit_kinematics(2),
  ]
  if tier == "thorough":
    units.append(unit_kinematics(3))
  units += [unit_frames(*f) for f in FRAME_KERNELS]
  units.append(("zero-quat", unit_zero_quat))
  if only:
    units = [u for u in units if any(o in u[0] for o in only)]
  return report.run_check(PID, units, tier, seed)
