"""C27 Velocity derivatives are correct (partial).

The velocity derivative of every smooth force term is obtained INSIDE the harness by symbolic differentiation
(checks/diff_c27.py) of the z3 term that the interpreter computes for the REAL force kernel, and compared by exact polynomial
/ piece-wise polynomial SMT queries with what the REAL derivative kernels of derivative.py write, at the address of the M
sparsity structure they write it to:

 reference            the MuJoCo-semantics reference (d/dv of damper, tendon damper, affine actuator force) == mujoco's qDeriv
                      (mj_implicit, implicitfast) on random tiny models; put_model's M_elemid / M_fullm tables == MuJoCo's CSR M
 lemma/poly           util_misc._poly_force_deriv == d/dx [x * _poly_force(x)] (odd: |x|), continuous at the kink x = 0
 damper/dof/<type>    d/dqvel of the REAL passive._spring_damper_dof_passive damper force  vs  _qderiv_actuator_passive:
                      out[M_elemid[i,i]] = M - h (qDeriv_in + dF_i/dv_i), off-diagonal entries M - h qDeriv_in, DAMPER flag
 damper/tendon        d/dqvel_c of the REAL tendon damper force J^T f(J qvel) (forward._tendon_velocity composed with
                      passive._spring_damper_tendon_passive) vs _qderiv_tendon_damping: out[M_elemid[r,c]] += h sum_t J_tr f'(v_t) J_tc
 actuator/vel/<law>   d/d(actuator_velocity) of the REAL forward._actuator_force (ctrl clamp, actearly via next_act, forcerange
                      clamp) vs _qderiv_actuator_passive_vel, for dyntype x gaintype x biastype
 actuator/JtJ         _qderiv_actuator_passive_actuation_sparse: qDeriv[M_elemid[r,c]] += moment_r vel moment_c for every stored
                      pair of one moment row
 assemble/<model>     H mode: the REAL deriv_smooth_vel on tiny models (all float inputs symbolic): out == M - h (J_a^T vel J_a
                      - diag(d') - J_t^T d' J_t) entry by entry of the model's CSR structure
 rne/<model>          H mode: the REAL smooth.com_vel + smooth.rne with symbolic qvel differentiated w.r.t. every qvel_k  vs
                      the REAL deriv_rne_vel (D structure, dt scaling); forward.implicit's use of it (`rne/sign`)
Outside: fluid derivatives, DCMOTOR, user callbacks, tendon force-limit scaling, float32 rounding.
"""

import json
import os
import sys

import numpy as np
import z3

from checks import diff_c27 as DF
from checks import lib
from wsym import core, host, kh, report
from wsym.core import And, Implies, Not, Or, Vec, arith, cmp, ite

PID = "C27"
sys.set_int_max_str_digits(0)
R = z3.RealSort()

FREE, BALL, SLIDE, HINGE = 0, 1, 2, 3
JNAME = {FREE: "free", BALL: "ball", SLIDE: "slide", HINGE: "hinge"}
NDOF = {FREE: 6, BALL: 3, SLIDE: 1, HINGE: 1}


def bits():
  from mujoco_warp._src.types import DisableBit

  return int(DisableBit.SPRING), int(DisableBit.DAMPER), int(DisableBit.ACTUATION)


def _save(name, obj):
  d = os.path.join(report.VERIF, "replays", PID)
  os.makedirs(d, exist_ok=True)
  p = os.path.join(d, name.replace("/", "_").replace(" ", "_")[:100] + ".json")
  with open(p, "w") as f:
    json.dump(obj, f, indent=1, default=lambda x: x.tolist() if hasattr(x, "tolist") else str(x))
  return p


def const_int_array(name, val):
  c = core.Cell(name, [z3.Int(name + ".shape0")], "int", mode="array")
  c.a = [z3.K(z3.IntSort(), z3.IntVal(int(val)))]
  return core.ArrRef(c)


def abstract_mods(exprs):
  """replace every integer `a % n` / `a / n` with a non-constant divisor (per-world batch index `worldid % shape[0]`) by a fresh
  Int constant, the same term by the same constant.  Over-approximation: `unsat` stays sound, `sat` must be re-checked exactly."""
  table, cache = {}, {}

  def walk(e):
    i = e.get_id()
    if i in cache:
      return cache[i]
    if z3.is_app(e) and e.num_args() > 0:
      kids = [walk(c) for c in e.children()]
      if e.decl().kind() in (z3.Z3_OP_MOD, z3.Z3_OP_IDIV, z3.Z3_OP_REM) and not z3.is_int_value(e.arg(1)):
        key = (e.decl().kind(), kids[0].get_id(), kids[1].get_id())
        if key not in table:
          table[key] = (z3.Int(f"mod!{len(table)}"), kids)
        r = table[key][0]
      else:
        r = e.decl()(*kids) if any(not a.eq(b) for a, b in zip(kids, e.children())) else e
    else:
      r = e
    cache[i] = r
    return r

  return [walk(e) for e in exprs]


class OneShot(kh.Session):
  """every query in a fresh (non-incremental) solver: z3's incremental mode answers `unknown` on nonlinear real queries
  that the one-shot solver decides at once.  The batch-index terms `w % shape0` (nonlinear integer arithmetic) are first
  abstracted by fresh integers; only a `sat` of the abstraction is re-decided on the exact formula."""

  def __init__(self, background=(), timeout_ms=20000):
    self.bgs = [core.zbool(b) for b in background if b is not True]
    self.timeout_ms = timeout_ms
    self.results, self.log = [], None

  def add(self, *bs):
    self.bgs += [core.zbool(b) for b in bs if b is not True]

  def _solve(self, fs, timeout_ms=None, tactic=None):
    s = z3.Solver() if tactic is None else z3.Tactic(tactic).solver()
    s.set("timeout", int(timeout_ms or self.timeout_ms))
    for f in fs:
      s.add(f)
    try:
      r = str(s.check())
    except z3.Z3Exception:
      return "unknown", None
    return r, (s.model() if r == "sat" else None)

  def _solve_forked(self, fs, tactic, timeout_s):
    """verdict only (no model), in a forked child that is killed at the deadline: nlsat does not honour z3's timeout"""
    import select

    rd, wr = os.pipe()
    pid = os.fork()
    if pid == 0:
      try:
        os.close(rd)
        r, _ = self._solve(fs, tactic=tactic)
        os.write(wr, r.encode())
      finally:
        os._exit(0)
    os.close(wr)
    ready, _, _ = select.select([rd], [], [], timeout_s)
    out = os.read(rd, 64).decode() if ready else ""
    os.close(rd)
    try:
      os.kill(pid, 9)
    except OSError:
      pass
    os.waitpid(pid, 0)
    return out if out in ("sat", "unsat") else "unknown"

  def _check(self, extra):
    import time

    fs = self.bgs + [core.zbool(e) for e in extra if e is not True]
    t0 = time.time()
    ab = abstract_mods(fs)
    r, m = self._solve(ab, min(self.timeout_ms, 8000))
    if r == "unknown":
      # array reads -> fresh constants (same read, same constant): pure arithmetic for the nlsat tactic; over-approximation
      r, m = self._solve_forked(abstract_selects(ab), "qfnra-nlsat", max(10.0, min(300.0, 0.75 * self.timeout_ms / 1000.0))), None
    if r != "unsat":
      r, m = self._solve(fs)  # a model (or the final word) only from the exact formula
    return r, time.time() - t0, m


def abstract_selects(exprs):
  table, cache = {}, {}

  def walk(e):
    i = e.get_id()
    if i in cache:
      return cache[i]
    if z3.is_app(e) and e.num_args() > 0:
      kids = [walk(c) for c in e.children()]
      if e.decl().kind() == z3.Z3_OP_SELECT:
        key = tuple(k.get_id() for k in kids)
        if key not in table:
          table[key] = (z3.Const(f"sel!{len(table)}", e.sort()), kids)
        r = table[key][0]
      else:
        r = e.decl()(*kids) if any(not a.eq(b) for a, b in zip(kids, e.children())) else e
    else:
      r = e
    cache[i] = r
    return r

  return [walk(e) for e in exprs]


def oneshot(ctx, bg):
  return OneShot(bg, ctx.timeout_ms)


def zr(x):
  return core.to_z3(x, "real")


def prove_nice(ctx, sess, name, goal, guard=True, nice=(), **kw):
  """prove guard => goal.  If a counterexample exists inside the region `nice` (extra constraints under which the violated
  intermediate fact is visible in the kernel's output) the query is issued with that region as guard, so that the model handed to
  the replay reproduces; otherwise the general query is issued (and must be unsat)."""
  if nice:
    g2 = And(guard, *nice)
    r = sess.prove(name + "#nice-probe", goal, g2)
    if r.status == "sat":
      return ctx.prove(sess, name, goal, g2, **kw)
  return ctx.prove(sess, name, goal, guard, **kw)


# ================================================================================================ reference (MuJoCo semantics)


def ref_poly(lin, p, v):
  """MuJoCo polynomial damper coefficient b(v) = d + p0 |v| + p1 v^2 ; force = -v b(v)"""
  a = core.vabs(v)
  return arith("+", arith("+", lin, arith("*", p[0], a)), arith("*", arith("*", p[1], a), a))


def ref_poly_deriv(lin, p, v):
  """d/dv [v b(v)] = d + 2 p0 |v| + 3 p1 v^2   (v|v| and v^3 are C^1: no kink at v = 0)"""
  a = core.vabs(v)
  return arith("+", arith("+", lin, arith("*", arith("*", 2.0, p[0]), a)), arith("*", arith("*", arith("*", 3.0, p[1]), a), a))


def ref_clip(x, lo, hi):
  return ite(cmp("<", x, lo), lo, ite(cmp(">", x, hi), hi, x))


def ref_act_vel(p, next_act):
  """d(actuator force)/d(actuator velocity), mjd_actuator_vel semantics for FIXED / AFFINE gain and NONE / AFFINE bias.
  p: dict(stateful, gain_affine, bias_affine, gainprm2, biasprm2, ctrl, ctrllimited, clampctrl_disabled, ctrlrange, act,
  actearly, forcelimited, forcerange, force).  next_act: value of the next activation (actearly)."""
  bias_vel = ite(p["bias_affine"], p["biasprm2"], 0.0)
  gain_vel = ite(p["gain_affine"], p["gainprm2"], 0.0)
  ctrl = ite(And(p["ctrllimited"], Not(p["clampctrl_disabled"])), ref_clip(p["ctrl"], p["ctrlrange"][0], p["ctrlrange"][1]), p["ctrl"])
  x = ite(p["stateful"], ite(p["actearly"], next_act, p["act"]), ctrl)
  vel = arith("+", bias_vel, arith("*", gain_vel, x))
  clamped = And(p["forcelimited"], Or(cmp("<=", p["force"], p["forcerange"][0]), cmp(">=", p["force"], p["forcerange"][1])))
  return ite(clamped, 0.0, vel)


# ------------------------------------------------------------------------------------------------ numeric validation vs mujoco

REF_XML = """<mujoco><option integrator="implicitfast" timestep="0.004"/><worldbody>
<body><joint name="j0" type="hinge" axis="0 1 0" damping="0.3"/><geom size=".1" pos=".1 0 0"/>
 <body pos=".3 0 0"><joint name="j1" type="slide" damping=".2"/><geom size=".1"/>
  <body pos=".3 0 0"><joint name="j2" type="ball" damping=".4"/><geom size=".1" pos=".1 0 0"/></body></body></body>
<body pos="1 1 1"><freejoint/><geom size=".1"/><body pos=".2 0 0"><joint name="j3" axis="0 0 1" damping=".1"/><geom size=".1" pos=".1 0 0"/></body></body>
</worldbody>
<tendon><fixed name="t0" damping="0.5"><joint joint="j1" coef="1.5"/><joint joint="j0" coef="-0.5"/></fixed>
<fixed name="t1" damping="0.25"><joint joint="j3" coef="2"/></fixed></tendon>
<actuator><general joint="j0" gaintype="affine" gainprm="1 .5 .2" biastype="affine" biasprm=".1 .2 -.3" ctrllimited="true" ctrlrange="-.5 .5"/>
<general tendon="t0" dyntype="filter" dynprm=".1" gaintype="affine" gainprm="1 .5 .2" biastype="affine" biasprm=".1 .2 -.3"/>
<general joint="j1" dyntype="integrator" actearly="true" actlimited="true" actrange="-1 1" gaintype="affine" gainprm="1 0 .7" forcelimited="true" forcerange="-2 2"/>
<general joint="j3" dyntype="filterexact" dynprm=".05" actearly="true" gaintype="affine" gainprm="2 0 -.4" biastype="affine" biasprm="0 -1 -.2"/>
<position joint="j2" kp="2" kv=".3" gear="0 1 0"/></actuator>
</mujoco>"""


def mj_qderiv_dense(mjm, mjd):
  """MuJoCo's analytic qDeriv (passive + actuation, no RNE) as a dense matrix: mj_implicit with implicitfast"""
  import mujoco

  d2 = mujoco.MjData(mjm)
  d2.qpos[:], d2.qvel[:], d2.act[:], d2.ctrl[:] = mjd.qpos, mjd.qvel, mjd.act, mjd.ctrl
  mujoco.mj_forward(mjm, d2)
  mujoco.mj_implicit(mjm, d2)
  D = np.zeros((mjm.nv, mjm.nv))
  for i in range(mjm.nv):
    for k in range(mjm.D_rownnz[i]):
      a = mjm.D_rowadr[i] + k
      D[i, mjm.D_colind[a]] = d2.qDeriv[a]
  return D


def ref_qderiv_dense(mjm, mjd):
  """the reference model evaluated in floats: sum_a mom_a^T vel_a mom_a - diag(d'(qvel)) - sum_t J_t^T d'(v_t) J_t"""
  import mujoco

  nv = mjm.nv
  Q = np.zeros((nv, nv))
  for i in range(nv):
    Q[i, i] -= float(ref_poly_deriv(float(mjm.dof_damping[i]), [float(x) for x in mjm.dof_dampingpoly[i]], float(mjd.qvel[i])))
  J = np.zeros((mjm.ntendon, nv))
  if mjm.ntendon:
    mujoco.mju_sparse2dense(J, mjd.ten_J, mjm.ten_J_rownnz, mjm.ten_J_rowadr, mjm.ten_J_colind)
  for t in range(mjm.ntendon):
    b = float(ref_poly_deriv(float(mjm.tendon_damping[t]), [float(x) for x in mjm.tendon_dampingpoly[t]], float(mjd.ten_velocity[t])))
    Q -= b * np.outer(J[t], J[t])
  mom = np.zeros((mjm.nu, nv))
  if mjm.nu:
    mujoco.mju_sparse2dense(mom, mjd.actuator_moment, mjd.moment_rownnz, mjd.moment_rowadr, mjd.moment_colind)
  h = float(mjm.opt.timestep)
  for a in range(mjm.nu):
    adr, num = int(mjm.actuator_actadr[a]), int(mjm.actuator_actnum[a])
    stateful = adr >= 0
    act = float(mjd.act[adr + num - 1]) if stateful else 0.0
    nxt = act
    if stateful:
      nxt = float(mujoco.mj_nextActivation(mjm, mjd, a, adr + num - 1, float(mjd.act_dot[adr + num - 1]))) if hasattr(mujoco, "mj_nextActivation") else _next_act_np(mjm, mjd, a)
    p = dict(stateful=stateful, gain_affine=int(mjm.actuator_gaintype[a]) == 1, bias_affine=int(mjm.actuator_biastype[a]) == 1, gainprm2=float(mjm.actuator_gainprm[a, 2]), biasprm2=float(mjm.actuator_biasprm[a, 2]),
             ctrl=float(mjd.ctrl[a]), ctrllimited=bool(mjm.actuator_ctrllimited[a]), clampctrl_disabled=bool(mjm.opt.disableflags & mujoco.mjtDisableBit.mjDSBL_CLAMPCTRL), ctrlrange=[float(x) for x in mjm.actuator_ctrlrange[a]],
             act=act, actearly=bool(mjm.actuator_actearly[a]), forcelimited=bool(mjm.actuator_forcelimited[a]), forcerange=[float(x) for x in mjm.actuator_forcerange[a]], force=float(mjd.actuator_force[a]))
    Q += float(ref_act_vel(p, nxt)) * np.outer(mom[a], mom[a])
  return Q


def _next_act_np(mjm, mjd, a):
  from checks import act_c03 as A

  adr, num = int(mjm.actuator_actadr[a]), int(mjm.actuator_actnum[a])
  j = adr + num - 1
  return float(A.next_activation(float(mjm.opt.timestep), int(mjm.actuator_dyntype[a]), float(mjm.actuator_dynprm[a, 0]), bool(mjm.actuator_actlimited[a]), [float(x) for x in mjm.actuator_actrange[a]], float(mjd.act[j]), float(mjd.act_dot[j])))


def unit_reference(ctx):
  import mujoco

  import mujoco_warp as mjw

  rng = np.random.default_rng(ctx.seed)
  n = 6 if ctx.tier == "quick" else 30
  bad = 0
  for trial in range(n):
    mjm = mujoco.MjModel.from_xml_string(REF_XML)
    mjm.dof_dampingpoly[:] = rng.uniform(0, 0.5, mjm.dof_dampingpoly.shape)
    mjm.tendon_dampingpoly[:] = rng.uniform(0, 0.5, mjm.tendon_dampingpoly.shape)
    mjm.dof_damping[:] = rng.uniform(0, 0.5, mjm.nv)  # per-dof (also inside the ball / free joints)
    mjd = mujoco.MjData(mjm)
    mjd.qpos[:] += rng.normal(size=mjm.nq) * 0.2
    mjd.qvel[:] = rng.normal(size=mjm.nv)
    mjd.ctrl[:] = rng.normal(size=mjm.nu) * 1.5
    mjd.act[:] = rng.normal(size=mjm.na)
    mujoco.mj_forward(mjm, mjd)
    D = mj_qderiv_dense(mjm, mjd)
    Q = ref_qderiv_dense(mjm, mjd)
    mask = D != 0
    # MuJoCo stores the D structure only: compare there, and the reference must vanish elsewhere inside trees
    if not np.allclose(D[mask], Q[mask], rtol=1e-7, atol=1e-9):
      bad += 1
      ctx.error(f"reference qDeriv model disagrees with mujoco (harness error, trial {trial}): max diff {np.abs(D - Q)[mask].max()}")
      break
  # put_model tables: M_elemid == address in MuJoCo's CSR M; M_fullm lists every stored lower-triangular entry exactly once
  mjm = mujoco.MjModel.from_xml_string(REF_XML)
  m = mjw.put_model(mjm)
  E = m.M_elemid.numpy()
  want = -np.ones((mjm.nv, mjm.nv), dtype=int)
  for i in range(mjm.nv):
    for k in range(mjm.M_rownnz[i]):
      want[i, mjm.M_colind[mjm.M_rowadr[i] + k]] = mjm.M_rowadr[i] + k
  if not np.array_equal(E, want):
    ctx.error("put_model table M_elemid differs from MuJoCo's CSR layout of M (harness precondition broken)")
  mjd = mujoco.MjData(mjm)
  mujoco.mj_forward(mjm, mjd)
  d = mjw.put_data(mjm, mjd)
  mjw.forward(m, d)
  rn, ra, ci = d.moment_rownnz.numpy()[0], d.moment_rowadr.numpy()[0], d.moment_colind.numpy()[0]
  for a in range(mjm.nu):
    cols = [int(ci[ra[a] + k]) for k in range(rn[a])]
    if any(x >= y for x, y in zip(cols, cols[1:])):
      ctx.error(f"moment row {a} of the reference model is not strictly ascending: precondition of unit actuator/JtJ broken ({cols})")
  for t in range(mjm.ntendon):
    cols = [int(mjm.ten_J_colind[mjm.ten_J_rowadr[t] + k]) for k in range(mjm.ten_J_rownnz[t])]
    if len(set(cols)) != len(cols):
      ctx.error(f"tendon Jacobian row {t} repeats a column: precondition of unit damper/tendon broken")
  Mi, Mj = m.M_fullm_i.numpy(), m.M_fullm_j.numpy()
  adrs = sorted(int(E[i, j]) for i, j in zip(Mi, Mj) if E[i, j] >= 0)
  if adrs != list(range(mjm.nC)):
    ctx.error("M_fullm_i/j do not enumerate every CSR entry of M exactly once")
  sess = ctx.session([])
  ctx.reach(sess, "twin:validated", True)
  ctx.notes.append(f"reference derivative model compared with mujoco {mujoco.__version__} qDeriv (mj_implicit, implicitfast) on {n} random states of a 12-dof model (hinge, slide, ball, free, 2 tendons, 5 actuators): {bad} mismatches; M_elemid / M_fullm tables agree with MuJoCo's CSR M")


# ================================================================================================ lemma: polynomial force derivative


def unit_lemma_poly(ctx):
  from mujoco_warp._src import util_misc as U

  ctx.encode(U._poly_force, U._poly_force_deriv)
  ctx.bound(note="exact reals, all inputs")
  lin, x = z3.Reals("lin x")
  p = Vec([z3.Real("p0"), z3.Real("p1")], (2,), "f")
  names = {"lin": lin, "x": x, "p0": p.c[0], "p1": p.c[1]}
  sess = oneshot(ctx, [])
  ctx.reach(sess, "twin:any", x < 0)
  for odd in (1, 0):
    _, f = kh.run(U._poly_force, [lin, p, x, odd])
    _, g = kh.run(U._poly_force_deriv, [lin, p, x, odd])
    force = zr(arith("*", x, f))
    d = DF.diff(force, x)
    rp = lambda m: (False, "arithmetic lemma (no separate real-code replay; the kernels using it are replayed in damper/*)")
    ctx.prove(sess, f"deriv(odd={odd})==d/dx[x*poly(x)]", zr(g) == d, names=names, replay=replay_poly(odd, names), desc=f"util_misc._poly_force_deriv(flg_odd={odd}) is not the derivative of x * _poly_force(x)")
    if odd:
      # the branch-wise derivative is the true one also at the kink: both one-sided derivatives agree at x = 0
      ks = DF.kinks(force, x)
      left = z3.substitute(DF.diff(zr(arith("*", x, arith("+", arith("+", lin, arith("*", p.c[0], arith("*", x, -1))), arith("*", arith("*", p.c[1], x), x)))), x), (x, z3.RealVal(0)))
      right = z3.substitute(DF.diff(zr(arith("*", x, arith("+", arith("+", lin, arith("*", p.c[0], x)), arith("*", arith("*", p.c[1], x), x)))), x), (x, z3.RealVal(0)))
      ctx.prove(sess, "kink/x=0:one-sided-derivatives-agree", left == right, names=names, replay=rp, desc="x|x| kink")
      ctx.prove(sess, "kink/only-at-0", And(*[Or(a == 0, b == 0) for a, b in ks]) if ks else True, names=names, replay=rp, desc="unexpected switching surface")


def replay_poly(odd, names):
  """real compiled _poly_force / _poly_force_deriv: central finite difference vs the derivative function"""

  def _rp(model):
    import warp as wp
    from mujoco_warp._src import util_misc as U

    @wp.kernel
    def k(a: wp.array(dtype=float), o: wp.array(dtype=float), odd: int):
      p = wp.vec2(a[1], a[2])
      o[0] = a[3] * U._poly_force(a[0], p, a[3], odd)
      o[1] = U._poly_force_deriv(a[0], p, a[3], odd)

    rr = np.random.default_rng(0)
    worst = None
    for trial in range(20):
      v = [float(np.clip(kh.mval(model, names[n]), -3, 3)) for n in ("lin", "p0", "p1", "x")] if trial == 0 else list(rr.uniform(-2, 2, 4))
      if abs(v[3]) < 0.05:
        continue
      f = []
      for dx in (-1e-2, 1e-2, 0.0):
        a = wp.array(np.array(v[:3] + [v[3] + dx], dtype=np.float32), dtype=float, device="cpu")
        o = wp.zeros(2, dtype=float, device="cpu")
        wp.launch(k, dim=1, inputs=[a, o, odd], device="cpu")
        f.append(o.numpy().copy())
      fd, an = (f[1][0] - f[0][0]) / 2e-2, f[2][1]
      if abs(fd - an) > 2e-2 * max(1.0, abs(an)):
        worst = dict(lin=v[0], p0=v[1], p1=v[2], x=v[3], finite_difference=float(fd), poly_force_deriv=float(an))
        break
    return worst is not None, _save(f"poly_deriv.odd{odd}", worst or {"note": "no disagreement on 20 draws"})

  return _rp


# ================================================================================================ joint dampers


def goal_qderiv_passive(spec, pre, post):
  """replay goal (real _qderiv_actuator_passive thread): out[madr] == M - h (qDeriv_in - [i == j, damper on] d'(v_i))"""
  S, D, A = bits()
  w, e = spec["tid"][:2]
  i, j = int(pre["Mi"][e]), int(pre["Mj"][e])
  madr = int(pre["M_elemid"][i, j])
  if madr < 0:
    same = np.array_equal(pre["qDeriv_in"], post["qDeriv_in"])
    return same, f"off-pattern pair ({i},{j}): output {'untouched' if same else 'modified'}"
  flags = int(spec["args"]["opt_disableflags"]["scalar"])
  h = float(pre["opt_timestep"][w % len(pre["opt_timestep"])])
  q = float(pre["qDeriv_in"][w, madr])
  if i == j and not (flags & D):
    dd = pre["dof_damping"]
    dp = pre["dof_dampingpoly"]
    q -= float(ref_poly_deriv(float(dd[w % dd.shape[0], i]), [float(x) for x in dp[w % dp.shape[0], i]], float(pre["qvel_in"][w, i])))
  want = float(pre["M_in"][w, madr]) - h * q
  got = float(post["qDeriv_in"][w, madr])
  return lib.approx(got, want, rtol=1e-3, atol=1e-4), f"out[{w},{madr}] (dof pair {i},{j}) = {got}, expected M - h (qDeriv + d damper/dv) = {want} (flags {flags})"


API_MODELS = {
  "slide": """<mujoco><option integrator="implicitfast"/><worldbody><body><joint name="j" type="slide" damping=".3"/><geom size=".1"/></body></worldbody></mujoco>""",
  "hinge": """<mujoco><option integrator="implicitfast"/><worldbody><body><joint name="j" type="hinge" axis="0 1 0" damping=".3"/><geom size=".1" pos=".2 0 0"/></body></worldbody></mujoco>""",
  "ball": """<mujoco><option integrator="implicitfast"/><worldbody><body><joint name="j" type="ball" damping=".3"/><geom size=".1" pos=".2 0 0"/></body></worldbody></mujoco>""",
  "free": """<mujoco><option integrator="implicitfast" gravity="0 0 0"/><worldbody><body><freejoint/><geom size=".1"/></body></worldbody></mujoco>""",
  "tendon": """<mujoco><option integrator="implicitfast"/><worldbody><body><joint name="j0" type="hinge" axis="0 1 0"/><geom size=".1" pos=".2 0 0"/>
<body pos=".4 0 0"><joint name="j1" type="slide"/><geom size=".1"/></body></body></worldbody>
<tendon><fixed name="t0" damping="0.5"><joint joint="j0" coef="1.5"/><joint joint="j1" coef="-0.7"/></fixed></tendon></mujoco>""",
}


def mjw_force_and_qderiv(mjm, qpos, qvel, ctrl=None, act=None):
  """mujoco_warp only: (qfrc_passive + qfrc_actuator)(qvel) and the qDeriv recovered from deriv_smooth_vel (M structure)"""
  import mujoco
  import warp as wp

  import mujoco_warp as mjw

  m = mjw.put_model(mjm)

  def run(v):
    mjd = mujoco.MjData(mjm)
    mjd.qpos[:], mjd.qvel[:] = qpos, v
    if ctrl is not None:
      mjd.ctrl[:] = ctrl
    if act is not None:
      mjd.act[:] = act
    d = mjw.put_data(mjm, mjd)
    mjw.forward(m, d)
    return d

  d = run(qvel)
  out = wp.zeros((1, m.nC), dtype=float)
  mjw.deriv_smooth_vel(m, d, out)
  o, M, E, h = out.numpy()[0], d.M.numpy()[0], m.M_elemid.numpy(), float(mjm.opt.timestep)
  nv = mjm.nv
  Q = np.full((nv, nv), np.nan)
  for i in range(nv):
    for j in range(nv):
      if E[i, j] >= 0:
        Q[i, j] = (M[E[i, j]] - o[E[i, j]]) / h
  eps = 1e-2
  FD = np.zeros((nv, nv))
  for k in range(nv):
    e = np.zeros(nv)
    e[k] = eps
    fp, fm = run(np.asarray(qvel) + e), run(np.asarray(qvel) - e)
    FD[:, k] = ((fp.qfrc_passive.numpy()[0] + fp.qfrc_actuator.numpy()[0]) - (fm.qfrc_passive.numpy()[0] + fm.qfrc_actuator.numpy()[0])) / (2 * eps)
  return Q, FD


def replay_fd(name, tweak=None, draws=6, ctrl=None, act=None, qvel=None, tol=3e-2, tag=None):
  """public-API replay: finite differences of mujoco_warp's OWN smooth force (mjw.forward at qvel +- eps) against the qDeriv that
  the real deriv_smooth_vel produced, on a pinned tiny model with re-drawn, well-conditioned coefficients"""

  def _rp(model):
    import mujoco

    rr = np.random.default_rng(0)
    for trial in range(draws):
      mjm = mujoco.MjModel.from_xml_string(API_MODELS.get(name, name))
      mjm.dof_dampingpoly[:] = rr.uniform(0.1, 0.5, mjm.dof_dampingpoly.shape)
      mjm.tendon_dampingpoly[:] = rr.uniform(0.1, 0.5, mjm.tendon_dampingpoly.shape)
      if tweak:
        tweak(mjm, rr)
      qpos = mjm.qpos0.copy()
      v = rr.uniform(0.5, 1.5, mjm.nv) * rr.choice([-1, 1], mjm.nv) if qvel is None else np.asarray(qvel, dtype=float)
      c = None if ctrl is None else (ctrl(rr) if callable(ctrl) else ctrl)
      a = None if act is None else (act(rr) if callable(act) else act)
      Q, FD = mjw_force_and_qderiv(mjm, qpos, v, c, a)
      mask = ~np.isnan(Q)
      err = np.abs(Q[mask] - FD[mask]).max()
      if err > tol * max(1.0, np.abs(FD[mask]).max()):
        return True, _save(f"fd.{tag or name[:40]}", {"model_xml": API_MODELS.get(name, name), "dof_damping": mjm.dof_damping, "dof_dampingpoly": mjm.dof_dampingpoly, "qvel": v, "ctrl": c, "act": a,
                                             "qDeriv_from_deriv_smooth_vel": Q, "finite_difference_of_mjwarp_force": FD, "how": "mjw.forward at qvel +- 1e-2 e_k, (qfrc_passive + qfrc_actuator) differences vs (M - out)/h of mjw.deriv_smooth_vel"})
    return False, f"finite differences of the real force agree with deriv_smooth_vel on {draws} draws of model {name[:30]}"

  return _rp


def unit_damper_dof(jt, damper_off):
  def run(ctx):
    from mujoco_warp._src import derivative, passive
    from mujoco_warp._src import util_misc as U

    S, D, A = bits()
    kf, kd = passive._spring_damper_dof_passive, derivative._qderiv_actuator_passive
    ctx.encode(kf, kd, U._poly_force, U._poly_force_deriv)
    nd = NDOF[jt]
    ctx.bound(jnt_type=JNAME[jt], shape_cap=8, note="one generic thread of the force kernel and one generic thread of the derivative kernel over the SAME symbolic arrays (sizes, ids, contents, batch sizes symbolic); exact reals")
    ctx.assume("thread's own accesses in bounds (C17)", "SPRING disabled in the force run (springs do not depend on qvel; their branch is not encoded)",
               "dof_damping / dof_dampingpoly are per-dof fields: the dofs of a ball / free joint may carry different coefficients")
    fflags = S | (D if damper_off else 0)
    dflags = (D if damper_off else 0) | 1
    ktf = lib.kernel_thread(kf, scalars={"opt_disableflags": fflags, "jnt_type": const_int_array("jnt_type", jt)}, cap=8)
    w, j = ktf.tid
    da = ktf.pre("jnt_dofadr", j)
    e = z3.Int("elem")
    ktd = lib.kernel_thread(kd, scalars={"opt_disableflags": dflags}, tid=(w, e), cap=8)
    qvel0 = ktf.cell("qvel_in").a0[0]
    if not ktd.cell("qvel_in").a0[0].eq(qvel0):
      ctx.error("harness: the two kernels do not share the qvel array symbol")
    di, dj = ktd.pre("Mi", e), ktd.pre("Mj", e)
    madr = ktd.pre("M_elemid", di, dj)
    h = ktd.pre("opt_timestep", arith("%", w, ktd.cell("opt_timestep").shape[0]))
    out = ktd.post("qDeriv_in", w, madr)
    base = ktd.pre("M_in", w, madr)
    qd0 = ktd.pre("qDeriv_in", w, madr)
    bshape = [ktd.cell(l).shape[0] >= 1 for l in ("dof_damping", "dof_dampingpoly", "opt_timestep")]
    vb = lambda kt, lab, *idx: kt.pre(lab, arith("%", w, kt.cell(lab).shape[0]), *idx)
    vbv = lambda kt, lab, *idx: list(kt.prev(lab, arith("%", w, kt.cell(lab).shape[0]), *idx).c)
    bg = ktf.bg + ktd.bg + bshape
    sess = oneshot(ctx, bg)
    names = {"w": w, "jnt": j, "dofadr": da, "elem": e, "dofi": di, "dofj": dj, "madr": madr}
    loc = "mujoco_warp._src.derivative:_qderiv_actuator_passive"
    rpk = lib.make_replay(ctx, ktd, loc, f"{JNAME[jt]}.{int(damper_off)}", "goal", goal="checks.c27:goal_qderiv_passive", env={"randomize_floats": 3})

    def per_dof(mjm, rr):
      mjm.dof_damping[:] = rr.uniform(0.1, 1.0, mjm.nv)

    ctx.reach(sess, "twin:diagonal-entry", And(di == da + (nd - 1), dj == di, madr >= 0))
    for i in range(nd):
      dof = da + i
      F = z3.simplify(DF.push_selects(zr(ktf.post("qfrc_damper_out", w, dof))))
      reads = DF.reads_of(F, qvel0)
      Fv, Vs = DF.as_function_of(F, reads)
      own = ktf.pre("qvel_in", w, dof)
      # dF_i/dv_k for every velocity the force term reads; the only dependence must be on the dof's own velocity
      dF = z3.RealVal(0)
      for rd, V in zip(reads, Vs):
        dk = z3.substitute(DF.diff(Fv, V), *zip(Vs, reads))
        is_own = And(rd.arg(1) == w, rd.arg(2) == dof)
        dF = dF + z3.If(core.zbool(is_own), dk, 0)
        ctx.prove(sess, f"force[{i}]/independent-of-other-velocity/{z3.simplify(rd.arg(2) - da)}", Or(is_own, dk == 0), names=names, replay=replay_fd(JNAME[jt]), desc=f"damper force of dof {i} of a {JNAME[jt]} joint depends on another dof's velocity (qDeriv stores no such entry)")
      diag = And(di == dof, dj == dof, madr >= 0)
      want_own = base - h * (qd0 + dF)
      # (a) against the derivative of MuJoCo's per-dof damper force (reference validated in unit `reference`)
      dref = zr(arith("*", ref_poly_deriv(vb(ktd, "dof_damping", dof), vbv(ktd, "dof_dampingpoly", dof), own), -1)) if not damper_off else z3.RealVal(0)
      ctx.prove(sess, f"diag[{i}]/mujoco-derivative", out == base - h * (qd0 + dref), diag, names=names, replay=rpk, desc=f"_qderiv_actuator_passive ({JNAME[jt]} dof {i}): diagonal entry is not M - h (qDeriv - (d + 2 p0 |v| + 3 p1 v^2))" + (" [DAMPER disabled: M - h qDeriv]" if damper_off else ""))
      # (b) against the symbolic derivative of the REAL force kernel's term (every dof with its own coefficients)
      ctx.prove(sess, f"diag[{i}]/own-force", out == want_own, diag, names=names, replay=replay_fd(JNAME[jt], tweak=per_dof),
                desc=f"qDeriv diagonal of {JNAME[jt]} dof {i} is not the velocity derivative of the force that _spring_damper_dof_passive computes for that dof (per-dof dof_damping / dof_dampingpoly)")
    # off-diagonal entries: no joint-damper contribution
    ctx.prove(sess, "offdiag/no-damper-term", out == base - h * qd0, And(di != dj, madr >= 0), names=names, replay=rpk, desc="_qderiv_actuator_passive: an off-diagonal entry receives a damper term")
    ctx.prove(sess, "offpattern/untouched", Not(ktd.written("qDeriv_in", z3.Int("w2"), z3.Int("a2"))), madr < 0, names=names, replay=rpk, desc="_qderiv_actuator_passive writes although M_elemid says the pair is not stored")
    w2, a2 = z3.Int("w2"), z3.Int("a2")
    ctx.prove(sess, "frame/only-own-entry", Implies(ktd.written("qDeriv_in", w2, a2), And(w2 == w, a2 == madr)), names=dict(names, w2=w2, a2=a2), replay=rpk, desc="_qderiv_actuator_passive writes an entry other than out[w, M_elemid[i, j]]")

  return (f"damper/dof/{JNAME[jt]}{'/damper-disabled' if damper_off else ''}", run)


# ================================================================================================ tendon dampers


def _row(pre, t):
  n, a = int(pre["ten_J_rownnz"][t]), int(pre["ten_J_rowadr"][t])
  return [(int(pre["ten_J_colind"][a + k]), a + k) for k in range(n)]


def goal_qderiv_tendon(spec, pre, post):
  """replay goal (real _qderiv_tendon_damping thread): out[madr] == out0 + h sum_t J_ti J_tj d'(v_t)"""
  w, e = spec["tid"][:2]
  i, j = int(pre["Mi"][e]), int(pre["Mj"][e])
  madr = int(pre["M_elemid"][i, j])
  if madr < 0:
    same = np.array_equal(pre["qDeriv_out"], post["qDeriv_out"])
    return same, f"off-pattern pair ({i},{j}): output {'untouched' if same else 'modified'}"
  h = float(pre["opt_timestep"][w % len(pre["opt_timestep"])])
  nt = int(spec["args"]["ntendon"]["scalar"])
  tot = 0.0
  for t in range(nt):
    row = _row(pre, t)
    if len({c for c, _ in row}) != len(row):
      return True, "skipped: repeated column in a tendon Jacobian row (outside the precondition)"
    Ji = sum(float(pre["ten_J_in"][w, a]) for c, a in row if c == i)
    Jj = sum(float(pre["ten_J_in"][w, a]) for c, a in row if c == j)
    td, tp = pre["tendon_damping"], pre["tendon_dampingpoly"]
    if not (td.shape[0] and tp.shape[0] and td.shape[1] > t and tp.shape[1] > t and pre["ten_velocity_in"].shape[0] > w and pre["ten_velocity_in"].shape[1] > t):
      return True, "skipped: damping arrays without the tendon's entry"
    tot += Ji * Jj * float(ref_poly_deriv(float(td[w % td.shape[0], t]), [float(x) for x in tp[w % tp.shape[0], t]], float(pre["ten_velocity_in"][w, t])))
  want = float(pre["qDeriv_out"][w, madr]) + h * tot
  got = float(post["qDeriv_out"][w, madr])
  return lib.approx(got, want, rtol=1e-3, atol=1e-4), f"out[{w},{madr}] (dof pair {i},{j}) = {got}, expected out0 + h sum_t J_ti J_tj (d + 2 p0 |v| + 3 p1 v^2) = {want}"


def unit_damper_tendon(NT, UNR):
 def run(ctx):
   from mujoco_warp._src import derivative, forward, passive
   from mujoco_warp._src import util_misc as U

   kv, kf, kd = forward._tendon_velocity, passive._spring_damper_tendon_passive, derivative._qderiv_tendon_damping
   ctx.encode(kv, kf, kd, U._poly_force, U._poly_force_deriv)
   ctx.bound(ntendon=NT, unroll=UNR, shape_cap=8, note=f"{NT} tendon(s) with generic Jacobian rows of at most {UNR} non-zeros; generic dof pair; all contents, batch sizes symbolic; exact reals")
   ctx.assume("thread's own accesses in bounds (C17)", "a tendon Jacobian row lists each dof at most once (CSR invariant of ten_J_colind)", "Data.ten_velocity holds the output of _tendon_velocity for the current qvel (fwd_velocity ran)",
              "the chain rule dF_r/dqvel_c = sum_t dF_r/dv_t * dv_t/dqvel_c combines two symbolic derivatives of real kernel terms")
   w, e = z3.Int("tid0"), z3.Int("elem")
   ktd = lib.kernel_thread(kd, scalars={"ntendon": NT}, tid=(w, e), unroll=UNR, cap=8)
   di, dj = ktd.pre("Mi", e), ktd.pre("Mj", e)
   madr = ktd.pre("M_elemid", di, dj)
   h = ktd.pre("opt_timestep", arith("%", w, ktd.cell("opt_timestep").shape[0]))
   out0, out1 = ktd.pre("qDeriv_out", w, madr), ktd.post("qDeriv_out", w, madr)
   bg = list(ktd.bg)
   dFdq = z3.RealVal(0)  # d F_di / d qvel_dj of the real force kernels
   lemmas, refs = [], []
   dRef = z3.RealVal(0)
   qvel0 = None
   r_, c_ = di, dj
   for t in range(NT):
     ktv = lib.kernel_thread(kv, tid=(w, t), unroll=UNR, cap=8)
     qvel0 = ktv.cell("qvel_in").a0[0]
     Tv = z3.simplify(DF.push_selects(zr(ktv.post("ten_velocity_out", w, t))))
     nnz, adr = ktv.pre("ten_J_rownnz", t), ktv.pre("ten_J_rowadr", t)
     cols = [ktv.pre("ten_J_colind", adr + k) for k in range(UNR)]
     Js = [ktv.pre("ten_J_in", w, adr + k) for k in range(UNR)]
     bg += ktv.bg + [nnz >= 0] + [z3.Implies(z3.And(a < nnz, b < nnz), cols[a] != cols[b]) for a in range(UNR) for b in range(a)]
     bg += [z3.Implies(k < nnz, z3.And(adr + k >= 0, adr + k < ktv.cell("ten_J_colind").shape[0], adr + k < ktv.cell("ten_J_in").shape[1], cols[k] >= 0)) for k in range(UNR)]
     s = z3.Int("slot")
     ktf = lib.kernel_thread(kf, scalars={"dsbl_spring": True, "dsbl_damper": False}, tid=(w, t, s), unroll=UNR, cap=8)
     bg += ktf.bg
     tv_read = ktf.pre("ten_velocity_in", w, t)
     bg.append(tv_read == Tv)
     TV = z3.Real(f"TV{t}")
     # force on dof r from tendon t: sum over the row slots of the thread's atomic contribution
     Fr = z3.RealVal(0)
     for k in range(UNR):
       contrib = z3.substitute(zr(ktf.atomic_total("qfrc_damper_out", w, r_)), (s, z3.IntVal(k)))
       Fr = Fr + contrib
     Fr = z3.substitute(z3.simplify(DF.push_selects(Fr)), (z3.simplify(tv_read), TV))
     if DF.reads_of(Fr, ktf.cell("ten_velocity_in").a0[0]):
       ctx.error("harness: tendon velocity read not abstracted")
     dF_dv = z3.substitute(DF.diff(Fr, TV), (TV, tv_read))
     reads = DF.reads_of(Tv, qvel0)
     Tvf, Vs = DF.as_function_of(Tv, reads)
     dv_dq = z3.RealVal(0)
     for rd, V in zip(reads, Vs):
       dk = z3.substitute(DF.diff(Tvf, V), *zip(Vs, reads))
       dv_dq = dv_dq + z3.If(z3.And(rd.arg(1) == w, rd.arg(2) == c_), dk, 0)
     dFdq = dFdq + dF_dv * dv_dq
     lemmas.append((t, dF_dv, dv_dq))
     Jr = sum([z3.If(z3.And(k < nnz, cols[k] == r_), Js[k], 0) for k in range(UNR)], z3.RealVal(0))
     Jc = sum([z3.If(z3.And(k < nnz, cols[k] == c_), Js[k], 0) for k in range(UNR)], z3.RealVal(0))
     vb = lambda lab, *idx: ktd.pre(lab, arith("%", w, ktd.cell(lab).shape[0]), *idx)
     vbv = lambda lab, *idx: list(ktd.prev(lab, arith("%", w, ktd.cell(lab).shape[0]), *idx).c)
     bp = zr(ref_poly_deriv(vb("tendon_damping", t), vbv("tendon_dampingpoly", t), ktd.pre("ten_velocity_in", w, t)))
     dRef = dRef - Jr * Jc * bp
     refs.append((Jr, Jc, bp))
   bg += [ktd.cell(l).shape[0] >= 1 for l in ("tendon_damping", "tendon_dampingpoly", "opt_timestep")]
   sess = oneshot(ctx, bg)
   stored = madr >= 0
   ctx.reach(sess, "twin:stored-pair-on-a-full-row", And(stored, di != dj, ktd.pre("ten_J_rownnz", 0) == UNR, ktd.pre("ten_J_colind", ktd.pre("ten_J_rowadr", 0)) == dj, ktd.pre("ten_J_colind", ktd.pre("ten_J_rowadr", 0) + 1) == di))
   names = {"w": w, "elem": e, "dofi": di, "dofj": dj, "madr": madr, "rownnz0": ktd.pre("ten_J_rownnz", 0)}
   rpk = lib.make_replay(ctx, ktd, "mujoco_warp._src.derivative:_qderiv_tendon_damping", "tendon", "goal", goal="checks.c27:goal_qderiv_tendon", env={"randomize_floats": 4})
   env = ktd.it.top_frame.env
   if NT == 1 and "Ji" in env and "Jj" in env:
     # the kernel's own row search (locals Ji / Jj at exit) is compared with the reference's J_ti / J_tj first; the entry query then uses
     # the kernel's terms in place of the reference's (substitution of proved equals), which leaves a small polynomial identity
     Ji_k, Jj_k = zr(env["Ji"]), zr(env["Jj"])
     (Jr, Jc, bp) = refs[0]
     tdp = [ktd.pre("tendon_damping", arith("%", w, ktd.cell("tendon_damping").shape[0]), 0)] + list(ktd.prev("tendon_dampingpoly", arith("%", w, ktd.cell("tendon_dampingpoly").shape[0]), 0).c)
     stored_d = And(stored, Or(*[x != 0 for x in tdp]))  # a tendon without damping coefficients is skipped before the row search (and contributes 0)
     vis = [h != 0, bp != 0]
     prove_nice(ctx, sess, "entry/row-search/J_ti", Ji_k == Jr, stored_d, nice=vis + [Jc != 0, Jj_k != 0], names=names, replay=rpk, desc="_qderiv_tendon_damping: the Jacobian entry found for dof i is not J_ti (0 if the tendon does not move dof i)")
     prove_nice(ctx, sess, "entry/row-search/J_tj", Jj_k == Jc, stored_d, nice=vis + [Jr != 0, Ji_k != 0], names=names, replay=rpk, desc="_qderiv_tendon_damping: the Jacobian entry found for dof j is not J_tj (0 if the tendon does not move dof j)")
     ctx.prove(sess, "entry/no-damping-no-change", out1 == out0, And(madr >= 0, Not(Or(*[x != 0 for x in tdp]))), names=names, replay=rpk, desc="_qderiv_tendon_damping: a tendon without damping coefficients changes the entry")
     ctx.prove(sess, "entry/mujoco-derivative", out1 == out0 + h * (Ji_k * Jj_k * bp), stored_d, names=names, replay=rpk, desc="_qderiv_tendon_damping: entry (i,j) is not out0 + h J_ti (d + 2 p0 |v_t| + 3 p1 v_t^2) J_tj")
   else:
     ctx.prove(sess, "entry/mujoco-derivative", out1 == out0 - h * dRef, stored, names=names, replay=rpk, desc="_qderiv_tendon_damping: entry (i,j) is not out0 + h sum_t J_ti (d + 2 p0 |v_t| + 3 p1 v_t^2) J_tj")
   # own force: d F_i / d qvel_j = sum_t (dF_i/dv_t) (dv_t/dqvel_j); each factor (a symbolic derivative of the real kernel's term) is proved
   # equal to the factor of the reference, whose product is what entry/mujoco-derivative compares the kernel with
   for (t, dF_dv, dv_dq), (Jr, Jc, bp) in zip(lemmas, refs):
     ctx.prove(sess, f"own-force/dF_i/dv_t[{t}]", dF_dv == -Jr * bp, names=names, replay=replay_fd("tendon"), desc=f"d/dv_t of the real tendon damper force on dof i (tendon {t}) is not -J_ti (d + 2 p0 |v| + 3 p1 v^2), which is what _qderiv_tendon_damping accumulates")
     ctx.prove(sess, f"own-force/dv_t/dqvel_j[{t}]", dv_dq == Jc, names=names, replay=replay_fd("tendon"), desc=f"d ten_velocity[{t}] / d qvel_j of the real _tendon_velocity is not J_tj")
   w2, a2 = z3.Int("w2"), z3.Int("a2")
   ctx.prove(sess, "frame/only-own-entry", Implies(ktd.written("qDeriv_out", w2, a2), And(w2 == w, a2 == madr, stored)), names=dict(names, w2=w2, a2=a2), replay=rpk, desc="_qderiv_tendon_damping writes an entry other than out[w, M_elemid[i, j]]")

 return (f"damper/tendon/nt{NT}-nnz{UNR}", run)


# ================================================================================================ actuator force law

UNBATCH2 = ["actuator_dynprm", "actuator_gainprm", "actuator_biasprm", "actuator_actrange", "actuator_forcerange", "actuator_ctrlrange", "actuator_acc0", "actuator_lengthrange"]


def goal_act_vel(spec, pre, post):
  """replay goal (real _qderiv_actuator_passive_vel thread): vel == reference d force / d velocity evaluated in floats"""
  from checks import act_c03 as A

  w, u = spec["tid"][:2]
  sc = lambda lab, *i: pre[lab][i] if all(j < n for j, n in zip(i, pre[lab].shape)) else 0
  vec = lambda lab, n: [float(x) for x in pre[lab][0, u]] if pre[lab].shape[0] > 0 and pre[lab].shape[1] > u else [0.0] * n
  dyn, gt, bt = int(sc("actuator_dyntype", u)), int(sc("actuator_gaintype", u)), int(sc("actuator_biastype", u))
  adr, num = int(sc("actuator_actadr", u)), int(sc("actuator_actnum", u))
  last = adr + num - 1
  stateful = dyn != 0
  h = float(pre["opt_timestep"][w % len(pre["opt_timestep"])]) if len(pre["opt_timestep"]) else 0.0
  act = float(sc("act_in", w, last)) if stateful else 0.0
  rng = vec("actuator_actrange", 2)
  lim = bool(sc("actuator_actlimited", u))
  if lim and rng[0] > rng[1]:
    return True, "skipped: inverted actrange"
  nxt = float(A.next_activation(h, dyn, vec("actuator_dynprm", 10)[0], lim, rng, act, float(sc("act_dot_in", w, last)))) if stateful else 0.0
  e = spec["env"]
  p = dict(stateful=stateful, gain_affine=gt == 1, bias_affine=bt == 1, gainprm2=vec("actuator_gainprm", 10)[2], biasprm2=vec("actuator_biasprm", 10)[2], ctrl=float(sc("ctrl_in", w, u)),
           ctrllimited=bool(e.get("ctrllimited", False)), clampctrl_disabled=bool(e.get("clampctrl_disabled", False)), ctrlrange=[float(x) for x in e.get("ctrlrange", [0, 0])],
           act=act, actearly=bool(sc("actuator_actearly", u)), forcelimited=bool(sc("actuator_forcelimited", u)), forcerange=vec("actuator_forcerange", 2), force=float(sc("actuator_force_in", w, u)))
  want = float(ref_act_vel(p, nxt))
  got = float(post["vel_out"][w, u])
  return lib.approx(got, want, rtol=1e-3, atol=1e-4), f"vel[{w},{u}] = {got}, d force / d velocity (MuJoCo semantics) = {want} (dyntype {dyn}, gaintype {gt}, biastype {bt}, ctrl {p['ctrl']} limited {p['ctrllimited']} range {p['ctrlrange']}, act {act}, next {nxt}, actearly {p['actearly']}, force {p['force']} limited {p['forcelimited']} range {p['forcerange']})"


ACT_XML = """<mujoco><option integrator="implicitfast"/><worldbody><body><joint name="j" type="hinge" axis="0 1 0" range="-1 1"/><geom size=".1" pos=".2 0 0"/></body></worldbody>
<actuator><general joint="j" {attrs}/></actuator></mujoco>"""


def first_reproducing(*replays):
  def _rp(model):
    last = (False, "no replay")
    for r in replays:
      last = r(model)
      if last[0]:
        return last
    return last

  return _rp


def unit_act_vel(dname, gname, bname):
  def run(ctx):
    from checks import act_c03 as A
    from mujoco_warp._src import derivative, forward, support
    from mujoco_warp._src import util_misc as U

    DYN, GAIN, BIAS = A.DYN, A.GAIN, A.BIAS
    dyn, gain, bias = DYN[dname], GAIN[gname], BIAS[bname]
    kf, kd = forward._actuator_force, derivative._qderiv_actuator_passive_vel
    ctx.encode(kf, kd, support.next_act)
    muscle = gname == "muscle" or bname == "muscle"
    if muscle:
      ctx.encode(U.muscle_gain, U.muscle_bias, U.muscle_gain_length)
    ctx.bound(shape_cap=4, note="one generic thread of _actuator_force and of _qderiv_actuator_passive_vel over the same symbolic arrays; batched model fields with first dimension 1 (world indexing is C09); actnum <= cap")
    ctx.assume("limited ranges satisfy lo <= hi", "stateless actuator (dyntype none) has actadr = -1; stateful ones actadr >= 0, actnum >= 1, na > 0 (MuJoCo model invariant)",
               "Data.actuator_force / Data.act_dot hold what _actuator_force wrote for the same state (fwd_actuation ran; tendon total-force scaling outside)",
               "the raw force is not exactly on a forcerange bound (the clamp is not differentiable there)", "thread's own accesses in bounds (C17)")
    AI = A.make_interp()
    fixed = {"actuator_dyntype": dyn, "actuator_gaintype": gain, "actuator_biastype": bias}
    w, u = z3.Int("tid0"), z3.Int("tid1")
    ktf = lib.kernel_thread(kf, shapes={l: [1, None] for l in UNBATCH2}, tid=(w, u), cap=4, interp_kw={"interp": AI(fixed=fixed)})
    ktd = lib.kernel_thread(kd, shapes={l: [1, None] for l in UNBATCH2 if l in kh_labels(kd)}, tid=(w, u), cap=4, interp_kw={"interp": AI(fixed=fixed)})
    P = ktf.pre
    adr, num = P("actuator_actadr", u), P("actuator_actnum", u)
    last = adr + num - 1
    na = ktf.args["na"]
    vel_read = z3.simplify(P("actuator_velocity_in", w, u))
    F = z3.simplify(DF.push_selects(zr(ktf.post("actuator_force_out", w, u))))
    V = z3.Real("VEL")
    Fv = z3.substitute(F, (vel_read, V))
    if DF.reads_of(Fv, ktf.cell("actuator_velocity_in").a0[0]):
      ctx.error("harness: velocity read not abstracted")
    dF = z3.substitute(DF.diff(Fv, V), (V, vel_read))
    smooth_pt = z3.substitute(DF.off_kinks(Fv, V), (V, vel_read))
    inv = (adr == -1) if dyn == DYN["none"] else z3.And(adr >= 0, num >= 1, na > 0)
    rngs = [ktf.prev(r, 0, u) for r in ("actuator_ctrlrange", "actuator_actrange", "actuator_forcerange")]
    bg = ktf.bg + ktd.bg + [inv] + [r.c[0] <= r.c[1] for r in rngs]
    bg += [P("actuator_dyntype", u) == dyn, P("actuator_gaintype", u) == gain, P("actuator_biastype", u) == bias]
    # Data fields produced by the force kernel and consumed by the derivative kernel
    bg.append(ktd.pre("actuator_force_in", w, u) == F)
    if "dsbl_clampctrl" in ktd.args:  # both kernels run under the same disable flags
      bg.append((ktd.args["dsbl_clampctrl"] != 0) == (ktf.args["dsbl_clampctrl"] != 0))
    if dyn != DYN["none"]:
      bg.append(ktd.pre("act_dot_in", w, last) == z3.simplify(DF.push_selects(zr(ktf.post("act_dot_out", w, last)))))
    sess = oneshot(ctx, bg)
    vel = ktd.post("vel_out", w, u)
    ctrllim, noclamp = P("actuator_ctrllimited", u), ktf.args["dsbl_clampctrl"] != 0
    ctrl = P("ctrl_in", w, u)
    crange = rngs[0].c
    inside = Or(Not(ctrllim), noclamp, And(ctrl >= crange[0], ctrl <= crange[1]))
    ctx.reach(sess, "twin:smooth-point", And(smooth_pt, P("actuator_forcelimited", u)))
    names = {"w": w, "u": u, "na": na, "actadr": adr, "actnum": num, "actearly": P("actuator_actearly", u), "actlimited": P("actuator_actlimited", u), "ctrllimited": ctrllim, "clampctrl_disabled": noclamp,
             "forcelimited": P("actuator_forcelimited", u), "ctrl": ctrl, "velocity": vel_read, "gainprm2": ktf.prev("actuator_gainprm", 0, u).c[2], "biasprm2": ktf.prev("actuator_biasprm", 0, u).c[2]}
    tag = f"{dname}-{gname}-{bname}"
    env = {"randomize_floats": 6, "ctrllimited": ctrllim, "clampctrl_disabled": noclamp, "ctrlrange": [crange[0], crange[1]]}
    rpk = lib.make_replay(ctx, ktd, "mujoco_warp._src.derivative:_qderiv_actuator_passive_vel", f"vel.{tag}", "goal", goal="checks.c27:goal_act_vel", env=env)
    attrs = {"none": "", "integrator": 'dyntype="integrator"', "filter": 'dyntype="filter" dynprm="0.05"', "filterexact": 'dyntype="filterexact" dynprm="0.05"', "muscle": 'dyntype="muscle"'}[dname]
    attrs += {"fixed": ' gainprm="1.5"', "affine": ' gaintype="affine" gainprm="1.5 0.3 0.4"', "muscle": ' gaintype="muscle" gainprm="0.75 1.05 100 200 0.5 1.6 1.5 1.3 1.2" lengthrange="-1 1"'}[gname]
    attrs += {"none": "", "affine": ' biastype="affine" biasprm="0.2 -0.5 -0.3"', "muscle": ' biastype="muscle" biasprm="0.75 1.05 100 200 0.5 1.6 1.5 1.3 1.2"'}[bname]
    api = lambda extra="", ctrl=0.4: replay_fd(ACT_XML.format(attrs=attrs + extra), ctrl=[ctrl], act=(None if dyn == DYN["none"] else [0.6]), qvel=[0.3], draws=1, tag=f"actuator.{tag}")
    both = first_reproducing(rpk, api(), api(' actearly="true"'), api(' forcelimited="true" forcerange="-0.05 0.05"'))
    if muscle:
      ctx.prove(sess, "vel/muscle-velocity-slope", vel == dF, And(smooth_pt, inside), names=names, replay=api(),
                desc=f"_qderiv_actuator_passive_vel ({tag}): the velocity slope of the muscle force-length-velocity gain is missing (vel ignores GainType.MUSCLE); MuJoCo's mjd_smooth_vel includes it")
      return
    ctx.prove(sess, "vel==dforce/dvelocity", vel == dF, And(smooth_pt, inside), names=names, replay=both, desc=f"_qderiv_actuator_passive_vel ({tag}): vel is not the derivative of the force computed by _actuator_force w.r.t. actuator_velocity (gainprm[2] * [ctrl | act | next act] + biasprm[2]; 0 when clamped by forcerange)")
    if dyn == DYN["none"] and gname == "affine":
      ctx.prove(sess, "vel/ctrl-outside-ctrlrange", vel == dF, And(smooth_pt, Not(inside)), names=names, replay=first_reproducing(rpk, api(' ctrllimited="true" ctrlrange="-1 1"', ctrl=3.0)),
                desc=f"_qderiv_actuator_passive_vel ({tag}): ctrl outside ctrlrange with clamping active: the force law (and MuJoCo's derivative) use the clamped ctrl, vel multiplies gainprm[2] by the raw ctrl")
    w2, u2 = z3.Int("w2"), z3.Int("u2")
    ctx.prove(sess, "frame/own-entry", And(ktd.written("vel_out", w, u), Implies(ktd.written("vel_out", w2, u2), And(w2 == w, u2 == u))), names=dict(names, w2=w2, u2=u2), replay=rpk, desc="_qderiv_actuator_passive_vel: vel[w, actuator] not written on every path / another entry written")

  return (f"actuator/vel/{dname}-{gname}-{bname}", run)


# ================================================================================================ actuator J^T vel J accumulation


def kh_labels(kernel):
  return {lab for lab, _ in kh.arg_specs(kernel)}


def goal_jtj(spec, pre, post):
  """replay goal (real _qderiv_actuator_passive_actuation_sparse thread): increments of qDeriv == vel * moment_r * moment_c at every
  stored pair (r, c) of the M structure"""
  w, a = spec["tid"][:2]
  E = pre["M_elemid"]
  nv = E.shape[0]
  n, adr = int(pre["moment_rownnz_in"][w, a]), int(pre["moment_rowadr_in"][w, a])
  cols = [int(pre["moment_colind_in"][w, adr + k]) for k in range(n)]
  if any(cols[k] >= cols[k + 1] for k in range(n - 1)):
    return True, "skipped: moment row not strictly ascending (outside the precondition)"
  stored = [(r, c, int(E[r, c])) for r in cols for c in cols if r < E.shape[0] and c < E.shape[1] and E[r, c] >= 0]
  if len({e for _, _, e in stored}) != len(stored) or any(r < c for r, c, _ in stored):
    return True, "skipped: M_elemid not injective / not lower triangular on the row's column pairs (outside the precondition)"
  mom = np.zeros(max(nv, max(cols, default=0) + 1))
  for k in range(n):
    mom[cols[k]] = float(pre["actuator_moment_in"][w, adr + k])
  vel = float(pre["vel_in"][w, a])
  delta = post["qDeriv_out"].astype(float) - pre["qDeriv_out"].astype(float)
  want = np.zeros_like(delta)
  for r, c, e in stored:
    if e < want.shape[1]:
      want[w, e] = vel * mom[r] * mom[c]
  ok = bool(np.allclose(delta, want, rtol=1e-3, atol=1e-4))
  return ok, f"increments of qDeriv {delta.tolist()} expected vel * moment_r * moment_c at M_elemid[r, c]: {want.tolist()} (row columns {cols}, vel {vel})"


def unit_jtj(ctx):
  from mujoco_warp._src import derivative

  UNR = 3 if ctx.tier == "quick" else 4
  k = derivative._qderiv_actuator_passive_actuation_sparse
  ctx.encode(k)
  ctx.bound(unroll=UNR, shape_cap=8, note=f"moment rows of at most {UNR} non-zeros; generic stored pair (r, c); exact reals")
  ctx.assume("thread's own accesses in bounds (C17)", "moment rows have strictly ascending column indices (MuJoCo CSR invariant; checked on the reference model)",
             "M_elemid is an nv x nv table, injective on stored pairs, stores only r >= c, addresses < nC (put_model table, validated against MuJoCo's CSR M in unit reference); moment columns are dof ids")
  kt = lib.kernel_thread(k, unroll=UNR, cap=8)
  w, a = kt.tid
  P = kt.pre
  n, adr = P("moment_rownnz_in", w, a), P("moment_rowadr_in", w, a)
  cols = [P("moment_colind_in", w, adr + i) for i in range(UNR)]
  ms = [P("actuator_moment_in", w, adr + i) for i in range(UNR)]
  vel = P("vel_in", w, a)
  r, c = z3.Int("r"), z3.Int("c")
  e = P("M_elemid", r, c)
  E = lambda i, j: P("M_elemid", i, j)
  pre = [z3.Implies(i + 1 < n, cols[i] < cols[i + 1]) for i in range(UNR - 1)]
  pre += [z3.Implies(z3.And(i < n, j < n, E(cols[i], cols[j]) == e, e >= 0), z3.And(cols[i] == r, cols[j] == c)) for i in range(UNR) for j in range(UNR)]
  pre += [z3.Implies(E(cols[i], cols[j]) >= 0, cols[i] >= cols[j]) for i in range(UNR) for j in range(UNR)] + [z3.Implies(e >= 0, r >= c)]
  # M_elemid is nv x nv, every column index is a dof id, every stored address lies inside qDeriv (nC entries)
  nvs = kt.cell("M_elemid").shape
  pre += [nvs[0] == nvs[1], core.zbool(kt.inshape("M_elemid", r, c)), z3.Implies(e >= 0, core.zbool(kt.inshape("qDeriv_out", w, e)))]
  pre += [z3.Implies(i < n, z3.And(cols[i] >= 0, cols[i] < nvs[0])) for i in range(UNR)]
  pre += [z3.Implies(z3.And(i < n, j < n, E(cols[i], cols[j]) >= 0), E(cols[i], cols[j]) < kt.cell("qDeriv_out").shape[1]) for i in range(UNR) for j in range(UNR)]
  sess = oneshot(ctx, kt.bg + pre)
  mom = lambda x: sum([z3.If(z3.And(i < n, cols[i] == x), ms[i], 0) for i in range(UNR)], z3.RealVal(0))
  ctx.reach(sess, "twin:off-diagonal-pair-of-a-full-row", And(n == UNR, e >= 0, cols[0] == c, cols[UNR - 1] == r, vel != 0))
  names = {"w": w, "act": a, "r": r, "c": c, "elem": e, "rownnz": n, "rowadr": adr}
  rp = lib.make_replay(ctx, kt, "mujoco_warp._src.derivative:_qderiv_actuator_passive_actuation_sparse", "jtj", "goal", goal="checks.c27:goal_jtj", env={"randomize_floats": 3})
  w2 = z3.Int("w2")
  tot = kt.atomic_total("qDeriv_out", w2, e)
  ctx.prove(sess, "increment==vel*moment_r*moment_c", tot == z3.If(w2 == w, vel * mom(r) * mom(c), 0), e >= 0, names=dict(names, w2=w2), replay=rp,
            desc="_qderiv_actuator_passive_actuation_sparse: the thread's contribution to qDeriv[M_elemid[r, c]] is not vel * moment[r] * moment[c]")
  ctx.prove(sess, "no-plain-store", Not(kt.written("qDeriv_out", w2, z3.Int("a2"), kinds=("W",))), names=names, replay=rp, desc="_qderiv_actuator_passive_actuation_sparse stores non-atomically into the shared qDeriv")


# ================================================================================================ H mode: deriv_smooth_vel

H_XML = """<mujoco><option integrator="implicitfast" timestep="0.004"><flag {flags}/></option><worldbody>
<body><joint name="j0" type="hinge" axis="0 1 0" damping="0.3"/><geom size=".1" pos=".1 0 0"/>
 <body pos=".3 0 0"><joint name="j1" type="slide" damping=".2"/><geom size=".1"/></body>
 <body pos="0 .3 0"><joint name="j2" type="hinge" axis="1 0 0" damping=".2"/><geom size=".1" pos="0 .1 0"/></body></body>
</worldbody>
<tendon><fixed name="t0" damping="0.5"><joint joint="j0" coef="1.5"/><joint joint="j1" coef="-0.5"/></fixed>
<fixed name="t1" damping="0.25"><joint joint="j1" coef="2"/><joint joint="j2" coef="0.7"/></fixed></tendon>
<actuator><general joint="j0" gaintype="affine" gainprm="1 .5 .2" biastype="affine" biasprm=".1 .2 -.3" forcelimited="true" forcerange="-5 5"/>
<general tendon="t0" dyntype="filter" dynprm=".1" actearly="true" gaintype="affine" gainprm="1 .5 .2" biastype="affine" biasprm=".1 .2 -.3"/>
<general tendon="t1" dyntype="integrator" gaintype="affine" gainprm="1 0 .7"/></actuator>
</mujoco>"""
H_FLAGS = {"default": "", "nodamper": 'damper="disable"', "noactuation": 'actuation="disable"', "neither": 'damper="disable" actuation="disable"'}
HSYM_M = {"dof_damping", "dof_dampingpoly", "tendon_damping", "tendon_dampingpoly", "actuator_gainprm", "actuator_biasprm", "actuator_forcerange", "actuator_actrange"}
HSYM_D = {"qvel", "M", "actuator_moment", "ten_J", "ten_velocity", "act", "ctrl", "act_dot", "actuator_force"}


def _hbuild(variant, nworld=2):
  import mujoco
  import warp as wp

  import mujoco_warp as mjw

  mjm = mujoco.MjModel.from_xml_string(H_XML.format(flags=H_FLAGS[variant]))
  mjd = mujoco.MjData(mjm)
  mjd.qpos[:] = 0.1
  mjd.qvel[:] = [0.3, -0.2, 0.5]
  mujoco.mj_forward(mjm, mjd)
  m = mjw.put_model(mjm)
  d = mjw.make_data(mjm, nworld=nworld)
  d.qpos.assign(np.tile(mjd.qpos, (nworld, 1)).astype(np.float32))
  d.qvel.assign(np.tile(mjd.qvel, (nworld, 1)).astype(np.float32))
  mjw.forward(m, d)
  # per-world batched damping coefficients (batch size nworld), tendon coefficients unbatched
  m.dof_damping = wp.array(np.tile(mjm.dof_damping, (nworld, 1)).astype(np.float32), dtype=float)
  m.dof_dampingpoly = wp.array(np.tile(mjm.dof_dampingpoly, (nworld, 1, 1)).astype(np.float32), dtype=wp.vec2)
  return mjm, m, d


def unit_assemble(variant):
  def run(ctx):
    import mujoco
    import warp as wp
    from checks import act_c03 as A
    from mujoco_warp._src import derivative

    S, D, AC = bits()
    nworld = 2
    mjm, m, d = _hbuild(variant, nworld)
    nv, nu, nt, nC = int(mjm.nv), int(mjm.nu), int(mjm.ntendon), int(mjm.nC)
    ctx.encode(derivative.deriv_smooth_vel)
    ctx.bound(model="3-dof branched chain, 2 fixed tendons, 3 affine actuators (stateless with forcerange, filter+actearly on a tendon, integrator)", nworld=nworld, nv=nv, nu=nu, ntendon=nt, flags=variant,
              note="model structure concrete; limit / actearly flags as in the model (symbolic in actuator/vel/*); every float input (qvel, M, moments, tendon Jacobian / velocity, ctrl, act, act_dot, actuator_force, damping and actuator coefficients, limit ranges, stale contents of `out`) symbolic; dof_damping batched per world; time step concrete (symbolic in the per-kernel units)")
    ctx.assume("forcerange / actrange lo <= hi", "actuator_force is not exactly on a forcerange bound is NOT needed here (the reference uses MuJoCo's <= / >= test)")
    sym_m = lambda n: (n[2:] if n.startswith("m.") else n) in HSYM_M
    sym_d = lambda n: (n[2:] if n.startswith("d.") else n) in HSYM_D
    m2 = host.shim_dataclass(m, "m.", symbolic=sym_m)
    d2 = host.shim_dataclass(d, "d.", symbolic=sym_d)
    ma, da = host.arrays_of(m2), host.arrays_of(d2)
    out = host.sym_array("out", (nworld, nC), wp.float32)
    E_np = m.M_elemid.numpy()
    rn_, ra_, ci_ = d.moment_rownnz.numpy(), d.moment_rowadr.numpy(), d.moment_colind.numpy()

    VEL = {(w_, a_): z3.Real(f"VEL_{w_}_{a_}") for w_ in range(nworld) for a_ in range(nu)}
    vel_impl = {}

    def hook(hr, kernel, dim, args):
      # the J^T vel J accumulation kernel is replaced by its contract (proved in unit actuator/JtJ; its preconditions -- ascending
      # moment rows, injective lower-triangular M_elemid -- are checked concretely here): out[w, M_elemid[r, c]] += vel * moment_r * moment_c
      if kernel.func.__name__ != "_qderiv_actuator_passive_actuation_sparse":
        return None
      mom_c, vel_c, out_c = args[4].ref.cell, args[5].ref.cell, args[6].ref.cell
      for w_ in range(dim[0]):
        for a_ in range(dim[1]):
          cols = [int(ci_[w_, ra_[w_, a_] + k]) for k in range(int(rn_[w_, a_]))]
          if any(x >= y for x, y in zip(cols, cols[1:])):
            raise core.Unsupported("moment row not ascending: contract of the J^T J kernel not applicable")
          vel_impl[(w_, a_)] = vel_c.d[0][vel_c.flat([w_, a_])]
          v = VEL[(w_, a_)]
          for x, r_ in enumerate(cols):
            for y, c_ in enumerate(cols[: x + 1]):
              e_ = int(E_np[r_, c_])
              if e_ >= 0:
                f = out_c.flat([w_, e_])
                out_c.d[0][f] = arith("+", out_c.d[0][f], arith("*", arith("*", mom_c.d[0][mom_c.flat([w_, int(ra_[w_, a_]) + x])], v), mom_c.d[0][mom_c.flat([w_, int(ra_[w_, a_]) + y])]))
      return "skip"

    stored = [(i_, j_, int(E_np[i_, j_])) for i_ in range(nv) for j_ in range(nv) if E_np[i_, j_] >= 0]
    if len({e_ for _, _, e_ in stored}) != len(stored) or any(i_ < j_ for i_, j_, _ in stored):
      ctx.error("M_elemid not injective / not lower triangular on this model: contract of the J^T J kernel not applicable")
    ctx.assume("_qderiv_actuator_passive_actuation_sparse is replaced by its contract proved in unit actuator/JtJ (preconditions checked concretely on the model); the per-actuator velocity gain it receives is proved equal to the reference separately (vel[w][a]) and enters the entry queries as a free real")
    saved = host.Interp
    host.Interp = A.make_interp()
    try:
      with host.HostRun(mode="exec", on_launch=hook) as hr:
        derivative.deriv_smooth_vel(m2, d2, out)
    finally:
      host.Interp = saved
    for ev in hr.events:
      if ev.kind == "launch":
        ctx.encode(ev.kernel)
    ctx.notes.append(f"{sum(1 for e in hr.events if e.kind == 'launch')} launches, {hr.nthreads} threads interpreted: {sorted({e.kernel.key for e in hr.events if e.kind == 'launch'})}")

    def M_(n, w, i, k=0):
      c = ma[n].ref.cell
      if c.ndim == 2:
        return c.d0[k][c.flat([w % c.shape[0], i])]
      return c.d0[k][(w % c.shape[0]) if n.startswith("opt.") else i]

    def D_(n, w, i):
      c = da[n].ref.cell
      return c.d0[0][c.flat([w, i])]

    flags = int(mjm.opt.disableflags)
    damper_on, act_on = not (flags & D), not (flags & AC)
    rownnz, rowadr, colind = d.moment_rownnz.numpy(), d.moment_rowadr.numpy(), d.moment_colind.numpy()
    pre = [core.zbool(a) for a in hr.assumes]
    for w in range(nworld):
      for a in range(nu):
        pre.append(core.zbool(cmp("<=", M_("actuator_forcerange", w, a, 0), M_("actuator_forcerange", w, a, 1))))
        pre.append(core.zbool(cmp("<=", M_("actuator_actrange", w, a, 0), M_("actuator_actrange", w, a, 1))))
    sess = oneshot(ctx, pre)
    ctx.reach(sess, "twin:pre-state", True)
    oc = out.ref.cell
    rp = replay_assemble(ctx, variant, ma, da, out)
    for w in range(nworld):
      h = M_("opt.timestep", w, 0)
      # actuator velocity gains (reference), moments as dense rows
      vels, moms = [], []
      for a in range(nu):
        adr, num = int(mjm.actuator_actadr[a]), int(mjm.actuator_actnum[a])
        last = adr + num - 1
        dyn = int(mjm.actuator_dyntype[a])
        stateful = dyn != 0
        act = D_("act", w, last) if stateful else 0.0
        nxt = A.next_activation(h, dyn, float(m.actuator_dynprm.numpy()[0, a][0]), M_("actuator_actlimited", w, a), [M_("actuator_actrange", w, a, 0), M_("actuator_actrange", w, a, 1)], act, D_("act_dot", w, last)) if stateful else 0.0
        p = dict(stateful=stateful, gain_affine=int(mjm.actuator_gaintype[a]) == 1, bias_affine=int(mjm.actuator_biastype[a]) == 1, gainprm2=M_("actuator_gainprm", w, a, 2), biasprm2=M_("actuator_biasprm", w, a, 2),
                 ctrl=D_("ctrl", w, a), ctrllimited=False, clampctrl_disabled=False, ctrlrange=[0.0, 0.0], act=act, actearly=M_("actuator_actearly", w, a), forcelimited=M_("actuator_forcelimited", w, a),
                 forcerange=[M_("actuator_forcerange", w, a, 0), M_("actuator_forcerange", w, a, 1)], force=D_("actuator_force", w, a))
        if act_on:
          ctx.prove(sess, f"vel[{w}][{a}]", zr(vel_impl[(w, a)]) == zr(ref_act_vel(p, nxt)), names={"force": p["force"]}, replay=rp, desc=f"deriv_smooth_vel ({variant}): velocity gain of actuator {a} (world {w}) handed to the J^T J accumulation differs from the reference d force / d velocity")
        vels.append(VEL[(w, a)])
        row = [0.0] * nv
        for k in range(int(rownnz[w, a])):
          row[int(colind[w, rowadr[w, a] + k])] = D_("actuator_moment", w, int(rowadr[w, a]) + k)
        moms.append(row)
      J = [[0.0] * nv for _ in range(nt)]
      for t in range(nt):
        for k in range(int(mjm.ten_J_rownnz[t])):
          sp = int(mjm.ten_J_rowadr[t]) + k
          J[t][int(mjm.ten_J_colind[sp])] = D_("ten_J", w, sp)
      for i in range(nv):
        for k in range(int(mjm.M_rownnz[i])):
          madr = int(mjm.M_rowadr[i]) + k
          j = int(mjm.M_colind[madr])
          q = 0.0
          if act_on:
            for a in range(nu):
              q = arith("+", q, arith("*", arith("*", moms[a][i], vels[a]), moms[a][j]))
          if damper_on:
            if i == j:
              q = arith("-", q, ref_poly_deriv(M_("dof_damping", w, i), [M_("dof_dampingpoly", w, i, 0), M_("dof_dampingpoly", w, i, 1)], D_("qvel", w, i)))
            for t in range(nt):
              bp = ref_poly_deriv(M_("tendon_damping", w, t), [M_("tendon_dampingpoly", w, t, 0), M_("tendon_dampingpoly", w, t, 1)], D_("ten_velocity", w, t))
              q = arith("-", q, arith("*", arith("*", J[t][i], J[t][j]), bp))
          want = arith("-", D_("M", w, madr), arith("*", h, q))
          got = oc.d[0][oc.flat([w, madr])]
          ctx.prove(sess, f"out[{w}][M({i},{j})]", zr(got) == zr(want), names={"force0": D_("actuator_force", w, 0)}, replay=rp,
                    desc=f"deriv_smooth_vel ({variant}): entry ({i},{j}) of world {w} is not M - h (sum_a moment_a[i] vel_a moment_a[j] - [i==j] d'(qvel_i) - sum_t J_ti d'(v_t) J_tj) with the terms selected by the disable flags")

  return (f"assemble/{variant}", run)


def replay_assemble(ctx, variant, ma, da, out):
  """the real deriv_smooth_vel on the solver's inputs vs the float evaluation of the reference (dense)"""

  def _rp(model):
    import mujoco
    import warp as wp

    import mujoco_warp as mjw

    S, D, AC = bits()
    mjm, m, d = _hbuild(variant, 2)
    g = lambda x: float(np.clip(kh.mval(model, x), -50, 50)) if core.is_sym(x) else float(x)

    def fill(real, cell, boolean=False):
      a = real.numpy()
      flat = np.array([[bool(kh.mval(model, cell.d0[k][i])) if boolean and core.is_sym(cell.d0[k][i]) else g(cell.d0[k][i]) for k in range(cell.ncomp)] for i in range(cell.size)])
      real.assign(flat.reshape(a.shape).astype(a.dtype))

    for n in HSYM_M:
      obj, attr = (m.opt, n[4:]) if n.startswith("opt.") else (m, n)
      fill(getattr(obj, attr), ma[n].ref.cell, boolean=ma[n].ref.cell.dtype == "bool")
    for n in ("actuator_forcerange", "actuator_actrange"):
      a = getattr(m, n).numpy()
      getattr(m, n).assign(np.sort(a, axis=-1))
    for n in HSYM_D:
      fill(getattr(d, n), da[n].ref.cell)
    o = wp.array(np.array([[g(x) for x in out.ref.cell.d0[0]]], dtype=np.float32).reshape(2, -1), dtype=float)
    mjw.deriv_smooth_vel(m, d, o)
    got = o.numpy()
    # reference in floats
    nv, nu, nt = mjm.nv, mjm.nu, mjm.ntendon
    flags = int(mjm.opt.disableflags)
    E = m.M_elemid.numpy()
    bad = []
    from checks import act_c03 as A

    for w in range(2):
      hh = float(m.opt.timestep.numpy()[w % m.opt.timestep.shape[0]])
      Q = np.zeros((nv, nv))
      if not (flags & AC):
        rn, ra, ci, mo = d.moment_rownnz.numpy()[w], d.moment_rowadr.numpy()[w], d.moment_colind.numpy()[w], d.actuator_moment.numpy()[w]
        for a in range(nu):
          row = np.zeros(nv)
          for k in range(rn[a]):
            row[ci[ra[a] + k]] = mo[ra[a] + k]
          adr, num = int(mjm.actuator_actadr[a]), int(mjm.actuator_actnum[a])
          dyn = int(mjm.actuator_dyntype[a])
          last = adr + num - 1
          act = float(d.act.numpy()[w, last]) if dyn else 0.0
          rng = [float(x) for x in m.actuator_actrange.numpy()[0, a]]
          nxt = float(A.next_activation(hh, dyn, float(m.actuator_dynprm.numpy()[0, a][0]), bool(m.actuator_actlimited.numpy()[a]), rng, act, float(d.act_dot.numpy()[w, last]))) if dyn else 0.0
          p = dict(stateful=bool(dyn), gain_affine=int(mjm.actuator_gaintype[a]) == 1, bias_affine=int(mjm.actuator_biastype[a]) == 1, gainprm2=float(m.actuator_gainprm.numpy()[0, a][2]), biasprm2=float(m.actuator_biasprm.numpy()[0, a][2]),
                   ctrl=float(d.ctrl.numpy()[w, a]), ctrllimited=False, clampctrl_disabled=False, ctrlrange=[0, 0], act=act, actearly=bool(m.actuator_actearly.numpy()[a]), forcelimited=bool(m.actuator_forcelimited.numpy()[a]),
                   forcerange=[float(x) for x in m.actuator_forcerange.numpy()[0, a]], force=float(d.actuator_force.numpy()[w, a]))
          Q += float(ref_act_vel(p, nxt)) * np.outer(row, row)
      if not (flags & D):
        dd, dp = m.dof_damping.numpy(), m.dof_dampingpoly.numpy()
        for i in range(nv):
          Q[i, i] -= float(ref_poly_deriv(float(dd[w % dd.shape[0], i]), [float(x) for x in dp[w % dp.shape[0], i]], float(d.qvel.numpy()[w, i])))
        td, tp = m.tendon_damping.numpy(), m.tendon_dampingpoly.numpy()
        for t in range(nt):
          Jt = np.zeros(nv)
          for k in range(mjm.ten_J_rownnz[t]):
            Jt[mjm.ten_J_colind[mjm.ten_J_rowadr[t] + k]] = d.ten_J.numpy()[w, mjm.ten_J_rowadr[t] + k]
          Q -= float(ref_poly_deriv(float(td[w % td.shape[0], t]), [float(x) for x in tp[w % tp.shape[0], t]], float(d.ten_velocity.numpy()[w, t]))) * np.outer(Jt, Jt)
      for i in range(nv):
        for j in range(nv):
          if E[i, j] >= 0:
            want = float(d.M.numpy()[w, E[i, j]]) - hh * Q[i, j]
            if not lib.approx(got[w, E[i, j]], want, rtol=2e-3, atol=2e-3):
              bad.append(dict(world=w, i=i, j=j, deriv_smooth_vel=float(got[w, E[i, j]]), reference=want))
    return bool(bad), _save(f"assemble.{variant}", {"variant": variant, "mismatches": bad[:10], "how": "real mjw.deriv_smooth_vel on the solver's inputs vs the reference formula in floats"})

  return _rp


# ================================================================================================ H mode: RNE (Coriolis / centrifugal) derivative

RNE_MODELS = {
  "chain3": ("""<mujoco><option integrator="implicit" timestep="0.005"/><worldbody>
<body pos="0 0 1"><joint name="j0" type="hinge" axis="0 1 0"/><geom type="capsule" size=".05" fromto="0 0 0 .4 0 0"/>
 <body pos=".4 0 0"><joint name="j1" type="hinge" axis="1 0 0"/><geom type="capsule" size=".04" fromto="0 0 0 .1 .3 0"/>
  <body pos=".1 .3 0"><joint name="j2" type="slide" axis="0 1 1"/><geom type="box" size=".05 .08 .03" pos=".05 0 .1"/></body></body></body>
</worldbody></mujoco>""", [0.3, -0.5, 0.1]),
  "ball": ("""<mujoco><option integrator="implicit" timestep="0.005"/><worldbody>
<body pos="0 0 1"><joint name="j0" type="ball"/><geom type="capsule" size=".05" fromto="0 0 0 .4 .1 0"/>
 <body pos=".4 .1 0"><joint name="j1" type="hinge" axis="0 0 1"/><geom type="box" size=".05 .12 .03" pos=".1 .05 .02"/></body></body>
</worldbody></mujoco>""", [0.9, 0.1, -0.3, 0.2, 0.4]),
  "free": ("""<mujoco><option integrator="implicit" timestep="0.005"/><worldbody>
<body pos="0 0 1"><freejoint/><geom type="box" size=".1 .2 .05"/>
 <body pos=".2 .1 0"><joint name="j1" type="hinge" axis="0 1 0"/><geom type="capsule" size=".04" fromto="0 0 0 .3 0 .1"/></body></body>
</worldbody></mujoco>""", [0.1, 0.2, 1.0, 0.8, 0.2, -0.4, 0.3, 0.5]),
}


def _rne_build(name, qvel=None):
  import mujoco

  import mujoco_warp as mjw

  xml, qpos = RNE_MODELS[name]
  mjm = mujoco.MjModel.from_xml_string(xml)
  mjd = mujoco.MjData(mjm)
  mjd.qpos[:] = qpos
  for j in range(mjm.njnt):
    if mjm.jnt_type[j] in (0, 1):
      a = mjm.jnt_qposadr[j] + (3 if mjm.jnt_type[j] == 0 else 0)
      mjd.qpos[a : a + 4] /= np.linalg.norm(mjd.qpos[a : a + 4])
  mjd.qvel[:] = np.linspace(0.7, -1.1, mjm.nv) if qvel is None else qvel
  mujoco.mj_forward(mjm, mjd)
  m = mjw.put_model(mjm)
  d = mjw.put_data(mjm, mjd)
  mjw.forward(m, d)
  return mjm, mjd, m, d


def replay_rne(name, sign_only=False):
  """real code: deriv_rne_vel vs central finite differences of the qfrc_bias that mujoco_warp's own forward computes"""

  def _rp(model):
    import warp as wp

    import mujoco_warp as mjw
    from mujoco_warp._src import derivative

    mjm, mjd, m, d = _rne_build(name)
    nv = mjm.nv
    out = wp.zeros((1, m.nD), dtype=float)
    derivative.deriv_rne_vel(m, d, out, False)
    o = out.numpy()[0]
    dt = float(mjm.opt.timestep)
    Di, Dj = m.qD_fullm_i.numpy(), m.qD_fullm_j.numpy()
    eps = 1e-2
    FD = np.zeros((nv, nv))
    for k in range(nv):
      e = np.zeros(nv)
      e[k] = eps
      bp = _rne_build(name, mjd.qvel + e)[3].qfrc_bias.numpy()[0]
      bm = _rne_build(name, mjd.qvel - e)[3].qfrc_bias.numpy()[0]
      FD[:, k] = (bp - bm) / (2 * eps)
    bad = [dict(i=int(i), j=int(j), deriv_rne_vel=float(o[e] / dt), finite_difference=float(FD[i, j])) for e, (i, j) in enumerate(zip(Di, Dj)) if abs(o[e] / dt - FD[i, j]) > 2e-2 * max(1.0, np.abs(FD).max())]
    return bool(bad), _save(f"rne.{name}", {"model_xml": RNE_MODELS[name][0], "qpos": mjd.qpos, "qvel": mjd.qvel, "mismatches": bad[:10], "how": "derivative.deriv_rne_vel(m, d, out, False) / dt vs central differences of mjw.forward's qfrc_bias"})

  return _rp


def replay_implicit_sign(name):
  """public API: one step of the fully implicit integrator next to mujoco.mj_step (and implicitfast as the control)"""

  def _rp(model):
    import mujoco

    import mujoco_warp as mjw

    res = {}
    for integ in ("implicit", "implicitfast"):
      mjm, mjd, m, d = _rne_build(name, None)
      mjm.opt.integrator = getattr(mujoco.mjtIntegrator, "mjINT_" + integ.upper())
      mjd.qvel[:] = np.linspace(2.5, -2.0, mjm.nv)
      m = mjw.put_model(mjm)
      d = mjw.put_data(mjm, mjd)
      for _ in range(5):
        mujoco.mj_step(mjm, mjd)
        mjw.step(m, d)
      res[integ] = dict(mujoco_qvel=mjd.qvel.copy(), mjwarp_qvel=d.qvel.numpy()[0], maxdiff=float(np.abs(mjd.qvel - d.qvel.numpy()[0]).max()))
    bad = res["implicit"]["maxdiff"] > 1e-3 and res["implicit"]["maxdiff"] > 10 * res["implicitfast"]["maxdiff"]
    return bad, _save(f"implicit-sign.{name}", {"model_xml": RNE_MODELS[name][0], "runs": res, "how": "5 steps of mjw.step vs mujoco.mj_step from qvel = linspace(2.5, -2), integrator implicit (and implicitfast as control)"})

  return _rp


def unit_rne(name):
  def run(ctx):
    import warp as wp
    from mujoco_warp._src import derivative, forward, smooth

    mjm, mjd, m, d = _rne_build(name)
    nv, nD = int(mjm.nv), int(m.nD)
    ctx.encode(smooth.com_vel, smooth.rne, derivative.deriv_rne_vel, forward.implicit)
    ctx.bound(model=name, nv=nv, nD=nD, nworld=1, note="kinematic state (cdof, cinert: the exact rational values of the float32 contents at a generic pose; thorough: inertia of the last body symbolic) fixed, every qvel symbolic: qfrc_bias is a quadratic polynomial in qvel whose exact partial derivatives are compared with the D-structure output of deriv_rne_vel")
    ctx.assume("Data.cvel / cdof_dot hold the output of com_vel for the current qvel (fwd_velocity ran)")
    # cdof / cinert are interpreted as symbols and then pinned to the exact rational value of their float32 contents: concrete
    # python floats would be multiplied in (rounded) double arithmetic by the interpreter, which is not exact real arithmetic
    free = set() if ctx.tier != "thorough" else {int(mjm.nbody) - 1}  # thorough: the inertia of the last body stays symbolic
    d2 = host.shim_dataclass(d, "d.", symbolic=lambda n: n in ("d.qvel", "d.cdof", "d.cinert"))
    da = host.arrays_of(d2)

    def pins(arrs, real):
      import fractions

      sub = []
      for n in ("cdof", "cinert"):
        c = arrs[n].ref.cell
        a = getattr(real, n).numpy().reshape(c.size, c.ncomp)
        for i in range(c.size):
          if n == "cinert" and i in free:
            continue
          for k in range(c.ncomp):
            fr = fractions.Fraction(float(a[i, k]))
            sub.append((c.d0[k][i], z3.Q(fr.numerator, fr.denominator)))
      return sub

    pin = lambda t, sub: z3.simplify(z3.substitute(zr(t), *sub))
    out = host.sym_array("out", (1, nD), wp.float32)
    with host.HostRun(mode="exec") as hr:
      smooth.com_vel(m, d2)
      smooth.rne(m, d2)
      derivative.deriv_rne_vel(m, d2, out, False)
    for ev in hr.events:
      if ev.kind == "launch":
        ctx.encode(ev.kernel)
    ctx.notes.append(f"{sum(1 for e in hr.events if e.kind == 'launch')} launches, {hr.nthreads} threads interpreted")
    qv = da["qvel"].ref.cell.d0[0]
    bias = da["qfrc_bias"].ref.cell.d[0]
    oc = out.ref.cell
    dt = float(m.opt.timestep.numpy()[0])
    Di, Dj = m.qD_fullm_i.numpy(), m.qD_fullm_j.numpy()
    sub = pins(da, d)
    sess = oneshot(ctx, [z3.substitute(core.zbool(a), *sub) for a in hr.assumes])
    ctx.reach(sess, "twin:state", True)
    rp = replay_rne(name)
    names = {f"qvel{k}": qv[k] for k in range(nv)}
    dB = {}
    for e in range(nD):
      i, j = int(Di[e]), int(Dj[e])
      dB[(i, j)] = pin(DF.diff(zr(bias[i]), qv[j]), sub)
      ctx.prove(sess, f"D({i},{j})", pin(oc.d[0][e], sub) == zr(oc.d0[0][e]) + dt * dB[(i, j)], names=names, replay=rp, desc=f"deriv_rne_vel ({name}): D-structure entry ({i},{j}) is not out + dt * d qfrc_bias[{i}] / d qvel[{j}] of the real com_vel + rne")
    # entries of the true Jacobian outside the D structure must vanish (otherwise the sparsity pattern loses terms)
    for i in range(nv):
      for j in range(nv):
        if (i, j) not in dB:
          ctx.prove(sess, f"outside-D({i},{j})=0", pin(DF.diff(zr(bias[i]), qv[j]), sub) == 0, names=names, replay=rp, desc=f"d qfrc_bias[{i}] / d qvel[{j}] is not identically zero but the D structure has no entry for it")
    # forward.implicit: the system matrix must be M - h d(qfrc_smooth)/dv = M - h (d passive + d actuator) + h d(qfrc_bias)/dv
    d3 = host.shim_dataclass(d, "e.", symbolic=lambda n: n in ("e.qvel", "e.M", "e.cdof", "e.cinert"))
    ea = host.arrays_of(d3)
    saved = (forward.smooth.factor_solve_lu, forward._advance)
    forward.smooth.factor_solve_lu = lambda *a, **k: None
    forward._advance = lambda *a, **k: None
    try:
      with host.HostRun(mode="exec") as hr2:
        smooth.com_vel(m, d3)
        smooth.rne(m, d3)
        forward.implicit(m, d3)
    finally:
      forward.smooth.factor_solve_lu, forward._advance = saved
    qv3, bias3, M3 = ea["qvel"].ref.cell.d0[0], ea["qfrc_bias"].ref.cell.d[0], ea["M"].ref.cell.d0[0]
    qLU = ea["qLU"].ref.cell
    E = m.M_elemid.numpy()
    sub3 = pins(ea, d)
    sess2 = oneshot(ctx, [z3.substitute(core.zbool(a), *sub3) for a in hr2.assumes])
    wrong = []
    for e in range(nD):
      i, j = int(Di[e]), int(Dj[e])
      madr = int(E[max(i, j), min(i, j)])
      Mij = M3[madr] if madr >= 0 else 0.0
      want = zr(Mij) + dt * pin(DF.diff(zr(bias3[i]), qv3[j]), sub3)
      wrong.append(pin(qLU.d[0][e], sub3) == want)
    ctx.prove(sess2, "rne/sign", And(*wrong), names={f"qvel{k}": qv3[k] for k in range(nv)}, replay=replay_implicit_sign(name),
              desc=f"forward.implicit ({name}, no passive / actuator forces): the matrix handed to factor_solve_lu is not M + h d(qfrc_bias)/d(qvel) (= M - h d qfrc_smooth / d qvel): deriv_rne_vel is called with flg_subtract=True, i.e. the Coriolis derivative enters with the wrong sign")

  return (f"rne/{name}", run)


def main(tier, seed, only=None):
  import mujoco_warp  # noqa: loaded once before the units fork
  from mujoco_warp._src import derivative, forward, passive, smooth  # noqa

  units = [("reference", unit_reference), ("lemma/poly", unit_lemma_poly)]
  units += [unit_damper_dof(jt, off) for jt in (SLIDE, BALL, FREE) for off in (False, True)]
  units += [unit_damper_tendon(1, 2)] if tier != "thorough" else [unit_damper_tendon(1, 3), unit_damper_tendon(1, 2)]
  units += [unit_act_vel(d, g, b) for d in ("none", "integrator", "filter", "filterexact") for g in ("fixed", "affine") for b in ("none", "affine")]
  units += [unit_act_vel("muscle", "muscle", "muscle"), ("actuator/JtJ", unit_jtj)]
  units += [unit_assemble(v) for v in H_FLAGS]
  units += [unit_rne(n) for n in (("chain3", "ball") if tier != "thorough" else RNE_MODELS)]
  if only:
    units = [u for u in units if any(o in u[0] for o in only)]
  return report.run_check(PID, units, tier, seed)
