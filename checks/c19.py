"""C19 Contact pair filtering follows MuJoCo's rules.

 table/*     (S mode) the REAL source lines of io.put_model that build the pair table (nxn_pairid contact column: mask,
             self_collision, parent_child_collision, exclude, -2 marking, explicit-pair overwrite) are cut out of
             inspect.getsource(put_model) at run time and executed with a shim `np` / `mjm` whose arrays hold z3 terms:
             contype/conaffinity are 32-bit vectors, the kinematic tree (parents, which bodies have dofs -> weld ids), the
             geom -> body map and the exclude list are symbolic, explicit pairs are enumerated.  Every table entry is
             compared with the rule of the property statement (reference validated against mujoco.mj_collision).
 include     the NXN pair list keeps exactly the entries that are not -2 or belong to a collision sensor (same technique)
 consumer/*  (K mode) _sap_broadphase never emits a (-2, no sensor) pair and does not drop other pairs by id;
             write_contact gives a filtered (-2) pair no constraint contact; contact_params takes every parameter of an
             explicit pair from the pair_* arrays
Outside: the MuJoCo compiler (it produces body_weldid / signatures), flex pairs, the broadphase geometry filters (C18).
"""

import inspect
import json
import os
import textwrap

import numpy as np
import z3

from checks import lib
from wsym import core, kh, report
from wsym.core import And, Implies, Not, Or, arith, cmp, ite

PID = "C19"

# ------------------------------------------------------------------------------------------------ shim numpy over z3 terms


def _lift(x):
  if isinstance(x, (bool, np.bool_)):
    return z3.BoolVal(bool(x))
  if isinstance(x, (int, np.integer)):
    return z3.IntVal(int(x))
  return x


def _is_bv(t):
  return z3.is_bv(t)


def _band(a, b):
  a, b = _lift(a), _lift(b)
  if z3.is_bool(a) and z3.is_bool(b):
    return z3.And(a, b)
  if _is_bv(a) and _is_bv(b):
    return a & b
  raise core.Unsupported(f"shim: & on {a.sort()} / {b.sort()}")


def _bor(a, b):
  a, b = _lift(a), _lift(b)
  if z3.is_bool(a) and z3.is_bool(b):
    return z3.Or(a, b)
  if _is_bv(a) and _is_bv(b):
    return a | b
  raise core.Unsupported(f"shim: | on {a.sort()} / {b.sort()}")


class SA:
  """1-d array of z3 terms with the numpy operations the pair-table code uses"""

  __array_priority__ = 1000

  def __init__(self, items):
    self.v = [_lift(x) for x in items]

  def __len__(self):
    return len(self.v)

  def _zip(self, o):
    if isinstance(o, SA):
      if len(o) != len(self):
        raise core.Unsupported("shim: length mismatch")
      return list(zip(self.v, o.v))
    if isinstance(o, np.ndarray):
      return list(zip(self.v, [_lift(x) for x in o.tolist()]))
    return [(x, _lift(o)) for x in self.v]

  def _sel(self, i):
    """element at a symbolic index: ite chain (index assumed in range: harness preconditions)"""
    r = self.v[-1]
    for k in range(len(self.v) - 2, -1, -1):
      r = z3.If(i == k, self.v[k], r)
    return r

  def __getitem__(self, idx):
    if isinstance(idx, (int, np.integer)):
      return self.v[int(idx)]
    if isinstance(idx, z3.ExprRef):
      return self._sel(idx)
    if isinstance(idx, np.ndarray):
      return SA([self.v[int(i)] for i in idx.tolist()])
    if isinstance(idx, SA):
      return SA([self._sel(i) if not z3.is_int_value(i) else self.v[i.as_long()] for i in idx.v])
    raise core.Unsupported(f"shim: index {type(idx)}")

  def __setitem__(self, idx, val):
    val = _lift(val)
    if isinstance(idx, SA):  # boolean mask
      self.v = [z3.If(m, val, x) for m, x in zip(idx.v, self.v)]
    elif isinstance(idx, (int, np.integer)):
      self.v[int(idx)] = val
    elif isinstance(idx, z3.ExprRef):
      self.v = [z3.If(idx == k, val, x) for k, x in enumerate(self.v)]
    else:
      raise core.Unsupported(f"shim: store index {type(idx)}")

  def __eq__(self, o):
    return SA([a == b for a, b in self._zip(o)])

  def __ne__(self, o):
    return SA([a != b for a, b in self._zip(o)])

  def __gt__(self, o):
    return SA([a > b for a, b in self._zip(o)])

  def __ge__(self, o):
    return SA([a >= b for a, b in self._zip(o)])

  def __lt__(self, o):
    return SA([a < b for a, b in self._zip(o)])

  def __and__(self, o):
    return SA([_band(a, b) for a, b in self._zip(o)])

  __rand__ = __and__

  def __or__(self, o):
    return SA([_bor(a, b) for a, b in self._zip(o)])

  __ror__ = __or__

  def __invert__(self):
    for x in self.v:
      if not z3.is_bool(x):
        raise core.Unsupported("shim: ~ on non-bool")
    return SA([z3.Not(x) for x in self.v])

  def __lshift__(self, k):
    return SA([x * (1 << int(k)) for x in self.v])

  def __add__(self, o):
    return SA([a + b for a, b in self._zip(o)])

  __radd__ = __add__

  def __mul__(self, o):
    return SA([a * b for a, b in self._zip(o)])

  __rmul__ = __mul__

  def reshape(self, *a):
    return self

  __hash__ = None


class ShimNP:
  """the numpy functions used by the slice"""

  def __getattr__(self, k):
    raise core.Unsupported(f"shim numpy: np.{k} is not modelled (the pair-table code changed)")

  @staticmethod
  def triu_indices(n, k=0):
    return np.triu_indices(n, k=k)

  @staticmethod
  def stack(a, axis=0):
    return np.stack(a, axis=axis)

  @staticmethod
  def ones(n, dtype=None):
    return SA([1] * int(n))

  @staticmethod
  def zeros(n, dtype=None):
    return SA([0] * int(n))

  @staticmethod
  def array(x, dtype=None):
    if isinstance(x, SA) and dtype is bool:
      return SA([(e != 0) if not z3.is_bool(e) else e for e in x.v])
    if isinstance(x, SA):
      return x
    return np.array(x, dtype=dtype)

  @staticmethod
  def isin(x, arr):
    if not isinstance(x, SA):
      raise core.Unsupported("shim: isin on concrete")
    items = arr.v if isinstance(arr, SA) else [_lift(i) for i in list(arr)]
    return SA([z3.Or(*[e == s for s in items]) if items else z3.BoolVal(False) for e in x.v])


class NS:
  def __init__(self, **kw):
    self.__dict__.update(kw)


def table_slice_source():
  """the statements of put_model between `filterparent = ...` and the collision-sensor bookkeeping (cut at run time)"""
  from mujoco_warp._src import io

  lines = inspect.getsource(io.put_model).splitlines()
  a = next(i for i, l in enumerate(lines) if l.strip().startswith("filterparent = not"))
  b = next(i for i, l in enumerate(lines) if l.strip().startswith("sensor_collision_adr = np.nonzero"))
  inc = next(l for l in lines if l.strip().startswith("nxn_include = "))
  return textwrap.dedent("\n".join(lines[a:b])), inc.strip()


# ------------------------------------------------------------------------------------------------ symbolic model + reference rule


class SymModel:
  """symbolic kinematic tree / geoms / excludes; concrete sizes and explicit pairs"""

  def __init__(self, nbody, ngeom, nexclude, pairs, filterparent):
    self.nbody, self.ngeom, self.nexclude, self.pairs, self.filterparent = nbody, ngeom, nexclude, pairs, filterparent
    self.parent = [z3.IntVal(0)] + [z3.Int(f"parent{b}") for b in range(1, nbody)]
    self.hasdof = [z3.BoolVal(False)] + [z3.Bool(f"hasdof{b}") for b in range(1, nbody)]
    self.gbody = [z3.Int(f"geom_body{g}") for g in range(ngeom)]
    self.contype = [z3.BitVec(f"contype{g}", 32) for g in range(ngeom)]
    self.conaff = [z3.BitVec(f"conaffinity{g}", 32) for g in range(ngeom)]
    self.ex1 = [z3.Int(f"exclude{e}_body1") for e in range(nexclude)]
    self.ex2 = [z3.Int(f"exclude{e}_body2") for e in range(nexclude)]
    # weld id as MuJoCo defines it: the body itself if it has dofs, else its parent's weld id (world: 0)
    self.weld = [z3.IntVal(0)]
    for b in range(1, nbody):
      self.weld.append(z3.If(self.hasdof[b], z3.IntVal(b), self.sel(self.weld, self.parent[b])))
    pre = []
    for b in range(1, nbody):
      # MuJoCo numbers bodies in depth-first order: the parent of b is b-1 or an ancestor of b-1
      anc = [z3.IntVal(b - 1)]
      for _ in range(b - 1):
        anc.append(self.sel(self.parent, anc[-1]))
      pre.append(z3.Or(*[self.parent[b] == a for a in anc]))
      pre.append(z3.And(self.parent[b] >= 0, self.parent[b] < b))
    for g in range(ngeom):
      pre.append(z3.And(self.gbody[g] >= 0, self.gbody[g] < nbody))
      if g:
        pre.append(self.gbody[g - 1] <= self.gbody[g])  # geoms are stored body by body
    for e in range(nexclude):
      pre.append(z3.And(self.ex1[e] >= 0, self.ex1[e] < nbody, self.ex2[e] >= 0, self.ex2[e] < nbody))
    self.pre = pre

  @staticmethod
  def sel(lst, i):
    r = lst[-1]
    for k in range(len(lst) - 2, -1, -1):
      r = z3.If(i == k, lst[k], r)
    return r

  def mjm(self):
    sig = [z3.If(a <= b, a * 65536 + b, b * 65536 + a) for a, b in zip(self.ex1, self.ex2)]
    return NS(
      ngeom=self.ngeom,
      npair=len(self.pairs),
      geom_bodyid=SA(self.gbody),
      geom_contype=SA(self.contype),
      geom_conaffinity=SA(self.conaff),
      body_weldid=SA(self.weld),
      body_parentid=SA(self.parent),
      exclude_signature=SA(sig),
      pair_geom1=[p[0] for p in self.pairs],
      pair_geom2=[p[1] for p in self.pairs],
      opt=NS(disableflags=0 if self.filterparent else int(_disable_filterparent())),
    )


def _disable_filterparent():
  from mujoco_warp._src import types

  return types.DisableBit.FILTERPARENT


def ref_pairid(M, g1, g2):
  """the rule of the property statement for geoms g1 < g2 -> expected contact entry of the pair table
  (explicit pair id, -1 = collide with geom parameters, -2 = filtered).  Polymorphic: M holds z3 terms or python values."""
  b1, b2 = M.gbody[g1], M.gbody[g2]
  w1, w2 = M.sel(M.weld, b1), M.sel(M.weld, b2)
  wp1 = M.sel(M.weld, M.sel(M.parent, w1))
  wp2 = M.sel(M.weld, M.sel(M.parent, w2))
  passes = ((M.contype[g1] & M.conaff[g2]) | (M.contype[g2] & M.conaff[g1])) != 0
  same_weld = w1 == w2
  parent_child = z3.And(M.filterparent, w1 != 0, w2 != 0, z3.Or(w1 == wp2, w2 == wp1))
  excluded = z3.Or(*[z3.Or(z3.And(a == b1, b == b2), z3.And(a == b2, b == b1)) for a, b in zip(M.ex1, M.ex2)]) if M.nexclude else z3.BoolVal(False)
  dynamic = z3.And(passes, z3.Not(same_weld), z3.Not(parent_child), z3.Not(excluded))
  r = z3.If(dynamic, z3.IntVal(-1), z3.IntVal(-2))
  for i, (p, q) in enumerate(M.pairs):
    if {p, q} == {g1, g2}:
      r = z3.IntVal(i)
  return r


def tri_index(n, i, j):
  i, j = (j, i) if j < i else (i, j)
  return (i * (2 * n - i - 3)) // 2 + j - 1


# ------------------------------------------------------------------------------------------------ concrete models (validation, replay)


def build_xml(nbody, parent, hasdof, gbody, contype, conaff, excludes, pairs, filterparent):
  kids = {b: [c for c in range(1, nbody) if parent[c] == b] for b in range(nbody)}

  def body(b):
    s = ""
    if b:
      s += f'<body name="b{b}">'
      if hasdof[b]:
        s += "<joint/>"
      else:
        s += ""
    for g, gb in enumerate(gbody):
      if gb == b:
        s += f'<geom name="g{g}" size=".1" contype="{contype[g]}" conaffinity="{conaff[g]}"/>'
    if b and not any(gb == b for gb in gbody):
      s += '<inertial pos="0 0 0" mass="1" diaginertia="1 1 1"/>'
    for c in kids[b]:
      s += body(c)
    if b:
      s += "</body>"
    return s

  con = "".join(f'<exclude body1="{"world" if a == 0 else f"b{a}"}" body2="{"world" if b == 0 else f"b{b}"}"/>' for a, b in excludes)
  con += "".join(f'<pair geom1="g{p}" geom2="g{q}"/>' for p, q in pairs)
  flag = "" if filterparent else '<option><flag filterparent="disable"/></option>'
  return f"<mujoco>{flag}<worldbody>{body(0)}</worldbody><contact>{con}</contact></mujoco>"


class ConcreteModel:
  """python-valued twin of SymModel built from a real MjModel (so ref_pairid can be evaluated with z3 on constants)"""

  def __init__(self, mjm, filterparent):
    self.nbody, self.ngeom = mjm.nbody, mjm.ngeom
    self.parent = [z3.IntVal(int(x)) for x in mjm.body_parentid]
    self.weld = [z3.IntVal(int(x)) for x in mjm.body_weldid]
    self.gbody = [z3.IntVal(int(x)) for x in mjm.geom_bodyid]
    self.contype = [z3.BitVecVal(int(x), 32) for x in mjm.geom_contype]
    self.conaff = [z3.BitVecVal(int(x), 32) for x in mjm.geom_conaffinity]
    self.ex1 = [z3.IntVal(int(s) >> 16) for s in mjm.exclude_signature]
    self.ex2 = [z3.IntVal(int(s) & 0xFFFF) for s in mjm.exclude_signature]
    self.nexclude = len(self.ex1)
    self.pairs = [(int(a), int(b)) for a, b in zip(mjm.pair_geom1, mjm.pair_geom2)]
    self.filterparent = filterparent

  sel = staticmethod(SymModel.sel)


def ref_concrete(mjm, filterparent):
  M = ConcreteModel(mjm, filterparent)
  out = {}
  for g1 in range(mjm.ngeom):
    for g2 in range(g1 + 1, mjm.ngeom):
      out[(g1, g2)] = z3.simplify(ref_pairid(M, g1, g2)).as_long()
  return out


def validate_rule(seed, n):
  """reference rule vs the pairs mujoco.mj_collision actually reports (all geoms overlap, so every unfiltered pair collides)"""
  import mujoco

  rng = np.random.default_rng(seed + 19)
  bad = []
  for _ in range(n):
    nbody = int(rng.integers(2, 5))
    parent = [0] + [0] * (nbody - 1)
    for b in range(1, nbody):
      anc = [b - 1]
      while anc[-1] != 0:
        anc.append(parent[anc[-1]])
      parent[b] = int(rng.choice(anc))
    hasdof = [False] + [bool(rng.random() < 0.6) for _ in range(nbody - 1)]
    ngeom = int(rng.integers(2, 6))
    gbody = sorted(int(x) for x in rng.integers(0, nbody, ngeom))
    bits = [0, 1, 2, 3, 4, 0x80000000, 0xFFFFFFFF & ~1]
    contype = [int(rng.choice(bits)) for _ in range(ngeom)]
    conaff = [int(rng.choice(bits)) for _ in range(ngeom)]
    contype = [c if c < 2**31 else c - 2**32 for c in contype]
    conaff = [c if c < 2**31 else c - 2**32 for c in conaff]
    excludes = [(int(rng.integers(0, nbody)), int(rng.integers(0, nbody))) for _ in range(int(rng.integers(0, 3)))]
    excludes = [(a, b) for a, b in excludes if a != b]
    pairs = []
    for _ in range(int(rng.integers(0, 3))):
      p, q = (int(x) for x in rng.choice(ngeom, 2, replace=False))
      if {p, q} not in [set(x) for x in pairs]:
        pairs.append((p, q))
    fp = bool(rng.random() < 0.7)
    xml = build_xml(nbody, parent, hasdof, gbody, contype, conaff, excludes, pairs, fp)
    try:
      mjm = mujoco.MjModel.from_xml_string(xml)
    except Exception as ex:
      bad.append(f"validation model rejected by the compiler: {ex}")
      continue
    d = mujoco.MjData(mjm)
    mujoco.mj_kinematics(mjm, d)
    mujoco.mj_collision(mjm, d)
    got = {tuple(sorted((int(c.geom[0]), int(c.geom[1])))) for c in d.contact}
    want = {k for k, v in ref_concrete(mjm, fp).items() if v > -2}
    if got != want:
      bad.append(f"rule says colliding pairs {sorted(want)} but mujoco reports {sorted(got)} for {xml}")
  return bad


# ------------------------------------------------------------------------------------------------ unit: table (S mode)


def run_slice(M):
  """execute the real pair-table statements over the symbolic model -> (SA nxn_pairid_contact, namespace)"""
  from mujoco_warp._src import types

  src, inc = table_slice_source()
  ns = {"np": ShimNP(), "mjm": M.mjm(), "types": types, "m": NS(), "len": len, "range": range}
  exec(compile(src, "<put_model pair-table slice>", "exec"), ns)
  if "nxn_pairid_contact" not in ns:
    raise core.Unsupported("pair-table slice no longer defines nxn_pairid_contact")
  return ns["nxn_pairid_contact"], ns, inc


def replay_table(M, g1, g2):
  def _rp(model):
    import mujoco
    import warp as wp

    import mujoco_warp as mjw

    ev = lambda t: model.eval(t, model_completion=True)
    parent = [ev(x).as_long() for x in M.parent]
    hasdof = [z3.is_true(ev(x)) for x in M.hasdof]
    gbody = [ev(x).as_long() for x in M.gbody]
    ct = [ev(x).as_signed_long() for x in M.contype]
    ca = [ev(x).as_signed_long() for x in M.conaff]
    excludes = [(ev(a).as_long(), ev(b).as_long()) for a, b in zip(M.ex1, M.ex2)]
    excludes = [(a, b) for a, b in excludes if a != b]
    xml = build_xml(M.nbody, parent, hasdof, gbody, ct, ca, excludes, M.pairs, M.filterparent)
    mjm = mujoco.MjModel.from_xml_string(xml)
    m = mjw.put_model(mjm)
    tab = m.nxn_pairid.numpy() if hasattr(m.nxn_pairid, "numpy") else np.asarray(m.nxn_pairid)
    got = int(tab[tri_index(mjm.ngeom, g1, g2)][0])
    want = ref_concrete(mjm, M.filterparent)[(g1, g2)]
    d = mujoco.MjData(mjm)
    mujoco.mj_kinematics(mjm, d)
    mujoco.mj_collision(mjm, d)
    mjpairs = sorted({tuple(sorted((int(c.geom[0]), int(c.geom[1])))) for c in d.contact})
    os.makedirs(os.path.join(report.VERIF, "replays", PID), exist_ok=True)
    path = os.path.join(report.VERIF, "replays", PID, f"table.{M.nbody}b{M.ngeom}g.{g1}-{g2}.{abs(hash(xml)) % 10**8}.json")
    text = f"put_model(nxn_pairid)[geoms {g1},{g2}] = {got}, MuJoCo's rule gives {want}; mujoco.mj_collision reports pairs {mjpairs} (all geoms overlap)"
    with open(path, "w") as f:
      json.dump({"property": PID, "xml": xml, "pair": [g1, g2], "result": text, "how": "mjw.put_model(MjModel.from_xml_string(xml)).nxn_pairid vs the filtering rule / mujoco.mj_collision"}, f, indent=1)
    return got != want, path

  return _rp


def unit_table(nbody, ngeom, nexclude, pairs, filterparent, tag):
  def run(ctx):
    from mujoco_warp._src import io

    ctx.encode(io.put_model)
    ctx.bound(nbody=nbody, ngeom=ngeom, nexclude=nexclude, explicit_pairs=pairs, filterparent=filterparent, note="kinematic tree (parents, dof-less bodies), geom->body map, 32-bit contype/conaffinity and exclude list symbolic")
    ctx.assume(
      "MuJoCo model invariants: bodies numbered depth-first (parent of b is b-1 or an ancestor of b-1), geoms stored body by body, weld id = body if it has dofs else the parent's weld id, exclude signature = (min body << 16) + max body",
      "only the statements of put_model between `filterparent = ...` and the collision-sensor bookkeeping are executed (over a shim numpy holding z3 terms)",
    )
    M = SymModel(nbody, ngeom, nexclude, pairs, filterparent)
    tab, ns, inc = run_slice(M)
    if len(tab) != ngeom * (ngeom - 1) // 2:
      ctx.error(f"pair table has {len(tab)} entries for {ngeom} geoms")
      return
    sess = ctx.session(M.pre)
    ctx.reach(sess, "twin:model-exists", True)
    names = {f"parent{b}": M.parent[b] for b in range(1, nbody)}
    names.update({f"hasdof{b}": M.hasdof[b] for b in range(1, nbody)})
    names.update({f"geom_body{g}": M.gbody[g] for g in range(ngeom)})
    some_filtered, some_pass = [], []
    for g1 in range(ngeom):
      for g2 in range(g1 + 1, ngeom):
        k = tri_index(ngeom, g1, g2)
        want = ref_pairid(M, g1, g2)
        some_filtered.append(want == -2)
        some_pass.append(want == -1)
        ctx.prove(sess, f"entry/g{g1}-g{g2}", tab.v[k] == want, names=names, replay=replay_table(M, g1, g2), desc=f"pair table entry of geoms ({g1},{g2}) differs from MuJoCo's filtering rule (explicit pair / contype-conaffinity / same weld body / parent-child / exclude)")
    ctx.reach(sess, "twin:some-pair-filtered-by-parent", z3.And(M.sel(M.weld, M.gbody[0]) != M.sel(M.weld, M.gbody[ngeom - 1]), ref_pairid(SymModelView(M, allpass=True), 0, ngeom - 1) == -2) if not pairs else True)
    ctx.reach(sess, "twin:some-pair-collides", z3.Or(*some_pass))
    # NXN list membership: `nxn_include = ...` executed over symbolic contact / sensor columns
    col = SA([z3.Int(f"contact{k}") for k in range(len(tab))])
    sen = SA([z3.Int(f"sensor{k}") for k in range(len(tab))])
    ns2 = {"nxn_pairid_contact": col, "nxn_pairid_collision": sen, "np": ShimNP()}
    exec(inc, ns2)
    s2 = ctx.session([z3.And(c >= -2, s >= -1) for c, s in zip(col.v, sen.v)])
    ctx.reach(s2, "twin:include", True)
    for k in range(len(tab)):
      ctx.prove(s2, f"include/{k}", ns2["nxn_include"].v[k] == z3.Or(col.v[k] != -2, sen.v[k] >= 0), replay=lambda m: (True, "model only: the include mask statement was executed symbolically"), desc="NXN pair list does not keep exactly the unfiltered pairs and the collision-sensor pairs")

  return (f"table/{tag}", run)


class SymModelView:
  """M with contype/conaffinity forced to pass (for a reachability twin)"""

  def __init__(self, M, allpass):
    self.__dict__.update(M.__dict__)
    self.contype = [z3.BitVecVal(1, 32)] * M.ngeom
    self.conaff = [z3.BitVecVal(1, 32)] * M.ngeom

  sel = staticmethod(SymModel.sel)


# ------------------------------------------------------------------------------------------------ units: consumers (K mode)


def goal_sap(spec, pre, post):
  n0, n1 = int(pre["ncollision_out"][0]), int(post["ncollision_out"][0])
  naconmax = int(spec["args"]["naconmax_in"]["scalar"])
  msgs = []
  pid = pre["nxn_pairid"]
  for s in range(n0, min(n1, naconmax, len(post["collision_pairid_out"]))):
    p = post["collision_pairid_out"][s]
    if int(p[0]) < -1 and int(p[1]) < 0:
      msgs.append(f"slot {s}: emitted a filtered pair {post['collision_pair_out'][s].tolist()} with ids {p.tolist()}")
  exp = spec["env"].get("expect_added")
  if exp is not None and (n1 - n0) < int(exp):
    msgs.append(f"ncollision {n0} -> {n1}: an unfiltered pair (ids not (-2,-1)) inside the sweep range was not emitted")
  return (not msgs), "_sap_broadphase: " + ("; ".join(msgs) or "ok") + f" nxn_pairid={pid.tolist()}"


def unit_sap(ctx):
  from mujoco_warp._src import collision_driver as cdv

  k = cdv._sap_broadphase(0, 1, 1, 1, 1)
  loc = "mujoco_warp._src.collision_driver:_sap_broadphase(0, 1, 1, 1, 1)"
  ctx.encode(k, cdv._add_geom_pair)
  ctx.bound(unroll=3, shape_cap=4, ngeom=3, nworld=1, broadphase_filter=0, note="one thread, at most 3 work packages (while loop) and 3 binary-search steps; geometry filter off")
  ctx.assume("own accesses in bounds (C17), loops within the unrolling bound", "floats uninterpreted", "sort_index is a permutation of the geoms, cumulative_sum is a non-negative inclusive scan (non-decreasing), nsweep >= 1, table has ngeom(ngeom-1)/2 entries")
  naconmax = z3.Int("naconmax_in")
  shapes = {"sort_index_in": [1, 3], "nxn_pairid": [3], "cumulative_sum_in": [3], "ncollision_out": [1], "geom_type": [3], "collision_pair_out": [naconmax], "collision_pairid_out": [naconmax], "collision_worldid_out": [naconmax]}
  kt = lib.kernel_thread(k, shapes=shapes, scalars={"naconmax_in": naconmax, "ngeom": 3, "nworld_in": 1}, unroll=3, cap=4, interp_kw={"float_uf": True})
  si = [kt.pre("sort_index_in", 0, j) for j in range(3)]
  cs = [kt.pre("cumulative_sum_in", j) for j in range(3)]
  inv = [z3.And(x >= 0, x < 3) for x in si] + [z3.Distinct(*si), cs[0] >= 0, cs[0] <= cs[1], cs[1] <= cs[2], kt.args["nsweep_in"] >= 1]
  sess = ctx.session(kt.bg + inv + [naconmax >= 0, naconmax <= 4, kt.pre("ncollision_out", 0) >= 0])
  n = kt.atomic_total("ncollision_out", 0)
  ctx.reach(sess, "twin:emits", cmp(">=", n, 1))
  # every emission (atomic add on ncollision) happens for an index whose table entry is not (-2, no sensor)
  cell = kt.cell("ncollision_out")
  adds = [a for a in kt.it.accesses if a.cell is cell and a.kind == "A:add"]
  reads = [a for a in kt.it.accesses if a.cell is kt.cell("nxn_pairid") and a.kind == "R"]
  rp = lib.make_replay(ctx, kt, loc, "sap", "goal", goal="checks.c19:goal_sap")
  if not adds or not reads:
    ctx.error("harness: no emission / table read found in _sap_broadphase")
    return
  s = z3.Int("slot")
  names = {"naconmax": naconmax, "ncollision0": kt.pre("ncollision_out", 0), "slot": s}
  n0 = kt.pre("ncollision_out", 0)
  inrange = And(s >= n0, cmp("<", s, arith("+", n0, n)), cmp("<", s, naconmax))
  p0, p1 = kt.post("collision_pairid_out", s, k=0), kt.post("collision_pairid_out", s, k=1)
  ctx.prove(sess, "never-emits-filtered-pair", Not(And(cmp("<", p0, -1), cmp("<", p1, 0))), And(inrange, kt.written("collision_pairid_out", s)), names=names, replay=rp, desc="_sap_broadphase emits a pair whose table entry is (-2, no sensor): a filtered pair reaches the narrowphase")
  # the only id-based skip is that rule: first work package with an unfiltered entry is emitted (filter off)
  first = reads[0]
  idx = first.idx[0]
  e0, e1 = kt.pre("nxn_pairid", idx, k=0), kt.pre("nxn_pairid", idx, k=1)
  ctx.prove(sess, "unfiltered-pair-emitted", cmp(">=", n, 1), And(first.guard, Or(cmp(">=", e0, -1), cmp(">=", e1, 0))), names=dict(names, entry0=e0, entry1=e1), replay=lib.make_replay(ctx, kt, loc, "sap-drop", "goal", goal="checks.c19:goal_sap", env={"expect_added": 1}), desc="_sap_broadphase drops a pair that is not filtered (table entry >= -1 or collision sensor) although the geometry filter is off")


def unit_write_filtered(ctx):
  from mujoco_warp._src import collision_core as cc

  from checks import c04, wrap_c04

  k = wrap_c04.k_write_contact
  loc = "checks.wrap_c04:k_write_contact"
  ctx.encode(cc.write_contact)
  ctx.bound(unroll=5, shape_cap=4)
  ctx.assume("pairid[0] >= -2, pairid[1] >= -1; 0 <= nacon")
  naconmax = z3.Int("naconmax_in")
  shapes = {F: [naconmax] for F in c04.CONTACT_OUT}
  shapes.update({"contact_efc_address_out": [naconmax, None], "nacon_out": [1], "ret_out": [1]})
  kt = lib.kernel_thread(k, shapes=shapes, scalars={"naconmax_in": naconmax}, unroll=5, cap=4)
  A = {kk: c04._comps(kt.args[kk]) for kk in c04.WRITE_IN}
  n0 = kt.pre("nacon_out", 0)
  pid0, pid1 = A["pairid_in"]
  sess = ctx.session(kt.bg + [naconmax >= 0, n0 >= 0, pid0 >= -2, pid1 >= -1])
  rp = lib.make_replay(ctx, kt, loc, "write", "goal", goal="checks.c04:goal_write")
  names = {"nacon0": n0, "naconmax": naconmax, "pairid0": pid0, "pairid1": pid1}
  ctx.reach(sess, "twin:filtered-with-sensor", And(pid0 == -2, pid1 >= 0, cmp("<", n0, naconmax)))
  ctx.prove(sess, "filtered-pair-not-recorded", cmp("==", kt.atomic_total("nacon_out", 0), 0), And(pid0 == -2, pid1 == -1), names=names, replay=rp, desc="write_contact records a contact for a filtered pair (-2) that has no collision sensor")
  t = kt.post("contact_type_out", n0)
  ctx.prove(sess, "filtered-pair-no-constraint-contact", cmp("==", arith("%", t, 2), 0), And(pid0 == -2, pid1 >= 0, cmp("<", n0, naconmax)), names=names, replay=rp, desc="write_contact marks a filtered pair's sensor contact as a constraint contact")
  ctx.prove(sess, "ret-zero-when-filtered", cmp("==", kt.post("ret_out", 0), 0), And(pid0 == -2, pid1 == -1), names=names, replay=rp, desc="write_contact reports an active contact for a filtered pair")


def unit_pair_override(ctx):
  from mujoco_warp._src import collision_core as cc

  from checks import c04, wrap_c04

  k = wrap_c04.k_contact_params
  loc = "checks.wrap_c04:k_contact_params"
  ctx.encode(cc.contact_params, cc.contact_margin_gap, cc.contact_material_params)
  ctx.assume("worldid >= 0, indices in range (C17)", "per-world model arrays have >= 1 batch row", "floats are reals")
  kt = lib.kernel_thread(k, shapes={o: [1] for o in c04.OUT1}, cap=4)
  G1, G2, Pr, pairid, g1, g2 = c04._read_inputs(kt, kt.pre)
  ref = c04.ref_pair(Pr)
  sess = ctx.session(kt.bg + [kt.args["worldid"] >= 0] + c04.batch_rows(kt))
  ctx.reach(sess, "twin:explicit-pair", pairid >= 0)
  names = {"pairid": pairid, "worldid": kt.args["worldid"]}
  for f, n in c04.FIELDS.items():
    impl = [kt.post(f + "_out", 0, k=i) for i in range(n)]
    want = ref[f] if isinstance(ref[f], list) else [ref[f]]
    goal = And(*[cmp("==", a, b) for a, b in zip(impl, want)])
    rp = c04._robust_replay(ctx, sess, kt, loc, f"pair/{f}", "checks.c04:goal_params", {"field": f}, list(zip(impl, want)), And(pairid >= 0, Not(goal)))
    ctx.prove(sess, f"explicit-pair-uses-pair-parameters/{f}", goal, pairid >= 0, names=names, replay=rp, desc=f"explicit contact pair: '{f}' is not taken from the pair_* arrays (friction floored at mjMINMU)")


def unit_validate(ctx):
  bad = validate_rule(ctx.seed, 60 if ctx.tier == "quick" else 300)
  for b in bad[:5]:
    ctx.error("filtering rule (reference) disagrees with the mujoco library: " + b[:600])
  ctx.reach(ctx.session([]), "twin:validation-ran", True)
  ctx.notes.append("reference filtering rule validated against mujoco.mj_collision on random trees / bitmasks / excludes / explicit pairs / filterparent")


# ------------------------------------------------------------------------------------------------ main


def main(tier, seed, only=None):
  units = [("validate-rule-on-mujoco", unit_validate)]
  cfgs = [(3, 3, 1, [], True, "3b3g-exclude"), (3, 3, 1, [], False, "3b3g-nofilterparent"), (3, 3, 1, [(0, 2)], True, "3b3g-pair"), (3, 3, 0, [(2, 1), (0, 1)], True, "3b3g-2pairs"), (4, 3, 0, [], True, "4b3g")]
  if tier == "thorough":
    cfgs += [(4, 4, 2, [], True, "4b4g-2excludes"), (4, 4, 1, [(1, 3)], False, "4b4g-pair-nofilterparent"), (4, 4, 1, [(0, 3), (2, 1)], True, "4b4g-2pairs"), (4, 5, 2, [(1, 4)], True, "4b5g-2excludes-pair")]
  units += [unit_table(*c) for c in cfgs]
  units += [("consumer/sap_broadphase", unit_sap), ("consumer/write_contact", unit_write_filtered), ("consumer/contact_params", unit_pair_override)]
  if only:
    units = [u for u in units if any(o in u[0] for o in only)]
  return report.run_check(PID, units, tier, seed)
