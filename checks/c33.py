"""C33 set_const recomputes derived model fields correctly (partial).

 reference            reference formulas (written from engine_setconst.c semantics) == mujoco.mj_setConst on a perturbed model
                      (masses, inertias, qpos0 incl. ball / free, armature, dampratio gains; cameras / lights of every mode)
 kernel/<k>           one generic thread (sizes, ids, contents, EVERY batch size symbolic) of each closed-form kernel of
                      set_const.py against the reference: subtree-mass init / accumulation, tendon_length0, camera and light
                      reference poses (each output at ITS OWN row `worldid % shape[0]`), dof_M0 (diag of M = armature + cdof^T I_c
                      cdof), meaninertia, the invweight0 finalisation kernels (averaging rules, static bodies, degenerate fallback),
                      unit vector / moment / Jacobian-row gathering, actuator_acc0 = |M^-1 moment| (norm), dampratio resolution,
                      tendon_lengthspring, connect / weld eq_data anchors
 host/fixed/<topo>    H mode: the REAL set_const_fixed on body trees, masses symbolic and batched per world: body_subtreemass ==
                      own mass + masses of all descendants, row by row of the batch
 host/const0/<model>  H mode: the REAL set_const_0 / set_const (restore False / True) on a tiny model with tracking cameras / lights,
                      a tendon and a dampratio actuator; M^-1 (factor_m / solve_m) is an uninterpreted function: Data.qpos (and all
                      other state) restored; with restore the position-stage Data fields equal a fresh position stage at the saved qpos;
                      every derived field equals the reference expression over the position stage AT qpos0 of its own world; camera / light
                      fields equal the values of the same run with every mode FIXED (MuJoCo evaluates them in fixed mode) and do not
                      depend on their stale previous contents; actuator_acc0 / *_invweight0 have the documented structure over M^-1
Outside: the values of M^-1 (factorisation / solve), flex, float32 rounding, actuator_length0 / lengthrange (not computed here).
"""

import json
import os
import sys

import numpy as np
import z3

from checks import lib
from checks import smoothlib_c01 as sl
from wsym import core, host, kh, report
from wsym.core import And, Implies, Not, Or, Vec, arith, cmp, ite

PID = "C33"
sys.set_int_max_str_digits(0)
EX, UFO = sl.EX, sl.UFO
MINVAL = 1e-15


def _save(name, obj):
  d = os.path.join(report.VERIF, "replays", PID)
  os.makedirs(d, exist_ok=True)
  p = os.path.join(d, name.replace("/", "_").replace(" ", "_")[:100] + ".json")
  with open(p, "w") as f:
    json.dump(obj, f, indent=1, default=lambda x: x.tolist() if hasattr(x, "tolist") else str(x))
  return p


def zr(x):
  return core.to_z3(x, "real")


def oneshot(ctx, bg):
  from checks.c27 import OneShot

  return OneShot(bg, ctx.timeout_ms)


class KCtx:
  """ctx.prove for K-mode units with the in-shape conditions of every cell the reference expression reads added to the guard"""

  def __init__(self, ctx, *kts):
    self.ctx, self.kts = ctx, list(kts)

  def prove(self, sess, name, goal, guard=True, **kw):
    from checks import diff_c27 as DF

    g = core.zbool(goal) if core.is_sym(goal) else goal
    extra = DF.reads_inshape(self.kts, g) if core.is_sym(g) else True
    return self.ctx.prove(sess, name, goal, And(guard, extra), **kw)


def row(kt, label, w):
  """the batch row a world must use: w % shape[0]"""
  return arith("%", w, kt.cell(label).shape[0])


def rows_ge1(kt, *labels):
  return [kt.cell(l).shape[0] >= 1 for l in labels]


def _at(a, idx):
  try:
    return a[tuple(int(i) for i in idx)]
  except IndexError:
    return np.zeros(a.shape[len(idx) :], dtype=a.dtype)


def _brow(pre, lab, w):
  return w % max(pre[lab].shape[0], 1)


# ================================================================================================ reference vs mujoco.mj_setConst

REF_XML = """<mujoco><worldbody>
<body name="a" pos="0.1 0.2 0.3"><joint name="j0" type="ball"/><geom size=".1" pos=".2 0 0"/>
  <camera name="c0" pos="0.3 0 0.2" mode="trackcom"/><camera name="c1" pos="0.1 0 0.2" quat="0.8 0.6 0 0" mode="targetbody" target="t"/><camera name="c2" pos="0.1 0.3 0.2" quat="0.8 0 0.6 0"/>
  <camera name="c3" pos="0.3 0.1 0.2" mode="track"/>
  <light name="l0" pos="0 0 1" dir="0 .6 -.8" mode="trackcom"/><light name="l1" pos="0 1 1" mode="targetbody" target="t"/><light name="l2" pos="0 1 1" dir="0.6 0 -0.8"/>
  <body name="b" pos=".4 0 0"><joint name="j1" type="slide" axis="1 0 0" armature=".1"/><joint name="j2" type="hinge" axis="0 1 0"/><geom size=".1" mass="0.5" pos="0 0 .2"/>
    <body name="c" pos="0 .2 0"><geom size=".05"/></body></body></body>
<body name="t" pos="1 1 1"><freejoint/><geom size=".1 .2" type="capsule"/></body>
<body name="h" pos="2 0 1"><joint name="j3" type="hinge" axis="0 1 0"/><geom size=".1"/></body>
</worldbody>
<tendon><fixed name="t0"><joint joint="j1" coef="1.5"/><joint joint="j2" coef="-0.5"/></fixed></tendon>
<actuator><position joint="j2" kp="3" dampratio="0.8"/><position tendon="t0" kp="5" dampratio="1.2"/><motor joint="j1" gear="2"/><general joint="j3" gainprm="2" biasprm="0 -2 0.5"/></actuator>
</mujoco>"""


def ref_camlight(mjm, d0, P, i):
  """MuJoCo semantics: pose of camera / light i at qpos0 evaluated in FIXED mode"""
  import mujoco

  b, tb = int(getattr(mjm, f"{P}_bodyid")[i]), int(getattr(mjm, f"{P}_targetbodyid")[i])
  R = d0.xmat[b].reshape(3, 3)
  x = d0.xpos[b] + R @ getattr(mjm, f"{P}_pos")[i]
  if P == "cam":
    cm = np.zeros(9)
    mujoco.mju_quat2Mat(cm, mjm.cam_quat[i])
    third = (R @ cm.reshape(3, 3)).ravel()
  else:
    third = R @ mjm.light_dir[i]
  return x - d0.xpos[b], x - d0.subtree_com[tb if tb >= 0 else b], third


def unit_reference(ctx):
  import mujoco

  rng = np.random.default_rng(ctx.seed)
  n = 3 if ctx.tier == "quick" else 12
  bad = []
  for trial in range(n):
    mjm = mujoco.MjModel.from_xml_string(REF_XML)
    mjd = mujoco.MjData(mjm)
    mjm.body_mass[1:] *= rng.uniform(0.5, 3, mjm.nbody - 1)
    mjm.body_inertia[1:] *= rng.uniform(0.5, 2, (mjm.nbody - 1, 1))
    q = rng.normal(size=4)
    mjm.qpos0[0:4] = q / np.linalg.norm(q)
    mjm.qpos0[4:6] += rng.uniform(-0.3, 0.3, 2)
    mjm.dof_armature[:] += rng.uniform(0, 0.2, mjm.nv)
    mjm.actuator_biasprm[:, 2] = [0.8, 1.2, 0.0, 0.5]
    ratio = mjm.actuator_biasprm[:, 2].copy()
    mujoco.mj_setConst(mjm, mjd)
    d0 = mujoco.MjData(mjm)
    d0.qpos[:] = mjm.qpos0
    mujoco.mj_forward(mjm, d0)
    chk = lambda name, a, b: bad.append(f"{name}: reference {np.asarray(a).ravel()[:6]} mujoco {np.asarray(b).ravel()[:6]}") if not np.allclose(a, b, rtol=1e-6, atol=1e-9) else None
    chk("body_subtreemass", [sum(mjm.body_mass[c] for c in range(mjm.nbody) if _is_desc(mjm, c, b)) for b in range(mjm.nbody)], mjm.body_subtreemass)
    chk("tendon_length0", d0.ten_length, mjm.tendon_length0)
    for P, num, names in (("cam", mjm.ncam, ("cam_pos0", "cam_poscom0", "cam_mat0")), ("light", mjm.nlight, ("light_pos0", "light_poscom0", "light_dir0"))):
      for i in range(num):
        for nm, r in zip(names, ref_camlight(mjm, d0, P, i)):
          chk(f"{nm}[{i}]", r, getattr(mjm, nm)[i])
    M = np.zeros((mjm.nv, mjm.nv))
    mujoco.mj_fullM(mjm, d0, M)
    diag_last = [d0.M[mjm.M_rowadr[i] + mjm.M_rownnz[i] - 1] for i in range(mjm.nv)]
    chk("CSR diagonal = last entry of the row", diag_last, np.diag(M))
    chk("meaninertia", np.mean(np.diag(M)), mjm.stat.meaninertia)
    mom = np.zeros((mjm.nu, mjm.nv))
    mujoco.mju_sparse2dense(mom, d0.actuator_moment, d0.moment_rownnz, d0.moment_rowadr, d0.moment_colind)
    Minv = np.linalg.inv(M)
    chk("actuator_acc0", [np.linalg.norm(Minv @ mom[a]) for a in range(mjm.nu)], mjm.actuator_acc0)
    for a in range(mjm.nu):
      kp, b1 = mjm.actuator_gainprm[a, 0], mjm.actuator_biasprm[a, 1]
      want = ratio[a]
      if kp == -b1 and ratio[a] > 0:
        mass = sum(M[j, j] / mom[a, j] ** 2 for j in range(mjm.nv) if mom[a, j] ** 2 > MINVAL)
        want = -ratio[a] * 2 * np.sqrt(kp * mass)
      chk(f"dampratio biasprm[{a}][2]", want, mjm.actuator_biasprm[a, 2])
    A = np.diag(Minv)
    want = np.zeros(mjm.nv)
    for j in range(mjm.njnt):
      adr, jt = mjm.jnt_dofadr[j], mjm.jnt_type[j]
      if jt == 0:
        want[adr : adr + 3], want[adr + 3 : adr + 6] = A[adr : adr + 3].mean(), A[adr + 3 : adr + 6].mean()
      elif jt == 1:
        want[adr : adr + 3] = A[adr : adr + 3].mean()
      else:
        want[adr] = A[adr]
    chk("dof_invweight0", want, mjm.dof_invweight0)
    for b in range(1, mjm.nbody):
      if mjm.body_weldid[b] == 0 or mjm.body_simple[b] == 2:
        continue
      jp, jr = np.zeros((3, mjm.nv)), np.zeros((3, mjm.nv))
      mujoco.mj_jacBodyCom(mjm, d0, jp, jr, b)
      chk(f"body_invweight0[{b}] (means of the diagonal of J M^-1 J^T, no fallback)", [np.mean(np.diag(jp @ Minv @ jp.T)), np.mean(np.diag(jr @ Minv @ jr.T))], mjm.body_invweight0[b])
    if bad:
      break
  for e in bad[:4]:
    ctx.error("reference model disagrees with mujoco.mj_setConst (harness error, not a finding): " + e)
  sess = ctx.session([])
  ctx.reach(sess, "twin:validated", True)
  ctx.notes.append(f"reference formulas compared with mujoco {mujoco.__version__} mj_setConst on {n} random perturbations (masses, inertias, qpos0 incl. ball quaternion, armature, damping ratios) of a model with ball / slide / hinge / free joints, 4 cameras and 3 lights of every mode, a tendon and 4 actuators: {len(bad)} mismatches")


# ================================================================================================ K mode: closed-form kernels


def goal_kernel(spec, pre, post):
  """replay goals of the small kernels: the reference recomputed in floats from the concrete inputs"""
  e = spec["env"]
  kind = e["kind"]
  t = spec["tid"]
  w = t[0]
  ok, msg = True, ""

  def chk(lab, idx, want, what):
    nonlocal ok, msg
    got = np.asarray(_at(post[lab], idx), dtype=float).ravel()
    want = np.asarray(want, dtype=float).ravel()
    good = got.shape == want.shape and bool(np.allclose(got, want, rtol=1e-3, atol=1e-4))
    ok = ok and good
    msg += f"{lab}{list(idx)} = {got.tolist()} expected {want.tolist()} ({what}); "

  if kind == "init_subtreemass":
    b = t[1]
    chk("body_subtreemass_out", (_brow(pre, "body_subtreemass_out", w), b), _at(pre["body_mass_in"], (_brow(pre, "body_mass_in", w), b)), "own mass")
  elif kind == "acc_subtreemass":
    node = t[1]
    body = int(pre["body_tree_"][node])
    par = int(pre["body_parentid"][body])
    r = _brow(pre, "body_subtreemass_io", w)
    d = post["body_subtreemass_io"].astype(float) - pre["body_subtreemass_io"].astype(float)
    want = np.zeros_like(d)
    if body != 0:
      want[r, par] += float(pre["body_subtreemass_io"][r, body])
    ok = bool(np.allclose(d, want, rtol=1e-4, atol=1e-5))
    msg = f"increments {d.tolist()} expected {want.tolist()}"
  elif kind == "tendon_length0":
    chk("tendon_length0_out", (_brow(pre, "tendon_length0_out", w), t[1]), pre["ten_length_in"][w, t[1]], "ten_length of this world")
  elif kind in ("cam", "light"):
    c = t[1]
    P = "cam" if kind == "cam" else "light"
    body, tgt = int(pre[f"{P}_bodyid"][c]), int(pre[f"{P}_targetbodyid"][c])
    x = _at(pre[f"{P}_xpos_in"], (w, c)).astype(float)
    com = _at(pre["subtree_com_in"], (w, tgt if tgt >= 0 else body)).astype(float)
    chk(f"{P}_pos0_out", (_brow(pre, f"{P}_pos0_out", w), c), x - _at(pre["xpos_in"], (w, body)).astype(float), "xpos - body xpos")
    chk(f"{P}_poscom0_out", (_brow(pre, f"{P}_poscom0_out", w), c), x - com, "xpos - subtree_com, at the field's own batch row")
    third = ("cam_mat0_out", "cam_xmat_in") if kind == "cam" else ("light_dir0_out", "light_xdir_in")
    chk(third[0], (_brow(pre, third[0], w), c), _at(pre[third[1]], (w, c)), "orientation copy, at the field's own batch row")
  elif kind == "dof_M0":
    dof = t[1]
    body = int(pre["dof_bodyid"][dof])
    cd = pre["cdof_in"][w, dof].astype(float)
    want = float(pre["dof_armature"][_brow(pre, "dof_armature", w), dof]) + float(np.dot(cd, np.array(sl.tb_inert_vec([float(x) for x in pre["crb_in"][w, body]], [float(x) for x in cd]))))
    chk("dof_M0_out", (w, dof), want, "armature + cdof . (I_c cdof)")
  else:
    return True, f"no float goal for {kind}"
  return ok, msg


def _rp(ctx, kt, loc, name, kind, rand=2):
  return lib.make_replay(ctx, kt, f"mujoco_warp._src.set_const:{loc}", name, "goal", goal="checks.c33:goal_kernel", env={"kind": kind, "randomize_floats": rand})


def unit_k_subtreemass(ctx):
  from mujoco_warp._src import set_const as SC

  ctx.encode(SC._init_subtreemass, SC._accumulate_subtreemass)
  ctx.bound(shape_cap=6, note="one generic thread; batch sizes of body_mass and body_subtreemass symbolic and independent")
  ctx.assume("thread's own accesses in bounds (C17)", "batched fields have at least one row")
  kt = lib.kernel_thread(SC._init_subtreemass)
  w, b = kt.tid
  sess = ctx.session(kt.bg + rows_ge1(kt, "body_mass_in", "body_subtreemass_out"))
  ctx.reach(sess, "twin:different-batch-sizes", kt.cell("body_mass_in").shape[0] != kt.cell("body_subtreemass_out").shape[0])
  r = row(kt, "body_subtreemass_out", w)
  names = {"w": w, "body": b, "nmass": kt.cell("body_mass_in").shape[0], "nsub": kt.cell("body_subtreemass_out").shape[0]}
  KCtx(ctx, kt).prove(sess, "init/value", kt.post("body_subtreemass_out", r, b) == kt.pre("body_mass_in", row(kt, "body_mass_in", w), b), names=names, replay=_rp(ctx, kt, "_init_subtreemass", "init", "init_subtreemass"),
            desc="_init_subtreemass: body_subtreemass[w % n_sub, b] is not body_mass[w % n_mass, b]")
  w2, b2 = z3.Int("w2"), z3.Int("b2")
  ctx.prove(sess, "init/frame", Implies(kt.written("body_subtreemass_out", w2, b2), And(w2 == r, b2 == b)), names=dict(names, w2=w2, b2=b2), replay=_rp(ctx, kt, "_init_subtreemass", "initf", "init_subtreemass"), desc="_init_subtreemass writes another entry")
  kt = lib.kernel_thread(SC._accumulate_subtreemass)
  w, node = kt.tid
  body = kt.pre("body_tree_", node)
  par = kt.pre("body_parentid", body)
  r = row(kt, "body_subtreemass_io", w)
  sess = ctx.session(kt.bg + rows_ge1(kt, "body_subtreemass_io") + [core.zbool(kt.inshape("body_subtreemass_io", r, body)), core.zbool(kt.inshape("body_subtreemass_io", r, par))])
  ctx.reach(sess, "twin:non-world-body", body != 0)
  names = {"w": w, "node": node, "body": body, "parent": par}
  rp = _rp(ctx, kt, "_accumulate_subtreemass", "acc", "acc_subtreemass")
  ctx.prove(sess, "accumulate/increment", kt.atomic_total("body_subtreemass_io", w2, b2) == ite(And(body != 0, w2 == r, b2 == par), kt.pre("body_subtreemass_io", r, body), 0.0), names=dict(names, w2=w2, b2=b2), replay=rp,
            desc="_accumulate_subtreemass: the thread does not add exactly subtreemass[row, body] to subtreemass[row, parent] (row = w % batch size; nothing for the world body)")
  ctx.prove(sess, "accumulate/no-plain-store", Not(kt.written("body_subtreemass_io", w2, b2, kinds=("W",))), names=names, replay=rp, desc="_accumulate_subtreemass stores non-atomically")


def unit_k_tendon_length0(ctx):
  from mujoco_warp._src import set_const as SC

  k = SC._copy_tendon_length0
  ctx.encode(k)
  ctx.bound(shape_cap=6)
  ctx.assume("thread's own accesses in bounds (C17)")
  kt = lib.kernel_thread(k)
  w, t = kt.tid
  sess = ctx.session(kt.bg + rows_ge1(kt, "tendon_length0_out"))
  ctx.reach(sess, "twin:any", True)
  KCtx(ctx, kt).prove(sess, "value", kt.post("tendon_length0_out", row(kt, "tendon_length0_out", w), t) == kt.pre("ten_length_in", w, t), names={"w": w, "t": t}, replay=_rp(ctx, kt, "_copy_tendon_length0", "len0", "tendon_length0"),
            desc="_copy_tendon_length0: tendon_length0[w % n, t] is not ten_length[w, t]")


def unit_k_camlight(kind):
  def run(ctx):
    from mujoco_warp._src import set_const as SC

    P = kind
    k = SC._compute_cam_pos0 if kind == "cam" else SC._compute_light_pos0
    third_out, third_in = ("cam_mat0_out", "cam_xmat_in") if kind == "cam" else ("light_dir0_out", "light_xdir_in")
    outs = [f"{P}_pos0_out", f"{P}_poscom0_out", third_out]
    ctx.encode(k)
    ctx.bound(shape_cap=6, note="one generic thread; the batch sizes of the three output fields symbolic and independent (set_const_0 launches over their maximum)")
    ctx.assume("thread's own accesses in bounds (C17)", "batched fields have at least one row")
    kt = lib.kernel_thread(k)
    w, c = kt.tid
    body, tgt = kt.pre(f"{P}_bodyid", c), kt.pre(f"{P}_targetbodyid", c)
    reads_ok = [core.zbool(kt.inshape(f"{P}_xpos_in", w, c)), core.zbool(kt.inshape(third_in, w, c)), core.zbool(kt.inshape("xpos_in", w, body)), core.zbool(kt.inshape("subtree_com_in", w, body)),
                z3.Implies(tgt >= 0, core.zbool(kt.inshape("subtree_com_in", w, tgt)))]
    sess = ctx.session(kt.bg + rows_ge1(kt, *outs) + reads_ok)
    n = [kt.cell(o).shape[0] for o in outs]
    ctx.reach(sess, "twin:with-target", tgt >= 0)
    ctx.reach(sess, "twin:different-batch-sizes", And(n[0] != n[1], n[1] != n[2]))
    x = list(kt.prev(f"{P}_xpos_in", w, c).c)
    com = [ite(tgt >= 0, a, b) for a, b in zip(kt.prev("subtree_com_in", w, tgt).c, kt.prev("subtree_com_in", w, body).c)]
    names = {"w": w, "id": c, "body": body, "target": tgt, "n_pos0": n[0], "n_poscom0": n[1], "n_third": n[2]}
    rp = _rp(ctx, kt, k.func.__name__, kind, kind)
    same = And(n[0] == n[1], n[0] == n[2])
    want = [EX.sub(x, list(kt.prev("xpos_in", w, body).c)), EX.sub(x, com), list(kt.prev(third_in, w, c).c)]
    what = ["xpos - xpos[body]", "xpos - subtree_com[target if target >= 0 else body]", "the global orientation"]
    for o, wv, wt in zip(outs, want, what):
      got = list(kt.postv(o, row(kt, o, w), c).c)
      ctx.prove(sess, f"{o[:-4]}/value(equal-batch-sizes)", sl.eq_all(got, wv), same, names=names, replay=rp, desc=f"{k.func.__name__}: {o[:-4]}[w % n, id] is not {wt}")
    for o, wv, wt in list(zip(outs, want, what))[1:]:
      got = list(kt.postv(o, row(kt, o, w), c).c)
      ctx.prove(sess, f"{o[:-4]}/own-batch-row", sl.eq_all(got, wv), Not(same), names=names, replay=rp,
                desc=f"{k.func.__name__}: {o[:-4]} is indexed with the batch size of {outs[0][:-4]} (`worldid % {outs[0]}.shape[0]`) instead of its own: with different batch sizes (set_const_0 launches over the maximum of the three) the world's row of {o[:-4]} is not written (or a row of another world is overwritten)")

  return (f"kernel/{kind}_pos0", run)


def unit_k_dof_M0(ctx):
  from mujoco_warp._src import math as mm
  from mujoco_warp._src import set_const as SC

  k = SC._compute_dof_M0
  ctx.encode(k, mm.inert_vec)
  ctx.bound(shape_cap=6, note="exact reals")
  ctx.assume("thread's own accesses in bounds (C17)")
  kt = lib.kernel_thread(k)
  w, dof = kt.tid
  body = kt.pre("dof_bodyid", dof)
  cd = list(kt.prev("cdof_in", w, dof).c)
  want = arith("+", kt.pre("dof_armature", row(kt, "dof_armature", w), dof), EX.dot(cd, sl.tb_inert_vec(list(kt.prev("crb_in", w, body).c), cd)))
  sess = oneshot(ctx, kt.bg + rows_ge1(kt, "dof_armature"))
  ctx.reach(sess, "twin:any", True)
  KCtx(ctx, kt).prove(sess, "value", kt.post("dof_M0_out", w, dof) == zr(want), names={"w": w, "dof": dof, "body": body}, replay=_rp(ctx, kt, "_compute_dof_M0", "m0", "dof_M0"),
            desc="_compute_dof_M0: dof_M0[w, i] is not dof_armature[w % n, i] + cdof_i . (crb[dof_bodyid[i]] cdof_i), the diagonal entry of the joint-space inertia")


def goal_vectors(spec, pre, post):
  """replay goals of the gather / scatter / reduction helpers: recomputed with numpy from the concrete inputs"""
  kind = spec["env"]["kind"]
  t = spec["tid"]
  w = t[0]
  sc = lambda n: spec["args"][n]["scalar"]
  ok, msg = True, ""

  def cmpv(lab, got, want):
    nonlocal ok, msg
    got, want = np.asarray(got, dtype=float).ravel(), np.asarray(want, dtype=float).ravel()
    good = got.shape == want.shape and bool(np.allclose(got, want, rtol=1e-3, atol=1e-4))
    ok = ok and good
    msg += f"{lab} = {got.tolist()} expected {want.tolist()}; "

  def sparse_row(nnz, adr, colind, vals, n):
    v = np.zeros(n)
    hit = np.zeros(n, dtype=bool)
    for k in range(nnz):
      c = int(colind[adr + k])
      if 0 <= c < n:
        v[c], hit[c] = float(vals[adr + k]), True
    return v, hit

  if kind == "meaninertia":
    nv = int(sc("nv"))
    want = 1.0 if nv == 0 else np.mean([float(pre["M_in"][w, int(pre["M_rowadr_in"][i]) + int(pre["M_rownnz_in"][i]) - 1]) for i in range(nv)])
    cmpv("meaninertia", post["meaninertia_out"][_brow(pre, "meaninertia_out", w)], want)
  elif kind == "unit":
    n = post["unit_vec_out"].shape[1]
    cmpv("unit vector", post["unit_vec_out"][w], [1.0 if i == int(sc("dofid_target")) else 0.0 for i in range(n)])
  elif kind == "extract":
    di = int(sc("dofid"))
    cmpv("A_diag", post["dof_A_diag_out"][_brow(pre, "dof_A_diag_out", w), di], pre["result_vec_in"][w, di])
  elif kind == "qpos0":
    cmpv("qpos", post["qpos_out"][w, t[1]], pre["qpos0"][_brow(pre, "qpos0", w), t[1]])
  elif kind == "moment":
    a = int(sc("actid_target"))
    n = post["act_moment_vec_out"].shape[1]
    v, _ = sparse_row(int(pre["moment_rownnz_in"][w, a]), int(pre["moment_rowadr_in"][w, a]), pre["moment_colind_in"][w], pre["actuator_moment_in"][w], n)
    cmpv("moment vector", post["act_moment_vec_out"][w], v)
  elif kind == "tendonJ":
    tn = int(sc("tenid_target"))
    n = post["ten_J_vec_out"].shape[1]
    v, hit = sparse_row(int(pre["ten_J_rownnz"][tn]), int(pre["ten_J_rowadr"][tn]), pre["ten_J_colind"], pre["ten_J_in"][w], n)
    cmpv("tendon J vector", post["ten_J_vec_out"][w], np.where(hit, v, pre["ten_J_vec_out"][w]))
  elif kind == "tendondot":
    tn = int(sc("tenid_target"))
    nnz, adr = int(pre["ten_J_rownnz"][tn]), int(pre["ten_J_rowadr"][tn])
    want = sum(float(pre["ten_J_in"][w, adr + k]) * float(pre["result_vec_in"][w, int(pre["ten_J_colind"][adr + k])]) for k in range(nnz))
    cmpv("tendon_invweight0", post["tendon_invweight0_out"][_brow(pre, "tendon_invweight0_out", w), tn], want)
  elif kind == "bodyA":
    nv = int(sc("nv"))
    want = float(np.dot(pre["body_jac_row_in"][w, :nv].astype(float), pre["result_vec_in"][w, :nv].astype(float)))
    cmpv("A[row,row]", post["body_A_diag_out"][_brow(pre, "body_A_diag_out", w), int(sc("bodyid_target")), int(sc("row_idx"))], want)
  elif kind == "acc0":
    nv = int(sc("nv"))
    cmpv("acc0", post["actuator_acc0_out"][w, int(sc("actid_target"))], np.linalg.norm(pre["result_vec_in"][w, :nv].astype(float)))
  return ok, msg


def _rpv(ctx, kt, loc, kind):
  return lib.make_replay(ctx, kt, f"mujoco_warp._src.set_const:{loc}", kind, "goal", goal="checks.c33:goal_vectors", env={"kind": kind, "randomize_floats": 3})


def unit_k_meaninertia(ctx):
  from mujoco_warp._src import set_const as SC

  k = SC._compute_meaninertia
  ctx.encode(k)
  ctx.bound(nv="0, 1, 3 (concrete loop bounds)", shape_cap=8)
  ctx.assume("thread's own accesses in bounds (C17)", "the diagonal entry of CSR row i of M is its last entry M_rowadr[i] + M_rownnz[i] - 1 (MuJoCo layout; validated in unit reference)")
  for nv in (0, 1, 3):
    kt = lib.kernel_thread(k, scalars={"nv": nv}, cap=8)
    w = kt.tid
    diag_ok = [core.zbool(kt.inshape("M_in", w, kt.pre("M_rowadr_in", i) + kt.pre("M_rownnz_in", i) - 1)) for i in range(nv)] + [kt.pre("M_rownnz_in", i) >= 1 for i in range(nv)]
    sess = oneshot(ctx, kt.bg + rows_ge1(kt, "meaninertia_out") + diag_ok)
    ctx.reach(sess, f"twin:nv{nv}", True)
    tot = 0.0
    for i in range(nv):
      tot = arith("+", tot, kt.pre("M_in", w, kt.pre("M_rowadr_in", i) + kt.pre("M_rownnz_in", i) - 1))
    got = kt.post("meaninertia_out", row(kt, "meaninertia_out", w))
    goal = (got == 1.0) if nv == 0 else (got * nv == zr(tot))
    ctx.prove(sess, f"nv{nv}/mean-of-diagonal", goal, names={"w": w}, replay=_rpv(ctx, kt, "_compute_meaninertia", "meaninertia"), desc="_compute_meaninertia: meaninertia[w % n] is not the mean of the diagonal of M (1 for nv = 0)")


def unit_k_vectors(ctx):
  """the gather / scatter helpers around solve_m"""
  from mujoco_warp._src import set_const as SC

  ctx.encode(SC._set_unit_vector, SC._extract_dof_A_diag, SC._copy_actuator_moment, SC._copy_tendon_jacobian, SC._compute_tendon_dot_product, SC._compute_body_A_diag_entry, SC._compute_actuator_acc0, SC._copy_qpos0_to_qpos)
  UNR = 3
  ctx.bound(unroll=UNR, note=f"vectors of length nv <= {UNR}, sparse rows of <= {UNR} non-zeros")
  ctx.assume("thread's own accesses in bounds (C17)", "sparse rows list each column once")
  norp = lambda m: (False, "structural lemma on a helper kernel (its composition is replayed in host/const0)")
  # unit vector
  tgt = z3.Int("dofid_target")
  kt = lib.kernel_thread(SC._set_unit_vector, scalars={"dofid_target": tgt}, unroll=UNR, cap=UNR)
  w = kt.tid
  i = z3.Int("i")
  sess = ctx.session(kt.bg)
  ctx.reach(sess, "twin:unit", And(tgt >= 0, tgt < kt.cell("unit_vec_out").shape[1]))
  ctx.prove(sess, "unit_vector", kt.post("unit_vec_out", w, i) == ite(i == tgt, 1.0, 0.0), And(i >= 0, i < kt.cell("unit_vec_out").shape[1]), names={"w": w, "i": i}, replay=_rpv(ctx, kt, "_set_unit_vector", "unit"), desc="_set_unit_vector: the vector is not e_target")
  # extract
  di = z3.Int("dofid")
  kt = lib.kernel_thread(SC._extract_dof_A_diag, scalars={"dofid": di})
  w = kt.tid
  sess = ctx.session(kt.bg + rows_ge1(kt, "dof_A_diag_out"))
  ctx.reach(sess, "twin:extract", True)
  KCtx(ctx, kt).prove(sess, "extract_diag", kt.post("dof_A_diag_out", row(kt, "dof_A_diag_out", w), di) == kt.pre("result_vec_in", w, di), names={"w": w}, replay=_rpv(ctx, kt, "_extract_dof_A_diag", "extract"), desc="_extract_dof_A_diag: A_diag[w % n, dof] is not (M^-1 e_dof)[dof] of this world")
  # qpos0 copy
  kt = lib.kernel_thread(SC._copy_qpos0_to_qpos)
  w, q = kt.tid
  sess = ctx.session(kt.bg + rows_ge1(kt, "qpos0"))
  ctx.reach(sess, "twin:qpos0", True)
  KCtx(ctx, kt).prove(sess, "qpos0_to_qpos", kt.post("qpos_out", w, q) == kt.pre("qpos0", row(kt, "qpos0", w), q), names={"w": w}, replay=_rpv(ctx, kt, "_copy_qpos0_to_qpos", "qpos0"), desc="_copy_qpos0_to_qpos: qpos[w] is not qpos0[w % n]")
  # actuator moment row -> dense vector
  a = z3.Int("actid_target")
  kt = lib.kernel_thread(SC._copy_actuator_moment, scalars={"actid_target": a}, unroll=UNR, cap=UNR)
  w = kt.tid
  n, adr = kt.pre("moment_rownnz_in", w, a), kt.pre("moment_rowadr_in", w, a)
  cols = [kt.pre("moment_colind_in", w, adr + k) for k in range(UNR)]
  vals = [kt.pre("actuator_moment_in", w, adr + k) for k in range(UNR)]
  distinct = [z3.Implies(z3.And(x < n, y < n), cols[x] != cols[y]) for x in range(UNR) for y in range(x)]
  sess = ctx.session(kt.bg + distinct)
  ctx.reach(sess, "twin:moment", n == UNR)
  dense = lambda c: sum([z3.If(z3.And(k < n, cols[k] == c), vals[k], 0) for k in range(UNR)], z3.RealVal(0))
  ctx.prove(sess, "moment_row_to_vector", kt.post("act_moment_vec_out", w, i) == dense(i), And(i >= 0, i < kt.cell("act_moment_vec_out").shape[1]), names={"w": w, "i": i}, replay=_rpv(ctx, kt, "_copy_actuator_moment", "moment"), desc="_copy_actuator_moment: the dense vector is not the actuator's moment row (zeros elsewhere)")
  # tendon Jacobian row -> dense vector (the caller zero-fills first)
  t = z3.Int("tenid_target")
  kt = lib.kernel_thread(SC._copy_tendon_jacobian, scalars={"tenid_target": t}, unroll=UNR, cap=UNR)
  w = kt.tid
  n, adr = kt.pre("ten_J_rownnz", t), kt.pre("ten_J_rowadr", t)
  cols = [kt.pre("ten_J_colind", adr + k) for k in range(UNR)]
  vals = [kt.pre("ten_J_in", w, adr + k) for k in range(UNR)]
  distinct = [z3.Implies(z3.And(x < n, y < n), cols[x] != cols[y]) for x in range(UNR) for y in range(x)]
  sess = ctx.session(kt.bg + distinct)
  ctx.reach(sess, "twin:tendonJ", n == UNR)
  hit = lambda c: z3.Or(*[z3.And(k < n, cols[k] == c) for k in range(UNR)])
  dense = lambda c: sum([z3.If(z3.And(k < n, cols[k] == c), vals[k], 0) for k in range(UNR)], z3.RealVal(0))
  ctx.prove(sess, "tendon_row_to_vector", kt.post("ten_J_vec_out", w, i) == z3.If(hit(i), dense(i), kt.pre("ten_J_vec_out", w, i)), And(i >= 0, i < kt.cell("ten_J_vec_out").shape[1]), names={"w": w, "i": i}, replay=_rpv(ctx, kt, "_copy_tendon_jacobian", "tendonJ"), desc="_copy_tendon_jacobian: the vector is not the tendon's Jacobian row scattered over the (zeroed) vector")
  # tendon invweight = J . result
  kt = lib.kernel_thread(SC._compute_tendon_dot_product, scalars={"tenid_target": t}, unroll=UNR, cap=UNR)
  w = kt.tid
  n, adr = kt.pre("ten_J_rownnz", t), kt.pre("ten_J_rowadr", t)
  tot = z3.RealVal(0)
  for k_ in range(UNR):
    tot = tot + z3.If(k_ < n, kt.pre("ten_J_in", w, adr + k_) * kt.pre("result_vec_in", w, kt.pre("ten_J_colind", adr + k_)), 0)
  sess = oneshot(ctx, kt.bg + rows_ge1(kt, "tendon_invweight0_out"))
  ctx.reach(sess, "twin:tendondot", n == UNR)
  ctx.prove(sess, "tendon_invweight0=J.Minv.J", kt.post("tendon_invweight0_out", row(kt, "tendon_invweight0_out", w), t) == tot, names={"w": w}, replay=_rpv(ctx, kt, "_compute_tendon_dot_product", "tendondot"), desc="_compute_tendon_dot_product: tendon_invweight0[w % n, t] is not J_t . (M^-1 J_t^T)")
  # body A diagonal entry
  b, r = z3.Int("bodyid_target"), z3.Int("row_idx")
  kt = lib.kernel_thread(SC._compute_body_A_diag_entry, scalars={"nv": UNR, "bodyid_target": b, "row_idx": r}, cap=6)
  w = kt.tid
  tot = z3.RealVal(0)
  for k_ in range(UNR):
    tot = tot + kt.pre("body_jac_row_in", w, k_) * kt.pre("result_vec_in", w, k_)
  sess = oneshot(ctx, kt.bg + rows_ge1(kt, "body_A_diag_out"))
  ctx.reach(sess, "twin:bodyA", True)
  ctx.prove(sess, "body_A_diag=J.Minv.J", kt.post("body_A_diag_out", row(kt, "body_A_diag_out", w), b, r) == tot, names={"w": w}, replay=_rpv(ctx, kt, "_compute_body_A_diag_entry", "bodyA"), desc="_compute_body_A_diag_entry: A[row,row] is not J_row . (M^-1 J_row^T)")
  # acc0 = norm
  kt = lib.kernel_thread(SC._compute_actuator_acc0, scalars={"nv": UNR, "actid_target": a}, cap=6)
  w = kt.tid
  ss = z3.RealVal(0)
  for k_ in range(UNR):
    ss = ss + kt.pre("result_vec_in", w, k_) * kt.pre("result_vec_in", w, k_)
  got = kt.post("actuator_acc0_out", w, a)
  sess = oneshot(ctx, kt.bg)
  ctx.reach(sess, "twin:acc0", True)
  ctx.prove(sess, "acc0=norm(Minv.moment)", And(got >= 0, got * got == ss), names={"w": w}, replay=_rpv(ctx, kt, "_compute_actuator_acc0", "acc0"), desc="_compute_actuator_acc0: actuator_acc0[w, a] is not the Euclidean norm of M^-1 moment_a")


def goal_finalize(spec, pre, post):
  e = spec["env"]
  w = spec["tid"][0]
  T = 1.0 / 3.0
  if e["kind"] == "dof":
    dof = spec["tid"][1]
    j = int(pre["dof_jntid"][dof])
    jt, adr = int(pre["jnt_type"][j]), int(pre["jnt_dofadr"][j])
    A = pre["dof_A_diag_in"][_brow(pre, "dof_A_diag_in", w)].astype(float)
    g = lambda i: float(A[i]) if 0 <= i < len(A) else 0.0
    if jt == 0:
      want = T * (g(adr) + g(adr + 1) + g(adr + 2)) if dof < adr + 3 else T * (g(adr + 3) + g(adr + 4) + g(adr + 5))
    elif jt == 1:
      want = T * (g(adr) + g(adr + 1) + g(adr + 2))
    else:
      want = g(dof)
    got = float(post["dof_invweight0_out"][_brow(pre, "dof_invweight0_out", w), dof])
    return lib.approx(got, want), f"dof_invweight0[{dof}] = {got} expected {want} (joint type {jt}, dofadr {adr})"
  b = spec["tid"][1]
  A = pre["body_A_diag_in"][_brow(pre, "body_A_diag_in", w), b].astype(float)
  static = b == 0 or int(pre["body_weldid"][b]) == 0
  want = [0.0, 0.0] if static else [T * float(A[0] + A[1] + A[2]), T * float(A[3] + A[4] + A[5])]
  got = post["body_invweight0_out"][_brow(pre, "body_invweight0_out", w), b].astype(float)
  return bool(np.allclose(got, want, rtol=1e-3, atol=1e-12)), f"body_invweight0[{b}] = {got.tolist()} expected {want} (mean translational / rotational diagonal of J M^-1 J^T, no fallback in MuJoCo 3.13)"


INVW_XML = """<mujoco><worldbody><body pos="0 0 1"><joint type="hinge" axis="0 1 0"/><geom size=".1"/></body></worldbody></mujoco>"""


def replay_invweight_fallback(model):
  """public API vs mujoco.mj_setConst: a hinge through the body's centre of mass has translational inverse weight 0"""
  import mujoco

  import mujoco_warp as mjw

  mjm = mujoco.MjModel.from_xml_string(INVW_XML)
  mjd = mujoco.MjData(mjm)
  m, d = mjw.put_model(mjm), mjw.make_data(mjm)
  mujoco.mj_setConst(mjm, mjd)
  mjw.set_const(m, d)
  a, b = mjm.body_invweight0[1], m.body_invweight0.numpy()[0, 1]
  return (not np.allclose(a, b, rtol=1e-3, atol=1e-6)), _save("invweight-fallback", {"model_xml": INVW_XML, "mujoco_body_invweight0": a, "mjwarp_body_invweight0": b, "how": "mjw.set_const(m, d) vs mujoco.mj_setConst on the unchanged model"})


def unit_k_finalize(ctx):
  from mujoco_warp._src import set_const as SC

  ctx.encode(SC._finalize_dof_invweight0, SC._finalize_body_invweight0)
  ctx.bound(shape_cap=8, note="one generic thread each; batch sizes symbolic; exact reals")
  ctx.assume("thread's own accesses in bounds (C17)", "jnt_type in {free, ball, slide, hinge}; dofs of a free / ball joint are contiguous from jnt_dofadr")
  T = 1.0 / 3.0
  kt = lib.kernel_thread(SC._finalize_dof_invweight0, cap=8)
  w, dof = kt.tid
  j = kt.pre("dof_jntid", dof)
  jt, adr = kt.pre("jnt_type", j), kt.pre("jnt_dofadr", j)
  A = lambda i: kt.pre("dof_A_diag_in", row(kt, "dof_A_diag_in", w), i)
  avg = lambda o: T * (A(adr + o) + A(adr + o + 1) + A(adr + o + 2))
  want = z3.If(jt == 0, z3.If(dof < adr + 3, avg(0), avg(3)), z3.If(jt == 1, avg(0), A(dof)))
  sess = oneshot(ctx, kt.bg + rows_ge1(kt, "dof_A_diag_in", "dof_invweight0_out") + [jt >= 0, jt <= 3])
  ctx.reach(sess, "twin:free-rotational", And(jt == 0, dof == adr + 4))
  rp = lib.make_replay(ctx, kt, "mujoco_warp._src.set_const:_finalize_dof_invweight0", "dofw", "goal", goal="checks.c33:goal_finalize", env={"kind": "dof", "randomize_floats": 2})
  ctx.prove(sess, "dof_invweight0/averaging", kt.post("dof_invweight0_out", row(kt, "dof_invweight0_out", w), dof) == want, names={"w": w, "dof": dof, "jnt_type": jt, "dofadr": adr}, replay=rp,
            desc="_finalize_dof_invweight0: not the mean over the translational / rotational dofs of a free joint, over the 3 dofs of a ball joint, the own value for slide / hinge")
  kt = lib.kernel_thread(SC._finalize_body_invweight0, cap=8)
  w, b = kt.tid
  A = lambda i: kt.pre("body_A_diag_in", row(kt, "body_A_diag_in", w), b, i)
  tr, ro = T * (A(0) + A(1) + A(2)), T * (A(3) + A(4) + A(5))
  static = Or(b == 0, kt.pre("body_weldid", b) == 0)
  got = list(kt.postv("body_invweight0_out", row(kt, "body_invweight0_out", w), b).c)
  sess = oneshot(ctx, kt.bg + rows_ge1(kt, "body_A_diag_in", "body_invweight0_out"))
  ctx.reach(sess, "twin:moving-body", Not(static))
  degenerate = Or(And(tr < MINVAL, ro > MINVAL), And(ro < MINVAL, tr > MINVAL))
  names = {"w": w, "body": b, "weldid": kt.pre("body_weldid", b), "trans": tr, "rot": ro}
  rp = lib.make_replay(ctx, kt, "mujoco_warp._src.set_const:_finalize_body_invweight0", "bodyw", "goal", goal="checks.c33:goal_finalize", env={"kind": "body", "randomize_floats": 2})
  ctx.prove(sess, "body_invweight0/static-zero", And(got[0] == 0, got[1] == 0), static, names=names, replay=rp, desc="_finalize_body_invweight0: world / static body (weldid 0) does not get (0, 0)")
  ctx.prove(sess, "body_invweight0/averaging", And(got[0] == tr, got[1] == ro), And(Not(static), Not(degenerate)), names=names, replay=rp, desc="_finalize_body_invweight0: not (mean of the translational diagonal, mean of the rotational diagonal) of J M^-1 J^T")
  ctx.prove(sess, "body_invweight0/fallback(one-component-degenerate)", And(got[0] == tr, got[1] == ro), And(Not(static), degenerate), names=names, replay=replay_invweight_fallback,
            desc="_finalize_body_invweight0: when exactly one of the translational / rotational means is below mjMINVAL it is replaced by the other one; mujoco 3.13's mj_setConst keeps the computed value (hinge through the centre of mass: mujoco (0, 19.9), mujoco_warp (19.9, 19.9))")


DAMP_XML = """<mujoco><worldbody><body><joint name="j" type="slide"/><geom size=".1"/></body></worldbody>
<actuator><general joint="j" gear="{gear}" biastype="{bt}" gainprm="2" biasprm="0 -2 0.5"/></actuator></mujoco>"""


def replay_dampratio(gear, bt):
  def _rp(model):
    import mujoco

    import mujoco_warp as mjw

    xml = DAMP_XML.format(gear=gear, bt=bt)
    mjm = mujoco.MjModel.from_xml_string(xml)
    mjd = mujoco.MjData(mjm)
    m, d = mjw.put_model(mjm), mjw.make_data(mjm)
    mjm.actuator_biasprm[0, 2] = 0.5  # the compiler already resolved the ratio: set it again
    m.actuator_biasprm.assign(mjm.actuator_biasprm[None].astype(np.float32))
    mujoco.mj_setConst(mjm, mjd)
    mjw.set_const(m, d)
    a, b = float(mjm.actuator_biasprm[0, 2]), float(m.actuator_biasprm.numpy()[0, 0, 2])
    return (not lib.approx(a, b, rtol=1e-3, atol=1e-6)), _save(f"dampratio.{gear}.{bt}", {"model_xml": xml, "biasprm2_before": 0.5, "mujoco_biasprm2": a, "mjwarp_biasprm2": b, "how": "mjw.set_const vs mujoco.mj_setConst after writing biasprm[2] = 0.5 (a damping ratio)"})

  return _rp


def goal_dampratio(spec, pre, post):
  w, a = spec["tid"][:2]
  bp0 = pre["actuator_biasprm"]
  r = _brow(pre, "actuator_biasprm", w)
  b = bp0[r, a].astype(float)
  kp = float(pre["actuator_gainprm"][_brow(pre, "actuator_gainprm", w), a][0])
  want = b.copy()
  if kp == -b[1] and b[2] > 0:
    n, adr = int(pre["moment_rownnz_in"][w, a]), int(pre["moment_rowadr_in"][w, a])
    mass = 0.0
    for k in range(n):
      trn = float(pre["actuator_moment_in"][w, adr + k])
      if trn * trn > MINVAL:
        mass += float(pre["dof_M0_in"][w, int(pre["moment_colind_in"][w, adr + k])]) / (trn * trn)
    if kp * mass < 0:
      return True, "skipped: negative kp * reflected mass"
    want[2] = -b[2] * 2.0 * np.sqrt(kp * mass)
  got = post["actuator_biasprm"][r, a].astype(float)
  return bool(np.allclose(got, want, rtol=1e-3, atol=1e-5)), f"biasprm[{r},{a}] = {got.tolist()} expected {want.tolist()} (kp {kp}, biastype {int(pre['actuator_biastype'][a])})"


def unit_k_dampratio(ctx):
  from mujoco_warp._src import set_const as SC
  from mujoco_warp._src.types import BiasType

  UNR = 2 if ctx.tier == "quick" else 3
  k = SC._resolve_dampratio
  ctx.encode(k)
  ctx.bound(unroll=UNR, shape_cap=6, note=f"moment rows of <= {UNR} non-zeros; float products / quotients / sqrt are uninterpreted functions shared with the reference (structure, branch conditions, indices, batch rows are compared)")
  ctx.assume("thread's own accesses in bounds (C17)", "main query: biastype AFFINE, kp + biasprm[1] either exactly 0 or beyond mjMINVAL, no |moment| in the band where |m| > mjMINVAL but m^2 <= mjMINVAL (the two deviations there are separate queries)")
  kt = lib.kernel_thread(k, unroll=UNR, cap=6, interp_kw={"float_uf": True})
  w, a = kt.tid
  P = kt.pre
  rb, rg = row(kt, "actuator_biasprm", w), row(kt, "actuator_gainprm", w)
  bp = list(kt.prev("actuator_biasprm", rb, a).c)
  kp = kt.prev("actuator_gainprm", rg, a).c[0]
  bt = P("actuator_biastype", a)
  n, adr = P("moment_rownnz_in", w, a), P("moment_rowadr_in", w, a)
  cols = [P("moment_colind_in", w, adr + i) for i in range(UNR)]
  moms = [P("actuator_moment_in", w, adr + i) for i in range(UNR)]
  mass = 0.0
  band = []
  for i in range(UNR):
    sq = UFO.a("*", moms[i], moms[i])
    use = And(i < n, cmp(">", sq, MINVAL))
    band.append(And(i < n, Not(core.zbool(cmp(">", core.vabs(moms[i]), MINVAL)) == core.zbool(cmp(">", sq, MINVAL)))))
    mass = ite(use, UFO.a("+", mass, UFO.a("/", P("dof_M0_in", w, cols[i]), sq)), mass)
  cond = And(cmp("==", kp, arith("*", bp[1], -1)), cmp(">", bp[2], 0.0))
  new2 = arith("*", UFO.a("*", arith("*", bp[2], 2.0), _uf_sqrt(UFO.a("*", kp, mass))), -1)
  want = [bp[0], bp[1], ite(cond, new2, bp[2])] + bp[3:]
  got = list(kt.postv("actuator_biasprm", rb, a).c)
  affine = bt == int(BiasType.AFFINE)
  exact_or_far = Or(kp + bp[1] == 0, kp + bp[1] > MINVAL, kp + bp[1] < -MINVAL)
  inband = Or(*band)
  # true facts about the uninterpreted product: x * x >= 0, and x * x > mjMINVAL needs |x| > mjMINVAL
  facts = [UFO.a("*", moms[i], moms[i]) >= 0 for i in range(UNR)] + [z3.Implies(core.zbool(cmp(">", UFO.a("*", moms[i], moms[i]), MINVAL)), core.zbool(cmp(">", core.vabs(moms[i]), MINVAL))) for i in range(UNR)]
  sess = ctx.session(kt.bg + rows_ge1(kt, "actuator_biasprm", "actuator_gainprm") + facts + sl.comm_axioms([zr(x) for x in want + got]))
  ctx.reach(sess, "twin:resolved", And(affine, cond, n == UNR))
  names = {"w": w, "act": a, "biastype": bt, "kp": kp, "biasprm1": bp[1], "biasprm2": bp[2], "rownnz": n}
  rp = lib.make_replay(ctx, kt, "mujoco_warp._src.set_const:_resolve_dampratio", "damp", "goal", goal="checks.c33:goal_dampratio", env={"randomize_floats": 0})
  ctx.prove(sess, "biasprm/resolved", sl.eq_all(got, want), And(affine, exact_or_far, Not(inband)), names=names, replay=first_ok(rp, replay_dampratio("1", "affine")),
            desc="_resolve_dampratio: for gainprm[0] == -biasprm[1] and biasprm[2] > 0 the new biasprm[2] is not -ratio * 2 * sqrt(kp * sum_j dof_M0[j] / moment_j^2) (other components / other actuators unchanged)")
  ctx.prove(sess, "biasprm/biastype-not-affine", sl.eq_all(got, want), And(Not(affine), exact_or_far, Not(inband)), names=names, replay=replay_dampratio("1", "none"),
            desc="_resolve_dampratio skips actuators whose biastype is not AFFINE; mj_setConst tests only gainprm[0] == -biasprm[1] and biasprm[2] > 0 (general actuator biastype none, gainprm 2, biasprm 0 -2 0.5: mujoco -> biasprm[2] = -2*0.5*sqrt(2 m), mujoco_warp keeps 0.5; the value is unused by the force law)")
  ctx.prove(sess, "biasprm/tiny-moment-threshold", sl.eq_all(got, want), And(affine, exact_or_far, inband), names=names, replay=replay_dampratio("1e-9", "affine"),
            desc="_resolve_dampratio includes a dof in the reflected inertia when |moment| > mjMINVAL; mj_setConst requires moment^2 > mjMINVAL (gear 1e-9: mujoco biasprm[2] = -0, mujoco_warp -2.9e9)")
  w2, a2 = z3.Int("w2"), z3.Int("a2")
  ctx.prove(sess, "frame", Implies(kt.written("actuator_biasprm", w2, a2), And(w2 == rb, a2 == a)), names=dict(names, w2=w2, a2=a2), replay=rp, desc="_resolve_dampratio writes the bias parameters of another actuator / batch row")


def first_ok(*replays):
  def _rp(model):
    last = (False, "no replay")
    for r in replays:
      last = r(model)
      if last[0]:
        return last
    return last

  return _rp


def unit_k_lengthspring(ctx):
  from mujoco_warp._src import set_const as SC

  k = SC._resolve_tendon_lengthspring
  ctx.encode(k)
  ctx.bound(shape_cap=6)
  ctx.assume("thread's own accesses in bounds (C17)")
  kt = lib.kernel_thread(k)
  w, t = kt.tid
  r = row(kt, "tendon_lengthspring_out", w)
  old = list(kt.prev("tendon_lengthspring_out", r, t).c)
  L = kt.pre("ten_length_in", w, t)
  unset = And(old[0] == -1, old[1] == -1)
  got = list(kt.postv("tendon_lengthspring_out", r, t).c)
  sess = ctx.session(kt.bg + rows_ge1(kt, "tendon_lengthspring_out"))
  ctx.reach(sess, "twin:unset", unset)
  ctx.prove(sess, "value", sl.eq_all(got, [ite(unset, L, old[0]), ite(unset, L, old[1])]), names={"w": w, "t": t}, replay=lambda m: (False, "structural lemma (value checked numerically in unit reference)"),
            desc="_resolve_tendon_lengthspring: (-1, -1) is not replaced by (length, length) at qpos_spring / a user value is overwritten")


# ================================================================================================ H mode: set_const_fixed

TOPO = {
  "chain": """<mujoco><worldbody><body><joint/><geom size=".1"/><body pos=".3 0 0"><joint/><geom size=".1"/><body pos=".3 0 0"><joint/><geom size=".1"/></body></body></body></worldbody></mujoco>""",
  "fork": """<mujoco><worldbody><body><joint/><geom size=".1"/><body pos=".3 0 0"><joint/><geom size=".1"/></body><body pos="0 .3 0"><joint/><geom size=".1"/><body pos="0 .3 0"><geom size=".05"/></body></body></body>
<body pos="2 0 0"><freejoint/><geom size=".1"/></body></worldbody></mujoco>""",
}


def unit_host_fixed(topo, nsub):
  def run(ctx):
    import mujoco
    import warp as wp

    import mujoco_warp as mjw
    from mujoco_warp._src import set_const as SC

    mjm = mujoco.MjModel.from_xml_string(TOPO[topo])
    m = mjw.put_model(mjm)
    d = mjw.make_data(mjm, nworld=2)
    nb = int(mjm.nbody)
    ctx.encode(SC.set_const_fixed)
    ctx.bound(topology=topo, nbody=nb, batch_body_mass=2, batch_body_subtreemass=nsub, note="masses and the stale body_subtreemass contents symbolic; exact reals")
    m.body_mass = wp.array(np.tile(mjm.body_mass, (2, 1)).astype(np.float32), dtype=float)
    m.body_subtreemass = wp.array(np.tile(mjm.body_subtreemass, (nsub, 1)).astype(np.float32), dtype=float)
    m2 = host.shim_dataclass(m, "m.", symbolic=lambda n: n in ("m.body_mass", "m.body_subtreemass"))
    ma = host.arrays_of(m2)
    with host.HostRun(mode="exec") as hr:
      SC.set_const_fixed(m2, d)
    for ev in hr.events:
      if ev.kind == "launch":
        ctx.encode(ev.kernel)
    mass, sub = ma["body_mass"].ref.cell, ma["body_subtreemass"].ref.cell
    sess = ctx.session([core.zbool(a) for a in hr.assumes])
    ctx.reach(sess, "twin:state", True)
    desc = {b: [c for c in range(nb) if _is_desc(mjm, c, b)] for b in range(nb)}

    def rp(model):
      mm = mjw.put_model(mjm)
      rr = np.random.default_rng(0)
      mass_np = rr.uniform(0.5, 2.0, (2, nb)).astype(np.float32)
      mm.body_mass = wp.array(mass_np, dtype=float)
      mm.body_subtreemass = wp.array(rr.uniform(5, 9, (nsub, nb)).astype(np.float32), dtype=float)
      SC.set_const_fixed(mm, d)
      got = mm.body_subtreemass.numpy()
      want = np.array([[sum(mass_np[r % 2, c] for c in desc[b]) for b in range(nb)] for r in range(nsub)])
      return (not np.allclose(got, want, rtol=1e-4)), _save(f"fixed.{topo}.{nsub}", {"model_xml": TOPO[topo], "body_mass": mass_np, "body_subtreemass": got, "expected": want})

    for r in range(nsub):
      for b in range(nb):
        want = 0.0
        for c in desc[b]:
          want = arith("+", want, mass.d0[0][mass.flat([r % 2, c])])
        ctx.prove(sess, f"subtreemass[{r}][{b}]", zr(sub.d[0][sub.flat([r, b])]) == zr(want), replay=rp, desc=f"set_const_fixed ({topo}): body_subtreemass[{r}, {b}] is not the mass of body {b} plus all its descendants (bodies {desc[b]}) taken from row {r % 2} of body_mass")

  return (f"host/fixed/{topo}/batch{nsub}", run)


def _is_desc(mjm, c, b):
  while True:
    if c == b:
      return True
    if c == 0:
      return False
    c = int(mjm.body_parentid[c])


# ================================================================================================ H mode: set_const_0 / set_const

C0_XML = """<mujoco><worldbody>
<body name="a" pos=".1 .2 .3"><joint name="j0" type="hinge" axis="0 1 0" armature=".1"/><geom size=".1" pos=".2 0 0"/>
  <camera name="c0" pos=".3 0 .2" mode="{cmode}"/>
  <light name="l0" pos="0 0 1" dir="0 .6 -.8" mode="{lmode}" target="b"/>
  <body name="b" pos=".4 0 0"><joint name="j1" type="slide" axis="1 0 0"/><geom size=".1"/>
  <camera name="c1" pos=".1 0 0"/><light name="l1" pos="0 .1 .5" dir="0 0 -1"/></body></body>
</worldbody>
<tendon><fixed name="t0"><joint joint="j0" coef="1.5"/><joint joint="j1" coef="-.5"/></fixed></tendon>
<actuator><position joint="j0" kp="3" dampratio=".8"/><motor tendon="t0" gear="2"/></actuator></mujoco>"""
C0_MODES = {"fixed": ("fixed", "fixed"), "tracking": ("trackcom", "targetbody"), "multi": ("fixed", "fixed")}
# loop-carried scratch state: 3 tendons / 3 actuators whose supports are NOT nested (an earlier row touches dofs outside a later one's support)
C0_XML_MULTI = """<mujoco><worldbody>
<body name="a" pos=".1 .2 .3"><joint name="j0" type="hinge" axis="0 1 0" armature=".1"/><geom size=".1" pos=".2 0 0"/>
  <camera name="c0" pos=".3 0 .2" mode="{cmode}"/><light name="l0" pos="0 0 1" dir="0 .6 -.8" mode="{lmode}"/>
  <body name="b" pos=".4 0 0"><joint name="j1" type="hinge" axis="1 0 0"/><geom size=".1" pos="0 .2 0"/>
    <body name="c" pos="0 .3 0"><joint name="j2" type="hinge" axis="0 0 1"/><geom size=".08" pos=".15 0 0"/></body></body>
  <body name="e" pos="0 0 .3"><joint name="j3" type="slide" axis="0 1 0"/><geom size=".07" pos="0 0 .1"/></body></body>
</worldbody>
<tendon><fixed name="t0"><joint joint="j0" coef="1.5"/><joint joint="j1" coef="-.5"/></fixed><fixed name="t1"><joint joint="j2" coef="2"/></fixed>
<fixed name="t2"><joint joint="j1" coef=".7"/></fixed></tendon>
<actuator><motor tendon="t0" gear="2"/><motor joint="j2" gear="1.5"/><position joint="j1" kp="3" dampratio=".8"/></actuator></mujoco>"""


def _c0_xml(modes):
  return (C0_XML_MULTI if modes == "multi" else C0_XML).format(cmode=C0_MODES[modes][0], lmode=C0_MODES[modes][1])

C0_SYM_M = {"qpos0", "body_mass", "dof_armature", "cam_pos0", "cam_poscom0", "cam_mat0", "light_pos0", "light_poscom0", "light_dir0", "tendon_length0", "actuator_acc0", "actuator_biasprm", "dof_invweight0",
            "body_invweight0", "tendon_invweight0", "stat.meaninertia", "body_subtreemass", "tendon_lengthspring", "eq_data"}
C0_BATCH2 = ["qpos0", "body_mass", "cam_pos0", "cam_poscom0", "cam_mat0", "light_pos0", "light_poscom0", "light_dir0", "actuator_acc0", "body_subtreemass"]
POSITION_STAGE = ["kinematics", "com_pos", "camlight", "flex", "tendon", "crb", "tendon_armature", "factor_m", "transmission"]


def _c0_build(modes, nworld=2):
  import mujoco
  import warp as wp

  import mujoco_warp as mjw

  mjm = mujoco.MjModel.from_xml_string(_c0_xml(modes))
  m = mjw.put_model(mjm)
  d = mjw.make_data(mjm, nworld=nworld)
  qp = np.tile(mjm.qpos0, (nworld, 1)) + np.array([[0.3, -0.1, 0.2, 0.05], [-0.2, 0.15, -0.25, -0.1]])[:nworld, : mjm.nq]
  d.qpos.assign(qp.astype(np.float32))
  for f in C0_BATCH2:
    a = getattr(m, f).numpy()
    setattr(m, f, wp.array(np.tile(a, (nworld,) + (1,) * (a.ndim - 1)), dtype=getattr(m, f).dtype))
  return mjm, m, d


class _SolveStub:
  """smooth.solve_m / factor_m as uninterpreted functions of (world, right-hand side, current M)"""

  def __init__(self):
    self.calls = []

  def solve(self, m_, d_, x, y):
    xc, yc, Mc = x.ref.cell, y.ref.cell, d_.M.ref.cell
    nw, nv = xc.shape
    rec = []
    for w in range(nw):
      rhs = [zr(yc.d[0][yc.flat([w, i])]) for i in range(nv)]
      Mw = [zr(v) for v in Mc.d[0][w * Mc.shape[1] : (w + 1) * Mc.shape[1]]]
      out = []
      for i in range(nv):
        f = z3.Function(f"Minv{i}", *([z3.RealSort()] * (len(rhs) + len(Mw))), z3.RealSort())
        t = f(*(rhs + Mw))
        xc.d[0][xc.flat([w, i])] = t
        out.append(t)
      rec.append((rhs, Mw, out))
    self.calls.append(rec)

  def __enter__(self):
    from mujoco_warp._src import set_const as SC

    self.saved = (SC.smooth.solve_m, SC.smooth.factor_m)
    SC.smooth.solve_m, SC.smooth.factor_m = self.solve, (lambda m_, d_: None)
    return self

  def __exit__(self, *a):
    from mujoco_warp._src import set_const as SC

    SC.smooth.solve_m, SC.smooth.factor_m = self.saved
    return False


def _cells_equal(ca, cb, use_a="d", use_b="d"):
  va = ca.d if use_a == "d" else ca.d0
  vb = cb.d if use_b == "d" else cb.d0
  out = []
  for k in range(ca.ncomp):
    for i in range(ca.size):
      x, y = va[k][i], vb[k][i]
      if ca.dtype == "bool":
        out.append(core.zbool(x) == core.zbool(y))
      else:
        out.append(cmp("==", x, y))
  return And(*out) if out else True


def replay_const0(modes, fn_name, restore):
  """public API next to the mujoco library: perturb masses / qpos0 / armature per world, call the real function, compare every derived
  field with mujoco.mj_setConst of the same changed model, and the Data state with the state before the call"""

  def _rp(model):
    import mujoco
    import warp as wp

    import mujoco_warp as mjw

    mjm, m, d = _c0_build(modes)
    rr = np.random.default_rng(1)
    nworld = 2
    mass = np.tile(mjm.body_mass, (nworld, 1)) * rr.uniform(0.5, 3.0, (nworld, mjm.nbody))
    q0 = np.tile(mjm.qpos0, (nworld, 1)) + rr.uniform(-0.3, 0.3, (nworld, mjm.nq))
    m.body_mass.assign(mass.astype(np.float32))
    m.qpos0.assign(q0.astype(np.float32))
    before = {n: getattr(d, n).numpy().copy() for n in ("qpos", "qvel", "act", "ctrl", "time", "xpos", "cam_xpos", "ten_length", "light_xdir")}
    getattr(mjw, fn_name)(m, d, restore) if fn_name != "set_const_fixed" else mjw.set_const_fixed(m, d)
    bad = []
    for w in range(nworld):
      mj2 = mujoco.MjModel.from_xml_string(_c0_xml(modes))
      mj2.body_mass[:] = mass[w]
      mj2.qpos0[:] = q0[w]
      mujoco.mj_setConst(mj2, mujoco.MjData(mj2))
      fields = ["tendon_length0", "cam_pos0", "cam_poscom0", "cam_mat0", "light_pos0", "light_poscom0", "light_dir0", "actuator_acc0", "tendon_invweight0", "dof_invweight0", "body_invweight0"] + (["body_subtreemass"] if fn_name == "set_const" else [])
      for f in fields:
        a = getattr(m, f).numpy()
        if w >= a.shape[0]:
          continue  # row r of a field with batch size n holds the value of world r
        got = a[w].reshape(-1)
        want = np.asarray(getattr(mj2, f)).reshape(-1)
        if not np.allclose(got, want, rtol=2e-3, atol=2e-4):
          bad.append(dict(world=w, field=f, mujoco=want, mujoco_warp=got))
    after = {n: getattr(d, n).numpy().copy() for n in before}
    names = ("qpos", "qvel", "act", "ctrl", "time") + (("xpos", "cam_xpos", "ten_length", "light_xdir") if restore else ())
    for n in names:
      if not np.allclose(before[n], after[n], rtol=1e-5, atol=1e-6):
        bad.append(dict(field="Data." + n, before=before[n], after=after[n]))
    return bool(bad), _save(f"const0.{modes}.{fn_name}.{int(restore)}", {"model_xml": _c0_xml(modes), "body_mass": mass, "qpos0": q0, "mismatches": bad[:12],
                                                                         "how": f"mjw.{fn_name}(m, d, restore={restore}) with per-world body_mass / qpos0 vs mujoco.mj_setConst per world; Data before / after"})

  return _rp


def unit_host_const0(modes, fn_name, restore):
  def run(ctx):
    import dataclasses

    import warp as wp
    from mujoco_warp._src import set_const as SC
    from mujoco_warp._src import smooth

    mjm, m, d = _c0_build(modes)
    nworld, nv, nu, nt = 2, int(mjm.nv), int(mjm.nu), int(mjm.ntendon)
    fn = getattr(SC, fn_name)
    ctx.encode(fn, SC.set_const_0, SC.set_const_fixed, SC.set_const_spring)
    ctx.bound(model=("branched 4-dof tree (3-hinge chain + slide sibling), 3 fixed tendons with non-nested supports {j0,j1},{j2},{j1}, 3 actuators with supports {j0,j1},{j2},{j1}" if modes == "multi" else f"2-dof chain, cameras ({C0_MODES[modes][0]}, fixed), lights ({C0_MODES[modes][1]}, fixed), fixed tendon, dampratio position actuator + tendon motor"), nworld=nworld, restore=restore,
              note="Data.qpos and the Model fields " + ", ".join(sorted(C0_SYM_M)) + " symbolic (batch size 2 for " + ", ".join(C0_BATCH2) + ", 1 otherwise); float products / quotients / sqrt / sin / cos are shared uninterpreted functions; factor_m / solve_m = uninterpreted M^-1")
    ctx.assume("M^-1 is an uninterpreted function of (right-hand side, M of the world)", "MuJoCo's mj_setConst evaluates cameras and lights in FIXED mode at qpos0 (validated numerically in unit reference)")
    sym_m = lambda n: n[2:] in C0_SYM_M
    ikw = {"float_uf": True}

    def run_real(mm, dd, f, *a):
      with _SolveStub() as st:
        with host.HostRun(mode="exec", interp_kw=ikw) as hr:
          f(mm, dd, *a)
      return hr, st

    # A: the real function
    mA = host.shim_dataclass(m, "m.", symbolic=sym_m)
    dA = host.shim_dataclass(d, "d.", symbolic=lambda n: n == "d.qpos")
    hrA, stA = run_real(mA, dA, fn, *(() if fn_name == "set_const_fixed" else (restore,)))
    for ev in hrA.events:
      if ev.kind == "launch":
        ctx.encode(ev.kernel)
    ctx.notes.append(f"{sum(1 for e in hrA.events if e.kind == 'launch')} launches, {hrA.nthreads} threads interpreted, {len(stA.calls)} solve_m calls")
    maA, daA = host.arrays_of(mA), host.arrays_of(dA)

    def position_stage(mm, dd):
      for s_ in POSITION_STAGE:
        getattr(SC.smooth, s_)(mm, dd)

    # B: a fresh position stage at the saved qpos with the model AS LEFT by A (the restored Data must correspond to it)
    mB = dataclasses.replace(mA)
    dB = host.shim_dataclass(d, "d.", symbolic=lambda n: n == "d.qpos")
    hrB, _ = run_real(mB, dB, position_stage)
    daB = host.arrays_of(dB)
    # C: position stage at qpos0 of each world, camera / light modes FIXED, on the ORIGINAL model fields
    mC = host.shim_dataclass(m, "m.", symbolic=sym_m)
    mC = dataclasses.replace(mC, cam_mode=wp.zeros(int(mjm.ncam), dtype=int), light_mode=wp.zeros(int(mjm.nlight), dtype=int))
    maC = host.arrays_of(mC)
    dC = host.shim_dataclass(d, "d.", symbolic=lambda n: False)
    qc, q0 = host.arrays_of(dC)["qpos"].ref.cell, maC["qpos0"].ref.cell
    for w in range(nworld):
      for i in range(int(mjm.nq)):
        qc.d[0][qc.flat([w, i])] = q0.d0[0][q0.flat([w % q0.shape[0], i])]
    if fn_name == "set_const":
      # set_const first refreshes body_subtreemass (set_const_fixed); com_pos of the qpos0 evaluation divides by the NEW subtree masses
      massC, subC = maC["body_mass"].ref.cell, maC["body_subtreemass"].ref.cell
      for r in range(subC.shape[0]):
        for b in range(int(mjm.nbody)):
          tot = 0.0
          for c in [c for c in range(int(mjm.nbody)) if _is_desc(mjm, c, b)]:
            tot = arith("+", tot, massC.d0[0][massC.flat([r % massC.shape[0], c])])
          subC.d[0][subC.flat([r, b])] = tot
    hrC, _ = run_real(mC, dC, position_stage)
    daC = host.arrays_of(dC)
    bg = [core.zbool(a) for a in hrA.assumes + hrB.assumes + hrC.assumes]
    sess = ctx.session(bg)
    ctx.reach(sess, "twin:state", True)
    rp = replay_const0(modes, fn_name, restore)
    tag = f"{fn_name}(restore={restore})"
    # (1) Data: state untouched; with restore every position-stage field corresponds to the saved qpos
    written_by_stage = {n for n in daB if not _same_obj(daB[n].ref.cell)}
    unchanged, restored = [], []
    for n, sa in daA.items():
      ca = sa.ref.cell
      if ca.size == 0:
        continue
      if n not in written_by_stage:
        unchanged.append((n, _cells_equal(ca, ca, "d", "d0")))
      elif restore:
        restored.append((n, _cells_equal(ca, daB[n].ref.cell)))
    ctx.prove(sess, "data-unchanged/qpos", dict(unchanged)["qpos"], replay=rp, desc=f"{tag}: Data.qpos is not restored")
    ctx.prove(sess, "data-unchanged/all-non-position-fields", And(*[g for _, g in unchanged]), replay=rp, desc=f"{tag}: a Data field that is not an output of the position stage is modified (one of {[n for n, _ in unchanged][:40]} ...)")
    if restore:
      ctx.prove(sess, "data-restored/position-stage-fields", And(*[g for _, g in restored]), replay=rp, desc=f"{tag}: after the call a position-stage Data field differs from the position stage evaluated at the saved qpos (one of {[n for n, _ in restored]})")
    ctx.notes.append(f"position-stage Data fields: {sorted(written_by_stage)}")
    # (2) derived Model fields
    C = lambda n, *idx: [daC[n].ref.cell.d[k][daC[n].ref.cell.flat(list(idx))] for k in range(daC[n].ref.cell.ncomp)]
    A1 = lambda n, *idx: [maA[n].ref.cell.d[k][maA[n].ref.cell.flat(list(idx))] for k in range(maA[n].ref.cell.ncomp)]
    rows = lambda n: maA[n].ref.cell.shape[0]
    if fn_name != "set_const_fixed":
      for r in range(rows("tendon_length0")):
        for t in range(nt):
          ctx.prove(sess, f"tendon_length0[{r}][{t}]", sl.eq_all(A1("tendon_length0", r, t), C("ten_length", r, t)), replay=rp, desc=f"{tag}: tendon_length0[{r},{t}] is not the tendon length at qpos0 of world {r}")
      for P, third, thirdsrc, num, bid, tid_ in (("cam", "cam_mat0", "cam_xmat", int(mjm.ncam), mjm.cam_bodyid, mjm.cam_targetbodyid), ("light", "light_dir0", "light_xdir", int(mjm.nlight), mjm.light_bodyid, mjm.light_targetbodyid)):
        for r in range(rows(f"{P}_pos0")):
          for c in range(num):
            b, tg = int(bid[c]), int(tid_[c])
            x = C(f"{P}_xpos", r, c)
            ref = {f"{P}_pos0": EX.sub(x, C("xpos", r, b)), f"{P}_poscom0": EX.sub(x, C("subtree_com", r, tg if tg >= 0 else b)), third: C(thirdsrc, r, c)}
            mode = int((mjm.cam_mode if P == "cam" else mjm.light_mode)[c])
            for f_, want in ref.items():
              nm = f"{f_}[{r}][{c}]" + ("" if mode == 0 else "/tracking-mode-not-neutralised")
              ctx.prove(sess, nm, sl.eq_all(A1(f_, r, c), want), replay=rp,
                        desc=f"{tag}: {f_}[{r},{c}] is not the fixed-mode pose at qpos0 (MuJoCo's mj_setConst evaluates cameras / lights with mode FIXED)" + ("" if mode == 0 else
                             f": {P} {c} has tracking mode {mode}; set_const_0 runs camlight with the mode active, so trackcom / track keep the STALE offset (subtree_com + old poscom0 - subtree_com) and targeting modes store the look-at orientation"))
      # M^-1 structure: every solve_m call is made on the M of the qpos0 state of its world
      Mc = daC["M"].ref.cell
      okM = []
      for rec in stA.calls:
        for w, (rhs, Mw, out) in enumerate(rec):
          okM += [a == zr(b) for a, b in zip(Mw, Mc.d[0][w * Mc.shape[1] : (w + 1) * Mc.shape[1]])]
      ctx.prove(sess, "solve_m/at-qpos0-inertia", And(*okM), replay=rp, desc=f"{tag}: a solve_m call is not made with the inertia matrix of the qpos0 configuration")
      # every solve_m call, in the documented order: nv dof calls (e_k), 6 per moving body (Jacobian rows), one per tendon (J_t), one per
      # actuator (moment row).  The right-hand side handed to M^-1 must be EXACTLY that row's dense vector -- zero outside its support --
      # for every index and every world: scratch vectors reused across loop iterations are part of the claim.
      nb = int(mjm.nbody)
      n_expected = nv + 6 * (nb - 1) + nt + nu
      if len(stA.calls) != n_expected:
        ctx.error(f"{tag}: {len(stA.calls)} solve_m calls, expected {n_expected} (nv + 6 (nbody-1) + ntendon + nu): call indexing of the harness does not apply")
        return
      # these claims compare terms of the run with themselves (no side axioms needed): a light session keeps mutants with stale
      # (large) right-hand sides cheap
      sessL = ctx.session([])
      call_dof = lambda k: stA.calls[k]
      call_body = lambda b, r_: stA.calls[nv + 6 * (b - 1) + r_]
      call_ten = lambda t: stA.calls[nv + 6 * (nb - 1) + t]
      call_act = lambda a: stA.calls[nv + 6 * (nb - 1) + nt + a]
      eqv = lambda xs, ys: And(*[x == zr(y) for x, y in zip(xs, ys)])
      for k in range(nv):
        for w in range(nworld):
          rhs, Mw, out = call_dof(k)[w]
          ctx.prove(sessL, f"dof_invweight0[{k}]/rhs=e_{k}/world{w}", eqv(rhs, [1.0 if i == k else 0.0 for i in range(nv)]), replay=rp, desc=f"{tag}: the right-hand side of the M^-1 solve for dof {k} is not the unit vector e_{k} (world {w})")
        if int(mjm.jnt_type[mjm.dof_jntid[k]]) >= 2:
          for r in range(rows("dof_invweight0")):
            ctx.prove(sessL, f"dof_invweight0[{r}][{k}]=(M^-1 e_k)_k", zr(A1("dof_invweight0", r, k)[0]) == call_dof(k)[r][2][k], replay=rp, desc=f"{tag}: dof_invweight0[{r},{k}] is not the k-th component of M^-1 e_k of world {r}")
      # body rows: zero outside the dofs that move the body (the Jacobian values themselves are outside the claim)
      for b in range(1, nb):
        chain = set()
        bb = b
        while bb > 0:
          chain |= set(range(int(mjm.body_dofadr[bb]), int(mjm.body_dofadr[bb]) + int(mjm.body_dofnum[bb]))) if mjm.body_dofnum[bb] else set()
          bb = int(mjm.body_parentid[bb])
        for r_ in range(6):
          for w in range(nworld):
            rhs, Mw, out = call_body(b, r_)[w]
            ctx.prove(sessL, f"body_invweight0[{b}]/row{r_}/rhs-zero-outside-ancestor-dofs/world{w}", And(*[rhs[i] == 0 for i in range(nv) if i not in chain]) if len(chain) < nv else True, replay=rp,
                      desc=f"{tag}: the Jacobian row {r_} of body {b} handed to M^-1 has a non-zero entry at a dof that does not move the body (stale scratch contents)")
      # tendons: rhs = dense Jacobian row of the qpos0 state; invweight = J_t . (M^-1 J_t^T)
      tj = daC["ten_J"].ref.cell
      for t in range(nt):
        adr, nnz = int(mjm.ten_J_rowadr[t]), int(mjm.ten_J_rownnz[t])
        cols = [int(mjm.ten_J_colind[adr + k]) for k in range(nnz)]
        for w in range(nworld):
          rhs, Mw, out = call_ten(t)[w]
          dense = [0.0] * nv
          for k in range(nnz):
            dense[cols[k]] = tj.d[0][tj.flat([w, adr + k])]
          ctx.prove(sessL, f"tendon_invweight0[{t}]/rhs=J-row/world{w}", eqv(rhs, dense), replay=rp, desc=f"{tag}: the right-hand side of the M^-1 solve for tendon {t} (world {w}) is not the tendon's Jacobian row at qpos0 with zeros outside its support {cols} (entries of an earlier tendon left in the scratch vector)")
        for r in range(rows("tendon_invweight0")):
          rhs, Mw, out = call_ten(t)[r]
          dot = 0.0
          for k in range(nnz):
            dot = UFO.a("+", dot, UFO.a("*", tj.d[0][tj.flat([r, adr + k])], out[cols[k]]))
          ctx.prove(sessL, f"tendon_invweight0[{r}][{t}]=J.(M^-1 J^T)", zr(A1("tendon_invweight0", r, t)[0]) == zr(dot), replay=rp, desc=f"{tag}: tendon_invweight0[{r},{t}] is not J_t . (M^-1 J_t^T) of world {r}")
      # actuator_acc0 = | M^-1 moment_a | with the moment row of the qpos0 state
      mo = daC["actuator_moment"].ref.cell
      rn, ra, ci = (np.array(daC[n_].ref.cell.d[0], dtype=int).reshape(daC[n_].ref.cell.shape) for n_ in ("moment_rownnz", "moment_rowadr", "moment_colind"))
      for a in range(nu):
        for w in range(nworld):
          rhs, Mw, out = call_act(a)[w]
          dense = [0.0] * nv
          for k in range(int(rn[w, a])):
            dense[int(ci[w, ra[w, a] + k])] = mo.d[0][mo.flat([w, int(ra[w, a]) + k])]
          ctx.prove(sessL, f"actuator_acc0[{w}][{a}]/rhs=moment-row", eqv(rhs, dense), replay=rp, desc=f"{tag}: the right-hand side of the M^-1 solve for actuator_acc0[{a}] (world {w}) is not the actuator's moment row at qpos0 with zeros outside its support")
          if w >= rows("actuator_acc0"):
            continue
          ss = 0.0
          for i in range(nv):
            ss = UFO.a("+", ss, UFO.a("*", out[i], out[i]))
          got = A1("actuator_acc0", w, a)[0]
          ctx.prove(sessL, f"actuator_acc0[{w}][{a}]/norm", _is_sqrt_of(got, ss), replay=rp, desc=f"{tag}: actuator_acc0[{w},{a}] is not the norm of M^-1 moment_a")
    if fn_name in ("set_const", "set_const_fixed"):
      mass, sub = maA["body_mass"].ref.cell, maA["body_subtreemass"].ref.cell
      nb = int(mjm.nbody)
      for r in range(sub.shape[0]):
        for b in range(nb):
          want = 0.0
          for c in [c for c in range(nb) if _is_desc(mjm, c, b)]:
            want = arith("+", want, mass.d0[0][mass.flat([r % mass.shape[0], c])])
          ctx.prove(sess, f"body_subtreemass[{r}][{b}]", zr(sub.d[0][sub.flat([r, b])]) == zr(want), replay=rp, desc=f"{tag}: body_subtreemass[{r},{b}] is not the subtree mass")
    # (3) Model fields that the function does not document as outputs stay untouched
    outputs = {"tendon_length0", "cam_pos0", "cam_poscom0", "cam_mat0", "light_pos0", "light_poscom0", "light_dir0", "actuator_acc0", "actuator_biasprm", "dof_invweight0", "body_invweight0", "tendon_invweight0", "stat.meaninertia", "eq_data"}
    if fn_name == "set_const":
      outputs |= {"body_subtreemass", "tendon_lengthspring"}
    if fn_name == "set_const_fixed":
      outputs = {"body_subtreemass"}
    keep = []
    for n, sa in maA.items():
      ca = sa.ref.cell
      if n in outputs or ca.size == 0:
        continue
      keep.append((n, _cells_equal(ca, ca, "d", "d0")))
    ctx.prove(sess, "model-unchanged/all-undocumented-fields", And(*[g for _, g in keep]), replay=rp, desc=f"{tag}: a Model field that is not a documented output is modified (one of {len(keep)} fields incl. qpos0, body_mass, dof_armature, cam / light modes)")

  return (f"host/{fn_name}/{modes}/restore{int(restore)}", run)


def _same_obj(cell):
  """did a host run leave the dense cell exactly as it started (same term objects)?"""
  for k in range(cell.ncomp):
    for a, b in zip(cell.d[k], cell.d0[k]):
      if a is b:
        continue
      if core.is_sym(a) and core.is_sym(b) and a.eq(b):
        continue
      if not core.is_sym(a) and not core.is_sym(b) and a == b:
        continue
      return False
  return True


def _find_call(calls, kind, index):
  return calls[len(calls) - 1 - index]


def _is_sqrt_of(got, ss):
  """under float_uf wp.sqrt is the uninterpreted function the interpreter uses: rebuild it through the same helper"""
  return zr(got) == zr(_uf_sqrt(ss))


def _uf_sqrt(x):
  it = core.Interp(float_uf=True)
  return it.sqrt(x)


def main(tier, seed, only=None):
  import mujoco_warp  # noqa: loaded once before the units fork
  from mujoco_warp._src import set_const, smooth  # noqa

  units = [("reference", unit_reference), ("kernel/subtreemass", unit_k_subtreemass), ("kernel/tendon_length0", unit_k_tendon_length0), unit_k_camlight("cam"), unit_k_camlight("light"), ("kernel/dof_M0", unit_k_dof_M0),
           ("kernel/meaninertia", unit_k_meaninertia), ("kernel/vectors", unit_k_vectors), ("kernel/finalize_invweight0", unit_k_finalize), ("kernel/resolve_dampratio", unit_k_dampratio), ("kernel/tendon_lengthspring", unit_k_lengthspring)]
  units += [unit_host_fixed("chain", 2), unit_host_fixed("fork", 2), unit_host_fixed("fork", 1)]
  units += [unit_host_const0("fixed", "set_const_0", True), unit_host_const0("fixed", "set_const_0", False), unit_host_const0("tracking", "set_const_0", True), unit_host_const0("fixed", "set_const", True), unit_host_const0("tracking", "set_const", False), unit_host_const0("multi", "set_const_0", False)]
  if tier == "thorough":
    units += [unit_host_const0("multi", "set_const", True), unit_host_fixed("chain", 1), unit_host_const0("tracking", "set_const_0", False), unit_host_const0("fixed", "set_const", False), unit_host_const0("tracking", "set_const", True)]
  if only:
    units = [u for u in units if any(o in u[0] for o in only)]
  return report.run_check(PID, units, tier, seed)
