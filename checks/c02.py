"""C02 Smooth dynamics agree with MuJoCo C (partial).

 leaf        math.inert_vec / motion_cross / motion_cross_force == textbook spatial algebra (exact reals).
 passive/*   one generic thread of _spring_damper_dof_passive (per joint type), _spring_damper_tendon_passive,
             _gravity_force, every specialisation of _qfrc_passive_kernel, and of forward._qfrc_smooth against references
             written from engine_passive.c / engine_forward.c (validated numerically against mujoco.mj_passive).
 crb|comvel|rne/<topology>   the REAL smooth.crb / com_vel / rne host functions (H mode, nworld 2) on the C01 topology family,
             every float input symbolic, inert_vec / motion_cross* and float products as shared uninterpreted functions,
             against reference recursions of mj_crb / mj_comVel / mj_rne (validated numerically against mujoco).
"""

import dataclasses

import numpy as np
import warp as wp
import z3

from checks import lib
from checks import smoothlib_c01 as sl
from checks.c01 import TOPOLOGIES, build
from wsym import core, host, kh, report
from wsym.core import And, Implies, Not, Or, Vec, arith, cmp, is_sym, ite

PID = "C02"
EX, UFO = sl.EX, sl.UFO
NWORLD = 2
DSBL_SPRING, DSBL_DAMPER = None, None


def bits():
  from mujoco_warp._src.types import DisableBit

  return int(DisableBit.SPRING), int(DisableBit.DAMPER)


# ================================================================================================ leaf lemmas


def unit_leaf(ctx):
  from checks import c01
  from mujoco_warp._src import math as mm

  ctx.bound(note="exact reals, no size bound")
  cases = [
    ("inert_vec", mm.inert_vec, sl.tb_inert_vec, "I w + (m c) x v ; m v - (m c) x w"),
    ("motion_cross", mm.motion_cross, sl.tb_motion_cross, "(w1 x w2, w1 x v2 + v1 x w2)"),
    ("motion_cross_force", mm.motion_cross_force, sl.tb_motion_cross_force, "(w x t + v x f, w x f)"),
  ]
  for name, fn, ref, what in cases:
    ctx.encode(fn)
    args = kh.make_args(fn)
    it, ret = kh.run(fn, args)
    flat = [list(a.c) for a in args.values()]
    sess = sl.oneshot(ctx, [core.zbool(a) for a in it.assumes])
    ctx.reach(sess, f"twin:{name}", True)
    rp = c01.leaf_replay(ctx, name, fn, list(args.values()), lambda *xs, ref=ref: ref(*xs))
    ctx.prove(sess, f"{name}=textbook", sl.eq_all(list(ret.c), ref(*flat)), replay=rp, desc=f"math.{name} differs from its textbook definition ({what})")


# ================================================================================================ passive forces: references


def poly_force(lin, p, x, odd):
  """MuJoCo polynomial spring / damper: k + p0 x + p1 x^2 (dampers use |x|)"""
  xv = core.vabs(x) if odd else x
  return arith("+", arith("+", lin, arith("*", p[0], xv)), arith("*", arith("*", p[1], xv), xv))


def ref_spring_1d(k, sp, q, qs):
  x = arith("-", q, qs)
  return arith("*", arith("*", x, -1), poly_force(k, sp, x, False))


def ref_damper(dmp, dp, v):
  return arith("*", arith("*", v, -1), poly_force(dmp, dp, v, True))


def ref_tendon_x(L, lower, upper):
  return ite(cmp(">", L, upper), arith("-", L, upper), ite(cmp("<", L, lower), arith("-", L, lower), 0.0))


PASSIVE_XML = """<mujoco><option gravity="0.3 -0.2 -9.81"/><worldbody>
<body pos="0.1 0.2 0.3" gravcomp="0.7"><joint name="j0" type="hinge" axis="0 1 0" stiffness="2" springref="0.2" damping="0.3"/><geom size=".1" pos="0.1 0.2 0"/>
 <body pos="0.3 0 0.1" gravcomp="1.2"><joint name="j1" type="slide" axis="1 0 0" stiffness="3" damping="0.1" actuatorgravcomp="true"/><geom size=".1"/>
  <body pos="0.3 0 0.1"><joint name="j2" type="ball" stiffness="1.5" damping="0.2"/><geom size=".1" pos="0.2 0 0"/></body></body></body>
<body pos="1 1 1" gravcomp="0.4"><freejoint/><geom size=".1"/></body>
</worldbody>
<tendon><fixed name="t0" stiffness="4" damping="0.5" springlength="0.1 0.3"><joint joint="j0" coef="1.5"/><joint joint="j1" coef="-0.5"/></fixed></tendon>
</mujoco>"""


def validate_passive(ctx, seed):
  """reference formulas == mujoco.mj_passive on a model with every joint type, polynomial coefficients, tendon, gravcomp"""
  import mujoco

  rng = np.random.default_rng(seed)
  for trial in range(3):
    mjm = mujoco.MjModel.from_xml_string(PASSIVE_XML)
    for f in ("jnt_stiffnesspoly", "dof_dampingpoly", "tendon_stiffnesspoly", "tendon_dampingpoly"):
      getattr(mjm, f)[:] = rng.uniform(-0.5, 0.5, getattr(mjm, f).shape)
    # polynomial terms of free / ball joints are exercised structurally only
    for j in range(mjm.njnt):
      if mjm.jnt_type[j] in (0, 1):
        mjm.jnt_stiffnesspoly[j] = 0
    mjd = mujoco.MjData(mjm)
    mjd.qpos[:] = rng.uniform(-1, 1, mjm.nq)
    mjd.qvel[:] = rng.uniform(-1, 1, mjm.nv)
    mujoco.mj_forward(mjm, mjd)
    spring, damper = np.zeros(mjm.nv), np.zeros(mjm.nv)
    for j in range(mjm.njnt):
      jt, qa, da = int(mjm.jnt_type[j]), int(mjm.jnt_qposadr[j]), int(mjm.jnt_dofadr[j])
      k, sp = float(mjm.jnt_stiffness[j]), [float(x) for x in mjm.jnt_stiffnesspoly[j]]
      nd = {0: 6, 1: 3, 2: 1, 3: 1}[jt]
      for i in range(nd):
        damper[da + i] = ref_damper(float(mjm.dof_damping[da + i]), [float(x) for x in mjm.dof_dampingpoly[da + i]], float(mjd.qvel[da + i]))
      if jt in (2, 3):
        spring[da] = ref_spring_1d(k, sp, float(mjd.qpos[qa]), float(mjm.qpos_spring[qa]))
      else:
        if jt == 0:
          spring[da : da + 3] = -k * (mjd.qpos[qa : qa + 3] - mjm.qpos_spring[qa : qa + 3])
          qa, da = qa + 3, da + 3
        q = mjd.qpos[qa : qa + 4] / np.linalg.norm(mjd.qpos[qa : qa + 4])
        dif = np.zeros(3)
        mujoco.mju_subQuat(dif, q, mjm.qpos_spring[qa : qa + 4])
        spring[da : da + 3] = -k * dif
    J = np.zeros((mjm.ntendon, mjm.nv))
    mujoco.mju_sparse2dense(J, mjd.ten_J, mjm.ten_J_rownnz, mjm.ten_J_rowadr, mjm.ten_J_colind) if hasattr(mjm, "ten_J_rownnz") else None
    for t in range(mjm.ntendon):
      x = ref_tendon_x(float(mjd.ten_length[t]), float(mjm.tendon_lengthspring[t][0]), float(mjm.tendon_lengthspring[t][1]))
      fs = -x * poly_force(float(mjm.tendon_stiffness[t]), [float(v) for v in mjm.tendon_stiffnesspoly[t]], x, False)
      fd = ref_damper(float(mjm.tendon_damping[t]), [float(v) for v in mjm.tendon_dampingpoly[t]], float(mjd.ten_velocity[t]))
      spring += J[t] * fs
      damper += J[t] * fd
    grav = np.zeros(mjm.nv)
    for b in range(1, mjm.nbody):
      if mjm.body_gravcomp[b]:
        jacp = np.zeros((3, mjm.nv))
        mujoco.mj_jac(mjm, mjd, jacp, None, mjd.xipos[b], b)
        grav += jacp.T @ (-mjm.opt.gravity * mjm.body_mass[b] * mjm.body_gravcomp[b])
    passive = spring + damper + np.array([0.0 if mjm.jnt_actgravcomp[mjm.dof_jntid[i]] else grav[i] for i in range(mjm.nv)])
    for name, mine, theirs in (("qfrc_spring", spring, mjd.qfrc_spring), ("qfrc_damper", damper, mjd.qfrc_damper), ("qfrc_gravcomp", grav, mjd.qfrc_gravcomp), ("qfrc_passive", passive, mjd.qfrc_passive)):
      if not np.allclose(mine, theirs, rtol=1e-8, atol=1e-10):
        ctx.error(f"reference passive-force model disagrees with mujoco on {name}: {mine.tolist()} vs {theirs.tolist()}")
        return False
    smooth = mjd.qfrc_passive - mjd.qfrc_bias + mjd.qfrc_actuator + mjd.qfrc_applied
    if not np.allclose(smooth, mjd.qfrc_smooth, rtol=1e-8, atol=1e-10):
      ctx.error("reference qfrc_smooth (passive - bias + actuator + applied) disagrees with mujoco")
      return False
  return True


# ================================================================================================ passive forces: units


def _at(a, idx):
  """tolerant read: arrays the solver's thread never reads may be empty in the model"""
  try:
    return a[tuple(int(i) for i in idx)]
  except IndexError:
    return np.zeros(a.shape[len(idx) :], dtype=a.dtype)


def _b(pre, lab, w, *idx):
  a = pre[lab]
  return _at(a, (w % max(a.shape[0], 1),) + tuple(idx))


def _subquat(qa, qb):
  import mujoco

  r = np.zeros(3)
  n = np.linalg.norm(qa)
  mujoco.mju_subQuat(r, np.asarray(qa, dtype=float) / (n if n > 0 else 1.0), np.asarray(qb, dtype=float))
  return r


def goal_dof_passive(spec, pre, post):
  S, D = bits()
  w, j = spec["tid"][:2]
  jt = int(spec["env"]["jt"])
  qa, da = int(_at(pre["jnt_qposadr"], (j,))), int(_at(pre["jnt_dofadr"], (j,)))
  flags = int(spec["args"]["opt_disableflags"]["scalar"])
  k, sp = float(_b(pre, "jnt_stiffness", w, j)), [float(x) for x in _b(pre, "jnt_stiffnesspoly", w, j)]
  nd = {0: 6, 1: 3}.get(jt, 1)
  msgs = []
  qv = lambda i: float(_at(pre["qvel_in"], (w, i)))
  qp = lambda i: float(_at(pre["qpos_in"], (w, i)))
  qs = lambda i: float(_b(pre, "qpos_spring", w, i))
  for i in range(nd):
    want = 0.0 if (flags & D) else float(ref_damper(float(_b(pre, "dof_damping", w, da + i)), [float(x) for x in _b(pre, "dof_dampingpoly", w, da + i)], qv(da + i)))
    got = float(_at(post["qfrc_damper_out"], (w, da + i)))
    if not lib.approx(got, want):
      msgs.append(f"qfrc_damper[{da + i}] = {got} expected {want}")
  want = np.zeros(nd)
  if not (flags & S):
    if jt in (2, 3):
      want[0] = float(ref_spring_1d(k, sp, qp(qa), qs(qa)))
    else:
      off = 0
      if jt == 0:
        dif = np.array([qp(qa + i) - qs(qa + i) for i in range(3)])
        want[:3] = -float(poly_force(k, sp, float(np.linalg.norm(dif)), False)) * dif
        off = 3
      dif = _subquat([qp(qa + off + i) for i in range(4)], [qs(qa + off + i) for i in range(4)])
      want[off : off + 3] = -float(poly_force(k, sp, float(np.linalg.norm(dif)), False)) * dif
  for i in range(nd):
    got = float(_at(post["qfrc_spring_out"], (w, da + i)))
    if not lib.approx(got, float(want[i])):
      msgs.append(f"qfrc_spring[{da + i}] = {got} expected {float(want[i])}")
  return (not msgs), f"joint {j} type {jt} flags {flags}: " + ("; ".join(msgs) or "agrees")


def unit_dof_passive(jt, sp_off, dm_off):
  def run(ctx):
    from mujoco_warp._src import math as mm
    from mujoco_warp._src import passive

    S, D = bits()
    k = passive._spring_damper_dof_passive
    ctx.encode(k)
    exact = jt in (sl.JNT_SLIDE, sl.JNT_HINGE)
    ctx.bound(jnt_type=jt, note="one generic thread; sizes, contents symbolic; " + ("exact reals" if exact else "free / ball: quat_sub, normalize, sqrt and float products shared uninterpreted (structure)"))
    ctx.assume("own accesses in bounds", "the SPRING / DAMPER disable bits are enumerated (4 units per joint type)")
    if jt == sl.JNT_SLIDE and not (sp_off or dm_off) and not validate_passive(ctx, ctx.seed):
      return
    flags = (S if sp_off else 0) | (D if dm_off else 0) | 1  # bit 0 (another disable flag) set as well: only the two masked bits may matter
    ikw = {}
    R = z3.RealSort()
    qsub = lambda qa, qb: [z3.Function(f"quat_sub#{i}", *([R] * 8), R)(*[core.to_z3(x, "real") for x in list(qa) + list(qb)]) for i in range(3)]
    if not exact:
      ikw = {"float_uf": True, "summaries": {mm.quat_sub.key: lambda it, fr, args: Vec(qsub(list(args[0].c), list(args[1].c)), (3,), "f")}}
    from checks.c07 import const_int_array

    # joint type fixed through a constant array: the other joint types' branches are not encoded at all
    kt = lib.kernel_thread(k, scalars={"opt_disableflags": flags, "jnt_type": const_int_array("jnt_type", jt)}, interp_kw=ikw)
    w, j = kt.tid
    o = EX if exact else UFO
    vb = lambda lab, *idx: kt.pre(lab, arith("%", w, kt.cell(lab).shape[0]), *idx)
    vbv = lambda lab, *idx: list(kt.prev(lab, arith("%", w, kt.cell(lab).shape[0]), *idx).c)
    qa, da = kt.pre("jnt_qposadr", j), kt.pre("jnt_dofadr", j)
    kst, sp = vb("jnt_stiffness", j), vbv("jnt_stiffnesspoly", j)
    spring_off, damper_off = bool(sp_off), bool(dm_off)
    tag = f"spring{'off' if sp_off else 'on'}-damper{'off' if dm_off else 'on'}"
    # per-world batched Model fields have at least one row (mjModel invariant; also keeps `worldid % shape[0]` defined in replays)
    bg = list(kt.bg) + [kt.cell(lab).shape[0] >= 1 for lab in ("qpos_spring", "jnt_stiffness", "jnt_stiffnesspoly", "dof_damping", "dof_dampingpoly")]
    nd = {0: 6, 1: 3}.get(jt, 1)
    qs = []
    names = {"w": w, "j": j, "qposadr": qa, "dofadr": da}
    loc = "mujoco_warp._src.passive:_spring_damper_dof_passive"
    rp = lib.make_replay(ctx, kt, loc, f"type{jt}.{int(sp_off)}{int(dm_off)}", "goal", goal="checks.c02:goal_dof_passive", env={"jt": jt, "randomize_floats": 0 if exact else 3})
    q = lambda i: kt.pre("qpos_in", w, arith("+", qa, i))
    qsp = lambda i: vb("qpos_spring", arith("+", qa, i))

    def pf(lin, p, x, odd):  # poly_force in the arithmetic flavour of this unit (same association as MuJoCo: k + p0 x + (p1 x) x)
      xv = core.vabs(x) if odd else x
      return arith("+", arith("+", lin, o.a("*", p[0], xv)), o.a("*", o.a("*", p[1], xv), xv))

    for i in range(nd):
      v = kt.pre("qvel_in", w, arith("+", da, i))
      # dof_damping / dof_dampingpoly are PER-DOF fields (mj_passive uses dof i's own coefficients, also inside ball / free joints)
      dmp, dp = vb("dof_damping", arith("+", da, i)), vbv("dof_dampingpoly", arith("+", da, i))
      want = ite(damper_off, 0.0, o.a("*", arith("*", v, -1), pf(dmp, dp, v, True)))
      qs.append(dict(name=f"{tag}/damper[{i}]", goal=cmp("==", kt.post("qfrc_damper_out", w, arith("+", da, i)), want), names=names, replay=rp, desc=f"_spring_damper_dof_passive (joint type {jt}): damper force of dof {i} differs from -v (d + p0 |v| + p1 v^2) / 0 when disabled"))
    if exact:
      x = arith("-", q(0), qsp(0))
      want = ite(spring_off, 0.0, arith("*", arith("*", x, -1), pf(kst, sp, x, False)))
      qs.append(dict(name=f"{tag}/spring[0]", goal=cmp("==", kt.post("qfrc_spring_out", w, da), want), names=names, replay=rp, desc=f"_spring_damper_dof_passive (joint type {jt}): spring force differs from -x (k + p0 x + p1 x^2), x = qpos - qpos_spring"))
    else:
      L = sl.UFLeaves()
      fsq = lambda t: L._ip.sqrt(core.to_z3(t, "real"))
      off = 0
      if jt == sl.JNT_FREE:
        dif = [arith("-", q(i), qsp(i)) for i in range(3)]
        kk = pf(kst, sp, fsq(o.dot(dif, dif)), False)
        for i in range(3):
          want = ite(spring_off, 0.0, o.a("*", arith("*", kk, -1), dif[i]))
          qs.append(dict(name=f"{tag}/spring[{i}]", goal=cmp("==", kt.post("qfrc_spring_out", w, arith("+", da, i)), want), names=names, replay=rp, desc="free joint: translational spring force differs from -k(|d|) d"))
        off = 3
      rot = L.normalize([q(off + i) for i in range(4)])
      dif = qsub(rot, [qsp(off + i) for i in range(4)])
      kk = pf(kst, sp, fsq(o.dot(dif, dif)), False)
      for i in range(3):
        want = ite(spring_off, 0.0, o.a("*", arith("*", kk, -1), dif[i]))
        qs.append(dict(name=f"{tag}/spring[{off + i}]", goal=cmp("==", kt.post("qfrc_spring_out", w, arith("+", da, off + i)), want), names=names, replay=rp, desc="free / ball joint: rotational spring force differs from -k(|d|) d, d = quat_sub(normalize(q), q_spring)"))
      bg = bg + [core.zbool(a) for a in L.assumes]
    if exact:
      ctx.reach(ctx.session(bg), f"twin:thread/{tag}", True)
      sess = sl.oneshot(ctx, bg)
      for qq in qs:
        ctx.prove(sess, qq["name"], qq["goal"], names=qq["names"], replay=qq["replay"], desc=qq["desc"])
    else:
      sl.run_queries(ctx, bg, qs, twin=f"twin:thread/{tag}")

  return (f"passive/dof/type{jt}/spring{'off' if sp_off else 'on'}-damper{'off' if dm_off else 'on'}", run)


def goal_tendon_passive(spec, pre, post):
  w, t, s = spec["tid"][:3]
  sc = lambda n: bool(spec["args"][n]["scalar"])
  msgs = []
  if s < int(pre["ten_J_rownnz"][t]):
    adr = int(pre["ten_J_rowadr"][t]) + s
    dof, J = int(pre["ten_J_colind"][adr]), float(pre["ten_J_in"][w, adr])
    ls = _b(pre, "tendon_lengthspring", w, t)
    x = float(ref_tendon_x(float(pre["ten_length_in"][w, t]), float(ls[0]), float(ls[1])))
    fs = 0.0 if sc("dsbl_spring") else -x * float(poly_force(float(_b(pre, "tendon_stiffness", w, t)), [float(v) for v in _b(pre, "tendon_stiffnesspoly", w, t)], x, False))
    fd = 0.0 if sc("dsbl_damper") else float(ref_damper(float(_b(pre, "tendon_damping", w, t)), [float(v) for v in _b(pre, "tendon_dampingpoly", w, t)], float(pre["ten_velocity_in"][w, t])))
    for lab, f in (("qfrc_spring_out", fs), ("qfrc_damper_out", fd)):
      got, want = float(post[lab][w, dof]) - float(pre[lab][w, dof]), J * f
      if not lib.approx(got, want):
        msgs.append(f"{lab}[{dof}] += {got} expected {want}")
  return (not msgs), f"tendon {t} slot {s}: " + ("; ".join(msgs) or "agrees")


def unit_tendon_passive(ctx):
  from mujoco_warp._src import passive

  k = passive._spring_damper_tendon_passive
  ctx.encode(k)
  ctx.bound(note="one generic thread (world, tendon, sparse column); exact reals; disable flags symbolic")
  ctx.assume("own accesses in bounds")
  ds, dd = z3.Bool("dsbl_spring"), z3.Bool("dsbl_damper")
  kt = lib.kernel_thread(k, scalars={"dsbl_spring": ds, "dsbl_damper": dd})
  w, t, s = kt.tid
  vb = lambda lab, *idx: kt.pre(lab, arith("%", w, kt.cell(lab).shape[0]), *idx)
  vbv = lambda lab, *idx: list(kt.prev(lab, arith("%", w, kt.cell(lab).shape[0]), *idx).c)
  adr = arith("+", kt.pre("ten_J_rowadr", t), s)
  inrow = cmp("<", s, kt.pre("ten_J_rownnz", t))
  dof, J = kt.pre("ten_J_colind", adr), kt.pre("ten_J_in", w, adr)
  ls = vbv("tendon_lengthspring", t)
  x = ref_tendon_x(kt.pre("ten_length_in", w, t), ls[0], ls[1])
  fs = arith("*", arith("*", x, -1), poly_force(vb("tendon_stiffness", t), vbv("tendon_stiffnesspoly", t), x, False))
  fd = ref_damper(vb("tendon_damping", t), vbv("tendon_dampingpoly", t), kt.pre("ten_velocity_in", w, t))
  bg = list(kt.bg) + [core.zbool(Implies(inrow, kt.inshape("ten_J_in", w, adr))), core.zbool(Implies(inrow, kt.inshape("ten_J_colind", adr)))]
  sess = sl.oneshot(ctx, bg)
  ctx.reach(sess, "twin:in-row", inrow)
  d = z3.Int("d")
  names = {"w": w, "tendon": t, "slot": s, "dof": dof, "dsbl_spring": ds, "dsbl_damper": dd}
  rp = lib.make_replay(ctx, kt, "mujoco_warp._src.passive:_spring_damper_tendon_passive", "tendon", "goal", goal="checks.c02:goal_tendon_passive")
  for lab, f, off in (("qfrc_spring_out", fs, ds), ("qfrc_damper_out", fd, dd)):
    want = ite(And(inrow, Not(off), cmp("==", d, dof)), arith("*", J, f), 0.0)
    ctx.prove(sess, f"{lab}", cmp("==", kt.atomic_total(lab, w, d), want), names=dict(names, d=d), replay=rp, desc=f"_spring_damper_tendon_passive: contribution to {lab} differs from J^T f (dead band, polynomial force, disable flag)")


def goal_gravcomp(spec, pre, post):
  w, b, dof = spec["tid"][:3]
  b += 1
  gc = float(_b(pre, "body_gravcomp", w, b))
  want = 0.0
  if gc and int(pre["body_isdofancestor"][b, dof]):
    g = pre["opt_gravity"][w % pre["opt_gravity"].shape[0]].astype(float)
    force = -g * float(_b(pre, "body_mass", w, b)) * gc
    off = pre["xipos_in"][w, b].astype(float) - pre["subtree_com_in"][w, int(pre["body_rootid"][b])].astype(float)
    cd = pre["cdof_in"][w, dof].astype(float)
    want = float(np.dot(cd[3:] + np.cross(cd[:3], off), force))
  got = float(post["qfrc_gravcomp_out"][w, dof]) - float(pre["qfrc_gravcomp_out"][w, dof])
  return lib.approx(got, want), f"gravcomp body {b} dof {dof}: contribution {got} expected {want}"


def unit_gravcomp(ctx):
  from mujoco_warp._src import passive, support

  k = passive._gravity_force
  ctx.encode(k, support.jac_dof)
  ctx.bound(note="one generic thread (world, body-1, dof); exact reals")
  ctx.assume("own accesses in bounds", "body_isdofancestor[b, i] != 0 iff dof i moves body b (put_model table; validated on the topology family in unit tables)")
  kt = lib.kernel_thread(k)
  w, b0, dof = kt.tid
  b = arith("+", b0, 1)
  vb = lambda lab, *idx: kt.pre(lab, arith("%", w, kt.cell(lab).shape[0]), *idx)
  gc, mass = vb("body_gravcomp", b), vb("body_mass", b)
  g = list(kt.prev("opt_gravity", arith("%", w, kt.cell("opt_gravity").shape[0])).c)
  force = [arith("*", arith("*", arith("*", x, -1), mass), gc) for x in g]
  off = EX.sub(list(kt.prev("xipos_in", w, b).c), list(kt.prev("subtree_com_in", w, kt.pre("body_rootid", b)).c))
  cd = list(kt.prev("cdof_in", w, dof).c)
  jacp = EX.add(cd[3:], EX.cross(cd[:3], off))
  anc = cmp("!=", kt.pre("body_isdofancestor", b, dof), 0)
  want = ite(And(cmp("!=", gc, 0), anc), EX.dot(jacp, force), 0.0)
  sess = sl.oneshot(ctx, kt.bg)
  ctx.reach(sess, "twin:compensated-ancestor", And(cmp("!=", gc, 0), anc))
  d = z3.Int("d")
  rp = lib.make_replay(ctx, kt, "mujoco_warp._src.passive:_gravity_force", "gravcomp", "goal", goal="checks.c02:goal_gravcomp")
  ctx.prove(sess, "contribution", cmp("==", kt.atomic_total("qfrc_gravcomp_out", w, d), ite(cmp("==", d, dof), want, 0.0)), names={"w": w, "body": b, "dof": dof, "d": d}, replay=rp, desc="_gravity_force: contribution differs from jacp(xipos_b)[:, dof] . (-gravity mass_b gravcomp_b)")


def goal_passive_sum(spec, pre, post):
  e = spec["env"]
  w, dof = spec["tid"][:2]
  want = float(pre["qfrc_spring_in"][w, dof]) + float(pre["qfrc_damper_in"][w, dof])
  if e["grav"] and not int(_at(pre["jnt_actgravcomp"], (int(_at(pre["dof_jntid"], (dof,))),))):
    want += float(pre["qfrc_gravcomp_in"][w, dof])
  if e["fluid"]:
    want += float(pre["qfrc_fluid_in"][w, dof])
  if e["adh"]:
    want += float(pre["qfrc_adhesion_in"][w, dof])
  got = float(post["qfrc_passive_out"][w, dof])
  return lib.approx(got, want), f"qfrc_passive[{w},{dof}] = {got} expected {want} (specialisation {e})"


def unit_passive_sum(ctx):
  from mujoco_warp._src import passive

  ctx.bound(note="all 8 specialisations (fluid, adhesion, gravity); one generic thread; exact reals")
  ctx.assume("own accesses in bounds")
  for fluid in (False, True):
    for adh in (False, True):
      for grav in (False, True):
        k = passive._qfrc_passive_kernel(fluid, adh, grav)
        ctx.encode(k)
        kt = lib.kernel_thread(k, alias_inout=False)
        w, dof = kt.tid
        want = arith("+", kt.pre("qfrc_spring_in", w, dof), kt.pre("qfrc_damper_in", w, dof))
        if grav:
          act = cmp("!=", kt.pre("jnt_actgravcomp", kt.pre("dof_jntid", dof)), 0)
          want = arith("+", want, ite(act, 0.0, kt.pre("qfrc_gravcomp_in", w, dof)))
        if fluid:
          want = arith("+", want, kt.pre("qfrc_fluid_in", w, dof))
        if adh:
          want = arith("+", want, kt.pre("qfrc_adhesion_in", w, dof))
        wf = [core.zbool(kt.inshape("dof_jntid", dof)), core.zbool(kt.inshape("jnt_actgravcomp", kt.pre("dof_jntid", dof)))] if grav else []
        sess = ctx.session(kt.bg + wf)
        tag = f"fluid{int(fluid)}-adh{int(adh)}-grav{int(grav)}"
        ctx.reach(sess, f"twin:{tag}", True)
        rp = lib.make_replay(ctx, kt, f"mujoco_warp._src.passive:_qfrc_passive_kernel({fluid}, {adh}, {grav})", tag, "goal", goal="checks.c02:goal_passive_sum", env={"fluid": fluid, "adh": adh, "grav": grav})
        ctx.prove(sess, f"qfrc_passive/{tag}", cmp("==", kt.post("qfrc_passive_out", w, dof), want), names={"w": w, "dof": dof}, replay=rp, desc=f"_qfrc_passive_kernel({tag}): sum differs from spring + damper (+ gravcomp unless actuator-applied) (+ fluid) (+ adhesion)")


def goal_qfrc_smooth(spec, pre, post):
  e = spec["env"]
  w, dof = spec["tid"][:2]
  want = float(pre["qfrc_passive_in"][w, dof]) - float(pre["qfrc_bias_in"][w, dof]) + float(pre["qfrc_actuator_in"][w, dof]) + float(pre["qfrc_applied_in"][w, dof])
  if e["sleep"]:
    tree = int(pre["body_treeid"][int(pre["dof_bodyid"][dof])])
    if tree >= 0 and int(pre["tree_awake_in"][w, tree]) == 0:
      want = 0.0
  got = float(post["qfrc_smooth_out"][w, dof])
  return lib.approx(got, want), f"qfrc_smooth[{w},{dof}] = {got} expected {want}"


def unit_qfrc_smooth(ctx):
  from mujoco_warp._src import forward

  ctx.bound(note="both specialisations (sleep off / on); one generic thread; exact reals")
  ctx.assume("own accesses in bounds", "sleep enabled: a dof of a sleeping tree gets 0 (mujoco_warp sleep design)")
  for sleep in (False, True):
    k = forward._qfrc_smooth(sleep)
    ctx.encode(k)
    kt = lib.kernel_thread(k, alias_inout=False)
    w, dof = kt.tid
    want = arith("+", arith("+", arith("-", kt.pre("qfrc_passive_in", w, dof), kt.pre("qfrc_bias_in", w, dof)), kt.pre("qfrc_actuator_in", w, dof)), kt.pre("qfrc_applied_in", w, dof))
    if sleep:
      tree = kt.pre("body_treeid", kt.pre("dof_bodyid", dof))
      asleep = And(cmp(">=", tree, 0), cmp("==", kt.pre("tree_awake_in", w, tree), 0))
      want = ite(asleep, 0.0, want)
    sess = ctx.session(kt.bg)
    ctx.reach(sess, f"twin:sleep{int(sleep)}", True)
    rp = lib.make_replay(ctx, kt, f"mujoco_warp._src.forward:_qfrc_smooth({sleep})", f"sleep{int(sleep)}", "goal", goal="checks.c02:goal_qfrc_smooth", env={"sleep": sleep})
    ctx.prove(sess, f"qfrc_smooth/sleep{int(sleep)}", cmp("==", kt.post("qfrc_smooth_out", w, dof), want), names={"w": w, "dof": dof}, replay=rp, desc="_qfrc_smooth: differs from qfrc_passive - qfrc_bias + qfrc_actuator + qfrc_applied")


# ================================================================================================ crb / com_vel / rne (H mode)


def ref_crb(mjm, p, w, L):
  """mj_crb: crb_b = cinert_b + sum over children; M(i, j) = cdof_j . (crb_body(i) cdof_i) for j = i and its dof ancestors,
  armature on the diagonal; stored in MuJoCo's CSR layout (M_rowadr / M_rownnz / M_colind)."""
  o = L.o
  nb = mjm.nbody
  crb = [p.get("cinert", w, b) for b in range(nb)]
  for b in range(nb - 1, 0, -1):
    pid = int(mjm.body_parentid[b])
    if pid > 0:
      crb[pid] = o.add(crb[pid], crb[b])
  M = {}
  for i in range(mjm.nv):
    buf = L.inert_vec(crb[int(mjm.dof_bodyid[i])], p.get("cdof", w, i))
    j = i
    while j >= 0:
      v = o.dot(p.get("cdof", w, j), buf)
      if j == i:
        v = arith("+", p.get("dof_armature", w, i), v)
      M[(i, j)] = v
      j = int(mjm.dof_parentid[j])
  return crb, M


def m_address(mjm, i, j):
  adr, n = int(mjm.M_rowadr[i]), int(mjm.M_rownnz[i])
  for k in range(n):
    if int(mjm.M_colind[adr + k]) == j:
      return adr + k
  raise KeyError((i, j))


def ref_comvel(mjm, p, w, L):
  """mj_comVel: cvel_b = cvel_parent + sum_j cdof_j qvel_j; cdof_dot_j = cvel(before adding the joint's own dofs) x cdof_j;
  free joints: translational cdof_dot = 0, rotational ones use the velocity after the translational part"""
  o = L.o
  cvel = [None] * mjm.nbody
  cvel[0] = [0.0] * 6
  cdd = [None] * mjm.nv
  for b in range(1, mjm.nbody):
    v = list(cvel[int(mjm.body_parentid[b])])
    da, j = int(mjm.body_dofadr[b]), 0
    while j < int(mjm.body_dofnum[b]):
      jt = int(mjm.jnt_type[int(mjm.dof_jntid[da + j])])
      addv = lambda v, k: o.add(v, o.scl(p.get("cdof", w, da + k), p.get("qvel", w, da + k)))
      if jt == sl.JNT_FREE:
        for k in range(3):
          cdd[da + j + k] = [0.0] * 6
          v = addv(v, j + k)
        j += 3
        jt = sl.JNT_BALL
      if jt == sl.JNT_BALL:
        for k in range(3):
          cdd[da + j + k] = L.mcross(v, p.get("cdof", w, da + j + k))
        for k in range(3):
          v = addv(v, j + k)
        j += 3
      else:
        cdd[da + j] = L.mcross(v, p.get("cdof", w, da + j))
        v = addv(v, j)
        j += 1
    cvel[b] = v
  return cvel, cdd


def ref_rne(mjm, p, w, L, grav):
  """mj_rne (flg_acc = 0): cacc_b = cacc_parent + sum cdof_dot qvel (world: -gravity); cfrc_b = I cacc + cvel x* (I cvel);
  accumulate to parents; qfrc_bias_i = cdof_i . cfrc_body(i)"""
  o = L.o
  nb = mjm.nbody
  cacc = [None] * nb
  cacc[0] = [0.0, 0.0, 0.0] + [arith("*", x, -1) for x in grav]
  cfrc = [None] * nb
  cfrc[0] = [0.0] * 6
  for b in range(1, nb):
    a = list(cacc[int(mjm.body_parentid[b])])
    da = int(mjm.body_dofadr[b])
    for j in range(int(mjm.body_dofnum[b])):
      a = o.add(a, o.scl(p.get("cdof_dot", w, da + j), p.get("qvel", w, da + j)))
    cacc[b] = a
    ci, cv = p.get("cinert", w, b), p.get("cvel", w, b)
    cfrc[b] = o.add(L.inert_vec(ci, a), L.mcross_force(cv, L.inert_vec(ci, cv)))
  for b in range(nb - 1, 0, -1):
    pid = int(mjm.body_parentid[b])
    cfrc[pid] = o.add(cfrc[pid], cfrc[b])
  return [o.dot(p.get("cdof", w, i), cfrc[int(mjm.dof_bodyid[i])]) for i in range(mjm.nv)]


def validate_dyn_refs(ctx, xml, seed):
  import mujoco

  rng = np.random.default_rng(seed)
  mjm = mujoco.MjModel.from_xml_string(xml)
  mjm.dof_armature[:] = rng.uniform(0, 1, mjm.nv)
  mjd = mujoco.MjData(mjm)
  mjd.qpos[:] = rng.uniform(-1, 1, mjm.nq)
  mjd.qvel[:] = rng.uniform(-1, 1, mjm.nv)
  mujoco.mj_forward(mjm, mjd)
  src = {n: np.asarray(getattr(mjd, n))[None] for n in ("cinert", "cdof", "cdof_dot", "qvel", "cvel")}
  src["dof_armature"] = mjm.dof_armature[None]
  p = sl.P(src, mjm)
  L = sl.NumLeaves()
  crb, M = ref_crb(mjm, p, 0, L)
  for (i, j), v in M.items():
    if abs(v - mjd.M[m_address(mjm, i, j)]) > 1e-8:
      ctx.error(f"reference mj_crb model disagrees with mujoco on M({i},{j}): {v} vs {mjd.M[m_address(mjm, i, j)]}")
      return False
  if len(M) != mjm.nM if hasattr(mjm, "nM") else False:
    ctx.error("reference mj_crb model does not cover every stored entry of M")
    return False
  cvel, cdd = ref_comvel(mjm, p, 0, L)
  for b in range(mjm.nbody):
    if not np.allclose(np.array(cvel[b]), mjd.cvel[b], atol=1e-9):
      ctx.error(f"reference mj_comVel model disagrees with mujoco on cvel[{b}]")
      return False
  for i in range(mjm.nv):
    if not np.allclose(np.array(cdd[i]), mjd.cdof_dot[i], atol=1e-9):
      ctx.error(f"reference mj_comVel model disagrees with mujoco on cdof_dot[{i}]: {cdd[i]} vs {mjd.cdof_dot[i].tolist()}")
      return False
  bias = ref_rne(mjm, p, 0, L, [float(x) for x in mjm.opt.gravity])
  if not np.allclose(np.array(bias), mjd.qfrc_bias, atol=1e-8):
    ctx.error(f"reference mj_rne model disagrees with mujoco on qfrc_bias: {bias} vs {mjd.qfrc_bias.tolist()}")
    return False
  return True


def dyn_replay(ctx, tname, xml, stage, symM, symD, symG, target):
  """real mujoco_warp stage vs the mujoco library on random float inputs (leaf functions were uninterpreted in the query)"""

  def _rp(model):
    import mujoco

    import mujoco_warp as mjw
    from mujoco_warp._src import smooth

    field, w, idx = target
    rng = np.random.default_rng(11)
    last = ""
    for trial in range(3):
      mjm, m, d = build(xml)
      inputs = {n: rng.uniform(0.2, 1.0, tuple(sa.ref.cell.shape) + tuple(sa.ref.cell.vshape)) * rng.choice([-1.0, 1.0], tuple(sa.ref.cell.shape) + tuple(sa.ref.cell.vshape)) for n, sa in list(symM.items()) + list(symD.items()) + list(symG.items())}
      if "dof_armature" in inputs:
        inputs["dof_armature"] = np.abs(inputs["dof_armature"])
      for n in symM:
        setattr(m, n, wp.array(inputs[n].astype(np.float32), dtype=getattr(m, n).dtype))
        getattr(mjm, n)[:] = inputs[n][w % inputs[n].shape[0]].reshape(getattr(mjm, n).shape)
      for n in symD:
        getattr(d, n).assign(inputs[n].astype(np.float32))
      if symG:
        m.opt.gravity = wp.array(inputs["gravity"].astype(np.float32), dtype=wp.vec3)
        mjm.opt.gravity[:] = inputs["gravity"][w % inputs["gravity"].shape[0]]
      getattr(smooth, stage)(m, d)
      mjd = mujoco.MjData(mjm)
      for n in symD:
        getattr(mjd, n)[:] = inputs[n][w].reshape(getattr(mjd, n).shape)
      if stage == "crb":
        mujoco.mj_crb(mjm, mjd)
        got, want = float(d.M.numpy()[w].reshape(-1)[idx]), float(mjd.M[idx])
      elif stage == "com_vel":
        mujoco.mj_comVel(mjm, mjd)
        got, want = getattr(d, field).numpy()[w][idx].astype(float), getattr(mjd, field)[idx]
      else:
        res = np.zeros(mjm.nv)
        mujoco.mj_rne(mjm, mjd, 0, res)
        got, want = float(d.qfrc_bias.numpy()[w][idx]), float(res[idx])
      last = f"{stage} {field}[world {w}][{idx}]: mujoco_warp {np.asarray(got).tolist()} vs mujoco {np.asarray(want).tolist()}"
      if not np.allclose(got, want, rtol=2e-3, atol=2e-4):
        return True, sl.save_replay(PID, f"{stage}.{tname}.{field}.{w}.{idx}", {"property": PID, "xml": xml, "stage": stage, "inputs": inputs, "result": last})
    return False, last

  return _rp


def unit_dyn(stage, tname):
  def run(ctx):
    from mujoco_warp._src import math as mm
    from mujoco_warp._src import smooth

    xml = TOPOLOGIES[tname]
    if not validate_dyn_refs(ctx, xml, ctx.seed):
      return
    mjm, m, d = build(xml)
    fn = getattr(smooth, stage)
    ctx.encode(fn)
    ctx.bound(topology=tname, nworld=NWORLD, nbody=mjm.nbody, nv=mjm.nv)
    ctx.assume("inert_vec / motion_cross / motion_cross_force (leaf lemmas in unit leaf) and float products are shared uninterpreted functions", "every float input of the stage is arbitrary (stages are decided separately)")
    L = sl.UFLeaves()
    summ = L.summaries(("inert_vec", "motion_cross", "motion_cross_force"))
    d2 = host.shim_dataclass(d, "d.")
    arrs = host.arrays_of(d2)
    symG = {}
    if stage == "crb":
      m2 = sl.sym_fields(m, "m.", ["dof_armature"], batch=2)
      symM, symD = {"dof_armature": m2.dof_armature}, {n: arrs[n] for n in ("cinert", "cdof")}
    elif stage == "com_vel":
      m2, symM, symD = m, {}, {n: arrs[n] for n in ("qvel", "cdof")}
    else:
      opt2 = sl.sym_fields(m.opt, "m.opt.", ["gravity"])
      m2 = dataclasses.replace(m, opt=opt2)
      symG = {"gravity": opt2.gravity}
      symM, symD = {}, {n: arrs[n] for n in ("qvel", "cdof", "cdof_dot", "cinert", "cvel")}
    with sl.hostrun(mode="exec", interp_kw={"float_uf": True, "summaries": summ}) as hr:
      fn(m2, d2)
    for e in hr.events:
      if e.kind == "launch":
        ctx.encode(e.kernel)
    ctx.notes.append(f"{hr.nthreads} threads interpreted")
    p = sl.P({**symM, **symD, **symG}, mjm)
    qs = []
    for key, tid, o in hr.obl:
      qs.append(dict(name=f"{o.kind}/{key}@{o.where}/{tid}", goal=o.cond, guard=o.guard, replay=lambda mdl: (False, "index obligations are not replayed here"), desc=f"{stage}: {key} thread {tid}: {o.kind} obligation at {o.where}"))
    for w in range(NWORLD):
      if stage == "crb":
        crb, M = ref_crb(mjm, p, w, L)
        if hasattr(mjm, "nM") and int(arrs["M"].ref.cell.shape[-1]) < mjm.nM:
          ctx.error(f"Data.M has {arrs['M'].ref.cell.shape} entries, MuJoCo's CSR has {mjm.nM}")
        for (i, j), want in M.items():
          adr = m_address(mjm, i, j)
          got = sl.cell_vals(arrs["M"], (w, adr))[0]
          qs.append(dict(name=f"M[{w}]({i},{j})", goal=cmp("==", got, want), replay=dyn_replay(ctx, tname, xml, stage, symM, symD, symG, ("M", w, adr)), desc=f"crb ({tname}): inertia matrix entry ({i},{j}) (CSR address {adr}) differs from mj_crb"))
      elif stage == "com_vel":
        cvel, cdd = ref_comvel(mjm, p, w, L)
        for b in range(mjm.nbody):
          qs.append(dict(name=f"cvel[{w}][{b}]", goal=sl.eq_all(sl.cell_vals(arrs["cvel"], (w, b)), cvel[b]), replay=dyn_replay(ctx, tname, xml, stage, symM, symD, symG, ("cvel", w, b)), desc=f"com_vel ({tname}): cvel of body {b} differs from mj_comVel"))
        for i in range(mjm.nv):
          qs.append(dict(name=f"cdof_dot[{w}][{i}]", goal=sl.eq_all(sl.cell_vals(arrs["cdof_dot"], (w, i)), cdd[i]), replay=dyn_replay(ctx, tname, xml, stage, symM, symD, symG, ("cdof_dot", w, i)), desc=f"com_vel ({tname}): cdof_dot of dof {i} differs from mj_comVel"))
      else:
        bias = ref_rne(mjm, p, w, L, p.get("gravity", w))
        for i in range(mjm.nv):
          qs.append(dict(name=f"qfrc_bias[{w}][{i}]", goal=cmp("==", sl.cell_vals(arrs["qfrc_bias"], (w, i))[0], bias[i]), replay=dyn_replay(ctx, tname, xml, stage, symM, symD, symG, ("qfrc_bias", w, i)), desc=f"rne ({tname}): qfrc_bias of dof {i} differs from mj_rne"))
    sl.run_queries(ctx, [core.zbool(a) for a in hr.assumes + L.assumes], qs)

  return (f"{stage}/{tname}", run)


def unit_tables(ctx):
  """side condition (not a solver query): body_isdofancestor of put_model == 'dof i moves body b' on the topology family"""
  ctx.bound(note="concrete validation of a put_model table on the topology family + the passive validation model")
  sess = ctx.session([])
  ctx.reach(sess, "twin:tables", True)
  for tname, xml in list(TOPOLOGIES.items()) + [("passive-model", PASSIVE_XML)]:
    mjm, m, d = build(xml)
    tab = m.body_isdofancestor.numpy()
    for b in range(mjm.nbody):
      anc = set()
      x = b
      while x > 0:
        anc.add(x)
        x = int(mjm.body_parentid[x])
      for i in range(mjm.nv):
        if bool(tab[b, i]) != (int(mjm.dof_bodyid[i]) in anc):
          ctx.error(f"put_model table body_isdofancestor[{b},{i}] = {tab[b, i]} contradicts the kinematic tree of topology {tname}")


def main(tier, seed, only=None):
  units = [("leaf", unit_leaf), ("tables", unit_tables)]
  def dof_unit(jt):
    subs = [unit_dof_passive(jt, a, b) for a in (False, True) for b in (False, True)]

    def run(ctx):
      base = ctx.unit
      for n, f in subs:
        ctx.notes.append(f"sub-harness {n}")
        ctx.tag = n.split("/")[-1]
        f(ctx)

    return (f"passive/dof/type{jt}", run)

  units += [dof_unit(jt) for jt in (sl.JNT_SLIDE, sl.JNT_HINGE, sl.JNT_BALL, sl.JNT_FREE)]
  units += [("passive/tendon", unit_tendon_passive), ("passive/gravcomp", unit_gravcomp), ("passive/sum", unit_passive_sum), ("smooth/qfrc_smooth", unit_qfrc_smooth)]
  tops = list(TOPOLOGIES) if tier == "thorough" else ["fork-ball-slide", "two-joints-child", "free-hinge", "welded-between"]
  for st in ("crb", "com_vel", "rne"):
    units += [unit_dyn(st, t) for t in tops]
  if only:
    units = [u for u in units if any(o in u[0] for o in only)]
  return report.run_check(PID, units, tier, seed)
