"""Forwarding wrapper kernels (no logic) so that wp.funcs of mujoco_warp can be interpreted / replayed like kernels."""

import warp as wp

from mujoco_warp._src import math, smooth, util_misc


@wp.kernel(module="unique", enable_backward=False)
def accumulate_jac_chain_wrap(
  # Model:
  body_parentid: wp.array[int],
  body_dofnum: wp.array[int],
  body_dofadr: wp.array[int],
  ten_J_colind: wp.array[int],
  # Data in:
  cdof_in: wp.array2d[wp.spatial_vector],
  # In:
  offset: wp.vec3,
  vec: wp.vec3,
  bodyid: int,
  rowadr: int,
  rownnz: int,
  scale: float,
  worldid: int,
  # Data out:
  ten_J_out: wp.array2d[float],
):
  smooth._accumulate_jac_chain(
    body_parentid,
    body_dofnum,
    body_dofadr,
    ten_J_colind,
    cdof_in,
    offset,
    vec,
    bodyid,
    rowadr,
    rownnz,
    scale,
    worldid,
    ten_J_out,
  )


@wp.kernel(module="unique", enable_backward=False)
def wrap_wrap(
  # In:
  x0: wp.vec3,
  x1: wp.vec3,
  pos: wp.vec3,
  mat: wp.mat33,
  radius: float,
  geomtype: int,
  side: wp.vec3,
  # Out:
  length_out: wp.array[float],
  pnt_out: wp.array[wp.vec3],
):
  length, p0, p1 = util_misc.wrap(x0, x1, pos, mat, radius, geomtype, side)
  length_out[0] = length
  pnt_out[0] = p0
  pnt_out[1] = p1


@wp.kernel(module="unique", enable_backward=False)
def normalize_with_norm_wrap(
  # In:
  x: wp.vec3,
  # Out:
  unit_out: wp.array[wp.vec3],
  norm_out: wp.array[float],
):
  from_x, n = math.normalize_with_norm(x)
  unit_out[0] = from_x
  norm_out[0] = n
