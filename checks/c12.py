"""C12 Next step depends only on the integration state — scratch-independence of the real forward()/step() pipeline.

The REAL mujoco_warp.forward(m, d) (and step) is run natively on tiny corpus models with the integration state concrete and
EVERY other Data array holding fresh symbolic ("stale") contents, i.e. arbitrary leftovers of an arbitrary prior history
(different capacities' scratch, old rows, old contacts, old counters).  Kernels are interpreted thread by thread (dense
memory); kernels outside the modelled subset (tile API) are executed by the real compiled kernel when all their inputs are
stale-free, otherwise the check is inconclusive for that run.  After the run every observable output cell (state-derived
results: qacc, qfrc_*, sensordata, listed contacts, assembled constraint rows, ...) is a z3 term over the stale symbols;
the solver decides whether two different stale contents can give different values (substitution of all stale symbols by
primed copies; equality must be valid under the cell's validity guard such as row < nefc).
"""

import dataclasses
import itertools
import json
import os
import sys

import numpy as np
import warp as wp
import z3

from wsym import core, harvest, host, kh, report, selftest
from wsym.core import And, Not, Or, cmp, is_sym

PID = "C12"

# integration state + user inputs (types.State / the property statement): concrete, shared by both "histories"
STATE = {"time", "qpos", "qvel", "act", "history", "qacc_warmstart", "ctrl", "qfrc_applied", "xfrc_applied", "eq_active", "mocap_pos", "mocap_quat", "userdata"}
# capacities / sizes that are plain ints are concrete anyway.  Arrays that are not observable results (pure scratch whose
# value after the call is unspecified): not required to be independent
NOT_OBSERVED_PREFIX = ()
# sticky status words that the pipeline only ever ORs into (never recomputed): part of the Data object's reported status,
# kept concrete (equal in both histories)
STICKY = {"overflow"}
# Data.cvel / Data.cdof_dot are read by make_constraint (fwd_position) before fwd_velocity recomputes them: a recorded known
# finding (unit stage-order/*).  In the main runs they are kept consistent (concrete) so that this one defect does not
# taint every downstream result; the dedicated unit makes exactly them stale.
KNOWN_LAGGED = {"cvel", "cdof_dot"}


def stale_symbols(term, acc):
  seen = set()
  stack = [term]
  while stack:
    x = stack.pop()
    if x.get_id() in seen:
      continue
    seen.add(x.get_id())
    if z3.is_const(x) and x.decl().kind() == z3.Z3_OP_UNINTERPRETED:
      acc[x.decl().name()] = x
    else:
      stack.extend(x.children())
  return acc


class FallbackRun(host.HostRun):
  """HostRun that executes kernels the interpreter cannot encode with the REAL compiled kernel, provided every input cell
  is concrete (stale-free)."""

  def __init__(self, *a, **k):
    super().__init__(*a, **k)
    self.fallbacks = []
    self.blocked = []

  def _real(self, kernel, dim, inputs, outputs, tiled_kw=None):
    """execute with the real compiled kernel.  Cells that still hold stale symbols are filled with two different concrete
    patterns; the two runs must agree on every array (then the kernel provably ignores them on this input and the common
    result is used), otherwise the call is blocked (inconclusive)."""
    args = list(inputs) + list(outputs)
    ni = len(list(inputs))
    nsym = 0
    results = []
    fills = (0.0, 3.25)
    def _same(x, y):
      return all((p is None and q is None) or (p is not None and q is not None and p.shape == q.shape and np.array_equal(p, q, equal_nan=p.dtype.kind == "f")) for p, q in zip(x, y))

    for fill in fills:
     prev_res = None
     for attempt in range(8):
      real = []
      for a in args:
        if isinstance(a, host.SymArr):
          c = a.ref.cell
          if a.ref.prefix:
            raise core.Unsupported("fallback on view")
          n = c.size
          buf = np.zeros((n, c.ncomp), dtype=np.float64)
          for k in range(c.ncomp):
            col = c.d[k]
            for i in range(n):
              x = col[i]
              if is_sym(x):
                nsym += 1
                buf[i, k] = fill if c.dtype != "bool" else (fill != 0.0)
              else:
                buf[i, k] = x
          dt = {"real": np.float32, "int": np.int32, "bool": np.bool_}[c.dtype]
          real.append(wp.array(buf.reshape(tuple(c.shape) + tuple(c.vshape)).astype(dt), dtype=a.dtype, shape=tuple(c.shape)))
        else:
          real.append(a)
      if os.environ.get("WSYM_VERBOSE") and fill == fills[0]:
        for j, a in enumerate(args):
          if isinstance(a, host.SymArr):
            c = a.ref.cell
            ns = sum(1 for k in range(c.ncomp) for x in c.d[k] if is_sym(x))
            if ns:
              ex = next(x for k in range(c.ncomp) for x in c.d[k] if is_sym(x))
              print(f"[host]   {kernel.key} {'in ' if j < ni else 'out'} {kernel.adj.args[j].label} <- {a.name_}: {ns}/{c.size * c.ncomp} symbolic cells e.g. {str(ex)[:80]}", flush=True)
      if tiled_kw is not None:
        self.saved["launch_tiled"](kernel, dim=dim, inputs=real[:ni], outputs=real[ni:], **tiled_kw)
      else:
        self.saved["launch"](kernel, dim=dim, inputs=real[:ni], outputs=real[ni:])
      if os.environ.get("C12_DUMP") and os.environ["C12_DUMP"] in kernel.key and not os.path.exists(f"/tmp/c12dump_{fill}.npz"):
        np.savez(f"/tmp/c12dump_{fill}.npz", **{f"a{j}": r.numpy() for j, (a, r) in enumerate(zip(args, real)) if isinstance(a, host.SymArr)})
      if os.environ.get("C12_DUMP") and os.environ["C12_DUMP"] in kernel.key:
        print("[dbg] fill", fill, "outputs", [np.round(r.numpy().reshape(-1)[:6], 3).tolist() for r in real[ni:] if hasattr(r, "numpy")], "tiled_kw", tiled_kw, "dim", dim, flush=True)
      this_res = [r.numpy().copy() if isinstance(a, host.SymArr) else None for a, r in zip(args, real)]
      # the real implementation must be a function of its inputs: accept a result only when two consecutive executions on
      # identical inputs agree bit for bit (real tile kernels run from this harness were observed to return garbage in a
      # fraction of launches; see DESIGN 11.4)
      if prev_res is None or not _same(prev_res, this_res):
        if prev_res is not None:
          self.unstable = getattr(self, "unstable", 0) + 1
        prev_res = this_res
        if attempt == 7:
          raise RuntimeError(f"real kernel {kernel.key} does not give reproducible results on identical inputs")
        continue
      results.append(this_res)
      if os.environ.get("C12_DEBUG"):
        for j, (a, r) in enumerate(zip(args, real)):
          if isinstance(a, host.SymArr) and r.numpy().dtype.kind == "f":
            x = r.numpy()
            if not np.all(np.isfinite(x)) or np.abs(x).max() > 1e15:
              print(f"[c12-debug] fallback {kernel.key} fill {fill} arg {j} ({'in' if j < ni else 'out'}) {kernel.adj.args[j].label}: non-finite/huge after launch; dim {dim} tiled {tiled_kw}", file=sys.stderr, flush=True)
      break
     if nsym == 0:
        break
    symcells = {}
    if len(results) == 2:
      for j, a in enumerate(args):
        if not isinstance(a, host.SymArr):
          continue
        c = a.ref.cell
        r0, r1 = results[0][j].reshape(c.size, c.ncomp), results[1][j].reshape(c.size, c.ncomp)
        # cells that were stale before and are untouched by the kernel keep their symbol; everything else must agree
        for k in range(c.ncomp):
          for i in range(c.size):
            same = (r0[i, k] == r1[i, k]) or (np.isnan(r0[i, k]) and np.isnan(r1[i, k]))
            if not same:
              if is_sym(c.d[k][i]) and float(r0[i, k]) == float(fills[0] if c.dtype != "bool" else 0) and float(r1[i, k]) == float(fills[1] if c.dtype != "bool" else 1):
                symcells[(j, k, i)] = c.d[k][i]  # untouched stale cell
              else:
                # result cell is some unknown function of stale data: keep it as a fresh stale symbol (taint); if it
                # ever reaches an observable result the solver query below reports the dependence and the replay decides
                self.blocked.append((kernel.key, a.name_))
                if os.environ.get("WSYM_VERBOSE"):
                  print(f"[host] taint {kernel.key} arg {a.name_}[{i}]#{k}: {r0[i, k]} vs {r1[i, k]} (was stale: {is_sym(c.d[k][i])})", flush=True)
                symcells[(j, k, i)] = z3.Const(f"stale:via:{kernel.key}:{a.name_}[{i}]#{k}", c.sort)
    for j, a in enumerate(args):
      if isinstance(a, host.SymArr):
        c = a.ref.cell
        npa = results[0][j].reshape(c.size, c.ncomp) if c.size else np.zeros((0, c.ncomp))
        conv = {"int": int, "real": float, "bool": bool}[c.dtype]
        newd = [[conv(x) for x in npa[:, k]] for k in range(c.ncomp)]
        for (jj, k, i), sym in symcells.items():
          if jj == j:
            newd[k][i] = sym
        c.d = newd
        if j >= ni and getattr(c, "wmask", None) is not None:
          c.wmask = [True] * c.size
    self.fallbacks.append(kernel.key)

  def launch(self, kernel, dim, inputs=(), outputs=(), **kw):
    inputs, outputs = inputs or (), outputs or ()
    snap = [(a, [list(x) for x in a.ref.cell.d]) for a in list(inputs) + list(outputs) if isinstance(a, host.SymArr)]
    try:
      return super().launch(kernel, dim, inputs, outputs, **kw)
    except core.Unsupported as ex:
      if "outside the modelled subset and its input" in str(ex):
        raise
      if os.environ.get("WSYM_VERBOSE"):
        print(f"[host] fallback to the real kernel for {kernel.key}: {ex}", flush=True)
      for a, d in snap:
        a.ref.cell.d = d
      self._real(kernel, dim, inputs, outputs)

  def __enter__(self):
    r = super().__enter__()
    hr = self

    def launch_tiled(*a, **kw):
      kernel = a[0] if a else kw.pop("kernel")
      dim = kw.pop("dim")
      inputs = kw.pop("inputs", ())
      outputs = kw.pop("outputs", ())
      hr.events.append(host.Event("launch_tiled", kernel, dim))
      hr._real(kernel, dim, inputs or (), outputs or (), tiled_kw=kw)

    wp.launch_tiled = launch_tiled
    return r


def _target(d, name):
  obj, attr = d, name
  if name.startswith("contact."):
    obj, attr = d.contact, name[len("contact.") :]
  elif name.startswith("efc."):
    obj, attr = d.efc, name[len("efc.") :]
  elif "." in name:
    return None, None
  return obj, attr


def real_host_call(fn, m, arrs, make_real_data, log=None):
  """Execute host function `fn(m, d)` with the REAL implementation on real Data objects filled from the cells; cells that
  still hold stale symbols are filled with two different concrete patterns.  Result cells on which both runs agree become
  concrete; stale cells left untouched keep their symbol; cells that differ become fresh taint symbols."""
  hr = host.HostRun.current
  if hr is not None:
    hr.__exit__(None, None, None)  # real Warp allocation / launch functions while the real implementation runs
  try:
    return _real_host_call(fn, m, arrs, make_real_data, log)
  finally:
    if hr is not None:
      hr.__enter__()


FILLS = ((0.0, 0, False), (3.25, 1, True), (-2.5, 2, True))  # (float, int, bool) patterns for cells that hold stale symbols


def _fillval(fill, dtype):
  return fill[0] if dtype == "real" else (fill[1] if dtype == "int" else fill[2])


def _real_host_call(fn, m, arrs, make_real_data, log=None):
  outs = []
  nsym = 0
  pre32 = []
  for fill in FILLS:
   prev_res = None
   for attempt in range(8):
    d = make_real_data()
    pre = {}
    for n, sa in arrs.items():
      c = sa.ref.cell
      if c.size == 0:
        continue
      obj, attr = _target(d, n)
      if obj is None:
        continue
      real = getattr(obj, attr)
      buf = np.zeros((c.size, c.ncomp), dtype=np.float64)
      fv = _fillval(fill, c.dtype)
      for k in range(c.ncomp):
        col = c.d[k]
        for i in range(c.size):
          x = col[i]
          if is_sym(x):
            nsym += 1
            buf[i, k] = fv
          else:
            buf[i, k] = x
      rn = real.numpy()
      real.assign(buf.reshape(rn.shape).astype(rn.dtype))
      pre[n] = real.numpy().reshape(c.size, c.ncomp).astype(np.float64)
    if os.environ.get("C12_DEBUG"):
      import dataclasses as _dc
      def _scan(obj, prefix):
        for f in _dc.fields(obj):
          v = getattr(obj, f.name)
          if _dc.is_dataclass(v):
            _scan(v, prefix + f.name + ".")
          elif hasattr(v, "numpy") and getattr(v, "size", 0):
            a = v.numpy()
            if a.dtype.kind == "f" and not np.all(np.isfinite(a)):
              idx = np.argwhere(~np.isfinite(a))[:6].tolist()
              extra = ""
              if prefix == "d.efc." and a.ndim >= 2:
                rows = sorted({i[1] for i in idx})
                extra = f" rows {rows} type {[int(obj.type.numpy()[0, r]) for r in rows]} id {[int(obj.id.numpy()[0, r]) for r in rows]} nefc {d.nefc.numpy().tolist()} nacon {d.nacon.numpy().tolist()}"
              print(f"[c12-debug] non-finite INPUT {prefix}{f.name} shape {a.shape} at {idx}{extra}", file=sys.stderr, flush=True)
            elif a.dtype.kind == "f" and np.abs(a).max() > 1e20:
              print(f"[c12-debug] huge INPUT {prefix}{f.name} max {np.abs(a).max()} in_arrs={prefix[2:] + f.name in arrs}", file=sys.stderr, flush=True)
      _scan(d, "d."); _scan(m, "m.")
    fn(m, d)
    res = {}
    for n, sa in arrs.items():
      c = sa.ref.cell
      if c.size == 0:
        continue
      obj, attr = _target(d, n)
      if obj is None:
        continue
      res[n] = getattr(obj, attr).numpy().reshape(c.size, c.ncomp).astype(np.float64)
    # accept a result only when two consecutive executions on identical inputs agree bit for bit (see FallbackRun._real)
    if prev_res is None or any(not np.array_equal(prev_res[n], res[n], equal_nan=True) for n in res):
      prev_res = res
      if attempt == 7:
        raise RuntimeError(f"real {fn.__name__} does not give reproducible results on identical inputs")
      continue
    pre32.append(pre)
    outs.append(res)
    break
   if nsym == 0:
      break
  ntaint = 0
  tainted = []
  for n, sa in arrs.items():
    c = sa.ref.cell
    if n not in outs[0]:
      continue
    conv = {"int": int, "real": float, "bool": bool}[c.dtype]
    for k in range(c.ncomp):
      for i in range(c.size):
        vals = [o[n][i, k] for o in outs]
        a = vals[0]
        # the property demands bit-identical results: exact comparison
        same = all((v == a) or (np.isnan(a) and np.isnan(v)) for v in vals[1:])
        if same:
          unchanged = (not is_sym(c.d[k][i])) and (a == pre32[0][n][i, k] or (np.isnan(a) and np.isnan(pre32[0][n][i, k])))
          if not unchanged:
            c.d[k][i] = conv(a) if not np.isnan(a) else float("nan")
            if getattr(c, "wmask", None) is not None:
              c.wmask[i] = True
        elif is_sym(c.d[k][i]) and all(v == p[n][i, k] for v, p in zip(vals, pre32)):
          pass  # untouched stale cell keeps its symbol
        else:
          ntaint += 1
          tainted.append(f"{n}[{i}]")
          c.d[k][i] = z3.Const(f"stale:via:{fn.__name__}:{n}[{i}]#{k}", c.sort)
  if os.environ.get("C12_DEBUG"):
    print(f"[c12-debug] real {fn.__name__}: nsym {nsym} ntaint {ntaint} tainted {tainted[:8]} nefc {[o.get('nefc') for o in outs]} qacc {[o.get('qacc', np.zeros((0, 1)))[:, 0].tolist() for o in outs]} niter {[o.get('solver_niter') for o in outs]}", file=sys.stderr, flush=True)
  if log:
    log(f"real {fn.__name__}: {nsym // max(1, len(outs))} stale scalars in its Data, {ntaint} result cells differ between {len(outs)} stale fills {tainted[:6]}")
  return ntaint


def validity_guard(name, idx, post):
  """condition under which cell `name[idx]` is an observable result (None = always)"""
  if name.startswith("efc."):
    fld = name[4:]
    if fld in ("J", "J_colind") and len(idx) == 3 and False:
      return None
    if len(idx) >= 2:
      w, r = idx[0], idx[1]
      nefc = post["nefc"].d[0][w]
      return cmp("<", r, nefc)
  if name.startswith("contact."):
    c = idx[0]
    return cmp("<", c, post["nacon"].d[0][0])
  return None


def unit_forward(mname, vname, fn_name, only_stale=None):
  def run(ctx):
    import mujoco

    import mujoco_warp as mjw
    from mujoco_warp._src import forward as fwd

    var = {v[0]: v for v in harvest.VARIANTS}[vname]
    xml = harvest.CORPUS[mname].format(opt=var[1], flag=var[2])
    mjm = mujoco.MjModel.from_xml_string(xml)
    mjd = mujoco.MjData(mjm)
    if mjm.nkey:
      mujoco.mj_resetDataKeyframe(mjm, mjd, 0)
    mjd.qvel[:] = 0.05
    mjd.ctrl[:] = 0.1
    mujoco.mj_forward(mjm, mjd)
    m = mjw.put_model(mjm)
    d = mjw.put_data(mjm, mjd, nworld=1)
    ctx.encode(getattr(mjw, fn_name))
    ctx.bound(model=f"{mname}/{vname}", nworld=1, nv=int(mjm.nv), njmax=int(d.njmax), naconmax=int(d.naconmax))
    sizes = {}

    # pass 1: the same call on fully concrete data with write tracking -> which cells does this call (re)compute at all?
    # Cells it never writes (poses of static geoms, sleep defaults when sleeping is off, ...) are constants of the Data
    # object fixed at make_data/put_data time, not leftovers of earlier steps.
    from mujoco_warp._src import solver as solver_mod

    real_solve = solver_mod.solve
    make_real = lambda: mjw.put_data(mjm, mjd, nworld=1)
    cur = {}

    def solve_stub(m_, d_):
      # the constraint solver (Newton/CG iterations, tile Cholesky, line search) is outside the modelled subset: it is
      # executed by the real implementation on real Data filled from the cells (two stale fills, see real_host_call)
      nt = real_host_call(real_solve, m, cur["arrs"], make_real, log=ctx.notes.append if cur.get("log") else None)
      cur["taint"] = cur.get("taint", 0) + nt

    d1 = host.shim_dataclass(d, "d.", symbolic=lambda n: False)
    arrs1 = host.arrays_of(d1)
    for n_, a in arrs1.items():
      c_ = a.ref.cell
      c_.wmask = [False] * c_.size
      if n_.split(".")[0] not in STATE and n_.split(".")[0] not in STICKY and c_.dtype == "real":
        # sentinel pre-content so that every cell the call recomputes is recognised as written
        c_.d = [[7.7] * c_.size for _ in range(c_.ncomp)]
        c_.d0 = [list(x) for x in c_.d]
    cur["arrs"] = arrs1
    solver_mod.solve = solve_stub
    try:
      with FallbackRun(mode="exec", max_threads=200000) as hr1:
        getattr(mjw, fn_name)(m, d1)
    finally:
      solver_mod.solve = real_solve
    wmasks = {n: list(a.ref.cell.wmask) for n, a in arrs1.items()}
    if os.environ.get("C12_WM"):
      print("WMASK", {n: w for n, w in wmasks.items() if n in ("geom_xpos", "xpos", "nacon")}, flush=True)
    d2 = host.shim_dataclass(d, "d.", symbolic=lambda n: False)
    arrs = host.arrays_of(d2)
    nstale = 0
    for n, a in arrs.items():
      if n.split(".")[0] in STATE or n.split(".")[0] in STICKY:
        continue
      if (only_stale is None and n in KNOWN_LAGGED) or (only_stale is not None and n not in only_stale):
        continue
      c = a.ref.cell
      wm = wmasks.get(n)
      if not wm:
        continue
      # capacity-dimensioned buffers (constraint rows, contacts): every slot may hold leftovers of an earlier, larger step,
      # also slots this particular call does not write; per-body/geom arrays: only the cells the call recomputes
      whole = n.startswith("efc.") or n.startswith("contact.")
      for f in range(c.size):
        if wm[f] or whole:
          for k in range(c.ncomp):
            c.d[k][f] = z3.Const(f"stale:{n}{list(c.unflat(f))}" + (f"#{k}" if c.ncomp > 1 else ""), c.sort)
            nstale += 1
      c.d0 = [list(x) for x in c.d]
    ctx.notes.append(f"{nstale} stale (symbolic) scalars = every non-state cell this call writes")
    # counters that kernels compare with capacities: keep them arbitrary but non-negative
    pre = []
    for n in ("nacon", "ncollision", "nefc", "ne", "nf", "nl"):
      if n in arrs:
        for x in arrs[n].ref.cell.d0[0]:
          if is_sym(x):
            pre.append(x >= 0)
    ctx.assume("integration state (time,qpos,qvel,act,history,warmstart,ctrl,applied forces,eq_active,mocap,userdata) concrete; every other Data array arbitrary (stale) — counters >= 0", "sleep disabled (property)")
    cur["arrs"] = arrs
    cur["log"] = True
    cur["taint"] = 0
    solver_mod.solve = solve_stub
    try:
      with FallbackRun(mode="exec", interp_kw={"float_uf": False}, max_threads=200000) as hr:
        getattr(mjw, fn_name)(m, d2)
    except core.Unsupported as ex:
      solver_mod.solve = real_solve
      if "holds stale (symbolic) contents" in str(ex):
        # a kernel outside the modelled subset consumes stale data: report through the solver-free path as inconclusive
        ctx.error(f"{fn_name} on {mname}/{vname}: {ex}")
        return
      raise
    solver_mod.solve = real_solve
    for e in hr.events:
      if e.kind == "launch" and e.kernel is not None:
        ctx.encode(e.kernel)
    ctx.notes.append(f"{len([e for e in hr.events if e.kind == 'launch'])} launches, {hr.nthreads} threads interpreted, {len(hr.fallbacks)} launches executed by the real compiled kernel (inputs stale-free): {sorted(set(hr.fallbacks))[:12]}")
    post = {n: a.ref.cell for n, a in arrs.items()}
    bg = pre + [core.zbool(a) for a in hr.assumes]
    sess = ctx.session(bg, timeout_ms=15000 if ctx.tier == "quick" else 90000)
    ctx.reach(sess, "twin:pre-state", True)
    # all stale symbols -> primed copies
    allsyms = {}
    for n, a in arrs.items():
      c = a.ref.cell
      for k in range(c.ncomp):
        for x in c.d0[k]:
          if is_sym(x):
            allsyms[x.decl().name()] = x
    ntriv = nq = 0
    for n, a in arrs.items():
      c = a.ref.cell
      if c.size == 0:
        continue
      base = n.split(".")[0]
      if base in STATE and fn_name == "forward":
        # forward() must not change the integration state at all
        for k in range(c.ncomp):
          for f in range(c.size):
            if c.d[k][f] is not c.d0[k][f] and not (not is_sym(c.d[k][f]) and not is_sym(c.d0[k][f]) and c.d[k][f] == c.d0[k][f]):
              ctx.prove(sess, f"state-unchanged/{n}{list(c.unflat(f))}", cmp("==", c.d[k][f], c.d0[k][f]), True, replay=lambda m_: (True, "forward() wrote an integration-state field (see C37)"), desc=f"forward() changes integration-state field {n}")
        continue
      dep_cells = []
      for k in range(c.ncomp):
        for f in range(c.size):
          t = c.d[k][f]
          if not is_sym(t):
            ntriv += 1
            continue
          if t is c.d0[k][f]:
            continue  # never written: not a result of this call
          syms = stale_symbols(t, {})
          syms = {s: v for s, v in syms.items() if s in allsyms or s.startswith("stale:") or s.startswith("uninit!")}
          if not syms:
            ntriv += 1
            continue
          dep_cells.append((k, f, t, syms))
      if not dep_cells:
        res = kh.QResult(f"independent/{n}", "unsat", 0.0)
        res.trivial = True
        ctx._rec(res)
        continue
      # one query per array: some valid cell differs between the two stale contents
      goals = []
      for k, f, t, syms in dep_cells:
        sub = [(v, z3.Const(s + "'", v.sort())) for s, v in syms.items()]
        t2 = z3.substitute(t, *sub)
        g = validity_guard(n, c.unflat(f), post)
        eq = t == t2
        if g is not None and g is not True:
          if g is False:
            continue
          gz = core.zbool(g)
          # guard must hold in both histories for the cell to be observable in both
          g2 = z3.substitute(gz, *[(v, z3.Const(s + "'", v.sort())) for s, v in stale_symbols(gz, {}).items() if s in allsyms or s.startswith("stale:") or s.startswith("uninit!")])
          eq = z3.Implies(z3.And(gz, g2), eq)
        goals.append((f, k, eq, syms))
      if not goals:
        continue
      nq += 1
      if os.environ.get("C12_SHOW"):
        for f, k, eq, syms in goals[:40]:
          print(f"[dep] {n}{list(c.unflat(f))}#{k} mentions {sorted(syms)[:6]} term={str(c.d[k][f])[:300]}", flush=True)
      big = z3.And(*[g[2] for g in goals])
      names = {}
      res = ctx.prove(
        sess, f"independent/{n}", big, True, names=names,
        replay=make_replay(ctx, mname, vname, fn_name, n, arrs, allsyms, goals),
        desc=f"{fn_name}(): result array {n} depends on stale (non-state) Data contents left by earlier calls",
      )
    ctx.notes.append(f"{ntriv} result cells syntactically stale-free, {nq} arrays needed the solver")

  return ((f"stage-order/{mname}/{vname}" if only_stale else f"{fn_name}/{mname}/{vname}"), run)


def make_replay(ctx, mname, vname, fn_name, arrname, arrs, allsyms, goals):
  def _rp(model):
    """two real Data objects with the same state, stale contents from the model (unprimed / primed), real call, compare"""
    import mujoco

    import mujoco_warp as mjw

    var = {v[0]: v for v in harvest.VARIANTS}[vname]
    xml = harvest.CORPUS[mname].format(opt=var[1], flag=var[2])
    attempts = [("model", None), ("fill", (0, 1)), ("fill", (0, 2))]
    last = None
    for mode, fl in attempts:
      ok, path = _attempt(model, mode, fl)
      last = (ok, path)
      if ok:
        return ok, path
    return last

  def _attempt(model, mode, fl):
    import mujoco

    import mujoco_warp as mjw

    var = {v[0]: v for v in harvest.VARIANTS}[vname]
    xml = harvest.CORPUS[mname].format(opt=var[1], flag=var[2])
    outs = []
    for primed in (False, True):
      mjm = mujoco.MjModel.from_xml_string(xml)
      mjd = mujoco.MjData(mjm)
      if mjm.nkey:
        mujoco.mj_resetDataKeyframe(mjm, mjd, 0)
      mjd.qvel[:] = 0.05
      mjd.ctrl[:] = 0.1
      mujoco.mj_forward(mjm, mjd)
      m = mjw.put_model(mjm)
      d = mjw.put_data(mjm, mjd, nworld=1)
      for n, sa in arrs.items():
        base = n.split(".")[0]
        if base in STATE:
          continue
        c = sa.ref.cell
        if c.size == 0:
          continue
        obj, attr = d, n
        if n.startswith("contact."):
          obj, attr = d.contact, n[len("contact.") :]
        elif n.startswith("efc."):
          obj, attr = d.efc, n[len("efc.") :]
        elif "." in n:
          continue
        real = getattr(obj, attr)
        cur = real.numpy().reshape(c.size, c.ncomp).astype(np.float64)
        for k in range(c.ncomp):
          for f in range(c.size):
            x = c.d0[k][f]
            if is_sym(x):
              if mode == "fill":
                cur[f, k] = float(_fillval(FILLS[fl[1] if primed else fl[0]], c.dtype))
                continue
              xx = z3.Const(x.decl().name() + "'", x.sort()) if primed else x
              v = model.eval(xx, model_completion=False)
              if z3.is_int_value(v) or z3.is_rational_value(v) or z3.is_true(v) or z3.is_false(v) or z3.is_algebraic_value(v):
                cur[f, k] = float(np.clip(kh.mval(model, xx), -1e6, 1e6))
        real.assign(cur.reshape(real.numpy().shape).astype(real.numpy().dtype))
      getattr(mjw, fn_name)(m, d)
      obj, attr = d, arrname
      if arrname.startswith("contact."):
        obj, attr = d.contact, arrname[len("contact.") :]
      elif arrname.startswith("efc."):
        obj, attr = d.efc, arrname[len("efc.") :]
      outs.append((getattr(obj, attr).numpy().copy(), int(d.nefc.numpy()[0]), int(d.nacon.numpy()[0])))
    a, b = outs[0][0], outs[1][0]
    # compare only observable cells
    if arrname.startswith("efc.") and a.ndim >= 2:
      n = min(outs[0][1], outs[1][1], a.shape[1])
      a, b = a[:, :n], b[:, :n]
    if arrname.startswith("contact."):
      n = min(outs[0][2], outs[1][2], a.shape[0])
      a, b = a[:n], b[:n]
    same = np.array_equal(a, b, equal_nan=True) if a.dtype.kind == "f" else np.array_equal(a, b)  # bit-identical (property)
    os.makedirs(os.path.join(report.VERIF, "replays", PID), exist_ok=True)
    path = os.path.join(report.VERIF, "replays", PID, f"{fn_name}.{mname}.{vname}.{arrname}.json".replace("/", "_"))
    with open(path, "w") as f:
      json.dump({"property": PID, "how": f"two Data objects from put_data with identical integration state; non-state arrays filled with two different stale contents (solver model); {fn_name}(m, d) on both; compare {arrname}", "model": f"{mname}/{vname}", "array": arrname, "first": a.tolist(), "second": b.tolist()}, f)
    return (not same), path

  return _rp


def main(tier, seed, only=None):
  units = []
  variants = ["dense-newton-pyr", "sparse-newton-ell", "sparse-cg-pyr", "dense-cg-ell-implicit"]
  models = ["arm", "weld"]
  if tier == "quick":
    combos = [("arm", "dense-newton-pyr"), ("arm", "sparse-cg-pyr"), ("weld", "sparse-newton-ell"), ("weld", "dense-cg-ell-implicit")]
  else:
    combos = list(itertools.product(models, variants))
  for mn, vn in combos:
    units.append(unit_forward(mn, vn, "forward"))
  units.append(unit_forward("weld", "sparse-newton-ell", "forward", only_stale=KNOWN_LAGGED))
  # dense Newton Hessian assembly (tile kernels, executed above by the real implementation under three stale fills): the
  # same claim decided symbolically -- ctx.h is independent of every efc row >= nefc (stale D / J / state) -- with the
  # block-collective tile interpreter (units shared with C06)
  from checks import c06

  units += [("hessian/leaves", c06.unit_hessian_leaves), c06.unit_hessian(2, 2, 4, False), c06.unit_hessian(2, 2, 4, True)]
  if tier == "thorough":
    units += [c06.unit_hessian(3, 4, 6, False, nC=4), c06.unit_hessian(2, 16, 3, False)]
  if only:
    units = [u for u in units if any(o in u[0] for o in only)]
  return report.run_check(PID, units, tier, seed, unit_timeout=600 if tier == "quick" else 1800)
