"""C15 State get/set is MuJoCo-compatible and lossless.

Solver queries over the REAL get_state / set_state (mujoco_warp/_src/support.py); the 14-bit signature `sig`, the active
mask and every array content are symbolic in every query (the kernels take `sig` as an int argument).

 H/get, H/set       the real host function is run natively on a tiny model (every state component present, nq != nv,
                    na > nu, nhistory > 0), nworld = 2 (3 thorough), all Data arrays / the state buffer / the mask symbolic; the
                    launch's `sig` argument is replaced by a symbolic Int.  get: state[w, c] == reference mj_getState
                    concatenation for c < size(sig), untouched for c >= size(sig) or inactive worlds, Data untouched.
                    set: every selected component of an active world == the reference slice (eq_active: != 0), everything
                    else (unselected components, inactive worlds, all other Data arrays, the buffer) untouched.
 H/set-get, H/get-set   composition of the two real functions: get(set(x)) == x on [0, size(sig)); set(d', get(d)) makes the
                    selected components of d' equal to d's.
 K/get, K/set       one generic thread of the captured kernels, model sizes symbolic (<= unroll bound), nworld and tid symbolic,
                    state.shape[1] == size(sig) EXACTLY: every access in bounds, layout, nothing else written, an inactive
                    world is neither read nor written, every access uses the thread's world id.
 signature          native calls: sig < 0 and sig >= 2^NSTATE raise ValueError (mujoco raises too), 0 and 2^NSTATE-1 accepted;
                    the host passes sig unchanged to the kernel (trace of the real launch, enumerated signatures).
 reference          the reference layout is compared with mujoco.mj_stateSize / mj_getState / mj_setState for all 2^14 signatures.
"""

import json
import os

import numpy as np
import warp as wp
import z3

from checks import lib
from wsym import core, host, kh, report
from wsym.core import And, Implies, Not, Or, arith, cmp, is_sym, ite

PID = "C15"

# mjtState, in bit order (MuJoCo documentation of mjtState / mj_getState): (name, Data field, Model size, scalars per element)
COMPS = [
  ("TIME", "time", None, 1),
  ("QPOS", "qpos", "nq", 1),
  ("QVEL", "qvel", "nv", 1),
  ("ACT", "act", "na", 1),
  ("HISTORY", "history", "nhistory", 1),
  ("WARMSTART", "qacc_warmstart", "nv", 1),
  ("CTRL", "ctrl", "nu", 1),
  ("QFRC_APPLIED", "qfrc_applied", "nv", 1),
  ("XFRC_APPLIED", "xfrc_applied", "nbody", 6),
  ("EQ_ACTIVE", "eq_active", "neq", 1),
  ("MOCAP_POS", "mocap_pos", "nmocap", 3),
  ("MOCAP_QUAT", "mocap_quat", "nmocap", 4),
  ("USERDATA", "userdata", "nuserdata", 1),
  ("PLUGIN", None, "npluginstate", 1),
]
NBITS = len(COMPS)
SIZES = ["nq", "nv", "nu", "na", "nbody", "neq", "nmocap", "nuserdata", "nhistory"]

MODELS = {
  # nq=4 nv=3 nu=1 na=2 nbody=3 neq=2 nmocap=1 nuserdata=3 nhistory=6
  "ball": """<mujoco><size nuserdata="3"/><worldbody>
<body name="b" pos="0 0 1"><joint name="j" type="ball"/><geom size=".1"/></body>
<body name="mc" pos="1 0 0" mocap="true"><geom size=".05" contype="0" conaffinity="0"/></body></worldbody>
<equality><weld body1="b" body2="mc"/><connect body1="b" body2="mc" anchor="0 0 0"/></equality>
<actuator><general joint="j" gear="1 0 0" dyntype="user" actdim="2" delay="0.004" nsample="2"/></actuator>
</mujoco>""",
  # nq=8 nv=7 nu=2 na=1 nbody=4 neq=1 nmocap=2 nuserdata=1 nhistory=0
  "free": """<mujoco><size nuserdata="1"/><worldbody>
<body name="b" pos="0 0 1"><freejoint/><geom size=".1"/><body pos="0 0 .3"><joint name="j"/><geom size=".1"/></body></body>
<body name="m1" pos="1 0 0" mocap="true"><geom size=".05" contype="0" conaffinity="0"/></body>
<body name="m2" pos="2 0 0" mocap="true"><geom size=".05" contype="0" conaffinity="0"/></body></worldbody>
<equality><weld body1="b" body2="m1"/></equality>
<actuator><motor joint="j"/><general joint="j" dyntype="integrator"/></actuator>
</mujoco>""",
}


# ------------------------------------------------------------------------------------------------ reference model


def bitof(sig, i):
  """bit i of a non-negative signature (python int or z3 Int)"""
  if is_sym(sig):
    return (sig / (1 << i)) % 2 == 1
  return bool((int(sig) >> i) & 1)


def ref_layout(sig, counts):
  """mj_getState concatenation: component i (if selected) starts where the selected lower components end.
  counts[i] = number of scalars of component i.  -> (offsets, total) ; polymorphic."""
  off, a = [], 0
  for i in range(NBITS):
    off.append(a)
    a = arith("+", a, ite(bitof(sig, i), counts[i], 0))
  return off, a


def comp_counts(sizes):
  """scalars per component from the Model sizes (dict name -> python int / z3 Int)"""
  out = []
  for name, field, sz, wd in COMPS:
    n = 1 if sz is None else sizes.get(sz, 0)
    out.append(arith("*", n, wd) if wd != 1 else n)
  return out


def model_sizes(mjm):
  s = {k: int(getattr(mjm, k)) for k in SIZES}
  s["npluginstate"] = int(mjm.npluginstate)
  return s


def ref_state_at(sig, sizes, off, getfield, col):
  """value the reference concatenation holds at column `col` (caller guarantees col < total); getfield(i, e, k)."""
  items = []
  for i, (name, field, sz, wd) in enumerate(COMPS):
    if field is None:
      continue
    n = 1 if sz is None else sizes[sz]
    for e in range(n):
      for k in range(wd):
        items.append((And(bitof(sig, i), cmp("==", arith("+", off[i], e * wd + k), col)), getfield(i, e, k)))
  r = items[-1][1]
  for g, v in reversed(items[:-1]):
    r = ite(g, v, r)
  return r


MJ_FIELDS = [c[1] for c in COMPS if c[1]]
_MJD = {}


def mj_world(mjm, fields):
  """MjData holding one world's state fields (dict field -> numpy)"""
  import mujoco

  d = _MJD.get(id(mjm))
  if d is None:
    d = _MJD[id(mjm)] = mujoco.MjData(mjm)
  for f in MJ_FIELDS:
    v = np.asarray(fields[f], dtype=np.float64)
    if f == "time":
      d.time = float(v.reshape(-1)[0])
    elif f == "eq_active":
      d.eq_active[:] = np.asarray(fields[f]).reshape(-1) != 0
    else:
      getattr(d, f)[...] = v.reshape(getattr(d, f).shape)
  return d


def mj_fields(d):
  out = {}
  for f in MJ_FIELDS:
    out[f] = np.array([d.time]) if f == "time" else np.array(getattr(d, f), dtype=np.float64).copy()
  return out


def oracle_get(mjm, fields, sig):
  import mujoco

  row = np.zeros(mujoco.mj_stateSize(mjm, sig))
  mujoco.mj_getState(mjm, mj_world(mjm, fields), row, sig)
  return row


def oracle_set(mjm, fields, row, sig):
  import mujoco

  d = mj_world(mjm, fields)
  n = mujoco.mj_stateSize(mjm, sig)
  mujoco.mj_setState(mjm, d, np.asarray(row[:n], dtype=np.float64), sig)
  return mj_fields(d)


def ref_get_numeric(sig, sizes, fields):
  counts = comp_counts(sizes)
  off, tot = ref_layout(sig, counts)
  row = np.zeros(tot)
  for i, (name, field, sz, wd) in enumerate(COMPS):
    if field and bitof(sig, i):
      v = np.asarray(fields[field], dtype=np.float64).reshape(-1)
      row[off[i] : off[i] + counts[i]] = v
  return row


def ref_set_numeric(sig, sizes, fields, row):
  counts = comp_counts(sizes)
  off, tot = ref_layout(sig, counts)
  out = {f: np.asarray(v, dtype=np.float64).copy() for f, v in fields.items()}
  for i, (name, field, sz, wd) in enumerate(COMPS):
    if field and bitof(sig, i):
      v = np.asarray(row[off[i] : off[i] + counts[i]], dtype=np.float64)
      if field == "eq_active":
        v = (v != 0).astype(np.float64)
      out[field] = v.reshape(out[field].shape)
  return out


def random_fields(mjm, rng):
  import mujoco

  d = mujoco.MjData(mjm)
  out = {}
  for f in MJ_FIELDS:
    shp = (1,) if f == "time" else getattr(d, f).shape
    out[f] = rng.integers(0, 2, size=shp).astype(np.float64) if f == "eq_active" else rng.uniform(-2, 2, size=shp)
  return out


def unit_reference(ctx):
  """harness validation: the reference layout against the mujoco library (all signatures)"""
  import mujoco

  rng = np.random.default_rng(ctx.seed + 15)
  for i, (name, field, sz, wd) in enumerate(COMPS):
    if int(getattr(mujoco.mjtState, "mjSTATE_" + name)) != 1 << i:
      ctx.error(f"reference component table: bit {i} is not mjSTATE_{name}")
  if int(mujoco.mjtState.mjNSTATE) != NBITS:
    ctx.error(f"mjNSTATE = {int(mujoco.mjtState.mjNSTATE)} but the reference table has {NBITS} components")
  from mujoco_warp._src import types

  if int(types.State.NSTATE) != NBITS:
    ctx.error("types.State.NSTATE differs from mjNSTATE")
  nbad = 0
  for mname, xml in MODELS.items():
    mjm = mujoco.MjModel.from_xml_string(xml)
    sizes = model_sizes(mjm)
    counts = comp_counts(sizes)
    for sig in range(1 << NBITS):
      off, tot = ref_layout(sig, counts)
      if tot != mujoco.mj_stateSize(mjm, sig):
        nbad += 1
        continue
      if sig % 7 and ctx.tier == "quick" and sig not in (1 << NBITS) - 1 - np.arange(3):
        continue
      f = random_fields(mjm, rng)
      if not np.array_equal(ref_get_numeric(sig, sizes, f), oracle_get(mjm, f, sig)):
        nbad += 1
      row = rng.uniform(-2, 2, size=tot)
      row[rng.integers(0, 2, size=tot) == 0] = 0.0
      a, b = ref_set_numeric(sig, sizes, f, row), oracle_set(mjm, f, row, sig)
      if any(not np.array_equal(a[k].reshape(-1), b[k].reshape(-1)) for k in a):
        nbad += 1
    # the cell-wise symbolic reference, evaluated on numbers
    for sig in [1 << i for i in range(NBITS)] + [int(x) for x in rng.integers(0, 1 << NBITS, size=40)] + [(1 << NBITS) - 1]:
      f = random_fields(mjm, rng)
      off, tot = ref_layout(sig, counts)
      exp = oracle_get(mjm, f, sig)
      get = lambda i, e, k: float(np.asarray(f[COMPS[i][1]]).reshape(-1)[e * COMPS[i][3] + k])
      for col in range(tot):
        if ref_state_at(sig, sizes, off, get, col) != exp[col]:
          nbad += 1
  ctx.bound(signatures=1 << NBITS, models=",".join(MODELS))
  ctx.notes.append("reference layout == mj_stateSize for all signatures, == mj_getState / mj_setState on random states")
  if nbad:
    ctx.error(f"reference model disagrees with the mujoco library in {nbad} cases (harness error)")
  # counted as one trivially true query so that the unit shows up in the evidence
  sess = ctx.session([])
  ctx.reach(sess, "twin:reference-validated", nbad == 0)


# ------------------------------------------------------------------------------------------------ engine work-around

_PATCHED = [False]


def patch_dead_locals():
  """Local refinement of Interp.assign_name (engine file untouched).  After `if not active: return` every later assignment
  is guarded by Not(ret_guard); the engine merges `x = v` with the stale value on the returned path, which turns concrete
  loop-carried locals (`element = 1 << i`, `adr`) into ite terms and `element & sig_in` into bit-vector terms.  Locals of a
  frame that has returned are dead (nothing reads them: the return value is kept separately), so the conjuncts of
  Not(ret_guard) are dropped from the guard of assignments to local NAMES only (stores to arrays keep the full guard)."""
  if _PATCHED[0]:
    return
  _PATCHED[0] = True
  orig = core.Interp.assign_name

  def conj(x):
    return list(x.children()) if is_sym(x) and z3.is_and(x) else [x]

  def assign_name(self, fr, name, val, g):
    if g is not True and g is not False and name in fr.env and fr.ret_guard is not False and fr.ret_guard is not True:
      nr = Not(fr.ret_guard)
      drop = conj(nr) if is_sym(nr) else []
      keep = [c for c in conj(g) if not any(c.eq(d) for d in drop)]
      g = And(*keep) if keep else True
    return orig(self, fr, name, val, g)

  core.Interp.assign_name = assign_name


# ------------------------------------------------------------------------------------------------ H mode


def build(mname, nworld):
  import mujoco

  import mujoco_warp as mjw

  mjm = mujoco.MjModel.from_xml_string(MODELS[mname])
  m = mjw.put_model(mjm)
  d = mjw.make_data(mjm, nworld=nworld, nconmax=1, njmax=8)
  return mjm, m, d


def as_real(cell, v):
  if cell.dtype == "bool":
    return z3.If(core.zbool(v), z3.RealVal(1), z3.RealVal(0))
  return v


def fflat(cell, w, e):
  return w if cell.ndim == 1 else w * cell.shape[1] + e


class HRun:
  """one native run of the real host function(s) with a symbolic signature"""

  def __init__(self, ctx, kind, mname, masked, nworld):
    from mujoco_warp._src import support

    patch_dead_locals()
    self.kind, self.mname, self.masked, self.nworld = kind, mname, masked, nworld
    self.mjm, self.m, d = build(mname, nworld)
    self.sizes = model_sizes(self.mjm)
    self.counts = comp_counts(self.sizes)
    self.W = sum(self.counts)
    self.sig = z3.Int("sig")
    self.off, self.total = ref_layout(self.sig, self.counts)
    self.d2 = host.shim_dataclass(d, "d.")
    self.arrs = host.arrays_of(self.d2)
    self.active = host.sym_array("active", (nworld,), wp.bool) if masked else None
    self.s_in = host.sym_array("state_in", (nworld, self.W), float)
    self.s_out = host.sym_array("state_out", (nworld, self.W), float)
    self.e2 = self.earrs = None
    seen = []

    def on_launch(hr, kernel, dim, args):
      labels = [a.label for a in kernel.adj.args]
      i = labels.index("sig_in")
      seen.append((kernel.key, int(args[i]), tuple(dim)))
      args[i] = self.sig

    ctx.encode(support.get_state, support.set_state)
    with host.HostRun(mode="exec", on_launch=on_launch) as hr:
      if kind == "get":
        support.get_state(self.m, self.d2, self.s_out, 5, self.active)
      elif kind == "set":
        support.set_state(self.m, self.d2, self.s_in, 5, self.active)
      elif kind == "set-get":
        support.set_state(self.m, self.d2, self.s_in, 5, self.active)
        support.get_state(self.m, self.d2, self.s_out, 5, self.active)
      elif kind == "get-set":
        self.e2 = host.shim_dataclass(d, "e.")
        self.earrs = host.arrays_of(self.e2)
        support.get_state(self.m, self.d2, self.s_out, 5, self.active)
        support.set_state(self.m, self.e2, self.s_out, 5, self.active)
    self.hr = hr
    for e in hr.events:
      if e.kind == "launch":
        ctx.encode(e.kernel)
    if any(s != 5 or dm != (nworld,) for _, s, dm in seen):
      ctx.error(f"host passed sig/dim {seen} for sig=5, nworld={nworld}")
    ctx.notes.append(f"{len(seen)} launches {[k for k, _, _ in seen]}, {hr.nthreads} threads interpreted; kernel argument sig_in replaced by a symbolic Int")
    ctx.bound(nworld=nworld, model=mname, state_width=self.W, **{k: v for k, v in self.sizes.items()})
    self.pre = [self.sig >= 0, self.sig < (1 << NBITS)] + [core.zbool(a) for a in hr.assumes]
    ctx.assume("0 <= sig < 2^NSTATE (other values are rejected by the host: unit signature)", "state buffer at least size(sig) wide (here: the full-signature width; exact width is decided in the K units)", "model without plugin state")

  def sel(self, w):
    return self.active.ref.cell.d0[0][w] if self.masked else True

  def names(self):
    n = {"sig": self.sig}
    if self.masked:
      for w in range(self.nworld):
        n[f"active{w}"] = self.sel(w)
    return n

  def data_field(self, arrs, i, w, e, k, post=False):
    cell = arrs[COMPS[i][1]].ref.cell
    src = cell.d if post else cell.d0
    return as_real(cell, src[k][fflat(cell, w, e)])

  def untouched(self, arrs, skip=()):
    """conjunction: every cell of every array (except `skip`) still holds its initial term"""
    terms = []
    for name, sa in arrs.items():
      if name in skip:
        continue
      c = sa.ref.cell
      for k in range(c.ncomp):
        for i in range(c.size):
          if c.d[k][i] is not c.d0[k][i]:
            terms.append(cmp("==", c.d[k][i], c.d0[k][i]) if c.dtype != "bool" else (core.zbool(c.d[k][i]) == core.zbool(c.d0[k][i])))
    return And(*terms)


def unit_h(kind, mname, masked, nworld):
  def run(ctx):
    H = HRun(ctx, kind, mname, masked, nworld)
    sig, off, total, W = H.sig, H.off, H.total, H.W
    pre = list(H.pre)
    so, si = H.s_out.ref.cell, H.s_in.ref.cell
    ieq = [c[0] for c in COMPS].index("EQ_ACTIVE")
    if kind == "set-get":
      # a state vector is a get_state output: its eq_active slots hold 0 or 1 (MuJoCo's own round trip maps any non-zero to 1)
      for w in range(nworld):
        for col in range(W):
          v = si.d0[0][w * W + col]
          ineq = And(bitof(sig, ieq), cmp(">=", col, off[ieq]), cmp("<", col, arith("+", off[ieq], H.counts[ieq])))
          pre.append(core.zbool(Implies(ineq, Or(v == 0, v == 1))))
      ctx.assume("set-get: the eq_active slots of the input vector hold 0.0 or 1.0 (as every get_state / mj_getState output does)")
    sess = ctx.session(pre, timeout_ms=max(ctx.timeout_ms, 90000))
    names = H.names()
    ctx.reach(sess, "twin:valid-signature", True)
    ctx.reach(sess, "twin:mixed", And(total > 0, total < W, *([H.sel(0), Not(H.sel(1))] if masked else [])))
    rp = lambda target: h_replayer(ctx, H, target)
    for key, tid, o in H.hr.obl:
      if kind in ("set-get", "get-set"):
        break  # the same launches (same symbolic arguments) have their index obligations decided in H/get and H/set
      if o.kind == "bounds":
        ctx.prove(sess, f"bounds/{key.split('_')[1] if '_' in key else key}@{o.where.split(':')[-1]}/w{tid[0]}/{o.info[1]}.{o.info[2]}", getattr(o, "strict", o.cond), o.guard, names=names, replay=rp(("bounds",)), desc=f"{kind}: {key} thread {tid} indexes {o.info[1]} out of range at {o.where}")
      else:
        ctx.prove(sess, f"unwind/{o.where}/w{tid[0]}", o.cond, o.guard, names=names, replay=rp(("bounds",)), desc="loop bound")
    if kind in ("get", "set-get"):
      for w in range(nworld):
        for col in range(W):
          post, pre_v = so.d[0][w * W + col], so.d0[0][w * W + col]
          if kind == "get":
            exp = ref_state_at(sig, H.sizes, off, lambda i, e, k: H.data_field(H.arrs, i, w, e, k), col)
            what = "differs from the mj_getState concatenation"
          else:
            exp = si.d0[0][w * W + col]
            what = "get_state(set_state(x)) differs from x"
          goal = ite(And(H.sel(w), cmp("<", col, total)), cmp("==", post, exp), cmp("==", post, pre_v))
          ctx.prove(sess, f"state[{w},{col}]", goal, True, names=names, replay=rp(("state", w, col)), desc=f"{kind}: state[{w},{col}] {what} (or is written although beyond size(sig) / world inactive)")
      if kind == "get":
        ctx.prove(sess, "data-untouched", H.untouched(H.arrs), True, names=names, replay=rp(("data",)), desc="get_state modifies Data")
      else:
        ctx.prove(sess, "input-untouched", H.untouched({"state_in": H.s_in}), True, names=names, replay=rp(("data",)), desc="set_state/get_state modify the input state vector")
    if kind in ("set", "get-set"):
      tgt = H.arrs if kind == "set" else H.earrs
      for i, (cname, field, sz, wd) in enumerate(COMPS):
        if field is None:
          continue
        cell = tgt[field].ref.cell
        n = 1 if sz is None else H.sizes[sz]
        for w in range(nworld):
          goals = []
          for e in range(n):
            for k in range(wd):
              fl = fflat(cell, w, e)
              post, pre_v = cell.d[k][fl], cell.d0[k][fl]
              if kind == "set":
                src = si.get((w, arith("+", off[i], e * wd + k)), 0, snap=si.d0)
                exp = cmp("!=", src, 0) if cell.dtype == "bool" else src
              else:
                exp = H.arrs[field].ref.cell.d0[k][fl]
              if cell.dtype == "bool":
                goals.append(ite(And(H.sel(w), bitof(sig, i)), core.zbool(post) == core.zbool(exp), core.zbool(post) == core.zbool(pre_v)))
              else:
                goals.append(ite(And(H.sel(w), bitof(sig, i)), cmp("==", post, exp), cmp("==", post, pre_v)))
          ctx.prove(sess, f"{field}[{w}]", And(*goals), True, names=names, replay=rp(("field", field, w)), desc=f"{kind}: {field} of world {w} is not (selected and active ? the {cname} slice of the state vector : unchanged)")
      skip = set(MJ_FIELDS)
      ctx.prove(sess, "other-data-untouched", And(H.untouched(tgt, skip), H.untouched({"s_in": H.s_in}) if kind == "set" else True, H.untouched(H.arrs) if kind == "get-set" else True), True, names=names, replay=rp(("data",)), desc=f"{kind}: an array other than the 13 state components is modified")

  return (f"H/{kind}/{mname}/{'masked' if masked else 'nomask'}", run)


def _cell_numpy(model, cell, shape_np, dtype_np, rng=None):
  a = np.zeros((cell.size, cell.ncomp), dtype=np.float64)
  for k in range(cell.ncomp):
    for i in range(cell.size):
      v = kh.mval(model, cell.d0[k][i])
      a[i, k] = float(v) if not isinstance(v, str) else 0.0
  a = np.clip(a, -1e6, 1e6)
  if rng is not None and cell.dtype == "real":
    a = rng.uniform(0.25, 2.0, size=a.shape) * rng.choice([-1.0, 1.0], size=a.shape)
  return a.reshape(shape_np).astype(dtype_np)


def forked(fn, what):
  """run a replay on real code in a forked child: a mutated/defective kernel writing out of bounds must not take the unit down"""

  def _rp(model):
    import multiprocessing as mp

    mpc = mp.get_context("fork")
    pc, cc = mpc.Pipe(duplex=False)

    def child():
      try:
        cc.send(fn(model))
      except Exception as ex:  # noqa
        cc.send(("error", f"{type(ex).__name__}: {ex}"))
      finally:
        cc.close()
        os._exit(0)

    p = mpc.Process(target=child)
    p.start()
    cc.close()
    res = None
    try:
      if pc.poll(900):
        res = pc.recv()
    except EOFError:
      res = None
    p.join(10)
    if p.is_alive():
      p.kill()
    if res is None:
      return True, f"{what}: the real call crashed the replay process (exit code {p.exitcode}) on the solver's input"
    if res[0] == "error":
      raise RuntimeError(res[1])
    return res

  return _rp


def h_replayer(ctx, H, target):
  """replay through the public API on real arrays; the oracle is the mujoco library (mj_getState / mj_setState per world)"""
  return forked(_h_replayer(ctx, H, target), f"H/{H.kind}")


def _h_replayer(ctx, H, target):
  def _rp(model):
    import mujoco

    from mujoco_warp._src import support

    sig = int(kh.mval(model, H.sig))
    mvals = [bool(kh.mval(model, H.sel(w))) for w in range(H.nworld)] if H.masked else None
    size = mujoco.mj_stateSize(H.mjm, sig)
    ieq = [c[0] for c in COMPS].index("EQ_ACTIVE")
    off_n, _ = ref_layout(sig, H.counts)
    res = None
    for trial in range(4):
      rng = np.random.default_rng(1000 + trial) if trial else None
      mjm, m, d = build(H.mname, H.nworld)
      e = None

      def fill(dd, arrs):
        pre = {}
        for f in MJ_FIELDS:
          real = getattr(dd, f)
          npa = _cell_numpy(model, arrs[f].ref.cell, real.numpy().shape, real.numpy().dtype, rng)
          real.assign(npa)
          pre[f] = real.numpy().copy()
        return pre

      pre_d = fill(d, H.arrs)
      if H.kind == "get-set":
        import mujoco_warp as mjw

        e = mjw.make_data(mjm, nworld=H.nworld, nconmax=1, njmax=8)
        pre_e = fill(e, H.earrs)
      sin = _cell_numpy(model, H.s_in.ref.cell, (H.nworld, H.W), np.float32, rng)
      sout = _cell_numpy(model, H.s_out.ref.cell, (H.nworld, H.W), np.float32, rng)
      if H.kind == "set-get" and rng is not None and bitof(sig, ieq):
        sl = slice(off_n[ieq], off_n[ieq] + H.counts[ieq])
        sin[:, sl] = rng.integers(0, 2, size=sin[:, sl].shape)
      a_in, a_out = wp.array(sin, dtype=float), wp.array(sout, dtype=float)
      act = wp.array(np.array(mvals), dtype=bool) if H.masked else None
      if H.kind == "get":
        support.get_state(m, d, a_out, sig, act)
      elif H.kind == "set":
        support.set_state(m, d, a_in, sig, act)
      elif H.kind == "set-get":
        support.set_state(m, d, a_in, sig, act)
        support.get_state(m, d, a_out, sig, act)
      else:
        support.get_state(m, d, a_out, sig, act)
        support.set_state(m, e, a_out, sig, act)
      post_d = {f: getattr(d, f).numpy().copy() for f in MJ_FIELDS}
      r_in, r_out = a_in.numpy(), a_out.numpy()
      bad = []
      on = lambda w: True if mvals is None else mvals[w]
      world = lambda pre, w: {f: pre[f][w] for f in MJ_FIELDS}

      def cmp_fields(post, exp_of_w, tag):
        for w in range(H.nworld):
          exp = exp_of_w(w)
          for f in MJ_FIELDS:
            a, b = np.asarray(post[f][w], dtype=np.float64).reshape(-1), np.asarray(exp[f], dtype=np.float64).reshape(-1)
            if not np.allclose(a, b, rtol=1e-6, atol=0):
              bad.append(f"{tag}{f}[{w}] = {a.tolist()} expected {b.tolist()}")

      if H.kind in ("get", "set-get"):
        for w in range(H.nworld):
          exp = sout[w].astype(np.float64).copy()
          if on(w):
            exp[:size] = oracle_get(mjm, world(pre_d, w), sig) if H.kind == "get" else sin[w, :size]
          if not np.allclose(r_out[w], exp, rtol=1e-6, atol=0):
            cols = [int(c) for c in np.nonzero(~np.isclose(r_out[w], exp, rtol=1e-6, atol=0))[0]]
            bad.append(f"state[{w}, {cols}] = {r_out[w][cols].tolist()} expected {exp[cols].tolist()}")
        if H.kind == "get":
          cmp_fields(post_d, lambda w: world(pre_d, w), "Data.")
        if not np.array_equal(r_in, sin):
          bad.append("input vector modified")
      if H.kind == "set":
        cmp_fields(post_d, lambda w: oracle_set(mjm, world(pre_d, w), sin[w], sig) if on(w) else world(pre_d, w), "Data.")
        if not np.array_equal(r_in, sin):
          bad.append("input vector modified")
      if H.kind == "get-set":
        post_e = {f: getattr(e, f).numpy().copy() for f in MJ_FIELDS}
        cmp_fields(post_e, lambda w: oracle_set(mjm, world(pre_e, w), oracle_get(mjm, world(pre_d, w), sig), sig) if on(w) else world(pre_e, w), "Data'.")
        cmp_fields(post_d, lambda w: world(pre_d, w), "Data.")
      res = {"sig": sig, "active": mvals, "trial": trial, "mismatches": bad[:8], "size": int(size)}
      if bad:
        res["pre"] = {f: pre_d[f].tolist() for f in MJ_FIELDS}
        res["state_in"], res["state_out_before"] = sin.tolist(), sout.tolist()
        break
    os.makedirs(os.path.join(report.VERIF, "replays", PID), exist_ok=True)
    path = os.path.join(report.VERIF, "replays", PID, f"H.{H.kind}.{H.mname}.{'masked' if H.masked else 'nomask'}.{'-'.join(str(t) for t in target)}.json")
    with open(path, "w") as f:
      json.dump({"property": PID, "kind": H.kind, "model_xml": MODELS[H.mname], "nworld": H.nworld, "target": list(target), "result": res, "how": "make_data(nworld, nconmax=1, njmax=8); assign 'pre' to the 13 state fields; call mujoco_warp get_state/set_state(m, d, state, sig, active) and compare with mujoco.mj_getState/mj_setState per world"}, f)
    return bool(res["mismatches"]), path

  return _rp


# ------------------------------------------------------------------------------------------------ K mode

_KCACHE = {}


def capture_kernel(key):
  """'get_state/masked' -> the kernel object the real host function launches (closure-defined, captured from a trace run)"""
  if key in _KCACHE:
    return _KCACHE[key]
  import mujoco

  import mujoco_warp as mjw
  from mujoco_warp._src import support

  which, masked = key.split("/")
  mjm = mujoco.MjModel.from_xml_string("<mujoco><worldbody><body><joint/><geom size='.1'/></body></worldbody></mujoco>")
  m = mjw.put_model(mjm)
  d = mjw.make_data(mjm, nworld=1)
  st = wp.zeros((1, mujoco.mj_stateSize(mjm, 1)), dtype=float)
  act = wp.ones(1, dtype=bool) if masked == "masked" else None
  with host.HostRun(mode="trace") as hr:
    getattr(support, which)(m, d, st, 1, act)
  k = [e for e in hr.events if e.kind == "launch"][0].kernel
  _KCACHE[key] = k
  return k


def k_labels(which):
  suf = "_in" if which == "get_state" else "_out"
  return [(c[1] + suf) if c[1] else None for c in COMPS], ("state_out" if which == "get_state" else "state_in")


def _k_expected(spec, pre):
  """numeric expectation for the single replayed thread"""
  a = spec["args"]
  which = spec["env"]["which"]
  sizes = {k: int(a[k]["scalar"]) for k in SIZES}
  sizes["npluginstate"] = 0
  sig = int(a["sig_in"]["scalar"])
  w = int(spec["tid"][0])
  labels, st = k_labels(which)
  on = bool(pre["active_in"][w]) if spec["env"]["masked"] else True
  exp = {k: v.copy() for k, v in pre.items()}
  if on:
    fields = {COMPS[i][1]: pre[labels[i]][w] for i in range(NBITS) if labels[i]}
    if which == "get_state":
      row = ref_get_numeric(sig, sizes, fields)
      exp[st][w, : len(row)] = row
    else:
      new = ref_set_numeric(sig, sizes, fields, pre[st][w].astype(np.float64))
      for i in range(NBITS):
        if labels[i]:
          exp[labels[i]][w] = new[COMPS[i][1]].reshape(exp[labels[i]][w].shape)
  return exp


def goal_k(spec, pre, post):
  exp = _k_expected(spec, pre)
  bad = []
  for k in exp:
    if not np.allclose(np.asarray(post[k], dtype=np.float64), np.asarray(exp[k], dtype=np.float64), rtol=1e-6, atol=0):
      bad.append(f"{k}: {np.asarray(post[k]).tolist()} expected {np.asarray(exp[k]).tolist()}")
  return (not bad), "; ".join(bad)[:1500] or "all arrays as the reference predicts"


def unit_k(which, masked, U):
  def run(ctx):
    patch_dead_locals()
    key = f"{which}/{'masked' if masked else 'nomask'}"
    k = capture_kernel(key)
    loc = f"capture:checks.c15:capture_kernel:{key}"
    ctx.encode(k)
    sz = {n: z3.Int(n) for n in SIZES}
    sz0 = dict(sz, npluginstate=0)
    sig, nworld, Wd = z3.Int("sig"), z3.Int("nworld"), z3.Int("W")
    labels, st = k_labels(which)
    shapes = {"active_in": [nworld], st: [nworld, Wd]}
    for i, (cname, field, s, wd) in enumerate(COMPS):
      if labels[i]:
        shapes[labels[i]] = [nworld] if s is None else [nworld, sz[s]]
    kt = lib.kernel_thread(k, shapes=shapes, scalars=dict(sz, sig_in=sig), unroll=U, alias_inout=False, assume_bounds=False, cap=64)
    w = kt.tid
    counts = comp_counts(sz0)
    off, tot = ref_layout(sig, counts)
    ctx.bound(unroll=U, sizes_max=U, state_width_max=64, note=f"every model size in [0,{U}] (nbody >= 1), loops unwound {U} times, nworld and thread id symbolic (<= 64)")
    ctx.assume("0 <= sig < 2^NSTATE", "Data arrays have their documented shapes (nworld, size)", "state.shape == (nworld, size(sig)) exactly", "0 <= tid < nworld (launch dim = nworld)", "active.shape == (nworld,)")
    bg = kt.bg + [sig >= 0, sig < (1 << NBITS), nworld >= 1, w < nworld, Wd == tot, Wd <= 64, sz["nbody"] >= 1] + [z3.And(v >= 0, v <= U) for v in sz.values()]
    sess = ctx.session(bg, timeout_ms=max(ctx.timeout_ms, 90000))
    act = kt.pre("active_in", w) if masked else True
    names = dict({"sig": sig, "tid": w, "nworld": nworld, "W": Wd}, **sz)
    if masked:
      names["active"] = act
    env = {"which": which, "masked": masked, "randomize_floats": 2}  # a store to the wrong column is invisible when the solver picks equal contents
    ctx.reach(sess, "twin:reachable", And(act, tot > 0))
    ctx.reach(sess, "twin:all-components", And(act, sig == (1 << NBITS) - 1, *[v >= min(U, 2) for v in sz.values()]))
    rpb = lib.make_replay(ctx, kt, loc, "bounds", "bounds", env=env)
    rpg = lambda nm: lib.make_replay(ctx, kt, loc, nm, "goal", goal="checks.c15:goal_k", env=env)
    for n_, o in enumerate(kt.it.obl):
      if o.kind == "bounds":
        ctx.prove(sess, f"bounds/{o.info[1]}.{o.info[2]}@{o.where.split(':')[-1]}#{n_}", o.strict, o.guard, names=names, replay=rpb, desc=f"{key}: access to {o.info[1]} (dim {o.info[2]}) out of range at {o.where} although state.shape[1] == size(sig)")
    acell = kt.cell("active_in")
    for n_, a in enumerate(kt.it.accesses):
      if a.cell is acell and masked:
        ctx.prove(sess, f"world-index/active@{a.where.split(':')[-1]}#{n_}", cmp("==", a.idx[0], w), a.guard, names=names, replay=rpg("world-index"), desc=f"{key}: mask read for another world")
        continue
      ctx.prove(sess, f"world-index/{a.cell.name}@{a.where.split(':')[-1]}#{n_}", cmp("==", a.idx[0], w), a.guard, names=names, replay=rpg("world-index"), desc=f"{key}: {a.kind} access to {a.cell.name} of another world at {a.where}")
      if masked:
        ctx.prove(sess, f"inactive-no-access/{a.cell.name}@{a.where.split(':')[-1]}#{n_}", Not(a.guard), Not(act), names=names, replay=rpg("inactive"), desc=f"{key}: inactive world {a.kind}-accesses {a.cell.name} at {a.where}")
    j, w2, c2 = z3.Int("j"), z3.Int("w2"), z3.Int("c2")
    names2 = dict(names, j=j, w2=w2, c2=c2)
    if which == "get_state":
      # reference items in concatenation order: (present, column, value); sizes <= U so U elements per component suffice
      items = []
      for i, (cname, field, s, wd) in enumerate(COMPS):
        if not labels[i]:
          continue
        n = 1 if s is None else sz[s]
        cell = kt.cell(labels[i])
        for e in range(1 if s is None else U):
          for kk in range(wd):
            didx = (w,) if s is None else (w, e)
            items.append((cname, e, kk, And(bitof(sig, i), cmp("<", e, n)), arith("+", off[i], e * wd + kk), as_real(cell, kt.pre(labels[i], *didx, k=kk))))
      scell = kt.cell(st)
      sites = [a for a in kt.it.accesses if a.cell is scell and a.kind == "W"]
      # helper facts about the reference offsets (consequences of their definition; stated to spare the solver the case splits)
      Oc = list(off) + [tot]
      facts = [core.zbool(cmp(">=", Oc[t + 1], Oc[t])) for t in range(NBITS)]
      for t in range(NBITS):
        facts.append(z3.If(bitof(sig, t), core.zbool(cmp("==", Oc[t + 1], arith("+", Oc[t], counts[t]))), core.zbool(cmp("==", Oc[t + 1], Oc[t]))))
      ok_f = sess.prove("reference-offset-facts", And(*facts))
      ctx._rec(ok_f)
      if ok_f.status != "unsat":
        ctx.error("reference offset facts not valid (harness error)")
      else:
        sess.add(*facts)
      lemmas_ok = len(sites) == len(items)
      if lemmas_ok:
        # every executed store of the thread, in program order, is the next item of the reference concatenation
        lem = []
        for n_, ((cname, e, kk, p, colr, v), a) in enumerate(zip(items, sites)):
          L = And(core.zbool(a.guard) == core.zbool(And(act, p)), Implies(a.guard, And(cmp("==", a.idx[1], colr), cmp("==", a.idx[0], w), cmp("==", a.val, v))))
          r = ctx.prove(sess, f"store/{cname}[{e}].{kk}", L, True, names=names, replay=rpg(f"store/{cname}"), desc=f"{key}: the store at {a.where} does not write element {e} (component {kk}) of {cname} to column offset(sig) + {wd}*{e} + {kk} exactly when the bit is set, the element exists and the world is active")
          lemmas_ok = lemmas_ok and r.status == "unsat"
          lem.append(core.zbool(L))
        if lemmas_ok:
          sess.add(*lem)  # proven above: usable as lemmas
      else:
        ctx.notes.append(f"{len(sites)} store sites for {len(items)} reference items: per-store lemmas skipped")
      # final state of the thread's row: reference concatenation laid over the previous contents
      ref = kt.pre(st, w, c2)
      for cname, e, kk, p, colr, v in items:
        ref = ite(And(act, p, cmp("==", colr, c2)), v, ref)
      for t in range(NBITS + 1):
        # split by the reference component the column falls into (t == NBITS: columns beyond size(sig))
        rng = And(cmp(">=", c2, Oc[t]), cmp("<", c2, Oc[t + 1])) if t < NBITS else Or(c2 < 0, cmp(">=", c2, tot))
        nm = COMPS[t][0] if t < NBITS else "beyond"
        ctx.prove(sess, f"layout/final-row/{nm}", cmp("==", kt.post(st, w, c2), ref), rng, names=names2, replay=rpg("layout/final-row"), desc=f"{key}: after the thread, state[w, c] (c in the {nm} range) is not the mj_getState concatenation laid over the previous contents")
      ctx.prove(sess, "layout/beyond-size-untouched", cmp("==", kt.post(st, w, c2), kt.pre(st, w, c2)), Or(Not(act), c2 < 0, cmp(">=", c2, tot)), names=names2, replay=rpg("layout/beyond"), desc=f"{key}: a column >= size(sig) (or a row of an inactive world) is modified")
      for i, (cname, field, s, wd) in enumerate(COMPS):
        if labels[i]:
          idx2 = (w2,) if s is None else (w2, j)
          ctx.prove(sess, f"not-written/{cname}", Not(kt.written(labels[i], *idx2)), True, names=names2, replay=rpg(f"not-written/{cname}"), desc=f"{key}: get_state writes Data.{field}")
    for i, (cname, field, s, wd) in enumerate(COMPS):
      if not labels[i] or which == "get_state":
        continue
      L = labels[i]
      n = 1 if s is None else sz[s]
      guard = And(act, bitof(sig, i), j >= 0, cmp("<", j, n))
      cell = kt.cell(L)
      for kk in range(wd):
        col = arith("+", off[i], arith("+", arith("*", j, wd), kk))
        didx = (w,) if s is None else (w, j)
        got, src = kt.post(L, *didx, k=kk), kt.pre(st, w, col)
        goal = (core.zbool(got) == (src != 0)) if cell.dtype == "bool" else cmp("==", got, src)
        ctx.prove(sess, f"layout/{cname}.{kk}", goal, guard, names=names2, replay=rpg(f"layout/{cname}"), desc=f"{key}: element j of {cname} is not read from offset(sig) + {wd}*j + {kk} of the state vector")
      idx2 = (w2,) if s is None else (w2, j)
      ctx.prove(sess, f"not-written/{cname}", Not(kt.written(L, *idx2)), Or(w2 != w, Not(act), Not(bitof(sig, i))), names=names2, replay=rpg(f"not-written/{cname}"), desc=f"{key}: {field} written although its bit is clear / the world is inactive / another world")
    outside = Or(w2 != w, Not(act), c2 < 0, cmp(">=", c2, tot)) if which == "get_state" else True
    ctx.prove(sess, "not-written/state", Not(kt.written(st, w2, c2)), outside, names=names2, replay=rpg("not-written/state"), desc=f"{key}: state vector written outside [0, size(sig)) of the thread's active world")
    ctx.prove(sess, "not-written/active", Not(kt.written("active_in", w2)), True, names=names2, replay=rpg("not-written/active"), desc=f"{key}: mask written")

  return (f"K/{which}/{'masked' if masked else 'nomask'}/u{U}", run)


# ------------------------------------------------------------------------------------------------ signature validation


def unit_signature(ctx):
  import mujoco

  from mujoco_warp._src import support

  ctx.encode(support.get_state, support.set_state)
  mjm, m, d = build("ball", 2)
  W = mujoco.mj_stateSize(mjm, (1 << NBITS) - 1)
  st = wp.zeros((2, W), dtype=float)
  top = 1 << NBITS
  nq = 0
  for fn in (support.get_state, support.set_state):
    for sig in (-1, -2, -(1 << 13), -(1 << 31), top, top + 1, top | 5, 1 << 20, (1 << 31) - 1):
      nq += 1
      try:
        mujoco.mj_stateSize(mjm, int(sig))
        ctx.error(f"mujoco accepts signature {sig}?")
      except Exception:
        pass
      try:
        fn(m, d, st, sig)
        ctx.violation(f"rejects/{fn.__name__}/{sig}", f"{fn.__name__} accepts the invalid signature {sig} (mj_stateSize raises)", f"{fn.__name__}(m, d, state, {sig}) returned normally")
      except ValueError:
        pass
    for sig in (0, 1, top - 1):
      nq += 1
      try:
        fn(m, d, st, sig)
      except Exception as ex:
        ctx.violation(f"accepts/{fn.__name__}/{sig}", f"{fn.__name__} rejects the valid signature {sig}: {ex}", f"{fn.__name__}(m, d, state, {sig}) raised {type(ex).__name__}")
  # pass-through of sig / launch dim (host code between validation and launch), enumerated on the real host functions
  sigs = sorted(set([1 << i for i in range(NBITS)] + list(range(0, top, 31 if ctx.tier == "thorough" else 409)) + [top - 1]))
  act = wp.ones(2, dtype=bool)
  bad = []
  for fn in (support.get_state, support.set_state):
    for sig in sigs:
      for a in (None, act):
        got = []
        with host.HostRun(mode="trace", on_launch=lambda hr, k, dim, args: got.append((int(args[[x.label for x in k.adj.args].index("sig_in")]), tuple(dim)))) as hr:
          fn(m, d, st, sig, a)
        if got != [(sig, (2,))]:
          bad.append((fn.__name__, sig, got))
  ctx.bound(signatures_traced=len(sigs))
  if bad:
    ctx.violation("sig-pass-through", f"host launches the kernel with a different signature / dim than requested: {bad[:3]}", f"trace of {bad[0][0]}(m, d, state, {bad[0][1]}): launch (sig, dim) = {bad[0][2]}")
  sess = ctx.session([])
  ctx.reach(sess, "twin:native-calls-done", nq > 0)


def main(tier, seed, only=None):
  th = tier == "thorough"
  units = [("reference/mujoco", unit_reference), ("signature", unit_signature)]
  nworld = 3 if th else 2
  for kind in ("get", "set", "set-get", "get-set"):
    units.append(unit_h(kind, "ball", True, nworld))
  if th:
    units.append(unit_h("get", "ball", False, 2))
    units.append(unit_h("set", "ball", False, 2))
    for kind in ("get", "set", "set-get", "get-set"):
      units.append(unit_h(kind, "free", True, 2))
  for which in ("get_state", "set_state"):
    for masked in (True, False):
      units.append(unit_k(which, masked, 2))
      if th:
        units.append(unit_k(which, masked, 3))
  if only:
    units = [u for u in units if any(o in u[0] for o in only)]
  # unit budget well above the usual 30-80 s per unit: the machine is shared
  return report.run_check(PID, units, tier, seed, unit_timeout=900 if not th else 1800)
