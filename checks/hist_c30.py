"""Reference models for C30 (history buffers), written from MuJoCo's documented/observable semantics of delay buffers
(mj_readCtrl / mj_readSensor / mj_initCtrlHistory / mj_step) -- polymorphic over python floats and z3 terms.

Abstract state of one buffer: S = [(tau_0, [x_0..]), ..., (tau_{n-1}, [..])] in LOGICAL order (oldest -> newest), plus the
`user` slot (sensors with an interval: time of the last accepted sample).

EPS: the float32 implementation treats a query within EPS *below* a stored sample time as that sample (MuJoCo, in
float64, compares exactly: eps = 0).  All references take eps as a parameter: eps = 0 is validated numerically against the
mujoco library, eps = EPS is what the solver compares the implementation with.
"""

from wsym import core
from wsym.core import And, Not, Or, arith, cmp, ite

EPS = 1e-6


def add(a, b):
  return arith("+", a, b)


def sub(a, b):
  return arith("-", a, b)


def mul(a, b):
  return arith("*", a, b)


def div(a, b):
  if not core.is_sym(a) and not core.is_sym(b) and b == 0:
    return 0.0  # unreachable branch of a concrete evaluation (guarded by the caller's conditions)
  return arith("/", a, b)


def merge(cases, default):
  """cases: list of (cond, value) with mutually exclusive conds -> nested ite"""
  r = default
  for c, v in reversed(cases):
    if isinstance(v, list):
      r = [merge([(c, x)], y) for x, y in zip(v, r)]
    elif isinstance(v, tuple):
      r = tuple(merge([(c, x)], y) for x, y in zip(v, r))
    else:
      r = ite(c, v, r)
  return r


def hermite(x0, x1, h, m0, m1, a):
  """cubic Hermite segment on [0,1] (parameter a), end values x0, x1, end slopes m0, m1, interval length h (Horner form)"""
  c1 = mul(h, m0)
  c2 = sub(mul(3.0, sub(x1, x0)), mul(h, add(mul(2.0, m0), m1)))
  c3 = add(mul(2.0, sub(x0, x1)), mul(h, add(m0, m1)))
  return add(x0, mul(a, add(c1, mul(a, add(c2, mul(a, c3))))))


def segment(S, i, t, interp, eps, d):
  """value of component d for tau_{i-1} < t <= tau_i  (1 <= i <= n-1)"""
  n = len(S)
  t0, t1 = S[i - 1][0], S[i][0]
  x0, x1 = S[i - 1][1][d], S[i][1][d]
  h = sub(t1, t0)
  a = div(sub(t, t0), h)
  lin = add(x0, mul(a, sub(x1, x0)))
  # Catmull-Rom slopes by central finite differences over the neighbouring samples, zero at the buffer ends
  m0 = div(sub(x1, S[i - 2][1][d]), sub(t1, S[i - 2][0])) if i >= 2 else 0.0
  m1 = div(sub(S[i + 1][1][d], x0), sub(S[i + 1][0], t0)) if i <= n - 2 else 0.0
  cub = hermite(x0, x1, h, m0, m1, a)
  val = ite(cmp("==", interp, 0), x0, ite(cmp("==", interp, 1), lin, cub))
  return ite(cmp("<", sub(t1, t), eps) if eps else cmp("==", t, t1), x1, val)


def ref_read(S, t, interp, eps=0.0):
  """-> list of dim values: zero-order hold (0) / linear (1) / cubic (2) interpolant of the bracketing samples, clamped to the
  oldest / newest sample outside the stored time range"""
  n = len(S)
  dim = len(S[0][1])
  out = []
  for d in range(dim):
    r = S[n - 1][1][d]
    for i in range(n - 1, 0, -1):
      r = ite(And(cmp("<", S[i - 1][0], t), cmp("<=", t, S[i][0])), segment(S, i, t, interp, eps, d), r)
    r = ite(cmp(">=", t, sub(S[n - 1][0], eps)), S[n - 1][1][d], r)
    r = ite(cmp("<=", t, add(S[0][0], eps)), S[0][1][d], r)
    out.append(r)
  return out


def ref_find(S, t):
  """logical index i with tau_{i-1} < t <= tau_i; 0 if t <= tau_0; n if t > tau_{n-1}"""
  n = len(S)
  r = n
  for i in range(n - 1, -1, -1):
    r = ite(cmp("<=", t, S[i][0]), i, r)
  return r


def ref_insert(S, t, v, eps=0.0):
  """-> (S', appended): insert sample (t, v) keeping the n most recent samples sorted by time.
  same time as a stored sample -> its value is replaced; newer than all -> appended (oldest dropped, cursor advances);
  otherwise the oldest sample is dropped and the new one takes its sorted place (older than all: it replaces the oldest)."""
  n = len(S)
  new = (t, list(v))
  cases = []
  appended = cmp(">", t, S[n - 1][0])
  for i in range(n):
    inb = cmp("<=", t, S[i][0]) if i == 0 else And(cmp("<", S[i - 1][0], t), cmp("<=", t, S[i][0]))
    match = cmp("<", sub(S[i][0], t), eps) if eps else cmp("==", t, S[i][0])
    repl = [(S[k][0], list(v) if k == i else list(S[k][1])) for k in range(n)]
    cases.append((And(inb, match), repl))
    if i == 0:
      ins = [new] + [S[k] for k in range(1, n)]
    else:
      ins = [S[k] for k in range(1, i)] + [new] + [S[k] for k in range(i, n)]
    cases.append((And(inb, Not(match)), [(a, list(b)) for a, b in ins]))
  app = [(S[k][0], list(S[k][1])) for k in range(1, n)] + [new]
  out = merge([(c, [(a, list(b)) for a, b in s]) for c, s in cases], app)
  return out, appended


def mj_initial(n, dim, period):
  """MuJoCo's initial buffer (mj_resetData): samples at -(n-i)*period with value 0 (period = timestep, or the sensor interval)"""
  return [(-(n - i) * period, [0.0] * dim) for i in range(n)]


class Line:
  """ideal delay line of one actuator (dim 1) or sensor: the reference state machine of one buffer"""

  def __init__(self, n, dim, delay, interp, interval, timestep, eps=0.0, is_sensor=False):
    self.n, self.dim, self.delay, self.interp, self.interval, self.eps = n, dim, delay, interp, interval, eps
    period = interval if (is_sensor and interval > 0) else timestep
    self.S = mj_initial(n, dim, period)
    self.user = -period if is_sensor else 0.0
    self.is_sensor = is_sensor

  def read_ctrl(self, t, ctrl_now):
    if self.delay == 0:
      return ctrl_now
    return ref_read(self.S, sub(t, self.delay), self.interp, self.eps)[0]

  def insert(self, t, v):
    self.S, _ = ref_insert(self.S, t, v, self.eps)

  def sensor(self, t, fresh):
    """-> reported value at time t given the freshly computed value; then records the fresh value"""
    if self.delay > 0:
      out = ref_read(self.S, sub(t, self.delay), self.interp, self.eps)
    elif self.interval > 0:
      due = cmp("<=", add(self.user, self.interval), t)
      held = ref_read(self.S, t, self.interp, self.eps)
      out = [ite(due, f, h) for f, h in zip(fresh, held)]
    else:
      out = list(fresh)
    if self.interval > 0:
      due = cmp("<=", add(self.user, self.interval), t)
      S2, _ = ref_insert(self.S, t, fresh, self.eps)
      self.S = merge([(due, S2)], self.S)
      self.user = ite(due, add(self.user, self.interval), self.user)
    else:
      self.S, _ = ref_insert(self.S, t, fresh, self.eps)
    return out
