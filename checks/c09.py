"""C09 Worlds in a batch do not influence each other: per-thread world-index discipline over every encodable kernel."""
from checks import worldidx


def main(tier, seed, only=None):
  return worldidx.main("C09", tier, seed, only)
